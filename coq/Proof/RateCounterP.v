(* Proofs about Model/RateCounter.v (property C15): the ring of 1 ms buckets is
   an exact sliding window. *)
From Coq Require Import ZArith List Bool Lia.
From AV Require Import Lib.Sx Model.RateCounter.
Import ListNotations.
Local Open Scope Z_scope.

(* ---------------------------------------------------------------- samples *)
Definition sample := (Z * Z)%type.                     (* (arrival time, value) *)

Fixpoint cnt (P : Z -> bool) (l : list sample) : Z :=
  match l with
  | [] => 0
  | s :: l' => (if P (fst s) then 1 else 0) + cnt P l'
  end.

Fixpoint vsum (P : Z -> bool) (l : list sample) : Z :=
  match l with
  | [] => 0
  | s :: l' => (if P (fst s) then snd s else 0) + vsum P l'
  end.

(* time of the first sample (lists are newest first) *)
Fixpoint oldest (l : list sample) : option Z :=
  match l with
  | [] => None
  | s :: l' => match oldest l' with Some f => Some f | None => Some (fst s) end
  end.

Lemma cnt_ext P Q l : (forall t v, In (t, v) l -> P t = Q t) -> cnt P l = cnt Q l.
Proof.
  induction l as [|[t v] l IH]; intros H; cbn [cnt fst]; [reflexivity|].
  rewrite (H t v) by now left. rewrite IH; [reflexivity|]. intros t' v' Hin. apply (H t' v'). now right.
Qed.

Lemma vsum_ext P Q l : (forall t v, In (t, v) l -> P t = Q t) -> vsum P l = vsum Q l.
Proof.
  induction l as [|[t v] l IH]; intros H; cbn [vsum fst snd]; [reflexivity|].
  rewrite (H t v) by now left. rewrite IH; [reflexivity|]. intros t' v' Hin. apply (H t' v'). now right.
Qed.

Lemma cnt_none P l : (forall t v, In (t, v) l -> P t = false) -> cnt P l = 0.
Proof.
  induction l as [|[t v] l IH]; intros H; cbn [cnt fst]; [reflexivity|].
  rewrite (H t v) by now left. rewrite IH; [reflexivity|]. intros t' v' Hin. apply (H t' v'). now right.
Qed.

Lemma vsum_none P l : (forall t v, In (t, v) l -> P t = false) -> vsum P l = 0.
Proof.
  induction l as [|[t v] l IH]; intros H; cbn [vsum fst snd]; [reflexivity|].
  rewrite (H t v) by now left. rewrite IH; [reflexivity|]. intros t' v' Hin. apply (H t' v'). now right.
Qed.

Lemma cnt_split om l : cnt (Z.leb (om + 1)) l = cnt (Z.leb om) l - cnt (Z.eqb om) l.
Proof.
  induction l as [|[t v] l IH]; cbn [cnt fst]; [reflexivity|]. rewrite IH.
  destruct (Z.leb_spec (om + 1) t), (Z.leb_spec om t), (Z.eqb_spec om t); lia.
Qed.

Lemma vsum_split om l : vsum (Z.leb (om + 1)) l = vsum (Z.leb om) l - vsum (Z.eqb om) l.
Proof.
  induction l as [|[t v] l IH]; cbn [vsum fst snd]; [reflexivity|]. rewrite IH.
  destruct (Z.leb_spec (om + 1) t), (Z.leb_spec om t), (Z.eqb_spec om t); lia.
Qed.

Lemma cnt_nonneg P l : 0 <= cnt P l.
Proof. induction l as [|s l IH]; cbn [cnt]; [lia|]. destruct (P (fst s)); lia. Qed.

Lemma vsum_nonneg P l : (forall t v, In (t, v) l -> 0 <= v) -> 0 <= vsum P l.
Proof.
  induction l as [|[t v] l IH]; intros H; cbn [vsum fst snd]; [lia|].
  assert (0 <= v) by (apply (H t v); now left).
  assert (0 <= vsum P l) by (apply IH; intros t' v' Hin; apply (H t' v'); now right).
  destruct (P t); lia.
Qed.

Lemma vsum_le_all P l : (forall t v, In (t, v) l -> 0 <= v) -> vsum P l <= vsum (fun _ => true) l.
Proof.
  induction l as [|[t v] l IH]; intros H; cbn [vsum fst snd]; [lia|].
  assert (0 <= v) by (apply (H t v); now left).
  assert (vsum P l <= vsum (fun _ => true) l) by (apply IH; intros t' v' Hin; apply (H t' v'); now right).
  destruct (P t); lia.
Qed.

(* ---------------------------------------------------------------- lists *)
Lemma upd_spec {A} (l : list A) n f :
  (n < length l)%nat ->
  exists l', upd l n f = Some l' /\ length l' = length l /\
             forall m, nth_error l' m = if Nat.eqb m n then option_map f (nth_error l n) else nth_error l m.
Proof.
  revert n. induction l as [|x l IH]; intros n Hn; cbn [length] in Hn; [lia|].
  destruct n as [|n]; cbn [upd].
  - exists (f x :: l). split; [reflexivity|]. split; [reflexivity|].
    intros [|m]; reflexivity.
  - destruct (IH n) as (l' & E & Hl & Hnth); [lia|]. rewrite E.
    exists (x :: l'). split; [reflexivity|]. split; [cbn [length]; lia|].
    intros [|m]; cbn [nth_error Nat.eqb]; [reflexivity|]. apply Hnth.
Qed.

Lemma nth_error_repeat_lt {A} (a : A) n k : (k < n)%nat -> nth_error (repeat a n) k = Some a.
Proof.
  revert k. induction n as [|n IH]; intros k Hk; [lia|].
  destruct k as [|k]; cbn [repeat nth_error]; [reflexivity|]. apply IH. lia.
Qed.

(* ---------------------------------------------------------------- modular indices *)
Lemma mod_inj w a i j :
  0 < w -> 0 <= i < w -> 0 <= j < w -> (a + i) mod w = (a + j) mod w -> i = j.
Proof.
  intros Hw Hi Hj E.
  assert (D : (i - j) mod w = 0).
  { replace (i - j) with ((a + i) - (a + j)) by lia.
    rewrite Zminus_mod, E, Z.sub_diag. apply Z.mod_0_l. lia. }
  apply Z.mod_divide in D; [|lia]. destruct D as [k Hk].
  assert (k = 0) by nia. lia.
Qed.

Lemma mod_shift w a i : 0 < w -> ((a + 1) mod w + i) mod w = (a + (i + 1)) mod w.
Proof. intros Hw. rewrite Zplus_mod_idemp_l. f_equal. lia. Qed.

(* ---------------------------------------------------------------- ring invariant *)
Definition tally (P : Z -> bool) (smp : list sample) : bucket := (cnt P smp, vsum P smp).

(* origin_ms = Some om; bucket (origin_index + i) mod W holds exactly the
   samples of millisecond om + i; the total is exactly the samples from om on *)
Definition R (s : rc) (smp : list sample) (om : Z) : Prop :=
  0 < window_size s /\
  length (buckets s) = Z.to_nat (window_size s) /\
  0 <= origin_index s < window_size s /\
  origin_ms s = Some om /\
  (forall i, 0 <= i < window_size s ->
     nth_error (buckets s) (Z.to_nat ((origin_index s + i) mod window_size s)) = Some (tally (Z.eqb (om + i)) smp)) /\
  total s = tally (Z.leb om) smp /\
  (forall t v, In (t, v) smp -> t <= om + window_size s - 1).

Lemma erase_step_ok s smp om :
  R s smp om ->
  exists s', erase_step s om = Ok s' /\ R s' smp (om + 1) /\
             window_size s' = window_size s /\ scale s' = scale s.
Proof.
  intros (Hw & Hlen & Hoi & Hom & Hb & Htot & Hs).
  unfold erase_step.
  destruct (Z.ltb_spec (origin_index s) 0) as [Hneg|_]; [lia|].
  pose proof (Hb 0 ltac:(lia)) as H0. rewrite !Z.add_0_r, Z.mod_small in H0 by lia.
  rewrite H0.
  destruct (upd_spec (buckets s) (Z.to_nat (origin_index s)) (fun _ => (0, 0))) as (bs & E & Hl & Hnth); [lia|].
  rewrite E. destruct (Z.eqb_spec (window_size s) 0) as [Hz|_]; [lia|].
  eexists. split; [reflexivity|]. split; [|split; reflexivity].
  unfold R; cbn [window_size buckets origin_index origin_ms total scale].
  split; [exact Hw|]. split; [lia|]. split; [apply Z.mod_pos_bound; lia|]. split; [reflexivity|].
  split; [|split].
  - intros i Hi. rewrite mod_shift by lia. rewrite Hnth.
    destruct (Nat.eqb_spec (Z.to_nat ((origin_index s + (i + 1)) mod window_size s)) (Z.to_nat (origin_index s))) as [En|Nn].
    + (* the wrapped bucket: i + 1 = W, no sample is that new *)
      apply Z2Nat.inj in En; [|apply Z.mod_pos_bound; lia|lia].
      assert (Hi1 : i + 1 = window_size s).
      { destruct (Z.eq_dec (i + 1) (window_size s)) as [e|ne]; [exact e|].
        exfalso. assert (i + 1 = 0); [|lia].
        apply (mod_inj (window_size s) (origin_index s)); [lia|lia|lia|].
        rewrite Z.add_0_r, (Z.mod_small (origin_index s)) by lia. exact En. }
      rewrite H0. cbn [option_map]. unfold tally. f_equal.
      rewrite cnt_none, vsum_none; [reflexivity| |];
        intros t v Hin; apply Hs in Hin; apply Z.eqb_neq; lia.
    + rewrite (Hb (i + 1)).
      * replace (om + 1 + i) with (om + (i + 1)) by lia. reflexivity.
      * split; [lia|]. destruct (Z.eq_dec (i + 1) (window_size s)) as [e|ne]; [|lia].
        exfalso. apply Nn. rewrite e.
        replace (origin_index s + window_size s) with (origin_index s + 1 * window_size s) by lia.
        rewrite Z.mod_add by lia. rewrite Z.mod_small by lia. reflexivity.
  - rewrite Htot. unfold tally. cbn [fst snd]. now rewrite cnt_split, vsum_split.
  - intros t v Hin. apply Hs in Hin. lia.
Qed.

Lemma erase_loop_ok fuel : forall s smp om no,
  R s smp om -> (Z.to_nat (no - om) <= fuel)%nat ->
  exists s', erase_loop fuel s no = Ok s' /\ R s' smp (Z.max om no) /\
             window_size s' = window_size s /\ scale s' = scale s.
Proof.
  induction fuel as [|fuel IH]; intros s smp om no HR Hf.
  - assert (Hom : origin_ms s = Some om) by apply HR.
    cbn [erase_loop]. rewrite Hom. destruct (Z.ltb_spec om no) as [Hlt|Hge]; [lia|].
    exists s. rewrite Z.max_l by lia. auto.
  - assert (Hom : origin_ms s = Some om) by apply HR.
    cbn [erase_loop]. rewrite Hom. destruct (Z.ltb_spec om no) as [Hlt|Hge].
    + destruct (erase_step_ok s smp om HR) as (s1 & E1 & R1 & W1 & S1). rewrite E1.
      destruct (IH s1 smp (om + 1) no R1) as (s2 & E2 & R2 & W2 & S2); [lia|].
      exists s2. rewrite E2. replace (Z.max om no) with (Z.max (om + 1) no) by lia.
      split; [reflexivity|]. split; [exact R2|]. split; congruence.
    + exists s. rewrite Z.max_l by lia. auto.
Qed.

Lemma erase_old_ok s smp om now :
  R s smp om ->
  exists s', erase_old s now = Ok s' /\ R s' smp (Z.max om (now - window_size s + 1)) /\
             window_size s' = window_size s /\ scale s' = scale s.
Proof.
  intros HR. unfold erase_old, erase_fuel.
  assert (Hom : origin_ms s = Some om) by apply HR. rewrite Hom.
  apply erase_loop_ok; [exact HR|lia].
Qed.

(* the part of add() after the origin is settled *)
Lemma add_body_ok s smp om value now :
  R s smp om -> om <= now <= om + window_size s - 1 ->
  exists s', add_tail s value now = Ok s' /\ R s' ((now, value) :: smp) om /\
             window_size s' = window_size s /\ scale s' = scale s.
Proof.
  intros (Hw & Hlen & Hoi & Hom & Hb & Htot & Hs) Hnow.
  unfold add_tail. rewrite Hom.
  destruct (Z.eqb_spec (window_size s) 0) as [Hz|_]; [lia|].
  set (i := now - om).
  replace (origin_index s + now - om) with (origin_index s + i) by (unfold i; lia).
  assert (Hi : 0 <= i < window_size s) by (unfold i; lia).
  pose proof (Z.mod_pos_bound (origin_index s + i) (window_size s) Hw) as Hidx.
  destruct (Z.ltb_spec ((origin_index s + i) mod window_size s) 0) as [Hneg|_]; [lia|].
  destruct (upd_spec (buckets s) (Z.to_nat ((origin_index s + i) mod window_size s))
              (fun b => (fst b + 1, snd b + value))) as (bs & E & Hl & Hnth); [lia|].
  rewrite E. eexists. split; [reflexivity|]. split; [|split; reflexivity].
  unfold R; cbn [window_size buckets origin_index origin_ms total scale].
  split; [exact Hw|]. split; [lia|]. split; [exact Hoi|]. split; [reflexivity|].
  split; [|split].
  - intros j Hj. rewrite Hnth.
    destruct (Nat.eqb_spec (Z.to_nat ((origin_index s + j) mod window_size s))
                           (Z.to_nat ((origin_index s + i) mod window_size s))) as [En|Nn].
    + apply Z2Nat.inj in En; [|apply Z.mod_pos_bound; lia|lia].
      apply mod_inj in En; [|lia|lia|lia]. subst j.
      rewrite (Hb i Hi). cbn [option_map]. unfold tally. cbn [fst snd cnt vsum].
      replace (om + i) with now by (unfold i; lia). rewrite Z.eqb_refl. do 2 f_equal; lia.
    + rewrite (Hb j Hj). unfold tally. cbn [fst snd cnt vsum].
      destruct (Z.eqb_spec (om + j) now) as [e|_]; [|reflexivity].
      exfalso. apply Nn. do 3 f_equal. unfold i. lia.
  - rewrite Htot. unfold tally. cbn [fst snd cnt vsum].
    destruct (Z.leb_spec om now); [|lia]. f_equal; lia.
  - intros t v [Hin|Hin]; [injection Hin as <- <-; lia|]. now apply Hs in Hin.
Qed.

(* ---------------------------------------------------------------- history invariant *)
(* `last` is the time of the latest add/rate call *)
Definition Inv (s : rc) (smp : list sample) (last : option Z) : Prop :=
  match origin_ms s with
  | None =>
      0 < window_size s /\ smp = [] /\
      buckets s = repeat (0, 0) (Z.to_nat (window_size s)) /\ origin_index s = 0 /\ total s = (0, 0)
  | Some om =>
      exists l f,
        last = Some l /\ R s smp om /\ l - window_size s + 1 <= om <= l /\
        (forall t v, In (t, v) smp -> t <= l /\ (t < om -> t <= l - window_size s)) /\
        oldest smp = Some f /\ om = Z.max f (l - window_size s + 1)
  end.

Definition le_opt (last : option Z) (t : Z) : Prop :=
  match last with Some l => l <= t | None => True end.

Lemma Inv_init w sc : 0 < w -> Inv (init w sc) [] None.
Proof. intros Hw. unfold Inv, init, reset. cbn. auto. Qed.

Lemma Inv_reset s smp last : Inv s smp last -> Inv (reset s) [] last.
Proof.
  intros H. assert (Hw : 0 < window_size s).
  { unfold Inv in H. destruct (origin_ms s); [destruct H as (l & f & _ & HR & _); apply HR|apply H]. }
  unfold Inv, reset. cbn. auto.
Qed.

Lemma R_fresh s now :
  0 < window_size s -> buckets s = repeat (0, 0) (Z.to_nat (window_size s)) -> origin_index s = 0 ->
  total s = (0, 0) ->
  R (mkRc (buckets s) (origin_index s) (Some now) (total s) (window_size s) (scale s)) [] now.
Proof.
  intros Hw Hb Hoi Ht. unfold R; cbn [window_size buckets origin_index origin_ms total scale].
  split; [exact Hw|]. split; [rewrite Hb; apply repeat_length|]. split; [lia|]. split; [reflexivity|].
  split; [|split].
  - intros i Hi. rewrite Hb. apply nth_error_repeat_lt.
    pose proof (Z.mod_pos_bound (origin_index s + i) (window_size s) Hw). lia.
  - exact Ht.
  - intros t v [].
Qed.

(* what erase_old at time now >= last establishes *)
Lemma Inv_advance s smp l now :
  Inv s smp (Some l) -> l <= now -> forall om, origin_ms s = Some om ->
  exists s', erase_old s now = Ok s' /\ Inv s' smp (Some now) /\
             origin_ms s' = Some (Z.max om (now - window_size s + 1)) /\
             window_size s' = window_size s /\ scale s' = scale s.
Proof.
  intros HI Hle om Hom. unfold Inv in HI. rewrite Hom in HI.
  destruct HI as (l' & f & El & HR & Hol & Hsm & Hf & Homf). injection El as <-.
  destruct (erase_old_ok s smp om now HR) as (s' & E & HR' & W' & S').
  exists s'. split; [exact E|].
  assert (Hom' : origin_ms s' = Some (Z.max om (now - window_size s + 1))) by apply HR'.
  split; [|auto]. unfold Inv. rewrite Hom'. exists now, f. rewrite W'.
  split; [reflexivity|]. split; [exact HR'|]. split; [lia|]. split; [|split; [exact Hf|lia]].
  intros t v Hin. destruct (Hsm t v Hin) as [H1 H2]. split; [lia|]. intros Hlt.
  destruct (Z.lt_ge_cases t om) as [Ho|Ho]; [apply H2 in Ho; lia|lia].
Qed.

Lemma oldest_cons t v smp :
  oldest ((t, v) :: smp) = match oldest smp with Some f => Some f | None => Some t end.
Proof. reflexivity. Qed.

Lemma add_ok s smp last value now :
  Inv s smp last -> le_opt last now ->
  exists s', add s value now = Ok s' /\ Inv s' ((now, value) :: smp) (Some now) /\
             window_size s' = window_size s /\ scale s' = scale s.
Proof.
  intros HI Hle. unfold add. destruct (origin_ms s) as [om|] eqn:Hom.
  - unfold Inv in HI. rewrite Hom in HI. destruct HI as (l & f & -> & HI').
    assert (HI : Inv s smp (Some l)) by (unfold Inv; rewrite Hom; exists l, f; auto).
    cbn [le_opt] in Hle.
    destruct (Inv_advance s smp l now HI Hle om Hom) as (s1 & E1 & I1 & O1 & W1 & S1).
    rewrite E1. unfold Inv in I1. rewrite O1 in I1.
    destruct I1 as (l1 & f1 & El1 & R1 & B1 & Sm1 & F1 & Of1). injection El1 as <-.
    destruct (add_body_ok s1 smp _ value now R1) as (s2 & E2 & R2 & W2 & S2); [lia|].
    exists s2. split; [exact E2|]. split; [|split; congruence].
    assert (O2 : origin_ms s2 = Some (Z.max om (now - window_size s + 1))) by apply R2.
    unfold Inv. rewrite O2. exists now, f1. rewrite W2.
    split; [reflexivity|]. split; [exact R2|]. split; [lia|]. split; [|split].
    + intros t v [Hin|Hin]; [injection Hin as <- <-; lia|].
      destruct (Sm1 t v Hin) as [Ha Hc]. split; [lia|]. intros Hlt. apply Hc. exact Hlt.
    + rewrite oldest_cons, F1. reflexivity.
    + exact Of1.
  - unfold Inv in HI. rewrite Hom in HI. destruct HI as (Hw & -> & Hb & Hoi & Ht).
    pose proof (R_fresh s now Hw Hb Hoi Ht) as R1.
    destruct (add_body_ok _ [] now value now R1) as (s2 & E2 & R2 & W2 & S2);
      [cbn [window_size]; lia|].
    exists s2. split; [exact E2|]. split; [|split; [exact W2|exact S2]].
    assert (O2 : origin_ms s2 = Some now) by apply R2.
    unfold Inv. rewrite O2. exists now, now. rewrite W2. cbn [window_size].
    split; [reflexivity|]. split; [exact R2|]. split; [lia|]. split; [|split; [reflexivity|lia]].
    intros t v [Hin|[]]. injection Hin as <- <-. lia.
Qed.

Definition in_window (w now t : Z) : bool := (now - w <? t) && (t <=? now).

(* rate(now) as a function of the history: the samples of (now - W, now] over
   the active part of the window *)
Definition rate_spec (w sc : Z) (smp : list sample) (now : Z) : option Z :=
  match oldest smp with
  | None => None
  | Some f =>
      let active := now - Z.max f (now - w + 1) + 1 in
      if (0 <? cnt (in_window w now) smp) && (1 <? active)
      then Some (round_div (sc * vsum (in_window w now) smp) active)
      else None
  end.

Lemma rate_ok s smp last now :
  Inv s smp last -> le_opt last now ->
  exists s', rate s now = Ok (s', rate_spec (window_size s) (scale s) smp now) /\
             Inv s' smp (match origin_ms s with Some _ => Some now | None => last end) /\
             (origin_ms s <> None -> total s' = tally (in_window (window_size s) now) smp) /\
             window_size s' = window_size s /\ scale s' = scale s.
Proof.
  intros HI Hle. unfold rate. destruct (origin_ms s) as [om|] eqn:Hom.
  - pose proof HI as HI0. unfold Inv in HI. rewrite Hom in HI. destruct HI as (l & f & -> & HI').
    cbn [le_opt] in Hle.
    destruct (Inv_advance s smp l now HI0 Hle om Hom) as (s1 & E1 & I1 & O1 & W1 & S1).
    rewrite E1, O1. pose proof I1 as I1'. unfold Inv in I1. rewrite O1 in I1.
    destruct I1 as (l1 & f1 & El1 & R1 & B1 & Sm1 & F1 & Of1). injection El1 as <-.
    set (om1 := Z.max om (now - window_size s + 1)) in *.
    assert (Ht : total s1 = tally (in_window (window_size s) now) smp).
    { destruct R1 as (_ & _ & _ & _ & _ & Ht & _). rewrite Ht. unfold tally. f_equal.
      - apply cnt_ext. intros t v Hin. destruct (Sm1 t v Hin) as [H1 H2]. rewrite W1 in H2.
        unfold in_window. destruct (Z.leb_spec om1 t), (Z.ltb_spec (now - window_size s) t), (Z.leb_spec t now);
          cbn [andb]; try reflexivity; lia.
      - apply vsum_ext. intros t v Hin. destruct (Sm1 t v Hin) as [H1 H2]. rewrite W1 in H2.
        unfold in_window. destruct (Z.leb_spec om1 t), (Z.ltb_spec (now - window_size s) t), (Z.leb_spec t now);
          cbn [andb]; try reflexivity; lia. }
    exists s1. split; [|split; [exact I1'|split; [intros _; exact Ht|auto]]].
    unfold rate_spec. rewrite F1. rewrite Ht. unfold tally. cbn [fst snd]. rewrite S1.
    replace (now - Z.max f1 (now - window_size s + 1) + 1) with (now - om1 + 1) by (rewrite W1 in Of1; lia).
    destruct (_ && _); reflexivity.
  - exists s. unfold Inv in HI. rewrite Hom in HI. destruct HI as (Hw & -> & Hb & Hoi & Ht).
    split; [reflexivity|]. split; [|split; [congruence|auto]].
    unfold Inv. rewrite Hom. auto.
Qed.

(* two readings of the invariant used by the RemoteBitrateEstimator proofs *)
Lemma Inv_samples_le s smp l : Inv s smp (Some l) -> forall t v, In (t, v) smp -> t <= l.
Proof.
  unfold Inv. destruct (origin_ms s) as [om|].
  - intros (l' & f & [= <-] & _ & _ & Hsm & _) t v Hin. apply (Hsm t v Hin).
  - intros (_ & -> & _) t v [].
Qed.

Lemma Inv_total s smp l : Inv s smp (Some l) -> total s = tally (in_window (window_size s) l) smp.
Proof.
  unfold Inv. destruct (origin_ms s) as [om|].
  - intros (l' & f & [= <-] & HR & Hol & Hsm & _).
    destruct HR as (_ & _ & _ & _ & _ & Ht & _). rewrite Ht. unfold tally. f_equal.
    + apply cnt_ext. intros t v Hin. destruct (Hsm t v Hin) as [H1 H2].
      unfold in_window. destruct (Z.leb_spec om t), (Z.ltb_spec (l - window_size s) t), (Z.leb_spec t l);
        cbn [andb]; try reflexivity; lia.
    + apply vsum_ext. intros t v Hin. destruct (Hsm t v Hin) as [H1 H2].
      unfold in_window. destruct (Z.leb_spec om t), (Z.ltb_spec (l - window_size s) t), (Z.leb_spec t l);
        cbn [andb]; try reflexivity; lia.
  - intros (_ & -> & _ & _ & Ht). rewrite Ht. reflexivity.
Qed.

Lemma cnt_zero_all P l : cnt P l = 0 -> forall t v, In (t, v) l -> P t = false.
Proof.
  induction l as [|[t0 v0] l IH]; cbn [cnt fst]; intros H t v Hin; [destruct Hin|].
  pose proof (cnt_nonneg P l). destruct (P t0) eqn:E; [lia|].
  destruct Hin as [Hin|Hin]; [injection Hin as <- <-; exact E|]. apply (IH ltac:(lia) t v Hin).
Qed.

Lemma cnt_app P a b : cnt P (a ++ b) = cnt P a + cnt P b.
Proof. induction a as [|x a IH]; cbn [app cnt]; [lia|]. rewrite IH. lia. Qed.

Lemma vsum_app P a b : vsum P (a ++ b) = vsum P a + vsum P b.
Proof. induction a as [|x a IH]; cbn [app vsum]; [lia|]. rewrite IH. lia. Qed.

(* ---------------------------------------------------------------- histories *)
Definition op_time (o : op) : option Z :=
  match o with Add _ t => Some t | Rate t => Some t | Reset => None end.

Fixpoint times (ops : list op) : list Z :=
  match ops with
  | [] => []
  | o :: r => match op_time o with Some t => t :: times r | None => times r end
  end.

Fixpoint nondecreasing (l : list Z) : Prop :=
  match l with
  | a :: r => match r with b :: _ => a <= b | [] => True end /\ nondecreasing r
  | [] => True
  end.

(* samples since the last reset, newest first *)
Fixpoint samples_after (acc : list sample) (ops : list op) : list sample :=
  match ops with
  | [] => acc
  | Add v t :: r => samples_after ((t, v) :: acc) r
  | Rate _ :: r => samples_after acc r
  | Reset :: r => samples_after [] r
  end.

Definition ocons (last : option Z) (l : list Z) : list Z :=
  match last with Some x => x :: l | None => l end.

Lemma nondecreasing_tail a l : nondecreasing (a :: l) -> nondecreasing l.
Proof. cbn [nondecreasing]. tauto. Qed.

(* state after a history whose clock (together with a final time `now`) never goes back *)
Lemma run_inv ops : forall s smp last now,
  Inv s smp last -> nondecreasing (ocons last (times ops ++ [now])) ->
  exists s' outs last',
    run s ops = (s', outs, 0) /\ Inv s' (samples_after smp ops) last' /\ le_opt last' now /\
    window_size s' = window_size s /\ scale s' = scale s.
Proof.
  induction ops as [|o ops IH]; intros s smp last now HI Hm.
  - exists s, [], last. cbn [run samples_after]. split; [reflexivity|]. split; [exact HI|].
    split; [|auto]. destruct last as [l|]; cbn [le_opt]; [|exact I].
    cbn [ocons times app nondecreasing] in Hm. lia.
  - destruct o as [v t|t|]; cbn [run step samples_after].
    + assert (Hlt : le_opt last t).
      { destruct last as [l|]; cbn [le_opt]; [|exact I]. cbn in Hm. lia. }
      destruct (add_ok s smp last v t HI Hlt) as (s1 & E1 & I1 & W1 & S1). rewrite E1.
      destruct (IH s1 ((t, v) :: smp) (Some t) now I1) as (s2 & outs & last2 & E2 & I2 & L2 & W2 & S2).
      { destruct last as [l|]; cbn [ocons times op_time app] in Hm |- *; [apply nondecreasing_tail in Hm|]; exact Hm. }
      rewrite E2. exists s2, (ONone :: outs), last2. split; [reflexivity|]. split; [exact I2|].
      split; [exact L2|]. split; congruence.
    + assert (Hlt : le_opt last t).
      { destruct last as [l|]; cbn [le_opt]; [|exact I]. cbn in Hm. lia. }
      destruct (rate_ok s smp last t HI Hlt) as (s1 & E1 & I1 & _ & W1 & S1). rewrite E1.
      assert (Hm' : nondecreasing (t :: times ops ++ [now])).
      { destruct last as [l|]; cbn [ocons times op_time app] in Hm; [apply nondecreasing_tail in Hm|]; exact Hm. }
      destruct (origin_ms s) eqn:Hom.
      * destruct (IH s1 smp (Some t) now I1 Hm') as (s2 & outs & last2 & E2 & I2 & L2 & W2 & S2).
        rewrite E2. eexists s2, (_ :: outs), last2. split; [reflexivity|]. split; [exact I2|].
        split; [exact L2|]. split; congruence.
      * (* origin None: the state does not record the call; the invariant does not depend on `last` *)
        assert (I1' : Inv s1 smp (Some t)).
        { unfold Inv in I1 |- *. destruct (origin_ms s1) eqn:H1; [|exact I1].
          exfalso. unfold rate in E1. rewrite Hom in E1. injection E1 as <-. congruence. }
        destruct (IH s1 smp (Some t) now I1' Hm') as (s2 & outs & last2 & E2 & I2 & L2 & W2 & S2).
        rewrite E2. eexists s2, (_ :: outs), last2. split; [reflexivity|]. split; [exact I2|].
        split; [exact L2|]. split; congruence.
    + destruct (IH (reset s) [] last now (Inv_reset s smp last HI)) as (s2 & outs & last2 & E2 & I2 & L2 & W2 & S2).
      { exact Hm. }
      rewrite E2. exists s2, (ONone :: outs), last2. split; [reflexivity|]. split; [exact I2|].
      split; [exact L2|]. split; [rewrite W2|rewrite S2]; reflexivity.
Qed.

(* The sliding window is exact: after ANY history of add / rate / reset calls
   with a non-decreasing clock nothing raises, and a rate(now) call leaves in
   _total exactly (count, sum) of the samples of the last W ms since the last
   reset, and returns rate_spec. *)
Theorem window_exact : forall w sc ops now,
  0 < w -> nondecreasing (times ops ++ [now]) ->
  exists s outs s',
    run (init w sc) ops = (s, outs, 0) /\
    rate s now = Ok (s', rate_spec w sc (samples_after [] ops) now) /\
    (samples_after [] ops <> [] ->
     total s' = (cnt (in_window w now) (samples_after [] ops), vsum (in_window w now) (samples_after [] ops))).
Proof.
  intros w sc ops now Hw Hm.
  destruct (run_inv ops (init w sc) [] None now (Inv_init w sc Hw) Hm)
    as (s & outs & last & E & HI & Hl & W & S).
  destruct (rate_ok s _ last now HI Hl) as (s' & Er & _ & Ht & _).
  exists s, outs, s'. split; [exact E|].
  replace (window_size s) with w in * by (rewrite W; reflexivity).
  replace (scale s) with sc in * by (rewrite S; reflexivity).
  split; [exact Er|]. intros Hne. apply Ht.
  unfold Inv in HI. destruct (origin_ms s); [discriminate|]. destruct HI as (_ & Hs & _). contradiction.
Qed.
