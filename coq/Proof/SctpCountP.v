(* C01 / C06: chunk accounting of the whole receiver.  Every chunk that enters a reassembly queue
   is afterwards in a queue, in exactly one delivered message, or pruned by a FORWARD-TSN --
   never in two deliveries.  Instrumented copies of the receiver functions return the chunk runs
   behind the delivered messages and the pruned chunks. *)
From Coq Require Import ZArith List Bool Lia.
From AV Require Import Lib.Bytes Gen.Utils Gen.SctpConst Model.SctpRecv Proof.SctpRecvP Proof.SctpC01P Proof.SctpDupP
  Proof.SctpOrderP Proof.SctpOrderTP Proof.SctpOnceP.
Import ListNotations.
Local Open Scope Z_scope.

Definition allr (strs : list (Z * stream)) : list chunk := concat (map (fun kv => reasm (snd kv)) strs).

Lemma cnt_set_stream x : forall l id v,
  (cnt (allr (set_stream l id v)) x + cnt (reasm (get_stream l id)) x = cnt (allr l) x + cnt (reasm v) x)%nat.
Proof.
  induction l as [|[k w] l IH]; intros id v; cbn [set_stream get_stream allr map concat snd].
  - rewrite !count_occ_app. cbn [reasm count_occ]. lia.
  - destruct (id =? k); cbn [allr map concat snd]; rewrite !count_occ_app.
    + fold (allr l). lia.
    + fold (allr l) (allr (set_stream l id v)). specialize (IH id v). lia.
Qed.

Lemma cnt_pop_messages l seq x :
  cnt l x = (cnt (fst (fst (pop_messages l seq))) x + cnt (concat (pop_runs [] None l seq)) x)%nat /\
  snd (pop_messages l seq) = map msgf (pop_runs [] None l seq).
Proof.
  unfold pop_messages. destruct (pop_loop [] None l seq) as [[l' s'] ms] eqn:E.
  destruct (pop_loop_runs _ _ _ _ _ _ _ E) as [Em Hc]. specialize (Hc x). cbn [run_chunks app fst snd] in *.
  rewrite count_occ_app in Hc. split; [exact Hc|exact Em].
Qed.

(* ---- FORWARD-TSN stream loops, instrumented *)
Fixpoint fwd_streamsD (strs : list (Z * stream)) (l : list (Z * Z)) : list (list chunk) :=
  match l with
  | [] => []
  | (id, sq) :: l' =>
      let st := get_stream strs id in
      let seq1 := if uint16_gte sq (sseq_expected st) then uint16_add sq 1 else sseq_expected st in
      let '(l2, seq2, _) := pop_messages (reasm st) seq1 in
      pop_runs [] None (reasm st) seq1 ++ fwd_streamsD (set_stream strs id (mkStream l2 seq2)) l'
  end.

Fixpoint repop_streamsD (strs : list (Z * stream)) (l : list (Z * Z)) : list (list chunk) :=
  match l with
  | [] => []
  | (id, _) :: l' =>
      let st := get_stream strs id in
      let '(l2, seq2, _) := pop_messages (reasm st) (sseq_expected st) in
      pop_runs [] None (reasm st) (sseq_expected st) ++ repop_streamsD (set_stream strs id (mkStream l2 seq2)) l'
  end.

Lemma fwd_streams_cnt x : forall l strs,
  cnt (allr strs) x = (cnt (allr (fst (fwd_streams strs l))) x + cnt (concat (fwd_streamsD strs l)) x)%nat /\
  snd (fwd_streams strs l) = map msgf (fwd_streamsD strs l) /\
  Forall (fun f => complete_run (rev f)) (fwd_streamsD strs l).
Proof.
  induction l as [|[id sq] l IH]; intros strs; cbn [fwd_streams fwd_streamsD]; [cbn; auto|].
  set (st := get_stream strs id).
  set (seq1 := if uint16_gte sq (sseq_expected st) then uint16_add sq 1 else sseq_expected st).
  destruct (cnt_pop_messages (reasm st) seq1 x) as [Hc Hm].
  pose proof (pop_runs_complete (reasm st) [] None seq1 I) as Hcomp.
  destruct (pop_messages (reasm st) seq1) as [[l2 seq2] ms]. cbn [fst snd] in Hc, Hm.
  destruct (IH (set_stream strs id (mkStream l2 seq2))) as (I1 & I2 & I3).
  destruct (fwd_streams (set_stream strs id (mkStream l2 seq2)) l) as [strs2 ms2]. cbn [fst snd] in *.
  pose proof (cnt_set_stream x strs id (mkStream l2 seq2)) as Hs. fold st in Hs. cbn [reasm] in Hs.
  split; [|split].
  - rewrite concat_app, count_occ_app. lia.
  - rewrite map_app, Hm, I2. reflexivity.
  - apply Forall_app. split; assumption.
Qed.

Lemma repop_streams_cnt x : forall l strs,
  cnt (allr strs) x = (cnt (allr (fst (repop_streams strs l))) x + cnt (concat (repop_streamsD strs l)) x)%nat /\
  snd (repop_streams strs l) = map msgf (repop_streamsD strs l) /\
  Forall (fun f => complete_run (rev f)) (repop_streamsD strs l).
Proof.
  induction l as [|[id sq] l IH]; intros strs; cbn [repop_streams repop_streamsD]; [cbn; auto|].
  set (st := get_stream strs id).
  destruct (cnt_pop_messages (reasm st) (sseq_expected st) x) as [Hc Hm].
  pose proof (pop_runs_complete (reasm st) [] None (sseq_expected st) I) as Hcomp.
  destruct (pop_messages (reasm st) (sseq_expected st)) as [[l2 seq2] ms]. cbn [fst snd] in Hc, Hm.
  destruct (IH (set_stream strs id (mkStream l2 seq2))) as (I1 & I2 & I3).
  destruct (repop_streams (set_stream strs id (mkStream l2 seq2)) l) as [strs2 ms2]. cbn [fst snd] in *.
  pose proof (cnt_set_stream x strs id (mkStream l2 seq2)) as Hs. fold st in Hs. cbn [reasm] in Hs.
  split; [|split].
  - rewrite concat_app, count_occ_app. lia.
  - rewrite map_app, Hm, I2. reflexivity.
  - apply Forall_app. split; assumption.
Qed.

(* ---- pruning *)
Fixpoint prune_dropped (l : list chunk) (t : Z) : list chunk :=
  match l with [] => [] | c :: l' => if uint32_gte t (tsn c) then c :: prune_dropped l' t else [] end.

Lemma prune_chunks_cnt x : forall l t, cnt l x = (cnt (prune_dropped l t) x + cnt (fst (prune_chunks l t)) x)%nat.
Proof.
  induction l as [|c l IH]; intros t; cbn [prune_dropped prune_chunks]; [reflexivity|].
  destruct (uint32_gte t (tsn c)); [|cbn [fst count_occ]; lia].
  rewrite (surjective_pairing (prune_chunks l t)). cbn [fst count_occ]. specialize (IH t).
  destruct (chunk_eq_dec c x); lia.
Qed.

Definition pruned_all (strs : list (Z * stream)) (t : Z) : list chunk :=
  concat (map (fun kv => prune_dropped (reasm (snd kv)) t) strs).

Lemma prune_all_cnt x t : forall strs,
  cnt (allr strs) x = (cnt (allr (fst (prune_all strs t))) x + cnt (pruned_all strs t) x)%nat.
Proof.
  induction strs as [|[k v] strs IH]; cbn [prune_all allr pruned_all map concat snd]; [reflexivity|].
  pose proof (prune_chunks_cnt x (reasm v) t) as Hp.
  rewrite (surjective_pairing (prune_chunks (reasm v) t)). rewrite (surjective_pairing (prune_all strs t)).
  cbn [fst allr map concat snd reasm]. rewrite !count_occ_app. fold (allr strs) (allr (fst (prune_all strs t))) (pruned_all strs t). lia.
Qed.

(* ---- the whole FORWARD-TSN *)
Definition fwdD (s : rstate) (cum : Z) (strs : list (Z * Z)) : list (list chunk) * list chunk :=
  if uint32_gte (last_rx s) cum then ([], [])
  else
    let strs2 := fst (fwd_streams (streams s) strs) in
    let strs3 := fst (prune_all strs2 cum) in
    (fwd_streamsD (streams s) strs ++ repop_streamsD strs3 strs, pruned_all strs2 cum).

Lemma receive_forward_tsn_cnt s cum strs x :
  let s' := fst (receive_forward_tsn s cum strs) in
  cnt (allr (streams s)) x = (cnt (allr (streams s')) x + cnt (concat (fst (fwdD s cum strs))) x + cnt (snd (fwdD s cum strs)) x)%nat /\
  snd (receive_forward_tsn s cum strs) = map msgf (fst (fwdD s cum strs)) /\
  Forall (fun f => complete_run (rev f)) (fst (fwdD s cum strs)).
Proof.
  cbv zeta. unfold receive_forward_tsn, fwdD. cbn [last_rx misordered duplicates streams rwnd sack_needed].
  destruct (uint32_gte (last_rx s) cum); [cbn [fst snd streams concat map count_occ]; split; [lia|split; [reflexivity|constructor]]|].
  destruct (fwd_streams_cnt x strs (streams s)) as (A1 & A2 & A3).
  destruct (fwd_streams (streams s) strs) as [strs2 ms]. cbn [fst snd] in *.
  pose proof (prune_all_cnt x cum strs2) as B1.
  destruct (prune_all strs2 cum) as [strs3 pruned]. cbn [fst] in *.
  destruct (repop_streams_cnt x strs strs3) as (C1 & C2 & C3).
  destruct (repop_streams strs3 strs) as [strs4 ms']. cbn [fst snd streams] in *.
  split; [|split].
  - rewrite concat_app, count_occ_app. lia.
  - rewrite map_app, A2, C2. reflexivity.
  - apply Forall_app. split; assumption.
Qed.

(* ---- DATA *)
Lemma exists_last_in' {A} (l : list A) d : l <> [] -> In (List.last l d) l.
Proof. induction l as [|a l IH]; [congruence|]. intros _. destruct l as [|b l]; [now left|]. right. apply IH. discriminate. Qed.

Lemma add_scan_cnt x c : forall l, (forall r, In r l -> tsn r <> tsn c) ->
  (exists r, In r l /\ uint32_gt (tsn r) (tsn c) = true) ->
  exists l', add_scan l c = AddOk l' /\ cnt l' x = cnt (c :: l) x.
Proof.
  induction l as [|r l IH]; intros Hne (w & Hw & Hg); [destruct Hw|]. cbn [add_scan].
  destruct (Z.eqb_spec (tsn r) (tsn c)) as [E|_]; [exfalso; apply (Hne r); [now left|exact E]|].
  destruct (uint32_gt (tsn r) (tsn c)) eqn:G.
  - exists (c :: r :: l). split; reflexivity.
  - destruct Hw as [<-|Hw]; [congruence|].
    destruct (IH (fun r' Hr' => Hne r' (or_intror Hr')) (ex_intro _ w (conj Hw Hg))) as (l2 & E2 & C2).
    rewrite E2. exists (r :: l2). split; [reflexivity|]. cbn [count_occ] in *. destruct (chunk_eq_dec r x); destruct (chunk_eq_dec c x); lia.
Qed.

Section Window.
Variable base N : Z.
Hypothesis Hbase : r32 base.
Hypothesis HN : 0 <= N < 2147483648.

Lemma add_chunk_cnt x c l : inw base N (tsn c) -> Forall (fun r => inw base N (tsn r)) l ->
  (forall r, In r l -> tsn r <> tsn c) ->
  exists l', add_chunk l c = AddOk l' /\ cnt l' x = cnt (c :: l) x.
Proof.
  intros Hc Hl Hne. unfold add_chunk. destruct l as [|a l0] eqn:El; [exists [c]; split; reflexivity|]. rewrite <- El in *.
  assert (Hlast : In (List.last l c) l) by (rewrite El; apply exists_last_in'; discriminate).
  destruct (uint32_gt (tsn c) (tsn (List.last l c))) eqn:G.
  - exists (l ++ [c]). split; [reflexivity|]. rewrite count_occ_app. cbn [count_occ]. destruct (chunk_eq_dec c x); lia.
  - apply add_scan_cnt; [exact Hne|]. exists (List.last l c). split; [exact Hlast|].
    rewrite Forall_forall in Hl. pose proof (Hl _ Hlast) as Hi. pose proof (Hne _ Hlast) as Hd.
    destruct (Z.lt_trichotomy (off base (tsn (List.last l c))) (off base (tsn c))) as [H|[H|H]].
    + apply (gt_off base N Hbase HN _ _ Hc Hi) in H. congruence.
    + exfalso. apply Hd. now apply (off_inj base N).
    + now apply (gt_off base N Hbase HN _ _ Hi Hc).
Qed.
End Window.
