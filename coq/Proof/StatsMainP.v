(* Proofs about Model/Stats.v (property C18), part 3: the closed-form statements used
   by Props/C18.v. *)
From Coq Require Import ZArith List Bool Lia.
From AV Require Import Lib.Bytes Lib.BytesP Gen.Utils Gen.RtpConst Model.Stats Proof.StatsP Proof.StatsRunP.
Import ListNotations.
Local Open Scope Z_scope.

Ltac Zify.zify_post_hook ::= Z.to_euclidean_division_equations.

(* ------------------------------------------------------------------ state after any history *)
Lemma state_main S rs evs :
  Forall ev_ok evs -> pkts evs <> [] ->
  let h := pkts evs in
  exists s la lt,
    stream (fst (run S rs recv0 evs)) = Some s /\
    est s (first_seq h) (top h) la lt /\
    packets_received s = count h /\
    base_seq s = Some (first_seq h) /\
    max_seq s = Some (top h) /\
    cycles s + top h = first_seq h + fwd h /\
    packets_expected s = Ok (fwd h + 1) /\
    packets_lost s = Ok (rtp_clamp_packets_lost (fwd h + 1 - count h)) /\
    jitter_q4 s = jitter_ref h /\
    jitter s = jitter_ref h / 16 /\
    expected_prior s = expected_ref (pkts (upto_last_report evs)) /\
    received_prior s = count (pkts (upto_last_report evs)).
Proof.
  intros Hok Hne. cbv zeta.
  pose proof (run_fresh S rs evs recv0 eq_refl Hok) as H.
  destruct (pkts evs) as [|p0 l] eqn:Hp; [contradiction|].
  destruct H as (s & la & lt & H1 & H2 & H3 & H4 & H5 & H6 & H7).
  exists s, la, lt. cbn [first_seq top fwd].
  split; [exact H1|]. split; [exact H2|]. split; [exact H3|].
  split; [exact (e_base _ _ _ _ _ H2)|]. split; [exact (e_max _ _ _ _ _ H2)|]. split; [exact H4|].
  split; [rewrite (packets_expected_est _ _ _ _ _ H2); f_equal; lia|].
  split; [rewrite (packets_lost_est _ _ _ _ _ H2), H3; f_equal; f_equal; lia|].
  split; [exact H5|].
  split; [unfold jitter; rewrite shiftr_4, H5; reflexivity|].
  split; [exact H6|exact H7].
Qed.

(* cycles really is 65536 * (number of wraps): the extended number splits uniquely *)
Lemma ext_split s b m la lt :
  est s b m la lt ->
  m = (cycles s + m) mod 65536 /\ cycles s = ((cycles s + m) / 65536) * 65536.
Proof. intros He. destruct (e_cyc _ _ _ _ _ He) as [H0 H1]. pose proof (e_m _ _ _ _ _ He). lia. Qed.

(* ------------------------------------------------------------------ the forward steps *)
Lemma fwd_from_nonneg : forall l m, 0 <= fwd_from m l.
Proof.
  induction l as [|p l IH]; intros m; cbn [fwd_from]; [lia|].
  destruct (uint16_gt (p_seq p) m); [|apply IH].
  specialize (IH (p_seq p)). lia.
Qed.

(* semantic reading: if the wire numbers are the low 16 bits of the sender's true
   numbers ns and every arrival is within half the sequence space of the highest true
   number so far, the forward steps add up to (highest true number - first) *)
Fixpoint within_window (M : Z) (ns : list Z) : Prop :=
  match ns with
  | [] => True
  | n :: ns' => M - 32768 <= n < M + 32768 /\ within_window (Z.max M n) ns'
  end.

Fixpoint max_from (M : Z) (ns : list Z) : Z :=
  match ns with [] => M | n :: ns' => max_from (Z.max M n) ns' end.

Lemma gt_unwrapped n M :
  M - 32768 <= n < M + 32768 ->
  uint16_gt (n mod 65536) (M mod 65536) = (M <? n) /\
  (M < n -> (n mod 65536 - M mod 65536) mod 65536 = n - M).
Proof.
  intros H. rewrite uint16_gt_spec by lia. rewrite <- Zminus_mod.
  destruct (M <? n) eqn:E.
  - apply Z.ltb_lt in E. split; [|intros _; lia].
    apply andb_true_iff. split; apply Z.ltb_lt; lia.
  - apply Z.ltb_ge in E. split; [|lia].
    destruct (0 <? (n - M) mod 65536) eqn:E1; destruct ((n - M) mod 65536 <? 32768) eqn:E2;
      cbn [andb]; try reflexivity. exfalso. lia.
Qed.

Lemma fwd_from_unwrapped : forall ns l M,
  map p_seq l = map (fun n => n mod 65536) ns -> within_window M ns ->
  fwd_from (M mod 65536) l = max_from M ns - M /\
  top_from (M mod 65536) l = max_from M ns mod 65536.
Proof.
  induction ns as [|n ns IH]; intros l M Hmap Hw; destruct l as [|p l]; try discriminate.
  - cbn. split; [lia|reflexivity].
  - cbn [map] in Hmap. injection Hmap as Hp Hmap. destruct Hw as [Hn Hw].
    cbn [fwd_from top_from max_from]. rewrite Hp.
    destruct (gt_unwrapped n M Hn) as [Hgt Hstep]. rewrite Hgt.
    destruct (M <? n) eqn:E.
    + apply Z.ltb_lt in E. rewrite Z.max_r in * by lia.
      destruct (IH l n Hmap Hw) as [IH1 IH2]. rewrite IH1, IH2, Hstep by lia. split; [lia|reflexivity].
    + apply Z.ltb_ge in E. rewrite Z.max_l in * by lia.
      destruct (IH l M Hmap Hw) as [IH1 IH2]. rewrite IH1, IH2. split; reflexivity.
Qed.

Lemma fwd_unwrapped h n0 ns :
  map p_seq h = map (fun n => n mod 65536) (n0 :: ns) -> within_window n0 ns ->
  fwd h = max_from n0 ns - n0 /\
  first_seq h = n0 mod 65536 /\
  first_seq h + fwd h = n0 mod 65536 + (max_from n0 ns - n0).
Proof.
  intros Hmap Hw. destruct h as [|p l]; [discriminate|].
  cbn [map] in Hmap. injection Hmap as Hp Hmap. cbn [fwd first_seq]. rewrite Hp.
  destruct (fwd_from_unwrapped ns l n0 Hmap Hw) as [H1 _]. rewrite H1. repeat split; lia.
Qed.

(* ------------------------------------------------------------------ upto_last_report is a prefix *)
Lemma upto_prefix evs :
  exists post, evs = upto_last_report evs ++ post /\ has_report post = false.
Proof.
  induction evs as [|e evs (post & IH1 & IH2)]; [exists []; split; reflexivity|].
  cbn [upto_last_report]. destruct (has_report evs) eqn:Hr.
  - exists post. split; [|exact IH2]. cbn [app]. f_equal. exact IH1.
  - destruct e as [seq ts arr|ssrc ntp now|now|].
    + exists (Rtp seq ts arr :: evs). split; [reflexivity|exact Hr].
    + exists (SrEv ssrc ntp now :: evs). split; [reflexivity|exact Hr].
    + exists evs. split; [reflexivity|exact Hr].
    + exists (Probe :: evs). split; [reflexivity|exact Hr].
Qed.

(* ------------------------------------------------------------------ the report that follows a history *)
Definition lsr_ref (S : Z) (pre : list ev) : Z :=
  match last_sr S pre with None => 0 | Some (ntp, _) => mid32 ntp end.

(* delay since the last SR in units of 1/65536 s; clock values are in 2^-20 s *)
Definition dlsr_ref (S : Z) (pre : list ev) (now : Z) : Z :=
  match last_sr S pre with
  | None => 0
  | Some (_, t) => if (0 <? now - t) && (now - t <? 68719476736) then (now - t) / 16 else 0
  end.

Definition report_ref (S : Z) (pre : list ev) (now : Z) : rinfo :=
  let h := pkts pre in
  let hp := pkts (upto_last_report pre) in
  mkInfo S
         (rfc_fraction (expected_ref h - expected_ref hp) (count h - count hp))
         (rtp_clamp_packets_lost (expected_ref h - count h))
         ((first_seq h + fwd h) mod 4294967296)
         (jitter_ref h / 16)
         (lsr_ref S pre) (dlsr_ref S pre now).

Lemma lsr_dlsr_ref S rs pre now :
  lsr_dlsr (fst (run S rs recv0 pre)) now = (lsr_ref S pre, dlsr_ref S pre now).
Proof.
  pose proof (run_lsr S rs pre recv0) as H. cbv zeta in H.
  unfold lsr_dlsr, lsr_ref, dlsr_ref. destruct (last_sr S pre) as [[ntp t]|].
  - destruct H as [H1 H2]. rewrite H1, H2. reflexivity.
  - destruct H as [H1 H2]. rewrite H1. reflexivity.
Qed.

Lemma report_main S rs pre now :
  Forall ev_ok pre -> pkts pre <> [] ->
  snd (step S rs (fst (run S rs recv0 pre)) (Report now)) =
  OReport (report_ref S pre now) (rr_bytes rs (report_ref S pre now)).
Proof.
  intros Hok Hne.
  destruct (state_main S rs pre Hok Hne) as (s & la & lt & Hs & He & Hr & _ & _ & Hc & _ & _ & HJ & _ & Hep & Hrp).
  cbv zeta in *. cbn [step]. rewrite (report_est S rs _ s _ _ la lt now Hs He). cbn [snd].
  assert (Hinfo : report_info S (fst (run S rs recv0 pre)) s (first_seq (pkts pre)) (top (pkts pre)) now
                  = report_ref S pre now).
  { unfold report_info, report_ref. cbv zeta. rewrite lsr_dlsr_ref. cbn [fst snd].
    assert (Hex : expected_ref (pkts pre) = fwd (pkts pre) + 1)
      by (destruct (pkts pre); [contradiction|reflexivity]).
    rewrite Hex, Hep, Hrp, Hr, HJ. f_equal; try (f_equal; lia); try lia. }
  rewrite Hinfo. reflexivity.
Qed.

Lemma report_none S rs pre now :
  pkts pre = [] -> Forall ev_ok pre ->
  step S rs (fst (run S rs recv0 pre)) (Report now) = (fst (run S rs recv0 pre), ONoReport).
Proof.
  intros Hp Hok. pose proof (run_fresh S rs pre recv0 eq_refl Hok) as H. rewrite Hp in H.
  cbn [step]. unfold report. rewrite H. reflexivity.
Qed.

(* all outputs of a run fit; in particular no crash *)
Lemma fits_main S rs evs :
  0 <= S < 4294967296 -> 0 <= rs < 4294967296 -> Forall ev_ok evs ->
  Forall out_fits (snd (run S rs recv0 evs)).
Proof. intros HS Hrs Hok. exact (proj2 (run_good S rs evs recv0 HS Hrs good_recv0 Hok)). Qed.

Lemma report_ref_fits S rs pre now :
  0 <= S < 4294967296 -> 0 <= rs < 4294967296 -> Forall ev_ok pre -> pkts pre <> [] ->
  info_fits (report_ref S pre now) /\
  exists l, rr_bytes rs (report_ref S pre now) = Ok l /\ length l = 32%nat /\ bytes_ok l.
Proof.
  intros HS Hrs Hok Hne.
  destruct (run_good S rs pre recv0 HS Hrs good_recv0 Hok) as [Hg _].
  assert (Hev : ev_ok (Report now)) by exact I.
  destruct (step_good S rs _ (Report now) HS Hrs Hg Hev) as [_ Hfit].
  rewrite (report_main S rs pre now Hok Hne) in Hfit. exact Hfit.
Qed.

(* ------------------------------------------------------------------ packaging for Props/C18.v *)
Lemma counts_main S rs evs :
  Forall ev_ok evs -> pkts evs <> [] ->
  let h := pkts evs in
  exists s,
    stream (fst (run S rs recv0 evs)) = Some s /\
    packets_received s = count h /\
    base_seq s = Some (first_seq h) /\
    max_seq s = Some ((first_seq h + fwd h) mod 65536) /\
    cycles s = ((first_seq h + fwd h) / 65536) * 65536 /\
    packets_expected s = Ok (fwd h + 1) /\
    packets_lost s = Ok (rtp_clamp_packets_lost (fwd h + 1 - count h)) /\
    0 <= fwd h.
Proof.
  intros Hok Hne. cbv zeta.
  destruct (state_main S rs evs Hok Hne) as (s & la & lt & Hs & He & Hr & Hb & Hm & Hc & Hpe & Hpl & _).
  cbv zeta in *. destruct (ext_split _ _ _ _ _ He) as [E1 E2]. rewrite Hc in E1, E2.
  exists s. split; [exact Hs|]. split; [exact Hr|]. split; [exact Hb|].
  split; [rewrite Hm; f_equal; exact E1|]. split; [exact E2|]. split; [exact Hpe|]. split; [exact Hpl|].
  destruct (pkts evs) as [|p l]; [contradiction|]. cbn [fwd]. apply fwd_from_nonneg.
Qed.

Lemma jitter_main S rs evs :
  Forall ev_ok evs -> pkts evs <> [] ->
  exists s, stream (fst (run S rs recv0 evs)) = Some s /\
            jitter_q4 s = jitter_ref (pkts evs) /\ jitter s = jitter_ref (pkts evs) / 16 /\
            0 <= jitter_q4 s <= 34359738368.
Proof.
  intros Hok Hne.
  destruct (state_main S rs evs Hok Hne) as (s & la & lt & Hs & He & _ & _ & _ & _ & _ & _ & HJ & HJ2 & _).
  exists s. split; [exact Hs|]. split; [exact HJ|]. split; [exact HJ2|]. exact (e_J _ _ _ _ _ He).
Qed.

(* the output produced by a Report event that follows the history `pre` *)
Definition report_after (S rs : Z) (pre : list ev) (now : Z) : out :=
  snd (step S rs (fst (run S rs recv0 pre)) (Report now)).

Lemma report_after_is_output S rs pre now post :
  nth_error (snd (run S rs recv0 (pre ++ Report now :: post))) (length pre) =
  Some (report_after S rs pre now).
Proof.
  rewrite run_output_at. rewrite nth_error_app2 by (rewrite run_length; lia).
  rewrite run_length, Nat.sub_diag. reflexivity.
Qed.

Lemma fraction_ref_range S pre now :
  Forall ev_ok pre -> pkts pre <> [] -> 0 <= ri_fraction (report_ref S pre now) <= 255.
Proof.
  intros Hok Hne.
  destruct (state_main S 0 pre Hok Hne) as (s & la & lt & _ & He & Hr & _ & _ & Hc & _ & _ & _ & _ & Hep & Hrp).
  cbv zeta in *. destruct (fraction_lost_est _ _ _ _ _ He) as (_ & _ & Hf). cbv zeta in Hf.
  unfold report_ref. cbv zeta. cbn [ri_fraction].
  assert (Hex : expected_ref (pkts pre) = fwd (pkts pre) + 1)
    by (destruct (pkts pre); [contradiction|reflexivity]).
  rewrite Hex. rewrite Hep, Hrp, Hr in Hf.
  replace (fwd (pkts pre) + 1) with (cycles s + top (pkts pre) - first_seq (pkts pre) + 1) by lia.
  exact Hf.
Qed.

(* ------------------------------------------------------------------ monotonicity *)
Lemma pkts_app a b : pkts (a ++ b) = pkts a ++ pkts b.
Proof.
  induction a as [|e a IH]; [reflexivity|]. destruct e; cbn [app pkts]; rewrite IH; reflexivity.
Qed.

Lemma fwd_from_app : forall l1 m l2,
  fwd_from m (l1 ++ l2) = fwd_from m l1 + fwd_from (top_from m l1) l2.
Proof.
  induction l1 as [|p l1 IH]; intros m l2; cbn [app fwd_from top_from]; [lia|].
  destruct (uint16_gt (p_seq p) m); rewrite IH; lia.
Qed.

(* the extended highest sequence number (before reduction mod 2^32), packets_expected and
   the number of packets received never decrease as the history grows *)
Lemma fwd_monotone pre more :
  pkts pre <> [] ->
  first_seq (pkts (pre ++ more)) = first_seq (pkts pre) /\
  fwd (pkts pre) <= fwd (pkts (pre ++ more)) /\
  count (pkts pre) <= count (pkts (pre ++ more)).
Proof.
  intros Hne. rewrite pkts_app. destruct (pkts pre) as [|p l]; [contradiction|].
  cbn [app first_seq fwd]. split; [reflexivity|]. rewrite fwd_from_app.
  pose proof (fwd_from_nonneg (pkts more) (top_from (p_seq p) l)).
  unfold count. cbn [length]. rewrite app_length. lia.
Qed.

(* ------------------------------------------------------------------ "in order" under the window *)
(* the packets whose true number exceeds every earlier true number *)
Fixpoint newmax_from (M : Z) (ns : list Z) (l : list pkt) : list pkt :=
  match ns, l with
  | n :: ns', p :: l' => if M <? n then p :: newmax_from n ns' l' else newmax_from M ns' l'
  | _, _ => []
  end.

Lemma inorder_from_unwrapped : forall ns l M,
  map p_seq l = map (fun n => n mod 65536) ns -> within_window M ns ->
  inorder_from (M mod 65536) l = newmax_from M ns l.
Proof.
  induction ns as [|n ns IH]; intros l M Hmap Hw; destruct l as [|p l]; try discriminate; [reflexivity|].
  cbn [map] in Hmap. injection Hmap as Hp Hmap. destruct Hw as [Hn Hw].
  cbn [inorder_from newmax_from]. rewrite Hp.
  destruct (gt_unwrapped n M Hn) as [Hgt _]. rewrite Hgt.
  destruct (M <? n) eqn:E.
  - apply Z.ltb_lt in E. rewrite Z.max_r in Hw by lia. rewrite (IH l n Hmap Hw). reflexivity.
  - apply Z.ltb_ge in E. rewrite Z.max_l in Hw by lia. exact (IH l M Hmap Hw).
Qed.

Lemma inorder_unwrapped h n0 ns :
  map p_seq h = map (fun n => n mod 65536) (n0 :: ns) -> within_window n0 ns ->
  inorder h = match h with [] => [] | p :: l => p :: newmax_from n0 ns l end.
Proof.
  intros Hmap Hw. destruct h as [|p l]; [reflexivity|].
  cbn [map] in Hmap. injection Hmap as Hp Hmap. cbn [inorder]. rewrite Hp.
  rewrite (inorder_from_unwrapped ns l n0 Hmap Hw). reflexivity.
Qed.
