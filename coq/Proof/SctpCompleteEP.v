(* C01 / C02: completeness of ordered delivery, at the transport level and end to end: once the
   receiver has accepted every chunk of the ordered messages sent on a stream, it has delivered
   every one of those messages (in order, each once - SctpOrderEP). *)
From Coq Require Import ZArith List Bool Lia.
From AV Require Import Lib.Bytes Gen.Utils Gen.SctpConst Model.SctpRecv Model.SctpSend Proof.SctpRecvP Proof.SctpC01P
  Proof.SctpSendP Proof.SctpDupP Proof.SctpOrderP Proof.SctpOrderSP Proof.SctpOrderTP Proof.SctpOrderEP Proof.SctpCompleteP.
Import ListNotations.
Local Open Scope Z_scope.

Section Transport.
Variable base N : Z.
Hypothesis Hbase : r32 base.
Hypothesis HN : 0 <= N < 2147483648.

Theorem transport_ordered_complete (M : list (list chunk)) (o : nat -> Z) (s0 : Z) (st : Z) :
  (forall j f, nth_error M j = Some f ->
     f <> [] /\ o j + Z.of_nat (length f) <= o (S j) /\ forall i c, nth_error f i = Some c -> chunk_ok base N o s0 j i f c) ->
  forall es, Forall (data_ev base N) es ->
  (forall c, In (EvData c) es -> sid c = st -> exists j i, at_ M j i c) ->
  swin M [] (ssn s0 0) 0 (filter (on_stream st) (accepted_chunks (rinit base) es)) ->
  ssn s0 0 = 0 ->
  (forall c, In c (concat M) -> sid c = st /\ In c (accepted_chunks (rinit base) es)) ->
  msgs_on st (rinit base) es = map msgf M.
Proof.
  intros wfM es Hes Hlab Hw Hs0 Hall.
  pose proof (stream_of_transport base N Hbase HN st es (rinit base) (inv_rinit base N Hbase HN) Hes) as E.
  cbn [rinit streams get_stream reasm sseq_expected] in E.
  pose proof (ordered_complete base N Hbase HN M o s0 wfM (filter (on_stream st) (accepted_chunks (rinit base) es))) as C.
  rewrite Hs0 in C. rewrite C in E.
  - injection E as ->. reflexivity.
  - apply NoDup_filter. apply (accepted_chunks_nodup base N Hbase HN); [apply (inv_rinit base N Hbase HN)|exact Hes].
  - intros c Hc. apply filter_In in Hc as [Hc Ho]. apply accepted_chunks_in in Hc. apply Hlab; [exact Hc|].
    unfold on_stream in Ho. now apply Z.eqb_eq in Ho.
  - rewrite <- Hs0. exact Hw.
  - intros c Hc. destruct (Hall c Hc) as [Hs Ha]. apply filter_In. split; [exact Ha|]. unfold on_stream. now apply Z.eqb_eq.
Qed.
End Transport.

(* every chunk the sender makes for a selected (ordered, stream st) message carries stream id st *)
Lemma sel_sid st : forall ms s c, In c (concat (sel st s ms)) -> sid c = st.
Proof.
  induction ms as [|m ms IH]; intros s c H; cbn [sel] in H; [destruct H|].
  destruct (selected st m) eqn:Es; [|eapply IH; eauto].
  cbn [concat] in H. apply in_app_or in H as [H|H]; [|eapply IH; eauto].
  unfold selected in Es. apply andb_true_iff in Es as [Eo Ei]. apply Z.eqb_eq in Ei.
  unfold send_msg in H. cbn [snd] in H. apply In_nth_error in H as (i & Hi).
  apply frag_loop_nth in Hi as (_ & Hs & _). congruence.
Qed.

(* COMPLETE DELIVERY, end to end.  The application sends ANY list of messages from ANY initial
   TSN; the network hands the receiver ANY list of DATA chunks inside the TSN window whose chunks
   on stream st are chunks of st's ordered messages (every order, loss, duplication and
   retransmission pattern).  If every chunk of those messages is among the chunks the receiver
   ACCEPTED (it arrived at least once while inside the receive window), then the messages
   delivered on stream st are EXACTLY ALL ordered messages sent on st, in sending order, each
   once: nothing that has arrived stays behind in the reassembly queue. *)
Theorem ordered_complete_delivery base N t0 msgs st es :
  r32 base -> 0 <= N < 2147483648 -> r32 t0 ->
  off base t0 + Z.of_nat (total_frags msgs) <= N ->
  Forall (fun m => o_data m <> []) msgs ->
  let M := sel st (mkS t0 []) msgs in
  Forall (data_ev base N) es ->
  (forall c, In (EvData c) es -> sid c = st -> In c (concat M)) ->
  swin M [] 0 0 (filter (on_stream st) (accepted_chunks (rinit base) es)) ->
  (forall c, In c (concat M) -> In c (accepted_chunks (rinit base) es)) ->
  msgs_on st (rinit base) es = map triple (filter (selected st) msgs).
Proof.
  intros Hbase HN Ht0 Hfit Hd M Hes Hin Hw Hall.
  assert (F : fits base N (mkS t0 []) msgs) by (split; assumption).
  pose proof (sender_wf base N Hbase HN st msgs (mkS t0 []) F Hd ltac:(cbn; lia)) as W.
  cbn [stream_seq seq_get] in W. fold M in W.
  rewrite (transport_ordered_complete base N Hbase HN M _ 0 st W es Hes).
  - unfold M. now rewrite sel_msgs.
  - intros c Hc Hs. apply in_concat_at. now apply Hin.
  - exact Hw.
  - reflexivity.
  - intros c Hc. split; [eapply sel_sid; exact Hc|now apply Hall].
Qed.
