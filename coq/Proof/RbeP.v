(* Proofs about Model/Rbe.v (property C15): RemoteBitrateEstimator.add never
   raises and every estimate it returns respects the bounds. *)
From Coq Require Import ZArith List Bool Lia.
From AV Require Import Lib.Sx Lib.Bytes Model.RateCounter Model.Aimd Model.Rbe Proof.RateCounterP Proof.AimdP.
Import ListNotations.
Local Open Scope Z_scope.

(* ---------------------------------------------------------------- SSRC dictionary *)
(* first-seen order *)
Definition note (seen : list Z) (k : Z) : list Z :=
  if existsb (Z.eqb k) seen then seen else seen ++ [k].

Lemma keys_dict_set d k v : keys (dict_set d k v) = note (keys d) k.
Proof.
  unfold note, keys. induction d as [|[k' v'] d IH]; cbn [dict_set map existsb fst app]; [reflexivity|].
  destruct (Z.eqb_spec k k') as [->|Hne]; cbn [orb map fst]; [reflexivity|].
  rewrite IH. destruct (existsb (Z.eqb k) (map fst d)); reflexivity.
Qed.

(* ---------------------------------------------------------------- measured bitrate is non-negative *)
Definition values_nonneg (smp : list sample) : Prop := forall t v, In (t, v) smp -> 0 <= v.

Lemma round_div_nonneg a b : 0 <= a -> 0 < b -> 0 <= round_div a b.
Proof.
  intros Ha Hb. unfold round_div. pose proof (Z.div_pos a b Ha Hb).
  destruct (_ <? _); [lia|]. destruct (_ <? _); [lia|]. destruct (Z.even _); lia.
Qed.

Lemma rate_spec_nonneg w sc smp now x :
  0 <= sc -> values_nonneg smp -> rate_spec w sc smp now = Some x -> 0 <= x.
Proof.
  intros Hsc Hv. unfold rate_spec. destruct (oldest smp) as [f|]; [|discriminate].
  destruct (0 <? cnt _ smp); cbn [andb]; [|discriminate].
  destruct (Z.ltb_spec 1 (now - Z.max f (now - w + 1) + 1)); [|discriminate].
  intros [= <-]. apply round_div_nonneg; [|lia].
  apply Z.mul_nonneg_nonneg; [exact Hsc|]. now apply vsum_nonneg.
Qed.

Definition vsum_all (smp : list sample) : Z := vsum (fun _ => true) smp.

Lemma round_div_le a b : 0 <= a -> 2 <= b -> round_div a b <= a.
Proof.
  intros Ha Hb. unfold round_div.
  pose proof (Z.div_mod a b ltac:(lia)) as D. pose proof (Z.mod_pos_bound a b ltac:(lia)) as M.
  assert (Hq : 0 <= a / b) by (apply Z.div_pos; lia).
  assert (Hq2 : a / b * 2 <= b * (a / b)) by nia.
  destruct (Z.ltb_spec (a mod b * 2) b); [lia|].
  destruct (Z.ltb_spec b (a mod b * 2)); [lia|]. destruct (Z.even _); lia.
Qed.

Lemma rate_spec_le w sc smp now x :
  0 <= sc -> values_nonneg smp -> rate_spec w sc smp now = Some x -> x <= sc * vsum_all smp.
Proof.
  intros Hsc Hv. unfold rate_spec. destruct (oldest smp) as [f|]; [|discriminate].
  destruct (0 <? cnt _ smp); cbn [andb]; [|discriminate].
  destruct (Z.ltb_spec 1 (now - Z.max f (now - w + 1) + 1)); [|discriminate].
  intros [= <-].
  pose proof (vsum_nonneg (in_window w now) smp Hv) as H0.
  pose proof (vsum_le_all (in_window w now) smp Hv) as H1. fold (vsum_all smp) in H1.
  eapply Z.le_trans; [apply round_div_le; [apply Z.mul_nonneg_nonneg; lia|lia]|].
  apply Z.mul_le_mono_nonneg_l; lia.
Qed.

(* rate() leaves an invariant that mentions the call time *)
Lemma rate_ok' s smp last now :
  Inv s smp last -> le_opt last now ->
  exists s', rate s now = Ok (s', rate_spec (window_size s) (scale s) smp now) /\
             Inv s' smp (Some now) /\ window_size s' = window_size s /\ scale s' = scale s.
Proof.
  intros HI Hle. destruct (rate_ok s smp last now HI Hle) as (s' & E & I' & _ & W & S).
  exists s'. split; [exact E|]. split; [|auto].
  destruct (origin_ms s) eqn:Hom; [exact I'|].
  unfold rate in E. rewrite Hom in E. injection E as <-.
  unfold Inv in I' |- *. rewrite Hom in *. exact I'.
Qed.

(* ---------------------------------------------------------------- one add() call *)
(* once a rate has been measured the first sample is older than the clock, so a
   later rate() of None means that the window is empty *)
Definition init_flag_ok (s : rbe) (smp : list sample) (last : option Z) : Prop :=
  incoming_init s = true ->
  smp = [] \/ exists f l, oldest smp = Some f /\ last = Some l /\ f < l.

Definition RInv0 (s : rbe) (smp : list sample) (last : option Z) : Prop :=
  Inv (incoming s) smp last /\ window_size (incoming s) = 1000 /\ scale (incoming s) = 8000 /\
  AInv0 (control s) /\ init_flag_ok s smp last.

Lemma RInv0_init : RInv0 rbe_init [] None.
Proof.
  unfold RInv0, rbe_init; cbn [incoming control]. split; [apply Inv_init; lia|].
  split; [reflexivity|]. split; [reflexivity|]. split; [apply AInv0_init|]. intros _. now left.
Qed.

Lemma rate_spec_some_old w sc smp now x :
  0 < w -> rate_spec w sc smp now = Some x -> exists f, oldest smp = Some f /\ f < now.
Proof.
  intros Hw. unfold rate_spec. destruct (oldest smp) as [f|]; [|discriminate].
  destruct (0 <? cnt _ smp); cbn [andb]; [|discriminate].
  destruct (Z.ltb_spec 1 (now - Z.max f (now - w + 1) + 1)); [|discriminate].
  intros _. exists f. split; [reflexivity|lia].
Qed.

Lemma rate_spec_none_empty w sc smp now f :
  oldest smp = Some f -> f < now -> 1 < w -> rate_spec w sc smp now = None ->
  forall t v, In (t, v) smp -> in_window w now t = false.
Proof.
  intros Hf Hlt Hw. unfold rate_spec. rewrite Hf.
  destruct (Z.ltb_spec 0 (cnt (in_window w now) smp)) as [Hc|Hc]; cbn [andb].
  - destruct (Z.ltb_spec 1 (now - Z.max f (now - w + 1) + 1)); [discriminate|lia].
  - intros _. apply cnt_zero_all. pose proof (cnt_nonneg (in_window w now) smp). lia.
Qed.

Definition est_out (s' : rbe) (r : option Z) : option (Z * list Z) :=
  match r with Some e => Some (e, lastn 255 (keys (ssrcs s'))) | None => None end.

Lemma rbe_add_ok s smp last a :
  RInv0 s smp last -> le_opt last (a_time a) ->
  exists s' o smp',
    rbe_add s a = Ok (s', o) /\ RInv0 s' smp' (Some (a_time a)) /\
    keys (ssrcs s') = note (keys (ssrcs s)) (a_ssrc a) /\
    (values_nonneg smp -> 0 <= a_size a ->
     values_nonneg smp' /\ vsum_all smp' <= vsum_all smp + a_size a) /\
    (smp' = (a_time a, a_size a) :: smp \/
     (smp' = [(a_time a, a_size a)] /\ forall t v, In (t, v) smp -> t <= a_time a - 1000)) /\
    ((control s' = control s /\ o = None) \/
     (exists et r, et = rate_spec 1000 8000 smp' (a_time a) /\
                   (values_nonneg smp' -> forall x, et = Some x -> 0 <= x <= 8000 * vsum_all smp') /\
                   update (control s) (a_verdict a) et (a_time a) (a_fl a) = Ok (control s', r) /\
                   o = est_out s' r)).
Proof.
  intros (HI & HW & HS & HA & HF) Hle. unfold rbe_add. set (now := a_time a) in *.
  destruct (rate_ok' (incoming s) smp last now HI Hle) as (r1 & E1 & I1 & W1 & S1). rewrite E1.
  (* reset or not *)
  set (x := rate_spec (window_size (incoming s)) (scale (incoming s)) smp now).
  assert (H2 : exists r2 ii smp2,
            (match x with
             | Some _ => (r1, true)
             | None => if incoming_init s then (reset r1, false) else (r1, incoming_init s)
             end) = (r2, ii) /\ Inv r2 smp2 (Some now) /\ window_size r2 = 1000 /\ scale r2 = 8000 /\
            (values_nonneg smp -> values_nonneg smp2 /\ vsum_all smp2 <= vsum_all smp) /\
            (smp2 = smp \/ (smp2 = [] /\ forall t v, In (t, v) smp -> t <= now - 1000)) /\
            (ii = true -> exists f, oldest smp2 = Some f /\ f < now)).
  { destruct x as [y|] eqn:Ex.
    - exists r1, true, smp. repeat split; auto; try congruence; try lia.
      intros _. unfold x in Ex. rewrite HW in Ex. apply (rate_spec_some_old 1000 _ _ _ _ ltac:(lia) Ex).
    - destruct (incoming_init s) eqn:Ei.
      + exists (reset r1), false, []. split; [reflexivity|]. split; [eapply Inv_reset; exact I1|].
        cbn [reset window_size scale]. split; [congruence|]. split; [congruence|].
        split; [|split; [|discriminate]].
        * intros Hv. split; [intros t v []|]. unfold vsum_all at 1. cbn [vsum]. apply vsum_nonneg. assumption.
        * right. split; [reflexivity|].
          destruct (HF Ei) as [->|(f & l & Hf & -> & Hfl)]; [intros t v []|].
          cbn [le_opt] in Hle. intros t v Hin.
          pose proof (Inv_samples_le r1 smp now I1 t v Hin) as Htl.
          unfold x in Ex. rewrite HW in Ex.
          pose proof (rate_spec_none_empty 1000 _ smp now f Hf ltac:(lia) ltac:(lia) Ex t v Hin) as Hw0.
          unfold in_window in Hw0. destruct (Z.ltb_spec (now - 1000) t); [|lia].
          destruct (Z.leb_spec t now); [discriminate|lia].
      + exists r1, false, smp. repeat split; auto; try congruence; try lia; try discriminate. }
  destruct H2 as (r2 & ii & smp2 & -> & I2 & W2 & S2 & V2 & Sh2 & F2).
  destruct (add_ok r2 smp2 (Some now) (a_size a) now I2 (Z.le_refl _)) as (r3 & E3 & I3 & W3 & S3).
  rewrite E3.
  set (smp3 := (now, a_size a) :: smp2) in *.
  assert (V3 : values_nonneg smp -> 0 <= a_size a ->
               values_nonneg smp3 /\ vsum_all smp3 <= vsum_all smp + a_size a).
  { intros Hv Hs. destruct (V2 Hv) as [V2a V2b]. split.
    - intros t v [Hin|Hin]; [injection Hin as <- <-; exact Hs|]. now apply (V2a t v).
    - unfold smp3, vsum_all in *. cbn [vsum fst snd]. lia. }
  assert (Sh3 : smp3 = (now, a_size a) :: smp \/
               (smp3 = [(now, a_size a)] /\ forall t v, In (t, v) smp -> t <= now - 1000)).
  { unfold smp3. destruct Sh2 as [->|[-> Hold]]; [now left|right; auto]. }
  assert (F3 : forall st c lu ss, init_flag_ok (mkRbe st ii c lu ss) smp3 (Some now)).
  { intros st c lu ss. unfold init_flag_ok; cbn [incoming_init]. intros Hii. right.
    destruct (F2 Hii) as (f & Hf & Hlt). exists f, now. unfold smp3. rewrite oldest_cons, Hf. auto. }
  destruct (match last_update s with
            | Some lu => (feedback_interval <? now - lu) || is_over (a_verdict a)
            | None => true
            end).
  - destruct (rate_ok' r3 smp3 (Some now) now I3 (Z.le_refl _)) as (r4 & E4 & I4 & W4 & S4). rewrite E4.
    set (et := rate_spec (window_size r3) (scale r3) smp3 now).
    destruct (update_never_raises (control s) (a_verdict a) et now (a_fl a) HA) as (c' & r & Eu & HA').
    rewrite Eu.
    assert (Het : values_nonneg smp3 -> forall y, et = Some y -> 0 <= y <= 8000 * vsum_all smp3).
    { intros Hv y Hy. unfold et in Hy. rewrite S3, S2 in Hy. split.
      - exact (rate_spec_nonneg _ 8000 _ _ _ ltac:(lia) Hv Hy).
      - exact (rate_spec_le _ 8000 _ _ _ ltac:(lia) Hv Hy). }
    destruct r as [target|].
    + eexists; exists (Some (target, lastn 255 (keys (dict_set (ssrcs s) (a_ssrc a) now)))), smp3.
      split; [reflexivity|]. split; [|split; [apply keys_dict_set|split; [exact V3|split; [exact Sh3|]]]].
      * unfold RInv0; cbn [incoming control]. split; [exact I4|]. split; [congruence|]. split; [congruence|].
        split; [exact HA'|apply F3].
      * right. exists et, (Some target). cbn [control est_out ssrcs].
        split; [unfold et; rewrite W3, W2, S3, S2; reflexivity|auto].
    + eexists; exists None, smp3.
      split; [reflexivity|]. split; [|split; [apply keys_dict_set|split; [exact V3|split; [exact Sh3|]]]].
      * unfold RInv0; cbn [incoming control]. split; [exact I4|]. split; [congruence|]. split; [congruence|].
        split; [exact HA'|apply F3].
      * right. exists et, None. cbn [control est_out].
        split; [unfold et; rewrite W3, W2, S3, S2; reflexivity|auto].
  - eexists; exists None, smp3.
    split; [reflexivity|]. split; [|split; [apply keys_dict_set|split; [exact V3|split; [exact Sh3|]]]].
    + unfold RInv0; cbn [incoming control]. split; [exact I3|]. split; [congruence|]. split; [congruence|].
      split; [exact HA|apply F3].
    + left. cbn [control]. auto.
Qed.

(* ---------------------------------------------------------------- never raises *)
Lemma nondecreasing_cons a l : nondecreasing (a :: l) -> nondecreasing l.
Proof. cbn [nondecreasing]. tauto. Qed.

Lemma rbe_run_ok l : forall s smp last,
  RInv0 s smp last -> nondecreasing (ocons last (map a_time l)) ->
  exists s' outs, run s l = (s', outs, 0).
Proof.
  induction l as [|a l IH]; intros s smp last HI Hm; cbn [run]; [eauto|].
  assert (Hle : le_opt last (a_time a)).
  { destruct last as [t|]; cbn [le_opt]; [|exact I]. cbn in Hm. lia. }
  destruct (rbe_add_ok s smp last a HI Hle) as (s1 & o & smp1 & E & HI1 & _). rewrite E.
  destruct (IH s1 smp1 (Some (a_time a)) HI1) as (s2 & outs & E2).
  { destruct last as [t|]; cbn [ocons map] in Hm |- *; [apply nondecreasing_cons in Hm|]; exact Hm. }
  rewrite E2. eauto.
Qed.

Theorem rbe_never_raises : forall l,
  nondecreasing (map a_time l) -> exists s outs, run rbe_init l = (s, outs, 0).
Proof. intros l Hm. exact (rbe_run_ok l rbe_init [] None RInv0_init Hm). Qed.

(* ---------------------------------------------------------------- bounds *)
(* the float-rounded inputs of a call that produced an estimate are admissible
   for the throughput T = latest_estimated_throughput the call ended with *)
Fixpoint fl_admissible (s : rbe) (l : list arrival) : Prop :=
  match l with
  | [] => True
  | a :: l' =>
      match rbe_add s a with
      | Ok (s', o) =>
          (o <> None ->
           fl_in_range (a_fl a) (latest (control s'))) /\
          fl_admissible s' l'
      | _ => True
      end
  end.

(* every estimate along the run: non-negative; if it exceeds the previous one
   it is at most 1.5 T + 10000 (up to the rounding of int(1.5 T)); with an
   OVERUSING verdict at most 0.85 T (up to rounding); listed SSRCs = the (at
   most 255 newest) SSRCs seen so far in first-seen order.  False on any raise. *)
Fixpoint bounds_ok (s : rbe) (prev : Z) (seen : list Z) (l : list arrival) : Prop :=
  match l with
  | [] => True
  | a :: l' =>
      match rbe_add s a with
      | Ok (s', o) =>
          let seen' := note seen (a_ssrc a) in
          match o with
          | None => bounds_ok s' prev seen' l'
          | Some (e, ss) =>
              let T := latest (control s') in
              0 <= e /\
              (prev < e -> e * 2 <= T * 3 + 20002 /\ e <= f_c15 (a_fl a) + 10000) /\
              (a_verdict a = Overusing -> e * 100 <= T * 85 + 51 /\ e <= f_d85 (a_fl a)) /\
              ss = lastn 255 seen' /\
              bounds_ok s' e seen' l'
          end
      | _ => False
      end
  end.

Definition RInv (s : rbe) (smp : list sample) (last : option Z) (prev : Z) (seen : list Z) : Prop :=
  RInv0 s smp last /\ values_nonneg smp /\
  match last with Some t => AInv (control s) t | None => control s = aimd_init end /\
  cb (control s) = prev /\ keys (ssrcs s) = seen.

Lemma bounds_run l : forall s smp last prev seen,
  RInv s smp last prev seen -> nondecreasing (ocons last (map a_time l)) ->
  Forall (fun a => 0 <= a_size a) l -> fl_admissible s l ->
  bounds_ok s prev seen l.
Proof.
  induction l as [|a l IH]; intros s smp last prev seen (H0 & Hv & HA & Hp & Hk) Hm Hsz Hfl;
    cbn [bounds_ok]; [exact I|].
  assert (Hle : le_opt last (a_time a)).
  { destruct last as [t|]; cbn [le_opt]; [|exact I]. cbn in Hm. lia. }
  assert (Hm' : nondecreasing (ocons (Some (a_time a)) (map a_time l))).
  { destruct last as [t|]; cbn [ocons map] in Hm |- *; [apply nondecreasing_cons in Hm|]; exact Hm. }
  apply Forall_cons_iff in Hsz. destruct Hsz as [Hs0 Hsz'].
  destruct (rbe_add_ok s smp last a H0 Hle) as (s1 & o & smp1 & E & H01 & Hk1 & Hv1 & _ & Hc).
  cbn [fl_admissible] in Hfl. rewrite E in *. destruct Hfl as [Hfl1 Hfl].
  destruct (Hv1 Hv Hs0) as [Hv1' _]. clear Hv1. rename Hv1' into Hv1.
  (* the controller invariant holds at some time <= now *)
  assert (HAt : exists t, t <= a_time a /\ AInv (control s) t).
  { destruct last as [t|]; [exists t; split; [exact Hle|exact HA]|].
    exists (a_time a). split; [lia|]. rewrite HA. apply AInv_init. }
  destruct HAt as (t & Ht & HAt).
  destruct Hc as [[Ec ->]|(et & r & _ & Het & Eu & ->)].
  - apply (IH s1 smp1 (Some (a_time a))); try assumption.
    split; [exact H01|]. split; [exact Hv1|]. rewrite Ec.
    split; [eapply AInv_mono; eauto|]. split; [exact Hp|]. rewrite Hk1, Hk. reflexivity.
  - destruct (update_spec (control s) t (a_verdict a) et (a_time a) (a_fl a) HAt Ht (fun x Hx => proj1 (Het Hv1 x Hx)))
      as (c' & r' & Eu' & Hspec).
    rewrite Eu in Eu'. injection Eu' as <- <-.
    destruct r as [e|]; cbn [est_out].
    + destruct Hspec as (Hcb & Hlat & Hrest).
      specialize (Hfl1 ltac:(discriminate)). rewrite Hlat in Hfl1.
      destruct (Hrest Hfl1) as (HA1 & He0 & Hrise & Hover).
      destruct Hfl1 as (Fc & Fd & _).
      split; [exact He0|]. rewrite Hlat.
      split; [intros Hpe; rewrite <- Hp in Hpe; specialize (Hrise Hpe); lia|].
      split; [intros Hov; specialize (Hover Hov); lia|].
      split; [rewrite Hk1, Hk; reflexivity|].
      apply (IH s1 smp1 (Some (a_time a))); try assumption.
      split; [exact H01|]. split; [exact Hv1|]. split; [exact HA1|]. split; [exact Hcb|].
      rewrite Hk1, Hk. reflexivity.
    + destruct Hspec as (Hcb & _ & HA1).
      apply (IH s1 smp1 (Some (a_time a))); try assumption.
      split; [exact H01|]. split; [exact Hv1|]. split; [exact HA1|]. split; [congruence|].
      rewrite Hk1, Hk. reflexivity.
Qed.

Theorem rbe_bounds : forall l,
  nondecreasing (map a_time l) -> Forall (fun a => 0 <= a_size a) l -> fl_admissible rbe_init l ->
  bounds_ok rbe_init 30000000 [] l.
Proof.
  intros l Hm Hs Hf. apply (bounds_run l rbe_init [] None); try assumption.
  split; [exact RInv0_init|]. split; [intros t v []|]. split; [reflexivity|]. split; reflexivity.
Qed.
