(* H.264 payload format: facts about the generated constants, bit-mask facts on
   header bytes, and totality of H264PayloadDescriptor.parse (for C05). *)
From Coq Require Import ZArith List Bool Lia.
From AV Require Import Lib.Bytes Lib.BytesP Lib.CodecX Lib.CodecXP Gen.H264Const Model.H264.
Import ListNotations.
Local Open Scope Z_scope.

(* ---- what the proofs need from the GENERATED constants ----------------------
   Re-checked by computation whenever h264.py changes them.  Everything below
   uses only these facts, never the concrete value of PACKET_MAX. *)
Lemma consts_ok :
  h264_NAL_HEADER_SIZE = 1 /\
  h264_LENGTH_FIELD_SIZE = 2 /\
  2 <= h264_FU_A_HEADER_SIZE /\
  h264_FU_A_HEADER_SIZE < h264_PACKET_MAX /\
  h264_NAL_HEADER_SIZE + h264_LENGTH_FIELD_SIZE <= h264_STAP_A_HEADER_SIZE /\
  h264_STAP_A_HEADER_SIZE <= h264_PACKET_MAX /\
  h264_PACKET_MAX <= 65535 /\
  h264_NAL_TYPE_FU_A = 28 /\
  h264_NAL_TYPE_STAP_A = 24.
Proof. vm_compute. repeat split; congruence. Qed.

Lemma nal_header_size : h264_NAL_HEADER_SIZE = 1. Proof. apply consts_ok. Qed.
Lemma length_field_size : h264_LENGTH_FIELD_SIZE = 2. Proof. apply consts_ok. Qed.
Lemma type_fu_a : h264_NAL_TYPE_FU_A = 28. Proof. apply consts_ok. Qed.
Lemma type_stap_a : h264_NAL_TYPE_STAP_A = 24. Proof. apply consts_ok. Qed.

(* ---- header byte facts (by enumeration of the 256 byte values) -------------- *)
Definition nal_type (b : Z) : Z := Z.land b 31.
Definition f_nri (b : Z) : Z := Z.land b 224.

Ltac by_byte_enum Pb :=
  apply (byte_ind _ Pb); [solve_bool_to_prop | vm_compute; reflexivity].

Lemma byte_split : forall b, 0 <= b < 256 ->
  Z.lor (Z.land b 224) (Z.land b 31) = b /\ 0 <= Z.land b 31 < 32 /\ 0 <= Z.land b 224 < 256.
Proof.
  by_byte_enum (fun b => (Z.lor (Z.land b 224) (Z.land b 31) =? b) && (0 <=? Z.land b 31) &&
                         (Z.land b 31 <? 32) && (0 <=? Z.land b 224) && (Z.land b 224 <? 256)).
Qed.

(* the FU indicator byte  f_nri | 28 *)
Lemma fu_indicator_facts : forall b, 0 <= b < 256 ->
  let ind := Z.lor (Z.land b 224) h264_NAL_TYPE_FU_A in
  Z.land ind 31 = h264_NAL_TYPE_FU_A /\ Z.land ind 224 = Z.land b 224 /\ 0 <= ind < 256.
Proof.
  by_byte_enum (fun b => let ind := Z.lor (Z.land b 224) h264_NAL_TYPE_FU_A in
                         (Z.land ind 31 =? h264_NAL_TYPE_FU_A) && (Z.land ind 224 =? Z.land b 224) &&
                         (0 <=? ind) && (ind <? 256)).
Qed.

(* the three FU header bytes  nal | 0x80,  nal,  nal | 0x40 *)
Lemma fu_header_facts : forall b, 0 <= b < 256 ->
  let nal := Z.land b 31 in
  (Z.land (Z.lor nal 128) 31 = nal /\ Z.land (Z.lor nal 128) 128 = 128 /\
   Z.land (Z.lor nal 128) 64 = 0 /\ Z.land (Z.lor nal 128) 32 = 0 /\ 0 <= Z.lor nal 128 < 256) /\
  (Z.land nal 31 = nal /\ Z.land nal 128 = 0 /\ Z.land nal 64 = 0 /\ Z.land nal 32 = 0 /\ 0 <= nal < 256) /\
  (Z.land (Z.lor nal 64) 31 = nal /\ Z.land (Z.lor nal 64) 128 = 0 /\
   Z.land (Z.lor nal 64) 64 = 64 /\ Z.land (Z.lor nal 64) 32 = 0 /\ 0 <= Z.lor nal 64 < 256).
Proof.
  by_byte_enum (fun b => let nal := Z.land b 31 in
     (Z.land (Z.lor nal 128) 31 =? nal) && (Z.land (Z.lor nal 128) 128 =? 128) &&
     (Z.land (Z.lor nal 128) 64 =? 0) && (Z.land (Z.lor nal 128) 32 =? 0) &&
     (0 <=? Z.lor nal 128) && (Z.lor nal 128 <? 256) &&
     (Z.land nal 31 =? nal) && (Z.land nal 128 =? 0) && (Z.land nal 64 =? 0) && (Z.land nal 32 =? 0) &&
     (0 <=? nal) && (nal <? 256) &&
     (Z.land (Z.lor nal 64) 31 =? nal) && (Z.land (Z.lor nal 64) 128 =? 0) &&
     (Z.land (Z.lor nal 64) 64 =? 64) && (Z.land (Z.lor nal 64) 32 =? 0) &&
     (0 <=? Z.lor nal 64) && (Z.lor nal 64 <? 256)).
Qed.

(* the initial STAP-A header  24 | (b & 0xE0) *)
Lemma stap_header_init : forall b, 0 <= b < 256 ->
  let h := Z.lor h264_NAL_TYPE_STAP_A (Z.land b 224) in
  Z.land h 31 = h264_NAL_TYPE_STAP_A /\ 0 <= h < 256.
Proof.
  by_byte_enum (fun b => let h := Z.lor h264_NAL_TYPE_STAP_A (Z.land b 224) in
                         (Z.land h 31 =? h264_NAL_TYPE_STAP_A) && (0 <=? h) && (h <? 256)).
Qed.

(* one update of the STAP-A header in the aggregation loop keeps type and range *)
Definition stap_header_step (h n0 : Z) : Z :=
  let h1 := Z.lor h (Z.land n0 128) in
  if Z.land h1 96 <? Z.land n0 96 then Z.lor (Z.land h1 159) (Z.land n0 96) else h1.

Lemma stap_header_step_facts : forall h n0, 0 <= h < 256 -> 0 <= n0 < 256 ->
  Z.land (stap_header_step h n0) 31 = Z.land h 31 /\ 0 <= stap_header_step h n0 < 256.
Proof.
  apply (byte2_ind _ (fun h n0 => (Z.land (stap_header_step h n0) 31 =? Z.land h 31) &&
                                  (0 <=? stap_header_step h n0) && (stap_header_step h n0 <? 256))).
  - solve_bool_to_prop.
  - vm_compute. reflexivity.
Qed.

(* ---- totality of the STAP-A offsets loop -------------------------------------- *)
Lemma stap_offsets_total : forall fuel data pos,
  bytes_ok data -> 0 <= pos -> (Z.to_nat (len data - pos) < fuel)%nat ->
  exists l, (stap_offsets fuel data pos = Ok l \/ stap_offsets fuel data pos = ValueErr) /\
            (length l <= Z.to_nat (len data - pos))%nat.
Proof.
  induction fuel as [|fuel IH]; intros data pos Hok Hpos Hfuel; [lia|].
  cbn [stap_offsets]. rewrite length_field_size.
  destruct (pos <? len data) eqn:E1.
  2:{ exists []. split; [now left | cbn; lia]. }
  apply Z.ltb_lt in E1.
  destruct (len data <? pos + 2) eqn:E2.
  { exists []. split; [now right | cbn; lia]. }
  apply Z.ltb_ge in E2.
  destruct (u16 data (Z.to_nat pos)) as [sz|] eqn:E3.
  2:{ destruct (u16_some data (Z.to_nat pos)) as [v Hv]; [unfold len in *; lia | congruence]. }
  pose proof (u16_range _ _ _ Hok E3) as Hsz.
  destruct (len data <? pos + 2 + sz) eqn:E4.
  { exists []. split; [now right | cbn; lia]. }
  apply Z.ltb_ge in E4.
  destruct (IH data (pos + 2 + sz) Hok ltac:(lia) ltac:(lia)) as [l [Hl Hlen]].
  destruct Hl as [Hl | Hl]; rewrite Hl; cbn [bind].
  - exists ((pos + 2) :: l). split; [now left | cbn [length]; lia].
  - exists []. split; [now right | cbn; lia].
Qed.

(* ---- C05: H264PayloadDescriptor.parse returns a value or ValueError ------------
   for EVERY byte string; the fuel S (length data) is never exhausted and the
   STAP-A loop runs at most len(data) times. *)
Theorem h264_descriptor_parse_total : forall b, bytes_ok b ->
  (exists v, parse b = Ok v) \/ parse b = ValueErr.
Proof.
  intros data Hok. unfold parse.
  destruct (len data <? 2) eqn:E0; [now right|].
  apply Z.ltb_ge in E0.
  destruct (u8 data 0) as [b0|] eqn:Eb0.
  2:{ destruct (u8_some data 0) as [v Hv]; [unfold len in *; lia | congruence]. }
  destruct ((1 <=? Z.land b0 31) && (Z.land b0 31 <? 24)); [left; eauto|].
  destruct (Z.land b0 31 =? h264_NAL_TYPE_FU_A).
  { rewrite nal_header_size. rewrite pyidx_nonneg by lia.
    destruct (u8 data (Z.to_nat 1)) as [b1|] eqn:Eb1; [left; eauto|].
    destruct (u8_some data (Z.to_nat 1)) as [v Hv]; [unfold len in *; lia | congruence]. }
  destruct (Z.land b0 31 =? h264_NAL_TYPE_STAP_A); [|now right].
  destruct (stap_offsets_total (S (length data)) data h264_NAL_HEADER_SIZE Hok) as [l [[Hl | Hl] _]].
  - rewrite nal_header_size. lia.
  - rewrite nal_header_size. unfold len. lia.
  - rewrite Hl. cbn [bind]. left. eauto.
  - rewrite Hl. cbn [bind]. now right.
Qed.

(* the number of iterations of the STAP-A loop is bounded by the datagram length *)
Lemma h264_stap_offsets_linear : forall data l,
  bytes_ok data -> stap_offsets (S (length data)) data h264_NAL_HEADER_SIZE = Ok l ->
  (length l <= length data)%nat.
Proof.
  intros data l Hok H.
  destruct (stap_offsets_total (S (length data)) data h264_NAL_HEADER_SIZE Hok) as [l' [[Hl | Hl] Hlen]];
    try (rewrite nal_header_size; unfold len; lia).
  - rewrite H in Hl. injection Hl as <-. rewrite nal_header_size in Hlen. unfold len in Hlen. lia.
  - congruence.
Qed.
