(* Lemmas about Model/SctpWire.v, part 5: everything parse_packet returns is
   well formed (chunk_okb), so it can be serialised again without struct.error
   and parses back to itself. *)
From Coq Require Import ZArith List Bool Lia ZifyBool.
From AV Require Import Lib.Bytes Lib.BytesP Gen.SctpConst Model.Crc32c Model.SctpWire
  Proof.SctpWireP Proof.SctpWireRtP.
Import ListNotations.
Local Open Scope Z_scope.

Ltac Zify.zify_post_hook ::= Z.to_euclidean_division_equations.

Lemma enc_rec_len_cons p rest :
  len (enc_rec (p :: rest)) =
  4 + len (snd p) + match rest with [] => 0 | _ => padl (len (snd p) + 4) + len (enc_rec rest) end.
Proof.
  cbn [enc_rec]. pose proof (padl_range (len (snd p) + 4)).
  destruct rest as [|q rest'].
  - unfold len. rewrite !app_length, !length_be16. cbn [length]. lia.
  - unfold len in *. rewrite !app_length, !length_be16, zpad_length by lia. lia.
Qed.

Lemma decode_loop_wf fuel : forall body pos ps,
  bytes_ok body -> decode_params_loop fuel body pos = Ok ps ->
  params_okb ps = true /\ len (enc_rec ps) <= Z.max 0 (len body - Z.of_nat pos).
Proof.
  induction fuel as [|f IH]; intros body pos ps Hok H; [discriminate|].
  cbn [decode_params_loop] in H.
  destruct (Z.of_nat pos <=? len body - 4) eqn:E.
  2:{ injection H as <-. split; [reflexivity|]. change (len (enc_rec [])) with 0. lia. }
  destruct (u16 body pos) as [pt|] eqn:Ept; [|discriminate].
  destruct (u16 body (pos + 2)) as [pl|] eqn:Epl; [|discriminate].
  destruct ((pl <? 4) || (Z.of_nat pos + pl >? len body)) eqn:E2; [discriminate|].
  destruct (decode_params_loop f body (pos + Z.to_nat (pl + padl pl))) as [rest| | |] eqn:Er; try discriminate.
  injection H as <-.
  apply (u16_range _ _ _ Hok) in Ept. apply (u16_range _ _ _ Hok) in Epl.
  destruct (IH _ _ _ Hok Er) as [Hr Hlen].
  set (v := slice body (pos + 4) (pos + Z.to_nat pl)).
  assert (Lv : len v = pl - 4).
  { subst v. unfold len in *. rewrite slice_length. lia. }
  split.
  - cbn [params_okb forallb]. fold (params_okb rest). rewrite Hr, andb_true_r.
    apply param_okb_iff. cbn [fst snd]. repeat split; try lia. subst v. now apply bytes_ok_slice.
  - rewrite enc_rec_len_cons. cbn [snd]. rewrite Lv. pose proof (padl_range pl) as Hpad.
    replace (pl - 4 + 4) with pl by lia.
    destruct rest as [|q rest']; [lia|].
    pose proof (enc_rec_length_ge (q :: rest') ltac:(discriminate)). lia.
Qed.

Lemma decode_params_wf body ps :
  bytes_ok body -> decode_params body = Ok ps ->
  params_okb ps = true /\ len (encode_params ps) <= len body.
Proof.
  intros Hok H. unfold decode_params in H. destruct (decode_loop_wf _ _ _ _ Hok H) as [H1 H2].
  split; [exact H1|]. rewrite encode_params_rec. pose proof (len_nonneg body). lia.
Qed.

Lemma read_pairs_wf n : forall body pos l,
  bytes_ok body -> read_pairs body pos n = Some l -> forallb pair_okb l = true /\ length l = n.
Proof.
  induction n as [|n IH]; intros body pos l Hok H; cbn [read_pairs] in H.
  - injection H as <-. now split.
  - destruct (u16 body pos) as [a|] eqn:Ea; [|discriminate].
    destruct (u16 body (pos + 2)) as [b|] eqn:Eb; [|discriminate].
    destruct (read_pairs body (pos + 4) n) as [rest|] eqn:Er; [|discriminate].
    injection H as <-. destruct (IH _ _ _ Hok Er) as [H1 H2].
    apply (u16_range _ _ _ Hok) in Ea. apply (u16_range _ _ _ Hok) in Eb.
    cbn [forallb length]. rewrite H1, H2. split; [|reflexivity].
    unfold pair_okb, in_u16. cbn [fst snd]. lia.
Qed.

Lemma read_u32s_wf n : forall body pos l,
  bytes_ok body -> read_u32s body pos n = Some l -> forallb in_u32 l = true /\ length l = n.
Proof.
  induction n as [|n IH]; intros body pos l Hok H; cbn [read_u32s] in H.
  - injection H as <-. now split.
  - destruct (u32 body pos) as [a|] eqn:Ea; [|discriminate].
    destruct (read_u32s body (pos + 4) n) as [rest|] eqn:Er; [|discriminate].
    injection H as <-. destruct (IH _ _ _ Hok Er) as [H1 H2].
    apply (u32_range _ _ _ Hok) in Ea.
    cbn [forallb length]. rewrite H1, H2. split; [|reflexivity]. unfold in_u32. lia.
Qed.

Lemma fwd_loop_wf fuel : forall body pos l,
  bytes_ok body -> fwd_streams_loop fuel body pos = Ok l ->
  forallb pair_okb l = true /\ Z.of_nat (length l) * 4 <= Z.max 0 (len body - Z.of_nat pos).
Proof.
  induction fuel as [|f IH]; intros body pos l Hok H; [discriminate|].
  cbn [fwd_streams_loop] in H.
  destruct (Z.of_nat pos <? len body) eqn:E.
  2:{ injection H as <-. split; [reflexivity|]. cbn [length]. lia. }
  destruct (u16 body pos) as [a|] eqn:Ea; [|discriminate].
  destruct (u16 body (pos + 2)) as [b|] eqn:Eb; [|discriminate].
  destruct (fwd_streams_loop f body (pos + 4)) as [rest| | |] eqn:Er; try discriminate.
  injection H as <-. destruct (IH _ _ _ Hok Er) as [H1 H2].
  pose proof (u16_lt _ _ _ Eb) as Hlt.
  apply (u16_range _ _ _ Hok) in Ea. apply (u16_range _ _ _ Hok) in Eb.
  cbn [forallb length]. rewrite H1. split.
  - unfold pair_okb, in_u16. cbn [fst snd]. lia.
  - unfold len in *. lia.
Qed.

Lemma in_u8_true x : 0 <= x < 256 -> in_u8 x = true.
Proof. intros. now apply in_u8_iff. Qed.
Lemma in_u16_true x : 0 <= x < 65536 -> in_u16 x = true.
Proof. intros. now apply in_u16_iff. Qed.
Lemma in_u32_true x : 0 <= x < 4294967296 -> in_u32 x = true.
Proof. intros. now apply in_u32_iff. Qed.

(* every constructor reached from parse_packet yields a well-formed chunk *)
Lemma chunk_ctor_wf ty fl body c :
  in_u8 fl = true -> bytes_ok body -> len body + 4 < 65536 ->
  chunk_ctor ty fl body = Some (Ok c) -> chunk_okb c = true.
Proof.
  intros Hfl Hok Hlen H. pose proof (len_nonneg body) as Hb0. unfold chunk_ctor in H.
  destruct (ty =? 0) eqn:T0.
  { injection H as H. unfold data_ctor in H. destruct (nonempty body).
    2:{ injection H as <-. unfold chunk_okb. cbn [chunk_flags]. rewrite Hfl. reflexivity. }
    destruct (len body <? 12) eqn:E; [discriminate|].
    destruct (u32 body 0) as [a|] eqn:Ea; [|discriminate]. destruct (u16 body 4) as [b|] eqn:Eb; [|discriminate].
    destruct (u16 body 6) as [c0|] eqn:Ec; [|discriminate]. destruct (u32 body 8) as [d|] eqn:Ed; [|discriminate].
    assert (Hc : c = CData fl a b c0 d (from body 12)) by congruence. clear H. subst c.
    apply (u32_range _ _ _ Hok) in Ea. apply (u16_range _ _ _ Hok) in Eb.
    apply (u16_range _ _ _ Hok) in Ec. apply (u32_range _ _ _ Hok) in Ed.
    unfold chunk_okb. cbn [chunk_flags]. rewrite Hfl, !in_u32_true, !in_u16_true by lia. rewrite ?andb_true_l.
    assert (Lu : len (from body 12) = len body - 12).
    { unfold from, len in *. rewrite skipn_length. lia. }
    rewrite Lu. rewrite in_u16_true by lia. rewrite andb_true_r.
    apply bytes_okb_ok. unfold from. now apply bytes_ok_skipn. }
  destruct ((ty =? 1) || (ty =? 2)) eqn:T1.
  { injection H as H. unfold init_ctor in H. destruct (nonempty body).
    2:{ injection H as <-. unfold chunk_okb. cbn [chunk_flags]. rewrite Hfl, T1. reflexivity. }
    destruct (len body <? 16) eqn:E; [discriminate|].
    destruct (u32 body 0) as [a|] eqn:Ea; [|discriminate]. destruct (u32 body 4) as [b|] eqn:Eb; [|discriminate].
    destruct (u16 body 8) as [c0|] eqn:Ec; [|discriminate]. destruct (u16 body 10) as [d|] eqn:Ed; [|discriminate].
    destruct (u32 body 12) as [e|] eqn:Ee; [|discriminate].
    destruct (decode_params (from body 16)) as [ps| | |] eqn:Ep; try discriminate.
    cbn [bind] in H. injection H as <-.
    apply (u32_range _ _ _ Hok) in Ea. apply (u32_range _ _ _ Hok) in Eb. apply (u16_range _ _ _ Hok) in Ec.
    apply (u16_range _ _ _ Hok) in Ed. apply (u32_range _ _ _ Hok) in Ee.
    assert (Hok' : bytes_ok (from body 16)) by (unfold from; now apply bytes_ok_skipn).
    destruct (decode_params_wf _ _ Hok' Ep) as [Hps Hpl].
    assert (Lu : len (from body 16) = len body - 16).
    { unfold from, len in *. rewrite skipn_length. lia. }
    unfold chunk_okb. cbn [chunk_flags chunk_body].
    rewrite Hfl, T1, Hps, !in_u32_true, !in_u16_true by lia. rewrite ?andb_true_l.
    apply in_u16_true. rewrite len_app. pose proof (len_nonneg (encode_params ps)).
    change (len (be32 a ++ be32 b ++ be16 c0 ++ be16 d ++ be32 e)) with 16. lia. }
  destruct (ty =? 3) eqn:T3.
  { injection H as H. unfold sack_ctor in H. destruct (nonempty body).
    2:{ injection H as <-. unfold chunk_okb. cbn [chunk_flags]. rewrite Hfl. reflexivity. }
    destruct (len body <? 12) eqn:E; [discriminate|].
    destruct (u32 body 0) as [a|] eqn:Ea; [|discriminate]. destruct (u32 body 4) as [b|] eqn:Eb; [|discriminate].
    destruct (u16 body 8) as [ng|] eqn:Eg; [|discriminate]. destruct (u16 body 10) as [nd|] eqn:Ed; [|discriminate].
    destruct (12 + (ng + nd) * 4 >? len body) eqn:E2; [discriminate|].
    destruct (read_pairs body 12 (Z.to_nat ng)) as [gaps|] eqn:Egaps; [|discriminate].
    destruct (read_u32s body (12 + Z.to_nat ng * 4) (Z.to_nat nd)) as [dups|] eqn:Edups; [|discriminate].
    injection H as <-.
    apply (u32_range _ _ _ Hok) in Ea. apply (u32_range _ _ _ Hok) in Eb. apply (u16_range _ _ _ Hok) in Eg.
    apply (u16_range _ _ _ Hok) in Ed.
    destruct (read_pairs_wf _ _ _ _ Hok Egaps) as [G1 G2]. destruct (read_u32s_wf _ _ _ _ Hok Edups) as [D1 D2].
    unfold chunk_okb. cbn [chunk_flags]. rewrite Hfl, G1, D1, G2, D2, !in_u32_true by lia. rewrite ?andb_true_l.
    apply in_u16_true. lia. }
  destruct ((ty =? 4) || (ty =? 5) || (ty =? 6) || (ty =? 9) || (ty =? 130)) eqn:T4.
  { injection H as H. unfold params_ctor in H. destruct (nonempty body).
    2:{ injection H as <-. unfold chunk_okb. cbn [chunk_flags]. rewrite Hfl, T4. reflexivity. }
    destruct (decode_params body) as [ps| | |] eqn:Ep; try discriminate.
    cbn [bind] in H. injection H as <-. destruct (decode_params_wf _ _ Hok Ep) as [Hps Hpl].
    unfold chunk_okb. cbn [chunk_flags chunk_body]. rewrite Hfl, T4, Hps. rewrite ?andb_true_l.
    apply in_u16_true. pose proof (len_nonneg (encode_params ps)). lia. }
  destruct (ty =? 7) eqn:T7.
  { injection H as H. unfold shutdown_ctor in H. destruct (nonempty body).
    2:{ injection H as <-. unfold chunk_okb. cbn [chunk_flags]. rewrite Hfl. reflexivity. }
    destruct (len body <? 4); [discriminate|].
    destruct (u32 body 0) as [a|] eqn:Ea; [|discriminate]. injection H as <-.
    apply (u32_range _ _ _ Hok) in Ea. unfold chunk_okb. cbn [chunk_flags]. now rewrite Hfl, in_u32_true by lia. }
  destruct ((ty =? 8) || (ty =? 10) || (ty =? 11) || (ty =? 14)) eqn:T8.
  { assert (Hc : c = CPlain ty fl body) by (unfold plain_ctor in H; congruence). clear H. subst c.
    unfold chunk_okb. cbn [chunk_flags]. rewrite Hfl, T8, in_u16_true by lia.
    rewrite (proj2 (bytes_okb_ok body) Hok). reflexivity. }
  destruct (ty =? 192) eqn:T9; [|discriminate].
  injection H as H. unfold fwd_ctor in H. destruct (nonempty body).
  2:{ injection H as <-. unfold chunk_okb. cbn [chunk_flags]. rewrite Hfl. reflexivity. }
  destruct ((len body <? 4) || negb (len body mod 4 =? 0)) eqn:E; [discriminate|].
  destruct (u32 body 0) as [a|] eqn:Ea; [|discriminate].
  destruct (fwd_streams_loop (S (length body)) body 4) as [streams| | |] eqn:Es; try discriminate.
  cbn [bind] in H. injection H as <-. apply (u32_range _ _ _ Hok) in Ea.
  destruct (fwd_loop_wf _ _ _ _ Hok Es) as [S1 S2].
  unfold chunk_okb. cbn [chunk_flags]. rewrite Hfl, S1, in_u32_true by lia. rewrite ?andb_true_l.
  apply in_u16_true. rewrite wire_body_fwd. cbn [wire_body]. rewrite len_app.
  change (len (be32 a)) with 4. unfold len in *.
  rewrite (flat_map_length_const pair_bytes 4) by reflexivity. lia.
Qed.

Lemma parse_chunks_wf fuel : forall data pos cs,
  bytes_ok data -> parse_chunks fuel data pos = Ok cs -> forallb chunk_okb cs = true.
Proof.
  induction fuel as [|f IH]; intros data pos cs Hok H; [discriminate|].
  cbn [parse_chunks] in H. unfold SCTP_CHUNK_HEADER_LENGTH in H.
  destruct (Z.of_nat pos <=? len data - 4) eqn:E; [|injection H as <-; reflexivity].
  destruct (u8 data pos) as [ty|] eqn:Ety; [|discriminate].
  destruct (u8 data (pos + 1)) as [fl|] eqn:Efl; [|discriminate].
  destruct (u16 data (pos + 2)) as [cl|] eqn:Ecl; [|discriminate].
  destruct ((cl <? 4) || (Z.of_nat pos + cl >? len data)) eqn:E2; [discriminate|].
  apply (u8_range _ _ _ Hok) in Efl. apply (u16_range _ _ _ Hok) in Ecl.
  set (body := slice data (pos + Z.to_nat 4) (pos + Z.to_nat cl)) in *.
  assert (Lb : len body = cl - 4).
  { subst body. unfold len in *. rewrite slice_length. lia. }
  destruct (chunk_ctor ty fl body) as [r|] eqn:Ector.
  2:{ now apply (IH _ _ _ Hok H). }
  destruct (negb (nonempty body) && has_fixed_part ty); [discriminate|].
  destruct r as [c| | |]; cbn [bind] in H; try discriminate.
  destruct (parse_chunks f data (pos + Z.to_nat (cl + padl cl))) as [rest| | |] eqn:Er; cbn [bind] in H;
    try discriminate.
  injection H as <-. cbn [forallb]. rewrite (IH _ _ _ Hok Er), andb_true_r.
  apply (chunk_ctor_wf ty fl body c); [now apply in_u8_true|subst body; now apply bytes_ok_slice|lia|exact Ector].
Qed.

Lemma parse_packet_wf data sp dp tag cs :
  bytes_ok data -> parse_packet data = Ok (sp, dp, tag, cs) ->
  in_u16 sp = true /\ in_u16 dp = true /\ in_u32 tag = true /\ forallb chunk_okb cs = true.
Proof.
  intros Hok H. unfold parse_packet in H.
  destruct (len data <? SCTP_PACKET_MINIMUM_LENGTH); [discriminate|].
  destruct (u16 data 0) as [a|] eqn:Ea; [|discriminate]. destruct (u16 data 2) as [b|] eqn:Eb; [|discriminate].
  destruct (u32 data 4) as [c|] eqn:Ec; [|discriminate]. destruct (u32le data 8); [|discriminate].
  destruct (negb _); [discriminate|].
  destruct (parse_chunks (S (length data)) data (Z.to_nat SCTP_COMMON_HEADER_LENGTH)) as [chunks| | |] eqn:Ep;
    cbn [bind] in H; try discriminate.
  injection H as <- <- <- <-.
  apply (u16_range _ _ _ Hok) in Ea. apply (u16_range _ _ _ Hok) in Eb. apply (u32_range _ _ _ Hok) in Ec.
  repeat split; [now apply in_u16_true|now apply in_u16_true|now apply in_u32_true|].
  now apply (parse_chunks_wf _ _ _ _ Hok Ep).
Qed.

(* parse ; serialise ; parse = parse *)
Lemma parse_serialize_parse data sp dp tag cs :
  bytes_ok data -> parse_packet data = Ok (sp, dp, tag, cs) -> cs <> [] ->
  parse_packet (packet_bytes sp dp tag (flat_map chunk_bytes cs)) = Ok (sp, dp, tag, cs).
Proof.
  intros Hok H Hne. destruct (parse_packet_wf _ _ _ _ _ Hok H) as (H1 & H2 & H3 & H4).
  now apply parse_packet_bundle.
Qed.
