(* Proofs about Model/Rtp.v, part 1: RFC 5285 elements (pack/unpack_header_extensions)
   and HeaderExtensionsMap.get / set. *)
From Coq Require Import ZArith List Bool Lia.
From AV Require Import Lib.Bytes Lib.BytesP Lib.RtpX Gen.RtpConst Model.Rtp Proof.RtpBitsP.
Import ListNotations.
Local Open Scope Z_scope.

Ltac Zify.zify_post_hook ::= Z.to_euclidean_division_equations.

(* ================================================================ elements *)
Definition wf_ext (e : ext) : Prop :=
  1 <= fst e <= 255 /\ (length (snd e) <= 255)%nat /\ bytes_ok (snd e).

(* the form chosen by pack_header_extensions *)
Definition one_ok (e : ext) : bool :=
  (fst e <=? 14) && (1 <=? len (snd e)) && (len (snd e) <=? 16).

Lemma pack_scan_spec xs : forall acc,
  Forall wf_ext xs -> pack_scan xs acc = Ok (acc && forallb one_ok xs).
Proof.
  induction xs as [|[i v] xs IH]; intros acc H; cbn [pack_scan forallb].
  - now rewrite andb_true_r.
  - inversion H as [|? ? (Hi & Hl & _) H']; subst. cbn [fst snd] in *.
    replace ((0 <? i) && (i <? 256)) with true by (symmetry; apply andb_true_iff; lia).
    replace ((0 <=? len v) && (len v <? 256)) with true
      by (symmetry; apply andb_true_iff; unfold len; lia).
    cbn [negb]. rewrite IH by assumption. f_equal. unfold one_ok. cbn [fst snd].
    destruct (Z.ltb_spec 14 i), (Z.leb_spec i 14); try lia;
    destruct (Z.eqb_spec (len v) 0), (Z.leb_spec 1 (len v)); try (unfold len in *; lia);
    destruct (Z.ltb_spec 16 (len v)), (Z.leb_spec (len v) 16); try lia;
    cbn [orb andb]; now rewrite ?andb_false_r, ?andb_true_r.
Qed.

Lemma unpack_one_zeros z : forall fuel, (z < fuel)%nat -> unpack_one fuel (zeros z) = Ok [].
Proof.
  induction z as [|z IH]; intros [|f] Hf; try lia; [reflexivity|].
  cbn [zeros repeat unpack_one Z.eqb]. apply IH. lia.
Qed.
Lemma unpack_two_zeros z : forall fuel, (z < fuel)%nat -> unpack_two fuel (zeros z) = Ok [].
Proof.
  induction z as [|z IH]; intros [|f] Hf; try lia; [reflexivity|].
  cbn [zeros repeat unpack_two Z.eqb]. apply IH. lia.
Qed.

Lemma hi_nibble : forall b, 0 <= b < 256 -> (Z.shiftr (Z.land b 240) 4 =? b / 16) = true.
Proof. byte_fact. Qed.

Lemma pack_one_roundtrip xs : forall b,
  Forall wf_ext xs -> forallb one_ok xs = true -> pack_one xs = Ok b ->
  bytes_ok b /\ (length b <= 17 * length xs)%nat /\ (xs <> [] -> b <> []) /\
  forall fuel z, (length b + z < fuel)%nat -> unpack_one fuel (b ++ zeros z) = Ok xs.
Proof.
  induction xs as [|[i v] xs IH]; intros b Hwf Hone Hb; cbn [pack_one] in Hb.
  - apply Ok_inj in Hb. subst b. split; [apply bytes_ok_nil|]. split; [cbn; lia|]. split; [congruence|].
    intros fuel z Hf. cbn [app]. apply unpack_one_zeros. cbn [length] in Hf. lia.
  - inversion Hwf as [|? ? (Hi & Hl & Hv) Hwf']; subst. cbn [fst snd] in *.
    cbn [forallb] in Hone. apply andb_true_iff in Hone as [H1 Hone'].
    unfold one_ok in H1. cbn [fst snd] in H1.
    apply andb_true_iff in H1 as [H1 H3]. apply andb_true_iff in H1 as [H1 H2].
    apply Z.leb_le in H1, H2, H3.
    assert (Hbyte : Z.lor (Z.shiftl i 4) (len v - 1) = i * 16 + (len v - 1)).
    { rewrite Z.shiftl_mul_pow2 by lia. change (2 ^ 4) with 16.
      apply (lor_add _ _ 4); [lia|change (2 ^ 4) with 16; lia|change (2 ^ 4) with 16; lia]. }
    rewrite Hbyte in Hb. rewrite u8ok_intro in Hb by lia.
    destruct (pack_one xs) as [r| | |] eqn:Hr; cbn [bind] in Hb; try discriminate.
    apply Ok_inj in Hb. subst b. destruct (IH r Hwf' Hone' eq_refl) as (IHok & IHlen & _ & IHp).
    unfold be8. replace ((i * 16 + (len v - 1)) mod 256) with (i * 16 + (len v - 1)) by lia.
    split; [|split; [|split]].
    + apply bytes_ok_app. split; [unfold bytes_ok; repeat constructor; unfold byte_ok; lia|].
      apply bytes_ok_app. auto.
    + rewrite !app_length. cbn [length]. unfold len in H3. lia.
    + intros _. cbn [app]. discriminate.
    + intros fuel z Hf. destruct fuel as [|f]; [lia|].
      cbn [app unpack_one].
      replace (i * 16 + (len v - 1) =? 0) with false by (symmetry; apply Z.eqb_neq; lia).
      assert (E := hi_nibble (i * 16 + (len v - 1)) ltac:(lia)). apply Z.eqb_eq in E. rewrite E.
      rewrite land_15.
      replace ((i * 16 + (len v - 1)) / 16) with i by lia.
      replace ((i * 16 + (len v - 1)) mod 16 + 1) with (len v) by lia.
      rewrite <- app_assoc.
      replace (len (v ++ r ++ zeros z) <? len v) with false
        by (symmetry; apply Z.ltb_ge; rewrite len_app; assert (H0 := len_nonneg (r ++ zeros z)); lia).
      unfold len. rewrite Nat2Z.id, firstn_app_exact, skipn_app_exact.
      rewrite IHp; [reflexivity|]. rewrite !app_length in Hf. cbn [length] in Hf. lia.
Qed.

Lemma pack_two_roundtrip xs : forall b,
  Forall wf_ext xs -> pack_two xs = Ok b ->
  bytes_ok b /\ (length b <= 257 * length xs)%nat /\ (xs <> [] -> b <> []) /\
  forall fuel z, (length b + z < fuel)%nat -> unpack_two fuel (b ++ zeros z) = Ok xs.
Proof.
  induction xs as [|[i v] xs IH]; intros b Hwf Hb; cbn [pack_two] in Hb.
  - apply Ok_inj in Hb. subst b. split; [apply bytes_ok_nil|]. split; [cbn; lia|]. split; [congruence|].
    intros fuel z Hf. cbn [app]. apply unpack_two_zeros. cbn [length] in Hf. lia.
  - inversion Hwf as [|? ? (Hi & Hl & Hv) Hwf']; subst. cbn [fst snd] in *.
    rewrite !u8ok_intro in Hb by (unfold len; lia). cbn [andb] in Hb.
    destruct (pack_two xs) as [r| | |] eqn:Hr; cbn [bind] in Hb; try discriminate.
    apply Ok_inj in Hb. subst b. destruct (IH r Hwf' eq_refl) as (IHok & IHlen & _ & IHp).
    unfold be8. replace (i mod 256) with i by lia.
    replace (len v mod 256) with (len v) by (unfold len; lia).
    split; [|split; [|split]].
    + apply bytes_ok_app. split; [unfold bytes_ok; repeat constructor; unfold byte_ok; lia|].
      apply bytes_ok_app. split; [unfold bytes_ok; repeat constructor; unfold byte_ok, len; lia|].
      apply bytes_ok_app. auto.
    + rewrite !app_length. cbn [length]. lia.
    + intros _. cbn [app]. discriminate.
    + intros fuel z Hf. destruct fuel as [|f]; [lia|].
      cbn [app unpack_two].
      replace (i =? 0) with false by (symmetry; apply Z.eqb_neq; lia).
      rewrite <- app_assoc.
      replace (len (v ++ r ++ zeros z) <? len v) with false
        by (symmetry; apply Z.ltb_ge; rewrite len_app; assert (H0 := len_nonneg (r ++ zeros z)); lia).
      unfold len. rewrite Nat2Z.id, firstn_app_exact, skipn_app_exact.
      rewrite IHp; [reflexivity|]. rewrite !app_length in Hf. cbn [length] in Hf. lia.
Qed.

Lemma padl_spec n : 0 <= n -> 0 <= rtp_padl n <= 3 /\ (n + rtp_padl n) mod 4 = 0.
Proof. intros H. unfold rtp_padl. lia. Qed.

(* unpack (pack xs) = xs; profile 0xBEDE iff every id <= 14 and every length in 1..16;
   the value is 4-byte aligned and nonempty iff xs is *)
Theorem hdrext_pack_unpack xs :
  Forall wf_ext xs ->
  exists profile value,
    pack_header_extensions xs = Ok (profile, value) /\
    unpack_header_extensions profile value = Ok xs /\
    bytes_ok value /\ len value mod 4 = 0 /\ (length value <= 257 * length xs + 3)%nat /\
    (xs = [] -> value = []) /\ (xs <> [] -> value <> []) /\
    (xs <> [] -> profile = if forallb one_ok xs then 48862 else 4096) /\ 0 <= profile < 65536.
Proof.
  intros Hwf. destruct xs as [|x xs'].
  - exists 0, []. cbn. repeat split; try congruence; try lia. apply bytes_ok_nil.
  - assert (Hunf : pack_header_extensions (x :: xs') =
                   (do one_byte <- pack_scan (x :: xs') true;
                    do v <- (if one_byte then pack_one (x :: xs') else pack_two (x :: xs'));
                    Ok (if one_byte then 48862 else 4096, v ++ zeros (Z.to_nat (rtp_padl (len v))))))
      by reflexivity.
    rewrite Hunf. clear Hunf.
    assert (Hne : x :: xs' <> []) by discriminate.
    remember (x :: xs') as xs eqn:Exs. clear Exs x xs'.
    rewrite pack_scan_spec by assumption. cbn [bind andb].
    destruct (forallb one_ok xs) eqn:Hone.
    + destruct (pack_one xs) as [b| | |] eqn:Hb.
      2-4: exfalso; revert Hb; clear - Hwf Hone; induction xs as [|[i v] l IHl]; cbn [pack_one]; [discriminate|];
           inversion Hwf as [|? ? (Hi & Hl & _) Hwf']; subst; cbn [fst snd forallb] in *;
           apply andb_true_iff in Hone as [H1 Hone']; unfold one_ok in H1; cbn [fst snd] in H1;
           apply andb_true_iff in H1 as [H1 H3]; apply andb_true_iff in H1 as [H1 H2];
           apply Z.leb_le in H1, H2, H3;
           (assert (Hbyte : Z.lor (Z.shiftl i 4) (len v - 1) = i * 16 + (len v - 1))
             by (rewrite Z.shiftl_mul_pow2 by lia; change (2 ^ 4) with 16;
                 apply (lor_add _ _ 4); [lia|change (2 ^ 4) with 16; lia|change (2 ^ 4) with 16; lia]));
           rewrite Hbyte, u8ok_intro by lia;
           destruct (pack_one l) eqn:E; cbn [bind]; try discriminate; intros _; now apply IHl.
      destruct (pack_one_roundtrip xs b Hwf Hone Hb) as (Hok & Hlen & Hnn & Hp).
      cbn [bind]. destruct (padl_spec (len b) (len_nonneg b)) as [Hpr Hpm].
      eexists _, _. split; [reflexivity|].
      split; [|split; [|split; [|split; [|split; [|split; [|split]]]]]].
      * unfold unpack_header_extensions. cbn [Z.eqb Pos.eqb]. apply Hp.
        rewrite app_length, length_zeros. lia.
      * apply bytes_ok_app. split; [exact Hok|apply bytes_ok_zeros].
      * rewrite len_app. unfold len at 2. rewrite length_zeros, Z2Nat.id by lia. exact Hpm.
      * rewrite app_length, length_zeros. lia.
      * congruence.
      * intros _ E. apply app_eq_nil in E as [E _]. now apply Hnn.
      * reflexivity.
      * lia.
    + destruct (pack_two xs) as [b| | |] eqn:Hb.
      2-4: exfalso; revert Hb; clear - Hwf; induction xs as [|[i v] l IHl]; cbn [pack_two]; [discriminate|];
           inversion Hwf as [|? ? (Hi & Hl & _) Hwf']; subst; cbn [fst snd] in *;
           rewrite !u8ok_intro by (unfold len; lia); cbn [andb];
           destruct (pack_two l) eqn:E; cbn [bind]; try discriminate; intros _; now apply IHl.
      destruct (pack_two_roundtrip xs b Hwf Hb) as (Hok & Hlen & Hnn & Hp).
      cbn [bind]. destruct (padl_spec (len b) (len_nonneg b)) as [Hpr Hpm].
      eexists _, _. split; [reflexivity|].
      split; [|split; [|split; [|split; [|split; [|split; [|split]]]]]].
      * unfold unpack_header_extensions. cbn [Z.eqb Pos.eqb]. apply Hp.
        rewrite app_length, length_zeros. lia.
      * apply bytes_ok_app. split; [exact Hok|apply bytes_ok_zeros].
      * rewrite len_app. unfold len at 2. rewrite length_zeros, Z2Nat.id by lia. exact Hpm.
      * rewrite app_length, length_zeros. lia.
      * congruence.
      * intros _ E. apply app_eq_nil in E as [E _]. now apply Hnn.
      * reflexivity.
      * lia.
Qed.
