(* C01 / C06 safety: whatever the receiver delivers is an exact copy of a message
   the sender fragmented, for every arrival list over the sent chunks. *)
From Coq Require Import ZArith List Bool Lia.
From AV Require Import Lib.Bytes Lib.BytesP Gen.Utils Gen.SctpConst Model.SctpRecv Model.SctpSend Proof.SctpRecvP.
Import ListNotations.
Local Open Scope Z_scope.

(* ---------------------------------------------------------------- forward runs *)
(* a TSN-consecutive list whose only E fragment is the final chunk *)
Inductive runf : Z -> list chunk -> Prop :=
| runf_last c : last c = true -> runf (tsn c) [c]
| runf_cons c f : last c = false -> runf (tsn_plus_one (tsn c)) f -> runf (tsn c) (c :: f).

(* what _send produces: additionally only the head carries B, and stream / ppid are uniform *)
Inductive frags (st sq pp : Z) (un : bool) : Z -> bool -> list chunk -> Prop :=
| frags_last c : last c = true -> sid c = st -> sseq c = sq -> ppid c = pp -> unordered c = un ->
    frags st sq pp un (tsn c) (first c) [c]
| frags_cons c f : last c = false -> sid c = st -> sseq c = sq -> ppid c = pp -> unordered c = un ->
    frags st sq pp un (tsn_plus_one (tsn c)) false f ->
    frags st sq pp un (tsn c) (first c) (c :: f).

Lemma runf_hd t f : runf t f -> exists c f', f = c :: f' /\ tsn c = t.
Proof. intros H. destruct H; eauto. Qed.

Lemma frags_hd st sq pp un t b f : frags st sq pp un t b f -> exists c f', f = c :: f' /\ tsn c = t /\ first c = b.
Proof. intros H. destruct H; eauto. Qed.

Lemma runf_of_rev d : forall r g,
  r <> [] -> Forall (fun x => last x = false) r -> consec_rev r ->
  runf (tsn_plus_one (tsn (hd d r))) g ->
  runf (tsn (oldest r d)) (rev r ++ g).
Proof.
  induction r as [|a r IH]; intros g Hne Hl Hc Hg; [congruence|].
  inversion Hl as [|? ? Ha Hr]; subst. cbn [hd] in Hg.
  destruct r as [|b r'].
  - cbn. now apply runf_cons.
  - cbn [consec_rev] in Hc. destruct Hc as [Hab Hc].
    rewrite oldest_cons by congruence.
    cbn [rev]. rewrite <- app_assoc. cbn [app].
    change (rev r' ++ [b]) with (rev (b :: r')).
    apply IH; [congruence|exact Hr|exact Hc|].
    cbn [hd]. rewrite <- Hab. now apply runf_cons.
Qed.

Lemma complete_run_runf cr d : complete_run cr ->
  runf (tsn (oldest cr d)) (rev cr) /\ first (oldest cr d) = true.
Proof.
  destruct cr as [|c r]; [intros []|]. intros (Hl & Hr & Hc & Hf).
  split.
  - destruct r as [|b r'].
    + cbn. now apply runf_last.
    + rewrite oldest_cons by congruence. cbn [rev]. cbn [consec_rev] in Hc. destruct Hc as [Hcb Hc].
      change (rev r' ++ [b]) with (rev (b :: r')).
      apply (runf_of_rev d); [congruence|exact Hr|exact Hc|].
      cbn [hd]. rewrite <- Hcb. now apply runf_last.
  - erewrite oldest_default; [exact Hf|congruence].
Qed.

(* ---------------------------------------------------------------- matching a run with a sent message *)
Definition tsn_inj (S : list chunk) : Prop :=
  forall a b, In a S -> In b S -> tsn a = tsn b -> a = b.

Lemma frags_runf_match S st sq pp un : forall f t b, frags st sq pp un t b f ->
  forall g, runf t g -> tsn_inj S -> incl f S -> incl g S -> f = g.
Proof.
  intros f t b Hf. induction Hf as [c Hl|c f Hl Hs Hq Hp Hu Hf IH]; intros g Hg Hinj HfS HgS.
  - inversion Hg as [c' Hl' Ht|c' g' Hl' Hg' Ht]; subst.
    + f_equal. apply Hinj; auto; [apply HfS; now left|apply HgS; now left].
    + assert (c = c') by (apply Hinj; auto; [apply HfS; now left|apply HgS; now left]). subst. congruence.
  - inversion Hg as [c' Hl' Ht|c' g' Hl' Hg' Ht]; subst.
    + assert (c = c') by (apply Hinj; auto; [apply HfS; now left|apply HgS; now left]). subst. congruence.
    + assert (c = c') by (apply Hinj; auto; [apply HfS; now left|apply HgS; now left]). subst c'.
      f_equal. apply IH; auto.
      * intros x Hx. apply HfS. now right.
      * intros x Hx. apply HgS. now right.
Qed.

Lemma frags_only_head_first st sq pp un t b f : frags st sq pp un t b f ->
  forall x, In x (tl f) -> first x = false.
Proof.
  intros H. induction H as [c|c f Hl Hs Hq Hp Hu Hf IH]; cbn [tl]; [intros x []|].
  intros x Hx. destruct (frags_hd _ _ _ _ _ _ _ Hf) as (c' & f' & -> & _ & Hc').
  destruct Hx as [<-|Hx]; [exact Hc'|]. now apply IH.
Qed.

Lemma frags_uniform st sq pp un t b f : frags st sq pp un t b f ->
  Forall (fun c => sid c = st /\ ppid c = pp) f.
Proof. intros H. induction H; constructor; auto. Qed.

Lemma frags_last_elem st sq pp un t b f d : frags st sq pp un t b f -> sid (List.last f d) = st /\ ppid (List.last f d) = pp.
Proof.
  intros H. induction H as [c|c f Hl Hs Hq Hp Hu Hf IH]; [cbn; auto|].
  destruct (frags_hd _ _ _ _ _ _ _ Hf) as (c' & f' & -> & _). exact IH.
Qed.

(* a sent message: its fragment list and what the application handed over *)
Record sentmsg := mkSent { sm_sid : Z; sm_ppid : Z; sm_data : bytes; sm_frags : list chunk }.

Definition sent_ok (m : sentmsg) : Prop :=
  exists sq un t, frags (sm_sid m) sq (sm_ppid m) un t true (sm_frags m) /\ join_data (sm_frags m) = sm_data m.

Definition all_chunks (ms : list sentmsg) : list chunk := concat (map sm_frags ms).

Lemma in_all_chunks ms c : In c (all_chunks ms) <-> exists m, In m ms /\ In c (sm_frags m).
Proof.
  unfold all_chunks. rewrite in_concat. split.
  - intros (f & Hf & Hc). apply in_map_iff in Hf as (m & <- & Hm). eauto.
  - intros (m & Hm & Hc). exists (sm_frags m). split; [now apply in_map|exact Hc].
Qed.

Theorem complete_run_is_sent ms cr d :
  Forall sent_ok ms -> tsn_inj (all_chunks ms) -> complete_run cr -> incl cr (all_chunks ms) ->
  exists m, In m ms /\ rev cr = sm_frags m /\ msg_of_run cr d = (sm_sid m, sm_ppid m, sm_data m).
Proof.
  intros Hok Hinj Hcr Hincl.
  destruct (complete_run_runf cr d Hcr) as [Hrun Hfirst].
  assert (Hne : cr <> []) by (destruct cr; [destruct Hcr|congruence]).
  assert (Hold : In (oldest cr d) cr).
  { unfold oldest. destruct cr as [|c r]; [congruence|]. apply exists_last in Hne as (l' & a & ->).
    rewrite last_last. apply in_or_app. right. now left. }
  apply Hincl in Hold. apply in_all_chunks in Hold as (m & Hm & Hc0).
  rewrite Forall_forall in Hok. destruct (Hok m Hm) as (sq & un & t & Hfr & Hdata).
  (* the oldest chunk has B, so it is the head of m's fragments *)
  destruct (frags_hd _ _ _ _ _ _ _ Hfr) as (h & f' & Hf & Hth & Hfh).
  assert (Hhead : oldest cr d = h).
  { rewrite Hf in Hc0. destruct Hc0 as [E|Hin]; [now symmetry|].
    exfalso. pose proof (frags_only_head_first _ _ _ _ _ _ _ Hfr (oldest cr d)) as Hx.
    rewrite Hf in Hx. cbn [tl] in Hx. rewrite (Hx Hin) in Hfirst. discriminate. }
  assert (Hinf : incl (sm_frags m) (all_chunks ms)).
  { intros x Hx. apply in_all_chunks. eauto. }
  assert (Heq : sm_frags m = rev cr).
  { eapply (frags_runf_match (all_chunks ms)); eauto.
    - rewrite <- Hth, <- Hhead. exact Hrun.
    - intros x Hx. apply Hincl. now apply in_rev. }
  exists m. split; [exact Hm|]. split; [now symmetry|].
  unfold msg_of_run. rewrite <- Heq, Hdata.
  assert (Hl : hd d cr = List.last (sm_frags m) d).
  { rewrite Heq. destruct cr as [|c r]; [congruence|]. cbn [hd rev]. now rewrite last_last. }
  rewrite Hl. destruct (frags_last_elem _ _ _ _ _ _ _ d Hfr) as [-> ->]. reflexivity.
Qed.

(* ---------------------------------------------------------------- receiver invariant *)
Definition chunks_in (S : list chunk) (s : rstate) : Prop :=
  forall id st, In (id, st) (streams s) -> incl (reasm st) S.

Lemma get_stream_in l id : In (id, get_stream l id) l \/ get_stream l id = mkStream [] 0.
Proof.
  induction l as [|[k v] l IH]; cbn [get_stream]; [now right|].
  destruct (Z.eqb_spec id k) as [->|Hne]; [left; now left|].
  destruct IH as [H|H]; [left; now right|now right].
Qed.

Lemma set_stream_in l k v id st : In (id, st) (set_stream l k v) -> (id = k /\ st = v) \/ In (id, st) l.
Proof.
  induction l as [|[k' w] l IH]; cbn [set_stream].
  - intros [[= <- <-]|[]]. now left.
  - destruct (Z.eqb_spec k k') as [->|Hne].
    + intros [[= <- <-]|H]; [now left|right; now right].
    + intros [[= <- <-]|H]; [right; now left|]. apply IH in H as [H|H]; [now left|right; now right].
Qed.

Lemma chunks_in_get S s id : chunks_in S s -> incl (reasm (get_stream (streams s) id)) S.
Proof.
  intros H. destruct (get_stream_in (streams s) id) as [Hin| ->]; [now apply (H id)|intros x []].
Qed.

Definition msgs_sent (ms : list sentmsg) (out : list message) : Prop :=
  Forall (fun o => exists m, In m ms /\ o = (sm_sid m, sm_ppid m, sm_data m)) out.

Lemma yields_sent ms avail out :
  Forall sent_ok ms -> tsn_inj (all_chunks ms) -> incl avail (all_chunks ms) ->
  yields_ok avail out -> msgs_sent ms out.
Proof.
  intros Hok Hinj Hav Hy. unfold yields_ok, msgs_sent in *. eapply Forall_impl; [|exact Hy].
  intros o (cr & d & Hcr & -> & Hincl).
  destruct (complete_run_is_sent ms cr d Hok Hinj Hcr) as (m & Hm & _ & E).
  - eapply incl_tran; eauto.
  - eauto.
Qed.

Lemma mark_received_streams s t : streams (fst (mark_received s t)) = streams s.
Proof. unfold mark_received. destruct (_ || _); reflexivity. Qed.

Lemma receive_data_ok ms s c s' out :
  Forall sent_ok ms -> tsn_inj (all_chunks ms) -> chunks_in (all_chunks ms) s -> In c (all_chunks ms) ->
  receive_data s c = ROk s' out -> chunks_in (all_chunks ms) s' /\ msgs_sent ms out.
Proof.
  intros Hok Hinj Hinv Hc. unfold receive_data.
  set (s0 := mkR (last_rx s) (misordered s) (duplicates s) (streams s) (rwnd s) true).
  assert (H0 : chunks_in (all_chunks ms) s0) by exact Hinv.
  destruct (far_ahead s0 (tsn c)).
  { intros [= <- <-]. split; [exact H0|constructor]. }
  pose proof (mark_received_streams s0 (tsn c)) as Hs.
  destruct (mark_received s0 (tsn c)) as [s1 dup]. cbn [fst] in Hs.
  assert (H1 : chunks_in (all_chunks ms) s1).
  { intros id st Hin. rewrite Hs in Hin. now apply (H0 id). }
  destruct dup.
  { intros [= <- <-]. split; [exact H1|constructor]. }
  destruct (add_chunk (reasm (get_stream (streams s1) (sid c))) c) as [l|] eqn:Ea; [|discriminate].
  destruct (pop_messages l (sseq_expected (get_stream (streams s1) (sid c)))) as [[l2 seq2] out'] eqn:Ep.
  intros [= <- <-].
  assert (Hl : incl l (all_chunks ms)).
  { apply add_chunk_incl in Ea. intros x Hx. apply Ea in Hx as [<-|Hx]; [exact Hc|].
    now apply (chunks_in_get _ s1 (sid c) H1). }
  split.
  - intros id st Hin. cbn [streams] in Hin. apply set_stream_in in Hin as [[-> ->]|Hin].
    + cbn [reasm]. apply pop_messages_retains in Ep. eapply incl_tran; eauto.
    + now apply (H1 id).
  - apply pop_messages_yields in Ep. eapply yields_sent; eauto.
Qed.

Lemma fwd_streams_ok ms : forall l strs strs' out,
  Forall sent_ok ms -> tsn_inj (all_chunks ms) ->
  (forall id st, In (id, st) strs -> incl (reasm st) (all_chunks ms)) ->
  fwd_streams strs l = (strs', out) ->
  (forall id st, In (id, st) strs' -> incl (reasm st) (all_chunks ms)) /\ msgs_sent ms out.
Proof.
  induction l as [|[id sq] l IH]; intros strs strs' out Hok Hinj Hinv H; cbn [fwd_streams] in H.
  - injection H as <- <-. split; [exact Hinv|constructor].
  - destruct (pop_messages (reasm (get_stream strs id)) _) as [[l2 seq2] o1] eqn:Ep.
    destruct (fwd_streams (set_stream strs id (mkStream l2 seq2)) l) as [strs2 o2] eqn:Ef.
    injection H as <- <-.
    assert (Hg : incl (reasm (get_stream strs id)) (all_chunks ms)).
    { destruct (get_stream_in strs id) as [Hin| ->]; [now apply (Hinv id)|intros x []]. }
    apply IH in Ef; auto.
    + destruct Ef as [Hinv2 Ho2]. split; [exact Hinv2|].
      unfold msgs_sent. apply Forall_app. split; [|exact Ho2].
      apply pop_messages_yields in Ep. eapply yields_sent; eauto.
    + intros id' st Hin. apply set_stream_in in Hin as [[-> ->]|Hin]; [|now apply (Hinv id')].
      cbn [reasm]. apply pop_messages_retains in Ep. eapply incl_tran; eauto.
Qed.

Lemma repop_streams_ok ms : forall l strs strs' out,
  Forall sent_ok ms -> tsn_inj (all_chunks ms) ->
  (forall id st, In (id, st) strs -> incl (reasm st) (all_chunks ms)) ->
  repop_streams strs l = (strs', out) ->
  (forall id st, In (id, st) strs' -> incl (reasm st) (all_chunks ms)) /\ msgs_sent ms out.
Proof.
  induction l as [|[id sq] l IH]; intros strs strs' out Hok Hinj Hinv H; cbn [repop_streams] in H.
  - injection H as <- <-. split; [exact Hinv|constructor].
  - destruct (pop_messages (reasm (get_stream strs id)) _) as [[l2 seq2] o1] eqn:Ep.
    destruct (repop_streams (set_stream strs id (mkStream l2 seq2)) l) as [strs2 o2] eqn:Ef.
    injection H as <- <-.
    assert (Hg : incl (reasm (get_stream strs id)) (all_chunks ms)).
    { destruct (get_stream_in strs id) as [Hin| ->]; [now apply (Hinv id)|intros x []]. }
    apply IH in Ef; auto.
    + destruct Ef as [Hinv2 Ho2]. split; [exact Hinv2|].
      unfold msgs_sent. apply Forall_app. split; [|exact Ho2].
      apply pop_messages_yields in Ep. eapply yields_sent; eauto.
    + intros id' st Hin. apply set_stream_in in Hin as [[-> ->]|Hin]; [|now apply (Hinv id')].
      cbn [reasm]. apply pop_messages_retains in Ep. eapply incl_tran; eauto.
Qed.

Lemma prune_all_ok S t : forall strs,
  (forall id st, In (id, st) strs -> incl (reasm st) S) ->
  forall id st, In (id, st) (fst (prune_all strs t)) -> incl (reasm st) S.
Proof.
  induction strs as [|[k v] strs IH]; intros Hinv id st; cbn [prune_all]; [intros []|].
  pose proof (prune_chunks_incl (reasm v) t) as Hp.
  destruct (prune_chunks (reasm v) t) as [r size]. destruct (prune_all strs t) as [l2 size2] eqn:E.
  cbn [fst] in *. intros [[= <- <-]|Hin].
  - cbn [reasm]. eapply incl_tran; [exact Hp|]. apply (Hinv k). now left.
  - apply (IH (fun id' st' H' => Hinv id' st' (or_intror H')) id st Hin).
Qed.

Lemma receive_forward_tsn_ok ms s cum strs s' out :
  Forall sent_ok ms -> tsn_inj (all_chunks ms) -> chunks_in (all_chunks ms) s ->
  receive_forward_tsn s cum strs = (s', out) -> chunks_in (all_chunks ms) s' /\ msgs_sent ms out.
Proof.
  intros Hok Hinj Hinv. unfold receive_forward_tsn. cbn [last_rx misordered duplicates streams rwnd].
  destruct (uint32_gte (last_rx s) cum).
  { intros [= <- <-]. split; [exact Hinv|constructor]. }
  destruct (fwd_streams (streams s) strs) as [strs2 o] eqn:Ef.
  pose proof (prune_all_ok (all_chunks ms) cum strs2) as Hp.
  destruct (prune_all strs2 cum) as [strs3 pruned]. cbn [fst] in Hp.
  destruct (repop_streams strs3 strs) as [strs4 o'] eqn:Er.
  intros [= <- <-].
  apply fwd_streams_ok with (ms := ms) in Ef; auto.
  destruct Ef as [H2 Ho].
  apply repop_streams_ok with (ms := ms) in Er; auto.
  - destruct Er as [H4 Ho']. split; [|unfold msgs_sent; apply Forall_app; split; assumption].
    intros id st Hin. cbn [streams] in Hin. now apply (H4 id).
  - intros id st Hin. now apply (Hp H2 id).
Qed.

Definition ev_ok (S : list chunk) (e : revent) : Prop :=
  match e with EvData c => In c S | EvFwd _ _ => True end.

Definition out_msgs (o : rout) : list message :=
  match o with OutOk d _ => d | OutAssert => [] end.

Lemma rstep_ok ms s e :
  Forall sent_ok ms -> tsn_inj (all_chunks ms) -> chunks_in (all_chunks ms) s -> ev_ok (all_chunks ms) e ->
  chunks_in (all_chunks ms) (fst (rstep s e)) /\ msgs_sent ms (out_msgs (snd (rstep s e))).
Proof.
  intros Hok Hinj Hinv He. destruct e as [c|cum strs]; cbn [rstep ev_ok] in *.
  - destruct (receive_data s c) as [s1 d|] eqn:E.
    + apply receive_data_ok with (ms := ms) in E; [|assumption..]. destruct E as [H1 H2].
      unfold make_sack. cbn [fst snd out_msgs]. split; [exact H1|exact H2].
    + cbn [fst snd out_msgs]. split; [exact Hinv|constructor].
  - destruct (receive_forward_tsn s cum strs) as [s1 d] eqn:E.
    apply receive_forward_tsn_ok with (ms := ms) in E; [|assumption..]. destruct E as [H1 H2].
    unfold make_sack. cbn [fst snd out_msgs]. split; [exact H1|exact H2].
Qed.

Lemma rrun_cons s e es :
  rrun s (e :: es) = (fst (rrun (fst (rstep s e)) es), snd (rstep s e) :: snd (rrun (fst (rstep s e)) es)).
Proof.
  cbn [rrun]. destruct (rstep s e) as [s1 o]. cbn [fst snd]. destruct (rrun s1 es) as [s2 os]. reflexivity.
Qed.

(* Every message handed to the application, after ANY list of DATA arrivals drawn
   from the sent chunks (loss, duplication, reordering in any combination) and any
   FORWARD-TSN chunks, is an exact copy of a sent message with its stream and ppid. *)
Theorem delivered_is_sent ms : forall es s,
  Forall sent_ok ms -> tsn_inj (all_chunks ms) -> chunks_in (all_chunks ms) s ->
  Forall (ev_ok (all_chunks ms)) es ->
  Forall (fun o => msgs_sent ms (out_msgs o)) (snd (rrun s es)).
Proof.
  induction es as [|e es IH]; intros s Hok Hinj Hinv Hes; [constructor|].
  rewrite rrun_cons. cbn [snd]. inversion Hes as [|? ? He Hrest]; subst.
  destruct (rstep_ok ms s e Hok Hinj Hinv He) as [H1 H2].
  constructor; [exact H2|]. now apply IH.
Qed.

Lemma chunks_in_rinit S base : chunks_in S (rinit base).
Proof. intros id st []. Qed.
