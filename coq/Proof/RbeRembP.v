(* Proofs about pack_remb_fci / unpack_remb_fci of Model/Rbe.v (property C15). *)
From Coq Require Import ZArith List Bool Lia.
From AV Require Import Lib.Sx Lib.Bytes Lib.BytesP Model.RateCounter Model.Aimd Model.Rbe.
Import ListNotations.
Local Open Scope Z_scope.

(* ---------------------------------------------------------------- bit operations *)
Lemma forall_byte (f : Z -> bool) :
  forallb f (map Z.of_nat (seq 0 256)) = true -> forall x, 0 <= x < 256 -> f x = true.
Proof.
  intros H x Hx. rewrite forallb_forall in H. apply H.
  apply in_map_iff. exists (Z.to_nat x). split; [lia|]. apply in_seq. lia.
Qed.

Lemma byte_exponent x : 0 <= x < 256 -> Z.shiftr (Z.land x 252) 2 = x / 4.
Proof.
  intros Hx. apply Z.eqb_eq.
  apply (forall_byte (fun x => Z.shiftr (Z.land x 252) 2 =? x / 4)); [vm_compute; reflexivity|exact Hx].
Qed.

Lemma byte_pack x : 0 <= x < 256 -> Z.lor (Z.shiftl (x / 4) 2) (x mod 4) = x.
Proof.
  intros Hx. apply Z.eqb_eq.
  apply (forall_byte (fun x => Z.lor (Z.shiftl (x / 4) 2) (x mod 4) =? x)); [vm_compute; reflexivity|exact Hx].
Qed.

Lemma land_3 x : Z.land x 3 = x mod 4.
Proof. change 3 with (Z.ones 2). rewrite Z.land_ones by lia. reflexivity. Qed.

Lemma land_ffff x : Z.land x 65535 = x mod 65536.
Proof. change 65535 with (Z.ones 16). rewrite Z.land_ones by lia. reflexivity. Qed.

Lemma lor_add a b n : 0 <= n -> 0 <= a -> 0 <= b < 2 ^ n -> Z.lor (a * 2 ^ n) b = a * 2 ^ n + b.
Proof.
  intros Hn Ha Hb.
  assert (Hl : Z.land (a * 2 ^ n) b = 0).
  { apply Z.bits_inj'. intros i Hi. rewrite Z.land_spec, Z.bits_0.
    destruct (Z.lt_ge_cases i n) as [Hlt|Hge].
    - rewrite Z.mul_pow2_bits_low by lia. reflexivity.
    - destruct (Z.eq_dec b 0) as [->|Hnz]; [rewrite Z.bits_0; apply andb_false_r|].
      rewrite (Z.bits_above_log2 b i); [apply andb_false_r|lia|].
      apply Z.log2_lt_pow2; [lia|]. apply Z.lt_le_trans with (2 ^ n); [lia|].
      apply Z.pow_le_mono_r; lia. }
  rewrite <- Z.lxor_lor by exact Hl. symmetry. apply Z.add_nocarry_lxor. exact Hl.
Qed.

(* ---------------------------------------------------------------- mantissa / exponent *)
Lemma remb_norm_ok fuel : forall m ex,
  0 <= m < 2 ^ (18 + Z.of_nat fuel) ->
  exists k, remb_norm fuel m ex = Ok (m / 2 ^ k, ex + k) /\ 0 <= k <= Z.of_nat fuel /\
            0 <= m / 2 ^ k < 2 ^ 18 /\ (m < 2 ^ 18 -> k = 0) /\ (0 < k -> 2 ^ 17 <= m / 2 ^ k).
Proof.
  induction fuel as [|fuel IH]; intros m ex Hm.
  - cbn [remb_norm]. replace (18 + Z.of_nat 0) with 18 in Hm by lia.
    destruct (Z.ltb_spec 262143 m) as [Hb|Hs]; [change (2 ^ 18) with 262144 in Hm; lia|].
    exists 0. rewrite Z.pow_0_r, Z.div_1_r, Z.add_0_r. change (2 ^ 18) with 262144. repeat split; try lia.
  - cbn [remb_norm]. destruct (Z.ltb_spec 262143 m) as [Hb|Hs].
    + rewrite Z.shiftr_div_pow2 by lia. change (2 ^ 1) with 2.
      assert (H2 : 0 <= m / 2 < 2 ^ (18 + Z.of_nat fuel)).
      { split; [apply Z.div_pos; lia|]. apply Z.div_lt_upper_bound; [lia|].
        replace (18 + Z.of_nat (S fuel)) with (Z.succ (18 + Z.of_nat fuel)) in Hm by lia.
        rewrite Z.pow_succ_r in Hm by lia. lia. }
      destruct (IH (m / 2) (ex + 1) H2) as (k & E & Hk & Hr & _ & Hhi).
      exists (k + 1). rewrite E.
      assert (Ed : m / 2 / 2 ^ k = m / 2 ^ (k + 1)).
      { rewrite Z.div_div by lia. f_equal. rewrite Z.pow_add_r by lia. change (2 ^ 1) with 2. lia. }
      rewrite <- Ed. split; [do 2 f_equal; lia|]. split; [lia|]. split; [exact Hr|].
      split; [change (2 ^ 18) with 262144; lia|]. intros _.
      destruct (Z.eq_dec k 0) as [->|Hk0]; [|apply Hhi; lia].
      rewrite Z.pow_0_r, Z.div_1_r. change (2 ^ 17) with 131072.
      apply Z.div_le_lower_bound; lia.
    + exists 0. rewrite Z.pow_0_r, Z.div_1_r, Z.add_0_r. change (2 ^ 18) with 262144. repeat split; try lia.
Qed.

Lemma remb_fuel_enough e : 0 <= e -> e < 2 ^ (18 + Z.of_nat (remb_fuel e)).
Proof.
  intros He. unfold remb_fuel. destruct (Z.eq_dec e 0) as [->|Hnz]; [cbn; lia|].
  rewrite Z2Nat.id by apply Z.log2_nonneg.
  destruct (Z.log2_spec e ltac:(lia)) as [_ Hlt].
  apply Z.lt_le_trans with (2 ^ Z.succ (Z.log2 e)); [exact Hlt|].
  apply Z.pow_le_mono_r; [lia|]. pose proof (Z.log2_nonneg e). lia.
Qed.

(* ---------------------------------------------------------------- SSRC list *)
Lemma length_flat_be32 ss : length (flat_map be32 ss) = (4 * length ss)%nat.
Proof. induction ss as [|x ss IH]; cbn [flat_map length]; [reflexivity|]. rewrite app_length, IH. cbn. lia. Qed.

Lemma bytes_ok_flat_be32 ss : bytes_ok (flat_map be32 ss).
Proof.
  induction ss as [|x ss IH]; cbn [flat_map]; [constructor|].
  apply bytes_ok_app. split; [apply be32_ok|exact IH].
Qed.

Lemma remb_ssrc_list_ok ss : forall pre,
  Forall (fun x => 0 <= x < 4294967296) ss ->
  remb_ssrc_list (pre ++ flat_map be32 ss) (length pre) (length ss) = Some ss.
Proof.
  induction ss as [|x ss IH]; intros pre Hs; cbn [remb_ssrc_list length flat_map]; [reflexivity|].
  apply Forall_cons_iff in Hs. destruct Hs as [Hx Hs].
  rewrite (u32_at pre x (flat_map be32 ss) Hx).
  replace (4 + length pre)%nat with (length (pre ++ be32 x)) by (rewrite app_length; cbn; lia).
  rewrite app_assoc. rewrite IH by exact Hs. reflexivity.
Qed.

(* ---------------------------------------------------------------- round trip *)
Theorem remb_roundtrip : forall e ss,
  0 <= e < 2 ^ 81 -> (length ss <= 255)%nat -> Forall (fun x => 0 <= x < 4294967296) ss ->
  exists bs m k,
    pack_remb_fci e ss = Ok bs /\ bytes_ok bs /\ length bs = (8 + 4 * length ss)%nat /\
    unpack_remb_fci bs = Ok (m * 2 ^ k, ss) /\
    0 <= m < 2 ^ 18 /\ 0 <= k <= 63 /\ m * 2 ^ k <= e < (m + 1) * 2 ^ k /\ (e < 2 ^ 18 -> m = e /\ k = 0).
Proof.
  intros e ss He Hn Hs.
  destruct (remb_norm_ok (remb_fuel e) e 0 (conj (proj1 He) (remb_fuel_enough e (proj1 He))))
    as (k & En & Hk & Hm & Hsmall & Hbig).
  set (m := e / 2 ^ k) in *. rewrite Z.add_0_l in En.
  assert (P2k : 0 < 2 ^ k) by (apply Z.pow_pos_nonneg; lia).
  assert (Hle : m * 2 ^ k <= e < (m + 1) * 2 ^ k).
  { unfold m. split.
    - rewrite Z.mul_comm. apply Z.mul_div_le. exact P2k.
    - replace ((e / 2 ^ k + 1) * 2 ^ k) with (2 ^ k * Z.succ (e / 2 ^ k)) by lia.
      apply Z.mul_succ_div_gt. exact P2k. }
  assert (Hk63 : k <= 63).
  { destruct (Z.eq_dec k 0) as [->|Hk0]; [lia|].
    assert (H17 : 2 ^ 17 <= m) by (apply Hbig; lia).
    destruct (Z.le_gt_cases k 63) as [Hok|Hbad]; [exact Hok|exfalso].
    assert (2 ^ 64 <= 2 ^ k) by (apply Z.pow_le_mono_r; lia).
    assert (2 ^ 17 * 2 ^ 64 <= m * 2 ^ k) by (apply Z.mul_le_mono_nonneg; lia).
    change (2 ^ 17 * 2 ^ 64) with (2 ^ 81) in *. lia. }
  change (2 ^ 18) with 262144 in *.
  (* the packed fields *)
  set (b1 := k * 4 + m / 65536).
  assert (Hb1r : 0 <= b1 < 256).
  { unfold b1. assert (0 <= m / 65536 < 4); [|lia].
    split; [apply Z.div_pos; lia|apply Z.div_lt_upper_bound; lia]. }
  assert (Hb1 : Z.lor (Z.shiftl k 2) (Z.shiftr m 16) = b1).
  { rewrite <- (byte_pack b1 Hb1r). rewrite Z.shiftr_div_pow2 by lia. change (2 ^ 16) with 65536.
    assert (0 <= m / 65536 < 4).
    { split; [apply Z.div_pos; lia|apply Z.div_lt_upper_bound; lia]. }
    f_equal; [f_equal|]; unfold b1.
    - symmetry. rewrite Z.add_comm, Z.div_add by lia. rewrite Z.div_small by lia. lia.
    - symmetry. rewrite Z.add_comm, Z.mod_add by lia. apply Z.mod_small. lia. }
  assert (Hh : 0 <= m mod 65536 < 65536) by (apply Z.mod_pos_bound; lia).
  unfold pack_remb_fci. rewrite En. rewrite Hb1, land_ffff.
  assert (Hlen : len ss < 256) by (unfold len; lia).
  assert (Hlen0 : 0 <= len ss) by (unfold len; lia).
  unfold in_range.
  destruct (Z.leb_spec 0 (len ss)); [|lia]. destruct (Z.ltb_spec (len ss) 256); [|lia].
  destruct (Z.leb_spec 0 b1); [|lia]. destruct (Z.ltb_spec b1 256); [|lia].
  destruct (Z.leb_spec 0 (m mod 65536)); [|lia]. destruct (Z.ltb_spec (m mod 65536) 65536); [|lia].
  cbn [andb].
  assert (Hfa : forallb (fun x => (0 <=? x) && (x <? 4294967296)) ss = true).
  { apply forallb_forall. intros x Hin. rewrite Forall_forall in Hs. specialize (Hs x Hin).
    destruct (Z.leb_spec 0 x); [|lia]. destruct (Z.ltb_spec x 4294967296); [reflexivity|lia]. }
  rewrite Hfa.
  eexists; exists m, k. split; [reflexivity|].
  split.
  { repeat (apply bytes_ok_app; split); try apply be8_ok; try apply be16_ok; try apply bytes_ok_flat_be32.
    repeat constructor; unfold byte_ok; lia. }
  split.
  { rewrite !app_length, length_flat_be32. cbn. lia. }
  split; [|split; [exact Hm|split; [lia|split; [exact Hle|]]];
           intros Hlt; specialize (Hsmall Hlt); split; [|exact Hsmall];
           unfold m; rewrite Hsmall, Z.pow_0_r, Z.div_1_r; reflexivity].
  (* unpack *)
  unfold unpack_remb_fci, be8, be16.
  cbn [app length Nat.ltb Nat.leb slice firstn skipn Nat.sub bytes_eqb Z.eqb Pos.eqb andb orb negb u8 nth_error].
  rewrite (Z.mod_small (len ss)) by lia. rewrite (Z.mod_small b1) by lia.
  assert (Hlen8 : len ([82; 69; 77; 66; len ss; b1; m mod 65536 / 256 mod 256; m mod 65536 mod 256]
                       ++ flat_map be32 ss) = 8 + len ss * 4).
  { unfold len. rewrite app_length, length_flat_be32. cbn [length]. lia. }
  change (82 :: 69 :: 77 :: 66 :: len ss :: b1 :: m mod 65536 / 256 mod 256 :: m mod 65536 mod 256 :: flat_map be32 ss)
    with ([82; 69; 77; 66; len ss; b1; m mod 65536 / 256 mod 256; m mod 65536 mod 256] ++ flat_map be32 ss).
  rewrite Hlen8. destruct (Z.ltb_spec (8 + len ss * 4) (8 + len ss * 4)); [lia|].
  replace (Z.to_nat (len ss)) with (length ss) by (unfold len; lia).
  change 8%nat with (length [82; 69; 77; 66; len ss; b1; m mod 65536 / 256 mod 256; m mod 65536 mod 256]) at 1.
  rewrite remb_ssrc_list_ok by exact Hs.
  do 2 f_equal.
  rewrite byte_exponent by exact Hb1r. rewrite land_3.
  assert (Ek : b1 / 4 = k).
  { unfold b1. rewrite Z.add_comm, Z.div_add by lia.
    rewrite Z.div_small; [lia|]. split; [apply Z.div_pos; lia|apply Z.div_lt_upper_bound; lia]. }
  assert (Ehi : b1 mod 4 = m / 65536).
  { unfold b1. rewrite Z.add_comm, Z.mod_add by lia. apply Z.mod_small.
    split; [apply Z.div_pos; lia|apply Z.div_lt_upper_bound; lia]. }
  rewrite Ek, Ehi. rewrite Z.shiftl_mul_pow2 by lia. f_equal.
  rewrite !Z.shiftl_mul_pow2 by lia.
  assert (Hd6 : 0 <= m mod 65536 / 256 mod 256 < 256) by (apply Z.mod_pos_bound; lia).
  assert (Hd7 : 0 <= m mod 65536 mod 256 < 256) by (apply Z.mod_pos_bound; lia).
  rewrite (lor_add (m / 65536) (m mod 65536 / 256 mod 256 * 2 ^ 8) 16); [|lia|apply Z.div_pos; lia|].
  2:{ change (2 ^ 8) with 256. change (2 ^ 16) with 65536. lia. }
  replace (m / 65536 * 2 ^ 16 + m mod 65536 / 256 mod 256 * 2 ^ 8)
    with ((m / 65536 * 256 + m mod 65536 / 256 mod 256) * 2 ^ 8)
    by (change (2 ^ 16) with 65536; change (2 ^ 8) with 256; lia).
  rewrite lor_add; [|lia| |change (2 ^ 8) with 256; lia].
  2:{ assert (0 <= m / 65536) by (apply Z.div_pos; lia). lia. }
  change (2 ^ 8) with 256.
  pose proof (Z.div_mod m 65536 ltac:(lia)) as D1.
  pose proof (Z.div_mod (m mod 65536) 256 ltac:(lia)) as D2.
  rewrite (Z.mod_small (m mod 65536 / 256)); [lia|].
  split; [apply Z.div_pos; lia|apply Z.div_lt_upper_bound; lia].
Qed.
