(* C17: the sender's stream sequence counters.  Two sender states that differ only in the
   origin of the SSN counters of a set P of streams (by any delta e, mod 2^16) fragment any list
   of messages on those streams into the same chunks, except that every ordered chunk carries
   its SSN shifted by e: TSNs, flags, payloads, the wrap of the counter are all unaffected.
   With Proof/SctpSsnShiftP.v (the receiver delivers the same messages when every SSN is
   shifted) the behaviour of an ordered stream does not depend on where its SSNs start. *)
From Coq Require Import ZArith List Bool Lia ZifyBool.
From AV Require Import Lib.Bytes Gen.Utils Gen.SctpConst Model.SctpRecv Model.SctpSend Proof.SerialP
  Proof.SctpOrderSP Proof.SctpSsnShiftP.
Import ListNotations.
Local Open Scope Z_scope.

Ltac Zify.zify_post_hook ::= Z.to_euclidean_division_equations.

Section SendSsn.
Variable e : Z.
Variable P : Z -> Prop.

(* only ordered chunks carry a meaningful SSN *)
Definition shco (c : chunk) : chunk := if unordered c then c else shc e c.

Definition rel (s1 s2 : sstate) : Prop :=
  local_tsn s2 = local_tsn s1 /\
  forall st, P st -> in16 (seq_get (stream_seq s1) st) /\
                     seq_get (stream_seq s2) st = sh16 e (seq_get (stream_seq s1) st).

Lemma frag_loop_ordered st pp : forall n data t sq b,
  frag_loop n data t st (sh16 e sq) false pp b = map shco (frag_loop n data t st sq false pp b).
Proof.
  induction n as [|n IH]; intros data t sq b; cbn [frag_loop map]; [reflexivity|].
  rewrite IH. reflexivity.
Qed.

Lemma frag_loop_unordered st pp : forall n data t sq b,
  map shco (frag_loop n data t st sq true pp b) = frag_loop n data t st sq true pp b.
Proof.
  induction n as [|n IH]; intros data t sq b; cbn [frag_loop map]; [reflexivity|].
  rewrite IH. reflexivity.
Qed.

Lemma uint16_add_in16 a : in16 (uint16_add a 1).
Proof. rewrite uint16_add_mod. unfold in16. lia. Qed.

Lemma send_msg_rel s1 s2 m : rel s1 s2 -> P (o_sid m) ->
  rel (fst (send_msg s1 m)) (fst (send_msg s2 m)) /\
  snd (send_msg s2 m) = map shco (snd (send_msg s1 m)).
Proof.
  intros [Ht Hs] Hm. unfold send_msg. cbn [fst snd local_tsn stream_seq]. rewrite Ht.
  destruct (o_ordered m) eqn:Eo; cbn [negb].
  - destruct (Hs _ Hm) as [Hi Hq]. rewrite Hq. split; [|apply frag_loop_ordered].
    split; [reflexivity|]. intros st Hst. cbn [fst snd local_tsn stream_seq].
    destruct (Z.eq_dec st (o_sid m)) as [->|Hne].
    + rewrite !seq_get_set_same. split; [apply uint16_add_in16|apply sh16_add].
    + rewrite !seq_get_set_other by exact Hne. now apply Hs.
  - split; [split; [reflexivity|exact Hs]|]. now rewrite frag_loop_unordered.
Qed.

Theorem send_msgs_ssn_shift : forall ms s1 s2, rel s1 s2 -> Forall (fun m => P (o_sid m)) ms ->
  send_msgs s2 ms = map (map shco) (send_msgs s1 ms).
Proof.
  induction ms as [|m ms IH]; intros s1 s2 R Hms; cbn [send_msgs map]; [reflexivity|].
  inversion Hms as [|? ? Hm Hms']; subst.
  destruct (send_msg_rel s1 s2 m R Hm) as [R1 E1].
  rewrite (surjective_pairing (send_msg s1 m)), (surjective_pairing (send_msg s2 m)).
  cbn [map]. rewrite E1. f_equal. now apply IH.
Qed.

Lemma frag_loop_shco_ord st pp : forall n d t sq b,
  map shco (frag_loop n d t st sq false pp b) = map (shc e) (frag_loop n d t st sq false pp b).
Proof. induction n as [|n IH]; intros d t sq b; cbn [frag_loop map]; [reflexivity|]. now rewrite IH. Qed.

(* an all-ordered message list: exactly the receiver theorem's shift of every chunk *)
Lemma shco_ordered_only : forall ms s, Forall (fun m => o_ordered m = true) ms ->
  map (map shco) (send_msgs s ms) = map (map (shc e)) (send_msgs s ms).
Proof.
  induction ms as [|m ms IH]; intros s Ho; cbn [send_msgs map]; [reflexivity|].
  inversion Ho as [|? ? Hm Ho']; subst.
  rewrite (surjective_pairing (send_msg s m)). cbn [map]. f_equal; [|now apply IH].
  unfold send_msg. cbn [snd]. rewrite Hm. cbn [negb]. apply frag_loop_shco_ord.
Qed.
End SendSsn.

(* ---------------------------------------------------------------- end to end *)
(* the network: any arrival list over the chunks sent (loss, duplication, reordering), given as
   positions in the list of chunks sent *)
Definition pick (cs : list chunk) (idxs : list nat) : list chunk :=
  flat_map (fun i => match nth_error cs i with Some c => [c] | None => [] end) idxs.

Lemma pick_map (f : chunk -> chunk) cs : forall idxs, pick (map f cs) idxs = map f (pick cs idxs).
Proof.
  induction idxs as [|i idxs IH]; cbn [pick flat_map map]; [reflexivity|].
  fold (pick (map f cs) idxs). fold (pick cs idxs). rewrite IH, map_app. f_equal.
  rewrite nth_error_map. destruct (nth_error cs i); reflexivity.
Qed.

Lemma pick_in cs : forall idxs c, In c (pick cs idxs) -> In c cs.
Proof.
  induction idxs as [|i idxs IH]; intros c H; cbn [pick flat_map] in H; [destruct H|].
  apply in_app_or in H as [H|H]; [|now apply IH].
  destruct (nth_error cs i) eqn:E; [|destruct H]. destruct H as [<-|[]]. eapply nth_error_In; eauto.
Qed.

Section EndToEnd.
Variable e : Z.
Variable ids : list Z.
Let P := fun st => In st ids.

Lemma frag_loop_props st pp un : forall n d t sq b c, In c (frag_loop n d t st sq un pp b) -> sseq c = sq /\ sid c = st.
Proof.
  induction n as [|n IH]; intros d t sq b c H; cbn [frag_loop] in H; [destruct H|].
  destruct H as [<-|H]; [split; reflexivity|eapply IH; eauto].
Qed.

Lemma send_msgs_ok : forall ms s1 s2, rel e P s1 s2 -> Forall (fun m => P (o_sid m) /\ o_ordered m = true) ms ->
  forall c, In c (concat (send_msgs s1 ms)) -> cok c /\ In (sid c) ids.
Proof.
  induction ms as [|m ms IH]; intros s1 s2 R Hms c Hc; cbn [send_msgs concat] in Hc; [destruct Hc|].
  inversion Hms as [|? ? [Hm Ho] Hms']; subst.
  rewrite (surjective_pairing (send_msg s1 m)) in Hc. cbn [concat] in Hc.
  apply in_app_or in Hc as [Hc|Hc].
  - unfold send_msg in Hc. cbn [snd] in Hc. rewrite Ho in Hc. apply frag_loop_props in Hc as [E1 E2].
    unfold cok. rewrite E1, E2. destruct R as [_ Hs]. split; [exact (proj1 (Hs _ Hm))|exact Hm].
  - destruct (send_msg_rel e P s1 s2 m R Hm) as [R1 _]. eapply IH; eauto.
Qed.

(* Two senders whose SSN counters differ by e on the streams `ids`, the same ordered messages,
   the same network behaviour (the same positions arrive in the same order), two receivers
   whose streams expect x resp. x + e: the same messages are delivered and the same SACKs sent
   at every step. *)
Theorem ssn_origin_end_to_end : forall ms s1 s2 base x idxs,
  rel e P s1 s2 -> Forall (fun m => P (o_sid m) /\ o_ordered m = true) ms -> in16 x ->
  let arr1 := map EvData (pick (concat (send_msgs s1 ms)) idxs) in
  let arr2 := map EvData (pick (concat (send_msgs s2 ms)) idxs) in
  snd (rrun (rinit_ssn base (sh16 e x) ids) arr2) = snd (rrun (rinit_ssn base x ids) arr1).
Proof.
  intros ms s1 s2 base x idxs R Hms Hx arr1 arr2.
  assert (H1 : Forall (fun m => P (o_sid m)) ms) by (eapply Forall_impl; [|exact Hms]; intros m [H _]; exact H).
  assert (H2 : Forall (fun m => o_ordered m = true) ms) by (eapply Forall_impl; [|exact Hms]; intros m [_ H]; exact H).
  assert (E : arr2 = map (shev e) arr1).
  { unfold arr1, arr2. rewrite (send_msgs_ssn_shift e P ms s1 s2 R H1), (shco_ordered_only e ms s1 H2).
    rewrite <- concat_map, pick_map, !map_map. reflexivity. }
  rewrite E, (ssn_origin_independent e base x ids arr1 Hx); [reflexivity|].
  unfold arr1. apply Forall_forall. intros ev Hev. apply in_map_iff in Hev as (c & <- & Hc).
  apply pick_in in Hc. cbn [ev_ok]. eapply send_msgs_ok; eauto.
Qed.
End EndToEnd.

Theorem sender_ssn_origin : forall e ids ms s1 s2 base x idxs,
  rel e (fun st => In st ids) s1 s2 ->
  Forall (fun m => In (o_sid m) ids /\ o_ordered m = true) ms -> in16 x ->
  send_msgs s2 ms = map (map (shc e)) (send_msgs s1 ms) /\
  snd (rrun (rinit_ssn base (sh16 e x) ids) (map EvData (pick (concat (send_msgs s2 ms)) idxs))) =
  snd (rrun (rinit_ssn base x ids) (map EvData (pick (concat (send_msgs s1 ms)) idxs))).
Proof.
  intros e ids ms s1 s2 base x idxs R Hms Hx. split.
  - rewrite (send_msgs_ssn_shift e _ ms s1 s2 R), (shco_ordered_only e ms s1); [reflexivity| |];
      (eapply Forall_impl; [|exact Hms]); cbv beta; intros m [H1 H2]; assumption.
  - exact (ssn_origin_end_to_end e ids ms s1 s2 base x idxs R Hms Hx).
Qed.
