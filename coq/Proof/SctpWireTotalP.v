(* Lemmas about Model/SctpWire.v, part 3 (for property C05): every parser is
   total -- on EVERY byte list it returns Ok or ValueErr, never Crash and never
   OutOfFuel with the fuel the model passes (length + 1), i.e. the loops make at
   most length + 1 iterations. *)
From Coq Require Import ZArith List Bool Lia ZifyBool.
From AV Require Import Lib.Bytes Lib.BytesP Gen.SctpConst Model.Crc32c Model.SctpWire
  Proof.SctpWireP.
Import ListNotations.
Local Open Scope Z_scope.

Ltac Zify.zify_post_hook ::= Z.to_euclidean_division_equations.

Definition total {T} (r : result T) : Prop :=
  match r with
  | Ok _ | ValueErr => True
  | Crash | OutOfFuel => False
  end.

Lemma total_bind {T U} (r : result T) (f : T -> result U) :
  total r -> (forall v, total (f v)) -> total (bind r f).
Proof. destruct r; cbn [bind total]; auto. Qed.

(* ------------------------------------------------------------------ decode_params *)
Lemma decode_loop_total fuel : forall body pos,
  (pos <= length body + 3)%nat -> (length body + 4 <= 4 * fuel + pos)%nat ->
  total (decode_params_loop fuel body pos).
Proof.
  induction fuel as [|f IH]; intros body pos Hp Hf; [lia|].
  cbn [decode_params_loop]. unfold len.
  destruct (Z.of_nat pos <=? Z.of_nat (length body) - 4) eqn:E; [|exact I].
  destruct (u16_some body pos) as [pt ->]; [lia|].
  destruct (u16_some body (pos + 2)) as [pl ->]; [lia|].
  destruct ((pl <? 4) || (Z.of_nat pos + pl >? Z.of_nat (length body))) eqn:E2; [exact I|].
  pose proof (padl_range pl) as Hpad.
  specialize (IH body (pos + Z.to_nat (pl + padl pl))%nat ltac:(lia) ltac:(lia)).
  destruct (decode_params_loop f body (pos + Z.to_nat (pl + padl pl))); exact IH || exact I.
Qed.

Lemma decode_params_total body : total (decode_params body).
Proof. unfold decode_params. apply decode_loop_total; lia. Qed.

(* ------------------------------------------------------------------ chunk constructors *)
Lemma read_pairs_some n : forall body pos,
  (pos + 4 * n <= length body)%nat -> exists l, read_pairs body pos n = Some l.
Proof.
  induction n as [|n IH]; intros body pos H; [eexists; reflexivity|].
  cbn [read_pairs]. destruct (u16_some body pos) as [a ->]; [lia|].
  destruct (u16_some body (pos + 2)) as [b ->]; [lia|].
  destruct (IH body (pos + 4)%nat) as [l ->]; [lia|]. eauto.
Qed.

Lemma read_u32s_some n : forall body pos,
  (pos + 4 * n <= length body)%nat -> exists l, read_u32s body pos n = Some l.
Proof.
  induction n as [|n IH]; intros body pos H; [eexists; reflexivity|].
  cbn [read_u32s]. destruct (u32_some body pos) as [a ->]; [lia|].
  destruct (IH body (pos + 4)%nat) as [l ->]; [lia|]. eauto.
Qed.

Lemma read_u16s_some n : forall body pos,
  (pos + 2 * n <= length body)%nat -> exists l, read_u16s body pos n = Some l.
Proof.
  induction n as [|n IH]; intros body pos H; [eexists; reflexivity|].
  cbn [read_u16s]. destruct (u16_some body pos) as [a ->]; [lia|].
  destruct (IH body (pos + 2)%nat) as [l ->]; [lia|]. eauto.
Qed.

Lemma data_ctor_total f body : total (data_ctor f body).
Proof.
  unfold data_ctor. destruct (nonempty body); [|exact I]. unfold len.
  destruct (Z.of_nat (length body) <? 12) eqn:E; [exact I|].
  destruct (u32_some body 0) as [a ->]; [lia|]. destruct (u16_some body 4) as [b ->]; [lia|].
  destruct (u16_some body 6) as [c ->]; [lia|]. destruct (u32_some body 8) as [d ->]; [lia|]. exact I.
Qed.

Lemma init_ctor_total ty f body : total (init_ctor ty f body).
Proof.
  unfold init_ctor. destruct (nonempty body); [|exact I]. unfold len.
  destruct (Z.of_nat (length body) <? 16) eqn:E; [exact I|].
  destruct (u32_some body 0) as [a ->]; [lia|]. destruct (u32_some body 4) as [b ->]; [lia|].
  destruct (u16_some body 8) as [c ->]; [lia|]. destruct (u16_some body 10) as [d ->]; [lia|].
  destruct (u32_some body 12) as [e ->]; [lia|].
  apply total_bind; [apply decode_params_total|intros; exact I].
Qed.

Lemma sack_ctor_total f body : bytes_ok body -> total (sack_ctor f body).
Proof.
  intros Hok. unfold sack_ctor. destruct (nonempty body); [|exact I]. unfold len.
  destruct (Z.of_nat (length body) <? 12) eqn:E; [exact I|].
  destruct (u32_some body 0) as [a ->]; [lia|]. destruct (u32_some body 4) as [b ->]; [lia|].
  destruct (u16_some body 8) as [ng Eg]; [lia|]. destruct (u16_some body 10) as [nd Ed]; [lia|].
  rewrite Eg, Ed. apply (u16_range _ _ _ Hok) in Eg. apply (u16_range _ _ _ Hok) in Ed.
  destruct (12 + (ng + nd) * 4 >? Z.of_nat (length body)) eqn:E2; [exact I|].
  destruct (read_pairs_some (Z.to_nat ng) body 12) as [gaps ->]; [lia|].
  destruct (read_u32s_some (Z.to_nat nd) body (12 + Z.to_nat ng * 4)) as [dups ->]; [lia|]. exact I.
Qed.

Lemma params_ctor_total ty f body : total (params_ctor ty f body).
Proof.
  unfold params_ctor. destruct (nonempty body); [|exact I].
  apply total_bind; [apply decode_params_total|intros; exact I].
Qed.

Lemma shutdown_ctor_total f body : total (shutdown_ctor f body).
Proof.
  unfold shutdown_ctor. destruct (nonempty body); [|exact I]. unfold len.
  destruct (Z.of_nat (length body) <? 4) eqn:E; [exact I|].
  destruct (u32_some body 0) as [a ->]; [lia|]. exact I.
Qed.

Lemma fwd_loop_total fuel : forall body pos,
  Z.of_nat (length body) mod 4 = 0 -> Z.of_nat pos mod 4 = 0 -> (pos <= length body)%nat ->
  (length body + 4 <= 4 * fuel + pos)%nat ->
  total (fwd_streams_loop fuel body pos).
Proof.
  induction fuel as [|f IH]; intros body pos Hb Hp Hle Hf; [lia|].
  cbn [fwd_streams_loop]. unfold len.
  destruct (Z.of_nat pos <? Z.of_nat (length body)) eqn:E; [|exact I].
  destruct (u16_some body pos) as [a ->]; [lia|].
  destruct (u16_some body (pos + 2)) as [b ->]; [lia|].
  specialize (IH body (pos + 4)%nat Hb ltac:(lia) ltac:(lia) ltac:(lia)).
  destruct (fwd_streams_loop f body (pos + 4)); exact IH || exact I.
Qed.

Lemma fwd_ctor_total f body : total (fwd_ctor f body).
Proof.
  unfold fwd_ctor. destruct (nonempty body); [|exact I]. unfold len.
  destruct ((Z.of_nat (length body) <? 4) || negb (Z.of_nat (length body) mod 4 =? 0)) eqn:E; [exact I|].
  destruct (u32_some body 0) as [a ->]; [lia|].
  apply total_bind; [|intros; exact I]. apply fwd_loop_total; lia.
Qed.

Lemma chunk_ctor_total ty f body :
  bytes_ok body -> match chunk_ctor ty f body with Some r => total r | None => True end.
Proof.
  intros Hok. unfold chunk_ctor.
  destruct (ty =? 0); [apply data_ctor_total|].
  destruct ((ty =? 1) || (ty =? 2)); [apply init_ctor_total|].
  destruct (ty =? 3); [now apply sack_ctor_total|].
  destruct ((ty =? 4) || (ty =? 5) || (ty =? 6) || (ty =? 9) || (ty =? 130)); [apply params_ctor_total|].
  destruct (ty =? 7); [apply shutdown_ctor_total|].
  destruct ((ty =? 8) || (ty =? 10) || (ty =? 11) || (ty =? 14)); [exact I|].
  destruct (ty =? 192); [apply fwd_ctor_total|exact I].
Qed.

(* ------------------------------------------------------------------ parse_packet *)
Lemma parse_chunks_total fuel : forall data pos,
  bytes_ok data -> (pos <= length data + 3)%nat -> (length data + 4 <= 4 * fuel + pos)%nat ->
  total (parse_chunks fuel data pos).
Proof.
  induction fuel as [|f IH]; intros data pos Hok Hp Hf; [lia|].
  cbn [parse_chunks]. unfold len, SCTP_CHUNK_HEADER_LENGTH.
  destruct (Z.of_nat pos <=? Z.of_nat (length data) - 4) eqn:E; [|exact I].
  destruct (u8_some data pos) as [ty ->]; [lia|].
  destruct (u8_some data (pos + 1)) as [fl ->]; [lia|].
  destruct (u16_some data (pos + 2)) as [cl ->]; [lia|].
  destruct ((cl <? 4) || (Z.of_nat pos + cl >? Z.of_nat (length data))) eqn:E2; [exact I|].
  pose proof (padl_range cl) as Hpad.
  specialize (IH data (pos + Z.to_nat (cl + padl cl))%nat Hok ltac:(lia) ltac:(lia)).
  pose proof (chunk_ctor_total ty fl (slice data (pos + Z.to_nat 4) (pos + Z.to_nat cl))
                               (bytes_ok_slice _ _ _ Hok)) as Hc.
  destruct (chunk_ctor ty fl (slice data (pos + Z.to_nat 4) (pos + Z.to_nat cl))) as [r|]; [|exact IH].
  destruct (negb (nonempty (slice data (pos + Z.to_nat 4) (pos + Z.to_nat cl))) && has_fixed_part ty); [exact I|].
  apply total_bind; [exact Hc|]. intros c. apply total_bind; [exact IH|]. intros; exact I.
Qed.

Lemma parse_packet_total data : bytes_ok data -> total (parse_packet data).
Proof.
  intros Hok. unfold parse_packet, SCTP_PACKET_MINIMUM_LENGTH, SCTP_COMMON_HEADER_LENGTH, len.
  destruct (Z.of_nat (length data) <? 16) eqn:E; [exact I|].
  destruct (u16_some data 0) as [sp ->]; [lia|]. destruct (u16_some data 2) as [dp ->]; [lia|].
  destruct (u32_some data 4) as [tag ->]; [lia|].
  assert (exists c, u32le data 8 = Some c) as [c ->].
  { unfold u32le. destruct (u8_some data 8) as [a ->]; [lia|]. destruct (u8_some data (1 + 8)) as [b ->]; [lia|].
    destruct (u8_some data (2 + 8)) as [c ->]; [lia|]. destruct (u8_some data (3 + 8)) as [d ->]; [lia|]. eauto. }
  destruct (negb (c =? crc32c (checksum_input data))); [exact I|].
  apply total_bind; [|intros; exact I]. apply parse_chunks_total; [exact Hok|lia|lia].
Qed.

(* ------------------------------------------------------------------ RE-CONFIG parameters *)
Lemma reconfig_param_parse_total ty data :
  match reconfig_param_parse ty data with Some r => total r | None => True end.
Proof.
  unfold reconfig_param_parse.
  destruct (ty =? 13).
  { unfold reset_out_parse, len.
    destruct ((Z.of_nat (length data) <? 12) || negb (Z.of_nat (length data) mod 2 =? 0)) eqn:E; [exact I|].
    destruct (u32_some data 0) as [a ->]; [lia|]. destruct (u32_some data 4) as [b ->]; [lia|].
    destruct (u32_some data 8) as [c ->]; [lia|].
    destruct (read_u16s_some (Z.to_nat ((Z.of_nat (length data) - 12 + 1) / 2)) data 12) as [l ->]; [lia|].
    exact I. }
  destruct (ty =? 16).
  { unfold reset_response_parse, len. destruct (Z.of_nat (length data) <? 8) eqn:E; [exact I|].
    destruct (u32_some data 0) as [a ->]; [lia|]. destruct (u32_some data 4) as [b ->]; [lia|]. exact I. }
  destruct (ty =? 17); [|exact I].
  unfold add_out_parse, len. destruct (Z.of_nat (length data) <? 8) eqn:E; [exact I|].
  destruct (u32_some data 0) as [a ->]; [lia|]. destruct (u16_some data 4) as [b ->]; [lia|].
  destruct (u16_some data 6) as [c ->]; [lia|]. exact I.
Qed.
