(* Lemmas about Model/Dtls.v (property C04). *)
From Coq Require Import ZArith List Bool Lia Permutation.
From AV Require Import Lib.Bytes Lib.BytesP Gen.Dtls Model.Dtls.
Import ListNotations.
Local Open Scope Z_scope.

(* ======================================================================= *)
(* 1. The peer identity policy                                              *)
(* ======================================================================= *)

Lemma str_mem_In s l : str_mem s l = true <-> In s l.
Proof.
  unfold str_mem. rewrite existsb_exists. split.
  - intros [x [Hin Heq]]. apply bytes_eqb_eq in Heq. subst. exact Hin.
  - intros Hin. exists s. split; [exact Hin | apply bytes_eqb_refl].
Qed.

(* the algorithm of a fingerprint is supported (after lower-casing) *)
Definition supported (a : str) : Prop := In (str_lower a) dtls_X509_DIGEST_ALGORITHMS.
Definition supportedb (a : str) : bool := str_mem (str_lower a) dtls_X509_DIGEST_ALGORITHMS.
(* the value of a fingerprint equals the peer certificate digest (after upper-casing) *)
Definition matches (digest : str -> str) (f : fingerprint) : Prop :=
  str_upper (snd f) = digest (str_lower (fst f)).
Definition matchesb (digest : str -> str) (f : fingerprint) : bool :=
  bytes_eqb (str_upper (snd f)) (digest (str_lower (fst f))).

Lemma supportedb_iff a : supportedb a = true <-> supported a.
Proof. apply str_mem_In. Qed.
Lemma matchesb_iff d f : matchesb d f = true <-> matches d f.
Proof. apply bytes_eqb_eq. Qed.

(* number of supported fingerprints, number of supported and matching ones *)
Fixpoint nsup (fps : list fingerprint) : Z :=
  match fps with
  | [] => 0
  | f :: r => (if supportedb (fst f) then 1 else 0) + nsup r
  end.
Fixpoint nval (d : str -> str) (fps : list fingerprint) : Z :=
  match fps with
  | [] => 0
  | f :: r => (if supportedb (fst f) && matchesb d f then 1 else 0) + nval d r
  end.

Lemma count_spec d fps : forall s v,
  count_fingerprints d fps s v = (s + nsup fps, v + nval d fps).
Proof.
  induction fps as [|[a x] r IH]; intros s v; cbn [count_fingerprints nsup nval fst snd].
  - f_equal; lia.
  - unfold supportedb, matchesb. cbn [fst snd].
    destruct (str_mem (str_lower a) dtls_X509_DIGEST_ALGORITHMS) eqn:Hs.
    + destruct (bytes_eqb (str_upper x) (d (str_lower a))) eqn:Hm; rewrite IH; cbn [andb]; f_equal; lia.
    + rewrite IH. cbn [andb]. f_equal; lia.
Qed.

Lemma nval_le_nsup d fps : 0 <= nval d fps <= nsup fps.
Proof.
  induction fps as [|f r IH]; cbn [nsup nval]; [lia|].
  destruct (supportedb (fst f)); destruct (matchesb d f); cbn [andb]; lia.
Qed.

Lemma nsup_pos_iff fps : nsup fps <> 0 <-> exists f, In f fps /\ supported (fst f).
Proof.
  induction fps as [|f r IH]; cbn [nsup].
  - split; [lia | intros [f [[] _]]].
  - pose proof (nval_le_nsup (fun _ => []) r) as Hr.
    destruct (supportedb (fst f)) eqn:Hs.
    + split; [|lia]. intros _. exists f. split; [left; reflexivity | apply supportedb_iff; exact Hs].
    + rewrite Z.add_0_l, IH. split.
      * intros [g [Hin Hg]]. exists g. split; [right; exact Hin | exact Hg].
      * intros [g [[Heq | Hin] Hg]].
        -- subst g. apply supportedb_iff in Hg. congruence.
        -- exists g. split; assumption.
Qed.

Lemma nval_eq_iff d fps :
  nval d fps = nsup fps <-> forall f, In f fps -> supported (fst f) -> matches d f.
Proof.
  induction fps as [|f r IH]; cbn [nsup nval].
  - split; [intros _ f [] | reflexivity].
  - pose proof (nval_le_nsup d r) as Hr.
    destruct (supportedb (fst f)) eqn:Hs; cbn [andb].
    + destruct (matchesb d f) eqn:Hm.
      * split.
        -- intros H g [Heq | Hin] Hg.
           ++ subst g. apply matchesb_iff. exact Hm.
           ++ apply IH; [lia | exact Hin | exact Hg].
        -- intros H. assert (nval d r = nsup r) by (apply IH; intros g Hin; apply H; right; exact Hin). lia.
      * split; [lia|]. intros H. exfalso.
        assert (matches d f) as Hf by (apply H; [left; reflexivity | apply supportedb_iff; exact Hs]).
        apply matchesb_iff in Hf. congruence.
    + rewrite !Z.add_0_l, IH. split.
      * intros H g [Heq | Hin] Hg.
        -- subst g. apply supportedb_iff in Hg. congruence.
        -- apply H; assumption.
      * intros H g Hin. apply H. right. exact Hin.
Qed.

Lemma validate_counts d fps :
  validate_identity d fps = true <-> nsup fps <> 0 /\ nval d fps = nsup fps.
Proof.
  unfold validate_identity. rewrite count_spec. rewrite !Z.add_0_l.
  rewrite negb_true_iff, orb_false_iff, negb_false_iff, Z.eqb_neq, Z.eqb_eq. reflexivity.
Qed.

(* the policy, as an equivalence *)
Lemma identity_policy d fps :
  validate_identity d fps = true <->
  (exists f, In f fps /\ supported (fst f)) /\
  (forall f, In f fps -> supported (fst f) -> matches d f).
Proof. rewrite validate_counts, nsup_pos_iff, nval_eq_iff. reflexivity. Qed.

Lemma bool_eq_of_iff (a b : bool) : (a = true <-> b = true) -> a = b.
Proof. destruct a, b; intuition congruence. Qed.

(* order is irrelevant *)
Lemma identity_permutation d fps fps' :
  Permutation fps fps' -> validate_identity d fps = validate_identity d fps'.
Proof.
  intros HP. apply bool_eq_of_iff. rewrite !identity_policy.
  assert (forall f, In f fps <-> In f fps') as Hin.
  { intros f. split; apply Permutation_in; [exact HP | apply Permutation_sym; exact HP]. }
  split; intros [[f [Hf Hs]] Hall]; (split; [exists f; split; [apply Hin; exact Hf | exact Hs]
                                            | intros g Hg; apply Hall; apply Hin; exact Hg]).
Qed.

(* fingerprints with unsupported algorithms are ignored, wherever they stand *)
Lemma identity_unsupported_ignored d fps :
  validate_identity d (filter (fun f => supportedb (fst f)) fps) = validate_identity d fps.
Proof.
  apply bool_eq_of_iff. rewrite !identity_policy. split.
  - intros [[f [Hf Hs]] Hall]. apply filter_In in Hf. destruct Hf as [Hf _]. split.
    + exists f. split; assumption.
    + intros g Hg Hgs. apply Hall; [|exact Hgs]. apply filter_In. split; [exact Hg|].
      apply supportedb_iff. exact Hgs.
  - intros [[f [Hf Hs]] Hall]. split.
    + exists f. split; [|exact Hs]. apply filter_In. split; [exact Hf | apply supportedb_iff; exact Hs].
    + intros g Hg Hgs. apply filter_In in Hg. apply Hall; [apply Hg | exact Hgs].
Qed.

Lemma identity_unsupported_insert d pre f post :
  ~ supported (fst f) ->
  validate_identity d (pre ++ f :: post) = validate_identity d (pre ++ post).
Proof.
  intros Hn. rewrite <- (identity_unsupported_ignored d (pre ++ f :: post)).
  rewrite <- (identity_unsupported_ignored d (pre ++ post)).
  rewrite !filter_app. cbn [filter].
  destruct (supportedb (fst f)) eqn:Hs; [apply supportedb_iff in Hs; contradiction | reflexivity].
Qed.

(* ---- case-insensitivity --------------------------------------------------- *)
(* two characters equal up to ASCII case *)
Definition char_ci (x y : Z) : Prop :=
  x = y \/ (97 <= x <= 122 /\ y = x - 32) \/ (97 <= y <= 122 /\ x = y - 32).
Definition ci_eq (a b : str) : Prop := Forall2 char_ci a b.
Definition fp_ci (f g : fingerprint) : Prop := ci_eq (fst f) (fst g) /\ ci_eq (snd f) (snd g).

Definition ascii (s : str) : Prop := Forall (fun c => 0 <= c < 128) s.

Lemma special_none_below c t :
  forallb (fun kv => 128 <=? fst kv) t = true -> c < 128 -> special c t = None.
Proof.
  induction t as [|[k v] t IH]; intros Hall Hc; cbn [special]; [reflexivity|].
  cbn [forallb fst] in Hall. apply andb_true_iff in Hall. destruct Hall as [Hk Ht].
  apply Z.leb_le in Hk. destruct (Z.eqb c k) eqn:E; [apply Z.eqb_eq in E; lia|].
  apply IH; assumption.
Qed.

Lemma upper_special_high : forallb (fun kv => 128 <=? fst kv) dtls_UPPER_SPECIAL = true.
Proof. vm_compute. reflexivity. Qed.
Lemma lower_special_high : forallb (fun kv => 128 <=? fst kv) dtls_LOWER_SPECIAL = true.
Proof. vm_compute. reflexivity. Qed.

Lemma upper_char_ascii c : c < 128 ->
  upper_char c = [if (97 <=? c) && (c <=? 122) then c - 32 else c].
Proof.
  intros Hc. unfold upper_char. destruct ((97 <=? c) && (c <=? 122)); [reflexivity|].
  rewrite (special_none_below c _ upper_special_high Hc). reflexivity.
Qed.
Lemma lower_char_ascii c : c < 128 ->
  lower_char c = [if (65 <=? c) && (c <=? 90) then c + 32 else c].
Proof.
  intros Hc. unfold lower_char. destruct ((65 <=? c) && (c <=? 90)); [reflexivity|].
  rewrite (special_none_below c _ lower_special_high Hc). reflexivity.
Qed.

Lemma char_ci_upper x y : char_ci x y -> upper_char x = upper_char y.
Proof.
  intros [H | [[Hx Hy] | [Hy Hx]]]; [subst; reflexivity | |].
  - subst y. rewrite (upper_char_ascii x), (upper_char_ascii (x - 32)) by lia.
    replace ((97 <=? x) && (x <=? 122)) with true by (symmetry; apply andb_true_iff; split; apply Z.leb_le; lia).
    replace ((97 <=? x - 32) && (x - 32 <=? 122)) with false; [reflexivity|].
    symmetry. apply andb_false_iff. left. apply Z.leb_gt. lia.
  - subst x. rewrite (upper_char_ascii y), (upper_char_ascii (y - 32)) by lia.
    replace ((97 <=? y) && (y <=? 122)) with true by (symmetry; apply andb_true_iff; split; apply Z.leb_le; lia).
    replace ((97 <=? y - 32) && (y - 32 <=? 122)) with false; [reflexivity|].
    symmetry. apply andb_false_iff. left. apply Z.leb_gt. lia.
Qed.

Lemma char_ci_lower x y : char_ci x y -> lower_char x = lower_char y.
Proof.
  intros [H | [[Hx Hy] | [Hy Hx]]]; [subst; reflexivity | |].
  - subst y. rewrite (lower_char_ascii x), (lower_char_ascii (x - 32)) by lia.
    replace ((65 <=? x) && (x <=? 90)) with false by (symmetry; apply andb_false_iff; right; apply Z.leb_gt; lia).
    replace ((65 <=? x - 32) && (x - 32 <=? 90)) with true; [f_equal; lia|].
    symmetry. apply andb_true_iff. split; apply Z.leb_le; lia.
  - subst x. rewrite (lower_char_ascii y), (lower_char_ascii (y - 32)) by lia.
    replace ((65 <=? y) && (y <=? 90)) with false by (symmetry; apply andb_false_iff; right; apply Z.leb_gt; lia).
    replace ((65 <=? y - 32) && (y - 32 <=? 90)) with true; [f_equal; lia|].
    symmetry. apply andb_true_iff. split; apply Z.leb_le; lia.
Qed.

Lemma ci_eq_upper a b : ci_eq a b -> str_upper a = str_upper b.
Proof.
  induction 1 as [|x y a b Hxy _ IH]; [reflexivity|].
  unfold str_upper in *. cbn [flat_map]. rewrite IH, (char_ci_upper x y Hxy). reflexivity.
Qed.
Lemma ci_eq_lower a b : ci_eq a b -> str_lower a = str_lower b.
Proof.
  induction 1 as [|x y a b Hxy _ IH]; [reflexivity|].
  unfold str_lower in *. cbn [flat_map]. rewrite IH, (char_ci_lower x y Hxy). reflexivity.
Qed.

Lemma ci_eq_refl a : ci_eq a a.
Proof. induction a; constructor; [left; reflexivity | assumption]. Qed.
Lemma ci_eq_sym a b : ci_eq a b -> ci_eq b a.
Proof.
  induction 1 as [|x y a b Hxy _ IH]; constructor; [|exact IH].
  destruct Hxy as [H | [H | H]]; [left; auto | right; right; exact H | right; left; exact H].
Qed.

(* changing the case of any letters of any algorithm name or value changes nothing *)
Lemma identity_case_insensitive d fps fps' :
  Forall2 fp_ci fps fps' -> validate_identity d fps = validate_identity d fps'.
Proof.
  intros H. unfold validate_identity.
  assert (forall s v, count_fingerprints d fps s v = count_fingerprints d fps' s v) as E.
  { induction H as [|[a x] [a' x'] r r' [Ha Hx] _ IH]; intros s v; [reflexivity|].
    cbn [fst snd] in Ha, Hx. cbn [count_fingerprints].
    rewrite (ci_eq_lower a a' Ha), (ci_eq_upper x x' Hx).
    destruct (str_mem (str_lower a') dtls_X509_DIGEST_ALGORITHMS); [|apply IH].
    destruct (bytes_eqb (str_upper x') (d (str_lower a'))); apply IH. }
  rewrite E. reflexivity.
Qed.

(* For ASCII strings the converse holds as well: equal after upper() / lower()
   means equal up to the case of ASCII letters. *)
Definition up1 (c : Z) : Z := if (97 <=? c) && (c <=? 122) then c - 32 else c.
Definition lo1 (c : Z) : Z := if (65 <=? c) && (c <=? 90) then c + 32 else c.

Lemma str_upper_ascii a : ascii a -> str_upper a = map up1 a.
Proof.
  induction 1 as [|c a Hc _ IH]; [reflexivity|].
  unfold str_upper in *. cbn [flat_map map]. rewrite IH, upper_char_ascii by lia. reflexivity.
Qed.
Lemma str_lower_ascii a : ascii a -> str_lower a = map lo1 a.
Proof.
  induction 1 as [|c a Hc _ IH]; [reflexivity|].
  unfold str_lower in *. cbn [flat_map map]. rewrite IH, lower_char_ascii by lia. reflexivity.
Qed.

Lemma up1_eq_ci x y : up1 x = up1 y -> char_ci x y.
Proof.
  unfold up1, char_ci.
  destruct ((97 <=? x) && (x <=? 122)) eqn:Ex; destruct ((97 <=? y) && (y <=? 122)) eqn:Ey; intros H;
    try (apply andb_true_iff in Ex; destruct Ex as [Ex1 Ex2]; apply Z.leb_le in Ex1; apply Z.leb_le in Ex2);
    try (apply andb_true_iff in Ey; destruct Ey as [Ey1 Ey2]; apply Z.leb_le in Ey1; apply Z.leb_le in Ey2);
    lia.
Qed.
Lemma lo1_eq_ci x y : lo1 x = lo1 y -> char_ci x y.
Proof.
  unfold lo1, char_ci.
  destruct ((65 <=? x) && (x <=? 90)) eqn:Ex; destruct ((65 <=? y) && (y <=? 90)) eqn:Ey; intros H;
    try (apply andb_true_iff in Ex; destruct Ex as [Ex1 Ex2]; apply Z.leb_le in Ex1; apply Z.leb_le in Ex2);
    try (apply andb_true_iff in Ey; destruct Ey as [Ey1 Ey2]; apply Z.leb_le in Ey1; apply Z.leb_le in Ey2);
    lia.
Qed.

Lemma map_eq_forall2 (f : Z -> Z) (R : Z -> Z -> Prop) :
  (forall x y, f x = f y -> R x y) -> forall a b, map f a = map f b -> Forall2 R a b.
Proof.
  intros HR. induction a as [|x a IH]; intros [|y b] H; cbn [map] in H; try discriminate; constructor.
  - apply HR. congruence.
  - apply IH. congruence.
Qed.

Lemma upper_eq_ci a b : ascii a -> ascii b -> (str_upper a = str_upper b <-> ci_eq a b).
Proof.
  intros Ha Hb. split; [|apply ci_eq_upper].
  rewrite (str_upper_ascii a Ha), (str_upper_ascii b Hb). apply map_eq_forall2. exact up1_eq_ci.
Qed.
Lemma lower_eq_ci a b : ascii a -> ascii b -> (str_lower a = str_lower b <-> ci_eq a b).
Proof.
  intros Ha Hb. split; [|apply ci_eq_lower].
  rewrite (str_lower_ascii a Ha), (str_lower_ascii b Hb). apply map_eq_forall2. exact lo1_eq_ci.
Qed.

(* the supported names are ASCII and already lower case (checked on the generated table) *)
Definition asciib (s : str) : bool := forallb (fun c => (0 <=? c) && (c <? 128)) s.
Lemma asciib_ok s : asciib s = true -> ascii s.
Proof.
  unfold asciib, ascii. rewrite forallb_forall, Forall_forall. intros H c Hc.
  specialize (H c Hc). apply andb_true_iff in H. destruct H as [H1 H2].
  apply Z.leb_le in H1. apply Z.ltb_lt in H2. lia.
Qed.

Lemma algorithms_normal :
  forallb (fun n => asciib n && bytes_eqb (str_lower n) n) dtls_X509_DIGEST_ALGORITHMS = true.
Proof. vm_compute. reflexivity. Qed.

Lemma algorithm_normal n : In n dtls_X509_DIGEST_ALGORITHMS -> ascii n /\ str_lower n = n.
Proof.
  intros Hin. pose proof algorithms_normal as H. rewrite forallb_forall in H.
  specialize (H n Hin). apply andb_true_iff in H. destruct H as [H1 H2].
  split; [apply asciib_ok; exact H1 | apply bytes_eqb_eq; exact H2].
Qed.

Lemma supported_ascii a : ascii a ->
  (supported a <-> exists n, In n dtls_X509_DIGEST_ALGORITHMS /\ ci_eq a n).
Proof.
  intros Ha. unfold supported. split.
  - intros Hin. exists (str_lower a). split; [exact Hin|].
    destruct (algorithm_normal _ Hin) as [Hn Hl].
    apply (lower_eq_ci a (str_lower a) Ha Hn). symmetry. exact Hl.
  - intros [n [Hin Hci]]. destruct (algorithm_normal _ Hin) as [Hn Hl].
    rewrite (ci_eq_lower a n Hci), Hl. exact Hin.
Qed.

(* The policy for ASCII fingerprints in terms of plain case-insensitive equality.
   The digest oracle returns upper-case ASCII text (hex pairs and colons), which
   is what certificate_digest produces. *)
Lemma identity_policy_ascii d fps :
  Forall (fun f => ascii (fst f) /\ ascii (snd f)) fps ->
  (forall n, In n dtls_X509_DIGEST_ALGORITHMS -> ascii (d n) /\ str_upper (d n) = d n) ->
  (validate_identity d fps = true <->
   (exists f n, In f fps /\ In n dtls_X509_DIGEST_ALGORITHMS /\ ci_eq (fst f) n) /\
   (forall f n, In f fps -> In n dtls_X509_DIGEST_ALGORITHMS -> ci_eq (fst f) n -> ci_eq (snd f) (d n))).
Proof.
  intros Hfps Hd. rewrite Forall_forall in Hfps. rewrite identity_policy. split.
  - intros [[f [Hf Hs]] Hall]. split.
    + destruct (Hfps f Hf) as [Ha _]. apply (supported_ascii _ Ha) in Hs. destruct Hs as [n [Hn Hc]].
      exists f, n. auto.
    + intros g n Hg Hn Hc. destruct (Hfps g Hg) as [Ha Hv]. destruct (Hd n Hn) as [Hdn Hdu].
      assert (supported (fst g)) as Hsg by (apply (supported_ascii _ Ha); exists n; auto).
      specialize (Hall g Hg Hsg). unfold matches in Hall.
      destruct (algorithm_normal n Hn) as [_ Hl].
      rewrite (ci_eq_lower _ _ Hc), Hl in Hall.
      apply (upper_eq_ci (snd g) (d n) Hv Hdn). rewrite Hdu. exact Hall.
  - intros [[f [n [Hf [Hn Hc]]]] Hall]. split.
    + exists f. split; [exact Hf|]. destruct (Hfps f Hf) as [Ha _]. apply (supported_ascii _ Ha). exists n. auto.
    + intros g Hg Hsg. destruct (Hfps g Hg) as [Ha Hv]. apply (supported_ascii _ Ha) in Hsg.
      destruct Hsg as [m [Hm Hcm]]. destruct (Hd m Hm) as [Hdm Hdu].
      specialize (Hall g m Hg Hm Hcm). unfold matches.
      destruct (algorithm_normal m Hm) as [_ Hl].
      rewrite (ci_eq_lower _ _ Hcm), Hl. rewrite (ci_eq_upper _ _ Hall). exact Hdu.
Qed.

(* ======================================================================= *)
(* 2. SRTP key slicing                                                      *)
(* ======================================================================= *)

Lemma firstn_app_exact {A} (a b : list A) n : length a = n -> firstn n (a ++ b) = a.
Proof.
  intros H. subst n. rewrite firstn_app, Nat.sub_diag, firstn_all. cbn [firstn]. apply app_nil_r.
Qed.
Lemma skipn_app_exact {A} (a b : list A) n : length a = n -> skipn n (a ++ b) = b.
Proof.
  intros H. subst n. rewrite skipn_app, Nat.sub_diag, skipn_all. reflexivity.
Qed.

Lemma slice_at (pre mid post : bytes) a b :
  length pre = a -> (a + length mid = b)%nat -> slice (pre ++ mid ++ post) a b = mid.
Proof.
  intros Ha Hb. unfold slice. rewrite (skipn_app_exact pre _ a Ha).
  apply firstn_app_exact. lia.
Qed.

(* client_key ++ server_key ++ client_salt ++ server_salt *)
Lemma get_key_and_salt_0 k s ck sk cs ss :
  0 <= k -> 0 <= s -> len ck = k -> len sk = k -> len cs = s -> len ss = s ->
  get_key_and_salt k s (ck ++ sk ++ cs ++ ss) 0 = ck ++ cs.
Proof.
  unfold len. intros Hk Hs H1 H2 H3 H4. unfold get_key_and_salt. cbv zeta.
  f_equal.
  - apply (slice_at [] ck (sk ++ cs ++ ss)); cbn [length]; lia.
  - replace (ck ++ sk ++ cs ++ ss) with ((ck ++ sk) ++ cs ++ ss) by (rewrite <- app_assoc; reflexivity).
    apply slice_at; rewrite ?app_length; lia.
Qed.

Lemma get_key_and_salt_1 k s ck sk cs ss :
  0 <= k -> 0 <= s -> len ck = k -> len sk = k -> len cs = s -> len ss = s ->
  get_key_and_salt k s (ck ++ sk ++ cs ++ ss) 1 = sk ++ ss.
Proof.
  unfold len. intros Hk Hs H1 H2 H3 H4. unfold get_key_and_salt. cbv zeta.
  f_equal.
  - apply (slice_at ck sk (cs ++ ss)); lia.
  - replace (ck ++ sk ++ cs ++ ss) with ((ck ++ sk ++ cs) ++ ss ++ []) by (rewrite app_nil_r, <- !app_assoc; reflexivity).
    apply slice_at; rewrite ?app_length; lia.
Qed.

Lemma split4 (m : bytes) k s :
  0 <= k -> 0 <= s -> len m = (k + s) * 2 ->
  exists ck sk cs ss, m = ck ++ sk ++ cs ++ ss /\ len ck = k /\ len sk = k /\ len cs = s /\ len ss = s.
Proof.
  unfold len. intros Hk Hs Hm.
  set (K := Z.to_nat k). set (S' := Z.to_nat s).
  exists (firstn K m), (firstn K (skipn K m)), (firstn S' (skipn K (skipn K m))),
         (skipn S' (skipn K (skipn K m))).
  split.
  - rewrite !firstn_skipn. reflexivity.
  - rewrite !firstn_length, !skipn_length. lia.
Qed.

(* the mirror-image property of _setup_srtp *)
Definition keys_mirror_at (k s : Z) (m : bytes) : Prop :=
  exists ck sk cs ss,
    m = ck ++ sk ++ cs ++ ss /\ len ck = k /\ len sk = k /\ len cs = s /\ len ss = s /\
    setup_keys RClient k s m = (ck ++ cs, sk ++ ss) /\
    setup_keys RServer k s m = (sk ++ ss, ck ++ cs).

Lemma keys_mirror k s m : 0 <= k -> 0 <= s -> len m = (k + s) * 2 -> keys_mirror_at k s m.
Proof.
  intros Hk Hs Hm. destruct (split4 m k s Hk Hs Hm) as [ck [sk [cs [ss [E [H1 [H2 [H3 H4]]]]]]]].
  exists ck, sk, cs, ss. repeat (split; [assumption|]). subst m. unfold setup_keys.
  rewrite get_key_and_salt_0, get_key_and_salt_1 by assumption. split; reflexivity.
Qed.

(* consequences in the form of the property text *)
Lemma keys_mirror_consequences k s m :
  keys_mirror_at k s m ->
  fst (setup_keys RClient k s m) = snd (setup_keys RServer k s m) /\
  fst (setup_keys RServer k s m) = snd (setup_keys RClient k s m) /\
  len (fst (setup_keys RClient k s m)) = k + s /\
  len (fst (setup_keys RServer k s m)) = k + s.
Proof.
  intros [ck [sk [cs [ss [E [H1 [H2 [H3 [H4 [Hc Hsv]]]]]]]]]]. rewrite Hc, Hsv. cbn [fst snd].
  rewrite !len_app. repeat split; lia.
Qed.

Lemma profiles_nonneg :
  forallb (fun p => (0 <=? snd (fst p)) && (0 <=? snd p)) dtls_SRTP_PROFILES = true.
Proof. vm_compute. reflexivity. Qed.

Lemma keys_mirror_table :
  Forall (fun p => forall m, len m = (snd (fst p) + snd p) * 2 -> keys_mirror_at (snd (fst p)) (snd p) m)
         dtls_SRTP_PROFILES.
Proof.
  apply Forall_forall. intros p Hin m Hm. pose proof profiles_nonneg as H.
  rewrite forallb_forall in H. specialize (H p Hin). apply andb_true_iff in H. destruct H as [H1 H2].
  apply Z.leb_le in H1. apply Z.leb_le in H2. apply keys_mirror; assumption.
Qed.

Lemma get_key_and_salt_ok k s m idx : bytes_ok m -> bytes_ok (get_key_and_salt k s m idx).
Proof. intros H. unfold get_key_and_salt. apply bytes_ok_app. split; apply bytes_ok_slice; exact H. Qed.

(* ======================================================================= *)
(* 3. start(): the gate                                                     *)
(* ======================================================================= *)

Definition res_tr (r : start_res) : tr :=
  match r with StartCrash t _ | StartPending t _ | StartRet t _ => t end.
Definition res_outs (r : start_res) : list rx_out :=
  match r with StartCrash _ o | StartPending _ o | StartRet _ o => o end.

Definition keys_installed (t : tr) : bool := is_some (t_tx_key t) || is_some (t_rx_key t).

(* the three stages *)
Definition handshake_ok (guard : bool) (t : tr) (i : start_in) : bool :=
  match fst (do_handshake guard (connecting t i false) (si_script i)) with
  | HsEncrypted => true
  | _ => false
  end.
Definition identity_ok (digest : str -> str) (i : start_in) : bool := validate_identity digest (si_fps i).
Definition srtp_ok (t : tr) (i : start_in) : bool := is_some (find_profile (t_profiles t) (si_selected i)).

Definition fresh_like (t : tr) : Prop :=
  t_state t = NEW /\ t_tx_key t = None /\ t_rx_key t = None /\ t_pump t = false.

Lemma fresh_is_fresh r ps rc : fresh_like (fresh r ps rc).
Proof. repeat split. Qed.

(* start() returned: the result is the decision function of the three stages *)
Lemma start_decision_spec guard digest t i t1 outs :
  fresh_like t -> start guard digest t i = StartRet t1 outs ->
  (t_state t1, keys_installed t1, t_pump t1) =
  start_decision (handshake_ok guard t i) (identity_ok digest i) (srtp_ok t i).
Proof.
  intros [Hst [Htx [Hrx Hp]]] H. unfold start in H. rewrite Hst in H. cbn [state_eqb negb] in H.
  unfold handshake_ok, identity_ok, srtp_ok, start_decision.
  destruct (si_fps i) as [|f fps] eqn:Ef; [discriminate|]. rewrite <- Ef in *.
  destruct (do_handshake guard (connecting t i false) (si_script i)) as [e o] eqn:Eh. cbn [fst].
  destruct e; try discriminate.
  - (* encrypted *)
    destruct (validate_identity digest (si_fps i)) eqn:Ev; cbn [negb] in H.
    + cbn [connecting t_profiles] in H.
      destruct (find_profile (t_profiles t) (si_selected i)) as [p|] eqn:Epf.
      * destruct (setup_keys _ _ _ _) as [tx rx]. inversion H; subst. reflexivity.
      * inversion H; subst. unfold keys_installed. cbn. rewrite Htx, Hrx, Hp. reflexivity.
    + inversion H; subst. unfold keys_installed. cbn. rewrite Htx, Hrx, Hp. reflexivity.
  - (* failed *)
    inversion H; subst. unfold keys_installed. cbn. rewrite Htx, Hrx, Hp. reflexivity.
Qed.

(* whatever start() did (returned, crashed, still pending): CONNECTED, SRTP
   sessions or a running pump exist only if all three stages succeeded *)
Lemma start_only_if guard digest t i :
  fresh_like t ->
  let r := start guard digest t i in
  t_state (res_tr r) = CONNECTED \/ keys_installed (res_tr r) = true \/ t_pump (res_tr r) = true ->
  (exists outs, r = StartRet (res_tr r) outs) /\
  handshake_ok guard t i = true /\ identity_ok digest i = true /\ srtp_ok t i = true.
Proof.
  intros Hf r Hor. subst r. destruct Hf as [Hst [Htx [Hrx Hp]]].
  destruct (start guard digest t i) as [t1 o | t1 o | t1 o] eqn:Es; cbn [res_tr] in *.
  - exfalso. unfold start in Es. rewrite Hst in Es. cbn [state_eqb negb] in Es.
    destruct (si_fps i) eqn:Ef.
    + inversion Es; subst. unfold keys_installed in Hor. rewrite Hst, Htx, Hrx, Hp in Hor.
      cbn in Hor. intuition discriminate.
    + destruct (do_handshake guard (connecting t i false) (si_script i)) as [e o'].
      destruct e; try discriminate.
      * destruct (negb (validate_identity digest (f :: l))); [discriminate|].
        destruct (find_profile _ _); [|discriminate]. destruct (setup_keys _ _ _ _). discriminate.
      * inversion Es; subst. unfold keys_installed in Hor. cbn in Hor. rewrite Htx, Hrx, Hp in Hor.
        cbn in Hor. intuition discriminate.
  - exfalso. unfold start in Es. rewrite Hst in Es. cbn [state_eqb negb] in Es.
    destruct (si_fps i) eqn:Ef; [discriminate|].
    destruct (do_handshake guard (connecting t i false) (si_script i)) as [e o'].
    destruct e; try discriminate.
    + destruct (negb (validate_identity digest (f :: l))); [discriminate|].
      destruct (find_profile _ _); [|discriminate]. destruct (setup_keys _ _ _ _). discriminate.
    + inversion Es; subst. unfold keys_installed in Hor. cbn in Hor. rewrite Htx, Hrx, Hp in Hor.
      cbn in Hor. intuition discriminate.
  - split; [exists o; reflexivity|].
    pose proof (start_decision_spec guard digest t i t1 o (conj Hst (conj Htx (conj Hrx Hp))) Es) as D.
    unfold start_decision in D.
    destruct (handshake_ok guard t i), (identity_ok digest i), (srtp_ok t i); cbn [andb] in D;
      try (repeat split; reflexivity); exfalso;
      injection D as D1 D2 D3; rewrite D1, D2, D3 in Hor;
      destruct Hor as [Hor|[Hor|Hor]]; discriminate Hor.
Qed.

(* with the state guard nothing is handed over while the handshake is driven *)
Lemma recv_next_connecting_silent t g o :
  t_state t = CONNECTING -> t_rx_key t = None -> recv_next true t g = RxOk o -> o = RxNone.
Proof.
  intros Hs Hk H. unfold recv_next in H. rewrite Hs, Hk in H. cbn [state_eqb negb orb is_some] in H.
  destruct (u8 (dg_data g) 0) as [fb|]; [|inversion H; reflexivity].
  destruct ((19 <? fb) && (fb <? 64)).
  - destruct (dg_bio g && negb (dg_send_ok g)); [discriminate|].
    destruct (dg_ssl g); try discriminate.
    + rewrite !andb_false_r in H. inversion H. reflexivity.
    + inversion H. reflexivity.
  - rewrite andb_false_r in H. inversion H. reflexivity.
Qed.

Lemma do_handshake_silent t script :
  t_state t = CONNECTING -> t_rx_key t = None ->
  Forall (fun o => o = RxNone) (snd (do_handshake true t script)).
Proof.
  intros Hs Hk. induction script as [|h rest IH]; cbn [do_handshake snd]; [constructor|].
  destruct h as [| | bio sok e]; cbn [snd]; try constructor.
  destruct (bio && negb sok); cbn [snd]; [constructor|].
  destruct e as [|g]; cbn [snd]; [constructor|].
  destruct (recv_next true t g) as [o| |] eqn:Er; cbn [snd]; try constructor.
  destruct (do_handshake true t rest) as [r outs]. cbn [snd] in *. constructor; [|exact IH].
  eapply recv_next_connecting_silent; eassumption.
Qed.

Lemma start_silent digest t i :
  fresh_like t -> Forall (fun o => o = RxNone) (res_outs (start true digest t i)).
Proof.
  intros [Hst [Htx [Hrx Hp]]]. unfold start. rewrite Hst. cbn [state_eqb negb].
  destruct (si_fps i) eqn:Ef; [constructor|].
  pose proof (do_handshake_silent (connecting t i false) (si_script i) eq_refl Hrx) as Hsil.
  destruct (do_handshake true (connecting t i false) (si_script i)) as [e o]. cbn [snd] in Hsil.
  destruct e; cbn [res_outs]; try exact Hsil.
  destruct (negb (validate_identity digest (f :: l))); [exact Hsil|].
  destruct (find_profile _ _); [|exact Hsil]. destruct (setup_keys _ _ _ _). exact Hsil.
Qed.

(* ---- after start() --------------------------------------------------------- *)
(* outputs that hand nothing to anybody and send nothing *)
Definition quiet (x : out) : Prop := x = OConnErr \/ x = OIgnored.

Definition down (t : tr) : Prop := t_state t <> CONNECTED /\ t_pump t = false.

Lemma step_down t o : down t -> down (fst (step true t o)) /\ quiet (snd (step true t o)) /\ fst (step true t o) = t.
Proof.
  intros [Hs Hp]. assert (state_eqb (t_state t) CONNECTED = false) as E by (destruct (t_state t); auto; congruence).
  destruct o; cbn [step]; rewrite ?E, ?Hp; cbn [negb fst snd]; unfold quiet, down; auto.
Qed.

Lemma run_down ops : forall t, down t ->
  fst (run true t ops) = t /\ Forall quiet (snd (run true t ops)).
Proof.
  induction ops as [|o ops IH]; intros t Hd; cbn [run]; [split; [reflexivity | constructor]|].
  destruct (step_down t o Hd) as [Hd1 [Hq He]].
  destruct (step true t o) as [t1 x]. cbn [fst snd] in *. subst t1.
  destruct (IH t Hd) as [IH1 IH2]. destruct (run true t ops) as [t2 xs]. cbn [fst snd] in *.
  split; [exact IH1 | constructor; assumption].
Qed.

(* send guards *)
Lemma send_rtp_guard t data p s : t_state t <> CONNECTED -> step true t (OpSendRtp data p s) = (t, OConnErr).
Proof. intros H. cbn [step]. destruct (t_state t); try reflexivity. congruence. Qed.
Lemma send_data_guard t data b s : t_state t <> CONNECTED -> step true t (OpSendData data b s) = (t, OConnErr).
Proof. intros H. cbn [step]. destruct (t_state t); try reflexivity. congruence. Qed.

(* if a stage failed the transport is down after start(), whatever start() did *)
Lemma start_failed_down digest t i :
  fresh_like t ->
  handshake_ok true t i && identity_ok digest i && srtp_ok t i = false ->
  down (res_tr (start true digest t i)).
Proof.
  intros Hf Hno. unfold down.
  pose proof (start_only_if true digest t i Hf) as H. cbv zeta in H.
  destruct (t_state (res_tr (start true digest t i))) eqn:Es;
    destruct (t_pump (res_tr (start true digest t i))) eqn:Ep;
    try (split; [discriminate | reflexivity]);
    exfalso; (destruct H as [_ [H1 [H2 H3]]]; [auto | rewrite H1, H2, H3 in Hno; discriminate]).
Qed.

(* ... and when start() returned in that case, the state is FAILED *)
Lemma start_failed_state digest t i t1 outs :
  fresh_like t -> start true digest t i = StartRet t1 outs ->
  handshake_ok true t i && identity_ok digest i && srtp_ok t i = false ->
  t_state t1 = FAILED.
Proof.
  intros Hf Hs Hno. pose proof (start_decision_spec true digest t i t1 outs Hf Hs) as D.
  unfold start_decision in D. rewrite Hno in D. inversion D. reflexivity.
Qed.

(* Safety over whole histories: anything handed to a receiver or sent to the
   peer implies that all three stages had succeeded. *)
Lemma delivery_implies_validated digest t i ops :
  fresh_like t ->
  let r := start true digest t i in
  (exists x, In x (snd (run true (res_tr r) ops)) /\ ~ quiet x) ->
  handshake_ok true t i = true /\ identity_ok digest i = true /\ srtp_ok t i = true.
Proof.
  intros Hf r [x [Hin Hnq]].
  destruct (handshake_ok true t i && identity_ok digest i && srtp_ok t i) eqn:E.
  - apply andb_true_iff in E. destruct E as [E E3]. apply andb_true_iff in E. destruct E as [E1 E2]. auto.
  - exfalso. pose proof (start_failed_down digest t i Hf E) as Hd.
    destruct (run_down ops _ Hd) as [_ Hq]. rewrite Forall_forall in Hq. apply Hnq. apply Hq. exact Hin.
Qed.

(* ---- both sides ---------------------------------------------------------------- *)
Lemma start_connected_keys guard digest t i t1 outs :
  fresh_like t -> start guard digest t i = StartRet t1 outs -> t_state t1 = CONNECTED ->
  exists p, find_profile (t_profiles t) (si_selected i) = Some p /\
            t_tx_key t1 = Some (fst (setup_keys (start_role t i) (p_key p) (p_salt p) (si_material i))) /\
            t_rx_key t1 = Some (snd (setup_keys (start_role t i) (p_key p) (p_salt p) (si_material i))) /\
            t_profile t1 = Some (p_name p).
Proof.
  intros [Hst [Htx [Hrx Hp]]] H Hc. unfold start in H. rewrite Hst in H. cbn [state_eqb negb] in H.
  destruct (si_fps i) as [|f fps] eqn:Ef; [discriminate|].
  destruct (do_handshake guard (connecting t i false) (si_script i)) as [e o].
  destruct e; try discriminate.
  - destruct (negb (validate_identity digest (f :: fps))).
    + inversion H; subst. discriminate.
    + cbn [connecting t_profiles t_role] in H.
      destruct (find_profile (t_profiles t) (si_selected i)) as [p|]; [|inversion H; subst; discriminate].
      exists p. split; [reflexivity|].
      destruct (setup_keys (start_role t i) (p_key p) (p_salt p) (si_material i)) as [tx rx].
      inversion H; subst. cbn. auto.
  - inversion H; subst. discriminate.
Qed.

Lemma find_profile_name ps sel p : find_profile ps sel = Some p -> sel = Some (p_name p).
Proof.
  induction ps as [|q ps IH]; cbn [find_profile]; [discriminate|].
  destruct sel as [n|]; [|exact IH].
  destruct (bytes_eqb (p_name q) n) eqn:E; [|exact IH].
  intros H. inversion H; subst. apply bytes_eqb_eq in E. subst. reflexivity.
Qed.

Lemma both_connected_mirror gA gB dA dB tA tB iA iB tA1 tB1 oA oB :
  fresh_like tA -> fresh_like tB ->
  start gA dA tA iA = StartRet tA1 oA -> start gB dB tB iB = StartRet tB1 oB ->
  t_state tA1 = CONNECTED -> t_state tB1 = CONNECTED ->
  start_role tA iA = RServer -> start_role tB iB = RClient ->
  si_selected iA = si_selected iB -> si_material iA = si_material iB ->
  (forall pa pb, In pa (t_profiles tA) -> In pb (t_profiles tB) -> p_name pa = p_name pb ->
                 p_key pa = p_key pb /\ p_salt pa = p_salt pb) ->
  t_tx_key tA1 = t_rx_key tB1 /\ t_rx_key tA1 = t_tx_key tB1 /\ t_profile tA1 = t_profile tB1.
Proof.
  intros HfA HfB HA HB HcA HcB HrA HrB Hsel Hmat Hsame.
  destruct (start_connected_keys _ _ _ _ _ _ HfA HA HcA) as [pa [Fa [TxA [RxA PA]]]].
  destruct (start_connected_keys _ _ _ _ _ _ HfB HB HcB) as [pb [Fb [TxB [RxB PB]]]].
  assert (In pa (t_profiles tA)) as Ia.
  { clear - Fa. induction (t_profiles tA) as [|q ps IH]; cbn [find_profile] in Fa; [discriminate|].
    destruct (si_selected iA) as [n|]; [|right; auto].
    destruct (bytes_eqb (p_name q) n); [inversion Fa; left; reflexivity | right; auto]. }
  assert (In pb (t_profiles tB)) as Ib.
  { clear - Fb. induction (t_profiles tB) as [|q ps IH]; cbn [find_profile] in Fb; [discriminate|].
    destruct (si_selected iB) as [n|]; [|right; auto].
    destruct (bytes_eqb (p_name q) n); [inversion Fb; left; reflexivity | right; auto]. }
  apply find_profile_name in Fa. apply find_profile_name in Fb.
  assert (p_name pa = p_name pb) as En by congruence.
  destruct (Hsame pa pb Ia Ib En) as [Ek Es].
  rewrite TxA, RxA, TxB, RxB, PA, PB, HrA, HrB, Ek, Es, Hmat, En. cbn [setup_keys fst snd]. auto.
Qed.

(* ======================================================================= *)
(* 4. The receive dispatch of a connected transport                         *)
(* ======================================================================= *)

(* whatever the pump hands over was produced by a successful decryption /
   authentication of exactly this datagram *)
Lemma recv_next_sound guard t g o :
  recv_next guard t g = RxOk o ->
  match o with
  | RxNone => True
  | RxData d => dg_ssl g = SslData d /\ d <> [] /\ t_receiver t = true
  | RxRtp p => dg_unprotect g = Some p /\ is_rtcp (dg_data g) = false /\ t_rx_key t <> None
  | RxRtcp p => dg_unprotect g = Some p /\ is_rtcp (dg_data g) = true /\ t_rx_key t <> None
  end.
Proof.
  unfold recv_next. destruct (u8 (dg_data g) 0) as [fb|]; [|intros H; inversion H; subst; exact I].
  destruct ((19 <? fb) && (fb <? 64)).
  - destruct (dg_bio g && negb (dg_send_ok g)); [discriminate|].
    destruct (dg_ssl g) as [d| |]; try discriminate.
    + destruct (nonempty d) eqn:En; cbn [andb].
      * destruct (t_receiver t) eqn:Er; cbn [andb].
        -- destruct (negb guard || state_eqb (t_state t) CONNECTED); intros H; inversion H; subst; auto.
           split; [reflexivity|]. split; [|reflexivity]. destruct d; [discriminate | discriminate].
        -- intros H; inversion H; subst; exact I.
      * intros H; inversion H; subst; exact I.
    + intros H; inversion H; subst; exact I.
  - destruct ((127 <? fb) && (fb <? 192)); cbn [andb].
    + destruct (t_rx_key t) as [k|] eqn:Ek; cbn [is_some].
      * destruct (dg_unprotect g) as [p|]; [|intros H; inversion H; subst; exact I].
        destruct (is_rtcp (dg_data g)) eqn:Ei; intros H; inversion H; subst; repeat split; discriminate.
      * intros H; inversion H; subst; exact I.
    + intros H; inversion H; subst; exact I.
Qed.

(* a datagram that fails authentication (libsrtp reports an error / OpenSSL
   reports an error for the record) is dropped and changes nothing *)
Lemma step_unauthenticated_dropped t g :
  t_pump t = true ->
  dg_data g <> [] ->
  dg_unprotect g = None -> dg_ssl g = SslError ->
  (dg_bio g = true -> dg_send_ok g = true) ->
  step true t (OpDgram g) = (t, ORx RxNone).
Proof.
  intros Hp Hd Hu Hs Hw. cbn [step]. rewrite Hp. unfold recv_next. rewrite Hu, Hs.
  destruct (dg_data g) as [|fb rest]; [contradiction|]. cbn [u8 nth_error].
  assert (dg_bio g && negb (dg_send_ok g) = false) as Ew.
  { destruct (dg_bio g); [rewrite Hw by reflexivity|]; reflexivity. }
  rewrite Ew. destruct ((19 <? fb) && (fb <? 64)); [reflexivity|].
  destruct ((127 <? fb) && (fb <? 192) && is_some (t_rx_key t)); reflexivity.
Qed.

(* what decrypts / authenticates is delivered, unchanged, to the right handler *)
Lemma step_data_delivered t data d :
  t_pump t = true -> t_state t = CONNECTED -> t_receiver t = true ->
  (exists fb rest, data = fb :: rest /\ 19 < fb < 64) -> d <> [] ->
  forall bio unp, step true t (OpDgram (mkDgram data (SslData d) bio true unp)) = (t, ORx (RxData d)).
Proof.
  intros Hp Hs Hr [fb [rest [E Hfb]]] Hd bio unp. subst data. cbn [step]. rewrite Hp.
  unfold recv_next. cbn [dg_data dg_ssl dg_bio dg_send_ok u8 nth_error negb].
  replace ((19 <? fb) && (fb <? 64)) with true
    by (symmetry; apply andb_true_iff; split; apply Z.ltb_lt; lia).
  rewrite andb_false_r, Hr, Hs. destruct d; [contradiction|]. reflexivity.
Qed.

Lemma step_srtp_delivered t data p :
  t_pump t = true -> t_rx_key t <> None ->
  (exists fb rest, data = fb :: rest /\ 127 < fb < 192) ->
  forall sslr bio sok,
  step true t (OpDgram (mkDgram data sslr bio sok (Some p))) =
  (t, ORx (if is_rtcp data then RxRtcp p else RxRtp p)).
Proof.
  intros Hp Hk [fb [rest [E Hfb]]] sslr bio sok. subst data. cbn [step]. rewrite Hp.
  unfold recv_next. cbn [dg_data dg_unprotect u8 nth_error].
  replace ((19 <? fb) && (fb <? 64)) with false
    by (symmetry; apply andb_false_iff; right; apply Z.ltb_ge; lia).
  replace ((127 <? fb) && (fb <? 192)) with true
    by (symmetry; apply andb_true_iff; split; apply Z.ltb_lt; lia).
  destruct (t_rx_key t); [|contradiction]. cbn [is_some andb].
  destruct (is_rtcp (fb :: rest)); reflexivity.
Qed.

(* demultiplexing a datagram -- the empty one included -- never ends with an exception
   other than ConnectionError *)
Lemma recv_next_never_crashes guard t g : recv_next guard t g <> RxCrash.
Proof.
  unfold recv_next. destruct (u8 (dg_data g) 0) as [fb|]; [|discriminate].
  destruct ((19 <? fb) && (fb <? 64)).
  - destruct (dg_bio g && negb (dg_send_ok g)); [discriminate|].
    destruct (dg_ssl g) as [d| |]; try discriminate.
    destruct (nonempty d && t_receiver t && (negb guard || state_eqb (t_state t) CONNECTED)); discriminate.
  - destruct ((127 <? fb) && (fb <? 192) && is_some (t_rx_key t)); [|discriminate].
    destruct (dg_unprotect g); [|discriminate]. destruct (is_rtcp (dg_data g)); discriminate.
Qed.
