(* C17: reconfiguration sequence numbers.  The data-channel layer (Model/Chan.v) uses the
   RE-CONFIG request / response sequence numbers only to number its own requests (tsn_plus_one),
   to match a response with the pending request (equality) and to remember the peer's last
   request.  Shifting this endpoint's request numbering by any k1 and the peer's by any k2
   (mod 2^32) - so that either wraps during the session - leaves every other event and the
   whole remaining state unchanged. *)
From Coq Require Import ZArith List Bool Lia ZifyBool.
From AV Require Import Lib.Bytes Gen.Utils Gen.SctpConst Model.Chan.
Import ListNotations.
Local Open Scope Z_scope.

Ltac Zify.zify_post_hook ::= Z.to_euclidean_division_equations.

(* replace the three sequence-number carrying fields *)
Definition put (s : st) (rq : option (Z * list Z)) (a b : Z) : st :=
  mkSt (established s) (dc_id s) (chans s) (table s) (queue s) (rq_queue s) rq a b.

Definition plain (e : event) : bool :=
  match e with EvReconfigRequest _ _ | EvReconfigResponse _ => false | _ => true end.
Definition plains (l : list event) : Prop := forallb plain l = true.

Lemma plains_app a b : plains a -> plains b -> plains (a ++ b).
Proof. unfold plains. intros. rewrite forallb_app. now rewrite H, H0. Qed.
Lemma plains_nil : plains []. Proof. reflexivity. Qed.

(* ---------------------------------------------------------------- oblivious operations *)
Section Put.
Variables (rq : option (Z * list Z)) (a b : Z).
Notation P s := (put s rq a b).

Lemma put_set_ready s h r : set_ready (P s) h r = (P (fst (set_ready s h r)), snd (set_ready s h r)) /\ plains (snd (set_ready s h r)).
Proof.
  unfold set_ready. change (getc (P s) h) with (getc s h).
  destruct (rstate_eqb (ch_state (getc s h)) r); [split; reflexivity|]. split; [reflexivity|destruct r; reflexivity].
Qed.

Lemma put_add_buffered s h n : add_buffered (P s) h n = (P (fst (add_buffered s h n)), snd (add_buffered s h n)) /\ plains (snd (add_buffered s h n)).
Proof. unfold add_buffered. change (getc (P s) h) with (getc s h). split; [reflexivity|]. cbn [snd]. destruct (_ && _); reflexivity. Qed.

Lemma put_flush_loop : forall fuel s oracle,
  flush_loop fuel (P s) oracle = (P (fst (flush_loop fuel s oracle)), snd (flush_loop fuel s oracle)) /\
  plains (snd (flush_loop fuel s oracle)).
Proof.
  induction fuel as [|f IH]; intros s oracle; [split; reflexivity|]. cbn [flush_loop].
  change (queue (P s)) with (queue s). destruct (queue s) as [|[[h pp] data] q']; [split; reflexivity|].
  change (set_queue (P s) q') with (P (set_queue s q')). set (s1 := set_queue s q').
  change (getc (P s1) h) with (getc s1 h). change (table (P s1)) with (table s1). change (dc_id (P s1)) with (dc_id s1).
  set (pr := match ch_id (getc s1 h) with
             | Some i => (s1, i)
             | None => (setc (set_table s1 (tset (table s1) (pick_id (S (length (table s1))) (table s1) (dc_id s1)) h)) h
                             (with_id (getc s1 h) (Some (pick_id (S (length (table s1))) (table s1) (dc_id s1)))),
                        pick_id (S (length (table s1))) (table s1) (dc_id s1))
             end).
  assert (E2 : match ch_id (getc s1 h) with
               | Some i => (P s1, i)
               | None => (setc (set_table (P s1) (tset (table s1) (pick_id (S (length (table s1))) (table s1) (dc_id s1)) h)) h
                               (with_id (getc s1 h) (Some (pick_id (S (length (table s1))) (table s1) (dc_id s1)))),
                          pick_id (S (length (table s1))) (table s1) (dc_id s1))
               end = (P (fst pr), snd pr)).
  { unfold pr. destruct (ch_id (getc s1 h)); reflexivity. }
  rewrite E2. rewrite (surjective_pairing pr). cbv iota beta. cbn [fst snd].
  set (s2 := fst pr). set (sidv := snd pr). change (getc (P s2) h) with (getc s2 h).
  destruct (Z.eqb pp WEBRTC_DCEP).
  - destruct (match oracle with b0 :: _ => b0 | [] => false end); [split; reflexivity|].
    destruct (IH s2 (tl oracle)) as [E P2]. rewrite E. rewrite (surjective_pairing (flush_loop f s2 (tl oracle))). cbn [fst snd].
    split; [reflexivity|]. apply plains_app; [reflexivity|exact P2].
  - destruct (put_add_buffered s2 h (- len data)) as [E3 P3]. rewrite E3.
    rewrite (surjective_pairing (add_buffered s2 h (- len data))). cbv iota beta. cbn [fst snd].
    set (s3 := fst (add_buffered s2 h (- len data))).
    destruct (match oracle with b0 :: _ => b0 | [] => false end); [split; [reflexivity|exact P3]|].
    destruct (IH s3 (tl oracle)) as [E P4]. rewrite E. rewrite (surjective_pairing (flush_loop f s3 (tl oracle))). cbn [fst snd].
    split; [reflexivity|]. apply plains_app; [exact P3|exact P4].
Qed.

Lemma put_flush s oracle : flush (P s) oracle = (P (fst (flush s oracle)), snd (flush s oracle)) /\ plains (snd (flush s oracle)).
Proof.
  unfold flush. change (established (P s)) with (established s). change (queue (P s)) with (queue s).
  destruct (established s && negb match oracle with b0 :: _ => b0 | [] => false end); [apply put_flush_loop|split; reflexivity].
Qed.

Lemma put_create s neg id ordered maxrt maxlt label proto :
  create (P s) neg id ordered maxrt maxlt label proto =
  (P (fst (create s neg id ordered maxrt maxlt label proto)), snd (create s neg id ordered maxrt maxlt label proto)) /\
  plains (snd (create s neg id ordered maxrt maxlt label proto)).
Proof.
  unfold create. change (table (P s)) with (table s).
  destruct (match id with Some i => match tget (table s) i with Some _ => true | None => false end | None => false end); [split; reflexivity|].
  unfold add_chan. cbv iota beta. change (chans (P s)) with (chans s).
  set (c := mkChan id Connecting 0 0 neg ordered maxrt maxlt label proto).
  set (s1 := mkSt (established s) (dc_id s) (chans s ++ [c]) (table s) (queue s) (rq_queue s) (rq_request s) (rq_req_seq s) (rq_resp_seq s)).
  change (mkSt (established (P s)) (dc_id (P s)) (chans s ++ [c]) (table (P s)) (queue (P s)) (rq_queue (P s)) (rq_request (P s)) (rq_req_seq (P s)) (rq_resp_seq (P s)))
    with (P s1).
  set (s2 := match id with Some i => set_table s1 (tset (table s1) i (length (chans s))) | None => s1 end).
  assert (E2 : match id with Some i => set_table (P s1) (tset (table (P s1)) i (length (chans s))) | None => P s1 end = P s2)
    by (unfold s2; destruct id; reflexivity).
  rewrite E2. destruct neg.
  - change (established (P s2)) with (established s2). destruct (established s2); [apply put_set_ready|split; reflexivity].
  - split; reflexivity.
Qed.

Lemma put_app_send s h pp data : app_send (P s) h pp data = (P (fst (app_send s h pp data)), snd (app_send s h pp data)) /\ plains (snd (app_send s h pp data)).
Proof.
  unfold app_send. change (getc (P s) h) with (getc s h).
  destruct (negb (rstate_eqb (ch_state (getc s h)) Open)); [split; reflexivity|].
  destruct (put_add_buffered s h (len data)) as [E Pl]. rewrite E. rewrite (surjective_pairing (add_buffered s h (len data))).
  cbv iota beta. cbn [fst snd]. split; [reflexivity|]. apply plains_app; [exact Pl|reflexivity].
Qed.

Lemma put_chan_closed s i : chan_closed (P s) i = (P (fst (chan_closed s i)), snd (chan_closed s i)) /\ plains (snd (chan_closed s i)).
Proof.
  unfold chan_closed. change (table (P s)) with (table s). destruct (tget (table s) i) as [h|]; [|split; reflexivity].
  cbv zeta. change (set_table (P s) (tdel (table s) i)) with (P (set_table s (tdel (table s) i))).
  set (s1 := set_table s (tdel (table s) i)). change (queue (P s1)) with (queue s1).
  change (set_queue (P s1) (filter (fun it => negb (Nat.eqb (fst (fst it)) h)) (queue s1)))
    with (P (set_queue s1 (filter (fun it => negb (Nat.eqb (fst (fst it)) h)) (queue s1)))).
  apply put_set_ready.
Qed.

Lemma put_close_local s h id : close_local (P s) h id = (P (fst (close_local s h id)), snd (close_local s h id)) /\ plains (snd (close_local s h id)).
Proof.
  unfold close_local. change (queue (P s)) with (queue s).
  set (s2 := set_queue s (filter (fun it => negb (Nat.eqb (fst (fst it)) h)) (queue s))).
  change (set_queue (P s) (filter (fun it => negb (Nat.eqb (fst (fst it)) h)) (queue s))) with (P s2).
  destruct id as [i|]; [|apply put_set_ready].
  change (table (P s2)) with (table s2). destruct (tget (table s2) i); [|split; reflexivity].
  change (set_table (P s2) (tdel (table s2) i)) with (P (set_table s2 (tdel (table s2) i))). apply put_set_ready.
Qed.

Lemma put_close_body s h hs : close_body (P s) h hs = (P (fst (close_body s h hs)), snd (close_body s h hs)) /\ plains (snd (close_body s h hs)).
Proof.
  unfold close_body. change (getc (P s) h) with (getc s h).
  destruct (put_set_ready s h Closing) as [E Pl]. rewrite E. rewrite (surjective_pairing (set_ready s h Closing)).
  cbv iota beta. cbn [fst snd]. set (s1 := fst (set_ready s h Closing)) in *. set (e1 := snd (set_ready s h Closing)) in *.
  assert (Ee : established (P s1) = established s1) by reflexivity. rewrite Ee. clear Ee.
  destruct (established s1 || hs); destruct (ch_id (getc s h)) as [i|].
  - cbn [fst snd]. split; [reflexivity|]. apply plains_app; [exact Pl|]. cbn [rq_queue]. destruct (Nat.eqb _ 1); reflexivity.
  - destruct (put_close_local s1 h None) as [E2 P2]. rewrite E2. rewrite (surjective_pairing (close_local s1 h None)). cbn [fst snd].
    split; [reflexivity|now apply plains_app].
  - destruct (put_close_local s1 h (Some i)) as [E2 P2]. rewrite E2. rewrite (surjective_pairing (close_local s1 h (Some i))). cbn [fst snd].
    split; [reflexivity|now apply plains_app].
  - destruct (put_close_local s1 h None) as [E2 P2]. rewrite E2. rewrite (surjective_pairing (close_local s1 h None)). cbn [fst snd].
    split; [reflexivity|now apply plains_app].
Qed.

Lemma put_chan_close s h hs : chan_close (P s) h hs = (P (fst (chan_close s h hs)), snd (chan_close s h hs)) /\ plains (snd (chan_close s h hs)).
Proof.
  unfold chan_close. change (getc (P s) h) with (getc s h).
  destruct (ch_state (getc s h)); try (split; reflexivity); apply put_close_body.
Qed.

Lemma put_reset_streams : forall strs s, reset_streams (P s) strs = (P (fst (reset_streams s strs)), snd (reset_streams s strs)) /\ plains (snd (reset_streams s strs)).
Proof.
  induction strs as [|i strs IH]; intros s; [split; reflexivity|]. cbn [reset_streams]. change (table (P s)) with (table s).
  set (p := match tget (table s) i with Some h => chan_close s h false | None => (s, []) end).
  assert (E : match tget (table s) i with Some h => chan_close (P s) h false | None => (P s, []) end = (P (fst p), snd p) /\ plains (snd p)).
  { unfold p. destruct (tget (table s) i) as [h|]; [apply put_chan_close|split; reflexivity]. }
  destruct E as [E Pl]. rewrite E. rewrite (surjective_pairing p). cbv iota beta. cbn [fst snd].
  destruct (IH (fst p)) as [E2 P2]. rewrite E2. rewrite (surjective_pairing (reset_streams (fst p) strs)). cbn [fst snd].
  split; [reflexivity|now apply plains_app].
Qed.

Lemma put_closed_streams : forall strs s, closed_streams (P s) strs = (P (fst (closed_streams s strs)), snd (closed_streams s strs)) /\ plains (snd (closed_streams s strs)).
Proof.
  induction strs as [|i strs IH]; intros s; [split; reflexivity|]. cbn [closed_streams].
  destruct (put_chan_closed s i) as [E Pl]. rewrite E. rewrite (surjective_pairing (chan_closed s i)). cbv iota beta. cbn [fst snd].
  destruct (IH (fst (chan_closed s i))) as [E2 P2]. rewrite E2. rewrite (surjective_pairing (closed_streams (fst (chan_closed s i)) strs)). cbn [fst snd].
  split; [reflexivity|now apply plains_app].
Qed.

Lemma put_open_negotiated : forall t s, open_negotiated (P s) t = (P (fst (open_negotiated s t)), snd (open_negotiated s t)) /\ plains (snd (open_negotiated s t)).
Proof.
  induction t as [|[k h] t IH]; intros s; [split; reflexivity|]. cbn [open_negotiated]. change (getc (P s) h) with (getc s h).
  set (p := if ch_neg (getc s h) && rstate_eqb (ch_state (getc s h)) Connecting then set_ready s h Open else (s, [])).
  assert (E : (if ch_neg (getc s h) && rstate_eqb (ch_state (getc s h)) Connecting then set_ready (P s) h Open else (P s, [])) = (P (fst p), snd p) /\ plains (snd p)).
  { unfold p. destruct (_ && _); [apply put_set_ready|split; reflexivity]. }
  destruct E as [E Pl]. rewrite E. rewrite (surjective_pairing p). cbv iota beta. cbn [fst snd].
  destruct (IH (fst p)) as [E2 P2]. rewrite E2. rewrite (surjective_pairing (open_negotiated (fst p) t)). cbn [fst snd].
  split; [reflexivity|now apply plains_app].
Qed.

Lemma put_set_established s : set_established (P s) = (P (fst (set_established s)), snd (set_established s)) /\ plains (snd (set_established s)).
Proof.
  unfold set_established.
  set (s0 := mkSt true (dc_id s) (chans s) (table s) (queue s) (rq_queue s) (rq_request s) (rq_req_seq s) (rq_resp_seq s)).
  change (mkSt true (dc_id (P s)) (chans (P s)) (table (P s)) (queue (P s)) (rq_queue (P s)) (rq_request (P s)) (rq_req_seq (P s)) (rq_resp_seq (P s))) with (P s0).
  change (table (P s0)) with (table s0).
  destruct (put_open_negotiated (table s0) s0) as [E Pl]. rewrite E. rewrite (surjective_pairing (open_negotiated s0 (table s0))).
  cbv iota beta. cbn [fst snd]. change (rq_queue (P (fst (open_negotiated s0 (table s0))))) with (rq_queue (fst (open_negotiated s0 (table s0)))).
  split; [reflexivity|]. apply plains_app; [exact Pl|]. destruct (rq_queue (fst _)); reflexivity.
Qed.

Lemma put_close_queued : forall q s, close_queued (P s) q = (P (fst (close_queued s q)), snd (close_queued s q)) /\ plains (snd (close_queued s q)).
Proof.
  induction q as [|[[h pp] data] q IH]; intros s; [split; reflexivity|]. cbn [close_queued].
  destruct (put_set_ready s h Closed) as [E Pl]. rewrite E. rewrite (surjective_pairing (set_ready s h Closed)). cbv iota beta. cbn [fst snd].
  destruct (IH (fst (set_ready s h Closed))) as [E2 P2]. rewrite E2. rewrite (surjective_pairing (close_queued (fst (set_ready s h Closed)) q)). cbn [fst snd].
  split; [reflexivity|now apply plains_app].
Qed.

Lemma put_set_closed s : set_closed (P s) = (P (fst (set_closed s)), snd (set_closed s)) /\ plains (snd (set_closed s)).
Proof.
  unfold set_closed.
  set (s0 := mkSt false (dc_id s) (chans s) (table s) (queue s) (rq_queue s) (rq_request s) (rq_req_seq s) (rq_resp_seq s)).
  change (mkSt false (dc_id (P s)) (chans (P s)) (table (P s)) (queue (P s)) (rq_queue (P s)) (rq_request (P s)) (rq_req_seq (P s)) (rq_resp_seq (P s))) with (P s0).
  change (table (P s0)) with (table s0).
  destruct (put_closed_streams (map fst (table s0)) s0) as [E Pl]. rewrite E. rewrite (surjective_pairing (closed_streams s0 (map fst (table s0)))).
  cbv iota beta. cbn [fst snd]. set (s1 := fst (closed_streams s0 (map fst (table s0)))).
  assert (Eq : queue (P s1) = queue s1) by reflexivity. rewrite Eq. clear Eq.
  destruct (put_close_queued (queue s1) s1) as [E2 P2]. rewrite E2. rewrite (surjective_pairing (close_queued s1 (queue s1))). cbn [fst snd].
  split; [reflexivity|now apply plains_app].
Qed.

Lemma put_recv_dcep s sidv data ok oracle :
  recv_dcep (P s) sidv data ok oracle = (P (fst (recv_dcep s sidv data ok oracle)), snd (recv_dcep s sidv data ok oracle)) /\
  plains (snd (recv_dcep s sidv data ok oracle)).
Proof.
  unfold recv_dcep. destruct data as [|m data']; [split; reflexivity|].
  assert (Et : table (P s) = table s) by reflexivity. rewrite Et. clear Et.
  destruct (Z.eqb m DATA_CHANNEL_OPEN && (12 <=? len (m :: data'))).
  - destruct (tget (table s) sidv); [split; reflexivity|].
    destruct (dcep_parse_open (m :: data')) as [p|]; [|split; reflexivity].
    destruct ok; cbn [negb]; [|split; reflexivity].
    set (c := mkChan (Some sidv) Connecting 0 0 false (op_ordered p) (op_maxrt p) (op_maxlt p) (op_label p) (op_proto p)).
    unfold add_chan. cbv iota beta.
    set (s1 := mkSt (established s) (dc_id s) (chans s ++ [c]) (table s) (queue s) (rq_queue s) (rq_request s) (rq_req_seq s) (rq_resp_seq s)).
    change (mkSt (established (P s)) (dc_id (P s)) (chans (P s) ++ [c]) (table (P s)) (queue (P s)) (rq_queue (P s)) (rq_request (P s)) (rq_req_seq (P s)) (rq_resp_seq (P s)))
      with (P s1).
    assert (El : length (chans (P s)) = length (chans s)) by reflexivity. rewrite El. clear El.
    destruct (put_set_ready s1 (length (chans s)) Open) as [E Pl]. rewrite E. rewrite (surjective_pairing (set_ready s1 (length (chans s)) Open)).
    cbv iota beta. cbn [fst snd]. set (s2 := fst (set_ready s1 (length (chans s)) Open)).
    set (s4 := set_queue (set_table s2 (tset (table s2) sidv (length (chans s))))
                         (queue (set_table s2 (tset (table s2) sidv (length (chans s)))) ++ [(length (chans s), WEBRTC_DCEP, be8 DATA_CHANNEL_ACK)])).
    change (set_queue (set_table (P s2) (tset (table (P s2)) sidv (length (chans s))))
              (queue (set_table (P s2) (tset (table (P s2)) sidv (length (chans s)))) ++ [(length (chans s), WEBRTC_DCEP, be8 DATA_CHANNEL_ACK)]))
      with (P s4).
    destruct (put_flush s4 oracle) as [E2 P2]. rewrite E2. rewrite (surjective_pairing (flush s4 oracle)). cbn [fst snd].
    split; [reflexivity|]. apply plains_app; [exact Pl|]. apply plains_app; [exact P2|reflexivity].
  - destruct (Z.eqb m DATA_CHANNEL_ACK); [|split; reflexivity].
    destruct (tget (table s) sidv) as [h|]; [|split; reflexivity].
    assert (Eg : getc (P s) h = getc s h) by reflexivity. rewrite Eg. clear Eg.
    destruct (rstate_eqb (ch_state (getc s h)) Connecting); [apply put_set_ready|split; reflexivity].
Qed.

Lemma put_recv_user s sidv pp data ok :
  recv_user (P s) sidv pp data ok = (P (fst (recv_user s sidv pp data ok)), snd (recv_user s sidv pp data ok)) /\
  plains (snd (recv_user s sidv pp data ok)).
Proof.
  unfold recv_user. assert (Et : table (P s) = table s) by reflexivity. rewrite Et. clear Et.
  destruct (tget (table s) sidv); [|split; reflexivity].
  destruct (Z.eqb pp WEBRTC_STRING); [split; [reflexivity|destruct ok; reflexivity]|].
  destruct (Z.eqb pp WEBRTC_STRING_EMPTY); [split; reflexivity|].
  destruct (Z.eqb pp WEBRTC_BINARY); [split; reflexivity|].
  destruct (Z.eqb pp WEBRTC_BINARY_EMPTY); split; reflexivity.
Qed.
End Put.

(* ---------------------------------------------------------------- the shift *)
Definition r32 (x : Z) : Prop := 0 <= x < 4294967296.

Section Shift.
Variables k1 k2 : Z.
Definition sh1 (x : Z) : Z := (x + k1) mod 4294967296.
Definition sh2 (x : Z) : Z := (x + k2) mod 4294967296.

Definition shq (s : st) : st :=
  put s (option_map (fun p => (sh1 (fst p), snd p)) (rq_request s)) (sh1 (rq_req_seq s)) (sh2 (rq_resp_seq s)).
Definition she (e : event) : event :=
  match e with
  | EvReconfigRequest q l => EvReconfigRequest (sh1 q) l
  | EvReconfigResponse q => EvReconfigResponse (sh2 q)
  | e => e
  end.
Definition shi (i : input) : input :=
  match i with
  | IResetRequest q l => IResetRequest (sh2 q) l
  | IResetResponse q => IResetResponse (sh1 q)
  | i => i
  end.
Definition sok (s : st) : Prop :=
  r32 (rq_req_seq s) /\ match rq_request s with Some (q, _) => r32 q | None => True end.
(* a response's sequence number is a 32-bit wire field *)
Definition iok (i : input) : Prop := match i with IResetResponse q => r32 q | _ => True end.

Lemma plains_she l : plains l -> map she l = l.
Proof.
  induction l as [|e l IH]; intros H; [reflexivity|]. unfold plains in H. cbn [forallb] in H.
  apply andb_true_iff in H as [He Hl]. cbn [map]. rewrite (IH Hl). destruct e; try reflexivity; discriminate.
Qed.

Lemma put_own s : put s (rq_request s) (rq_req_seq s) (rq_resp_seq s) = s.
Proof. destruct s; reflexivity. Qed.

Definition obl (f : st -> st * list event) : Prop :=
  forall rq a b s, f (put s rq a b) = (put (fst (f s)) rq a b, snd (f s)) /\ plains (snd (f s)).

Lemma obl_shift f : obl f -> forall s,
  f (shq s) = (shq (fst (f s)), map she (snd (f s))) /\ (sok s -> sok (fst (f s))).
Proof.
  intros H s. destruct (H (rq_request s) (rq_req_seq s) (rq_resp_seq s) s) as [E0 Pl]. rewrite put_own in E0.
  assert (F : rq_request (fst (f s)) = rq_request s /\ rq_req_seq (fst (f s)) = rq_req_seq s /\ rq_resp_seq (fst (f s)) = rq_resp_seq s).
  { rewrite E0 at 1 2 3. cbn [fst]. repeat split. }
  destruct F as (F1 & F2 & F3). split.
  - unfold shq at 1. rewrite (proj1 (H _ _ _ s)). rewrite (plains_she _ Pl). unfold shq. now rewrite F1, F2, F3.
  - unfold sok. now rewrite F1, F2.
Qed.

Lemma sh1_plus x : tsn_plus_one (sh1 x) = sh1 (tsn_plus_one x).
Proof. unfold tsn_plus_one, sh1, SCTP_TSN_MODULO. lia. Qed.
Lemma sh1_eqb x y : r32 x -> r32 y -> (sh1 x =? sh1 y) = (x =? y).
Proof. unfold r32, sh1. intros. apply eq_true_iff_eq. rewrite !Z.eqb_eq. lia. Qed.
Lemma tsn_plus_one_r32 x : r32 (tsn_plus_one x).
Proof. unfold tsn_plus_one, r32, SCTP_TSN_MODULO. lia. Qed.

Lemma transmit_reconfig_sh s :
  transmit_reconfig (shq s) = (shq (fst (transmit_reconfig s)), map she (snd (transmit_reconfig s))) /\
  (sok s -> sok (fst (transmit_reconfig s))).
Proof.
  unfold transmit_reconfig.
  change (rq_request (shq s)) with (option_map (fun p => (sh1 (fst p), snd p)) (rq_request s)).
  change (established (shq s)) with (established s). change (rq_queue (shq s)) with (rq_queue s).
  destruct (rq_request s) as [[q l]|] eqn:Er; cbn [option_map].
  - cbn [fst snd map]. split; [reflexivity|auto].
  - destruct (established s && negb (Nat.eqb (length (rq_queue s)) 0)).
    + cbn [fst snd map she]. split.
      * unfold shq, put. cbn [rq_request established rq_queue rq_req_seq rq_resp_seq dc_id chans table queue option_map fst snd].
        now rewrite sh1_plus.
      * intros [A B]. unfold sok. cbn [rq_req_seq rq_request]. split; [apply tsn_plus_one_r32|exact A].
    + cbn [fst snd map]. split; [reflexivity|auto].
Qed.

Lemma shq_put s rq a b : shq (put s rq a b) = put s (option_map (fun p => (sh1 (fst p), snd p)) rq) (sh1 a) (sh2 b).
Proof. reflexivity. Qed.

Lemma recv_reset_request_sh s q strs :
  recv_reset_request (shq s) (sh2 q) strs = (shq (fst (recv_reset_request s q strs)), map she (snd (recv_reset_request s q strs))) /\
  (sok s -> sok (fst (recv_reset_request s q strs))).
Proof.
  unfold recv_reset_request.
  destruct (obl_shift (fun s => reset_streams s strs) (fun rq a b s => put_reset_streams rq a b strs s) s) as [E O].
  rewrite E. rewrite (surjective_pairing (reset_streams s strs)). cbv iota beta. cbn [fst snd].
  set (s1 := fst (reset_streams s strs)) in *. split.
  - rewrite map_app. cbn [map she]. reflexivity.
  - intros H. specialize (O H). unfold sok in *. cbn [rq_req_seq rq_request]. exact O.
Qed.

Lemma recv_reset_response_sh s q : sok s -> r32 q ->
  recv_reset_response (shq s) (sh1 q) = (shq (fst (recv_reset_response s q)), map she (snd (recv_reset_response s q))) /\
  sok (fst (recv_reset_response s q)).
Proof.
  intros Hs Hq. unfold recv_reset_response.
  change (rq_request (shq s)) with (option_map (fun p => (sh1 (fst p), snd p)) (rq_request s)).
  destruct (rq_request s) as [[rs strs]|] eqn:Er; cbn [option_map fst snd].
  - assert (Hrs : r32 rs) by (destruct Hs as [_ B]; rewrite Er in B; exact B).
    rewrite sh1_eqb by assumption. destruct (q =? rs).
    + destruct (obl_shift (fun s => closed_streams s strs) (fun rq a b s => put_closed_streams rq a b strs s) s) as [E O].
      rewrite E. rewrite (surjective_pairing (closed_streams s strs)). cbv iota beta. cbn [fst snd].
      set (s1 := fst (closed_streams s strs)) in *.
      set (s2 := mkSt (established s1) (dc_id s1) (chans s1) (table s1) (queue s1) (rq_queue s1) None (rq_req_seq s1) (rq_resp_seq s1)).
      change (mkSt (established (shq s1)) (dc_id (shq s1)) (chans (shq s1)) (table (shq s1)) (queue (shq s1)) (rq_queue (shq s1)) None
                   (rq_req_seq (shq s1)) (rq_resp_seq (shq s1))) with (shq s2).
      assert (Hs2 : sok s2). { destruct (O Hs) as [A _]. split; [exact A|exact I]. }
      destruct (transmit_reconfig_sh s2) as [E3 O3]. rewrite E3. rewrite (surjective_pairing (transmit_reconfig s2)). cbn [fst snd].
      split; [|exact (O3 Hs2)]. now rewrite map_app.
    + cbn [fst snd map]. split; [reflexivity|exact Hs].
  - cbn [fst snd map]. split; [reflexivity|exact Hs].
Qed.

Lemma obl_guard (c : st -> bool) (f : st -> st * list event) :
  (forall rq a b s, c (put s rq a b) = c s) -> obl f -> obl (fun s => if c s then f s else (s, [])).
Proof.
  intros Hc Hf rq a b s. rewrite Hc. destruct (c s); [apply Hf|split; reflexivity].
Qed.

Theorem step_shift s i : sok s -> iok i ->
  step (shq s) (shi i) = (shq (fst (step s i)), map she (snd (step s i))) /\ sok (fst (step s i)).
Proof.
  intros Hs Hi.
  assert (G : forall f, obl f -> f (shq s) = (shq (fst (f s)), map she (snd (f s))) /\ sok (fst (f s))).
  { intros f Hf. destruct (obl_shift f Hf s) as [E O]. split; [exact E|exact (O Hs)]. }
  destruct i; cbn [step shi iok] in *.
  - apply (G (fun s => create s neg id ordered maxrt maxlt label proto)). intros rq a b s'. apply put_create.
  - apply (G (fun s => if Nat.ltb h (length (chans s)) then app_send s h pp data else (s, []))).
    apply (obl_guard (fun s => Nat.ltb h (length (chans s)))); [reflexivity|]. intros rq a b s'. apply put_app_send.
  - apply (G (fun s => if Nat.ltb h (length (chans s)) then chan_close s h hs else (s, []))).
    apply (obl_guard (fun s => Nat.ltb h (length (chans s)))); [reflexivity|]. intros rq a b s'. apply put_chan_close.
  - apply (G (fun s => if Nat.ltb h (length (chans s)) then (setc s h (with_thr (getc s h) v), []) else (s, []))).
    apply (obl_guard (fun s => Nat.ltb h (length (chans s)))); [reflexivity|]. intros rq a b s'. split; reflexivity.
  - apply (G (fun s => flush s oracle)). intros rq a b s'. apply put_flush.
  - destruct (transmit_reconfig_sh s) as [E O]. split; [exact E|exact (O Hs)].
  - apply (G set_established). intros rq a b s'. apply put_set_established.
  - apply (G set_closed). intros rq a b s'. apply put_set_closed.
  - apply (G (fun s => if Z.eqb pp WEBRTC_DCEP then recv_dcep s sid data text_ok oracle else recv_user s sid pp data text_ok)).
    intros rq a b s'. destruct (Z.eqb pp WEBRTC_DCEP); [apply put_recv_dcep|apply put_recv_user].
  - change (established (shq s)) with (established s). destruct (established s).
    + destruct (recv_reset_request_sh s seq strs) as [E O]. split; [exact E|exact (O Hs)].
    + cbn [fst snd map]. split; [reflexivity|exact Hs].
  - change (established (shq s)) with (established s). destruct (established s).
    + apply recv_reset_response_sh; assumption.
    + cbn [fst snd map]. split; [reflexivity|exact Hs].
  - cbn [fst snd map]. split; [reflexivity|]. exact Hs.
Qed.

Theorem run_shift : forall is s, sok s -> Forall iok is ->
  run (shq s) (map shi is) = (shq (fst (run s is)), map (map she) (snd (run s is))).
Proof.
  induction is as [|i is IH]; intros s Hs Hi; [reflexivity|]. inversion Hi as [|? ? H1 H2]; subst.
  cbn [map run]. destruct (step_shift s i Hs H1) as [E O]. rewrite E.
  rewrite (surjective_pairing (step s i)). cbv iota beta. cbn [fst snd].
  rewrite (IH _ O H2). rewrite (surjective_pairing (run (fst (step s i)) is)). reflexivity.
Qed.
End Shift.

(* a fresh endpoint whose first request will be numbered q0, whose peer's last request was p0 *)
Definition init_at (role q0 p0 : Z) : st := put (init role q0) None q0 p0.

Theorem reconfig_seq_origin_independent k1 k2 role q0 p0 is : r32 q0 -> Forall iok is ->
  run (init_at role (sh1 k1 q0) (sh2 k2 p0)) (map (shi k1 k2) is) =
  (shq k1 k2 (fst (run (init_at role q0 p0) is)), map (map (she k1 k2)) (snd (run (init_at role q0 p0) is))).
Proof.
  intros Hq Hi. change (init_at role (sh1 k1 q0) (sh2 k2 p0)) with (shq k1 k2 (init_at role q0 p0)).
  apply run_shift; [split; [exact Hq|exact I]|exact Hi].
Qed.
