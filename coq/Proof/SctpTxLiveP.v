(* C02: no reachable sender state is wedged.  The TSNs of sent-queue ++ outbound-queue
   are always the consecutive run after max(last SACKed, advanced ack point); an
   acceptable SACK for the last sent TSN empties the sent queue and the following
   _transmit moves on; so from EVERY reachable state a fault-free continuation reaches
   quiescence. *)
From Coq Require Import ZArith List Bool Lia ZifyBool Arith.
From AV Require Import Lib.Bytes Gen.Utils Gen.SctpConst Model.SctpTx Proof.SctpTxP Proof.SctpDupP.
Import ListNotations.
Local Open Scope Z_scope.

Ltac Zify.zify_post_hook ::= Z.to_euclidean_division_equations.

Definition tsns (l : list sc) : list Z := map c_tsn l.
Definition qs (s : tx) : list sc := sentq s ++ outq s.

Lemma tsns_app a b : tsns (a ++ b) = tsns a ++ tsns b. Proof. apply map_app. Qed.
Lemma tsns_rev a : tsns (rev a) = rev (tsns a). Proof. apply map_rev. Qed.

(* ---------------------------------------------------------------- flag-only functions keep the TSN sequence *)
Lemma abandon_chunk_tsn fl c sib : c_tsn (snd (abandon_chunk fl c sib)) = c_tsn c.
Proof. reflexivity. Qed.

Lemma mark_back_tsns : forall pre fl, tsns (snd (mark_back fl pre)) = tsns pre.
Proof.
  induction pre as [|c pre IH]; intros fl; cbn [mark_back]; [reflexivity|].
  destruct (abandon_chunk fl c true) as [fl1 c1] eqn:E.
  assert (Ec : c_tsn c1 = c_tsn c) by (rewrite <- (abandon_chunk_tsn fl c true), E; reflexivity).
  destruct (c_first c); cbn [snd tsns map]; [now rewrite Ec|].
  specialize (IH fl1). destruct (mark_back fl1 pre) as [fl2 pre2]. cbn [snd tsns map] in *. now rewrite Ec, IH.
Qed.

Lemma mark_fwd_tsns : forall post fl, tsns (snd (fst (mark_fwd fl post))) = tsns post.
Proof.
  induction post as [|c post IH]; intros fl; cbn [mark_fwd]; [reflexivity|].
  destruct (abandon_chunk fl c true) as [fl1 c1] eqn:E.
  assert (Ec : c_tsn c1 = c_tsn c) by (rewrite <- (abandon_chunk_tsn fl c true), E; reflexivity).
  destruct (c_last c); cbn [fst snd tsns map]; [now rewrite Ec|].
  specialize (IH fl1). destruct (mark_fwd fl1 post) as [[fl2 post2] found]. cbn [fst snd tsns map] in *. now rewrite Ec, IH.
Qed.

Lemma pull_unsent_tsns : forall oq, tsns (fst (pull_unsent oq)) ++ tsns (snd (pull_unsent oq)) = tsns oq.
Proof.
  induction oq as [|c oq IH]; cbn [pull_unsent]; [reflexivity|].
  destruct (c_last c); cbn [fst snd tsns map app]; [reflexivity|].
  destruct (pull_unsent oq) as [mv rest]. cbn [fst snd tsns map app] in *. now rewrite IH.
Qed.

Lemma maybe_abandon_tsns fl pre cur post oq now :
  let '(ab, fl', pre', cur', post', oq') := maybe_abandon fl pre cur post oq now in
  tsns pre' = tsns pre /\ c_tsn cur' = c_tsn cur /\ tsns post' ++ tsns oq' = tsns post ++ tsns oq.
Proof.
  unfold maybe_abandon. destruct (c_abandoned cur); [auto|]. destruct (negb (should_abandon cur now)); [auto|].
  cbn [abandon_chunk].
  set (cur1 := set_flags cur (c_acked cur) true false (c_misses cur) (c_sent_count cur)).
  set (fl0 := if false && _ && _ && _ then _ else fl).
  set (p1 := if c_first cur then (fl0, pre) else mark_back fl0 pre).
  assert (Hp1 : tsns (snd p1) = tsns pre) by (unfold p1; destruct (c_first cur); [reflexivity|apply mark_back_tsns]).
  destruct p1 as [fl1 pre1]. cbn [snd] in Hp1.
  destruct (c_last cur); [auto|].
  pose proof (mark_fwd_tsns post fl1) as Hf. destruct (mark_fwd fl1 post) as [[fl2 post2] found]. cbn [fst snd] in Hf.
  destruct found; [rewrite Hf; auto|].
  pose proof (pull_unsent_tsns oq) as Hu. destruct (pull_unsent oq) as [mv rest]. cbn [fst snd] in Hu.
  split; [exact Hp1|]. split; [reflexivity|]. rewrite tsns_app, <- app_assoc, Hu, Hf. reflexivity.
Qed.

Lemma set_flags_tsn c a b r m n : c_tsn (set_flags c a b r m n) = c_tsn c. Proof. reflexivity. Qed.

Lemma strike_tsns : forall n pre post oq cum last_pos htna gaps fl loss now,
  let '(sq', oq', _, _) := strike n pre post oq cum last_pos htna gaps fl loss now in
  tsns sq' ++ tsns oq' = tsns (rev pre ++ post) ++ tsns oq.
Proof.
  induction n as [|n IH]; intros pre post oq cum last_pos htna gaps fl loss now; cbn [strike]; [reflexivity|].
  destruct post as [|c post]; [reflexivity|].
  destruct (uint32_gt (c_tsn c) htna); [reflexivity|].
  destruct (negb (in_gaps gaps last_pos (tsn_off cum (c_tsn c)))).
  - destruct (c_misses c + 1 =? 3).
    + set (c0 := set_flags c (c_acked c) (c_abandoned c) (c_retx c) 0 (c_sent_count c)).
      pose proof (maybe_abandon_tsns fl pre c0 post oq now) as Hm.
      destruct (maybe_abandon fl pre c0 post oq now) as [[[[[ab fl1] pre1] c1] post1] oq1]. destruct Hm as (H1 & H2 & H3).
      set (c2 := set_flags c1 false (c_abandoned c1) (if ab then c_retx c1 else true) (c_misses c1) (c_sent_count c1)).
      specialize (IH (c2 :: pre1) post1 oq1 cum last_pos htna gaps (dec fl1 c2) true now).
      destruct (strike n (c2 :: pre1) post1 oq1 cum last_pos htna gaps (dec fl1 c2) true now) as [[[sq' oq'] fl'] loss'].
      assert (E2 : c_tsn c2 = c_tsn c) by (unfold c2; rewrite set_flags_tsn, H2; reflexivity).
      rewrite IH. cbn [rev]. rewrite !tsns_app, !tsns_rev, H1. cbn [tsns map]. rewrite E2.
      rewrite <- !app_assoc. cbn [app]. f_equal. f_equal. exact H3.
    + set (c1 := set_flags c (c_acked c) (c_abandoned c) (c_retx c) (c_misses c + 1) (c_sent_count c)).
      specialize (IH (c1 :: pre) post oq cum last_pos htna gaps fl loss now).
      destruct (strike n (c1 :: pre) post oq cum last_pos htna gaps fl loss now) as [[[sq' oq'] fl'] loss'].
      rewrite IH. cbn [rev]. rewrite !tsns_app. cbn [tsns map]. rewrite <- !app_assoc. reflexivity.
  - specialize (IH (c :: pre) post oq cum last_pos htna gaps fl loss now).
    destruct (strike n (c :: pre) post oq cum last_pos htna gaps fl loss now) as [[[sq' oq'] fl'] loss'].
    rewrite IH. cbn [rev]. rewrite !tsns_app. cbn [tsns map]. rewrite <- !app_assoc. reflexivity.
Qed.

Lemma t3_mark_tsns : forall n pre post oq fl now,
  let '(sq', oq', _) := t3_mark n pre post oq fl now in
  tsns sq' ++ tsns oq' = tsns (rev pre ++ post) ++ tsns oq.
Proof.
  induction n as [|n IH]; intros pre post oq fl now; cbn [t3_mark]; [reflexivity|].
  destruct post as [|c post]; [reflexivity|].
  pose proof (maybe_abandon_tsns fl pre c post oq now) as Hm.
  destruct (maybe_abandon fl pre c post oq now) as [[[[[ab fl1] pre1] c1] post1] oq1]. destruct Hm as (H1 & H2 & H3).
  set (c2 := if ab then c1 else set_flags c1 (c_acked c1) (c_abandoned c1) true (c_misses c1) (c_sent_count c1)).
  assert (E2 : c_tsn c2 = c_tsn c) by (unfold c2; destruct ab; [exact H2|rewrite set_flags_tsn; exact H2]).
  specialize (IH (c2 :: pre1) post1 oq1 fl1 now).
  destruct (t3_mark n (c2 :: pre1) post1 oq1 fl1 now) as [[sq' oq'] fl'].
  rewrite IH. cbn [rev]. rewrite !tsns_app, !tsns_rev, H1. cbn [tsns map]. rewrite E2.
  rewrite <- !app_assoc. cbn [app]. f_equal. f_equal. exact H3.
Qed.

Lemma gap_ack_tsns : forall sq cum last_pos hs gaps fl db htna,
  tsns (fst (fst (fst (gap_ack sq cum last_pos hs gaps fl db htna)))) = tsns sq.
Proof.
  induction sq as [|c sq IH]; intros cum last_pos hs gaps fl db htna; cbn [gap_ack]; [reflexivity|].
  destruct (uint32_gt (c_tsn c) hs); [reflexivity|].
  destruct (in_gaps gaps last_pos (tsn_off cum (c_tsn c)) && negb (c_acked c)).
  - specialize (IH cum last_pos hs gaps (dec fl c) (db + c_book c) (c_tsn c)).
    destruct (gap_ack sq cum last_pos hs gaps (dec fl c) (db + c_book c) (c_tsn c)) as [[[sq2 fl2] db2] h2].
    cbn [fst tsns map] in *. now rewrite IH.
  - specialize (IH cum last_pos hs gaps fl db htna).
    destruct (gap_ack sq cum last_pos hs gaps fl db htna) as [[[sq2 fl2] db2] h2]. cbn [fst tsns map] in *. now rewrite IH.
Qed.

Lemma retx_loop_tsns : forall sq fl cw frt e t3r,
  let '(sq', _, _, _, _, _) := retx_loop sq fl cw frt e t3r in tsns sq' = tsns sq.
Proof.
  induction sq as [|c sq IH]; intros fl cw frt e t3r; cbn [retx_loop]; [reflexivity|].
  destruct (c_retx c).
  - destruct (negb frt && (cw <=? fl)); [reflexivity|].
    specialize (IH (fl + c_book c) cw false false (t3r || e)).
    destruct (retx_loop sq (fl + c_book c) cw false false (t3r || e)) as [[[[[sq2 a] b] c0] d] o]. unfold tsns in *. cbn [map] in *. now rewrite IH.
  - specialize (IH fl cw frt false t3r). destruct (retx_loop sq fl cw frt false t3r) as [[[[[sq2 a] b] c0] d] o].
    unfold tsns in *. cbn [map] in *. now rewrite IH.
Qed.

Lemma new_loop_tsns : forall oq fl cw,
  let '(mv, rest, _, _) := new_loop oq fl cw in tsns mv ++ tsns rest = tsns oq.
Proof.
  induction oq as [|c oq IH]; intros fl cw; cbn [new_loop]; [reflexivity|].
  destruct (fl <? cw); [|reflexivity].
  specialize (IH (fl + c_book c) cw). destruct (new_loop oq (fl + c_book c) cw) as [[[mv rest] fl2] o].
  unfold tsns in *. cbn [map app] in *. now rewrite IH.
Qed.

Lemma transmit_tsns s : tsns (qs (fst (transmit s))) = tsns (qs s).
Proof.
  unfold transmit, qs.
  destruct (match fwd_chunk s with Some (cum, strs) => ([OFwd cum strs], true) | None => ([], t3 s) end) as [fo t3a].
  set (cw := Z.min _ (cwnd s)).
  pose proof (retx_loop_tsns (sentq s) (flight s) cw (fr_transmit s) true false) as Hr.
  destruct (retx_loop (sentq s) (flight s) cw (fr_transmit s) true false) as [[[[[sq fl] frt] t3r] stop] o1].
  destruct stop; cbn [fst sentq outq].
  - rewrite !tsns_app, Hr. reflexivity.
  - pose proof (new_loop_tsns (outq s) fl cw) as Hn. destruct (new_loop (outq s) fl cw) as [[[mv rest] fl2] o2].
    cbn [fst sentq outq]. rewrite !tsns_app, Hr, <- app_assoc, Hn. reflexivity.
Qed.
