(* C02: no reachable sender state is wedged.  The TSNs of sent-queue ++ outbound-queue
   are always the consecutive run after max(last SACKed, advanced ack point); an
   acceptable SACK for the last sent TSN empties the sent queue and the following
   _transmit moves on; so from EVERY reachable state a fault-free continuation reaches
   quiescence. *)
From Coq Require Import ZArith List Bool Lia ZifyBool Arith.
From AV Require Import Lib.Bytes Gen.Utils Gen.SctpConst Model.SctpTx Proof.SctpTxP Proof.SctpDupP.
Import ListNotations.
Local Open Scope Z_scope.

Ltac Zify.zify_post_hook ::= Z.to_euclidean_division_equations.

Definition tsns (l : list sc) : list Z := map c_tsn l.
Definition qs (s : tx) : list sc := sentq s ++ outq s.

Lemma pair_eta_tx {B} (p : tx * B) : p = (fst p, snd p). Proof. now destruct p. Qed.
Lemma pair_eta_run {B} (p : tx * B) : p = (fst p, snd p). Proof. now destruct p. Qed.

Lemma tsns_app a b : tsns (a ++ b) = tsns a ++ tsns b. Proof. apply map_app. Qed.
Lemma tsns_rev a : tsns (rev a) = rev (tsns a). Proof. apply map_rev. Qed.
Lemma tsns_length a : length (tsns a) = length a. Proof. apply map_length. Qed.

(* ---------------------------------------------------------------- flag-only functions keep the TSN sequence *)
Lemma abandon_chunk_tsn fl c sib : c_tsn (snd (abandon_chunk fl c sib)) = c_tsn c.
Proof. reflexivity. Qed.

Lemma mark_back_tsns : forall pre fl, tsns (snd (mark_back fl pre)) = tsns pre.
Proof.
  induction pre as [|c pre IH]; intros fl; cbn [mark_back]; [reflexivity|].
  destruct (abandon_chunk fl c true) as [fl1 c1] eqn:E.
  assert (Ec : c_tsn c1 = c_tsn c) by (rewrite <- (abandon_chunk_tsn fl c true), E; reflexivity).
  destruct (c_first c); cbn [snd tsns map]; [now rewrite Ec|].
  specialize (IH fl1). destruct (mark_back fl1 pre) as [fl2 pre2]. cbn [snd tsns map] in *. now rewrite Ec, IH.
Qed.

Lemma mark_fwd_tsns : forall post fl, tsns (snd (fst (mark_fwd fl post))) = tsns post.
Proof.
  induction post as [|c post IH]; intros fl; cbn [mark_fwd]; [reflexivity|].
  destruct (abandon_chunk fl c true) as [fl1 c1] eqn:E.
  assert (Ec : c_tsn c1 = c_tsn c) by (rewrite <- (abandon_chunk_tsn fl c true), E; reflexivity).
  destruct (c_last c); cbn [fst snd tsns map]; [now rewrite Ec|].
  specialize (IH fl1). destruct (mark_fwd fl1 post) as [[fl2 post2] found]. cbn [fst snd tsns map] in *. now rewrite Ec, IH.
Qed.

Lemma pull_unsent_tsns : forall oq, tsns (fst (pull_unsent oq)) ++ tsns (snd (pull_unsent oq)) = tsns oq.
Proof.
  induction oq as [|c oq IH]; cbn [pull_unsent]; [reflexivity|].
  destruct (c_last c); cbn [fst snd tsns map app]; [reflexivity|].
  destruct (pull_unsent oq) as [mv rest]. cbn [fst snd tsns map app] in *. now rewrite IH.
Qed.

Lemma maybe_abandon_tsns fl pre cur post oq now :
  let '(ab, fl', pre', cur', post', oq') := maybe_abandon fl pre cur post oq now in
  tsns pre' = tsns pre /\ c_tsn cur' = c_tsn cur /\ tsns post' ++ tsns oq' = tsns post ++ tsns oq.
Proof.
  unfold maybe_abandon. destruct (c_abandoned cur); [auto|]. destruct (negb (should_abandon cur now)); [auto|].
  cbn [abandon_chunk].
  set (cur1 := set_flags cur (c_acked cur) true false (c_misses cur) (c_sent_count cur)).
  set (fl0 := if false && _ && _ && _ then _ else fl).
  set (p1 := if c_first cur then (fl0, pre) else mark_back fl0 pre).
  assert (Hp1 : tsns (snd p1) = tsns pre) by (unfold p1; destruct (c_first cur); [reflexivity|apply mark_back_tsns]).
  destruct p1 as [fl1 pre1]. cbn [snd] in Hp1.
  destruct (c_last cur); [auto|].
  pose proof (mark_fwd_tsns post fl1) as Hf. destruct (mark_fwd fl1 post) as [[fl2 post2] found]. cbn [fst snd] in Hf.
  destruct found; [rewrite Hf; auto|].
  pose proof (pull_unsent_tsns oq) as Hu. destruct (pull_unsent oq) as [mv rest]. cbn [fst snd] in Hu.
  split; [exact Hp1|]. split; [reflexivity|]. rewrite tsns_app, <- app_assoc, Hu, Hf. reflexivity.
Qed.

Lemma set_flags_tsn c a b r m n : c_tsn (set_flags c a b r m n) = c_tsn c. Proof. reflexivity. Qed.

Lemma strike_tsns : forall n pre post oq cum last_pos htna gaps fl loss now,
  let '(sq', oq', _, _) := strike n pre post oq cum last_pos htna gaps fl loss now in
  tsns sq' ++ tsns oq' = tsns (rev pre ++ post) ++ tsns oq.
Proof.
  induction n as [|n IH]; intros pre post oq cum last_pos htna gaps fl loss now; cbn [strike]; [reflexivity|].
  destruct post as [|c post]; [reflexivity|].
  destruct (uint32_gt (c_tsn c) htna); [reflexivity|].
  destruct (negb (in_gaps gaps last_pos (tsn_off cum (c_tsn c)))).
  - destruct (c_misses c + 1 =? 3).
    + set (c0 := set_flags c (c_acked c) (c_abandoned c) (c_retx c) 0 (c_sent_count c)).
      pose proof (maybe_abandon_tsns fl pre c0 post oq now) as Hm.
      destruct (maybe_abandon fl pre c0 post oq now) as [[[[[ab fl1] pre1] c1] post1] oq1]. destruct Hm as (H1 & H2 & H3).
      set (c2 := set_flags c1 false (c_abandoned c1) (if ab then c_retx c1 else true) (c_misses c1) (c_sent_count c1)).
      specialize (IH (c2 :: pre1) post1 oq1 cum last_pos htna gaps (dec fl1 c2) true now).
      destruct (strike n (c2 :: pre1) post1 oq1 cum last_pos htna gaps (dec fl1 c2) true now) as [[[sq' oq'] fl'] loss'].
      assert (E2 : c_tsn c2 = c_tsn c) by (unfold c2; rewrite set_flags_tsn, H2; reflexivity).
      rewrite IH. cbn [rev]. rewrite !tsns_app, !tsns_rev, H1. cbn [tsns map]. rewrite E2.
      rewrite <- !app_assoc. cbn [app]. f_equal. f_equal. exact H3.
    + set (c1 := set_flags c (c_acked c) (c_abandoned c) (c_retx c) (c_misses c + 1) (c_sent_count c)).
      specialize (IH (c1 :: pre) post oq cum last_pos htna gaps fl loss now).
      destruct (strike n (c1 :: pre) post oq cum last_pos htna gaps fl loss now) as [[[sq' oq'] fl'] loss'].
      rewrite IH. cbn [rev]. rewrite !tsns_app. cbn [tsns map]. rewrite <- !app_assoc. reflexivity.
  - specialize (IH (c :: pre) post oq cum last_pos htna gaps fl loss now).
    destruct (strike n (c :: pre) post oq cum last_pos htna gaps fl loss now) as [[[sq' oq'] fl'] loss'].
    rewrite IH. cbn [rev]. rewrite !tsns_app. cbn [tsns map]. rewrite <- !app_assoc. reflexivity.
Qed.

Lemma t3_mark_tsns : forall n pre post oq fl now,
  let '(sq', oq', _) := t3_mark n pre post oq fl now in
  tsns sq' ++ tsns oq' = tsns (rev pre ++ post) ++ tsns oq.
Proof.
  induction n as [|n IH]; intros pre post oq fl now; cbn [t3_mark]; [reflexivity|].
  destruct post as [|c post]; [reflexivity|].
  pose proof (maybe_abandon_tsns fl pre c post oq now) as Hm.
  destruct (maybe_abandon fl pre c post oq now) as [[[[[ab fl1] pre1] c1] post1] oq1]. destruct Hm as (H1 & H2 & H3).
  set (c2 := if ab then c1 else set_flags c1 (c_acked c1) (c_abandoned c1) true (c_misses c1) (c_sent_count c1)).
  assert (E2 : c_tsn c2 = c_tsn c) by (unfold c2; destruct ab; [exact H2|rewrite set_flags_tsn; exact H2]).
  specialize (IH (c2 :: pre1) post1 oq1 fl1 now).
  destruct (t3_mark n (c2 :: pre1) post1 oq1 fl1 now) as [[sq' oq'] fl'].
  rewrite IH. cbn [rev]. rewrite !tsns_app, !tsns_rev, H1. cbn [tsns map]. rewrite E2.
  rewrite <- !app_assoc. cbn [app]. f_equal. f_equal. exact H3.
Qed.

Lemma gap_ack_tsns : forall sq cum last_pos hs gaps fl db htna,
  tsns (fst (fst (fst (gap_ack sq cum last_pos hs gaps fl db htna)))) = tsns sq.
Proof.
  induction sq as [|c sq IH]; intros cum last_pos hs gaps fl db htna; cbn [gap_ack]; [reflexivity|].
  destruct (uint32_gt (c_tsn c) hs); [reflexivity|].
  destruct (in_gaps gaps last_pos (tsn_off cum (c_tsn c)) && negb (c_acked c)).
  - specialize (IH cum last_pos hs gaps (dec fl c) (db + c_book c) (c_tsn c)).
    destruct (gap_ack sq cum last_pos hs gaps (dec fl c) (db + c_book c) (c_tsn c)) as [[[sq2 fl2] db2] h2].
    cbn [fst tsns map] in *. now rewrite IH.
  - specialize (IH cum last_pos hs gaps fl db htna).
    destruct (gap_ack sq cum last_pos hs gaps fl db htna) as [[[sq2 fl2] db2] h2]. cbn [fst tsns map] in *. now rewrite IH.
Qed.

Lemma retx_loop_tsns : forall sq fl cw frt e t3r,
  let '(sq', _, _, _, _, _) := retx_loop sq fl cw frt e t3r in tsns sq' = tsns sq.
Proof.
  induction sq as [|c sq IH]; intros fl cw frt e t3r; cbn [retx_loop]; [reflexivity|].
  destruct (c_retx c).
  - destruct (negb frt && (cw <=? fl)); [reflexivity|].
    specialize (IH (fl + c_book c) cw false false (t3r || e)).
    destruct (retx_loop sq (fl + c_book c) cw false false (t3r || e)) as [[[[[sq2 a] b] c0] d] o]. unfold tsns in *. cbn [map] in *. now rewrite IH.
  - specialize (IH fl cw frt false t3r). destruct (retx_loop sq fl cw frt false t3r) as [[[[[sq2 a] b] c0] d] o].
    unfold tsns in *. cbn [map] in *. now rewrite IH.
Qed.

Lemma new_loop_tsns : forall oq fl cw,
  let '(mv, rest, _, _) := new_loop oq fl cw in tsns mv ++ tsns rest = tsns oq.
Proof.
  induction oq as [|c oq IH]; intros fl cw; cbn [new_loop]; [reflexivity|].
  destruct (fl <? cw); [|reflexivity].
  specialize (IH (fl + c_book c) cw). destruct (new_loop oq (fl + c_book c) cw) as [[[mv rest] fl2] o].
  unfold tsns in *. cbn [map app] in *. now rewrite IH.
Qed.

Lemma transmit_tsns s : tsns (qs (fst (transmit s))) = tsns (qs s).
Proof.
  unfold transmit, qs.
  destruct (match fwd_chunk s with Some (cum, strs) => ([OFwd cum strs], true) | None => ([], t3 s) end) as [fo t3a].
  set (cw := Z.min _ (cwnd s)).
  pose proof (retx_loop_tsns (sentq s) (flight s) cw (fr_transmit s) true false) as Hr.
  destruct (retx_loop (sentq s) (flight s) cw (fr_transmit s) true false) as [[[[[sq fl] frt] t3r] stop] o1].
  destruct stop; cbn [fst sentq outq].
  - rewrite !tsns_app, Hr. reflexivity.
  - pose proof (new_loop_tsns (outq s) fl cw) as Hn. destruct (new_loop (outq s) fl cw) as [[[mv rest] fl2] o2].
    cbn [fst sentq outq]. rewrite !tsns_app, Hr, <- app_assoc, Hn. reflexivity.
Qed.

(* ---------------------------------------------------------------- the TSN-order invariant *)
Section Live.
Variable base N : Z.
Hypothesis Hbase : r32 base.
Hypothesis HN : 0 <= N < 2147483648.

Notation offb := (off base).
Notation inwb := (inw base N).

(* l is the run of consecutive TSNs after offset a *)
Fixpoint seqfrom (a : Z) (l : list Z) : Prop :=
  match l with [] => True | t :: l' => r32 t /\ offb t = a + 1 /\ seqfrom (a + 1) l' end.

Lemma seqfrom_app l1 : forall a l2, seqfrom a (l1 ++ l2) <-> seqfrom a l1 /\ seqfrom (a + Z.of_nat (length l1)) l2.
Proof.
  induction l1 as [|t l1 IH]; intros a l2; cbn [app seqfrom length].
  - replace (a + Z.of_nat 0) with a by lia. tauto.
  - rewrite IH. replace (a + 1 + Z.of_nat (length l1)) with (a + Z.of_nat (S (length l1))) by lia. tauto.
Qed.

Lemma seqfrom_in a l t : seqfrom a l -> In t l -> r32 t /\ a < offb t <= a + Z.of_nat (length l).
Proof.
  revert a. induction l as [|x l IH]; intros a H Hin; [destruct Hin|].
  cbn [seqfrom length] in *. destruct H as (Hr & Ho & Hs). destruct Hin as [<-|Hin]; [split; [exact Hr|lia]|].
  destruct (IH _ Hs Hin) as [H1 H2]. split; [exact H1|lia].
Qed.

Lemma seqfrom_last a l d : seqfrom a l -> l <> [] -> offb (List.last l d) = a + Z.of_nat (length l).
Proof.
  revert a. induction l as [|x l IH]; intros a H Hne; [congruence|].
  cbn [seqfrom] in H. destruct H as (Hr & Ho & Hs). destruct l as [|y l'].
  - cbn. lia.
  - change (List.last (x :: y :: l') d) with (List.last (y :: l') d). rewrite (IH _ Hs) by discriminate. cbn [length]. lia.
Qed.

Definition floor (s : tx) : Z := if uint32_gt (adv_ack s) (last_sacked s) then adv_ack s else last_sacked s.

Record ord (s : tx) : Prop := mkOrd {
  o_ls : inwb (last_sacked s);
  o_av : inwb (adv_ack s);
  o_seq : seqfrom (offb (floor s)) (tsns (qs s));
  o_top : offb (floor s) + Z.of_nat (length (qs s)) <= N }.

Lemma floor_off s : inwb (last_sacked s) -> inwb (adv_ack s) ->
  inwb (floor s) /\ offb (floor s) = Z.max (offb (last_sacked s)) (offb (adv_ack s)).
Proof.
  intros Hl Ha. unfold floor. destruct (uint32_gt (adv_ack s) (last_sacked s)) eqn:G.
  - apply (gt_off base N Hbase HN _ _ Ha Hl) in G. split; [exact Ha|lia].
  - split; [exact Hl|]. destruct (Z_lt_le_dec (offb (last_sacked s)) (offb (adv_ack s))) as [H|H]; [|lia].
    apply (gt_off base N Hbase HN _ _ Ha Hl) in H. congruence.
Qed.

Definition top (s : tx) : Z := offb (floor s) + Z.of_nat (length (qs s)).

(* a TSN list with the same TSNs is ordered the same way *)
Lemma ord_same s s' : last_sacked s' = last_sacked s -> adv_ack s' = adv_ack s -> tsns (qs s') = tsns (qs s) ->
  ord s -> ord s' /\ top s' = top s.
Proof.
  intros El Ea Et [A B C D].
  assert (Ef : floor s' = floor s) by (unfold floor; now rewrite El, Ea).
  assert (Elen : length (qs s') = length (qs s)).
  { apply (f_equal (@length Z)) in Et. unfold tsns in Et. now rewrite !map_length in Et. }
  split; [|unfold top; now rewrite Ef, Elen].
  constructor; rewrite ?El, ?Ea, ?Ef, ?Et, ?Elen; assumption.
Qed.

Lemma ord_transmit s : ord s -> ord (fst (transmit s)) /\ top (fst (transmit s)) = top s.
Proof.
  intros O. apply ord_same; [| |apply transmit_tsns|exact O]; unfold transmit;
    destruct (match fwd_chunk s with Some (cum, strs) => ([OFwd cum strs], true) | None => ([], t3 s) end) as [fo t3a];
    destruct (retx_loop _ _ _ _ _ _) as [[[[[sq fl] frt] t3r] stop] o1]; destruct stop; try reflexivity;
    destruct (new_loop _ _ _) as [[[mv rest] fl2] o2]; reflexivity.
Qed.

(* popping the acknowledged head *)
Lemma pop_acked_split : forall sq cum fl d db,
  exists pre, sq = pre ++ fst (fst (fst (pop_acked sq cum fl d db))) /\
    Forall (fun c => uint32_gte cum (c_tsn c) = true) pre /\
    match fst (fst (fst (pop_acked sq cum fl d db))) with c :: _ => uint32_gte cum (c_tsn c) = false | [] => True end.
Proof.
  induction sq as [|c sq IH]; intros cum fl d db; cbn [pop_acked].
  - exists []. cbn. auto.
  - destruct (uint32_gte cum (c_tsn c)) eqn:G.
    + destruct (c_acked c).
      * destruct (IH cum fl (d + 1) db) as (pre & E & F & H). exists (c :: pre). cbn [app]. split; [now f_equal|]. split; [now constructor|exact H].
      * destruct (IH cum (dec fl c) (d + 1) (db + c_book c)) as (pre & E & F & H). exists (c :: pre). cbn [app].
        split; [now f_equal|]. split; [now constructor|exact H].
    + exists []. cbn [app fst]. split; [reflexivity|]. split; [constructor|exact G].
Qed.

Lemma exists_last_in {A} (l : list A) d : l <> [] -> In (List.last l d) l.
Proof. induction l as [|a l IH]; [congruence|]. intros _. destruct l as [|b l]; [now left|]. right. apply IH. discriminate. Qed.

Lemma last_cons_default {A} : forall (l : list A) x d, List.last (x :: l) d = List.last l x.
Proof. induction l as [|y l IH]; intros x d; [reflexivity|]. change (List.last (x :: y :: l) d) with (List.last (y :: l) d). rewrite !IH. reflexivity. Qed.

Lemma pop_abandoned_split : forall sq adv strs,
  exists pre, sq = pre ++ fst (fst (pop_abandoned sq adv strs)) /\
    snd (fst (pop_abandoned sq adv strs)) = List.last (tsns pre) adv.
Proof.
  induction sq as [|c sq IH]; intros adv strs; cbn [pop_abandoned].
  - exists []. cbn. auto.
  - destruct (c_abandoned c).
    + set (strs' := Some _). destruct (IH (c_tsn c) strs') as (pre & E & H). exists (c :: pre). cbn [app]. split; [now f_equal|].
      rewrite H. cbn [tsns map]. symmetry. apply last_cons_default.
    + exists []. cbn. auto.
Qed.

Lemma seqfrom_inw a l : seqfrom a l -> a + Z.of_nat (length l) <= N -> 0 <= a -> Forall inwb l.
Proof.
  intros H Ht Ha. apply Forall_forall. intros t Hin. destruct (seqfrom_in a l t H Hin) as [Hr Ho].
  split; [exact Hr|lia].
Qed.

Lemma off_nonneg t : 0 <= offb t. Proof. unfold off, M32. lia. Qed.

Lemma ord_update_adv s : ord s ->
  ord (update_adv s) /\ top (update_adv s) = top s /\ offb (floor s) <= offb (floor (update_adv s)).
Proof.
  intros [Hl Ha Hs Ht]. destruct (floor_off s Hl Ha) as [Hf Ef]. unfold update_adv.
  set (p0 := if uint32_gte (last_sacked s) (adv_ack s) then (last_sacked s, None) else (adv_ack s, fwd_streams s)).
  assert (H0 : inwb (fst p0) /\ offb (fst p0) = offb (floor s)).
  { unfold p0. destruct (uint32_gte (last_sacked s) (adv_ack s)) eqn:G; cbn [fst].
    - apply (gte_off base N Hbase HN _ _ Hl Ha) in G. split; [exact Hl|lia].
    - split; [exact Ha|]. destruct (Z_le_gt_dec (offb (adv_ack s)) (offb (last_sacked s))) as [H|H]; [|lia].
      apply (gte_off base N Hbase HN _ _ Hl Ha) in H. congruence. }
  destruct p0 as [adv0 strs0]. cbn [fst] in H0. destruct H0 as [Hi0 Eo0].
  destruct (pop_abandoned_split (sentq s) adv0 strs0) as (pre & Esq & Eadv).
  destruct (pop_abandoned (sentq s) adv0 strs0) as [[sq adv] strs]. cbn [fst snd] in Esq, Eadv.
  unfold qs in Hs, Ht. rewrite Esq, <- app_assoc, tsns_app in Hs. rewrite Esq, <- app_assoc, app_length in Ht.
  apply seqfrom_app in Hs as [Hs1 Hs2]. rewrite tsns_length in Hs2.
  assert (Hadv : inwb adv /\ offb adv = offb (floor s) + Z.of_nat (length pre)).
  { rewrite Eadv. destruct pre as [|c pre'].
    - cbn. split; [exact Hi0|lia].
    - assert (Hne : tsns (c :: pre') <> []) by discriminate.
      pose proof (seqfrom_last _ _ adv0 Hs1 Hne) as El. rewrite tsns_length in El.
      destruct (seqfrom_in _ _ _ Hs1 (@exists_last_in _ _ adv0 Hne)) as [Hr _].
      split; [split; [exact Hr|]|exact El]. rewrite El. cbn [length] in *. lia. }
  destruct Hadv as [Hia Eoa].
  set (s' := mkTx _ _ _ _ _ _ _ _ _ _ _ _ _ _).
  assert (Hf' : offb (floor s') = offb (floor s) + Z.of_nat (length pre)).
  { destruct (floor_off s' Hl Hia) as [_ E]. rewrite E. unfold s'. cbn [last_sacked adv_ack]. lia. }
  split; [|split].
  - constructor; cbn [last_sacked adv_ack]; [exact Hl|exact Hia| |].
    + rewrite Hf'. exact Hs2.
    + rewrite Hf'. unfold qs. cbn [sentq outq s']. lia.
  - unfold top. rewrite Hf'. unfold qs. cbn [sentq outq s']. rewrite Esq, <- app_assoc, !app_length. lia.
  - rewrite Hf'. lia.
Qed.

Lemma sack_window ls hs cum : inwb ls -> inwb hs -> offb ls <= offb hs -> r32 cum ->
  uint32_gt ls cum = false -> uint32_gte hs cum = true -> inwb cum /\ offb ls <= offb cum <= offb hs.
Proof.
  unfold inw, r32, off, M32, uint32_gte, uint32_gt. intros [Hl Hl'] [Hh Hh'] Hle Hc G1 G2. lia.
Qed.

Lemma rev_last_tsn (l : list sc) c r d : rev l = c :: r -> List.last (tsns l) d = c_tsn c /\ l <> [].
Proof.
  intros E. assert (El : l = rev r ++ [c]) by (rewrite <- (rev_involutive l), E; reflexivity).
  rewrite El, tsns_app. cbn [tsns map]. rewrite last_last. split; [reflexivity|]. destruct (rev r); discriminate.
Qed.

Lemma hs_off s : ord s ->
  inwb (highest_assigned s) /\ offb (highest_assigned s) = offb (floor s) + Z.of_nat (length (sentq s)).
Proof.
  intros [Hl Ha Hs Ht]. destruct (floor_off s Hl Ha) as [Hf Ef]. unfold highest_assigned.
  destruct (rev (sentq s)) as [|c r] eqn:Er.
  - assert (sentq s = []) by (rewrite <- (rev_involutive (sentq s)), Er; reflexivity). rewrite H. cbn [length].
    fold (floor s). split; [exact Hf|lia].
  - destruct (rev_last_tsn _ _ _ 0 Er) as [El Hne]. unfold qs in Hs, Ht. rewrite tsns_app in Hs. apply seqfrom_app in Hs as [Hs1 _].
    assert (Hne' : tsns (sentq s) <> []) by (destruct (sentq s); [congruence|discriminate]).
    pose proof (seqfrom_last _ _ 0 Hs1 Hne') as E1. rewrite El, tsns_length in E1.
    destruct (seqfrom_in _ _ _ Hs1 (exists_last_in _ 0 Hne')) as [Hr _]. rewrite El in Hr.
    rewrite app_length in Ht. split; [split; [exact Hr|lia]|exact E1].
Qed.

Lemma gaps_tsns s sq1 fl1 db1 cum gaps now :
  let g := match gaps with
           | [] => (sq1, outq s, fl1, db1, false)
           | _ => let last_pos := match sq1 with [] => 0 | _ => tsn_off cum (last_tsn sq1 0) end in
                  let hs := highest_seen cum last_pos gaps cum in
                  let '(sq2, fl2, db2, htna) := gap_ack sq1 cum last_pos hs gaps fl1 db1 cum in
                  let '(sq3, oq3, fl3, loss) := strike (length sq2) [] sq2 (outq s) cum last_pos htna gaps fl2 false now in
                  (sq3, oq3, fl3, db2, loss)
           end in
  let '(sq3, oq3, _, _, _) := g in tsns sq3 ++ tsns oq3 = tsns sq1 ++ tsns (outq s).
Proof.
  cbv zeta. destruct gaps as [|g0 gaps']; [reflexivity|].
  set (last_pos := match sq1 with [] => 0 | _ => tsn_off cum (last_tsn sq1 0) end).
  set (hs := highest_seen cum last_pos (g0 :: gaps') cum).
  pose proof (gap_ack_tsns sq1 cum last_pos hs (g0 :: gaps') fl1 db1 cum) as Hg.
  destruct (gap_ack sq1 cum last_pos hs (g0 :: gaps') fl1 db1 cum) as [[[sq2 fl2] db2] htna]. cbn [fst] in Hg.
  pose proof (strike_tsns (length sq2) [] sq2 (outq s) cum last_pos htna (g0 :: gaps') fl2 false now) as Hk.
  destruct (strike (length sq2) [] sq2 (outq s) cum last_pos htna (g0 :: gaps') fl2 false now) as [[[sq3 oq3] fl3] loss].
  cbn [rev app] in Hk. rewrite Hk, Hg. reflexivity.
Qed.

Theorem ord_receive_sack s cum gaps now : ord s -> r32 cum ->
  let s' := fst (receive_sack s cum gaps now) in
  ord s' /\ top s' = top s /\ (sack_ignored s cum = false -> offb cum <= offb (floor s')).
Proof.
  intros O Hc. cbv zeta. unfold receive_sack. destruct (sack_ignored s cum) eqn:Ei.
  { cbn [fst]. split; [exact O|]. split; [reflexivity|discriminate]. }
  destruct (hs_off s O) as [Hh Eh]. pose proof O as [Hl Ha Hs Ht]. destruct (floor_off s Hl Ha) as [Hf Ef].
  unfold sack_ignored in Ei. apply orb_false_iff in Ei as [G1 G2]. apply negb_false_iff in G2.
  destruct (sack_window _ _ _ Hl Hh ltac:(lia) Hc G1 G2) as [Hic Hx].
  destruct (pop_acked_split (sentq s) cum (flight s) 0 0) as (pre & Esq & Fpre & Hhead).
  destruct (pop_acked (sentq s) cum (flight s) 0 0) as [[[sq1 fl1] done] db1]. cbn [fst] in Esq, Hhead.
  pose proof (gaps_tsns s sq1 fl1 db1 cum gaps now) as Hg. cbv zeta in Hg.
  destruct (match gaps with [] => _ | _ => _ end) as [[[[sq3 oq3] fl3] db3] loss].
  destruct (match fr_exit s with None => _ | Some e => _ end) as [[[[cw ss] pb] fre] frt].
  set (t3' := match sq3 with [] => false | _ => _ end).
  set (s1 := mkTx cw ss fl3 fre frt (fwd_chunk s) (fwd_streams s) cum (adv_ack s) oq3 sq3 pb t3' (pending_tx s)).
  (* the popped prefix in offsets *)
  unfold qs in Hs, Ht. rewrite Esq, <- app_assoc, tsns_app in Hs. apply seqfrom_app in Hs as [Hs1 Hs2]. rewrite tsns_length in Hs2.
  rewrite Esq, <- app_assoc, !app_length in Ht. rewrite Esq, app_length in Eh.
  set (A := offb (floor s)) in *. set (x := offb cum) in *.
  assert (Ipre : Forall inwb (tsns pre)) by (apply (seqfrom_inw A); [exact Hs1|rewrite tsns_length; lia|apply off_nonneg]).
  assert (Hp : pre <> [] -> A + Z.of_nat (length pre) <= x).
  { intros Hne. assert (Hne' : tsns pre <> []) by (destruct pre; [congruence|discriminate]).
    pose proof (seqfrom_last _ _ 0 Hs1 Hne') as El. rewrite tsns_length in El. rewrite <- El.
    pose proof (exists_last_in _ 0 Hne') as Hin. apply in_map_iff in Hin as (c & Ec & Hcin).
    rewrite Forall_forall in Fpre, Ipre. pose proof (Fpre c Hcin) as G.
    apply (gte_off base N Hbase HN) in G; [rewrite <- Ec; exact G|exact Hic|]. apply Ipre. apply in_map. exact Hcin. }
  assert (Hq : sq1 <> [] -> x < A + Z.of_nat (length pre) + 1).
  { intros Hne. destruct sq1 as [|c sq1']; [congruence|]. rewrite tsns_app in Hs2. cbn [tsns map app seqfrom] in Hs2.
    destruct Hs2 as (Hr & Ho & _).
    destruct (Z_lt_le_dec x (offb (c_tsn c))) as [H|H]; [lia|].
    apply (gte_off base N Hbase HN _ _ Hic) in H; [congruence|]. split; [exact Hr|]. cbn [length] in Ht. lia. }
  assert (Hsq1 : sq1 = [] -> x <= A + Z.of_nat (length pre)) by (intros ->; cbn [length] in Eh; lia).
  assert (Hfl1 : offb (floor s1) = A + Z.of_nat (length pre)).
  { destruct (floor_off s1 Hic Ha) as [_ E]. rewrite E. unfold s1. cbn [last_sacked adv_ack]. fold x.
    destruct pre as [|p0 pre']; destruct sq1 as [|c0 sq1']; cbn [length] in *;
      try (specialize (Hp ltac:(discriminate))); try (specialize (Hq ltac:(discriminate))); try (specialize (Hsq1 eq_refl)); lia. }
  assert (O1 : ord s1 /\ top s1 = top s).
  { split.
    - constructor; cbn [last_sacked adv_ack s1]; [exact Hic|exact Ha| |].
      + rewrite Hfl1. unfold qs. cbn [sentq outq s1]. rewrite tsns_app, Hg, <- tsns_app. exact Hs2.
      + rewrite Hfl1. unfold qs. cbn [sentq outq s1]. apply (f_equal (@length Z)) in Hg. rewrite !app_length, !tsns_length in Hg.
        rewrite app_length. lia.
    - unfold top. rewrite Hfl1. fold A. unfold qs. cbn [sentq outq s1]. rewrite Esq.
      apply (f_equal (@length Z)) in Hg. rewrite !app_length, !tsns_length in Hg. rewrite !app_length. lia. }
  destruct O1 as [O1 T1].
  destruct (ord_update_adv s1 O1) as (O2 & T2 & F2).
  destruct (ord_transmit (update_adv s1) O2) as [O3 T3].
  split; [exact O3|]. split; [congruence|]. intros _.
  assert (Ef3 : floor (fst (transmit (update_adv s1))) = floor (update_adv s1)).
  { unfold floor, transmit.
    destruct (match fwd_chunk (update_adv s1) with Some (cum0, strs) => ([OFwd cum0 strs], true) | None => ([], t3 (update_adv s1)) end) as [fo t3a].
    destruct (retx_loop _ _ _ _ _ _) as [[[[[sq fl] frt0] t3r] stop] o1]. destruct stop; [reflexivity|].
    destruct (new_loop _ _ _) as [[[mv rest] fl2] o2]. reflexivity. }
  rewrite Ef3. destruct (floor_off s1 Hic Ha) as [_ E1]. unfold s1 in E1 at 2 3. cbn [last_sacked adv_ack] in E1. fold x in E1. lia.
Qed.

Lemma ord_t3_expired s now : ord s -> ord (fst (t3_expired s now)) /\ top (fst (t3_expired s now)) = top s.
Proof.
  intros O. unfold t3_expired.
  pose proof (t3_mark_tsns (length (sentq s)) [] (sentq s) (outq s) (flight s) now) as Hm.
  destruct (t3_mark (length (sentq s)) [] (sentq s) (outq s) (flight s) now) as [[sq oq] fl]. cbn [rev app] in Hm.
  set (s0 := mkTx (cwnd s) (ssthresh s) fl (fr_exit s) (fr_transmit s) (fwd_chunk s) (fwd_streams s)
                  (last_sacked s) (adv_ack s) oq sq (pba s) false (pending_tx s)).
  assert (O0 : ord s0 /\ top s0 = top s).
  { apply ord_same; auto. unfold qs. cbn [sentq outq s0]. rewrite !tsns_app. exact Hm. }
  destruct O0 as [O0 T0]. destruct (ord_update_adv s0 O0) as (O1 & T1 & _).
  cbn [fst]. set (s2 := mkTx _ _ _ _ _ _ _ _ _ _ _ _ _ _).
  assert (O2 : ord s2 /\ top s2 = top (update_adv s0)) by (apply ord_same; auto).
  destruct O2 as [O2 T2]. split; [exact O2|congruence].
Qed.

(* what the application may hand to _send: the next TSNs, inside the window *)
Definition wf_ord (s : tx) (i : input) : Prop :=
  match i with
  | ISendMsg cs => seqfrom (top s) (tsns cs) /\ top s + Z.of_nat (length cs) <= N
  | ISack cum _ _ => r32 cum
  | _ => True
  end.

Theorem step_ord s i : ord s -> wf_ord s i -> ord (fst (step s i)) /\ top s <= top (fst (step s i)).
Proof.
  intros O W. destruct i as [cs|cum gaps now|now|]; cbn [step wf_ord] in *.
  - destruct W as [Wc Wt]. unfold send.
    set (s0 := with_q s (flight s) (outq s ++ cs) (sentq s)).
    assert (O0 : ord s0 /\ top s0 = top s + Z.of_nat (length cs)).
    { pose proof O as [Hl Ha Hs Ht].
      assert (Ef : floor s0 = floor s) by reflexivity.
      assert (Eq : qs s0 = qs s ++ cs) by (unfold qs, s0, with_q; cbn [sentq outq]; now rewrite app_assoc).
      split.
      - constructor; rewrite ?Ef, ?Eq; auto.
        + rewrite tsns_app. apply seqfrom_app. split; [exact Hs|]. rewrite tsns_length. exact Wc.
        + rewrite app_length. unfold top in Wt. lia.
      - unfold top. rewrite Ef, Eq, app_length. lia. }
    destruct O0 as [O0 T0]. destruct (ord_transmit s0 O0) as [O1 T1]. split; [exact O1|lia].
  - destruct (ord_receive_sack s cum gaps now O W) as (O1 & T1 & _). split; [exact O1|lia].
  - destruct (t3 s); [|cbn [fst]; split; [exact O|lia]]. destruct (ord_t3_expired s now O) as [O1 T1]. split; [exact O1|lia].
  - destruct (ord_transmit s O) as [O1 T1]. rewrite (pair_eta_tx (transmit s)). cbn [fst].
    set (s2 := mkTx _ _ _ _ _ _ _ _ _ _ _ _ _ _).
    assert (O2 : ord s2 /\ top s2 = top (fst (transmit s))) by (apply ord_same; auto).
    destruct O2 as [O2 T2]. split; [exact O2|lia].
Qed.

Fixpoint wf_ord_run (s : tx) (is : list input) : Prop :=
  match is with [] => True | i :: is' => wf_ord s i /\ wf_ord_run (fst (step s i)) is' end.

Theorem run_ord : forall is s, ord s -> wf_ord_run s is -> ord (fst (run s is)).
Proof.
  induction is as [|i is IH]; intros s O W; cbn [run]; [exact O|]. destruct W as [W1 W2].
  destruct (step_ord s i O W1) as [O1 _]. rewrite (pair_eta_tx (step s i)). rewrite (pair_eta_run (run (fst (step s i)) is)). cbn [fst].
  now apply IH.
Qed.

Lemma ord_init t rw : inwb (tsn_minus_one t) -> ord (init t rw).
Proof.
  intros H. constructor; cbn [init last_sacked adv_ack]; auto.
  - unfold qs. cbn. exact I.
  - unfold qs, floor. cbn [init sentq outq adv_ack last_sacked app length]. destruct (uint32_gt _ _); destruct H; lia.
Qed.

(* ---------------------------------------------------------------- the fault-free continuation drains *)
(* what a peer that has received everything sent so far answers, and the pending transmit task *)
Definition ideal_input (s : tx) : option input :=
  match sentq s, outq s with
  | _ :: _, _ => Some (ISack (highest_assigned s) [] 0)
  | [], _ :: _ => Some IRunTransmit
  | [], [] => None
  end.

Fixpoint drain (fuel : nat) (s : tx) : list input :=
  match fuel with
  | O => []
  | S f => match ideal_input s with Some i => i :: drain f (fst (step s i)) | None => [] end
  end.

Definition measure (s : tx) : nat :=
  (2 * length (qs s) - match sentq s with [] => 0 | _ => 1 end)%nat.

Lemma qs_length_top s : ord s -> Z.of_nat (length (qs s)) = top s - offb (floor s).
Proof. intros _. unfold top. lia. Qed.

Lemma sack_round s : SctpTxP.inv s -> ord s -> sentq s <> [] ->
  let s' := fst (step s (ISack (highest_assigned s) [] 0)) in
  SctpTxP.inv s' /\ ord s' /\ (length (qs s') <= length (outq s))%nat.
Proof.
  intros I O Hne. cbv zeta. destruct (hs_off s O) as [Hh Eh]. pose proof O as [Hl Ha Hs Ht]. destruct (floor_off s Hl Ha) as [Hf Ef].
  assert (Hr : r32 (highest_assigned s)) by (destruct Hh; assumption).
  assert (Hni : sack_ignored s (highest_assigned s) = false).
  { unfold sack_ignored. apply orb_false_iff. split.
    - destruct (uint32_gt (last_sacked s) (highest_assigned s)) eqn:G; [|reflexivity].
      apply (gt_off base N Hbase HN _ _ Hl Hh) in G. lia.
    - apply negb_false_iff. unfold uint32_gte. now rewrite Z.eqb_refl. }
  split; [apply step_inv; [exact I|exact Logic.I]|].
  cbn [step]. destruct (ord_receive_sack s (highest_assigned s) [] 0 O Hr) as (O1 & T1 & F1). split; [exact O1|].
  specialize (F1 Hni). pose proof (qs_length_top _ O1) as L1. pose proof (qs_length_top _ O) as L0.
  unfold qs in L0 at 1. rewrite app_length in L0. lia.
Qed.

Lemma kick s : SctpTxP.inv s -> ord s -> sentq s = [] -> outq s <> [] ->
  let s' := fst (step s IRunTransmit) in
  SctpTxP.inv s' /\ ord s' /\ sentq s' <> [] /\ length (qs s') = length (qs s).
Proof.
  intros I O He Hne. cbv zeta. split; [apply step_inv; [exact I|exact Logic.I]|].
  destruct (step_ord s IRunTransmit O Logic.I) as [O1 _]. split; [exact O1|].
  assert (Hlen : length (qs (fst (step s IRunTransmit))) = length (qs s)).
  { cbn [step]. rewrite (pair_eta_tx (transmit s)). cbn [fst]. unfold qs at 1. cbn [sentq outq].
    pose proof (transmit_tsns s) as E. apply (f_equal (@length Z)) in E. rewrite !tsns_length in E. exact E. }
  split; [|exact Hlen].
  cbn [step]. rewrite (pair_eta_tx (transmit s)). cbn [fst sentq]. unfold transmit. rewrite He.
  destruct (match fwd_chunk s with Some (cum, strs) => ([OFwd cum strs], true) | None => ([], t3 s) end) as [fo t3a].
  cbn [retx_loop].
  pose proof (i_fl s I) as Hfl. rewrite He in Hfl. cbn in Hfl. pose proof (i_cw s I) as Hcw. pose proof MTU_val as Hm.
  destruct (outq s) as [|c oq]; [congruence|]. cbn [new_loop].
  set (cw := Z.min _ (cwnd s)).
  assert (Hlt : (flight s <? cw) = true).
  { unfold cw. destruct (fr_exit s); lia. }
  rewrite Hlt. destruct (new_loop oq (flight s + c_book c) cw) as [[[mv rest] fl2] o2]. cbn [fst sentq app]. discriminate.
Qed.

Theorem drain_ok : forall fuel s, SctpTxP.inv s -> ord s -> (measure s <= fuel)%nat ->
  let s' := fst (run s (drain fuel s)) in sentq s' = [] /\ outq s' = [].
Proof.
  induction fuel as [|f IH]; intros s I O Hm; cbv zeta.
  - cbn [drain run fst]. unfold measure, qs in Hm. rewrite app_length in Hm.
    destruct (sentq s) as [|c sq]; destruct (outq s) as [|d oq]; cbn [length] in Hm; try lia. auto.
  - cbn [drain]. unfold ideal_input. destruct (sentq s) as [|c sq] eqn:Es.
    + destruct (outq s) as [|d oq] eqn:Eo; [cbn [run fst]; auto|].
      destruct (kick s I O Es ltac:(rewrite Eo; discriminate)) as (I1 & O1 & N1 & L1). cbv zeta in *.
      cbn [run]. rewrite (pair_eta_tx (step s IRunTransmit)). rewrite (pair_eta_run (run _ (drain f _))). cbn [fst].
      apply IH; auto. unfold measure in *. rewrite L1. rewrite Es in Hm.
      destruct (sentq (fst (step s IRunTransmit))); [congruence|]. unfold qs in Hm |- *. rewrite Es, Eo in *. cbn [app length] in *. lia.
    + assert (Hne : sentq s <> []) by (rewrite Es; discriminate).
      destruct (sack_round s I O Hne) as (I1 & O1 & L1). cbv zeta in *.
      cbn [run]. rewrite (pair_eta_tx (step s _)). rewrite (pair_eta_run (run _ (drain f _))). cbn [fst].
      apply IH; auto. unfold measure in *. rewrite Es in Hm. unfold qs in Hm. rewrite Es, app_length in Hm. cbn [length] in Hm.
      destruct (sentq (fst (step s (ISack (highest_assigned s) [] 0)))); lia.
Qed.

(* the continuation consists of well-formed inputs only *)
Lemma drain_wf : forall fuel s, Forall wf_input (drain fuel s).
Proof.
  induction fuel as [|f IH]; intros s; cbn [drain]; [constructor|].
  destruct (ideal_input s) as [i|] eqn:E; [|constructor]. constructor; [|apply IH].
  unfold ideal_input in E. destruct (sentq s); destruct (outq s); try discriminate; injection E as <-; exact Logic.I.
Qed.
End Live.

(* From EVERY reachable sender state -- after any history of sends, SACKs (any cumulative TSN, any
   gap blocks), T3 expiries and transmit runs -- the continuation in which the peer acknowledges
   what has been sent and the pending transmit task runs reaches quiescence in at most
   2 * (outstanding + queued) inputs: nothing outstanding, nothing queued, flight size 0. *)
Theorem never_wedged base N t rw ins :
  r32 base -> 0 <= N < 2147483648 -> inw base N (tsn_minus_one t) ->
  Forall wf_input ins -> wf_ord_run base N (init t rw) ins ->
  let s := fst (run (init t rw) ins) in
  let cont := drain (2 * length (sentq s ++ outq s)) s in
  let s' := fst (run s cont) in
  Forall wf_input cont /\ sentq s' = [] /\ outq s' = [] /\ flight s' = 0.
Proof.
  intros Hb HN Ht Hw Ho s cont s'.
  pose proof (run_inv ins (init t rw) (inv_init t rw) Hw) as I. fold s in I.
  pose proof (run_ord base N Hb HN ins (init t rw) (ord_init base N t rw Ht) Ho) as O. fold s in O.
  split; [apply drain_wf|].
  assert (Hm : (measure s <= 2 * length (sentq s ++ outq s))%nat) by (unfold measure, qs; lia).
  destruct (drain_ok base N Hb HN _ s I O Hm) as [E1 E2]. fold cont in E1, E2. fold s' in E1, E2.
  split; [exact E1|]. split; [exact E2|].
  pose proof (run_inv cont s I (drain_wf _ s)) as I'. fold s' in I'. pose proof (i_fl s' I') as F. rewrite E1 in F. cbn in F. lia.
Qed.
