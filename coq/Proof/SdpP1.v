(* Basic lemmas for Model/Sdp.v: string equality, the error monad, dictionaries,
   candidates, codec names. *)
From Coq Require Import ZArith List Bool Lia.
From AV Require Import Lib.Sx Model.Sdp.
Import ListNotations.
Local Open Scope Z_scope.

Lemma str_eqb_refl : forall s, str_eqb s s = true.
Proof. induction s as [|c s IH]; cbn [str_eqb]; [reflexivity|]. now rewrite Z.eqb_refl, IH. Qed.

Lemma str_eqb_eq : forall a b, str_eqb a b = true -> a = b.
Proof.
  induction a as [|x a IH]; intros [|y b] H; cbn [str_eqb] in H; try discriminate; [reflexivity|].
  apply andb_true_iff in H as [H1 H2]. apply Z.eqb_eq in H1. subst y. f_equal. now apply IH.
Qed.

Lemma str_eqb_neq : forall a b, str_eqb a b = false -> a <> b.
Proof. intros a b H E. subst b. now rewrite str_eqb_refl in H. Qed.

Lemma str_eqb_iff : forall a b, str_eqb a b = true <-> a = b.
Proof. intros a b. split; [apply str_eqb_eq|intros ->; apply str_eqb_refl]. Qed.

(* ---- error monad ---- *)
Lemma rfold_app : forall {A B} (f : A -> B -> result A) l1 l2 a,
  rfold f (l1 ++ l2) a = bind (rfold f l1 a) (rfold f l2).
Proof.
  intros A B f l1. induction l1 as [|x l1 IH]; intros l2 a; cbn [rfold app bind]; [reflexivity|].
  destruct (f a x) as [a'| |]; cbn [bind]; [apply IH|reflexivity|reflexivity].
Qed.

Lemma rfold_inv : forall {A B} (f : A -> B -> result A) (P : A -> Prop),
  (forall a x a', P a -> f a x = Ok a' -> P a') ->
  forall l a a', P a -> rfold f l a = Ok a' -> P a'.
Proof.
  intros A B f P Hstep l. induction l as [|x l IH]; intros a a' Pa H; cbn [rfold] in H.
  - now inversion H; subst.
  - destruct (f a x) as [a1| |] eqn:E; cbn [bind] in H; try discriminate.
    eapply IH; [|exact H]. eapply Hstep; eauto.
Qed.

Lemma rfold_noop : forall {A B} (f : A -> B -> result A) l a,
  Forall (fun x => forall a, f a x = Ok a) l -> rfold f l a = Ok a.
Proof.
  intros A B f l a H. induction H as [|x l Hx _ IH]; cbn [rfold]; [reflexivity|].
  rewrite Hx. cbn [bind]. exact IH.
Qed.

Lemma bind_ok : forall {A B} (r : result A) (f : A -> result B) b,
  bind r f = Ok b -> exists a, r = Ok a /\ f a = Ok b.
Proof. intros A B [a| |] f b H; cbn [bind] in H; try discriminate. now exists a. Qed.

(* ---- dictionaries ---- *)
Section Dict.
  Variables (K V : Type) (eqb : K -> K -> bool).
  Hypothesis eqb_iff : forall a b, eqb a b = true <-> a = b.

  Lemma dset_fresh : forall (d : list (K * V)) k v, ~ In k (map fst d) -> dset eqb d k v = d ++ [(k, v)].
  Proof.
    induction d as [|[k' v'] d IH]; intros k v H; cbn [dset app]; [reflexivity|].
    cbn [map fst In] in H.
    destruct (eqb k k') eqn:E.
    - apply eqb_iff in E. subst. exfalso. apply H. now left.
    - f_equal. apply IH. intro. apply H. now right.
  Qed.

  Lemma dset_keys : forall (d : list (K * V)) k v,
    map fst (dset eqb d k v) = if existsb (eqb k) (map fst d) then map fst d else map fst d ++ [k].
  Proof.
    induction d as [|[k' v'] d IH]; intros k v; cbn [dset map fst existsb app]; [reflexivity|].
    destruct (eqb k k') eqn:E; cbn [orb map fst]; [reflexivity|].
    rewrite IH. destruct (existsb (eqb k) (map fst d)); reflexivity.
  Qed.

  Lemma NoDup_snoc : forall (T : Type) (l : list T) x, NoDup l -> ~ In x l -> NoDup (l ++ [x]).
  Proof.
    intros T l x H. induction H as [|y l Hy Hl IH]; intros Hx; cbn [app].
    - constructor; [intros []|constructor].
    - constructor.
      + rewrite in_app_iff. intros [H1|[H1|[]]]; [now apply Hy|]. subst. apply Hx. now left.
      + apply IH. intro. apply Hx. now right.
  Qed.

  Lemma existsb_eqb_false : forall k l, existsb (eqb k) l = false -> ~ In k l.
  Proof.
    intros k l H Hin. assert (existsb (eqb k) l = true); [|congruence].
    apply existsb_exists. exists k. split; [exact Hin|]. now apply eqb_iff.
  Qed.

  Lemma dset_nodup : forall (d : list (K * V)) k v, NoDup (map fst d) -> NoDup (map fst (dset eqb d k v)).
  Proof.
    intros d k v H. rewrite dset_keys. destruct (existsb (eqb k) (map fst d)) eqn:E; [exact H|].
    apply NoDup_snoc; [exact H|]. now apply existsb_eqb_false.
  Qed.

  (* inserting the items of a duplicate-free dictionary one by one rebuilds it *)
  Lemma fold_dset_nodup : forall (l d0 : list (K * V)),
    NoDup (map fst (d0 ++ l)) ->
    fold_left (fun d kv => dset eqb d (fst kv) (snd kv)) l d0 = d0 ++ l.
  Proof.
    induction l as [|[k v] l IH]; intros d0 H; cbn [fold_left fst snd].
    - now rewrite app_nil_r.
    - rewrite dset_fresh.
      + rewrite IH; rewrite <- app_assoc; [reflexivity|exact H].
      + rewrite map_app in H. cbn [map fst] in H. apply NoDup_remove_2 in H.
        intro Hin. apply H. rewrite in_app_iff. now left.
  Qed.

  Lemma fold_dset_keys_nodup : forall (l d0 : list (K * V)),
    NoDup (map fst d0) -> NoDup (map fst (fold_left (fun d kv => dset eqb d (fst kv) (snd kv)) l d0)).
  Proof.
    induction l as [|[k v] l IH]; intros d0 H; cbn [fold_left]; [exact H|].
    apply IH. now apply dset_nodup.
  Qed.
End Dict.

Lemma Zeqb_iff : forall a b, Z.eqb a b = true <-> a = b.
Proof. intros. apply Z.eqb_eq. Qed.

(* ---- candidates ---------------------------------------------------------- *)
Lemma cand_roundtrip : forall c, cand_of_tokens (cand_to_tokens c) = Ok c.
Proof.
  intros [f comp proto prio ip port ty ra rp tt].
  destruct ra as [a|], rp as [p|], tt as [t|]; reflexivity.
Qed.

(* token lists in the order candidate_to_sdp writes them *)
Definition canonical_tokens (ts : list ctok) : Prop :=
  exists (f : str) (comp : Z) (proto : str) (prio : Z) (ip : str) (port : Z) (ty : str)
         (ra : option str) (rp : option Z) (tt : option str),
    ts = [TS f; TI comp; TS proto; TI prio; TS ip; TI port; TS s_typ; TS ty]
         ++ match ra with Some a => [TS s_raddr; TS a] | None => [] end
         ++ match rp with Some p => [TS s_rport; TI p] | None => [] end
         ++ match tt with Some t => [TS s_tcptype; TS t] | None => [] end.

Lemma cand_roundtrip_tokens : forall ts, canonical_tokens ts ->
  exists c, cand_of_tokens ts = Ok c /\ cand_to_tokens c = ts.
Proof.
  intros ts (f & comp & proto & prio & ip & port & ty & ra & rp & tt & ->).
  exists (mkCand f comp proto prio ip port ty ra rp tt).
  split; [|reflexivity].
  exact (cand_roundtrip (mkCand f comp proto prio ip port ty ra rp tt)).
Qed.

(* whatever the extension tokens, a second trip is stable *)
Lemma cand_idempotent : forall ts c, cand_of_tokens ts = Ok c ->
  cand_of_tokens (cand_to_tokens c) = Ok c.
Proof. intros. apply cand_roundtrip. Qed.

(* ---- codec names ------------------------------------------------------------ *)
Lemma seg1_app : forall b y, seg1 (b ++ SLASH :: y) = seg1 b.
Proof.
  induction b as [|c b IH]; intros y; cbn [seg1 app].
  - now rewrite Z.eqb_refl.
  - destruct (Z.eqb c SLASH); [reflexivity|]. now rewrite IH.
Qed.

Lemma seg1_idem : forall x, seg1 (seg1 x) = seg1 x.
Proof.
  induction x as [|c x IH]; cbn [seg1]; [reflexivity|].
  destruct (Z.eqb c SLASH) eqn:E; cbn [seg1]; [reflexivity|]. now rewrite E, IH.
Qed.

Lemma name_of_kind : forall k x n,
  name_of (k ++ SLASH :: x) = Some n -> name_of (k ++ SLASH :: n) = Some n.
Proof.
  unfold name_of. induction k as [|c k IH]; intros x n H; cbn [app after_slash] in *.
  - rewrite Z.eqb_refl in *. inversion H; subst. now rewrite seg1_idem.
  - destruct (Z.eqb c SLASH) eqn:E.
    + inversion H; subst. now rewrite !seg1_app.
    + now apply IH with x.
Qed.

Lemma name_of_some : forall k x, exists n, name_of (k ++ SLASH :: x) = Some n.
Proof.
  unfold name_of. induction k as [|c k IH]; intros x; cbn [app after_slash].
  - rewrite Z.eqb_refl. eauto.
  - destruct (Z.eqb c SLASH); eauto.
Qed.
