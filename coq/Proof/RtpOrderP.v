(* C11: frames reach the decoder in stream order.  The jitter buffer's ordering theorem (C10)
   lifted through the receive pipeline of a video RTCRtpReceiver. *)
From Coq Require Import ZArith List Bool Lia.
From AV Require Import Lib.Bytes Model.Rtp.
From AV Require Lib.RtpX.
From AV Require Lib.CodecX Model.Jitter Model.RtpRecv Proof.JitterP Proof.JitterInvP Proof.JitterOrderP Proof.RtpRecvP.
Import ListNotations.
Local Open Scope Z_scope.

Module V := AV.Model.RtpRecv. Module VP := AV.Proof.RtpRecvP.
Module J := AV.Model.Jitter. Module JP := AV.Proof.JitterP. Module JI := AV.Proof.JitterInvP. Module JO := AV.Proof.JitterOrderP.

(* the data of the frames handed to the decoder, in order *)
Definition decoder_frames (outs : list V.rout) : list bytes :=
  flat_map (fun o => match V.o_frame o with Some (_, _, d) => [d] | None => [] end) outs.

Lemma aligned_frames b outs jouts : VP.aligned b outs jouts ->
  decoder_frames outs = map J.fdata (JO.released jouts).
Proof.
  induction 1 as [|o outs jouts Hp Hf _ IH|o outs pli fr jouts Hp Hf _ IH]; [reflexivity| |].
  - unfold decoder_frames in *. cbn [flat_map]. rewrite Hf. exact IH.
  - unfold decoder_frames, JO.released in *. cbn [flat_map snd]. destruct fr as [f|].
    + destruct Hf as (cpt & t & Hf). rewrite Hf. cbn [app map]. f_equal. exact IH.
    + rewrite Hf. cbn [app]. exact IH.
Qed.

Lemma cap_ok_video : JP.cap_ok V.VIDEO_CAPACITY.
Proof. exists 7. split; [lia|reflexivity]. Qed.

(* For every arrival list handled by a fresh video receiver whose media packets (after the
   codec and RTX guards) never arrive MAX_MISORDER or more positions late: the frames handed to
   the decoder, in the order they are handed over, occupy disjoint, strictly increasing
   intervals of unwrapped stream positions counted from the first media packet -- frames come
   out in stream order and no stream position is decoded twice. *)
Theorem decoder_frames_ordered c l s' outs p jl :
  V.run c V.init_video l = AV.Lib.RtpX.Ok (s', outs) ->
  flat_map (VP.jb_input c) l = p :: jl ->
  Forall JP.seq16 (p :: jl) -> JO.never_late V.VIDEO_CAPACITY 0 true (p :: jl) ->
  exists fs, JO.ordered_from (J.pseq p) 0 fs /\ decoder_frames outs = map J.fdata fs.
Proof.
  intros Hrun Hjl Hs Hnl.
  destruct (VP.run_factor c l V.init_video s' outs Hrun) as (_ & jouts & Hj & Hal).
  rewrite Hjl in Hj.
  assert (HR : JI.reaches V.VIDEO_CAPACITY 0 true (p :: jl) (V.jbuf s') jouts).
  { exists (V.jbuf V.init_video). split; [reflexivity|exact Hj]. }
  exists (JO.released jouts). split.
  - exact (JO.jitter_ordered _ _ _ p jl _ _ cap_ok_video Hs HR Hnl).
  - eapply aligned_frames; eauto.
Qed.
