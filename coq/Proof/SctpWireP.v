(* Lemmas about Model/SctpWire.v, part 1: basic facts, encode_params /
   decode_params round trip, RE-CONFIG parameter round trips. *)
From Coq Require Import ZArith List Bool Lia ZifyBool.
From AV Require Import Lib.Bytes Lib.BytesP Gen.SctpConst Model.Crc32c Model.SctpWire.
Import ListNotations.
Local Open Scope Z_scope.

Ltac Zify.zify_post_hook ::= Z.to_euclidean_division_equations.

(* ------------------------------------------------------------------ small facts *)
Lemma in_u8_iff x : in_u8 x = true <-> 0 <= x < 256.
Proof. unfold in_u8. lia. Qed.
Lemma in_u16_iff x : in_u16 x = true <-> 0 <= x < 65536.
Proof. unfold in_u16. lia. Qed.
Lemma in_u32_iff x : in_u32 x = true <-> 0 <= x < 4294967296.
Proof. unfold in_u32. lia. Qed.

Lemma padl_range l : 0 <= padl l < 4.
Proof. unfold padl. destruct (l mod 4 =? 0) eqn:E; cbn [negb]; lia. Qed.
Lemma padl_aligned l : (l + padl l) mod 4 = 0.
Proof. unfold padl. destruct (l mod 4 =? 0) eqn:E; cbn [negb]; lia. Qed.
Lemma padl_add4 l : padl (l + 4) = padl l.
Proof. unfold padl. replace ((l + 4) mod 4) with (l mod 4) by lia. reflexivity. Qed.
Lemma padl_0 l : l mod 4 = 0 -> padl l = 0.
Proof. intros H. unfold padl. rewrite H. reflexivity. Qed.

Lemma zpad_length n : 0 <= n -> length (zpad n) = Z.to_nat n.
Proof. intros _. unfold zpad, zeros. apply repeat_length. Qed.
Lemma zpad_ok n : bytes_ok (zpad n).
Proof. apply bytes_ok_zeros. Qed.
Lemma zpad_0 : zpad 0 = [].
Proof. reflexivity. Qed.

Lemma len_length (l : bytes) : len l = Z.of_nat (length l).
Proof. reflexivity. Qed.

Lemma be8_small n : 0 <= n < 256 -> be8 n = [n].
Proof. intros H. unfold be8. now rewrite Z.mod_small. Qed.

Lemma slice_app_r pre l a b : slice (pre ++ l) (length pre + a) (length pre + b) = slice l a b.
Proof.
  unfold slice. rewrite skipn_app, skipn_all2 by lia. cbn [app].
  f_equal; [lia|f_equal; lia].
Qed.
Lemma slice_0_app a b : slice (a ++ b) 0 (length a) = a.
Proof.
  unfold slice. cbn [skipn]. rewrite Nat.sub_0_r, firstn_app, firstn_all, Nat.sub_diag. cbn [firstn].
  apply app_nil_r.
Qed.
Lemma from_app_r pre l a : from (pre ++ l) (length pre + a) = from l a.
Proof. unfold from. rewrite skipn_app, skipn_all2 by lia. cbn [app]. f_equal. lia. Qed.

Lemma nonempty_false b : nonempty b = false -> b = [].
Proof. destruct b; [reflexivity|discriminate]. Qed.
Lemma nonempty_len b : nonempty b = true <-> 0 < len b.
Proof. destruct b; cbn [nonempty]; unfold len; cbn [length]; split; intros; lia || auto; discriminate. Qed.

Lemma u16_cons2 a b l i : u16 (a :: b :: l) (S (S i)) = u16 l i.
Proof. reflexivity. Qed.
Lemma u8_cons a l i : u8 (a :: l) (S i) = u8 l i.
Proof. reflexivity. Qed.

(* ------------------------------------------------------------------ encode_params, recursive form *)
Fixpoint enc_rec (ps : list param) : bytes :=
  match ps with
  | [] => []
  | p :: rest =>
      be16 (fst p) ++ be16 (len (snd p) + 4) ++ snd p ++
      match rest with
      | [] => []
      | _ => zpad (padl (len (snd p) + 4)) ++ enc_rec rest
      end
  end.

Lemma encode_fold ps : forall b pad,
  fst (fold_left encode_params_step ps (b, pad)) =
  match ps with [] => b | _ => b ++ pad ++ enc_rec ps end.
Proof.
  induction ps as [|p rest IH]; intros b pad; [reflexivity|].
  cbn [fold_left]. unfold encode_params_step at 2. cbn [fst snd]. rewrite IH.
  cbn [enc_rec]. destruct rest as [|q rest'].
  - rewrite <- !app_assoc. now rewrite !app_nil_r.
  - rewrite <- !app_assoc. reflexivity.
Qed.

Lemma encode_params_rec ps : encode_params ps = enc_rec ps.
Proof. unfold encode_params. rewrite encode_fold. destruct ps; reflexivity. Qed.

Lemma enc_rec_ok ps : params_okb ps = true -> bytes_ok (enc_rec ps).
Proof.
  induction ps as [|p rest IH]; intros H; [constructor|].
  cbn [params_okb forallb] in H. apply andb_true_iff in H. destruct H as [Hp Hr].
  unfold param_okb in Hp. apply andb_true_iff in Hp. destruct Hp as [Hp Hv].
  cbn [enc_rec]. rewrite !bytes_ok_app. repeat split; try apply be16_ok.
  - now apply bytes_okb_ok.
  - destruct rest; [constructor|]. apply bytes_ok_app. split; [apply zpad_ok|apply IH, Hr].
Qed.

Lemma enc_rec_length_ge ps : ps <> [] -> 4 <= len (enc_rec ps).
Proof.
  destruct ps as [|p rest]; [congruence|]. intros _. cbn [enc_rec].
  rewrite (app_assoc (be16 _)), len_app.
  pose proof (len_nonneg (snd p ++ match rest with [] => [] | _ :: _ => zpad (padl (len (snd p) + 4)) ++ enc_rec rest end)).
  change (len (be16 (fst p) ++ be16 (len (snd p) + 4))) with 4. lia.
Qed.

(* ------------------------------------------------------------------ decode_params *)
Lemma decode_shift fuel : forall pre b k,
  decode_params_loop fuel (pre ++ b) (length pre + k) =
  match decode_params_loop fuel b k with
  | Ok ps => Ok ps
  | e => e
  end.
Proof.
  induction fuel as [|f IH]; intros pre b k; [reflexivity|].
  cbn [decode_params_loop].
  replace (Z.of_nat (length pre + k) <=? len (pre ++ b) - 4) with (Z.of_nat k <=? len b - 4)
    by (rewrite len_app; unfold len; lia).
  destruct (Z.of_nat k <=? len b - 4); [|reflexivity].
  rewrite <- Nat.add_assoc, !u16_app_r.
  destruct (u16 b k) as [pt|]; [|reflexivity].
  destruct (u16 b (k + 2)) as [pl|]; [|reflexivity].
  replace (Z.of_nat (length pre + k) + pl >? len (pre ++ b)) with (Z.of_nat k + pl >? len b)
    by (rewrite len_app; unfold len; lia).
  destruct ((pl <? 4) || (Z.of_nat k + pl >? len b)); [reflexivity|].
  rewrite <- !Nat.add_assoc, IH, !slice_app_r.
  destruct (decode_params_loop f b (k + Z.to_nat (pl + padl pl))); reflexivity.
Qed.

Lemma decode_shift0 fuel pre b :
  decode_params_loop fuel (pre ++ b) (length pre) = decode_params_loop fuel b 0.
Proof.
  rewrite <- (Nat.add_0_r (length pre)), decode_shift.
  destruct (decode_params_loop fuel b 0); reflexivity.
Qed.

Lemma decode_past_end fuel body pos :
  len body - 4 < Z.of_nat pos -> decode_params_loop (S fuel) body pos = Ok [].
Proof.
  intros H. cbn [decode_params_loop].
  destruct (Z.of_nat pos <=? len body - 4) eqn:E; [lia|reflexivity].
Qed.

Lemma param_okb_iff p :
  param_okb p = true <-> 0 <= fst p < 65536 /\ len (snd p) + 4 < 65536 /\ bytes_ok (snd p).
Proof.
  unfold param_okb. rewrite !andb_true_iff, !in_u16_iff, bytes_okb_ok.
  pose proof (len_nonneg (snd p)). intuition lia.
Qed.

Lemma decode_enc_rec ps : forall fuel,
  params_okb ps = true -> (length ps < fuel)%nat ->
  decode_params_loop fuel (enc_rec ps) 0 = Ok ps.
Proof.
  induction ps as [|p rest IH]; intros fuel Hok Hf.
  - destruct fuel as [|f]; [lia|]. reflexivity.
  - destruct fuel as [|f]; [lia|]. cbn [length] in Hf.
    cbn [params_okb forallb] in Hok. apply andb_true_iff in Hok. destruct Hok as [Hp Hr].
    apply param_okb_iff in Hp. destruct Hp as (Ht & Hl & Hv).
    destruct p as [t v]. cbn [fst snd] in *.
    pose proof (len_nonneg v) as Hv0.
    set (tail := match rest with [] => [] | _ :: _ => zpad (padl (len v + 4)) ++ enc_rec rest end).
    change (decode_params_loop (S f) (be16 t ++ be16 (len v + 4) ++ v ++ tail) 0 = Ok ((t, v) :: rest)).
    cbn [decode_params_loop].
    assert (Elen : len (be16 t ++ be16 (len v + 4) ++ v ++ tail) = 4 + len v + len tail).
    { unfold len. rewrite !app_length, !length_be16. lia. }
    rewrite Elen. pose proof (len_nonneg tail) as Ht0.
    destruct (Z.of_nat 0 <=? 4 + len v + len tail - 4) eqn:E1; [|lia].
    rewrite (u16_be16 t) by lia.
    change (0 + 2)%nat with (length (be16 t) + 0)%nat. rewrite u16_app_r, u16_be16 by lia.
    destruct ((len v + 4 <? 4) || (Z.of_nat 0 + (len v + 4) >? 4 + len v + len tail)) eqn:E2; [lia|].
    replace (slice (be16 t ++ be16 (len v + 4) ++ v ++ tail) (0 + 4) (0 + Z.to_nat (len v + 4))) with v.
    2:{ rewrite (app_assoc (be16 t)).
        change (0 + 4)%nat with (length (be16 t ++ be16 (len v + 4))).
        replace (0 + Z.to_nat (len v + 4))%nat with (length (be16 t ++ be16 (len v + 4)) + length v)%nat.
        2:{ rewrite app_length, !length_be16; unfold len. lia. }
        now rewrite slice_app_mid. }
    pose proof (padl_range (len v + 4)) as Hpad.
    destruct rest as [|q rest'].
    + subst tail. destruct f as [|f']; [cbn [length] in Hf; lia|].
      rewrite decode_past_end; [reflexivity|].
      unfold len in *. rewrite !app_length, !length_be16. cbn [length]. lia.
    + subst tail.
      replace (be16 t ++ be16 (len v + 4) ++ v ++ zpad (padl (len v + 4)) ++ enc_rec (q :: rest'))
        with ((be16 t ++ be16 (len v + 4) ++ v ++ zpad (padl (len v + 4))) ++ enc_rec (q :: rest'))
        by (now rewrite <- !app_assoc).
      replace (0 + Z.to_nat (len v + 4 + padl (len v + 4)))%nat
        with (length (be16 t ++ be16 (len v + 4) ++ v ++ zpad (padl (len v + 4)))).
      2:{ rewrite !app_length, zpad_length, !length_be16 by lia. unfold len in *. lia. }
      rewrite decode_shift0, IH; [reflexivity|exact Hr|cbn [length] in *; lia].
Qed.

Lemma enc_rec_count ps : (4 * length ps <= length (enc_rec ps))%nat.
Proof.
  induction ps as [|p rest IH]; [cbn; lia|].
  cbn [enc_rec length]. rewrite !app_length, !length_be16.
  destruct rest as [|q rest']; [cbn [length]; lia|].
  rewrite app_length. lia.
Qed.

Lemma decode_encode_params ps :
  params_okb ps = true -> decode_params (encode_params ps) = Ok ps.
Proof.
  intros H. unfold decode_params. rewrite encode_params_rec.
  apply decode_enc_rec; [exact H|]. pose proof (enc_rec_count ps). lia.
Qed.

Lemma encode_params_ok ps : params_okb ps = true -> bytes_ok (encode_params ps).
Proof. rewrite encode_params_rec. apply enc_rec_ok. Qed.

Lemma encode_params_nil_inv ps : encode_params ps = [] -> ps = [].
Proof.
  rewrite encode_params_rec. destruct ps as [|p rest]; [reflexivity|]. intros H.
  pose proof (enc_rec_length_ge (p :: rest) ltac:(discriminate)) as G. rewrite H in G.
  unfold len in G. cbn [length] in G. lia.
Qed.

(* ------------------------------------------------------------------ folds that append *)
Lemma fold_left_app_flat {T} (f : T -> bytes) l : forall init,
  fold_left (fun d x => d ++ f x) l init = init ++ flat_map f l.
Proof.
  induction l as [|x l IH]; intros init; cbn [fold_left flat_map]; [now rewrite app_nil_r|].
  now rewrite IH, app_assoc.
Qed.

Lemma flat_map_length_const {T} (f : T -> bytes) n l :
  (forall x, length (f x) = n) -> length (flat_map f l) = (n * length l)%nat.
Proof.
  intros H. induction l as [|x l IH]; [cbn; lia|]. cbn [flat_map length]. rewrite app_length, H, IH. lia.
Qed.

Lemma flat_map_ok {T} (f : T -> bytes) l : (forall x, bytes_ok (f x)) -> bytes_ok (flat_map f l).
Proof.
  intros H. induction l as [|x l IH]; [constructor|]. cbn [flat_map]. apply bytes_ok_app. split; auto.
Qed.

Lemma pair_bytes_length p : length (pair_bytes p) = 4%nat.
Proof. reflexivity. Qed.
Lemma pair_bytes_ok p : bytes_ok (pair_bytes p).
Proof. unfold pair_bytes. apply bytes_ok_app. split; apply be16_ok. Qed.

(* ------------------------------------------------------------------ list readers *)
Lemma read_pairs_shift n : forall pre b k,
  read_pairs (pre ++ b) (length pre + k) n = read_pairs b k n.
Proof.
  induction n as [|n IH]; intros pre b k; [reflexivity|].
  cbn [read_pairs]. rewrite <- !Nat.add_assoc, !u16_app_r, IH. reflexivity.
Qed.

Lemma read_pairs_flat l : forall post,
  forallb pair_okb l = true ->
  read_pairs (flat_map pair_bytes l ++ post) 0 (length l) = Some l.
Proof.
  induction l as [|p l IH]; intros post H; [reflexivity|].
  cbn [forallb] in H. apply andb_true_iff in H. destruct H as [Hp Hl].
  unfold pair_okb in Hp. apply andb_true_iff in Hp. destruct Hp as [Ha Hb].
  apply in_u16_iff in Ha. apply in_u16_iff in Hb.
  cbn [flat_map length read_pairs]. destruct p as [a b]. cbn [fst snd] in *.
  change (pair_bytes (a, b)) with (be16 a ++ be16 b).
  rewrite <- !app_assoc. rewrite u16_be16 by lia.
  change (0 + 2)%nat with (length (be16 a) + 0)%nat. rewrite u16_app_r, u16_be16 by lia.
  rewrite (app_assoc (be16 a)).
  change (0 + 4)%nat with (length (be16 a ++ be16 b) + 0)%nat.
  rewrite read_pairs_shift, IH by exact Hl. reflexivity.
Qed.

Lemma read_u32s_shift n : forall pre b k,
  read_u32s (pre ++ b) (length pre + k) n = read_u32s b k n.
Proof.
  induction n as [|n IH]; intros pre b k; [reflexivity|].
  cbn [read_u32s]. rewrite <- !Nat.add_assoc, !u32_app_r, IH. reflexivity.
Qed.

Lemma read_u32s_flat l : forall post,
  forallb in_u32 l = true ->
  read_u32s (flat_map be32 l ++ post) 0 (length l) = Some l.
Proof.
  induction l as [|a l IH]; intros post H; [reflexivity|].
  cbn [forallb] in H. apply andb_true_iff in H. destruct H as [Ha Hl]. apply in_u32_iff in Ha.
  cbn [flat_map length read_u32s]. rewrite <- !app_assoc. rewrite u32_be32 by lia.
  change (0 + 4)%nat with (length (be32 a) + 0)%nat.
  rewrite read_u32s_shift, IH by exact Hl. reflexivity.
Qed.

Lemma read_u16s_shift n : forall pre b k,
  read_u16s (pre ++ b) (length pre + k) n = read_u16s b k n.
Proof.
  induction n as [|n IH]; intros pre b k; [reflexivity|].
  cbn [read_u16s]. rewrite <- !Nat.add_assoc, !u16_app_r, IH. reflexivity.
Qed.

Lemma read_u16s_flat l : forall post,
  forallb in_u16 l = true ->
  read_u16s (flat_map be16 l ++ post) 0 (length l) = Some l.
Proof.
  induction l as [|a l IH]; intros post H; [reflexivity|].
  cbn [forallb] in H. apply andb_true_iff in H. destruct H as [Ha Hl]. apply in_u16_iff in Ha.
  cbn [flat_map length read_u16s]. rewrite <- !app_assoc. rewrite u16_be16 by lia.
  change (0 + 2)%nat with (length (be16 a) + 0)%nat.
  rewrite read_u16s_shift, IH by exact Hl. reflexivity.
Qed.

Lemma fwd_shift fuel : forall pre b k,
  fwd_streams_loop fuel (pre ++ b) (length pre + k) = fwd_streams_loop fuel b k.
Proof.
  induction fuel as [|f IH]; intros pre b k; [reflexivity|].
  cbn [fwd_streams_loop].
  replace (Z.of_nat (length pre + k) <? len (pre ++ b)) with (Z.of_nat k <? len b)
    by (rewrite len_app; unfold len; lia).
  rewrite <- !Nat.add_assoc, !u16_app_r, IH. reflexivity.
Qed.

Lemma fwd_flat l : forall fuel,
  forallb pair_okb l = true -> (length l < fuel)%nat ->
  fwd_streams_loop fuel (flat_map pair_bytes l) 0 = Ok l.
Proof.
  induction l as [|p l IH]; intros fuel H Hf.
  - destruct fuel; [lia|]. reflexivity.
  - destruct fuel as [|f]; [lia|]. cbn [length] in Hf.
    cbn [forallb] in H. apply andb_true_iff in H. destruct H as [Hp Hl].
    unfold pair_okb in Hp. apply andb_true_iff in Hp. destruct Hp as [Ha Hb].
    apply in_u16_iff in Ha. apply in_u16_iff in Hb.
    cbn [flat_map fwd_streams_loop]. destruct p as [a b]. cbn [fst snd] in *.
    destruct (Z.of_nat 0 <? len (pair_bytes (a, b) ++ flat_map pair_bytes l)) eqn:E.
    2:{ rewrite len_app in E. pose proof (len_nonneg (flat_map pair_bytes l)).
        change (len (pair_bytes (a, b))) with 4 in E. lia. }
    change (pair_bytes (a, b)) with (be16 a ++ be16 b). rewrite <- !app_assoc. rewrite u16_be16 by lia.
    change (0 + 2)%nat with (length (be16 a) + 0)%nat. rewrite u16_app_r, u16_be16 by lia.
    rewrite (app_assoc (be16 a)).
    change (0 + 4)%nat with (length (be16 a ++ be16 b) + 0)%nat.
    rewrite fwd_shift, IH; [reflexivity|exact Hl|lia].
Qed.

(* ------------------------------------------------------------------ reading fixed fields *)
Lemma be16_recompose n : 0 <= n < 65536 -> (n / 256) mod 256 * 256 + n mod 256 = n.
Proof. lia. Qed.
Lemma be32_recompose n : 0 <= n < 4294967296 ->
  ((n / 16777216) mod 256 * 256 + (n / 65536) mod 256) * 65536 + ((n / 256) mod 256 * 256 + n mod 256) = n.
Proof. lia. Qed.

(* evaluate reads at literal offsets inside an explicit prefix of be* fields *)
Ltac rd :=
  cbn [u32 u16 u8 be32 be16 be8 app nth_error Nat.add];
  rewrite ?be32_recompose, ?be16_recompose by lia; try reflexivity.

(* ------------------------------------------------------------------ RE-CONFIG parameters *)
Lemma rparam_roundtrip p :
  rparam_okb p = true ->
  reconfig_param_parse (rparam_type p) (rparam_bytes p) = Some (Ok p) /\ bytes_ok (rparam_bytes p).
Proof.
  destruct p as [a b c streams|a n|a r]; cbn [rparam_okb rparam_type rparam_bytes]; intros H.
  - rewrite !andb_true_iff, !in_u32_iff in H. destruct H as [[[Ha Hb] Hc] Hs].
    rewrite fold_left_app_flat. split.
    2:{ rewrite !bytes_ok_app. repeat split; try apply be32_ok. apply flat_map_ok, be16_ok. }
    cbn [reconfig_param_parse Z.eqb Pos.eqb]. unfold reset_out_parse.
    set (body := (be32 a ++ be32 b ++ be32 c) ++ flat_map be16 streams).
    assert (L : len body = 12 + Z.of_nat (length streams) * 2).
    { subst body. unfold len. rewrite !app_length, !length_be32, (flat_map_length_const _ 2); [lia|reflexivity]. }
    assert (R1 : u32 body 0 = Some a) by (subst body; rd).
    assert (R2 : u32 body 4 = Some b) by (subst body; rd).
    assert (R3 : u32 body 8 = Some c) by (subst body; rd).
    assert (R4 : read_u16s body 12 (length streams) = Some streams).
    { subst body. change 12%nat with (length (be32 a ++ be32 b ++ be32 c) + 0)%nat.
      rewrite read_u16s_shift. rewrite <- (app_nil_r (flat_map be16 streams)).
      now apply read_u16s_flat. }
    rewrite L, R1, R2, R3.
    destruct ((12 + Z.of_nat (length streams) * 2 <? 12) ||
              negb ((12 + Z.of_nat (length streams) * 2) mod 2 =? 0)) eqn:E; [lia|].
    replace (Z.to_nat ((12 + Z.of_nat (length streams) * 2 - 12 + 1) / 2)) with (length streams) by lia.
    rewrite R4. reflexivity.
  - rewrite !andb_true_iff, in_u32_iff, in_u16_iff in H. destruct H as [Ha Hn]. split.
    2:{ rewrite !bytes_ok_app. repeat split; try apply be32_ok; apply be16_ok. }
    cbn [reconfig_param_parse Z.eqb Pos.eqb]. unfold add_out_parse.
    set (body := be32 a ++ be16 n ++ be16 0).
    assert (R1 : u32 body 0 = Some a) by (subst body; rd).
    assert (R2 : u16 body 4 = Some n) by (subst body; rd).
    assert (R3 : u16 body 6 = Some 0) by (subst body; rd).
    change (len body <? 8) with false. cbn [andb orb negb]. rewrite R1, R2, R3. reflexivity.
  - rewrite !andb_true_iff, !in_u32_iff in H. destruct H as [Ha Hr]. split.
    2:{ rewrite !bytes_ok_app. repeat split; apply be32_ok. }
    cbn [reconfig_param_parse Z.eqb Pos.eqb]. unfold reset_response_parse.
    set (body := be32 a ++ be32 r).
    assert (R1 : u32 body 0 = Some a) by (subst body; rd).
    assert (R2 : u32 body 4 = Some r) by (subst body; rd).
    change (len body <? 8) with false. cbn [andb orb negb]. rewrite R1, R2. reflexivity.
Qed.
