(* The video receive path (Model/RtpRecv.v): what reaches the NACK generator and the jitter buffer,
   and the decoder-queue / RTCP outputs in terms of the component models. *)
From Coq Require Import ZArith List Bool Lia.
From AV Require Import Lib.Bytes Lib.BytesP Lib.RtpX Gen.Utils Gen.RtpConst Model.Rtp Model.RtpRecv.
From AV Require Lib.CodecX Model.Jitter Proof.RtpPktP Proof.JitterP Proof.JitterInvP.
From AV Require Import Proof.SerialP Proof.RtpRecvNackP Proof.RtpRecvJbP.
Import ListNotations.
Local Open Scope Z_scope.

Definition is_some {T} (o : option T) : bool := match o with Some _ => true | None => false end.

(* the packet (after RTX unwrapping), its codec's payload type and kind; None = dropped / raised *)
Definition media_of (c : config) (p : rtp) : option (rtp * Z * ckind) :=
  match unwrap_stage c p with Ok (Some x) => Some x | _ => None end.

(* lines 526-530 *)
Definition data_of (k : ckind) (q : rtp) : CodecX.result bytes := payload_data k (payload q).

Definition jpkt_of (q : rtp) (d : bytes) : Jitter.pkt := Jitter.mkPkt (sequence_number q) (timestamp q) d.

Definition jb_input (c : config) (p : rtp) : list Jitter.pkt :=
  match media_of c p with
  | Some (q, _, k) => match data_of k q with CodecX.Ok d => [jpkt_of q d] | _ => [] end
  | None => []
  end.

Definition nack_input (c : config) (p : rtp) : list Z :=
  match media_of c p with Some (q, _, _) => [sequence_number q] | None => [] end.

(* outputs of the receiver against outputs of the jitter buffer *)
Inductive aligned (has_rtcp : bool) : list rout -> list Jitter.out -> Prop :=
| al_nil : aligned has_rtcp [] []
| al_skip o outs jouts :
    o_pli o = None -> o_frame o = None -> aligned has_rtcp outs jouts -> aligned has_rtcp (o :: outs) jouts
| al_step o outs pli fr jouts :
    is_some (o_pli o) = pli && has_rtcp ->
    match fr with
    | Some f => exists cpt t, o_frame o = Some (cpt, t, Jitter.fdata f)
    | None => o_frame o = None
    end ->
    aligned has_rtcp outs jouts -> aligned has_rtcp (o :: outs) ((pli, fr) :: jouts).

(* one packet *)
Lemma handle_factor c s a s' o :
  handle_rtp c s a = Ok (s', o) ->
  match media_of c a with
  | None => s' = s /\ o = quiet
  | Some (q, cpt, k) =>
      exists g missed,
        nack_add (nack s) (sequence_number q) = Some (g, missed) /\ nack s' = g /\
        o_nack o = (if missed
                    then match rtcp_ssrc c with Some me => Some (me, ssrc q, sorted_set (missing g)) | None => None end
                    else None) /\
        match data_of k q with
        | CodecX.Ok d =>
            exists jb' pli fr,
              Jitter.add (jbuf s) (jpkt_of q d) = Jitter.Ok (jb', (pli, fr)) /\ jbuf s' = jb' /\
              is_some (o_pli o) = pli && is_some (rtcp_ssrc c) /\
              match fr with
              | Some f => exists t, o_frame o = Some (cpt, t, Jitter.fdata f)
              | None => o_frame o = None
              end
        | _ => jbuf s' = jbuf s /\ o_pli o = None /\ o_frame o = None
        end
  end.
Proof.
  unfold handle_rtp, media_of. destruct (unwrap_stage c a) as [[[[q cpt] k]|]| | |]; cbn [bind]; try discriminate.
  2:{ intros E. injection E as <- <-. auto. }
  unfold media_stage, data_of.
  destruct (nack_add (nack s) (sequence_number q)) as [[g missed]|]; [|discriminate].
  intros E. exists g, missed. split; [reflexivity|].
  destruct (payload_data k (payload q)) as [d| | |]; try discriminate.
  - unfold jpkt_of.
    destruct (Jitter.add (jbuf s) (Jitter.mkPkt (sequence_number q) (timestamp q) d)) as [[jb' [pli fr]]| | |];
      try discriminate.
    destruct fr as [f|].
    + destruct (ts_map (tmap s) (Jitter.fts f)) as [tm' t]. injection E as <- <-. cbn [nack o_nack jbuf o_pli o_frame].
      split; [reflexivity|]. split; [reflexivity|]. exists jb', pli, (Some f). split; [reflexivity|]. split; [reflexivity|].
      split; [destruct pli, (rtcp_ssrc c); reflexivity|]. exists t. reflexivity.
    + injection E as <- <-. cbn [nack o_nack jbuf o_pli o_frame].
      split; [reflexivity|]. split; [reflexivity|]. exists jb', pli, None. split; [reflexivity|]. split; [reflexivity|].
      split; [destruct pli, (rtcp_ssrc c); reflexivity|reflexivity].
  - injection E as <- <-. cbn [nack o_nack jbuf o_pli o_frame]. auto.
Qed.

(* histories: the NACK generator sees the sequence numbers of `nack_input`, the jitter buffer the
   packets of `jb_input`, in order *)
Theorem run_factor c l : forall s s' outs,
  run c s l = Ok (s', outs) ->
  nack_run (nack s) (flat_map (nack_input c) l) = Some (nack s') /\
  exists jouts,
    Jitter.run (jbuf s) (flat_map (jb_input c) l) = Jitter.Ok (jbuf s', jouts) /\
    aligned (is_some (rtcp_ssrc c)) outs jouts.
Proof.
  induction l as [|a l IH]; intros s s' outs ER; cbn [run] in ER.
  - injection ER as <- <-. split; [reflexivity|]. exists []. split; [reflexivity|constructor].
  - destruct (handle_rtp c s a) as [[s1 o]| | |] eqn:EH; cbn [bind fst snd] in ER; try discriminate.
    destruct (run c s1 l) as [[s2 outs']| | |] eqn:ER'; cbn [bind fst snd] in ER; try discriminate.
    injection ER as <- <-. destruct (IH _ _ _ ER') as (N' & jouts' & J' & A').
    pose proof (handle_factor c s a s1 o EH) as HF.
    cbn [flat_map]. unfold nack_input at 1, jb_input at 1.
    destruct (media_of c a) as [[[q cpt] k]|].
    + destruct HF as (g & missed & EN & Eg & _ & HD). cbn [app nack_run]. rewrite EN, <- Eg. split; [exact N'|].
      destruct (data_of k q) as [d| | |].
      * destruct HD as (jb' & pli & fr & EA & Ej & Ep & Ef). cbn [app Jitter.run]. rewrite EA. cbn [Jitter.bind fst snd].
        rewrite <- Ej, J'. cbn [Jitter.bind fst snd]. eexists. split; [reflexivity|].
        apply al_step; [exact Ep| |exact A']. destruct fr as [f|]; [|exact Ef].
        destruct Ef as [t Ef]. exists cpt, t. exact Ef.
      * destruct HD as (Ej & Ep & Ef). cbn [app]. rewrite <- Ej. exists jouts'. split; [exact J'|].
        apply al_skip; assumption.
      * destruct HD as (Ej & Ep & Ef). cbn [app]. rewrite <- Ej. exists jouts'. split; [exact J'|].
        apply al_skip; assumption.
      * destruct HD as (Ej & Ep & Ef). cbn [app]. rewrite <- Ej. exists jouts'. split; [exact J'|].
        apply al_skip; assumption.
    + destruct HF as [-> ->]. cbn [app]. split; [exact N'|]. exists jouts'. split; [exact J'|].
      apply al_skip; [reflexivity|reflexivity|exact A'].
Qed.

(* ---- NACKs on the wire -------------------------------------------------------------- *)
Definition wire_ok (p : rtp) : Prop := in16 (sequence_number p) /\ bytes_ok (payload p).

Lemma media_of_in16 c p q cpt k : wire_ok p -> media_of c p = Some (q, cpt, k) -> in16 (sequence_number q).
Proof.
  intros [Hs Hb]. unfold media_of, unwrap_stage.
  destruct (assoc (codecs c) (payload_type p)) as [k0|]; [|discriminate].
  destruct k0 as [| | |apt]; try (intros E; injection E as <- _ _; exact Hs).
  destruct (assoc (rtx_ssrc c) (ssrc p)) as [os|]; [|discriminate].
  destruct apt as [a|]; [|discriminate].
  destruct (Nat.ltb (length (payload p)) 2); [discriminate|].
  destruct (assoc (codecs c) a) as [k1|]; [|discriminate].
  unfold unwrap_rtx. destruct (u16 (payload p) 0) as [v|] eqn:Ev; cbn [bind]; [|discriminate].
  intros E. injection E as <- _ _. cbn [sequence_number]. exact (u16_range _ _ _ Hb Ev).
Qed.

Lemma nack_inputs_in16 c l : Forall wire_ok l -> Forall in16 (flat_map (nack_input c) l).
Proof.
  induction 1 as [|p l Hp _ IH]; [constructor|]. cbn [flat_map]. apply Forall_app. split; [|exact IH].
  unfold nack_input. destruct (media_of c p) as [[[q cpt] k]|] eqn:E; [|constructor].
  constructor; [|constructor]. eapply media_of_in16; eassumption.
Qed.

(* every NACK the receiver sends lists the missing set of the generator at that moment: strictly
   increasing, at most 128 numbers, all within the window behind the newest number *)
Definition nack_fine (o : rout) : Prop :=
  match o_nack o with
  | Some (_, _, lost) => (length lost <= 128)%nat /\ increasing lost
  | None => True
  end.

Lemma run_nacks c l : forall s s' outs,
  NInv (nack s) -> Forall wire_ok l -> run c s l = Ok (s', outs) -> NInv (nack s') /\ Forall nack_fine outs.
Proof.
  induction l as [|a l IH]; intros s s' outs HI HW ER; cbn [run] in ER.
  - injection ER as <- <-. split; [exact HI|constructor].
  - inversion HW as [|? ? Ha HW']; subst.
    destruct (handle_rtp c s a) as [[s1 o]| | |] eqn:EH; cbn [bind fst snd] in ER; try discriminate.
    destruct (run c s1 l) as [[s2 outs']| | |] eqn:ER'; cbn [bind fst snd] in ER; try discriminate.
    injection ER as <- <-. pose proof (handle_factor c s a s1 o EH) as HF.
    assert (H1 : NInv (nack s1) /\ nack_fine o).
    { destruct (media_of c a) as [[[q cpt] k]|] eqn:EM.
      - destruct HF as (g & missed & EN & Eg & Eo & _).
        destruct (nack_add_spec (nack s) (sequence_number q) HI (media_of_in16 c a q cpt k Ha EM))
          as (g' & m' & EN' & HI' & _).
        rewrite EN in EN'. injection EN' as <- <-. rewrite Eg. split; [exact HI'|].
        unfold nack_fine. rewrite Eo. destruct missed; [|exact I]. destruct (rtcp_ssrc c); [|exact I].
        split; [exact (nack_list_bounded g HI')|apply increasing_sorted_set].
      - destruct HF as [-> ->]. split; [exact HI|exact I]. }
    destruct H1 as [HI1 Ho]. destruct (IH _ _ _ HI1 HW' ER') as [HI2 Hos]. split; [exact HI2|].
    constructor; assumption.
Qed.

(* ---- frames handed to the decoder ------------------------------------------------------- *)
Section Frames.
Variable jframes : list (list Jitter.pkt).

Definition whole_data (d : bytes) : Prop :=
  exists g, In g jframes /\ d = concat (map Jitter.pdata g).
Definition tail_data (d : bytes) : Prop :=
  exists g pre ps, In g jframes /\ g = pre ++ ps /\ ps <> [] /\ d = concat (map Jitter.pdata ps).
Definition part_data (d : bytes) : Prop :=
  exists g pre ps post, In g jframes /\ g = pre ++ ps ++ post /\ ps <> [] /\ JitterInvP.consec ps /\
                        d = concat (map Jitter.pdata ps).

Fixpoint pscan (clean : bool) (outs : list rout) : Prop :=
  match outs with
  | [] => True
  | o :: t =>
      let clean' := clean && negb (is_some (o_pli o)) in
      match o_frame o with
      | Some (_, _, d) => (if clean' then whole_data d else tail_data d) /\ pscan true t
      | None => pscan clean' t
      end
  end.

Lemma aligned_scan outs jouts : aligned true outs jouts ->
  forall clean, scan jframes clean jouts -> pscan clean outs.
Proof.
  induction 1 as [|o outs jouts Ep Ef _ IH|o outs pli fr jouts Ep Ef _ IH]; intros clean HS.
  - exact I.
  - cbn [pscan]. rewrite Ep, Ef. cbn [is_some negb]. rewrite andb_true_r. apply IH. exact HS.
  - cbn [pscan]. cbn [scan] in HS. rewrite andb_true_r in Ep. rewrite Ep. destruct fr as [f|].
    + destruct Ef as (cpt & t & ->). destruct HS as [HW HS]. split; [|apply IH; exact HS].
      destruct (clean && negb pli).
      * destruct HW as (g & Hg & _ & _ & Hd). exists g. auto.
      * destruct HW as (g & pre & ps & Hg & Eg & Hne & _ & Hd). exists g, pre, ps. auto.
    + rewrite Ef. apply IH. exact HS.
Qed.

Lemma aligned_parts b outs jouts : aligned b outs jouts -> parts jframes jouts ->
  Forall (fun o => match o_frame o with Some (_, _, d) => part_data d | None => True end) outs.
Proof.
  induction 1 as [|o outs jouts Ep Ef _ IH|o outs pli fr jouts Ep Ef _ IH]; intros HP.
  - constructor.
  - constructor; [rewrite Ef; exact I|apply IH; exact HP].
  - inversion HP as [|? ? H1 H2]; subst. constructor; [|apply IH; exact H2].
    cbn [snd] in H1. destruct fr as [f|]; [|rewrite Ef; exact I].
    destruct Ef as (cpt & t & ->). destruct H1 as (g & pre & ps & post & Hg & Eg & (Hne & _ & Hd) & Hc).
    exists g, pre, ps, post. auto.
Qed.

End Frames.

(* a NACK goes out whenever the missing set grows (when an RTCP SSRC is set), and it lists the
   whole missing set *)
Theorem nack_emitted c s a s' o q cpt k me :
  NInv (nack s) -> wire_ok a -> handle_rtp c s a = Ok (s', o) -> media_of c a = Some (q, cpt, k) ->
  rtcp_ssrc c = Some me ->
  (exists x, In x (missing (nack s')) /\ ~ In x (missing (nack s))) ->
  o_nack o = Some (me, ssrc q, sorted_set (missing (nack s'))).
Proof.
  intros HI Ha EH EM Eme (x & Hx & Hnx). pose proof (handle_factor c s a s' o EH) as HF. rewrite EM in HF.
  destruct HF as (g & missed & EN & Eg & Eo & _). rewrite Eo, Eme, Eg.
  destruct (nack_add_spec (nack s) (sequence_number q) HI (media_of_in16 c a q cpt k Ha EM))
    as (g' & m' & EN' & _ & Hspec).
  rewrite EN in EN'. injection EN' as <- <-. rewrite Eg in Hx.
  destruct (max_seq (nack s)) as [m|].
  - destruct Hspec as (_ & Hchar & Hmiss). apply Hchar in Hx.
    destruct Hx as (_ & _ & _ & [Hold|[Hgt Hsk]]); [contradiction|].
    assert (missed = true) as ->; [|reflexivity].
    apply Hmiss. split; [exact Hgt|]. unfold skipped in Hsk. lia.
  - destruct Hspec as (_ & Hm & _). rewrite Hm in Hx. destruct Hx.
Qed.
