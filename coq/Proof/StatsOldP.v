(* The two defects of the UNREPAIRED aiortc code (DESIGN.md section 7, item 18), recorded as
   refutations: `add_old` / `report_old` transcribe rtcrtpreceiver.py as it was before the
   fix commits (transit difference with unbounded integers; highest_sequence = max_seq).
   Everything else is shared with Model/Stats.v.  The witnesses below were replayed on the
   unrepaired implementation (corpus/C18.jsonl, cases 1-6). *)
From Coq Require Import ZArith List Bool Lia.
From AV Require Import Lib.Bytes Gen.Utils Gen.RtpConst Model.Stats Proof.StatsP Proof.StatsRunP.
Import ListNotations.
Local Open Scope Z_scope.

Definition ev_okb (e : ev) : bool :=
  match e with Rtp seq _ _ => (0 <=? seq) && (seq <? 65536) | _ => true end.

Lemma ev_okb_ok l : forallb ev_okb l = true -> Forall ev_ok l.
Proof.
  induction l as [|e l IH]; cbn [forallb]; intros H; [constructor|].
  apply andb_true_iff in H. destruct H as [H1 H2]. constructor; [|exact (IH H2)].
  destruct e; cbn in *; try exact I. lia.
Qed.

Definition add_old (s : stats) (seq ts arrival : Z) : result stats :=
  let in_order := match max_seq s with None => true | Some m => uint16_gt seq m end in
  let received := packets_received s + 1 in
  let base := match base_seq s with None => Some seq | Some b => Some b end in
  if in_order then
    let cyc := match max_seq s with
               | Some m => if Z.ltb seq m then cycles s + Z.shiftl 1 16 else cycles s
               | None => cycles s
               end in
    if neq_opt ts (last_timestamp s) && Z.ltb 1 received then
      match last_arrival s, last_timestamp s with
      | Some la, Some lt =>
          let diff := Z.abs ((arrival - la) - (ts - lt)) in
          Ok (mkStats base (Some seq) cyc received
                      (jitter_q4 s + (diff - Z.shiftr (jitter_q4 s + 8) 4))
                      (Some arrival) (Some ts) (expected_prior s) (received_prior s))
      | _, _ => Crash
      end
    else
      Ok (mkStats base (Some seq) cyc received (jitter_q4 s)
                  (Some arrival) (Some ts) (expected_prior s) (received_prior s))
  else
    Ok (mkStats base (max_seq s) (cycles s) received (jitter_q4 s)
                (last_arrival s) (last_timestamp s) (expected_prior s) (received_prior s)).

Definition report_old (S rs : Z) (r : recv) (now : Z) : recv * out :=
  match stream r with
  | None => (r, ONoReport)
  | Some s =>
      let '(l, d) := lsr_dlsr r now in
      match fraction_lost s with
      | Ok (fl, s1) =>
          let r1 := mkRecv (Some s1) (lsr r) (lsr_time r) in
          match packets_lost s1, max_seq s1 with
          | Ok pl, Some m =>
              let i := mkInfo S fl pl m (jitter s1) l d in
              (r1, OReport i (rr_bytes rs i))
          | _, _ => (r1, OReportCrash)
          end
      | _ => (r, OReportCrash)
      end
  end.

Definition step_old (S rs : Z) (r : recv) (e : ev) : recv * out :=
  match e with
  | Rtp seq ts arrival =>
      match add_old (match stream r with None => init | Some s => s end) seq ts arrival with
      | Ok s' => (mkRecv (Some s') (lsr r) (lsr_time r), ONone)
      | _ => (r, ORtpCrash)
      end
  | Report now => report_old S rs r now
  | _ => step S rs r e
  end.

Fixpoint run_old (S rs : Z) (r : recv) (evs : list ev) : recv * list out :=
  match evs with
  | [] => (r, [])
  | e :: evs' =>
      let '(r1, o) := step_old S rs r e in
      let '(r2, os) := run_old S rs r1 evs' in
      (r2, o :: os)
  end.

(* defect 1: after one sequence wrap the report says 1, the extended number is 65537 *)
Lemma highest_refuted_before_fix :
  exists evs i b,
    Forall ev_ok evs /\
    last (snd (run_old 1234 1 recv0 (evs ++ [Report 0]))) ONone = OReport i b /\
    ri_highest i = 1 /\ (first_seq (pkts evs) + fwd (pkts evs)) mod 4294967296 = 65537.
Proof.
  exists [Rtp 65534 0 0; Rtp 65535 160 160; Rtp 0 320 320; Rtp 1 480 480].
  eexists. eexists. split; [apply ev_okb_ok; reflexivity|].
  split; [vm_compute; reflexivity|]. split; reflexivity.
Qed.

(* defect 2a: a timestamp wrap with perfectly regular arrivals gives jitter 2^28 *)
Lemma jitter_refuted_before_fix :
  exists evs s,
    Forall ev_ok evs /\ stream (fst (run_old 1234 1 recv0 evs)) = Some s /\
    jitter s = 268435456 /\ jitter_ref (pkts evs) / 16 = 0.
Proof.
  exists [Rtp 0 (4294967296 - 160) 0; Rtp 1 0 160]. eexists.
  split; [apply ev_okb_ok; reflexivity|]. split; [vm_compute; reflexivity|]. split; reflexivity.
Qed.

(* defect 2b: an arrival clock jumping by 2^40 makes the jitter field overflow: pack raises *)
Fixpoint jumpy (n : nat) (i : Z) : list ev :=
  match n with
  | O => []
  | S n' => Rtp i i ((i mod 2) * 1099511627776) :: jumpy n' (i + 1)
  end.

Lemma fits_refuted_before_fix :
  exists evs i,
    Forall ev_ok evs /\
    last (snd (run_old 1234 1 recv0 (evs ++ [Report 0]))) ONone = OReport i Crash /\
    4294967296 <= ri_jitter i.
Proof.
  exists (jumpy 40 0). eexists.
  split; [apply ev_okb_ok; vm_compute; reflexivity|].
  split; [vm_compute; reflexivity|]. vm_compute. discriminate.
Qed.
