(* C17: the SCTP sender (Model/SctpTx.v) does not depend on the TSN origin: shifting every TSN
   of the state and of the inputs by any delta (mod 2^32) yields the same behaviour, with the
   TSNs of the outputs shifted by the same delta. *)
From Coq Require Import ZArith List Bool Lia ZifyBool.
From AV Require Import Lib.Bytes Gen.Utils Gen.SctpConst Model.SctpTx Proof.SerialP Proof.SctpTxP Proof.SctpTxLiveP Proof.SctpShiftP.
Import ListNotations.
Local Open Scope Z_scope.

Ltac Zify.zify_post_hook ::= Z.to_euclidean_division_equations.

Section TxShift.
Variable d : Z.
Local Notation sh := (SctpShiftP.sh d).
Local Notation r32 := SctpShiftP.r32.

Definition shc (c : sc) : sc :=
  mkSc (sh (c_tsn c)) (c_sid c) (c_sseq c) (c_unord c) (c_first c) (c_last c) (c_book c)
       (c_acked c) (c_abandoned c) (c_retx c) (c_misses c) (c_sent_count c) (c_maxrt c) (c_expiry c).
Definition cok (c : sc) : Prop := r32 (c_tsn c).

Definition sho (o : option Z) : option Z := match o with Some e => Some (sh e) | None => None end.
Definition shf (f : option (Z * list (Z * Z))) := match f with Some (c, l) => Some (sh c, l) | None => None end.

Definition shs (s : tx) : tx :=
  mkTx (cwnd s) (ssthresh s) (flight s) (sho (fr_exit s)) (fr_transmit s) (shf (fwd_chunk s)) (fwd_streams s)
       (sh (last_sacked s)) (sh (adv_ack s)) (map shc (outq s)) (map shc (sentq s)) (pba s) (t3 s) (pending_tx s).

Definition shout (o : out) : out :=
  match o with OData t n => OData (sh t) n | OFwd c l => OFwd (sh c) l | OSchedTransmit => OSchedTransmit end.

Definition shi (i : input) : input :=
  match i with ISendMsg cs => ISendMsg (map shc cs) | ISack cum g now => ISack (sh cum) g now | x => x end.

Lemma shc_flags c a b r m n : shc (set_flags c a b r m n) = set_flags (shc c) a b r m n.
Proof. reflexivity. Qed.

(* ---- abandonment: no TSN is looked at *)
Lemma sh_abandon_chunk fl c sib : abandon_chunk fl (shc c) sib = (fst (abandon_chunk fl c sib), shc (snd (abandon_chunk fl c sib))).
Proof. reflexivity. Qed.

Lemma sh_mark_back : forall pre fl, mark_back fl (map shc pre) = (fst (mark_back fl pre), map shc (snd (mark_back fl pre))).
Proof.
  induction pre as [|c pre IH]; intros fl; cbn [mark_back map]; [reflexivity|].
  rewrite sh_abandon_chunk. destruct (abandon_chunk fl c true) as [fl1 c1]. cbn [fst snd shc c_first].
  destruct (c_first c); [reflexivity|]. rewrite IH. destruct (mark_back fl1 pre) as [fl2 pre2]. reflexivity.
Qed.

Lemma sh_mark_fwd : forall post fl,
  mark_fwd fl (map shc post) = let '(fl', post', found) := mark_fwd fl post in (fl', map shc post', found).
Proof.
  induction post as [|c post IH]; intros fl; cbn [mark_fwd map]; [reflexivity|].
  rewrite sh_abandon_chunk. destruct (abandon_chunk fl c true) as [fl1 c1]. cbn [fst snd shc c_last].
  destruct (c_last c); [reflexivity|]. rewrite IH. destruct (mark_fwd fl1 post) as [[fl2 post2] found]. reflexivity.
Qed.

Lemma sh_pull_unsent : forall oq, pull_unsent (map shc oq) = (map shc (fst (pull_unsent oq)), map shc (snd (pull_unsent oq))).
Proof.
  induction oq as [|c oq IH]; cbn [pull_unsent map]; [reflexivity|]. cbn [shc c_last].
  change (snd (abandon_chunk 0 (shc c) false)) with (shc (snd (abandon_chunk 0 c false))).
  destruct (c_last c); [reflexivity|]. rewrite IH. destruct (pull_unsent oq) as [mv rest]. reflexivity.
Qed.

Lemma sh_should_abandon c now : should_abandon (shc c) now = should_abandon c now.
Proof. reflexivity. Qed.

Lemma sh_maybe_abandon fl pre cur post oq now :
  maybe_abandon fl (map shc pre) (shc cur) (map shc post) (map shc oq) now =
  let '(ab, fl', pre', cur', post', oq') := maybe_abandon fl pre cur post oq now in
  (ab, fl', map shc pre', shc cur', map shc post', map shc oq').
Proof.
  unfold maybe_abandon. rewrite sh_should_abandon. cbn [shc c_abandoned c_first c_last].
  destruct (c_abandoned cur); [reflexivity|]. destruct (negb (should_abandon cur now)); [reflexivity|].
  rewrite sh_abandon_chunk. destruct (abandon_chunk fl cur false) as [fl0 cur1]. cbn [fst snd].
  assert (E1 : (if c_first cur then (fl0, map shc pre) else mark_back fl0 (map shc pre)) =
               (fst (if c_first cur then (fl0, pre) else mark_back fl0 pre),
                map shc (snd (if c_first cur then (fl0, pre) else mark_back fl0 pre)))).
  { destruct (c_first cur); [reflexivity|apply sh_mark_back]. }
  rewrite E1. destruct (if c_first cur then (fl0, pre) else mark_back fl0 pre) as [fl1 pre1]. cbn [fst snd].
  destruct (c_last cur); [reflexivity|].
  rewrite sh_mark_fwd. destruct (mark_fwd fl1 post) as [[fl2 post2] found]. destruct found; [reflexivity|].
  rewrite sh_pull_unsent. destruct (pull_unsent oq) as [mv rest]. cbn [fst snd]. now rewrite map_app.
Qed.

(* ---- advanced peer ack point *)
Lemma sh_pop_abandoned : forall sq adv strs,
  pop_abandoned (map shc sq) (sh adv) strs =
  let '(sq', adv', strs') := pop_abandoned sq adv strs in (map shc sq', sh adv', strs').
Proof.
  induction sq as [|c sq IH]; intros adv strs; cbn [pop_abandoned map]; [reflexivity|].
  cbn [shc c_abandoned c_unord c_sid c_sseq c_tsn]. destruct (c_abandoned c); [|reflexivity].
  rewrite IH. reflexivity.
Qed.

Record rok (s : tx) : Prop := mkRok {
  k_sq : Forall cok (sentq s); k_oq : Forall cok (outq s);
  k_ls : r32 (last_sacked s); k_av : r32 (adv_ack s);
  k_fe : forall e, fr_exit s = Some e -> r32 e;
  k_fw : forall c l, fwd_chunk s = Some (c, l) -> r32 c }.

Lemma sh_update_adv s : r32 (last_sacked s) -> r32 (adv_ack s) -> update_adv (shs s) = shs (update_adv s).
Proof.
  intros Hl Ha. unfold update_adv. cbn [shs last_sacked adv_ack fwd_streams sentq].
  rewrite (sh_gte d) by assumption.
  destruct (uint32_gte (last_sacked s) (adv_ack s)).
  - rewrite sh_pop_abandoned. destruct (pop_abandoned (sentq s) (last_sacked s) None) as [[sq adv] strs].
    unfold shs. cbn [cwnd ssthresh flight fr_exit fr_transmit fwd_chunk fwd_streams last_sacked adv_ack outq sentq pba t3 pending_tx].
    destruct strs; reflexivity.
  - rewrite sh_pop_abandoned. destruct (pop_abandoned (sentq s) (adv_ack s) (fwd_streams s)) as [[sq adv] strs].
    unfold shs. cbn [cwnd ssthresh flight fr_exit fr_transmit fwd_chunk fwd_streams last_sacked adv_ack outq sentq pba t3 pending_tx].
    destruct strs; reflexivity.
Qed.

(* ---- _transmit *)
Lemma sh_retx_loop : forall sq fl cw frt e t3r,
  retx_loop (map shc sq) fl cw frt e t3r =
  let '(sq', fl', frt', t3r', stop, outs) := retx_loop sq fl cw frt e t3r in (map shc sq', fl', frt', t3r', stop, map shout outs).
Proof.
  induction sq as [|c sq IH]; intros fl cw frt e t3r; cbn [retx_loop map]; [reflexivity|].
  cbn [shc c_retx c_book c_abandoned c_sent_count c_tsn]. destruct (c_retx c).
  - destruct (negb frt && (cw <=? fl)); [reflexivity|].
    rewrite IH. destruct (retx_loop sq (fl + c_book c) cw false false (t3r || e)) as [[[[[sq2 fl2] frt2] t3r2] stop] outs]. reflexivity.
  - rewrite IH. destruct (retx_loop sq fl cw frt false t3r) as [[[[[sq2 fl2] frt2] t3r2] stop] outs]. reflexivity.
Qed.

Lemma sh_new_loop : forall oq fl cw,
  new_loop (map shc oq) fl cw =
  let '(mv, rest, fl', outs) := new_loop oq fl cw in (map shc mv, map shc rest, fl', map shout outs).
Proof.
  induction oq as [|c oq IH]; intros fl cw; cbn [new_loop map]; [reflexivity|].
  destruct (fl <? cw); [|reflexivity]. cbn [shc c_book c_acked c_abandoned c_retx c_misses c_sent_count c_tsn].
  rewrite IH. destruct (new_loop oq (fl + c_book c) cw) as [[[mv rest] fl2] outs]. reflexivity.
Qed.

Lemma sh_transmit s : transmit (shs s) = (shs (fst (transmit s)), map shout (snd (transmit s))).
Proof.
  unfold transmit. cbn [shs fwd_chunk t3 fr_exit flight cwnd sentq fr_transmit outq].
  assert (E1 : (match shf (fwd_chunk s) with Some (cum, strs) => ([OFwd cum strs], true) | None => ([], t3 s) end) =
               (map shout (fst (match fwd_chunk s with Some (cum, strs) => ([OFwd cum strs], true) | None => ([], t3 s) end)),
                snd (match fwd_chunk s with Some (cum, strs) => ([OFwd cum strs], true) | None => ([], t3 s) end)))
    by (destruct (fwd_chunk s) as [[c l]|]; reflexivity).
  rewrite E1. destruct (match fwd_chunk s with Some (cum, strs) => ([OFwd cum strs], true) | None => ([], t3 s) end) as [fo t3a].
  cbn [fst snd].
  assert (E2 : match sho (fr_exit s) with Some _ => true | None => false end = match fr_exit s with Some _ => true | None => false end)
    by (destruct (fr_exit s); reflexivity).
  rewrite E2. set (cw := Z.min _ (cwnd s)).
  rewrite sh_retx_loop. destruct (retx_loop (sentq s) (flight s) cw (fr_transmit s) true false) as [[[[[sq fl] frt] t3r] stop] o1].
  destruct stop.
  - cbn [fst snd]. unfold shs.
    cbn [cwnd ssthresh flight fr_exit fr_transmit fwd_chunk fwd_streams last_sacked adv_ack outq sentq pba t3 pending_tx shf].
    rewrite map_app. reflexivity.
  - rewrite sh_new_loop. destruct (new_loop (outq s) fl cw) as [[[mv rest] fl2] o2]. cbn [fst snd]. unfold shs.
    cbn [cwnd ssthresh flight fr_exit fr_transmit fwd_chunk fwd_streams last_sacked adv_ack outq sentq pba t3 pending_tx shf].
    rewrite !map_app, map_length. reflexivity.
Qed.

(* ---- SACK processing *)
Lemma Forall_cok_inv c l : Forall cok (c :: l) -> r32 (c_tsn c) /\ Forall cok l.
Proof. intros H. inversion H; auto. Qed.

Lemma sh_pop_acked : forall sq cum fl dn db, r32 cum -> Forall cok sq ->
  pop_acked (map shc sq) (sh cum) fl dn db = let '(sq', fl', dn', db') := pop_acked sq cum fl dn db in (map shc sq', fl', dn', db').
Proof.
  induction sq as [|c sq IH]; intros cum fl dn db Hc Hs; cbn [pop_acked map]; [reflexivity|].
  apply Forall_cok_inv in Hs as [Hc0 Hs]. cbn [shc c_tsn c_acked c_book]. rewrite (sh_gte d) by assumption.
  destruct (uint32_gte cum (c_tsn c)); [|reflexivity].
  assert (Ed : dec fl (shc c) = dec fl c) by reflexivity.
  destruct (c_acked c); [now apply IH|]. rewrite Ed. now apply IH.
Qed.

Lemma sh_tsn_off cum t : tsn_off (sh cum) (sh t) = tsn_off cum t.
Proof. unfold tsn_off, SctpShiftP.sh, SCTP_TSN_MODULO. lia. Qed.

Lemma sh_highest_seen : forall gaps cum last_pos cur,
  highest_seen (sh cum) last_pos gaps (sh cur) = sh (highest_seen cum last_pos gaps cur).
Proof.
  induction gaps as [|g gaps IH]; intros cum last_pos cur; cbn [highest_seen]; [reflexivity|].
  destruct (fst g <=? Z.min (snd g) last_pos); [|apply IH].
  assert (E : (sh cum + Z.min (snd g) last_pos) mod SCTP_TSN_MODULO = sh ((cum + Z.min (snd g) last_pos) mod SCTP_TSN_MODULO))
    by (unfold SctpShiftP.sh, SCTP_TSN_MODULO; lia).
  rewrite E. apply IH.
Qed.

Lemma highest_seen_r32 : forall gaps cum last_pos cur, r32 cur -> r32 (highest_seen cum last_pos gaps cur).
Proof.
  induction gaps as [|g gaps IH]; intros cum last_pos cur Hc; cbn [highest_seen]; [exact Hc|].
  apply IH. destruct (fst g <=? _); [|exact Hc]. unfold SctpShiftP.r32, SCTP_TSN_MODULO. lia.
Qed.

Lemma sh_gap_ack : forall sq cum last_pos hs gaps fl db htna, r32 hs -> Forall cok sq ->
  gap_ack (map shc sq) (sh cum) last_pos (sh hs) gaps fl db (sh htna) =
  let '(sq', fl', db', h') := gap_ack sq cum last_pos hs gaps fl db htna in (map shc sq', fl', db', sh h').
Proof.
  induction sq as [|c sq IH]; intros cum last_pos hs gaps fl db htna Hh Hs; cbn [gap_ack map]; [reflexivity|].
  apply Forall_cok_inv in Hs as [Hc0 Hs]. cbn [shc c_tsn c_acked c_abandoned c_retx c_misses c_sent_count c_book].
  rewrite (sh_gt d) by assumption. destruct (uint32_gt (c_tsn c) hs); [reflexivity|].
  rewrite sh_tsn_off. destruct (in_gaps gaps last_pos (tsn_off cum (c_tsn c)) && negb (c_acked c)).
  - assert (Ed : dec fl (shc c) = dec fl c) by reflexivity.
    change (mkSc (sh (c_tsn c)) (c_sid c) (c_sseq c) (c_unord c) (c_first c) (c_last c) (c_book c) (c_acked c)
                 (c_abandoned c) (c_retx c) (c_misses c) (c_sent_count c) (c_maxrt c) (c_expiry c)) with (shc c).
    rewrite Ed, (IH cum last_pos hs gaps (dec fl c) (db + c_book c) (c_tsn c) Hh Hs).
    destruct (gap_ack sq cum last_pos hs gaps (dec fl c) (db + c_book c) (c_tsn c)) as [[[sq2 fl2] db2] h2]. reflexivity.
  - rewrite (IH cum last_pos hs gaps fl db htna Hh Hs).
    destruct (gap_ack sq cum last_pos hs gaps fl db htna) as [[[sq2 fl2] db2] h2]. reflexivity.
Qed.

Lemma gap_ack_htna_r32 : forall sq cum last_pos hs gaps fl db htna, r32 htna -> Forall cok sq ->
  r32 (snd (gap_ack sq cum last_pos hs gaps fl db htna)).
Proof.
  induction sq as [|c sq IH]; intros cum last_pos hs gaps fl db htna Hh Hs; cbn [gap_ack]; [exact Hh|].
  apply Forall_cok_inv in Hs as [Hc0 Hs]. destruct (uint32_gt (c_tsn c) hs); [exact Hh|].
  destruct (in_gaps gaps last_pos (tsn_off cum (c_tsn c)) && negb (c_acked c)).
  - specialize (IH cum last_pos hs gaps (dec fl c) (db + c_book c) (c_tsn c) Hc0 Hs).
    destruct (gap_ack sq cum last_pos hs gaps (dec fl c) (db + c_book c) (c_tsn c)) as [[[sq2 fl2] db2] h2]. exact IH.
  - specialize (IH cum last_pos hs gaps fl db htna Hh Hs).
    destruct (gap_ack sq cum last_pos hs gaps fl db htna) as [[[sq2 fl2] db2] h2]. exact IH.
Qed.

Lemma Forall_cok_tsns l : Forall cok l <-> Forall r32 (tsns l).
Proof. unfold tsns. rewrite Forall_map. reflexivity. Qed.

Lemma sh_strike : forall n pre post oq cum last_pos htna gaps fl loss now, r32 htna -> Forall cok post -> Forall cok oq ->
  strike n (map shc pre) (map shc post) (map shc oq) (sh cum) last_pos (sh htna) gaps fl loss now =
  let '(sq', oq', fl', loss') := strike n pre post oq cum last_pos htna gaps fl loss now in (map shc sq', map shc oq', fl', loss').
Proof.
  induction n as [|n IH]; intros pre post oq cum last_pos htna gaps fl loss now Hh Hp Ho; cbn [strike].
  - rewrite map_app, map_rev. reflexivity.
  - destruct post as [|c post]; cbn [map]; [rewrite map_app, map_rev; reflexivity|].
    apply Forall_cok_inv in Hp as [Hc0 Hp]. cbn [shc c_tsn]. rewrite (sh_gt d) by assumption.
    change (mkSc (sh (c_tsn c)) (c_sid c) (c_sseq c) (c_unord c) (c_first c) (c_last c) (c_book c) (c_acked c)
                 (c_abandoned c) (c_retx c) (c_misses c) (c_sent_count c) (c_maxrt c) (c_expiry c)) with (shc c).
    destruct (uint32_gt (c_tsn c) htna).
    { change (shc c :: map shc post) with (map shc (c :: post)). rewrite <- map_rev, <- map_app. reflexivity. }
    rewrite sh_tsn_off. destruct (negb (in_gaps gaps last_pos (tsn_off cum (c_tsn c)))).
    + cbn [shc c_misses]. destruct (c_misses c + 1 =? 3).
      * set (c0 := set_flags c (c_acked c) (c_abandoned c) (c_retx c) 0 (c_sent_count c)).
        change (set_flags (shc c) (c_acked (shc c)) (c_abandoned (shc c)) (c_retx (shc c)) 0 (c_sent_count (shc c))) with (shc c0).
        rewrite sh_maybe_abandon.
        pose proof (maybe_abandon_tsns fl pre c0 post oq now) as Ht.
        destruct (maybe_abandon fl pre c0 post oq now) as [[[[[ab fl1] pre1] c1] post1] oq1]. destruct Ht as (_ & _ & Ht).
        set (c2 := set_flags c1 false (c_abandoned c1) (if ab then c_retx c1 else true) (c_misses c1) (c_sent_count c1)).
        assert (E2 : set_flags (shc c1) false (c_abandoned (shc c1)) (if ab then c_retx (shc c1) else true) (c_misses (shc c1)) (c_sent_count (shc c1)) = shc c2) by reflexivity.
        rewrite E2. change (shc c2 :: map shc pre1) with (map shc (c2 :: pre1)).
        assert (Ed : dec fl1 (shc c2) = dec fl1 c2) by reflexivity. rewrite Ed.
        assert (Hpo : Forall cok post1 /\ Forall cok oq1).
        { rewrite !Forall_cok_tsns. apply Forall_app. rewrite Ht. apply Forall_app. rewrite <- !Forall_cok_tsns. auto. }
        destruct Hpo. now apply IH.
      * set (c1 := set_flags c (c_acked c) (c_abandoned c) (c_retx c) (c_misses c + 1) (c_sent_count c)).
        change (set_flags (shc c) (c_acked (shc c)) (c_abandoned (shc c)) (c_retx (shc c)) (c_misses c + 1) (c_sent_count (shc c))) with (shc c1).
        change (shc c1 :: map shc pre) with (map shc (c1 :: pre)). now apply IH.
    + change (shc c :: map shc pre) with (map shc (c :: pre)). now apply IH.
Qed.

Lemma sh_last_tsn sq d0 : sq <> [] -> last_tsn (map shc sq) d0 = sh (last_tsn sq d0).
Proof.
  intros Hne. unfold last_tsn. rewrite <- map_rev. destruct (rev sq) as [|c r] eqn:E.
  - exfalso. apply Hne. rewrite <- (rev_involutive sq), E. reflexivity.
  - reflexivity.
Qed.

Lemma last_tsn_r32 sq : Forall cok sq -> r32 (last_tsn sq 0).
Proof.
  intros H. unfold last_tsn. destruct (rev sq) as [|c r] eqn:E; [unfold SctpShiftP.r32; lia|].
  rewrite Forall_forall in H. apply H. apply in_rev. rewrite E. now left.
Qed.

(* strike never shortens what it has already walked over: a reported loss leaves a non-empty queue *)
Lemma strike_length : forall n pre post oq cum last_pos htna gaps fl loss now,
  let '(sq', _, _, loss') := strike n pre post oq cum last_pos htna gaps fl loss now in
  (length pre <= length sq')%nat /\ (loss' = true -> loss = true \/ sq' <> []).
Proof.
  induction n as [|n IH]; intros pre post oq cum last_pos htna gaps fl loss now; cbn [strike].
  - rewrite app_length, rev_length. split; [lia|auto].
  - destruct post as [|c post]; [rewrite app_length, rev_length; split; [lia|auto]|].
    destruct (uint32_gt (c_tsn c) htna); [rewrite app_length, rev_length; split; [lia|auto]|].
    destruct (negb (in_gaps gaps last_pos (tsn_off cum (c_tsn c)))).
    + destruct (c_misses c + 1 =? 3).
      * set (c0 := set_flags c (c_acked c) (c_abandoned c) (c_retx c) 0 (c_sent_count c)).
        pose proof (maybe_abandon_tsns fl pre c0 post oq now) as Ht.
        destruct (maybe_abandon fl pre c0 post oq now) as [[[[[ab fl1] pre1] c1] post1] oq1]. destruct Ht as (Ht & _ & _).
        apply (f_equal (@length Z)) in Ht. rewrite !tsns_length in Ht.
        set (c2 := set_flags c1 false (c_abandoned c1) (if ab then c_retx c1 else true) (c_misses c1) (c_sent_count c1)).
        specialize (IH (c2 :: pre1) post1 oq1 cum last_pos htna gaps (dec fl1 c2) true now).
        destruct (strike n (c2 :: pre1) post1 oq1 cum last_pos htna gaps (dec fl1 c2) true now) as [[[sq' oq'] fl'] loss'].
        destruct IH as [L _]. cbn [length] in L. split; [lia|]. intros _. right. destruct sq'; [cbn in L; lia|discriminate].
      * set (c1 := set_flags c (c_acked c) (c_abandoned c) (c_retx c) (c_misses c + 1) (c_sent_count c)).
        specialize (IH (c1 :: pre) post oq cum last_pos htna gaps fl loss now).
        destruct (strike n (c1 :: pre) post oq cum last_pos htna gaps fl loss now) as [[[sq' oq'] fl'] loss'].
        destruct IH as [L H]. cbn [length] in L. split; [lia|exact H].
    + specialize (IH (c :: pre) post oq cum last_pos htna gaps fl loss now).
      destruct (strike n (c :: pre) post oq cum last_pos htna gaps fl loss now) as [[[sq' oq'] fl'] loss'].
      destruct IH as [L H]. cbn [length] in L. split; [lia|exact H].
Qed.

Lemma pop_acked_cok : forall sq cum fl dn db, Forall cok sq -> Forall cok (fst (fst (fst (pop_acked sq cum fl dn db)))).
Proof.
  intros sq cum fl dn db H. destruct (pop_acked_split sq cum fl dn db) as (pre & E & _). rewrite E in H.
  apply Forall_app in H. tauto.
Qed.

(* the middle of _receive_sack_chunk: gap processing *)
Definition gap_part (s : tx) (sq1 : list sc) (fl1 db1 cum : Z) (gaps : list (Z * Z)) (now : Z) :=
  match gaps with
  | [] => (sq1, outq s, fl1, db1, false)
  | _ => let last_pos := match sq1 with [] => 0 | _ => tsn_off cum (last_tsn sq1 0) end in
         let hs := highest_seen cum last_pos gaps cum in
         let '(sq2, fl2, db2, htna) := gap_ack sq1 cum last_pos hs gaps fl1 db1 cum in
         let '(sq3, oq3, fl3, loss) := strike (length sq2) [] sq2 (outq s) cum last_pos htna gaps fl2 false now in
         (sq3, oq3, fl3, db2, loss)
  end.

Lemma sh_gap_part s sq1 fl1 db1 cum gaps now : r32 cum -> Forall cok sq1 -> Forall cok (outq s) ->
  gap_part (shs s) (map shc sq1) fl1 db1 (sh cum) gaps now =
  (let '(sq3, oq3, fl3, db3, loss) := gap_part s sq1 fl1 db1 cum gaps now in (map shc sq3, map shc oq3, fl3, db3, loss)) /\
  (let '(sq3, oq3, _, _, loss) := gap_part s sq1 fl1 db1 cum gaps now in
   Forall cok sq3 /\ Forall cok oq3 /\ (loss = true -> sq3 <> [])).
Proof.
  intros Hc Hs Ho. unfold gap_part. destruct gaps as [|g0 gaps']; [cbn [shs outq]; split; [reflexivity|split; [exact Hs|split; [exact Ho|discriminate]]]|].
  set (gaps := g0 :: gaps').
  assert (Elp : match map shc sq1 with [] => 0 | _ => tsn_off (sh cum) (last_tsn (map shc sq1) 0) end =
                match sq1 with [] => 0 | _ => tsn_off cum (last_tsn sq1 0) end).
  { destruct sq1 as [|c sq1']; [reflexivity|]. change (map shc (c :: sq1')) with (shc c :: map shc sq1') at 1.
    change (shc c :: map shc sq1') with (map shc (c :: sq1')). rewrite sh_last_tsn by discriminate. apply sh_tsn_off. }
  rewrite Elp. set (last_pos := match sq1 with [] => 0 | _ => tsn_off cum (last_tsn sq1 0) end).
  rewrite sh_highest_seen. set (hs := highest_seen cum last_pos gaps cum).
  assert (Hhs : r32 hs) by (apply highest_seen_r32; exact Hc).
  rewrite sh_gap_ack by assumption.
  pose proof (gap_ack_htna_r32 sq1 cum last_pos hs gaps fl1 db1 cum Hc Hs) as Hht.
  pose proof (gap_ack_tsns sq1 cum last_pos hs gaps fl1 db1 cum) as Hgt.
  destruct (gap_ack sq1 cum last_pos hs gaps fl1 db1 cum) as [[[sq2 fl2] db2] htna]. cbn [snd fst] in Hht, Hgt.
  assert (Hs2 : Forall cok sq2) by (rewrite Forall_cok_tsns, Hgt, <- Forall_cok_tsns; exact Hs).
  rewrite map_length. cbn [shs outq].
  pose proof (sh_strike (length sq2) [] sq2 (outq s) cum last_pos htna gaps fl2 false now Hht Hs2 Ho) as Hk.
  change (map shc []) with (@nil sc) in Hk. rewrite Hk. clear Hk.
  pose proof (strike_tsns (length sq2) [] sq2 (outq s) cum last_pos htna gaps fl2 false now) as Hst.
  pose proof (strike_length (length sq2) [] sq2 (outq s) cum last_pos htna gaps fl2 false now) as Hsl.
  destruct (strike (length sq2) [] sq2 (outq s) cum last_pos htna gaps fl2 false now) as [[[sq3 oq3] fl3] loss].
  split; [reflexivity|]. cbn [rev app] in Hst.
  assert (Hpo : Forall cok sq3 /\ Forall cok oq3).
  { rewrite !Forall_cok_tsns. apply Forall_app. rewrite Hst. apply Forall_app. rewrite <- !Forall_cok_tsns. auto. }
  destruct Hpo. split; [assumption|]. split; [assumption|]. intros Hl. destruct Hsl as [_ Hsl]. destruct (Hsl Hl); [discriminate|assumption].
Qed.

Lemma sh_floor_like a b : r32 a -> r32 b ->
  (if uint32_gt (sh a) (sh b) then sh a else sh b) = sh (if uint32_gt a b then a else b).
Proof. intros Ha Hb. rewrite (sh_gt d) by assumption. destruct (uint32_gt a b); reflexivity. Qed.

Lemma sh_highest_assigned s : rok s ->
  highest_assigned (shs s) = sh (highest_assigned s) /\ r32 (highest_assigned s).
Proof.
  intros K. unfold highest_assigned. cbn [shs sentq adv_ack last_sacked]. rewrite <- map_rev.
  destruct (rev (sentq s)) as [|c r] eqn:E; cbn [map].
  - rewrite sh_floor_like by (apply K). split; [reflexivity|]. destruct (uint32_gt _ _); apply K.
  - split; [reflexivity|]. pose proof (k_sq s K) as H. rewrite Forall_forall in H. apply H. apply in_rev. rewrite E. now left.
Qed.

Lemma sh_sack_ignored s cum : rok s -> r32 cum -> sack_ignored (shs s) (sh cum) = sack_ignored s cum.
Proof.
  intros K Hc. unfold sack_ignored. destruct (sh_highest_assigned s K) as [E Hr]. rewrite E.
  cbn [shs last_sacked]. rewrite (sh_gt d), (sh_gte d) by (auto; apply K). reflexivity.
Qed.

(* the tail of _receive_sack_chunk: congestion control, T3, ack point, transmit *)
Definition sack_tail (s : tx) (cum : Z) (full : bool) (done : Z) (sq3 oq3 : list sc) (fl3 db3 : Z) (loss : bool) : tx * list out :=
  let '(cw, ss, pb, fre, frt) :=
    match fr_exit s with
    | None =>
        let '(cw1, pb1) :=
          if negb (Z.eqb done 0) && full then
            if cwnd s <=? ssthresh s then (cwnd s + Z.min db3 MTU, pba s)
            else let pb := pba s + db3 in if cwnd s <=? pb then (cwnd s + MTU, pb - cwnd s) else (cwnd s, pb)
          else (cwnd s, pba s) in
        if loss then
          let ss := Z.max (cw1 / 2) (4 * MTU) in
          (ss, ss, 0, Some (last_tsn sq3 0), true)
        else (cw1, ssthresh s, pb1, None, fr_transmit s)
    | Some e => (cwnd s, ssthresh s, pba s, if uint32_gte cum e then None else Some e, fr_transmit s)
    end in
  let t3' := match sq3 with [] => false | _ => if Z.eqb done 0 then t3 s else true end in
  let s1 := mkTx cw ss fl3 fre frt (fwd_chunk s) (fwd_streams s) cum (adv_ack s) oq3 sq3 pb t3' (pending_tx s) in
  transmit (update_adv s1).

Lemma receive_sack_eq s cum gaps now :
  receive_sack s cum gaps now =
  if sack_ignored s cum then (s, [])
  else let '(sq1, fl1, done, db1) := pop_acked (sentq s) cum (flight s) 0 0 in
       let '(sq3, oq3, fl3, db3, loss) := gap_part s sq1 fl1 db1 cum gaps now in
       sack_tail s cum (cwnd s <=? flight s) done sq3 oq3 fl3 db3 loss.
Proof. reflexivity. Qed.

Lemma sh_sack_tail s cum full done sq3 oq3 fl3 db3 loss : rok s -> r32 cum -> (loss = true -> sq3 <> []) ->
  sack_tail (shs s) (sh cum) full done (map shc sq3) (map shc oq3) fl3 db3 loss =
  (shs (fst (sack_tail s cum full done sq3 oq3 fl3 db3 loss)), map shout (snd (sack_tail s cum full done sq3 oq3 fl3 db3 loss))).
Proof.
  intros K Hc Hl3. unfold sack_tail. cbn [shs fr_exit cwnd ssthresh pba fr_transmit t3 fwd_chunk fwd_streams adv_ack pending_tx].
  set (tup := match fr_exit s with None => _ | Some e => _ end).
  set (tup' := match sho (fr_exit s) with None => _ | Some e => _ end).
  assert (Et : tup' = (let '(cw, ss, pb, fre, frt) := tup in (cw, ss, pb, sho fre, frt))).
  { unfold tup, tup'. destruct (fr_exit s) as [e|] eqn:Efe; cbn [sho].
    - rewrite (sh_gte d) by (auto; apply (k_fe s K e Efe)). destruct (uint32_gte cum e); reflexivity.
    - destruct (if negb (done =? 0) && full then _ else _) as [cw1 pb1].
      destruct loss; [|reflexivity]. rewrite sh_last_tsn by (now apply Hl3). reflexivity. }
  rewrite Et. clear Et tup'. destruct tup as [[[[cw ss] pb] fre] frt].
  set (t3' := match sq3 with [] => false | _ => if done =? 0 then t3 s else true end).
  assert (Et3 : match map shc sq3 with [] => false | _ => if done =? 0 then t3 s else true end = t3') by (destruct sq3; reflexivity).
  rewrite Et3.
  set (s1 := mkTx cw ss fl3 fre frt (fwd_chunk s) (fwd_streams s) cum (adv_ack s) oq3 sq3 pb t3' (pending_tx s)).
  change (mkTx cw ss fl3 (sho fre) frt (shf (fwd_chunk s)) (fwd_streams s) (sh cum) (sh (adv_ack s)) (map shc oq3) (map shc sq3) pb t3' (pending_tx s))
    with (shs s1).
  rewrite sh_update_adv by (cbn [s1 last_sacked adv_ack]; auto; apply K).
  apply sh_transmit.
Qed.

Theorem sh_receive_sack s cum gaps now : rok s -> r32 cum ->
  receive_sack (shs s) (sh cum) gaps now = (shs (fst (receive_sack s cum gaps now)), map shout (snd (receive_sack s cum gaps now))).
Proof.
  intros K Hc. rewrite !receive_sack_eq. rewrite sh_sack_ignored by assumption.
  destruct (sack_ignored s cum); [reflexivity|].
  cbn [shs cwnd flight sentq].
  rewrite sh_pop_acked by (auto; apply K).
  pose proof (pop_acked_cok (sentq s) cum (flight s) 0 0 (k_sq s K)) as Hs1.
  destruct (pop_acked (sentq s) cum (flight s) 0 0) as [[[sq1 fl1] done] db1]. cbn [fst] in Hs1.
  destruct (sh_gap_part s sq1 fl1 db1 cum gaps now Hc Hs1 (k_oq s K)) as [Eg Hg].
  change (mkTx (cwnd s) (ssthresh s) (flight s) (sho (fr_exit s)) (fr_transmit s) (shf (fwd_chunk s)) (fwd_streams s)
               (sh (last_sacked s)) (sh (adv_ack s)) (map shc (outq s)) (map shc (sentq s)) (pba s) (t3 s) (pending_tx s)) with (shs s).
  rewrite Eg. clear Eg.
  destruct (gap_part s sq1 fl1 db1 cum gaps now) as [[[[sq3 oq3] fl3] db3] loss]. destruct Hg as (Hs3 & Ho3 & Hl3).
  now apply sh_sack_tail.
Qed.

(* ---- T3 expiry *)
Lemma sh_t3_mark : forall n pre post oq fl now,
  t3_mark n (map shc pre) (map shc post) (map shc oq) fl now =
  let '(sq', oq', fl') := t3_mark n pre post oq fl now in (map shc sq', map shc oq', fl').
Proof.
  induction n as [|n IH]; intros pre post oq fl now; cbn [t3_mark].
  - rewrite map_app, map_rev. reflexivity.
  - destruct post as [|c post]; cbn [map]; [rewrite map_app, map_rev; reflexivity|].
    rewrite sh_maybe_abandon. destruct (maybe_abandon fl pre c post oq now) as [[[[[ab fl1] pre1] c1] post1] oq1].
    set (c2 := if ab then c1 else set_flags c1 (c_acked c1) (c_abandoned c1) true (c_misses c1) (c_sent_count c1)).
    assert (E2 : (if ab then shc c1 else set_flags (shc c1) (c_acked (shc c1)) (c_abandoned (shc c1)) true (c_misses (shc c1)) (c_sent_count (shc c1))) = shc c2)
      by (unfold c2; destruct ab; reflexivity).
    rewrite E2. change (shc c2 :: map shc pre1) with (map shc (c2 :: pre1)). apply IH.
Qed.

Theorem sh_t3_expired s now : r32 (last_sacked s) -> r32 (adv_ack s) ->
  t3_expired (shs s) now = (shs (fst (t3_expired s now)), map shout (snd (t3_expired s now))).
Proof.
  intros Hl Ha. unfold t3_expired. cbn [shs sentq outq flight]. rewrite map_length.
  change (@nil sc) with (map shc []) at 1. rewrite sh_t3_mark.
  destruct (t3_mark (length (sentq s)) [] (sentq s) (outq s) (flight s) now) as [[sq oq] fl].
  set (s0 := mkTx (cwnd s) (ssthresh s) fl (fr_exit s) (fr_transmit s) (fwd_chunk s) (fwd_streams s)
                  (last_sacked s) (adv_ack s) oq sq (pba s) false (pending_tx s)).
  repeat match goal with |- context [update_adv ?X] =>
    lazymatch X with shs _ => fail | _ => change X with (shs s0) end end.
  rewrite sh_update_adv by assumption. reflexivity.
Qed.

Lemma sh_send s cs : send (shs s) (map shc cs) = (shs (fst (send s cs)), map shout (snd (send s cs))).
Proof.
  unfold send.
  assert (E : with_q (shs s) (flight (shs s)) (outq (shs s) ++ map shc cs) (sentq (shs s)) =
              shs (with_q s (flight s) (outq s ++ cs) (sentq s))).
  { unfold with_q, shs. cbn [cwnd ssthresh flight fr_exit fr_transmit fwd_chunk fwd_streams last_sacked adv_ack outq sentq pba t3 pending_tx].
    rewrite map_app. reflexivity. }
  rewrite E. apply sh_transmit.
Qed.

Theorem sh_step s i : rok s -> (match i with ISack cum _ _ => r32 cum | _ => True end) ->
  step (shs s) (shi i) = (shs (fst (step s i)), map shout (snd (step s i))).
Proof.
  intros K Hi. destruct i as [cs|cum gaps now|now|]; cbn [step shi].
  - apply sh_send.
  - now apply sh_receive_sack.
  - cbn [shs t3]. destruct (t3 s); [|reflexivity]. apply sh_t3_expired; apply K.
  - rewrite sh_transmit. destruct (transmit s) as [s1 o]. reflexivity.
Qed.

(* ---- all TSN fields stay 32-bit values *)
Lemma cok_split a b a' b' : tsns a' ++ tsns b' = tsns a ++ tsns b -> Forall cok a -> Forall cok b -> Forall cok a' /\ Forall cok b'.
Proof.
  intros E Ha Hb. rewrite !Forall_cok_tsns. apply Forall_app. rewrite E. apply Forall_app. rewrite <- !Forall_cok_tsns. auto.
Qed.

Lemma rok_transmit s : rok s -> rok (fst (transmit s)).
Proof.
  intros K. pose proof (transmit_tsns s) as E. unfold qs in E. rewrite !tsns_app in E.
  destruct (cok_split _ _ _ _ E (k_sq s K) (k_oq s K)) as [H1 H2].
  assert (F : last_sacked (fst (transmit s)) = last_sacked s /\ adv_ack (fst (transmit s)) = adv_ack s /\
              fr_exit (fst (transmit s)) = fr_exit s /\ fwd_chunk (fst (transmit s)) = None).
  { unfold transmit. destruct (match fwd_chunk s with Some (cum, strs) => ([OFwd cum strs], true) | None => ([], t3 s) end) as [fo t3a].
    destruct (retx_loop _ _ _ _ _ _) as [[[[[sq fl] frt] t3r] stop] o1]. destruct stop; [cbn; auto|].
    destruct (new_loop _ _ _) as [[[mv rest] fl2] o2]. cbn; auto. }
  destruct F as (F1 & F2 & F3 & F4). constructor; rewrite ?F1, ?F2, ?F3, ?F4;
    [exact H1|exact H2|exact (k_ls s K)|exact (k_av s K)|exact (k_fe s K)|discriminate].
Qed.

Lemma rok_update_adv s : rok s -> rok (update_adv s).
Proof.
  intros K. unfold update_adv.
  set (p0 := if uint32_gte (last_sacked s) (adv_ack s) then (last_sacked s, None) else (adv_ack s, fwd_streams s)).
  assert (H0 : r32 (fst p0)) by (unfold p0; destruct (uint32_gte _ _); apply K).
  destruct p0 as [adv0 strs0]. cbn [fst] in H0.
  destruct (pop_abandoned_split (sentq s) adv0 strs0) as (pre & Esq & Eadv).
  destruct (pop_abandoned (sentq s) adv0 strs0) as [[sq adv] strs]. cbn [fst snd] in Esq, Eadv.
  pose proof (k_sq s K) as Hs. rewrite Esq in Hs. apply Forall_app in Hs as [Hpre Hsq].
  assert (Hadv : r32 adv).
  { rewrite Eadv. destruct pre as [|c pre']; [exact H0|].
    assert (Hne : tsns (c :: pre') <> []) by discriminate.
    pose proof (exists_last_in _ adv0 Hne) as Hin. apply Forall_cok_tsns in Hpre. rewrite Forall_forall in Hpre. now apply Hpre. }
  constructor; cbn [sentq outq last_sacked adv_ack fr_exit fwd_chunk];
    [exact Hsq|exact (k_oq s K)|exact (k_ls s K)|exact Hadv|exact (k_fe s K)|].
  intros c l. destruct strs; [intros [= <- _]; exact Hadv|apply K].
Qed.

Lemma gap_part_cok s sq1 fl1 db1 cum gaps now : Forall cok sq1 -> Forall cok (outq s) ->
  let '(sq3, oq3, _, _, _) := gap_part s sq1 fl1 db1 cum gaps now in Forall cok sq3 /\ Forall cok oq3.
Proof.
  intros Hs Ho. pose proof (gaps_tsns s sq1 fl1 db1 cum gaps now) as E. cbv zeta in E. unfold gap_part.
  destruct (match gaps with [] => _ | _ => _ end) as [[[[sq3 oq3] fl3] db3] loss]. eapply cok_split; eauto.
Qed.

Theorem rok_step s i : rok s ->
  (match i with ISack cum _ _ => r32 cum | ISendMsg cs => Forall cok cs | _ => True end) -> rok (fst (step s i)).
Proof.
  intros K Hi. destruct i as [cs|cum gaps now|now|]; cbn [step].
  - unfold send. apply rok_transmit. constructor; cbn [with_q sentq outq last_sacked adv_ack fr_exit fwd_chunk];
      [exact (k_sq s K)|apply Forall_app; split; [exact (k_oq s K)|exact Hi]|exact (k_ls s K)|exact (k_av s K)|exact (k_fe s K)|exact (k_fw s K)].
  - rewrite receive_sack_eq. destruct (sack_ignored s cum); [exact K|].
    pose proof (pop_acked_cok (sentq s) cum (flight s) 0 0 (k_sq s K)) as Hs1.
    destruct (pop_acked (sentq s) cum (flight s) 0 0) as [[[sq1 fl1] done] db1]. cbn [fst] in Hs1.
    pose proof (gap_part_cok s sq1 fl1 db1 cum gaps now Hs1 (k_oq s K)) as Hg.
    destruct (gap_part s sq1 fl1 db1 cum gaps now) as [[[[sq3 oq3] fl3] db3] loss]. destruct Hg as [Hs3 Ho3].
    unfold sack_tail.
    set (tup := match fr_exit s with None => _ | Some e => _ end).
    assert (Hf : forall e, snd (fst tup) = Some e -> r32 e).
    { unfold tup. destruct (fr_exit s) as [e0|] eqn:Efe.
      - cbn [fst snd]. intros e. destruct (uint32_gte cum e0); [discriminate|]. intros [= <-]. now apply (k_fe s K).
      - destruct (if negb (done =? 0) && (cwnd s <=? flight s) then _ else _) as [cw1 pb1].
        destruct loss; cbn [fst snd]; [|discriminate]. intros e [= <-]. now apply last_tsn_r32. }
    destruct tup as [[[[cw ss] pb] fre] frt]. cbn [fst snd] in Hf.
    apply rok_transmit, rok_update_adv. constructor; cbn [sentq outq last_sacked adv_ack fr_exit fwd_chunk];
      [exact Hs3|exact Ho3|exact Hi|exact (k_av s K)|exact Hf|exact (k_fw s K)].
  - destruct (t3 s); [|exact K]. unfold t3_expired.
    pose proof (t3_mark_tsns (length (sentq s)) [] (sentq s) (outq s) (flight s) now) as E.
    destruct (t3_mark (length (sentq s)) [] (sentq s) (outq s) (flight s) now) as [[sq oq] fl]. cbn [rev app] in E.
    destruct (cok_split _ _ _ _ E (k_sq s K) (k_oq s K)) as [H1 H2].
    set (s0 := mkTx (cwnd s) (ssthresh s) fl (fr_exit s) (fr_transmit s) (fwd_chunk s) (fwd_streams s)
                    (last_sacked s) (adv_ack s) oq sq (pba s) false (pending_tx s)).
    assert (K0 : rok s0) by (constructor; cbn [s0 sentq outq last_sacked adv_ack fr_exit fwd_chunk];
      [exact H1|exact H2|exact (k_ls s K)|exact (k_av s K)|exact (k_fe s K)|exact (k_fw s K)]).
    pose proof (rok_update_adv s0 K0) as K1. cbn [fst].
    constructor; cbn [sentq outq last_sacked adv_ack fr_exit fwd_chunk];
      [exact (k_sq _ K1)|exact (k_oq _ K1)|exact (k_ls _ K1)|exact (k_av _ K1)|discriminate|exact (k_fw _ K1)].
  - pose proof (rok_transmit s K) as K1. destruct (transmit s) as [s1 o]. cbn [fst] in *.
    constructor; cbn [sentq outq last_sacked adv_ack fr_exit fwd_chunk];
      [exact (k_sq _ K1)|exact (k_oq _ K1)|exact (k_ls _ K1)|exact (k_av _ K1)|exact (k_fe _ K1)|exact (k_fw _ K1)].
Qed.

Definition wf_shift (i : input) : Prop :=
  match i with ISack cum _ _ => r32 cum | ISendMsg cs => Forall cok cs | _ => True end.

Theorem sh_run : forall is s, rok s -> Forall wf_shift is ->
  run (shs s) (map shi is) = (shs (fst (run s is)), map (map shout) (snd (run s is))).
Proof.
  induction is as [|i is IH]; intros s K W; cbn [run map]; [reflexivity|].
  inversion W as [|? ? Wi W']; subst.
  assert (Wi' : match i with ISack cum _ _ => r32 cum | _ => True end) by (destruct i; auto; exact I).
  rewrite (sh_step s i K Wi').
  pose proof (rok_step s i K Wi) as K1. destruct (step s i) as [s1 o]. cbn [fst snd] in *.
  rewrite (IH s1 K1 W'). destruct (run s1 is) as [s2 os]. reflexivity.
Qed.

Lemma rok_init t rw : r32 (tsn_minus_one t) -> rok (init t rw).
Proof. intros H. constructor; cbn [init sentq outq last_sacked adv_ack fr_exit fwd_chunk]; auto; discriminate. Qed.

Lemma shs_init t rw : r32 t -> shs (init t rw) = init (sh t) rw.
Proof.
  intros H. unfold shs, init. cbn [cwnd ssthresh flight fr_exit fr_transmit fwd_chunk fwd_streams last_sacked adv_ack outq sentq pba t3 pending_tx sho shf map].
  f_equal; unfold SctpShiftP.sh, tsn_minus_one, SCTP_TSN_MODULO, SctpShiftP.r32 in *; lia.
Qed.
End TxShift.

(* The sender started at TSN t and fed inputs is behaves exactly like the sender started at
   t + d (mod 2^32) and fed the inputs shifted by d: same congestion state, same flags, same
   decisions; every TSN in state and outputs is shifted by d. *)
Theorem sender_shift_invariant d t rw is :
  SctpShiftP.r32 t -> Forall (wf_shift) is ->
  run (init (SctpShiftP.sh d t) rw) (map (shi d) is) =
  (shs d (fst (run (init t rw) is)), map (map (shout d)) (snd (run (init t rw) is))).
Proof.
  intros Ht W. rewrite <- shs_init by exact Ht. apply sh_run; [|exact W].
  apply rok_init. unfold SctpShiftP.r32, tsn_minus_one, SCTP_TSN_MODULO. lia.
Qed.
