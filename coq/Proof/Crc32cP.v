(* Lemmas about Model/Crc32c.v: the LFSR step is GF(2)-linear and injective,
   backward reconstruction of a run ending in the zero state, and from these:
   a non-zero error pattern confined to <= 32 consecutive input bits always
   changes the CRC. *)
From Coq Require Import ZArith List Bool Lia.
From AV Require Import Lib.Bytes Lib.BytesP Model.Crc32c.
Import ListNotations.
Local Open Scope Z_scope.

(* ------------------------------------------------------------------ xor on bit lists *)
Lemma xor_bits_length a b : length (xor_bits a b) = Nat.min (length a) (length b).
Proof.
  revert b. induction a as [|x a IH]; intros [|y b]; cbn [xor_bits length Nat.min]; auto.
Qed.

Lemma xor_bits_app a1 a2 b1 b2 :
  length a1 = length b1 -> xor_bits (a1 ++ a2) (b1 ++ b2) = xor_bits a1 b1 ++ xor_bits a2 b2.
Proof.
  revert b1. induction a1 as [|x a1 IH]; intros [|y b1] H; cbn [length] in H; try discriminate.
  - reflexivity.
  - cbn [app xor_bits]. f_equal. apply IH. lia.
Qed.

Lemma xor_bits_false_r a n : (length a <= n)%nat -> xor_bits a (repeat false n) = a.
Proof.
  revert n. induction a as [|x a IH]; intros n H.
  - destruct n; reflexivity.
  - destruct n as [|n]; cbn [length] in H; [lia|]. cbn [repeat xor_bits]. rewrite xorb_false_r. f_equal.
    apply IH. lia.
Qed.

Lemma xor_bits_false_l a n : (length a <= n)%nat -> xor_bits (repeat false n) a = a.
Proof.
  revert n. induction a as [|x a IH]; intros n H.
  - destruct n; reflexivity.
  - destruct n as [|n]; cbn [length] in H; [lia|]. cbn [repeat xor_bits]. rewrite xorb_false_l. f_equal.
    apply IH. lia.
Qed.

Lemma xor_bits_self a : xor_bits a a = repeat false (length a).
Proof. induction a as [|x a IH]; cbn [xor_bits length repeat]; [reflexivity|]. rewrite xorb_nilpotent. now f_equal. Qed.

(* (a + b) + (c + d) = (a + c) + (b + d), no length conditions *)
Lemma xor_bits_interchange a b c d :
  xor_bits (xor_bits a b) (xor_bits c d) = xor_bits (xor_bits a c) (xor_bits b d).
Proof.
  revert b c d. induction a as [|x a IH]; intros [|y b] [|z c] [|w d]; cbn [xor_bits]; try reflexivity.
  f_equal; [|apply IH]. destruct x, y, z, w; reflexivity.
Qed.

Lemma xor_bits_cancel_r a b c :
  length a = length c -> length b = length c -> xor_bits a c = xor_bits b c -> a = b.
Proof.
  revert b c. induction a as [|x a IH]; intros [|y b] [|z c] Ha Hb H; cbn [length] in *; try discriminate; auto.
  cbn [xor_bits] in H. injection H as H1 H2. f_equal.
  - destruct x, y, z; cbn in H1; congruence.
  - apply (IH b c); lia || assumption.
Qed.

Lemma xor_bits_comm a : forall b, xor_bits a b = xor_bits b a.
Proof. induction a as [|x a IH]; intros [|y b]; cbn [xor_bits]; try reflexivity. now rewrite IH, xorb_comm. Qed.

Lemma xor_bits_eq_false a b :
  length a = length b -> xor_bits a b = repeat false (length a) -> a = b.
Proof.
  revert b. induction a as [|x a IH]; intros [|y b] Hl H; cbn [length] in *; try discriminate; auto.
  cbn [xor_bits repeat] in H. injection H as H1 H2. f_equal.
  - destruct x, y; cbn in H1; congruence.
  - apply IH; [lia|assumption].
Qed.

Lemma scale_length fb l : length (scale fb l) = length l.
Proof. unfold scale. apply map_length. Qed.
Lemma scale_false l : scale false l = repeat false (length l).
Proof. unfold scale. induction l as [|x l IH]; cbn [map length repeat andb]; [reflexivity|now f_equal]. Qed.
Lemma scale_xorb x y l : scale (xorb x y) l = xor_bits (scale x l) (scale y l).
Proof.
  unfold scale. induction l as [|p l IH]; cbn [map xor_bits]; [reflexivity|]. rewrite IH. f_equal.
  destruct x, y, p; reflexivity.
Qed.
Lemma scale_app fb a b : scale fb (a ++ b) = scale fb a ++ scale fb b.
Proof. unfold scale. apply map_app. Qed.

(* ------------------------------------------------------------------ the polynomial *)
Definition poly31 : bits := removelast poly.

Lemma poly_split : poly = poly31 ++ [true].
Proof. reflexivity. Qed.
Lemma poly31_length : length poly31 = 31%nat.
Proof. reflexivity. Qed.

(* shape of one step: the last bit of the new state is the feedback bit, because the
   coefficient of the polynomial at that end is 1 *)
Lemma step_shape s0 rest b :
  length rest = 31%nat ->
  step (s0 :: rest) b = xor_bits rest (scale (xorb s0 b) poly31) ++ [xorb s0 b].
Proof.
  intros H. unfold step. rewrite poly_split, scale_app.
  rewrite xor_bits_app by (rewrite scale_length, poly31_length; exact H).
  f_equal. cbn [scale map xor_bits]. now rewrite andb_true_r, xorb_false_l.
Qed.

Lemma step_length s b : length s = 32%nat -> length (step s b) = 32%nat.
Proof.
  intros H. destruct s as [|s0 rest]; [discriminate|]. cbn [length] in H.
  rewrite step_shape by lia. rewrite app_length, xor_bits_length, scale_length, poly31_length.
  cbn [length]. lia.
Qed.

Lemma step_last s b :
  length s = 32%nat -> last (step s b) false = xorb (hd false s) b.
Proof.
  intros H. destruct s as [|s0 rest]; [discriminate|]. cbn [length] in H.
  rewrite step_shape by lia. now rewrite last_last.
Qed.

Lemma step_linear s t a b :
  length s = 32%nat -> length t = 32%nat ->
  step (xor_bits s t) (xorb a b) = xor_bits (step s a) (step t b).
Proof.
  intros Hs Ht. destruct s as [|s0 s]; [discriminate|]. destruct t as [|t0 t]; [discriminate|].
  cbn [length] in Hs, Ht. cbn [xor_bits].
  rewrite !step_shape by (rewrite ?xor_bits_length; lia).
  rewrite xor_bits_app by (rewrite !xor_bits_length, !scale_length, poly31_length; lia).
  replace (xorb (xorb s0 t0) (xorb a b)) with (xorb (xorb s0 a) (xorb t0 b))
    by (destruct s0, t0, a, b; reflexivity).
  rewrite scale_xorb, xor_bits_interchange. reflexivity.
Qed.

Lemma step_injective s t b :
  length s = 32%nat -> length t = 32%nat -> step s b = step t b -> s = t.
Proof.
  intros Hs Ht. destruct s as [|s0 s]; [discriminate|]. destruct t as [|t0 t]; [discriminate|].
  cbn [length] in Hs, Ht. rewrite !step_shape by lia. intros H.
  apply app_inj_tail in H. destruct H as [H1 H2].
  assert (s0 = t0) as -> by (destruct s0, t0, b; cbn in H2; congruence).
  f_equal. apply xor_bits_cancel_r with (c := scale (xorb t0 b) poly31); [| |exact H1];
    rewrite scale_length, poly31_length; lia.
Qed.

Lemma step_zero : step zeros32 false = zeros32.
Proof. reflexivity. Qed.

(* ------------------------------------------------------------------ runs *)
Lemma run_app s a b : run s (a ++ b) = run (run s a) b.
Proof. unfold run. apply fold_left_app. Qed.
Lemma run_cons s b l : run s (b :: l) = run (step s b) l.
Proof. reflexivity. Qed.
Lemma run_length s l : length s = 32%nat -> length (run s l) = 32%nat.
Proof. revert s. induction l as [|b l IH]; intros s H; [exact H|]. rewrite run_cons. apply IH, step_length, H. Qed.

Lemma run_linear x : forall y s t,
  length s = 32%nat -> length t = 32%nat -> length x = length y ->
  run (xor_bits s t) (xor_bits x y) = xor_bits (run s x) (run t y).
Proof.
  induction x as [|a x IH]; intros [|b y] s t Hs Ht Hl; cbn [length] in Hl; try discriminate.
  - reflexivity.
  - cbn [xor_bits]. rewrite !run_cons, step_linear by assumption.
    apply IH; [now apply step_length|now apply step_length|lia].
Qed.

Lemma run_zeros_false n : run zeros32 (repeat false n) = zeros32.
Proof. induction n as [|n IH]; [reflexivity|]. cbn [repeat]. rewrite run_cons, step_zero. exact IH. Qed.

Lemma run_false_zero_inv n : forall s,
  length s = 32%nat -> run s (repeat false n) = zeros32 -> s = zeros32.
Proof.
  induction n as [|n IH]; intros s Hs H; [exact H|].
  cbn [repeat] in H. rewrite run_cons in H. apply IH in H; [|now apply step_length].
  apply (step_injective s zeros32 false Hs eq_refl). now rewrite step_zero.
Qed.

(* backward reconstruction: if k <= 32 input bits drive state s to zero, s was those bits
   followed by zeros *)
Lemma run_zero_inv input : forall s,
  length s = 32%nat -> (length input <= 32)%nat -> run s input = zeros32 ->
  s = input ++ repeat false (32 - length input).
Proof.
  induction input as [|b bs IH]; intros s Hs Hl H.
  - exact H.
  - cbn [length] in Hl. rewrite run_cons in H.
    apply IH in H; [|now apply step_length|lia].
    destruct s as [|s0 rest]; [discriminate|]. cbn [length] in Hs.
    rewrite step_shape in H by lia.
    replace (32 - length bs)%nat with (S (31 - length bs)) in H by lia.
    cbn [repeat] in H. rewrite repeat_cons, app_assoc in H.
    apply app_inj_tail in H. destruct H as [H1 H2].
    rewrite H2, scale_false, xor_bits_false_r in H1 by (rewrite poly31_length; lia).
    assert (s0 = b) as -> by (destruct s0, b; cbn in H2; congruence).
    cbn [length app]. replace (32 - S (length bs))%nat with (31 - length bs)%nat by lia.
    now rewrite H1.
Qed.

(* a burst: zeros, then a window of at most 32 bits containing a one, then zeros *)
Definition burst_bits (e : bits) : Prop :=
  exists k w m, e = repeat false k ++ w ++ repeat false m /\ (length w <= 32)%nat /\ In true w.

Lemma burst_bits_nonzero_syndrome e : burst_bits e -> run zeros32 e <> zeros32.
Proof.
  intros (k & w & m & -> & Hw & Hin) H.
  rewrite !run_app, run_zeros_false in H.
  apply run_false_zero_inv in H; [|now apply run_length].
  apply run_zero_inv in H; [|reflexivity|exact Hw].
  assert (Hall : forall x, In x (w ++ repeat false (32 - length w)) -> x = false).
  { rewrite <- H. intros x Hx. apply repeat_spec in Hx. exact Hx. }
  specialize (Hall true (in_or_app _ _ _ (or_introl Hin))). discriminate.
Qed.

Lemma xor_ones_zeros : xor_bits ones32 zeros32 = ones32.
Proof. reflexivity. Qed.

Lemma map_negb_inj (a b : bits) : map negb a = map negb b -> a = b.
Proof.
  revert b. induction a as [|x a IH]; intros [|y b] H; cbn [map] in H; try discriminate; auto.
  injection H as H1 H2. f_equal; [destruct x, y; cbn in H1; congruence|now apply IH].
Qed.

(* the CRC of the corrupted bit string differs from that of the original *)
Lemma crc32c_bits_burst x e :
  length x = length e -> burst_bits e -> crc32c_bits (xor_bits x e) <> crc32c_bits x.
Proof.
  intros Hl Hb H. unfold crc32c_bits in H. apply map_negb_inj in H.
  rewrite <- xor_ones_zeros in H at 1.
  rewrite run_linear in H by (reflexivity || assumption).
  assert (L : length (run ones32 x) = 32%nat) by now apply run_length.
  assert (L2 : length (run zeros32 e) = 32%nat) by now apply run_length.
  apply burst_bits_nonzero_syndrome in Hb. apply Hb.
  set (a := run ones32 x) in *. set (d := run zeros32 e) in *.
  rewrite <- (xor_bits_false_r a 32) in H at 2 by lia.
  rewrite (xor_bits_comm a d), (xor_bits_comm a (repeat false 32)) in H.
  apply xor_bits_cancel_r in H; [exact H|lia|rewrite L; reflexivity].
Qed.

(* ------------------------------------------------------------------ bits <-> Z *)
Lemma z_bits_length n z : length (z_bits n z) = n.
Proof. revert z. induction n as [|n IH]; intros z; cbn [z_bits length]; [reflexivity|now rewrite IH]. Qed.

Lemma bits_z_range l : 0 <= bits_z l < 2 ^ Z.of_nat (length l).
Proof.
  induction l as [|b l IH]; cbn [bits_z length]; [cbn; lia|].
  rewrite Nat2Z.inj_succ, Z.pow_succ_r by lia. destruct b; cbn [Z.b2z]; lia.
Qed.

Lemma bits_z_inj a : forall b, length a = length b -> bits_z a = bits_z b -> a = b.
Proof.
  induction a as [|x a IH]; intros [|y b] Hl H; cbn [length] in Hl; try discriminate; auto.
  cbn [bits_z] in H.
  assert (x = y) as -> by (destruct x, y; cbn [Z.b2z] in H; auto; exfalso; lia).
  f_equal. apply IH; [lia|]. lia.
Qed.

Lemma crc32c_range data : 0 <= crc32c data < 4294967296.
Proof.
  unfold crc32c. pose proof (bits_z_range (crc32c_bits (bytes_bits data))) as H.
  replace (length (crc32c_bits (bytes_bits data))) with 32%nat in H; [exact H|].
  unfold crc32c_bits. rewrite map_length, run_length; reflexivity.
Qed.

Lemma z_bits_lxor n : forall a b, z_bits n (Z.lxor a b) = xor_bits (z_bits n a) (z_bits n b).
Proof.
  induction n as [|n IH]; intros a b; cbn [z_bits xor_bits]; [reflexivity|].
  f_equal.
  - rewrite <- !Z.bit0_odd. apply Z.lxor_spec.
  - rewrite <- IH. f_equal.
    rewrite <- !(Z.shiftr_div_pow2 _ 1) by lia. apply Z.shiftr_lxor.
Qed.

(* ------------------------------------------------------------------ xor on byte strings *)
Fixpoint xor_bytes (a b : bytes) : bytes :=
  match a, b with
  | x :: a', y :: b' => Z.lxor x y :: xor_bytes a' b'
  | _, _ => []
  end.

Lemma xor_bytes_length a b : length (xor_bytes a b) = Nat.min (length a) (length b).
Proof. revert b. induction a as [|x a IH]; intros [|y b]; cbn [xor_bytes length Nat.min]; auto. Qed.

Lemma xor_bytes_app a1 a2 b1 b2 :
  length a1 = length b1 -> xor_bytes (a1 ++ a2) (b1 ++ b2) = xor_bytes a1 b1 ++ xor_bytes a2 b2.
Proof.
  revert b1. induction a1 as [|x a1 IH]; intros [|y b1] H; cbn [length] in H; try discriminate.
  - reflexivity.
  - cbn [app xor_bytes]. f_equal. apply IH. lia.
Qed.

Lemma xor_bytes_firstn n : forall a b, firstn n (xor_bytes a b) = xor_bytes (firstn n a) (firstn n b).
Proof.
  induction n as [|n IH]; intros a b; [reflexivity|].
  destruct a as [|x a]; [reflexivity|]. destruct b as [|y b]; [destruct (firstn (S n) (x :: a)); reflexivity|].
  cbn [xor_bytes firstn]. f_equal. apply IH.
Qed.

Lemma xor_bytes_skipn n : forall a b, skipn n (xor_bytes a b) = xor_bytes (skipn n a) (skipn n b).
Proof.
  induction n as [|n IH]; intros a b; [reflexivity|].
  destruct a as [|x a]; [reflexivity|]. destruct b as [|y b]; [destruct (skipn (S n) (x :: a)); reflexivity|].
  cbn [xor_bytes skipn]. apply IH.
Qed.

Lemma xor_bytes_zeros_r a n : (length a <= n)%nat -> xor_bytes a (zeros n) = a.
Proof.
  revert n. induction a as [|x a IH]; intros n H.
  - destruct n; reflexivity.
  - destruct n as [|n]; cbn [length] in H; [lia|]. unfold zeros. cbn [repeat xor_bytes].
    rewrite Z.lxor_0_r. f_equal. apply IH. lia.
Qed.

Lemma byte_bits_length b : length (byte_bits b) = 8%nat.
Proof. apply z_bits_length. Qed.

Lemma bytes_bits_length l : length (bytes_bits l) = (8 * length l)%nat.
Proof.
  unfold bytes_bits. induction l as [|x l IH]; [reflexivity|].
  cbn [flat_map length]. rewrite app_length, byte_bits_length, IH. lia.
Qed.

Lemma bytes_bits_app a b : bytes_bits (a ++ b) = bytes_bits a ++ bytes_bits b.
Proof. unfold bytes_bits. apply flat_map_app. Qed.

Lemma bytes_bits_xor a : forall b,
  length a = length b -> bytes_bits (xor_bytes a b) = xor_bits (bytes_bits a) (bytes_bits b).
Proof.
  induction a as [|x a IH]; intros [|y b] H; cbn [length] in H; try discriminate.
  - reflexivity.
  - cbn [xor_bytes]. unfold bytes_bits in *. cbn [flat_map].
    rewrite xor_bits_app by (now rewrite !byte_bits_length).
    rewrite IH by lia. f_equal. apply z_bits_lxor.
Qed.

Lemma bytes_bits_zeros n : bytes_bits (zeros n) = repeat false (8 * n).
Proof.
  induction n as [|n IH]; [reflexivity|].
  unfold zeros in *. cbn [repeat]. unfold bytes_bits in *. cbn [flat_map]. rewrite IH.
  replace (8 * S n)%nat with (8 + 8 * n)%nat by lia. reflexivity.
Qed.

(* the byte-level statement: same-length byte strings that differ by a burst have different CRCs *)
Definition burst (e : bytes) : Prop := burst_bits (bytes_bits e).

Lemma crc32c_burst x e :
  length x = length e -> burst e -> crc32c (xor_bytes x e) <> crc32c x.
Proof.
  intros Hl Hb H. unfold crc32c in H.
  apply bits_z_inj in H.
  - rewrite bytes_bits_xor in H by exact Hl.
    revert H. apply crc32c_bits_burst; [|exact Hb].
    rewrite !bytes_bits_length. lia.
  - unfold crc32c_bits. rewrite !map_length, !run_length; reflexivity.
Qed.
