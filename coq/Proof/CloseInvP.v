(* Proofs about Model/Close.v (property C19), part 2: the invariant of the repaired
   model (fx = true) and its preservation by every step. *)
From Coq Require Import ZArith List Bool Arith Lia.
From AV Require Import Lib.Sx Model.Close Proof.CloseP.
Import ListNotations.

(* ------------------------------------------------------------------ quiet components *)
Definition tquiet (t : tstate) : Prop := t = TNone \/ t = TExited.
Definition rquiet (r : receiver) : Prop := tquiet (r_rtcp r) /\ r_dec r = false /\ r_eos r = true.
Definition squiet (s : sender) : Prop := tquiet (s_rtp s) /\ tquiet (s_rtcp s).
Definition scquiet (s : sctp) : Prop := sc_stopped s = true /\ sc_timers s = false /\ sc_chans s = 0.
Definition iquiet (tp : transport) : Prop :=
  i_state tp = IClosed /\ i_mon tp <> MWaiting /\ i_consent tp = false /\ i_cclosed tp = true /\
  i_candend tp = true.

(* ------------------------------------------------------------------ invariant *)
Definition comp_ok (x : trx) : Prop :=
  unstarted_ok x /\
  (s_started (t_s x) = true -> s_rtp (t_s x) <> TNone /\ s_rtcp (t_s x) <> TNone) /\
  (r_started (t_r x) = true -> r_rtcp (t_r x) <> TNone) /\
  s_rtp (t_s x) <> TFailed /\ s_rtcp (t_s x) <> TFailed /\ r_rtcp (t_r x) <> TFailed /\
  (r_started (t_r x) = true -> r_dec (t_r x) = false -> r_eos (t_r x) = true).

Definition cancelled (t : tstate) : Prop := t = TCancelling \/ t = TExited.

Definition recv_pc (s : sub) (r : receiver) : Prop :=
  match s with
  | SIdle => True
  | SDone => r_started r = false /\ r_eos r = true
  | SWaitStarted => r_started r = true /\ r_dec r = false /\ r_eos r = true
  | SWaitExited => cancelled (r_rtcp r) /\ r_dec r = false /\ r_eos r = true
  | _ => False
  end.
Definition send_pc (s : sub) (sd : sender) : Prop :=
  match s with
  | SIdle => True
  | SDone => s_started sd = false
  | SWaitStarted => s_started sd = true
  | SCancel1 => cancelled (s_rtp sd) /\ started_set (s_rtcp sd) = true
  | SWaitExited => cancelled (s_rtp sd) /\ cancelled (s_rtcp sd)
  | _ => False
  end.
Definition ice_pc (s : sub) (tp : transport) : Prop :=
  match s with
  | SIdle => True
  | SDone | SIceClosing => i_state tp = IClosed
  | SWaitMon => i_state tp = IClosed /\ i_mon tp <> MNone
  | _ => False
  end.
Definition dtls_pc (s : sub) : Prop := match s with SIdle | SDone | SNeedCancel => True | _ => False end.
Definition sctp_pc (s : sub) (sc : sctp) : Prop :=
  match s with SIdle => True | SDone => scquiet sc | _ => False end.

Definition op_valid (c : cfg) (o : op) : Prop :=
  match o with
  | ORecvStop i | OSendStop i => nth_error (c_trx c) i <> None
  | OSctpStop => c_sctp c <> None
  | ODtlsStop t | OIceStop t => nth_error (c_tps c) t <> None
  end.

Definition pc_ok (c : cfg) (o : op) (s : sub) : Prop :=
  op_valid c o /\
  match o with
  | ORecvStop i => forall x, nth_error (c_trx c) i = Some x -> recv_pc s (t_r x)
  | OSendStop i => forall x, nth_error (c_trx c) i = Some x -> send_pc s (t_s x)
  | OSctpStop => forall sc, c_sctp c = Some sc -> sctp_pc s sc
  | ODtlsStop t => dtls_pc s
  | OIceStop t => forall tp, nth_error (c_tps c) t = Some tp -> ice_pc s tp
  end.

Definition main_ok (c : cfg) : Prop :=
  match c_main c with
  | Some (_, o :: todo, s) => pc_ok c o s /\ Forall (op_valid c) todo
  | Some (_, [], s) => s = SIdle
  | None => True
  end.

Definition fut_ok (c : cfg) : Prop :=
  match c_main c with
  | Some _ => c_closed c = FPending
  | None => c_closed c <> FPending
  end.

(* a closed ICE transport: the connection has been shut down, or close() is doing it right now *)
Definition closed_ok (c : cfg) (t : nat) (tp : transport) : Prop :=
  i_state tp = IClosed ->
  i_candend tp = true /\
  (head c = Some (OIceStop t, SIceClosing) \/
   (i_cclosed tp = true /\ i_consent tp = false /\
    (i_mon tp <> MWaiting \/ head c = Some (OIceStop t, SWaitMon)))).

Definition todo_of (c : cfg) : list op :=
  match c_main c with Some (_, l, _) => l | None => [] end.

(* what a stop() that has returned guarantees from then on *)
Definition post (c : cfg) (o : op) : Prop :=
  match o with
  | ORecvStop i => forall x, nth_error (c_trx c) i = Some x -> rquiet (t_r x)
  | OSendStop i => forall x, nth_error (c_trx c) i = Some x -> squiet (t_s x)
  | OSctpStop => forall sc, c_sctp c = Some sc -> scquiet sc
  | ODtlsStop t => True
  | OIceStop t => forall tp, nth_error (c_tps c) t = Some tp -> iquiet tp
  end.

Definition post_ok (c : cfg) : Prop :=
  c_closed c <> FNone ->
  c_sig_closed c = true /\ forall o, In o (plan c) -> In o (todo_of c) \/ post c o.

Definition inv (c : cfg) : Prop :=
  (forall i x, nth_error (c_trx c) i = Some x -> comp_ok x) /\
  fut_ok c /\ main_ok c /\
  (forall t tp, nth_error (c_tps c) t = Some tp -> closed_ok c t tp) /\
  post_ok c.

Lemma inv_wfA c : inv c -> wfA c.
Proof. intros (HA & _) i x Hn. exact (proj1 (HA i x Hn)). Qed.

(* ------------------------------------------------------------------ small facts *)
Lemma nth_error_upd_none {A} (l : list A) i j x :
  nth_error (upd l j x) i <> None <-> nth_error l i <> None.
Proof.
  rewrite nth_error_upd. destruct (Nat.eqb_spec i j) as [->|Hne]; [|tauto].
  destruct (nth_error l j); split; congruence.
Qed.

Lemma plan_trx_tp l l' k :
  map t_tp l' = map t_tp l -> plan_trx l' k = plan_trx l k.
Proof.
  revert l' k. induction l as [|x l IH]; intros [|x' l'] k H; cbn in *; try discriminate; auto.
  injection H as _ H. rewrite (IH l' (S k) H). reflexivity.
Qed.
Lemma plan_tps_tp l l' :
  map t_tp l' = map t_tp l -> plan_tps l' = plan_tps l.
Proof.
  revert l'. induction l as [|x l IH]; intros [|x' l'] H; cbn in *; try discriminate; auto.
  injection H as H1 H. rewrite (IH l' H), H1. reflexivity.
Qed.

Lemma map_tp_upd l i x x' :
  nth_error l i = Some x -> t_tp x' = t_tp x -> map t_tp (upd l i x') = map t_tp l.
Proof.
  revert i. induction l as [|y l IH]; intros [|i] Hn Ht; cbn in *; try discriminate; auto.
  - injection Hn as ->. rewrite Ht. reflexivity.
  - rewrite (IH i Hn Ht). reflexivity.
Qed.

Lemma sctp_tp_same (a b : option sctp) :
  option_map sc_tp a = option_map sc_tp b ->
  (match a with Some _ => [OSctpStop] | None => [] end) = (match b with Some _ => [OSctpStop] | None => [] end) /\
  (match a with Some s => [ODtlsStop (sc_tp s); OIceStop (sc_tp s)] | None => [] end) =
  (match b with Some s => [ODtlsStop (sc_tp s); OIceStop (sc_tp s)] | None => [] end).
Proof. destruct a, b; cbn; intros H; try discriminate; auto. injection H as ->. auto. Qed.

Lemma plan_same c c' :
  map t_tp (c_trx c') = map t_tp (c_trx c) -> option_map sc_tp (c_sctp c') = option_map sc_tp (c_sctp c) ->
  plan c' = plan c.
Proof.
  intros H1 H2. unfold plan. rewrite (plan_trx_tp _ _ 0 H1), (plan_tps_tp _ _ H1).
  destruct (sctp_tp_same _ _ H2) as [-> ->]. reflexivity.
Qed.

Lemma plan_trx_in l k i x : nth_error l i = Some x ->
  In (ORecvStop (k + i)) (plan_trx l k) /\ In (OSendStop (k + i)) (plan_trx l k).
Proof.
  revert k i. induction l as [|y l IH]; intros k [|i] H; cbn in *; try discriminate.
  - rewrite Nat.add_0_r. auto.
  - destruct (IH (S k) i H) as [H1 H2]. rewrite <- plus_n_Sm. cbn in H1, H2. auto.
Qed.
Lemma plan_tps_in l i x : nth_error l i = Some x ->
  In (ODtlsStop (t_tp x)) (plan_tps l) /\ In (OIceStop (t_tp x)) (plan_tps l).
Proof.
  revert i. induction l as [|y l IH]; intros [|i] H; cbn in *; try discriminate.
  - injection H as ->. auto.
  - destruct (IH i H). auto.
Qed.

(* ------------------------------------------------------------------ shape *)
(* the static part of a configuration: which transport each transceiver / SCTP uses, how many
   transports there are *)
Definition shape (c : cfg) : list nat * nat * option nat :=
  (map t_tp (c_trx c), length (c_tps c), option_map sc_tp (c_sctp c)).

Lemma shape_set_sub c s : shape (set_sub c s) = shape c.
Proof. unfold set_sub. destruct (c_main c) as [[[? ?] ?]|]; reflexivity. Qed.

Lemma shape_set_trx c i x x' :
  nth_error (c_trx c) i = Some x -> t_tp x' = t_tp x -> shape (set_trx c i x') = shape c.
Proof. intros Hn Ht. unfold shape. cbn [c_trx c_tps c_sctp set_trx]. erewrite map_tp_upd; eauto. Qed.

Lemma shape_set_tp c t x : shape (set_tp c t x) = shape c.
Proof. unfold shape. cbn [c_trx c_tps c_sctp set_tp]. rewrite length_upd. reflexivity. Qed.

Lemma map_tp_disconnect l t : map t_tp (disconnect_all l t) = map t_tp l.
Proof.
  unfold disconnect_all. rewrite map_map. apply map_ext. intros x.
  destruct (t_tp x =? t); reflexivity.
Qed.

Lemma step_shape fx c e c' : step fx c e = Some c' -> shape c' = shape c.
Proof.
  intros HS. destruct e; cbn [step] in HS.
  all: try (inv_step HS; rewrite ?shape_set_sub; try reflexivity;
            try (apply shape_set_tp); try (eapply shape_set_trx; eauto; reflexivity); fail).
  all: try (inv_step HS; try reflexivity; unfold shape; cbn [c_trx c_tps c_sctp set_sctp]; rewrite ?E; reflexivity).
  - (* EPumpEnd *) inv_step HS; try apply shape_set_tp.
    unfold shape. cbn [c_trx c_tps c_sctp set_tp]. rewrite map_tp_disconnect, length_upd. reflexivity.
  - (* EStopCall *) inv_step HS. unfold stop_call in HS. destruct o; inv_step HS; rewrite shape_set_sub; try reflexivity;
      try apply shape_set_tp; try (eapply shape_set_trx; eauto; reflexivity).
    unfold shape; cbn [c_trx c_tps c_sctp set_sctp]; rewrite ?E3; reflexivity.
  - (* EStopRet *) inv_step HS. unfold pop_main in HS. inv_step HS. reflexivity.
  - (* ECancel *) unfold do_cancel in HS. inv_step HS; rewrite shape_set_sub;
      try apply shape_set_tp; try (eapply shape_set_trx; eauto; reflexivity).
Qed.

Definition shape_wf (sh : list nat * nat * option nat) : Prop :=
  Forall (fun t => t < snd (fst sh)) (fst (fst sh)) /\
  match snd sh with Some t => t < snd (fst sh) | None => True end.
Definition wf_tp (c : cfg) : Prop := shape_wf (shape c).

Lemma step_wf_tp fx c e c' : wf_tp c -> step fx c e = Some c' -> wf_tp c'.
Proof. intros H HS. unfold wf_tp. rewrite (step_shape _ _ _ _ HS). exact H. Qed.

Lemma plan_trx_valid l k :
  Forall (fun o => match o with ORecvStop j | OSendStop j => j < k + length l | _ => False end) (plan_trx l k).
Proof.
  revert k. induction l as [|x l IH]; intros k; cbn [plan_trx length]; constructor; [lia|constructor; [lia|]].
  eapply Forall_impl; [|apply (IH (S k))]. intros o. destruct o; auto; lia.
Qed.

Lemma plan_tps_valid l n :
  Forall (fun t => t < n) (map t_tp l) ->
  Forall (fun o => match o with ODtlsStop t | OIceStop t => t < n | _ => False end) (plan_tps l).
Proof.
  induction l as [|x l IH]; cbn [plan_tps map]; intros H; [constructor|].
  inversion H; subst. constructor; [auto|constructor; auto].
Qed.

Lemma plan_valid c : wf_tp c -> Forall (op_valid c) (plan c).
Proof.
  intros [H1 H2]. unfold shape in *. cbn [fst snd] in *. unfold plan.
  repeat rewrite Forall_app. repeat split.
  - eapply Forall_impl; [|apply plan_trx_valid]. intros o. destruct o; try tauto; cbn [op_valid];
      intros Hlt; apply nth_error_Some; lia.
  - destruct (c_sctp c) eqn:Es; [|constructor]. constructor; [cbn [op_valid]; congruence|constructor].
  - eapply Forall_impl; [|apply plan_tps_valid; exact H1]. intros o. destruct o; try tauto; cbn [op_valid];
      intros Hlt; apply nth_error_Some; lia.
  - destruct (c_sctp c) as [s|]; cbn in *; [|constructor].
    constructor; [|constructor; [|constructor]]; cbn [op_valid]; apply nth_error_Some; lia.
Qed.

(* ------------------------------------------------------------------ generic preservation lemmas *)
Definition tp_compat (tp tp' : transport) : Prop :=
  (i_state tp' = IClosed <-> i_state tp = IClosed) /\
  (i_candend tp = true -> i_candend tp' = true) /\
  (i_state tp = IClosed -> i_cclosed tp = true -> i_consent tp = false ->
   i_cclosed tp' = true /\ i_consent tp' = false) /\
  (i_state tp = IClosed -> i_mon tp <> MWaiting -> i_mon tp' <> MWaiting) /\
  (i_mon tp <> MNone -> i_mon tp' <> MNone).

Lemma op_valid_ext c c' o :
  (forall i, nth_error (c_trx c') i <> None <-> nth_error (c_trx c) i <> None) ->
  (forall i, nth_error (c_tps c') i <> None <-> nth_error (c_tps c) i <> None) ->
  (c_sctp c' <> None <-> c_sctp c <> None) ->
  op_valid c o -> op_valid c' o.
Proof. intros H1 H2 H3. destruct o; cbn [op_valid]; intros H; try apply H1; try apply H2; try apply H3; auto. Qed.

Lemma ice_pc_compat s tp tp' : tp_compat tp tp' -> ice_pc s tp -> ice_pc s tp'.
Proof.
  intros (H1 & _ & _ & _ & H5). destruct s; cbn [ice_pc]; auto; try (intros H; apply H1; exact H).
  intros [Ha Hb]. split; [apply H1; exact Ha|auto].
Qed.

Lemma iquiet_compat tp tp' : tp_compat tp tp' -> iquiet tp -> iquiet tp'.
Proof.
  intros (H1 & H2 & H3 & H4 & H5) (Q1 & Q2 & Q3 & Q4 & Q5).
  destruct (H3 Q1 Q4 Q3). unfold iquiet. repeat split; auto. apply H1; auto.
Qed.

Lemma inv_set_tp c t tp tp' :
  inv c -> nth_error (c_tps c) t = Some tp -> tp_compat tp tp' -> inv (set_tp c t tp').
Proof.
  intros (HA & HB & HC & HD & HE) Hn Hc.
  assert (Hval : forall o, op_valid c o -> op_valid (set_tp c t tp') o).
  { intros o. apply op_valid_ext; cbn [c_trx c_tps c_sctp set_tp]; try tauto.
    intros i. apply nth_error_upd_none. }
  split; [exact HA|]. split; [exact HB|]. split; [|split].
  - (* main_ok *)
    unfold main_ok in *. cbn [c_main set_tp]. destruct (c_main c) as [[[id todo] s]|]; auto.
    destruct todo as [|o todo]; auto. destruct HC as [[Hv Hp] Hf]. split; [split|].
    + auto.
    + destruct o; cbn [c_trx c_tps c_sctp set_tp]; auto.
      intros tp0. rewrite nth_error_upd. destruct (Nat.eqb_spec t0 t) as [->|Hne]; [|apply Hp].
      rewrite Hn. intros H; injection H as <-. eapply ice_pc_compat; eauto.
    + eapply Forall_impl; [|exact Hf]. auto.
  - (* closed_ok *)
    intros t0 tp0. cbn [c_tps set_tp]. rewrite nth_error_upd.
    destruct (Nat.eqb_spec t0 t) as [->|Hne]; [|apply HD].
    rewrite Hn. intros H; injection H as <-.
    destruct Hc as (H1 & H2 & H3 & H4 & H5). intros Hcl. apply H1 in Hcl.
    destruct (HD t tp Hn Hcl) as [Hce Hor]. split; [auto|].
    destruct Hor as [Hh|(Hcc & Hco & Hm)]; [left; exact Hh|right].
    destruct (H3 Hcl Hcc Hco). repeat split; auto. destruct Hm as [Hm|Hm]; [left; auto|right; exact Hm].
  - (* post_ok *)
    intros Hcl. destruct (HE Hcl) as [Hs Hp]. split; [exact Hs|].
    intros o Ho. change (plan (set_tp c t tp')) with (plan c) in Ho.
    destruct (Hp o Ho) as [Hin|Hpost]; [left; exact Hin|right].
    destruct o; cbn [post c_trx c_tps c_sctp set_tp] in *; auto.
    intros tp0. rewrite nth_error_upd. destruct (Nat.eqb_spec t0 t) as [->|Hne]; [|apply Hpost].
    rewrite Hn. intros H; injection H as <-. eapply iquiet_compat; eauto.
Qed.

Definition trx_compat (c : cfg) (i : nat) (x x' : trx) : Prop :=
  t_tp x' = t_tp x /\ comp_ok x' /\
  (c_closed c <> FNone -> rquiet (t_r x) -> rquiet (t_r x')) /\
  (c_closed c <> FNone -> squiet (t_s x) -> squiet (t_s x')) /\
  (forall s, head c = Some (ORecvStop i, s) -> recv_pc s (t_r x) -> recv_pc s (t_r x')) /\
  (forall s, head c = Some (OSendStop i, s) -> send_pc s (t_s x) -> send_pc s (t_s x')).

Lemma main_head c id o todo s : c_main c = Some (id, o :: todo, s) -> head c = Some (o, s).
Proof. intros H. unfold head. rewrite H. reflexivity. Qed.

Lemma inv_set_trx c i x x' :
  inv c -> nth_error (c_trx c) i = Some x -> trx_compat c i x x' -> inv (set_trx c i x').
Proof.
  intros (HA & HB & HC & HD & HE) Hn (Ht & Hok & Hrq & Hsq & Hpr & Hps).
  assert (Hval : forall o, op_valid c o -> op_valid (set_trx c i x') o).
  { intros o. apply op_valid_ext; cbn [c_trx c_tps c_sctp set_trx]; try tauto.
    intros j. apply nth_error_upd_none. }
  split; [|split; [exact HB|split; [|split; [exact HD|]]]].
  - intros j y. cbn [c_trx set_trx]. rewrite nth_error_upd.
    destruct (Nat.eqb_spec j i) as [->|Hne]; [|apply HA].
    rewrite Hn. intros H; injection H as <-. exact Hok.
  - unfold main_ok in *. cbn [c_main set_trx]. destruct (c_main c) as [[[id todo] s]|] eqn:Em; auto.
    destruct todo as [|o todo]; auto. destruct HC as [[Hv Hp] Hf]. split; [split|].
    + auto.
    + pose proof (main_head _ _ _ _ _ Em) as Hh.
      destruct o; cbn [c_trx c_tps c_sctp set_trx]; auto.
      * intros x0. rewrite nth_error_upd. destruct (Nat.eqb_spec i0 i) as [->|Hne]; [|apply Hp].
        rewrite Hn. intros H; injection H as <-. apply Hpr; auto.
      * intros x0. rewrite nth_error_upd. destruct (Nat.eqb_spec i0 i) as [->|Hne]; [|apply Hp].
        rewrite Hn. intros H; injection H as <-. apply Hps; auto.
    + eapply Forall_impl; [|exact Hf]. auto.
  - intros Hcl. destruct (HE Hcl) as [Hs Hp]. split; [exact Hs|].
    intros o Ho.
    assert (Hpl : plan (set_trx c i x') = plan c).
    { apply plan_same; cbn [c_trx c_sctp set_trx]; [eapply map_tp_upd; eauto|reflexivity]. }
    rewrite Hpl in Ho.
    destruct (Hp o Ho) as [Hin|Hpost]; [left; exact Hin|right].
    destruct o; cbn [post c_trx c_tps c_sctp set_trx] in *; auto.
    + intros x0. rewrite nth_error_upd. destruct (Nat.eqb_spec i0 i) as [->|Hne]; [|apply Hpost].
      rewrite Hn. intros H; injection H as <-. apply Hrq; auto.
    + intros x0. rewrite nth_error_upd. destruct (Nat.eqb_spec i0 i) as [->|Hne]; [|apply Hpost].
      rewrite Hn. intros H; injection H as <-. apply Hsq; auto.
Qed.

Definition map_trx (c : cfg) (f : trx -> trx) : cfg :=
  mkCfg (map f (c_trx c)) (c_tps c) (c_sctp c) (c_closed c) (c_main c) (c_waiters c) (c_sig_closed c).

Lemma map_tp_map f l : (forall x, t_tp (f x) = t_tp x) -> map t_tp (map f l) = map t_tp l.
Proof. intros H. rewrite map_map. apply map_ext. exact H. Qed.

Lemma inv_map_trx c f :
  inv c -> (forall i x, nth_error (c_trx c) i = Some x -> trx_compat c i x (f x)) -> inv (map_trx c f).
Proof.
  intros (HA & HB & HC & HD & HE) Hf.
  assert (Hnth : forall i, nth_error (map f (c_trx c)) i = option_map f (nth_error (c_trx c) i)).
  { intros i. apply nth_error_map. }
  assert (Hval : forall o, op_valid c o -> op_valid (map_trx c f) o).
  { intros o. apply op_valid_ext; cbn [c_trx c_tps c_sctp map_trx]; try tauto.
    intros j. rewrite Hnth. destruct (nth_error (c_trx c) j); cbn; split; congruence. }
  split; [|split; [exact HB|split; [|split; [exact HD|]]]].
  - intros j y. cbn [c_trx map_trx]. rewrite Hnth. destruct (nth_error (c_trx c) j) as [x|] eqn:En; cbn; [|discriminate].
    intros H; injection H as <-. destruct (Hf j x En) as (_ & Hok & _). exact Hok.
  - unfold main_ok in *. cbn [c_main map_trx]. destruct (c_main c) as [[[id todo] s]|] eqn:Em; auto.
    destruct todo as [|o todo]; auto. destruct HC as [[Hv Hp] Hf2]. split; [split|].
    + auto.
    + pose proof (main_head _ _ _ _ _ Em) as Hh.
      destruct o; cbn [c_trx c_tps c_sctp map_trx]; auto.
      * intros x0. rewrite Hnth. destruct (nth_error (c_trx c) i) as [x|] eqn:En; cbn; [|discriminate].
        intros H; injection H as <-. destruct (Hf i x En) as (_ & _ & _ & _ & Hpr & _). apply Hpr; auto.
      * intros x0. rewrite Hnth. destruct (nth_error (c_trx c) i) as [x|] eqn:En; cbn; [|discriminate].
        intros H; injection H as <-. destruct (Hf i x En) as (_ & _ & _ & _ & _ & Hps). apply Hps; auto.
    + eapply Forall_impl; [|exact Hf2]. auto.
  - intros Hcl. destruct (HE Hcl) as [Hs Hp]. split; [exact Hs|].
    intros o Ho.
    assert (Hpl : plan (map_trx c f) = plan c).
    { apply plan_same; cbn [c_trx c_sctp map_trx]; [|reflexivity].
      rewrite map_map. clear - Hf. 
      assert (forall i x, nth_error (c_trx c) i = Some x -> t_tp (f x) = t_tp x) as Ht.
      { intros i x En. destruct (Hf i x En) as (Ht & _). exact Ht. }
      clear Hf. revert Ht. generalize (c_trx c). induction l as [|y l IH]; intros Ht; cbn; auto.
      rewrite (Ht 0 y eq_refl). f_equal. apply IH. intros i x En. apply (Ht (S i) x En). }
    rewrite Hpl in Ho.
    destruct (Hp o Ho) as [Hin|Hpost]; [left; exact Hin|right].
    destruct o; cbn [post c_trx c_tps c_sctp map_trx] in *; auto.
    + intros x0. rewrite Hnth. destruct (nth_error (c_trx c) i) as [x|] eqn:En; cbn; [|discriminate].
      intros H; injection H as <-. destruct (Hf i x En) as (_ & _ & Hrq & _). apply Hrq; auto.
    + intros x0. rewrite Hnth. destruct (nth_error (c_trx c) i) as [x|] eqn:En; cbn; [|discriminate].
      intros H; injection H as <-. destruct (Hf i x En) as (_ & _ & _ & Hsq & _). apply Hsq; auto.
Qed.

(* sctp-only changes *)
Lemma inv_set_sctp c sc sc' :
  inv c -> c_sctp c = Some sc -> sc_tp sc' = sc_tp sc ->
  (c_closed c <> FNone -> scquiet sc -> scquiet sc') ->
  (forall s, head c = Some (OSctpStop, s) -> sctp_pc s sc -> sctp_pc s sc') ->
  inv (set_sctp c (Some sc')).
Proof.
  intros (HA & HB & HC & HD & HE) Hn Ht Hq Hpc.
  assert (Hval : forall o, op_valid c o -> op_valid (set_sctp c (Some sc')) o).
  { intros o. apply op_valid_ext; cbn [c_trx c_tps c_sctp set_sctp]; try tauto.
    rewrite Hn. split; congruence. }
  split; [exact HA|split; [exact HB|split; [|split; [exact HD|]]]].
  - unfold main_ok in *. cbn [c_main set_sctp]. destruct (c_main c) as [[[id todo] s]|] eqn:Em; auto.
    destruct todo as [|o todo]; auto. destruct HC as [[Hv Hp] Hf]. split; [split|].
    + auto.
    + pose proof (main_head _ _ _ _ _ Em) as Hh.
      destruct o; cbn [c_trx c_tps c_sctp set_sctp]; auto.
      intros sc0 H; injection H as <-. apply Hpc; auto.
    + eapply Forall_impl; [|exact Hf]. auto.
  - intros Hcl. destruct (HE Hcl) as [Hs Hp]. split; [exact Hs|].
    intros o Ho.
    assert (Hpl : plan (set_sctp c (Some sc')) = plan c).
    { apply plan_same; cbn [c_trx c_sctp set_sctp]; [reflexivity|]. rewrite Hn. cbn. rewrite Ht. reflexivity. }
    rewrite Hpl in Ho.
    destruct (Hp o Ho) as [Hin|Hpost]; [left; exact Hin|right].
    destruct o; cbn [post c_trx c_tps c_sctp set_sctp] in *; auto.
    intros sc0 H; injection H as <-. apply Hq; auto.
Qed.

Lemma open_main c : inv c -> is_open c = true -> c_main c = None /\ c_closed c = FNone.
Proof.
  intros (_ & HB & _) Ho. unfold is_open in Ho. unfold fut_ok in HB.
  destruct (c_closed c) eqn:Ec; try discriminate. destruct (c_main c); [discriminate|auto].
Qed.

Lemma head_none c o s : c_main c = None -> head c = Some (o, s) -> False.
Proof. unfold head. intros ->. discriminate. Qed.

Ltac trxc HI E :=
  let HA := fresh "HA" in
  pose proof (proj1 HI) as HA;
  destruct (HA _ _ E) as ((?U1 & ?U2) & ?S1 & ?R1 & ?F1 & ?F2 & ?F3 & ?G1);
  unfold trx_compat, with_s, with_r, comp_ok, unstarted_ok; cbn; repeat split;
  unfold rquiet, squiet, tquiet, cancelled in *;
  try (let s := fresh "s" in let Hh := fresh "Hh" in
       intros s Hh; destruct s; cbn [recv_pc send_pc]; unfold cancelled);
  cbn in *; intuition (try congruence).

Ltac tpc := unfold tp_compat; cbn; intuition (try congruence).

Lemma trx_compat_refl c i x : comp_ok x -> trx_compat c i x x.
Proof. intros H. unfold trx_compat. split; [reflexivity|]. split; [exact H|]. split; [auto|]. split; [auto|]. split; intros s _ Hs; exact Hs. Qed.

Lemma trx_compat_stopdec c i x : comp_ok x -> trx_compat c i x (with_r x (stop_decoder (t_r x))).
Proof.
  intros ((U1 & U2) & S1 & R1 & F1 & F2 & F3 & G1).
  unfold trx_compat, with_r, stop_decoder, comp_ok, unstarted_ok, rquiet, squiet.
  destruct (r_dec (t_r x)) eqn:Ed; cbn; repeat split; auto; try tauto; try congruence.
  all: try (intros s Hh; destruct s; cbn [recv_pc]; cbn; intuition congruence).
  all: intuition congruence.
Qed.


Definition pc_clause (c : cfg) (o : op) (s : sub) : Prop :=
  match o with
  | ORecvStop i => forall x, nth_error (c_trx c) i = Some x -> recv_pc s (t_r x)
  | OSendStop i => forall x, nth_error (c_trx c) i = Some x -> send_pc s (t_s x)
  | OSctpStop => forall sc, c_sctp c = Some sc -> sctp_pc s sc
  | ODtlsStop t => dtls_pc s
  | OIceStop t => forall tp, nth_error (c_tps c) t = Some tp -> ice_pc s tp
  end.

Lemma head_set_sub c id o todo s s' :
  c_main c = Some (id, o :: todo, s) -> head (set_sub c s') = Some (o, s').
Proof. intros Hm. unfold set_sub, head. rewrite Hm. reflexivity. Qed.

Lemma inv_set_sub c id o todo s s' :
  inv c -> c_main c = Some (id, o :: todo, s) -> pc_clause c o s' ->
  (forall t tp, nth_error (c_tps c) t = Some tp -> closed_ok (set_sub c s') t tp) ->
  inv (set_sub c s').
Proof.
  intros (HA & HB & HC & HD & HE) Hm Hcl Hco.
  unfold set_sub in *. rewrite Hm in *.
  split; [exact HA|split; [|split; [|split; [exact Hco|]]]].
  - unfold fut_ok in *. rewrite Hm in HB. cbn. exact HB.
  - unfold main_ok in *. rewrite Hm in HC. cbn [c_main set_main]. destruct HC as [[Hv _] Hf].
    split; [split; [exact Hv|]|exact Hf]. exact Hcl.
  - intros Hc. destruct (HE Hc) as [Hs Hp]. split; [exact Hs|]. intros o0 Ho.
    destruct (Hp o0 Ho) as [Hin|Hpo]; [left|right; exact Hpo].
    unfold todo_of in *. rewrite Hm in Hin. exact Hin.
Qed.

Lemma closed_ok_set_sub_other c id o todo s s' t tp :
  c_main c = Some (id, o :: todo, s) -> (forall t0, o <> OIceStop t0) ->
  closed_ok c t tp -> closed_ok (set_sub c s') t tp.
Proof.
  intros Hm Hno Hc Hcl. destruct (Hc Hcl) as [Hce Hor]. split; [exact Hce|].
  pose proof (main_head _ _ _ _ _ Hm) as Hh. rewrite Hh in Hor.
  right. destruct Hor as [Hx|(H1 & H2 & [H3|Hx])].
  - injection Hx as Hx _. exfalso. eapply Hno; eauto.
  - repeat split; auto.
  - injection Hx as Hx _. exfalso. eapply Hno; eauto.
Qed.

(* component update followed by a move of the close() coroutine, for stops that are not ICE stops *)
Lemma inv_set_sub_other c id o todo s s' :
  inv c -> c_main c = Some (id, o :: todo, s) -> (forall t0, o <> OIceStop t0) -> pc_clause c o s' ->
  inv (set_sub c s').
Proof.
  intros HI Hm Hno Hcl. eapply inv_set_sub; eauto.
  intros t tp Hn. eapply closed_ok_set_sub_other; eauto. destruct HI as (_ & _ & _ & HD & _). auto.
Qed.

Lemma closed_ok_idle c id o todo t tp s' :
  c_main c = Some (id, o :: todo, SIdle) -> closed_ok c t tp -> closed_ok (set_sub c s') t tp.
Proof.
  intros Hm Hc Hcl. destruct (Hc Hcl) as [Hce Hor]. split; [exact Hce|].
  pose proof (main_head _ _ _ _ _ Hm) as Hh. rewrite Hh in Hor.
  right. destruct Hor as [Hx|(H1 & H2 & [H3|Hx])]; try discriminate. repeat split; auto.
Qed.

Lemma inv_ice_stop_call c id t todo tp :
  inv c -> c_main c = Some (id, OIceStop t :: todo, SIdle) -> nth_error (c_tps c) t = Some tp ->
  i_state tp <> IClosed ->
  inv (set_sub (set_tp c t (mkTp (d_state tp) (d_pump tp) (d_ref tp) IClosed (i_mon tp) (i_starting tp)
                                 (i_cclosed tp) (i_consent tp) true)) SIceClosing).
Proof.
  intros HI Hm Hn Hnc. pose proof HI as (HA & HB & HC & HD & HE).
  set (tp' := mkTp (d_state tp) (d_pump tp) (d_ref tp) IClosed (i_mon tp) (i_starting tp)
                   (i_cclosed tp) (i_consent tp) true).
  set (c1 := set_tp c t tp').
  assert (Hm1 : c_main c1 = Some (id, OIceStop t :: todo, SIdle)) by exact Hm.
  assert (Hval : forall o, op_valid c o -> op_valid c1 o).
  { intros o. apply op_valid_ext; cbn [c_trx c_tps c_sctp set_tp c1]; try tauto.
    intros i. apply nth_error_upd_none. }
  unfold set_sub. rewrite Hm1.
  split; [exact HA|split; [|split; [|split]]].
  - unfold fut_ok in *. rewrite Hm in HB. cbn. exact HB.
  - unfold main_ok in *. rewrite Hm in HC. cbn [c_main set_main]. destruct HC as [[Hv _] Hf].
    split; [split; [apply (Hval _ Hv)|]|eapply Forall_impl; [|exact Hf]; exact Hval].
    cbn [c_tps set_main c1 set_tp]. intros tp0. rewrite nth_error_upd_same with (y := tp) by exact Hn.
    intros H; injection H as <-. reflexivity.
  - intros t1 tp1. cbn [c_tps set_main c1 set_tp]. rewrite nth_error_upd.
    destruct (Nat.eqb_spec t1 t) as [->|Hne].
    + rewrite Hn. intros H; injection H as <-. intros _. split; [reflexivity|]. left. reflexivity.
    + intros Hn1 Hcl. destruct (HD t1 tp1 Hn1 Hcl) as [Hce Hor]. split; [exact Hce|].
      pose proof (main_head _ _ _ _ _ Hm) as Hh. rewrite Hh in Hor.
      right. destruct Hor as [Hx|(H1 & H2 & [H3|Hx])]; try discriminate. repeat split; auto.
  - intros Hc. destruct (HE Hc) as [Hs Hp]. split; [exact Hs|]. intros o Ho.
    change (plan (set_main c1 (Some (id, OIceStop t :: todo, SIceClosing)))) with (plan c) in Ho.
    destruct (Hp o Ho) as [Hin|Hpo].
    + left. unfold todo_of in *. rewrite Hm in Hin. exact Hin.
    + destruct o; try (right; exact Hpo).
      destruct (Nat.eqb_spec t0 t) as [->|Hne].
      * exfalso. destruct (Hpo tp Hn) as (Hq & _). contradiction.
      * right. cbn [post c_tps set_main c1 set_tp]. intros tp0. rewrite nth_error_upd_other by exact Hne.
        apply Hpo.
Qed.

Lemma exited_set_eq t : exited_set t = true -> t = TExited.
Proof. destruct t; cbn; intros H; try discriminate; reflexivity. Qed.

(* what a returning stop() has achieved *)
Lemma ret_post c id o todo s :
  inv c -> c_main c = Some (id, o :: todo, s) -> stop_ret c o s = true -> post c o.
Proof.
  intros (HA & HB & HC & HD & HE) Hm Hr. unfold main_ok in HC. rewrite Hm in HC.
  destruct HC as [[Hv Hp] _]. pose proof (main_head _ _ _ _ _ Hm) as Hh.
  destruct o; cbn [post].
  - intros x Hn. specialize (Hp x Hn). destruct (HA _ _ Hn) as ((U1 & U2) & _).
    unfold stop_ret in Hr. destruct s; try discriminate.
    + destruct Hp as [Hs He]. destruct (U2 Hs) as [Hr1 Hd]. unfold rquiet, tquiet. auto.
    + rewrite Hn in Hr. apply exited_set_eq in Hr. destruct Hp as (_ & Hd & He). unfold rquiet, tquiet. auto.
  - intros x Hn. specialize (Hp x Hn). destruct (HA _ _ Hn) as ((U1 & U2) & _).
    unfold stop_ret in Hr. destruct s; try discriminate.
    + destruct (U1 Hp) as [H1 H2]. unfold squiet, tquiet. auto.
    + rewrite Hn in Hr. apply andb_prop in Hr. destruct Hr as [H1 H2].
      apply exited_set_eq in H1, H2. unfold squiet, tquiet. auto.
  - intros sc Hn. specialize (Hp sc Hn). unfold stop_ret in Hr. destruct s; try discriminate. exact Hp.
  - exact I.
  - intros tp Hn. specialize (Hp tp Hn). pose proof (HD t tp Hn) as Hc. unfold closed_ok in Hc. rewrite Hh in Hc.
    unfold stop_ret in Hr. destruct s; try discriminate.
    + cbn in Hp. destruct (Hc Hp) as [Hce Hor].
      destruct Hor as [Hx|(H1 & H2 & [H3|Hx])]; try discriminate. unfold iquiet. auto.
    + rewrite Hn in Hr. destruct Hp as [Hp1 Hp2]. destruct (Hc Hp1) as [Hce Hor].
      destruct (i_mon tp) eqn:Emon; try discriminate.
      destruct Hor as [Hx|(H1 & H2 & _)]; try discriminate. unfold iquiet. rewrite Emon. repeat split; auto; discriminate.
Qed.

Lemma inv_pop c id o todo s :
  inv c -> c_main c = Some (id, o :: todo, s) -> stop_ret c o s = true ->
  inv (set_main c (Some (id, todo, SIdle))).
Proof.
  intros HI Hm Hr. pose proof (ret_post _ _ _ _ _ HI Hm Hr) as Hpost.
  destruct HI as (HA & HB & HC & HD & HE). pose proof (main_head _ _ _ _ _ Hm) as Hh.
  split; [exact HA|split; [|split; [|split]]].
  - unfold fut_ok in *. rewrite Hm in HB. exact HB.
  - unfold main_ok in *. rewrite Hm in HC. cbn [c_main set_main]. destruct HC as [_ Hf].
    destruct todo as [|o2 todo]; [reflexivity|]. inversion Hf; subst. split; [|assumption].
    split; [assumption|]. destruct o2; cbn; auto.
  - intros t tp Hn Hcl. cbn [c_tps set_main] in Hn. destruct (HD t tp Hn Hcl) as [Hce Hor]. split; [exact Hce|]. right.
    rewrite Hh in Hor. destruct Hor as [Hx|(H1 & H2 & [H3|Hx])].
    + injection Hx as -> ->. cbn in Hr. discriminate.
    + repeat split; auto.
    + injection Hx as -> ->. cbn in Hr. rewrite Hn in Hr.
      destruct (i_mon tp) eqn:Emon; try discriminate. repeat split; auto. left. discriminate.
  - intros Hc. destruct (HE Hc) as [Hs Hp]. split; [exact Hs|]. intros o0 Ho.
    change (plan (set_main c (Some (id, todo, SIdle)))) with (plan c) in Ho.
    destruct (Hp o0 Ho) as [Hin|Hpo]; [|right; exact Hpo].
    unfold todo_of in Hin. rewrite Hm in Hin. destruct Hin as [<-|Hin]; [right; exact Hpost|left; exact Hin].
Qed.

Lemma inv_ice_conn_closed c id t todo tp :
  inv c -> c_main c = Some (id, OIceStop t :: todo, SIceClosing) -> nth_error (c_tps c) t = Some tp ->
  inv (set_sub (set_tp c t (mkTp (d_state tp) (d_pump tp) (d_ref tp) (i_state tp) (i_mon tp) (i_starting tp)
                                 true false (i_candend tp)))
               (match i_mon tp with MNone => SDone | _ => SWaitMon end)).
Proof.
  intros HI Hm Hn. pose proof HI as (HA & HB & HC & HD & HE).
  set (tp' := mkTp (d_state tp) (d_pump tp) (d_ref tp) (i_state tp) (i_mon tp) (i_starting tp)
                   true false (i_candend tp)).
  set (s' := match i_mon tp with MNone => SDone | _ => SWaitMon end).
  set (c1 := set_tp c t tp').
  assert (Hm1 : c_main c1 = Some (id, OIceStop t :: todo, SIceClosing)) by exact Hm.
  pose proof (main_head _ _ _ _ _ Hm) as Hh.
  assert (Hcl : i_state tp = IClosed).
  { unfold main_ok in HC. rewrite Hm in HC. destruct HC as [[_ Hp] _]. exact (Hp tp Hn). }
  assert (Hval : forall o, op_valid c o -> op_valid c1 o).
  { intros o. apply op_valid_ext; cbn [c_trx c_tps c_sctp set_tp c1]; try tauto.
    intros i. apply nth_error_upd_none. }
  unfold set_sub. rewrite Hm1.
  split; [exact HA|split; [|split; [|split]]].
  - unfold fut_ok in *. rewrite Hm in HB. cbn. exact HB.
  - unfold main_ok in *. rewrite Hm in HC. cbn [c_main set_main]. destruct HC as [[Hv _] Hf].
    split; [split; [apply (Hval _ Hv)|]|eapply Forall_impl; [|exact Hf]; exact Hval].
    cbn [c_tps set_main c1 set_tp]. intros tp0. rewrite nth_error_upd_same with (y := tp) by exact Hn.
    intros H; injection H as <-. unfold s'. destruct (i_mon tp) eqn:Emon; cbn; rewrite ?Emon; auto; split; auto; discriminate.
  - intros t1 tp1. cbn [c_tps set_main c1 set_tp]. rewrite nth_error_upd.
    destruct (Nat.eqb_spec t1 t) as [->|Hne].
    + rewrite Hn. intros H; injection H as <-. intros _.
      destruct (HD t tp Hn Hcl) as [Hce _]. split; [exact Hce|]. right. cbn.
      repeat split. unfold head, s'. cbn. destruct (i_mon tp); [left; discriminate|right; reflexivity|left; discriminate].
    + intros Hn1 Hc1. destruct (HD t1 tp1 Hn1 Hc1) as [Hce Hor]. split; [exact Hce|].
      rewrite Hh in Hor.
      right. destruct Hor as [Hx|(H1 & H2 & [H3|Hx])]; try discriminate.
      * injection Hx as Hx. congruence.
      * repeat split; auto.
  - intros Hc. destruct (HE Hc) as [Hs Hp]. split; [exact Hs|]. intros o Ho.
    change (plan (set_main c1 (Some (id, OIceStop t :: todo, s')))) with (plan c) in Ho.
    destruct (Hp o Ho) as [Hin|Hpo].
    + left. unfold todo_of in *. rewrite Hm in Hin. exact Hin.
    + right. destruct o; try exact Hpo.
      cbn [post c_tps set_main c1 set_tp]. intros tp0. rewrite nth_error_upd.
      destruct (Nat.eqb_spec t0 t) as [->|Hne]; [|apply Hpo].
      rewrite Hn. intros H; injection H as <-. destruct (Hpo tp Hn) as (Q1 & Q2 & Q3 & Q4 & Q5).
      unfold iquiet. cbn. auto.
Qed.

(* ------------------------------------------------------------------ every step preserves the invariant *)
Lemma step_inv c e c' : inv c -> wf_tp c -> step true c e = Some c' -> inv c'.
Proof.
  intros HI HW HS. destruct e; cbn [step] in HS.
  - (* EIceStart *) inv_step HS; eapply inv_set_tp; eauto; tpc.
  - (* EIceStartRet *) inv_step HS; eapply inv_set_tp; eauto; destruct (i_state t0) eqn:Es, ok; tpc.
  - (* EDtlsStart *) inv_step HS; eapply inv_set_tp; eauto; tpc.
  - (* EDtlsStartRet *) inv_step HS; eapply inv_set_tp; eauto; tpc.
  - (* ESend *) inv_step HS; auto. eapply inv_set_trx; eauto.
    apply andb_prop in E1. destruct E1 as [_ Ho]. cbn in Ho. destruct (open_main _ HI Ho) as [Hm Hc].
    destruct HI as (HA & _). destruct (HA _ _ E) as ((U1 & U2) & S1 & R1 & F1 & F2 & F3 & G1).
    unfold trx_compat, with_s. cbn. repeat split; auto; try congruence; try discriminate.
    all: try (intros s Hh; exfalso; eapply head_none; eauto).
    all: cbn in *; intuition (try congruence).
  - (* EReceive *) inv_step HS; auto. eapply inv_set_trx; eauto.
    apply andb_prop in E1. destruct E1 as [_ Ho]. cbn in Ho. destruct (open_main _ HI Ho) as [Hm Hc].
    destruct HI as (HA & _). destruct (HA _ _ E) as ((U1 & U2) & S1 & R1 & F1 & F2 & F3 & G1).
    unfold trx_compat, with_r. cbn. repeat split; auto; try congruence; try discriminate.
    all: try (intros s Hh; exfalso; eapply head_none; eauto).
    all: cbn in *; intuition (try congruence).
  - (* ESctpStart *)
    inv_step HS; auto. eapply inv_set_sctp; eauto.
    all: apply andb_prop in E1; destruct E1 as [_ Ho]; cbn in Ho; destruct (open_main _ HI Ho) as [Hm Hc].
    + congruence.
    + intros s0 Hh; exfalso; eapply head_none; eauto.
  - (* ETaskBegin *)
    inv_step HS; eapply inv_set_trx; eauto; trxc HI E.
  - (* ETaskEnd *)
    inv_step HS;
      match goal with H : task_end true _ _ _ = Some _ |- _ => apply task_end_fixed in H; destruct H as [Hst [-> ->]] end;
      eapply inv_set_trx; eauto; destruct Hst as [Hst|Hst]; trxc HI E.
  - (* EPumpEnd *)
    inv_step HS; try (eapply inv_set_tp; eauto; tpc).
    match goal with |- inv ?g => change g with
      (map_trx (set_tp c t (mkTp DClosed PDone (d_ref t0) (i_state t0) (i_mon t0) (i_starting t0) (i_cclosed t0) (i_consent t0) (i_candend t0)))
               (fun x => if Nat.eqb (t_tp x) t then with_r x (stop_decoder (t_r x)) else x)) end.
    apply inv_map_trx; [eapply inv_set_tp; eauto; tpc|].
    cbn [c_trx set_tp]. intros i x En. pose proof (proj1 HI _ _ En) as Hok.
    destruct (t_tp x =? t); [apply trx_compat_stopdec|apply trx_compat_refl]; auto.
  - (* EMonEnd *) inv_step HS; eapply inv_set_tp; eauto; destruct (i_state t0) eqn:Es; tpc.
  - (* ERemoteBye *) inv_step HS. eapply inv_set_trx; eauto. apply trx_compat_stopdec. exact (proj1 HI _ _ E).
  - (* EIceLost *) inv_step HS; eapply inv_set_tp; eauto; tpc.
  - (* ENegoSig *)
    inv_step HS. cbn in E. destruct (open_main _ HI E) as [Hm Hc].
    destruct HI as (HA & HB & HC & HD & HE).
    split; [exact HA|split; [exact HB|split; [exact HC|split; [exact HD|]]]].
    intros Hcl. cbn in Hcl. congruence.
  - (* EChanNew *)
    inv_step HS. eapply inv_set_sctp; eauto.
    + intros Hcl (Q1 & Q2 & Q3). apply orb_prop in E0. unfold is_open in E0. destruct (c_closed c); try congruence;
        destruct E0 as [E0|E0]; try discriminate; rewrite Q1 in E0; discriminate.
    + intros s0 Hh. destruct s0; cbn [sctp_pc]; auto. intros (Q1 & Q2 & Q3).
      apply orb_prop in E0. destruct E0 as [E0|E0].
      * destruct (open_main _ HI E0) as [Hm _]. exfalso. eapply head_none; eauto.
      * rewrite Q1 in E0. discriminate.
  - (* ESctpDown *)
    inv_step HS. eapply inv_set_sctp; eauto.
    + intros _ _. unfold scquiet; cbn; auto.
    + intros s0 Hh. destruct s0; cbn [sctp_pc]; auto. intros _. unfold scquiet; cbn; auto.
  - (* ECandEnd *) inv_step HS; eapply inv_set_tp; eauto; tpc.
  - (* ECloseCall *)
    inv_step HS.
    + (* first caller *)
      destruct HI as (HA & HB & HC & HD & HE).
      assert (Hm : c_main c = None). { unfold fut_ok in HB. destruct (c_main c); [congruence|reflexivity]. }
      split; [exact HA|split; [reflexivity|split; [|split]]].
      * unfold main_ok. cbn [c_main]. pose proof (plan_valid c HW) as Hv.
        destruct (plan c) as [|o todo] eqn:Ep; [reflexivity|].
        inversion Hv; subst. split; [|assumption]. split; [assumption|].
        destruct o; cbn; auto.
      * intros t tp Hn Hcl. destruct (HD t tp Hn Hcl) as [Hce Hor]. split; [exact Hce|].
        right. destruct Hor as [Hh|(H1 & H2 & [H3|Hh])]; try (exfalso; eapply head_none; eauto; fail).
        repeat split; auto.
      * intros _. split; [reflexivity|]. intros o Ho. left. exact Ho.
    + rewrite <- E. destruct HI as (HA & HB & HC & HD & HE). split; [exact HA|split; [exact HB|split; [exact HC|split; [exact HD|exact HE]]]].
    + rewrite <- E. destruct HI as (HA & HB & HC & HD & HE). split; [exact HA|split; [exact HB|split; [exact HC|split; [exact HD|exact HE]]]].
  - (* ECloseRet *)
    destruct (c_main c) as [[[id' todo] s]|] eqn:Em.
    + destruct todo as [|o todo].
      * destruct s;
          try (destruct (c_closed c) eqn:Ec; try discriminate; inv_step HS;
               destruct HI as (HA & HB & HC & HD & HE); unfold fut_ok in HB; rewrite Em in HB; congruence).
        inv_step HS. destruct HI as (HA & HB & HC & HD & HE).
        assert (Hcl : c_closed c = FPending). { unfold fut_ok in HB. rewrite Em in HB. exact HB. }
        assert (Hh : head c = None). { unfold head. rewrite Em. reflexivity. }
        split; [exact HA|split; [cbn; discriminate|split; [exact I|split]]].
        -- intros t tp Hn Hc. destruct (HD t tp Hn Hc) as [Hce Hor]. split; [exact Hce|]. right.
           destruct Hor as [Hx|(H1 & H2 & [H3|Hx])]; try congruence. repeat split; auto.
        -- intros _. destruct HE as [Hs Hp]; [congruence|]. split; [exact Hs|].
           intros o Ho. right. destruct (Hp o Ho) as [Hin|Hpo]; [|exact Hpo].
           unfold todo_of in Hin. rewrite Em in Hin. destruct Hin.
      * destruct (c_closed c) eqn:Ec; try discriminate; inv_step HS;
          destruct HI as (HA & HB & HC & HD & HE); unfold fut_ok in HB; rewrite Em in HB; congruence.
    + destruct (c_closed c) eqn:Ec; try discriminate. inv_step HS.
      rewrite <- Ec, <- Em. destruct HI as (HA & HB & HC & HD & HE).
      split; [exact HA|split; [exact HB|split; [exact HC|split; [exact HD|exact HE]]]].
  - (* EStopCall *)
    destruct (head c) as [[o' s]|] eqn:Eh; [|discriminate]. destruct s; try discriminate.
    destruct (op_eqb o o') eqn:Eo; [|discriminate]. apply op_eqb_eq in Eo; subst o'.
    apply head_main in Eh. destruct Eh as (id & todo & Em).
    unfold stop_call in HS. destruct o; inv_step HS.
    + (* receiver, started *)
      assert (H1 : inv (set_trx c i (with_r t (stop_decoder (t_r t))))).
      { eapply inv_set_trx; eauto. apply trx_compat_stopdec. exact (proj1 HI _ _ E). }
      apply (inv_set_sub_other _ id (ORecvStop i) todo SIdle _ H1 Em); [intros t0; discriminate|].
      cbn [pc_clause c_trx set_trx]. intros x0. rewrite nth_error_upd_same with (y := t) by exact E.
      intros H; injection H as <-. destruct (proj1 HI _ _ E) as (_ & _ & _ & _ & _ & _ & G1).
      unfold with_r, stop_decoder. cbn. destruct (r_dec (t_r t)) eqn:Ed; cbn; auto.
    + (* receiver, never started *)
      match goal with |- inv (set_sub ?c1 _) => assert (H1 : inv c1) end.
      { eapply inv_set_trx; eauto. trxc HI E; apply orb_true_r. }
      apply (inv_set_sub_other _ id (ORecvStop i) todo SIdle _ H1 Em); [intros t0; discriminate|].
      cbn [pc_clause c_trx set_trx]. intros x0. rewrite nth_error_upd_same with (y := t) by exact E.
      intros H; injection H as <-. cbn. split; [reflexivity|apply orb_true_r].
    + (* sender *)
      apply (inv_set_sub_other _ id (OSendStop i) todo SIdle _ HI Em); [intros t0; discriminate|].
      cbn [pc_clause]. intros x0 Hx. rewrite E in Hx. injection Hx as <-.
      destruct (s_started (t_s t)) eqn:Es; cbn; auto.
    + (* sctp *)
      match goal with |- inv (set_sub ?c1 _) => assert (H1 : inv c1) end.
      { eapply inv_set_sctp; eauto.
        - intros _ _. unfold scquiet; cbn; repeat split; reflexivity.
        - intros s1 Hh. destruct s1; cbn [sctp_pc]; auto. intros _. unfold scquiet; cbn; repeat split; reflexivity. }
      apply (inv_set_sub_other _ id OSctpStop todo SIdle _ H1 Em); [intros t0; discriminate|].
      cbn [pc_clause c_sctp set_sctp]. intros sc H; injection H as <-. unfold scquiet; cbn; repeat split; reflexivity.
    + (* dtls *)
      apply (inv_set_sub_other _ id (ODtlsStop t) todo SIdle _ HI Em); [intros t1; discriminate|].
      cbn [pc_clause]. destruct (d_ref t0); cbn; auto.
    + (* ice, not closed yet: four states *) rewrite orb_true_r. eapply inv_ice_stop_call; eauto. congruence.
    + rewrite orb_true_r. eapply inv_ice_stop_call; eauto. congruence.
    + rewrite orb_true_r. eapply inv_ice_stop_call; eauto. congruence.
    + rewrite orb_true_r. eapply inv_ice_stop_call; eauto. congruence.
    + (* ice, already closed *)
      eapply inv_set_sub; eauto.
      * cbn [pc_clause]. intros tp0 Hx. rewrite E in Hx. injection Hx as <-. exact E0.
      * intros t1 tp1 Hn1. eapply closed_ok_idle; eauto. destruct HI as (_ & _ & _ & HD & _). auto.
  - (* EStopRet *)
    destruct (head c) as [[o' s]|] eqn:Eh; [|discriminate].
    destruct (op_eqb o o' && stop_ret c o s) eqn:Eo; [|discriminate].
    apply andb_prop in Eo. destruct Eo as [Eo Er]. apply op_eqb_eq in Eo; subst o'.
    apply head_main in Eh. destruct Eh as (id & todo & Em).
    unfold pop_main in HS. rewrite Em in HS. injection HS as <-. eapply inv_pop; eauto.
  - (* ECancel *)
    unfold do_cancel in HS. inv_step HS.
    all: match goal with H : head _ = Some _ |- _ => apply head_main in H; destruct H as (id & todo & Em) end.
    all: match goal with H : Nat.eqb _ _ = true |- _ => apply Nat.eqb_eq in H; subst end.
    all: assert (Hpc : pc_ok c (match todo_of c with o :: _ => o | [] => OSctpStop end)
                             (match c_main c with Some (_, _, s) => s | None => SIdle end))
           by (destruct HI as (_ & _ & HC & _); unfold main_ok in HC; unfold todo_of; rewrite Em in *; exact (proj1 HC));
         unfold todo_of in Hpc; rewrite Em in Hpc; destruct Hpc as [_ Hpc]; cbn in Hpc.
    + (* receiver rtcp *)
      specialize (Hpc _ E5). destruct Hpc as (P1 & P2 & P3).
      match goal with |- inv (set_sub ?c1 _) => assert (H1 : inv c1) end.
      { eapply inv_set_trx; eauto. destruct (r_rtcp (t_r t)) eqn:Er; try discriminate E6; trxc HI E5. }
      apply (inv_set_sub_other _ id (ORecvStop i0) todo SWaitStarted _ H1 Em); [intros t0; discriminate|].
      cbn [pc_clause c_trx set_trx]. intros x0. rewrite nth_error_upd_same with (y := t) by exact E5.
      intros H; injection H as <-. pose proof (proj1 HI _ _ E5) as (_ & _ & _ & _ & _ & F3 & _).
      cbn. unfold cancelled. destruct (r_rtcp (t_r t)); try discriminate E6; cbn; auto. congruence.
    + (* sender rtp *)
      specialize (Hpc _ E5).
      match goal with |- inv (set_sub ?c1 _) => assert (H1 : inv c1) end.
      { eapply inv_set_trx; eauto. destruct (s_rtp (t_s t)) eqn:Er; try discriminate E6; trxc HI E5. }
      apply (inv_set_sub_other _ id (OSendStop i0) todo SWaitStarted _ H1 Em); [intros t0; discriminate|].
      cbn [pc_clause c_trx set_trx]. intros x0. rewrite nth_error_upd_same with (y := t) by exact E5.
      intros H; injection H as <-. pose proof (proj1 HI _ _ E5) as (_ & _ & _ & F1 & _).
      apply andb_prop in E6. destruct E6 as [E6 E7].
      cbn. unfold cancelled. split; [|exact E7]. destruct (s_rtp (t_s t)); try discriminate E6; cbn; auto. congruence.
    + (* sender rtcp *)
      specialize (Hpc _ E5). destruct Hpc as (P1 & P2).
      match goal with |- inv (set_sub ?c1 _) => assert (H1 : inv c1) end.
      { eapply inv_set_trx; eauto. destruct (s_rtcp (t_s t)) eqn:Er; try discriminate P2; trxc HI E5. }
      apply (inv_set_sub_other _ id (OSendStop i0) todo SCancel1 _ H1 Em); [intros t0; discriminate|].
      cbn [pc_clause c_trx set_trx]. intros x0. rewrite nth_error_upd_same with (y := t) by exact E5.
      intros H; injection H as <-. pose proof (proj1 HI _ _ E5) as (_ & _ & _ & _ & F2 & _).
      cbn. unfold cancelled in *. split; [exact P1|]. destruct (s_rtcp (t_s t)); try discriminate P2; cbn; auto. congruence.
    + (* dtls pump *)
      match goal with |- inv (set_sub ?c1 _) => assert (H1 : inv c1) end.
      { eapply inv_set_tp; eauto. tpc. }
      apply (inv_set_sub_other _ id (ODtlsStop t) todo SNeedCancel _ H1 Em); [intros t1; discriminate|].
      exact I.
  - (* EIceConnClosed *)
    destruct (head c) as [[o s]|] eqn:Eh; [|discriminate]. destruct o; try discriminate. destruct s; try discriminate.
    destruct (Nat.eqb_spec t t0) as [->|]; [|discriminate].
    destruct (nth_error (c_tps c) t0) as [tp|] eqn:En; [|discriminate]. injection HS as <-.
    apply head_main in Eh. destruct Eh as (id & todo & Em). eapply inv_ice_conn_closed; eauto.
Qed.
