(* Sender (Model/RtpSend.v): consecutive numbering, one timestamp per frame, marker on the last
   packet; the retransmission history holds exactly the last RTP_HISTORY_SIZE sends; _retransmit. *)
From Coq Require Import ZArith List Bool Lia ZifyBool.
From AV Require Import Lib.Bytes Lib.RtpX Gen.Utils Gen.RtpConst Model.Rtp Model.RtpSend Proof.SerialP.
From AV Require Proof.RtpPktP.
Import ListNotations.
Local Open Scope Z_scope.
Ltac Zify.zify_post_hook ::= Z.to_euclidean_division_equations.

(* ---- the history dict ------------------------------------------------------ *)
Lemma hget_hremove h k k' : hget (hremove h k) k' = if k' =? k then None else hget h k'.
Proof.
  induction h as [|[k0 v] h IH]; cbn [hremove hget]; [destruct (k' =? k); reflexivity|].
  destruct (Z.eqb_spec k k0) as [->|Hne].
  - rewrite IH. destruct (Z.eqb_spec k' k0); reflexivity.
  - cbn [hget]. rewrite IH. destruct (Z.eqb_spec k' k0) as [->|]; [|reflexivity].
    destruct (Z.eqb_spec k0 k); [congruence|reflexivity].
Qed.

Lemma hget_hset h k v k' : hget (hset h k v) k' = if k' =? k then Some v else hget h k'.
Proof. unfold hset. cbn [hget]. rewrite hget_hremove. destruct (k' =? k); reflexivity. Qed.

(* ---- invariant: rlog = media packets sent so far, newest first -------------- *)
Definition pkt_ok (s : sender) (p : rtp) : Prop :=
  in16 (sequence_number p) /\ padding_size p = 0 /\ payload_type p = s_pt s /\ ssrc p = s_ssrc s.

Definition SInv (s : sender) (rlog : list rtp) : Prop :=
  in16 (s_seq s) /\
  (forall i p, nth_error rlog i = Some p ->
     sequence_number p = uint16_add (s_seq s) (- (Z.of_nat i + 1)) /\ pkt_ok s p) /\
  (forall k p, hget (s_hist s) k = Some p <->
     exists i, (i < 128)%nat /\ nth_error rlog i = Some p /\ k = sequence_number p mod rtp_RTP_HISTORY_SIZE).

Definition same_static (s s' : sender) : Prop :=
  s_pt s' = s_pt s /\ s_ssrc s' = s_ssrc s /\ s_rtx_ssrc s' = s_rtx_ssrc s /\ s_rtx_pt s' = s_rtx_pt s /\
  s_mid s' = s_mid s /\ s_ts_origin s' = s_ts_origin s.

Lemma same_static_refl s : same_static s s.
Proof. repeat split. Qed.

(* one packet *)
Lemma SInv_push s rlog q h' :
  SInv s rlog -> sequence_number q = s_seq s -> padding_size q = 0 -> payload_type q = s_pt s ->
  ssrc q = s_ssrc s ->
  h' = hset (s_hist s) (sequence_number q mod rtp_RTP_HISTORY_SIZE) q ->
  SInv (set_seq_hist s (uint16_add (s_seq s) 1) h') (q :: rlog).
Proof.
  intros (Hs & Hlog & Hh) Eq Ep Ept Ess ->. unfold SInv, set_seq_hist. cbn [s_seq s_hist].
  split; [apply uint16_add_range|]. split.
  - intros i p E. destruct i as [|i]; cbn [nth_error] in E.
    + injection E as <-. split.
      * rewrite Eq, !uint16_add_mod. unfold in16 in Hs. lia.
      * unfold pkt_ok. cbn [s_pt s_ssrc]. rewrite Eq. auto.
    + destruct (Hlog i p E) as [E1 E2]. split; [|exact E2].
      rewrite E1, !uint16_add_mod. lia.
  - intros k p. rewrite hget_hset. unfold rtp_RTP_HISTORY_SIZE in *.
    destruct (Z.eqb_spec k (sequence_number q mod 128)) as [->|Hne].
    + split.
      * intros E. injection E as <-. exists 0%nat. split; [lia|]. split; reflexivity.
      * intros (i & Hi & E & Ek). destruct i as [|i]; cbn [nth_error] in E; [congruence|].
        exfalso. destruct (Hlog i p E) as [E1 _]. rewrite Eq, E1, uint16_add_mod in Ek.
        unfold in16 in Hs. lia.
    + rewrite Hh. split.
      * intros (i & Hi & E & Ek). exists (S i). cbn [nth_error]. split; [|split; assumption].
        destruct (Nat.eq_dec i 127) as [->|]; [|lia]. exfalso.
        destruct (Hlog _ p E) as [E1 _]. rewrite Ek, E1, Eq, uint16_add_mod in Hne.
        unfold in16 in Hs. lia.
      * intros (i & Hi & E & Ek). destruct i as [|i]; cbn [nth_error] in E.
        -- injection E as <-. congruence.
        -- exists i. split; [lia|]. split; assumption.
Qed.

(* ---- one frame -------------------------------------------------------------- *)
(* what the packets of one frame look like *)
Definition frame_shape (s : sender) (timestamp : Z) (n i : nat) (pl : list (bytes * Z)) (l : list rtp) : Prop :=
  length l = length pl /\
  forall j p, nth_error l j = Some p ->
    sequence_number p = uint16_add (s_seq s) (Z.of_nat j) /\
    timestamp = Rtp.timestamp p /\
    marker p = (if Nat.eqb (i + j) (n - 1) then 1 else 0) /\
    nth_error (map fst pl) j = Some (payload p) /\
    pkt_ok s p /\ csrc p = [].

Lemma send_payloads_spec pl : forall s rlog timestamp audio n i,
  SInv s rlog ->
  let r := send_payloads s timestamp audio n i pl in
  SInv (fst r) (rev (snd r) ++ rlog) /\ same_static s (fst r) /\
  s_rtx_seq (fst r) = s_rtx_seq s /\
  s_seq (fst r) = uint16_add (s_seq s) (Z.of_nat (length pl)) /\
  frame_shape s timestamp n i pl (snd r).
Proof.
  induction pl as [|[pld ntp] pl IH]; intros s rlog timestamp audio n i HI; cbn [send_payloads].
  - cbn [fst snd rev app length]. split; [exact HI|]. split; [apply same_static_refl|]. split; [reflexivity|].
    split; [rewrite uint16_add_mod; destruct HI as [H _]; unfold in16 in H; lia|].
    split; [reflexivity|]. intros j p E. destruct j; discriminate.
  - set (q := mk_packet s timestamp audio n i pld ntp).
    set (s1 := set_seq_hist s (uint16_add (s_seq s) 1)
                 (hset (s_hist s) (sequence_number q mod rtp_RTP_HISTORY_SIZE) q)).
    assert (HI1 : SInv s1 (q :: rlog)) by (apply SInv_push; try reflexivity; exact HI).
    specialize (IH s1 (q :: rlog) timestamp audio n (S i) HI1).
    destruct (send_payloads s1 timestamp audio n (S i) pl) as [s2 out] eqn:ER.
    cbn [fst snd] in *. destruct IH as (I2 & St & Rx & Sq & Hlen & Hsh).
    split; [cbn [rev]; rewrite <- app_assoc; exact I2|].
    split; [exact St|]. split; [exact Rx|]. split.
    { rewrite Sq. unfold s1, set_seq_hist. cbn [s_seq length]. rewrite !uint16_add_mod. lia. }
    split; [cbn [length]; lia|].
    intros j p E. destruct j as [|j]; cbn [nth_error] in E.
    + injection E as <-. unfold q, mk_packet. cbn [sequence_number Rtp.timestamp marker payload csrc map fst nth_error].
      destruct HI as [Hs _]. split; [rewrite uint16_add_mod; unfold in16 in Hs; lia|].
      split; [reflexivity|]. split; [rewrite Nat.add_0_r; reflexivity|]. split; [reflexivity|].
      split; [|reflexivity]. unfold pkt_ok. cbn. auto.
    + destruct (Hsh j p E) as (E1 & E2 & E3 & E4 & E5 & E6).
      split; [rewrite E1; unfold s1, set_seq_hist; cbn [s_seq]; rewrite !uint16_add_mod; lia|].
      split; [exact E2|]. split; [rewrite E3; replace (i + S j)%nat with (S i + j)%nat by lia; reflexivity|].
      split; [exact E4|]. split; [|exact E6]. exact E5.
Qed.

(* ---- _retransmit -------------------------------------------------------------- *)
(* lookup = the packet with that sequence number among the last 128 sends, if any *)
Lemma lookup_spec s rlog x p : SInv s rlog ->
  (lookup s x = Some p <-> exists i, (i < 128)%nat /\ nth_error rlog i = Some p /\ sequence_number p = x).
Proof.
  intros (_ & _ & Hh). unfold lookup. split.
  - destruct (hget (s_hist s) (x mod rtp_RTP_HISTORY_SIZE)) as [q|] eqn:E; [|discriminate].
    destruct (Z.eqb_spec (sequence_number q) x) as [Ex|]; [|discriminate]. intros H. injection H as <-.
    apply Hh in E. destruct E as (i & Hi & E & _). exists i. auto.
  - intros (i & Hi & E & Ex).
    assert (Eh : hget (s_hist s) (x mod rtp_RTP_HISTORY_SIZE) = Some p).
    { apply Hh. exists i. rewrite Ex. auto. }
    rewrite Eh. rewrite (proj2 (Z.eqb_eq _ _) Ex). reflexivity.
Qed.

Definition SInv_rtx (s : sender) : Prop := True.

Lemma set_rtx_seq_inv s rlog x : SInv s rlog -> SInv (set_rtx_seq s x) rlog.
Proof. intros H. exact H. Qed.

(* everything _retransmit does, for EVERY integer argument *)
Theorem retransmit_spec s rlog x : SInv s rlog ->
  match lookup s x with
  | None => retransmit s x = Ok (s, [])
  | Some p =>
      match s_rtx_pt s with
      | None => retransmit s x = Ok (s, [p])
      | Some pt =>
          exists r, wrap_rtx p pt (s_rtx_seq s) (s_rtx_ssrc s) = Ok r /\
                    retransmit s x = Ok (set_rtx_seq s (uint16_add (s_rtx_seq s) 1), [r]) /\
                    payload_type r = pt /\ sequence_number r = s_rtx_seq s /\ ssrc r = s_rtx_ssrc s /\
                    unwrap_rtx r (payload_type p) (ssrc p) = Ok p
      end
  end.
Proof.
  intros HI. unfold retransmit. destruct (lookup s x) as [p|] eqn:EL; [|reflexivity].
  destruct (s_rtx_pt s) as [pt|]; [|reflexivity].
  apply (lookup_spec s rlog x p HI) in EL. destruct EL as (i & _ & E & _).
  destruct HI as (_ & Hlog & _). destruct (Hlog i p E) as [_ (Hs & Hp & _)].
  destruct (RtpPktP.rtx_inverse p pt (s_rtx_seq s) (s_rtx_ssrc s) Hs) as (r & Hw & E1 & E2 & E3 & _ & _ & _).
  destruct (RtpPktP.rtx_inverse_exact p pt (s_rtx_seq s) (s_rtx_ssrc s) Hs Hp) as (r' & Hw' & Hu).
  rewrite Hw in Hw'. injection Hw' as <-.
  exists r. split; [exact Hw|]. rewrite Hw. cbn [bind]. auto.
Qed.

Lemma retransmit_ok s rlog x : SInv s rlog ->
  exists s' l, retransmit s x = Ok (s', l) /\ SInv s' rlog /\ same_static s s' /\ s_seq s' = s_seq s /\
               s_hist s' = s_hist s.
Proof.
  intros HI. pose proof (retransmit_spec s rlog x HI) as H.
  destruct (lookup s x) as [p|];
    [|exists s, []; split; [exact H|]; split; [exact HI|]; split; [apply same_static_refl|]; split; reflexivity].
  destruct (s_rtx_pt s) as [pt|];
    [|exists s, [p]; split; [exact H|]; split; [exact HI|]; split; [apply same_static_refl|]; split; reflexivity].
  destruct H as (r & _ & E & _). eexists; eexists. split; [exact E|].
  split; [exact HI|]. split; [repeat split|]. split; reflexivity.
Qed.

Lemma handle_nack_ok lost : forall s rlog, SInv s rlog ->
  exists s' l, handle_nack s lost = Ok (s', l) /\ SInv s' rlog /\ same_static s s' /\ s_seq s' = s_seq s.
Proof.
  induction lost as [|x lost IH]; intros s rlog HI; cbn [handle_nack].
  - exists s, []. split; [reflexivity|]. split; [exact HI|]. split; [apply same_static_refl|reflexivity].
  - destruct (retransmit_ok s rlog x HI) as (s1 & l1 & E1 & I1 & St1 & Sq1 & _). rewrite E1. cbn [bind fst snd].
    destruct (IH s1 rlog I1) as (s2 & l2 & E2 & I2 & St2 & Sq2). rewrite E2. cbn [bind fst snd].
    eexists; eexists. split; [reflexivity|]. split; [exact I2|]. split; [|congruence].
    unfold same_static in *. intuition congruence.
Qed.

(* ---- what goes on the wire: numbering, timestamps, marker ---------------------- *)
Definition numbered (base : Z) (l : list rtp) : Prop :=
  forall k p, nth_error l k = Some p -> sequence_number p = uint16_add base (Z.of_nat k).

(* the non-empty frames of a run *)
Definition sent_frames (outs : list out) : list (list rtp) :=
  flat_map (fun o => match o with Sent (p :: l) => [p :: l] | _ => [] end) outs.

Lemma media_sent_frames outs : media outs = concat (sent_frames outs).
Proof.
  induction outs as [|o outs IH]; [reflexivity|]. cbn [media sent_frames flat_map]. fold (media outs) (sent_frames outs).
  destruct o as [[|p l]|l]; cbn [app concat]; rewrite IH; reflexivity.
Qed.

(* one timestamp, the sender's payload type and SSRC, no CSRC, no padding, marker on the last *)
Definition one_frame (s : sender) (l : list rtp) : Prop :=
  exists t, Forall (fun p => Rtp.timestamp p = t /\ pkt_ok s p /\ csrc p = []) l /\
            forall j p, nth_error l j = Some p -> marker p = if Nat.eqb j (length l - 1) then 1 else 0.

Lemma one_frame_static s s' l : same_static s s' -> one_frame s' l -> one_frame s l.
Proof.
  intros (E1 & E2 & _) (t & HF & HM). exists t. split; [|exact HM].
  eapply Forall_impl; [|exact HF]. intros p (H1 & (H2 & H3 & H4 & H5) & H6).
  split; [exact H1|]. split; [|exact H6]. unfold pkt_ok. rewrite <- E1, <- E2. auto.
Qed.

Lemma frame_shape_one_frame s ts pl l : frame_shape s ts (length pl) 0 pl l -> one_frame s l.
Proof.
  intros [HL HS]. exists ts. split.
  - apply Forall_forall. intros p Hin. apply In_nth_error in Hin. destruct Hin as [j E].
    destruct (HS j p E) as (_ & E2 & _ & _ & E5 & E6). auto.
  - intros j p E. destruct (HS j p E) as (_ & _ & E3 & _). rewrite E3, HL. reflexivity.
Qed.

(* ---- histories ----------------------------------------------------------------- *)
Theorem run_spec ops : forall s rlog, SInv s rlog ->
  exists s' outs, run s ops = Ok (s', outs) /\ SInv s' (rev (media outs) ++ rlog) /\ same_static s s' /\
    numbered (s_seq s) (media outs) /\ Forall (one_frame s) (sent_frames outs) /\
    s_seq s' = uint16_add (s_seq s) (Z.of_nat (length (media outs))).
Proof.
  induction ops as [|o ops IH]; intros s rlog HI; cbn [run].
  - exists s, []. split; [reflexivity|]. split; [exact HI|]. split; [apply same_static_refl|].
    split; [intros k p E; destruct k; discriminate|]. split; [constructor|].
    cbn. rewrite uint16_add_mod. destruct HI as [Hs _]. unfold in16 in Hs. lia.
  - destruct o as [f|lost]; cbn [step].
    + unfold send_frame.
      pose proof (send_payloads_spec (ef_payloads f) s rlog (uint32_add (s_ts_origin s) (ef_ts f)) (ef_audio f)
                    (length (ef_payloads f)) 0 HI) as H.
      destruct (send_payloads s _ _ _ _ _) as [s1 l] eqn:ES. cbn [fst snd] in H.
      destruct H as (I1 & St1 & _ & Sq1 & Hsh). cbn [bind fst snd].
      destruct (IH s1 _ I1) as (s2 & outs & E2 & I2 & St2 & N2 & F2 & Sq2). rewrite E2. cbn [bind fst snd].
      eexists; eexists. split; [reflexivity|]. cbn [media flat_map]. fold (media outs).
      rewrite rev_app_distr, <- app_assoc. split; [exact I2|].
      split; [unfold same_static in *; intuition congruence|].
      pose proof (proj1 Hsh) as HL. split; [|split].
      * intros k p E. destruct (Nat.lt_ge_cases k (length l)) as [Hk|Hk].
        -- rewrite nth_error_app1 in E by exact Hk. exact (proj1 (proj2 Hsh k p E)).
        -- rewrite nth_error_app2 in E by exact Hk. rewrite (N2 _ p E), Sq1, !uint16_add_mod. lia.
      * cbn [sent_frames flat_map]. fold (sent_frames outs).
        assert (F2' : Forall (one_frame s) (sent_frames outs)).
        { eapply Forall_impl; [|exact F2]. intros x. apply one_frame_static. exact St1. }
        destruct l as [|p l]; [exact F2'|]. cbn [app]. constructor; [|exact F2'].
        eapply frame_shape_one_frame. exact Hsh.
      * rewrite Sq2, Sq1, app_length, !uint16_add_mod. lia.
    + destruct (handle_nack_ok lost s rlog HI) as (s1 & l & E1 & I1 & St1 & Sq1). rewrite E1. cbn [bind fst snd].
      destruct (IH s1 _ I1) as (s2 & outs & E2 & I2 & St2 & N2 & F2 & Sq2). rewrite E2. cbn [bind fst snd].
      eexists; eexists. split; [reflexivity|]. cbn [media sent_frames flat_map app]. fold (media outs) (sent_frames outs).
      split; [exact I2|]. split; [unfold same_static in *; intuition congruence|].
      rewrite Sq1 in N2, Sq2. split; [exact N2|]. split; [|exact Sq2].
      eapply Forall_impl; [|exact F2]. intros x. apply one_frame_static. exact St1.
Qed.

Lemma SInv_start s : in16 (s_seq s) -> s_hist s = [] -> SInv s [].
Proof.
  intros Hs Hh. split; [exact Hs|]. split.
  - intros i p E. destruct i; discriminate.
  - intros k p. rewrite Hh. cbn [hget]. split; [discriminate|].
    intros (i & _ & E & _). destruct i; discriminate.
Qed.

Lemma In_firstn_nth {A} (l : list A) n x :
  In x (firstn n l) <-> exists i, (i < n)%nat /\ nth_error l i = Some x.
Proof.
  revert n. induction l as [|h t IH]; intros n.
  - rewrite firstn_nil. split; [intros []|]. intros (i & _ & E). destruct i; discriminate.
  - destruct n as [|n]; [cbn [firstn]; split; [intros []|intros (i & Hi & _); lia]|].
    cbn [firstn In]. rewrite IH. split.
    + intros [->|(i & Hi & E)]; [exists 0%nat; split; [lia|reflexivity]|exists (S i); split; [lia|exact E]].
    + intros (i & Hi & E). destruct i as [|i]; cbn [nth_error] in E; [left; congruence|].
      right. exists i. split; [lia|exact E].
Qed.

(* the packets sent most recently: the last `n` of the log, newest first *)
Definition recent (n : nat) (log : list rtp) : list rtp := firstn n (rev log).

(* C11_history *)
Theorem history_spec s0 ops :
  in16 (s_seq s0) -> s_hist s0 = [] ->
  exists s outs,
    run s0 ops = Ok (s, outs) /\
    forall x,
      (forall p, lookup s x = Some p <-> In p (recent 128 (media outs)) /\ sequence_number p = x) /\
      match lookup s x with
      | None => retransmit s x = Ok (s, [])
      | Some p =>
          match s_rtx_pt s0 with
          | None => retransmit s x = Ok (s, [p])
          | Some pt =>
              exists r, wrap_rtx p pt (s_rtx_seq s) (s_rtx_ssrc s0) = Ok r /\
                        retransmit s x = Ok (set_rtx_seq s (uint16_add (s_rtx_seq s) 1), [r]) /\
                        payload_type r = pt /\ sequence_number r = s_rtx_seq s /\ ssrc r = s_rtx_ssrc s0 /\
                        unwrap_rtx r (payload_type p) (ssrc p) = Ok p
          end
      end.
Proof.
  intros Hs Hh. destruct (run_spec ops s0 [] (SInv_start s0 Hs Hh)) as (s & outs & E & HI & St & _).
  rewrite app_nil_r in HI. exists s, outs. split; [exact E|]. intros x. split.
  - intros p. rewrite (lookup_spec s _ x p HI). unfold recent. rewrite In_firstn_nth.
    split; [intros (i & H1 & H2 & H3); split; [exists i; auto|exact H3]|
            intros [(i & H1 & H2) H3]; exists i; auto].
  - pose proof (retransmit_spec s _ x HI) as H. destruct St as (_ & _ & E1 & E2 & _).
    rewrite E1, E2 in H. exact H.
Qed.

(* C11 sender side: numbering *)
Theorem stream_spec s0 ops s outs :
  in16 (s_seq s0) -> s_hist s0 = [] -> run s0 ops = Ok (s, outs) ->
  numbered (s_seq s0) (media outs) /\ Forall (one_frame s0) (sent_frames outs) /\
  media outs = concat (sent_frames outs) /\ Forall (fun l => l <> []) (sent_frames outs).
Proof.
  intros Hs Hh ER. destruct (run_spec ops s0 [] (SInv_start s0 Hs Hh)) as (s' & outs' & E & _ & _ & N & F & _).
  rewrite ER in E. injection E as <- <-. split; [exact N|]. split; [exact F|]. split; [apply media_sent_frames|].
  clear. induction outs as [|o outs IH]; [constructor|]. cbn [sent_frames flat_map]. fold (sent_frames outs).
  destruct o as [[|p l]|l]; cbn [app]; [exact IH| |exact IH]. constructor; [discriminate|exact IH].
Qed.
