(* VP8 payload descriptor and packetiser: parse totality (C05), descriptor
   round trip for every field combination, packetiser size / lossless /
   partition-start / picture-id facts (C16). *)
From Coq Require Import ZArith List Bool Lia.
From AV Require Import Lib.Bytes Lib.BytesP Lib.CodecX Lib.CodecXP Gen.VpxConst Model.Vp8.
Import ListNotations.
Local Open Scope Z_scope.

(* ---- the parser in stages (definitionally the same function) -------------------- *)
Definition parse_I (data : bytes) (pos : nat) (ext_I : Z) : result (option Z * nat) :=
  if negb (ext_I =? 0) then
    if len data <? Z.of_nat pos + 1 then ValueErr
    else match u8 data pos with
         | None => Crash
         | Some b =>
             if negb (Z.land b 128 =? 0) then
               if len data <? Z.of_nat pos + 2 then ValueErr
               else match u16 data pos with
                    | None => Crash
                    | Some v => Ok (Some (Z.land v 32767), (pos + 2)%nat)
                    end
             else Ok (Some b, (pos + 1)%nat)
         end
  else Ok (None, pos).

Definition parse_L (data : bytes) (pos : nat) (ext_L : Z) : result (option Z * nat) :=
  if negb (ext_L =? 0) then
    if len data <? Z.of_nat pos + 1 then ValueErr
    else match u8 data pos with
         | None => Crash
         | Some b => Ok (Some b, (pos + 1)%nat)
         end
  else Ok (None, pos).

Definition parse_TK (data : bytes) (pos : nat) (ext_T ext_K : Z)
  : result (option (Z * Z) * option Z * nat) :=
  if negb (ext_T =? 0) || negb (ext_K =? 0) then
    if len data <? Z.of_nat pos + 1 then ValueErr
    else match u8 data pos with
         | None => Crash
         | Some t_k =>
             let tid := if negb (ext_T =? 0)
                        then Some (Z.land (Z.shiftr t_k 6) 3, Z.land (Z.shiftr t_k 5) 1)
                        else None in
             let keyidx := if negb (ext_K =? 0) then Some (Z.land t_k 31) else None in
             Ok (tid, keyidx, (pos + 1)%nat)
         end
  else Ok (None, None, pos).

Definition parse_ext (data : bytes) (ps pid : Z) : result (descr * bytes) :=
  if len data <? Z.of_nat 1 + 1 then ValueErr
  else match u8 data 1 with
       | None => Crash
       | Some octet =>
           '(picture_id, pos) <- parse_I data 2 (Z.land (Z.shiftr octet 7) 1) ;;
           '(tl0picidx, pos) <- parse_L data pos (Z.land (Z.shiftr octet 6) 1) ;;
           '(tid, keyidx, pos) <- parse_TK data pos (Z.land (Z.shiftr octet 5) 1) (Z.land (Z.shiftr octet 4) 1) ;;
           Ok (mkDescr ps pid picture_id tl0picidx tid keyidx, skipn pos data)
       end.

Lemma parse_staged data :
  parse data =
  if len data <? 1 then ValueErr
  else match u8 data 0 with
       | None => Crash
       | Some octet =>
           if negb (Z.shiftr octet 7 =? 0)
           then parse_ext data (Z.land (Z.shiftr octet 4) 1) (Z.land octet 15)
           else Ok (mkDescr (Z.land (Z.shiftr octet 4) 1) (Z.land octet 15) None None None None, skipn 1 data)
       end.
Proof. reflexivity. Qed.

(* ---- C05: totality --------------------------------------------------------------- *)
Lemma u8_guard data pos : (len data <? Z.of_nat pos + 1) = false -> exists v, u8 data pos = Some v.
Proof. intros H. apply Z.ltb_ge in H. apply u8_some. unfold len in H. lia. Qed.
Lemma u16_guard data pos : (len data <? Z.of_nat pos + 2) = false -> exists v, u16 data pos = Some v.
Proof. intros H. apply Z.ltb_ge in H. apply u16_some. unfold len in H. lia. Qed.

Lemma parse_I_total data pos e : total (parse_I data pos e).
Proof.
  unfold parse_I. destruct (negb (e =? 0)); [|apply total_ok].
  destruct (len data <? Z.of_nat pos + 1) eqn:E1; [apply total_valueerr|].
  destruct (u8_guard _ _ E1) as [b ->].
  destruct (negb (Z.land b 128 =? 0)); [|apply total_ok].
  destruct (len data <? Z.of_nat pos + 2) eqn:E2; [apply total_valueerr|].
  destruct (u16_guard _ _ E2) as [v ->]. apply total_ok.
Qed.

Lemma parse_L_total data pos e : total (parse_L data pos e).
Proof.
  unfold parse_L. destruct (negb (e =? 0)); [|apply total_ok].
  destruct (len data <? Z.of_nat pos + 1) eqn:E1; [apply total_valueerr|].
  destruct (u8_guard _ _ E1) as [b ->]. apply total_ok.
Qed.

Lemma parse_TK_total data pos t k : total (parse_TK data pos t k).
Proof.
  unfold parse_TK. destruct (negb (t =? 0) || negb (k =? 0)); [|apply total_ok].
  destruct (len data <? Z.of_nat pos + 1) eqn:E1; [apply total_valueerr|].
  destruct (u8_guard _ _ E1) as [b ->]. apply total_ok.
Qed.

(* VpxPayloadDescriptor.parse returns a value or ValueError for EVERY byte
   string (there is no loop, so no fuel) *)
Theorem vpx_descriptor_parse_total : forall b, bytes_ok b ->
  (exists v, parse b = Ok v) \/ parse b = ValueErr.
Proof.
  intros data _. change (total (parse data)). rewrite parse_staged.
  destruct (len data <? 1) eqn:E0; [apply total_valueerr|].
  destruct (u8_guard data 0 E0) as [o ->].
  destruct (negb (Z.shiftr o 7 =? 0)); [|apply total_ok].
  unfold parse_ext.
  destruct (len data <? Z.of_nat 1 + 1) eqn:E1; [apply total_valueerr|].
  destruct (u8_guard data 1 E1) as [e ->].
  apply total_bind; [apply parse_I_total|]. intros [pic pos] _.
  apply total_bind; [apply parse_L_total|]. intros [tl0 pos'] _.
  apply total_bind; [apply parse_TK_total|]. intros [[t k] pos''] _.
  apply total_ok.
Qed.

(* ---- the serialiser in stages ----------------------------------------------------- *)
Definition b2z (b : bool) : Z := if b then 1 else 0.

Definition ext_of (i l t k : bool) : Z :=
  let e := 0 in
  let e := if i then Z.lor e (Z.shiftl 1 7) else e in
  let e := if l then Z.lor e (Z.shiftl 1 6) else e in
  let e := if t then Z.lor e (Z.shiftl 1 5) else e in
  let e := if k then Z.lor e (Z.shiftl 1 4) else e in
  e.

Definition enc_I (pic : option Z) : result bytes :=
  match pic with
  | None => Ok []
  | Some p => if p <? 128 then pack_B p else pack_H (Z.lor (Z.shiftl 1 15) p)
  end.

Definition enc_L (tl0 : option Z) : result bytes :=
  match tl0 with
  | None => Ok []
  | Some t => pack_B t
  end.

Definition tk_of (tid : option (Z * Z)) (keyidx : option Z) : Z :=
  let t_k := 0 in
  let t_k := match tid with
             | Some (t0, t1) => Z.lor t_k (Z.lor (Z.shiftl t0 6) (Z.shiftl t1 5))
             | None => t_k
             end in
  let t_k := match keyidx with
             | Some k => Z.lor t_k k
             | None => t_k
             end in
  t_k.

Definition enc_TK (tid : option (Z * Z)) (keyidx : option Z) : result bytes :=
  if is_some tid || is_some keyidx then pack_B (tk_of tid keyidx) else Ok [].

Lemma descr_bytes_staged d :
  descr_bytes d =
  let octet := Z.lor (Z.shiftl (partition_start d) 4) (partition_id d) in
  let e := ext_of (is_some (picture_id d)) (is_some (tl0picidx d)) (is_some (tid d)) (is_some (keyidx d)) in
  if negb (e =? 0) then
    b0 <- pack_B (Z.lor (Z.shiftl 1 7) octet) ;;
    b1 <- pack_B e ;;
    bI <- enc_I (picture_id d) ;;
    bL <- enc_L (tl0picidx d) ;;
    bTK <- enc_TK (tid d) (keyidx d) ;;
    Ok (b0 ++ b1 ++ bI ++ bL ++ bTK)
  else pack_B octet.
Proof. reflexivity. Qed.

(* ---- bit facts by enumeration --------------------------------------------------------- *)
Lemma first_octet_facts : forall ps pid, 0 <= ps < 2 -> 0 <= pid < 16 ->
  let octet := Z.lor (Z.shiftl ps 4) pid in
  let o := Z.lor (Z.shiftl 1 7) octet in
  (0 <= octet < 256 /\ negb (Z.shiftr octet 7 =? 0) = false /\
   Z.land (Z.shiftr octet 4) 1 = ps /\ Z.land octet 15 = pid) /\
  (0 <= o < 256 /\ negb (Z.shiftr o 7 =? 0) = true /\
   Z.land (Z.shiftr o 4) 1 = ps /\ Z.land o 15 = pid).
Proof.
  apply (rangeZ2_ind 2 16 _ (fun ps pid =>
    let octet := Z.lor (Z.shiftl ps 4) pid in
    let o := Z.lor (Z.shiftl 1 7) octet in
    (0 <=? octet) && (octet <? 256) && negb (negb (Z.shiftr octet 7 =? 0)) &&
    (Z.land (Z.shiftr octet 4) 1 =? ps) && (Z.land octet 15 =? pid) &&
    (0 <=? o) && (o <? 256) && negb (Z.shiftr o 7 =? 0) &&
    (Z.land (Z.shiftr o 4) 1 =? ps) && (Z.land o 15 =? pid))).
  - intros x y H. cbn zeta in *.
    repeat (rewrite ?andb_true_iff, ?Z.eqb_eq, ?Z.leb_le, ?Z.ltb_lt, ?negb_true_iff in H).
    intuition.
  - vm_compute. reflexivity.
Qed.

Lemma ext_facts i l t k :
  let e := ext_of i l t k in
  0 <= e < 256 /\ negb (e =? 0) = (i || l || t || k) /\
  negb (Z.land (Z.shiftr e 7) 1 =? 0) = i /\ negb (Z.land (Z.shiftr e 6) 1 =? 0) = l /\
  negb (Z.land (Z.shiftr e 5) 1 =? 0) = t /\ negb (Z.land (Z.shiftr e 4) 1 =? 0) = k.
Proof. destruct i, l, t, k; vm_compute; intuition congruence. Qed.

Lemma short_pid_facts : forall p, 0 <= p < 128 ->
  0 <= p < 256 /\ negb (Z.land p 128 =? 0) = false.
Proof.
  apply (rangeZ_ind 128 _ (fun p => (0 <=? p) && (p <? 256) && negb (negb (Z.land p 128 =? 0)))).
  - intros x H. repeat (rewrite ?andb_true_iff, ?Z.leb_le, ?Z.ltb_lt, ?negb_true_iff in H). intuition.
  - vm_compute. reflexivity.
Qed.

Lemma long_pid_facts : forall p, 0 <= p < 32768 -> 128 <= p ->
  let v := Z.lor (Z.shiftl 1 15) p in
  0 <= v < 65536 /\ negb (Z.land ((v / 256) mod 256) 128 =? 0) = true /\ Z.land v 32767 = p.
Proof.
  apply (rangeZ_ind 32768
    (fun p => 128 <= p -> let v := Z.lor (Z.shiftl 1 15) p in
       0 <= v < 65536 /\ negb (Z.land ((v / 256) mod 256) 128 =? 0) = true /\ Z.land v 32767 = p)
    (fun p => (p <? 128) ||
    (let v := Z.lor (Z.shiftl 1 15) p in
     (0 <=? v) && (v <? 65536) && negb (Z.land ((v / 256) mod 256) 128 =? 0) && (Z.land v 32767 =? p)))).
  - intros x H Hx. apply orb_true_iff in H. destruct H as [H | H]; [apply Z.ltb_lt in H; lia|].
    cbn zeta in *.
    repeat (rewrite ?andb_true_iff, ?Z.eqb_eq, ?Z.leb_le, ?Z.ltb_lt in H). intuition.
  - vm_compute. reflexivity.
Qed.

Definition tid_ok (tid : option (Z * Z)) : Prop :=
  match tid with Some (t0, t1) => 0 <= t0 < 4 /\ 0 <= t1 < 2 | None => True end.
Definition keyidx_ok (k : option Z) : Prop :=
  match k with Some k => 0 <= k < 32 | None => True end.

Lemma tk_facts : forall t0 t1 k, 0 <= t0 < 4 -> 0 <= t1 < 2 -> 0 <= k < 32 ->
  (let v := tk_of (Some (t0, t1)) (Some k) in
   0 <= v < 256 /\ Z.land (Z.shiftr v 6) 3 = t0 /\ Z.land (Z.shiftr v 5) 1 = t1 /\ Z.land v 31 = k) /\
  (let v := tk_of (Some (t0, t1)) None in
   0 <= v < 256 /\ Z.land (Z.shiftr v 6) 3 = t0 /\ Z.land (Z.shiftr v 5) 1 = t1) /\
  (let v := tk_of None (Some k) in 0 <= v < 256 /\ Z.land v 31 = k).
Proof.
  apply (rangeZ3_ind 4 2 32 _ (fun t0 t1 k =>
    (let v := tk_of (Some (t0, t1)) (Some k) in
     (0 <=? v) && (v <? 256) && (Z.land (Z.shiftr v 6) 3 =? t0) && (Z.land (Z.shiftr v 5) 1 =? t1) &&
     (Z.land v 31 =? k)) &&
    (let v := tk_of (Some (t0, t1)) None in
     (0 <=? v) && (v <? 256) && (Z.land (Z.shiftr v 6) 3 =? t0) && (Z.land (Z.shiftr v 5) 1 =? t1)) &&
    (let v := tk_of None (Some k) in (0 <=? v) && (v <? 256) && (Z.land v 31 =? k)))).
  - intros x y z H. cbn zeta in *.
    repeat (rewrite ?andb_true_iff, ?Z.eqb_eq, ?Z.leb_le, ?Z.ltb_lt in H). intuition.
  - vm_compute. reflexivity.
Qed.

(* ---- stage round trips ------------------------------------------------------------------ *)
Lemma pack_B_ok n : 0 <= n < 256 -> pack_B n = Ok [n].
Proof.
  intros H. unfold pack_B.
  replace ((0 <=? n) && (n <? 256)) with true; [reflexivity|].
  symmetry. apply andb_true_iff. split; [apply Z.leb_le | apply Z.ltb_lt]; lia.
Qed.
Lemma pack_H_ok n : 0 <= n < 65536 -> pack_H n = Ok (be16 n).
Proof.
  intros H. unfold pack_H.
  replace ((0 <=? n) && (n <? 65536)) with true; [reflexivity|].
  symmetry. apply andb_true_iff. split; [apply Z.leb_le | apply Z.ltb_lt]; lia.
Qed.

Definition pic_ok (pic : option Z) : Prop :=
  match pic with Some p => 0 <= p < 32768 | None => True end.
Definition tl0_ok (t : option Z) : Prop :=
  match t with Some t => 0 <= t < 256 | None => True end.

Lemma b2z_flag (b : bool) : negb (b2z b =? 0) = b.
Proof. destruct b; reflexivity. Qed.

Lemma u8_mid pre x post : u8 (pre ++ x :: post) (length pre) = Some x.
Proof. rewrite <- (Nat.add_0_r (length pre)), u8_app_r. reflexivity. Qed.

Lemma len_mid_guard1 pre x post : (len (pre ++ x :: post) <? Z.of_nat (length pre) + 1) = false.
Proof. apply Z.ltb_ge. rewrite len_app, len_cons. unfold len. lia. Qed.

Lemma stage_I pic e :
  pic_ok pic -> negb (e =? 0) = is_some pic ->
  exists bI, enc_I pic = Ok bI /\
    forall pre post, parse_I (pre ++ bI ++ post) (length pre) e = Ok (pic, (length pre + length bI)%nat).
Proof.
  intros Hok He. unfold parse_I. rewrite He. destruct pic as [p|]; cbn [is_some enc_I pic_ok] in *.
  - destruct (p <? 128) eqn:Es.
    + apply Z.ltb_lt in Es. destruct (short_pid_facts p ltac:(lia)) as [Hr Hb].
      rewrite pack_B_ok by lia. eexists. split; [reflexivity|]. intros pre post.
      cbn [app]. rewrite len_mid_guard1, u8_mid, Hb. reflexivity.
    + apply Z.ltb_ge in Es. destruct (long_pid_facts p Hok ltac:(lia)) as (Hr & Hb & Hv).
      rewrite pack_H_ok by lia. eexists. split; [reflexivity|]. intros pre post.
      set (v := Z.lor (Z.shiftl 1 15) p) in *.
      assert (G1 : (len (pre ++ be16 v ++ post) <? Z.of_nat (length pre) + 1) = false)
        by (apply Z.ltb_ge; rewrite !len_app; change (len (be16 v)) with 2; unfold len; lia).
      assert (G2 : (len (pre ++ be16 v ++ post) <? Z.of_nat (length pre) + 2) = false)
        by (apply Z.ltb_ge; rewrite !len_app; change (len (be16 v)) with 2; unfold len; lia).
      assert (U : u8 (pre ++ be16 v ++ post) (length pre) = Some ((v / 256) mod 256))
        by (unfold be16; cbn [app]; apply u8_mid).
      rewrite G1, U, Hb, G2.
      rewrite u16_at by lia. rewrite Hv. reflexivity.
  - eexists. split; [reflexivity|]. intros pre post. cbn [app length]. now rewrite Nat.add_0_r.
Qed.

Lemma stage_L tl0 e :
  tl0_ok tl0 -> negb (e =? 0) = is_some tl0 ->
  exists bL, enc_L tl0 = Ok bL /\
    forall pre post, parse_L (pre ++ bL ++ post) (length pre) e = Ok (tl0, (length pre + length bL)%nat).
Proof.
  intros Hok He. unfold parse_L. rewrite He. destruct tl0 as [t|]; cbn [is_some enc_L tl0_ok] in *.
  - rewrite pack_B_ok by lia. eexists. split; [reflexivity|]. intros pre post.
    cbn [app]. rewrite len_mid_guard1, u8_mid. reflexivity.
  - eexists. split; [reflexivity|]. intros pre post. cbn [app length]. now rewrite Nat.add_0_r.
Qed.

Lemma stage_TK tid keyidx et ek :
  tid_ok tid -> keyidx_ok keyidx -> negb (et =? 0) = is_some tid -> negb (ek =? 0) = is_some keyidx ->
  exists bTK, enc_TK tid keyidx = Ok bTK /\
    forall pre post, parse_TK (pre ++ bTK ++ post) (length pre) et ek =
                     Ok (tid, keyidx, (length pre + length bTK)%nat).
Proof.
  intros Ht Hk Het Hek. unfold parse_TK, enc_TK. rewrite Het, Hek.
  destruct tid as [[t0 t1]|]; destruct keyidx as [k|]; cbn [is_some orb tid_ok keyidx_ok] in *.
  - destruct (tk_facts t0 t1 k) as [(Hr & H1 & H2 & H3) _]; try lia.
    rewrite pack_B_ok by exact Hr. eexists. split; [reflexivity|]. intros pre post.
    cbn [app]. rewrite len_mid_guard1, u8_mid. cbv zeta. rewrite H1, H2, H3. reflexivity.
  - destruct (tk_facts t0 t1 0) as [_ [(Hr & H1 & H2) _]]; try lia.
    rewrite pack_B_ok by exact Hr. eexists. split; [reflexivity|]. intros pre post.
    cbn [app]. rewrite len_mid_guard1, u8_mid. cbv zeta. rewrite H1, H2. reflexivity.
  - destruct (tk_facts 0 0 k) as [_ [_ (Hr & H3)]]; try lia.
    rewrite pack_B_ok by exact Hr. eexists. split; [reflexivity|]. intros pre post.
    cbn [app]. rewrite len_mid_guard1, u8_mid. cbv zeta. rewrite H3. reflexivity.
  - eexists. split; [reflexivity|]. intros pre post. cbn [app length]. now rewrite Nat.add_0_r.
Qed.

Lemma pack_B_len n b : pack_B n = Ok b -> len b = 1.
Proof. unfold pack_B. destruct ((0 <=? n) && (n <? 256)); [|discriminate]. now intros [= <-]. Qed.
Lemma pack_H_len n b : pack_H n = Ok b -> len b = 2.
Proof. unfold pack_H. destruct ((0 <=? n) && (n <? 65536)); [|discriminate]. now intros [= <-]. Qed.
Lemma enc_I_len pic b : enc_I pic = Ok b -> 0 <= len b <= 2.
Proof.
  destruct pic as [p|]; cbn [enc_I]; [|intros [= <-]; change (len []) with 0; lia].
  destruct (p <? 128); intros H; [apply pack_B_len in H | apply pack_H_len in H]; lia.
Qed.
Lemma enc_L_len t b : enc_L t = Ok b -> 0 <= len b <= 1.
Proof.
  destruct t as [t|]; cbn [enc_L]; [|intros [= <-]; change (len []) with 0; lia].
  intros H. apply pack_B_len in H. lia.
Qed.
Lemma enc_TK_len t k b : enc_TK t k = Ok b -> 0 <= len b <= 1.
Proof.
  unfold enc_TK. destruct (is_some t || is_some k); [|intros [= <-]; change (len []) with 0; lia].
  intros H. apply pack_B_len in H. lia.
Qed.

(* ---- descriptor round trip, every field combination ---------------------------------- *)
Definition descr_ok (d : descr) : Prop :=
  0 <= partition_start d < 2 /\ 0 <= partition_id d < 16 /\
  pic_ok (picture_id d) /\ tl0_ok (tl0picidx d) /\ tid_ok (tid d) /\ keyidx_ok (keyidx d).

Theorem descr_roundtrip : forall d, descr_ok d ->
  exists b, descr_bytes d = Ok b /\ (1 <= len b <= 6) /\
            forall rest, parse (b ++ rest) = Ok (d, rest).
Proof.
  intros [ps pid pic tl0 tid kx] (Hps & Hpid & Hpic & Htl0 & Htid & Hkx).
  cbn [partition_start partition_id picture_id tl0picidx Vp8.tid keyidx] in *.
  rewrite descr_bytes_staged.
  cbn [partition_start partition_id picture_id tl0picidx Vp8.tid keyidx]. cbv zeta.
  destruct (first_octet_facts ps pid Hps Hpid) as [(Ho1 & Ho2 & Ho3 & Ho4) (Hx1 & Hx2 & Hx3 & Hx4)].
  destruct (ext_facts (is_some pic) (is_some tl0) (is_some tid) (is_some kx)) as (He1 & He2 & HeI & HeL & HeT & HeK).
  set (e := ext_of (is_some pic) (is_some tl0) (is_some tid) (is_some kx)) in *.
  set (octet := Z.lor (Z.shiftl ps 4) pid) in *.
  rewrite He2.
  destruct (is_some pic || is_some tl0 || is_some tid || is_some kx) eqn:Eext.
  - (* extended descriptor *)
    destruct (stage_I pic _ Hpic HeI) as [bI [HbI HpI]].
    destruct (stage_L tl0 _ Htl0 HeL) as [bL [HbL HpL]].
    destruct (stage_TK tid kx _ _ Htid Hkx HeT HeK) as [bTK [HbTK HpTK]].
    rewrite (pack_B_ok _ Hx1), (pack_B_ok _ He1), HbI, HbL, HbTK. cbn [bind].
    eexists. split; [reflexivity|]. split.
    { rewrite !len_app. change (len [Z.lor (Z.shiftl 1 7) octet]) with 1. change (len [e]) with 1.
      pose proof (enc_I_len _ _ HbI). pose proof (enc_L_len _ _ HbL). pose proof (enc_TK_len _ _ _ HbTK).
      lia. }
    intros rest. rewrite parse_staged.
    set (o := Z.lor (Z.shiftl 1 7) octet) in *.
    assert (Hdata : ([o] ++ [e] ++ bI ++ bL ++ bTK) ++ rest = o :: e :: bI ++ bL ++ bTK ++ rest).
    { cbn [app]. now rewrite <- !app_assoc. }
    rewrite Hdata.
    replace (len (o :: e :: bI ++ bL ++ bTK ++ rest) <? 1) with false
      by (symmetry; apply Z.ltb_ge; rewrite !len_cons; pose proof (len_nonneg (bI ++ bL ++ bTK ++ rest)); lia).
    cbn [u8 nth_error]. rewrite Hx2, Hx3, Hx4. unfold parse_ext.
    replace (len (o :: e :: bI ++ bL ++ bTK ++ rest) <? Z.of_nat 1 + 1) with false
      by (symmetry; apply Z.ltb_ge; rewrite !len_cons; pose proof (len_nonneg (bI ++ bL ++ bTK ++ rest)); lia).
    cbn [u8 nth_error].
    change (o :: e :: bI ++ bL ++ bTK ++ rest) with ([o; e] ++ bI ++ (bL ++ bTK ++ rest)).
    change 2%nat with (length [o; e]) at 1.
    rewrite HpI. cbn [bind]. cbv beta iota.
    replace ([o; e] ++ bI ++ bL ++ bTK ++ rest) with (([o; e] ++ bI) ++ bL ++ (bTK ++ rest))
      by (now rewrite <- !app_assoc).
    rewrite <- app_length. rewrite HpL. cbn [bind]. cbv beta iota.
    replace (([o; e] ++ bI) ++ bL ++ bTK ++ rest) with ((([o; e] ++ bI) ++ bL) ++ bTK ++ rest)
      by (now rewrite <- !app_assoc).
    rewrite <- app_length. rewrite HpTK. cbn [bind]. cbv beta iota.
    rewrite <- app_length.
    replace (((([o; e] ++ bI) ++ bL) ++ bTK ++ rest)) with (((([o; e] ++ bI) ++ bL) ++ bTK) ++ rest)
      by (now rewrite <- !app_assoc).
    rewrite skipn_app, skipn_all, Nat.sub_diag. reflexivity.
  - (* one-byte descriptor: no optional field is present *)
    assert (pic = None /\ tl0 = None /\ tid = None /\ kx = None) as (-> & -> & -> & ->).
    { destruct pic, tl0, tid, kx; cbn [is_some orb] in Eext; try discriminate. auto. }
    cbn [negb]. rewrite (pack_B_ok _ Ho1). eexists. split; [reflexivity|]. split; [cbn; lia|].
    intros rest. rewrite parse_staged. cbn [app].
    replace (len (octet :: rest) <? 1) with false
      by (symmetry; apply Z.ltb_ge; rewrite len_cons; pose proof (len_nonneg rest); lia).
    cbn [u8 nth_error]. rewrite Ho2, Ho3, Ho4. reflexivity.
Qed.

(* ---- Vp8Encoder._packetize ------------------------------------------------------------- *)
Lemma vpx_consts_ok : 6 < vpx_PACKET_MAX.
Proof. vm_compute. reflexivity. Qed.

Definition frame_descr (s pid : Z) : descr := mkDescr s 0 (Some pid) None None None.

Lemma packetize_loop_eq fuel buffer d length pos :
  packetize_loop fuel buffer d length pos =
  if pos <? length then
    match fuel with
    | O => OutOfFuel
    | S f =>
        descr_bytes_ <- descr_bytes d ;;
        let size := Z.min (length - pos) (vpx_PACKET_MAX - len descr_bytes_) in
        let payload := descr_bytes_ ++ pyslice buffer pos (pos + size) in
        rest <- packetize_loop f buffer (set_partition_start d 0) length (pos + size) ;;
        Ok (payload :: rest)
    end
  else Ok [].
Proof. destruct fuel; reflexivity. Qed.

(* steady state of the loop: the descriptor no longer changes *)
Lemma packetize_loop_steady : forall fuel buffer d db pos,
  set_partition_start d 0 = d -> descr_bytes d = Ok db -> 1 <= vpx_PACKET_MAX - len db ->
  0 <= pos <= len buffer -> (Z.to_nat (len buffer - pos) <= fuel)%nat ->
  exists chunks,
    packetize_loop fuel buffer d (len buffer) pos = Ok (map (fun c => db ++ c) chunks) /\
    concat chunks = skipn (Z.to_nat pos) buffer /\
    Forall (fun c => 1 <= len c <= vpx_PACKET_MAX - len db) chunks.
Proof.
  induction fuel as [|fuel IH]; intros buffer d db pos Hd Hdb Hcap Hpos Hfuel; rewrite packetize_loop_eq.
  - assert (pos = len buffer) as -> by lia. rewrite Z.ltb_irrefl.
    exists []. repeat split; [|constructor]. cbn [concat]. symmetry. apply skipn_all2. unfold len. lia.
  - destruct (pos <? len buffer) eqn:E.
    2:{ apply Z.ltb_ge in E. assert (pos = len buffer) as -> by lia.
        exists []. repeat split; [|constructor]. cbn [concat]. symmetry. apply skipn_all2. unfold len. lia. }
    apply Z.ltb_lt in E. rewrite Hdb. cbn [bind]. cbv zeta. rewrite Hd.
    set (size := Z.min (len buffer - pos) (vpx_PACKET_MAX - len db)).
    assert (Hsize : 1 <= size <= len buffer - pos) by (unfold size; lia).
    destruct (IH buffer d db (pos + size) Hd Hdb Hcap ltac:(lia) ltac:(lia)) as [chunks [Hrun [Hcat Hall]]].
    rewrite Hrun. cbn [bind].
    exists (pyslice buffer pos (pos + size) :: chunks). split; [reflexivity|].
    rewrite pyslice_nonneg by lia.
    replace (Z.to_nat (pos + size) - Z.to_nat pos)%nat with (Z.to_nat size) by lia.
    split.
    + cbn [concat]. rewrite Hcat.
      replace (Z.to_nat (pos + size)) with (Z.to_nat size + Z.to_nat pos)%nat by lia.
      rewrite <- skipn_skipn. apply firstn_skipn.
    + constructor; [|exact Hall].
      rewrite len_firstn; [unfold size; lia|]. rewrite skipn_length. unfold len in *. lia.
Qed.

(* a payload p carries chunk c of a frame with picture id pid, S bit = s *)
Definition vp8_payload (s pid : Z) (c p : bytes) : Prop :=
  len p <= vpx_PACKET_MAX /\ 1 <= len c /\ parse p = Ok (frame_descr s pid, c).

(* pk is a correct packetisation of the frame: the chunks concatenate to the
   buffer, the first payload (only) is marked as partition start *)
Definition vp8_packets (buffer : bytes) (pid : Z) (pk : list bytes) : Prop :=
  exists chunks, concat chunks = buffer /\
    match chunks, pk with
    | [], [] => True
    | c0 :: cs, p0 :: ps => vp8_payload 1 pid c0 p0 /\ Forall2 (vp8_payload 0 pid) cs ps
    | _, _ => False
    end.

Lemma Forall2_map_db (R : bytes -> bytes -> Prop) db chunks :
  (forall c, In c chunks -> R c (db ++ c)) -> Forall2 R chunks (map (fun c => db ++ c) chunks).
Proof.
  induction chunks as [|c cs IH]; intros H; cbn [map]; constructor.
  - apply H. now left.
  - apply IH. intros x Hx. apply H. now right.
Qed.

Theorem vp8_packetize_spec : forall buffer pid,
  0 <= pid < 32768 ->
  exists pk, packetize buffer pid = Ok pk /\ vp8_packets buffer pid pk.
Proof.
  intros buffer pid Hpid. unfold packetize.
  assert (Hok1 : descr_ok (frame_descr 1 pid)) by (unfold descr_ok, frame_descr; cbn; lia).
  assert (Hok0 : descr_ok (frame_descr 0 pid)) by (unfold descr_ok, frame_descr; cbn; lia).
  destruct (descr_roundtrip _ Hok1) as [d1 [Hd1 [Hl1 Hp1]]].
  destruct (descr_roundtrip _ Hok0) as [d0 [Hd0 [Hl0 Hp0]]].
  pose proof vpx_consts_ok as Hmax.
  fold (frame_descr 1 pid).
  rewrite packetize_loop_eq.
  destruct (0 <? len buffer) eqn:E.
  2:{ apply Z.ltb_ge in E. pose proof (len_nonneg buffer).
      destruct buffer as [|x b]; [|rewrite len_cons in E; pose proof (len_nonneg b); lia].
      exists []. split; [reflexivity|]. exists []. split; [reflexivity | exact I]. }
  apply Z.ltb_lt in E.
  destruct buffer as [|x b] eqn:Ebuf; [cbn in E; lia|]. rewrite <- Ebuf in *. clear Ebuf x b.
  destruct (length buffer) as [|fuel] eqn:Efuel; [unfold len in E; lia|].
  rewrite Hd1. cbn [bind]. cbv zeta.
  change (set_partition_start (frame_descr 1 pid) 0) with (frame_descr 0 pid).
  rewrite Z.sub_0_r, Z.add_0_l.
  set (size := Z.min (len buffer) (vpx_PACKET_MAX - len d1)).
  assert (Hsize : 1 <= size <= len buffer) by (unfold size; lia).
  destruct (packetize_loop_steady fuel buffer (frame_descr 0 pid) d0 size eq_refl Hd0 ltac:(lia) ltac:(lia)
              ltac:(unfold len in *; lia)) as [chunks [Hrun [Hcat Hall]]].
  rewrite Hrun. cbn [bind]. eexists. split; [reflexivity|].
  exists (pyslice buffer 0 size :: chunks).
  rewrite pyslice_nonneg by lia. cbn [Z.to_nat skipn]. rewrite Nat.sub_0_r.
  split.
  - cbn [concat]. rewrite Hcat. apply firstn_skipn.
  - assert (Hc0 : len (firstn (Z.to_nat size) buffer) = size).
    { rewrite len_firstn; unfold len in *; lia. }
    split.
    + unfold vp8_payload. rewrite len_app, Hc0. split; [unfold size; lia|]. split; [lia|]. apply Hp1.
    + apply Forall2_map_db. intros c Hin. rewrite Forall_forall in Hall. specialize (Hall c Hin).
      unfold vp8_payload. rewrite len_app. split; [lia|]. split; [lia|]. apply Hp0.
Qed.

(* ---- consequences ------------------------------------------------------------------------ *)
Fixpoint vp8_depay_all (pk : list bytes) : result bytes :=
  match pk with
  | [] => Ok []
  | p :: tl => d <- depayload p ;; r <- vp8_depay_all tl ;; Ok (d ++ r)
  end.

Lemma depayload_of_parse p d c : parse p = Ok (d, c) -> depayload p = Ok c.
Proof. intros H. unfold depayload. rewrite H. reflexivity. Qed.

Lemma depay_all_payloads s pid : forall cs ps,
  Forall2 (vp8_payload s pid) cs ps -> vp8_depay_all ps = Ok (concat cs).
Proof.
  induction 1 as [|c p cs ps (_ & _ & Hp) _ IH]; [reflexivity|].
  cbn [vp8_depay_all concat]. rewrite (depayload_of_parse _ _ _ Hp). cbn [bind]. rewrite IH. reflexivity.
Qed.

Theorem vp8_packets_lossless buffer pid pk : vp8_packets buffer pid pk -> vp8_depay_all pk = Ok buffer.
Proof.
  intros [chunks [Hcat Hshape]].
  destruct chunks as [|c0 cs], pk as [|p0 ps]; try contradiction.
  - cbn in Hcat. subst. reflexivity.
  - destruct Hshape as [(_ & _ & Hp0) Hrest]. cbn [vp8_depay_all].
    rewrite (depayload_of_parse _ _ _ Hp0). cbn [bind].
    rewrite (depay_all_payloads 0 pid _ _ Hrest). cbn [bind]. cbn [concat] in Hcat. now rewrite Hcat.
Qed.

Theorem vp8_packets_size buffer pid pk :
  vp8_packets buffer pid pk -> Forall (fun p => len p <= vpx_PACKET_MAX) pk.
Proof.
  intros [chunks [_ Hshape]].
  destruct chunks as [|c0 cs], pk as [|p0 ps]; try contradiction; [constructor|].
  destruct Hshape as [(Hs & _ & _) Hrest]. constructor; [exact Hs|].
  clear -Hrest. induction Hrest as [|c p cs ps (Hs & _ & _) _ IH]; constructor; assumption.
Qed.
