(* Lemmas about the offer/answer skeleton of Model/Nego.v (layer 2 of C03). *)
From Coq Require Import ZArith List Bool Lia.
From AV Require Import Model.Nego Proof.NegoP.
Import ListNotations.
Local Open Scope Z_scope.

(* ---- the error monad ------------------------------------------------------------ *)
Lemma bind_ok : forall T U (r : res T) (f : T -> res U) u,
  bind r f = Ok u -> exists a, r = Ok a /\ f a = Ok u.
Proof. intros T U [a| | |] f u H; cbn [bind] in H; try discriminate. exists a. auto. Qed.

Ltac bind_inv H x Hx :=
  let H' := fresh in
  apply bind_ok in H; destruct H as [x [Hx H']]; rename H' into H.

(* ---- lists ------------------------------------------------------------------------ *)
Lemma find_idx_split : forall T (f : T -> bool) l k, find_idx f l = Some k ->
  exists l1 x l2, l = l1 ++ x :: l2 /\ length l1 = k /\ f x = true /\ (forall y, In y l1 -> f y = false).
Proof.
  induction l as [|a l IH]; intros k H; cbn [find_idx] in H; [discriminate|].
  destruct (f a) eqn:E.
  - inversion H; subst. exists [], a, l. repeat split; auto. intros y [].
  - destruct (find_idx f l) as [n|] eqn:En; [|discriminate]. inversion H; subst.
    destruct (IH n eq_refl) as [l1 [x [l2 [E1 [E2 [E3 E4]]]]]]. subst l.
    exists (a :: l1), x, l2. repeat split; cbn [length]; auto.
    intros y [->|Hy]; auto.
Qed.

Lemma find_idx_none : forall T (f : T -> bool) l, find_idx f l = None -> forall y, In y l -> f y = false.
Proof.
  induction l as [|a l IH]; intros H y Hy; [destruct Hy|]. cbn [find_idx] in H.
  destruct (f a) eqn:E; [discriminate|]. destruct (find_idx f l) eqn:En; [discriminate|].
  destruct Hy as [->|Hy]; auto.
Qed.

Lemma upd_split : forall T (g : T -> T) l1 x l2, upd (length l1) g (l1 ++ x :: l2) = l1 ++ g x :: l2.
Proof. induction l1 as [|a l1 IH]; intros x l2; cbn [length app upd]; [reflexivity|]. rewrite IH. reflexivity. Qed.

Lemma nth_error_split : forall T (l1 : list T) x l2, nth_error (l1 ++ x :: l2) (length l1) = Some x.
Proof. induction l1 as [|a l1 IH]; intros; cbn [length app nth_error]; auto. Qed.

Lemma find_app : forall T (f : T -> bool) l1 l2,
  find f (l1 ++ l2) = match find f l1 with Some x => Some x | None => find f l2 end.
Proof. induction l1 as [|a l1 IH]; intros l2; cbn [app find]; [reflexivity|]. destruct (f a); auto. Qed.

Lemma find_none_iff : forall T (f : T -> bool) l, (forall y, In y l -> f y = false) -> find f l = None.
Proof.
  induction l as [|a l IH]; intro H; cbn [find]; [reflexivity|].
  rewrite (H a (or_introl eq_refl)). apply IH. intros y Hy. apply H. right. exact Hy.
Qed.

Lemma find_map_pres : forall T (f : T -> bool) (g : T -> T) l, (forall x, f (g x) = f x) ->
  find f (map g l) = option_map g (find f l).
Proof.
  induction l as [|a l IH]; intro H; cbn [map find option_map]; [reflexivity|].
  rewrite H. destruct (f a); cbn [option_map]; auto.
Qed.

(* the first element satisfying f also is the first satisfying (f && g) when it satisfies g *)
Lemma find_conj : forall T (f g : T -> bool) l x, find f l = Some x -> g x = true ->
  find (fun y => g y && f y) l = Some x.
Proof.
  induction l as [|a l IH]; intros x H Hg; cbn [find] in *; [discriminate|].
  destruct (f a) eqn:E.
  - inversion H; subst. rewrite Hg. reflexivity.
  - rewrite andb_false_r. apply IH; auto.
Qed.

Lemma find_some_In : forall T (f : T -> bool) l x, find f l = Some x -> In x l /\ f x = true.
Proof. intros. apply find_some. assumption. Qed.

(* ---- sections ------------------------------------------------------------------------- *)
Lemma sections_eqb_eq : forall a b, sections_eqb a b = true -> a = b.
Proof.
  induction a as [|[x1 x2] a IH]; destruct b as [|[y1 y2] b]; cbn [sections_eqb]; intro H; try discriminate; [reflexivity|].
  apply andb_true_iff in H. destruct H as [H1 H2]. unfold section_eqb in H1. cbn [fst snd] in H1.
  apply andb_true_iff in H1. destruct H1 as [Ha Hb]. apply Z.eqb_eq in Ha. apply Z.eqb_eq in Hb.
  rewrite (IH b H2). congruence.
Qed.

(* ---- pieces that do not touch a field --------------------------------------------------- *)
Lemma create_dtls_fields : forall p p1 id, create_dtls p = (p1, id) ->
  p_trs p1 = p_trs p /\ p_sctp p1 = p_sctp p /\ p_sctp_mline p1 = p_sctp_mline p /\ p_seen p1 = p_seen p /\
  p_state p1 = p_state p /\ p_policy p1 = p_policy p /\
  p_cur_local p1 = p_cur_local p /\ p_cur_remote p1 = p_cur_remote p /\
  p_pend_local p1 = p_pend_local p /\ p_pend_remote p1 = p_pend_remote p.
Proof. intros p p1 id H. unfold create_dtls in H. inversion H; subst. cbn. repeat split; reflexivity. Qed.

Definition same_session (p q : pc) : Prop :=
  p_seen q = p_seen p /\ p_state q = p_state p /\ p_policy q = p_policy p /\
  p_cur_local q = p_cur_local p /\ p_cur_remote q = p_cur_remote p /\
  p_pend_local q = p_pend_local p /\ p_pend_remote q = p_pend_remote p.

Lemma same_session_refl : forall p, same_session p p.
Proof. intro p. unfold same_session. repeat split; reflexivity. Qed.

Lemma create_transceiver_spec : forall p d k h,
  exists bundled id,
    p_trs (create_transceiver p d k h) = p_trs p ++ [mkTransceiver k d None None None None [] [] [] h bundled id] /\
    p_sctp (create_transceiver p d k h) = p_sctp p /\
    p_sctp_mline (create_transceiver p d k h) = p_sctp_mline p /\
    same_session p (create_transceiver p d k h).
Proof.
  intros p d k h. unfold create_transceiver.
  match goal with |- context [match ?s with Some id => _ | None => _ end] => destruct s as [id|] end.
  - exists true, id. cbn. unfold same_session. cbn. repeat split; reflexivity.
  - exists false, (p_next p). cbn. unfold same_session. cbn. repeat split; reflexivity.
Qed.

Lemma create_sctp_spec : forall p,
  p_trs (create_sctp p) = p_trs p /\ p_sctp_mline (create_sctp p) = p_sctp_mline p /\
  same_session p (create_sctp p) /\ exists s, p_sctp (create_sctp p) = Some s /\ s_mid s = None.
Proof.
  intro p. unfold create_sctp.
  destruct (if p_policy p =? 2 then p_trs p else []) as [|t l].
  - cbn. unfold same_session. cbn. repeat split; try reflexivity. eexists. split; reflexivity.
  - cbn. unfold same_session. cbn. repeat split; try reflexivity. eexists. split; reflexivity.
Qed.

(* ---- setRemoteDescription: which transceiver a section lands on ------------------------- *)
Definition owns (k mu : Z) (t : transceiver) : bool := Z.eqb (t_kind t) k && mid_is mu t.

Definition negotiated (T : tables) (ty : Z) (m : media) (t : transceiver) : Prop :=
  t_kind t = m_kind m /\ t_mid t = Some (m_mid m) /\
  exists c0 md,
    find_common_codecs (CODECS T (m_kind m)) (m_codecs m) = Ok c0 /\
    filter_preferred_codecs c0 (t_preferred t) = Ok (t_codecs t) /\ t_codecs t <> [] /\
    t_exts t = find_common_header_extensions (HEADER_EXTENSIONS T (m_kind m)) (m_exts m) /\
    m_dir m = Some md /\
    (if Z.eqb ty 1 then t_currentDirection t = Some (reverse_direction md)
     else t_offerDirection t = Some (reverse_direction md)).

Lemma media_match_owns : forall m t k mu, media_match m t = true -> mu <> m_mid m -> owns k mu t = false.
Proof.
  intros m t k mu H Hne. unfold media_match in H. unfold owns, mid_is.
  apply andb_true_iff in H. destruct H as [_ H].
  destruct (t_mid t) as [x|]; cbn [opt_eqb]; [|apply andb_false_r].
  apply Z.eqb_eq in H. subst x. destruct (Z.eqb_spec (m_mid m) mu); [congruence | apply andb_false_r].
Qed.

Lemma locate_spec : forall m p0 p1 k, locate m p0 = (p1, k) ->
  exists l1 t0 l2, p_trs p1 = l1 ++ t0 :: l2 /\ length l1 = k /\ media_match m t0 = true /\
                   (forall y, In y l1 -> media_match m y = false) /\
                   ((p_trs p0 = l1 ++ t0 :: l2) \/ (p_trs p0 = l1 /\ l2 = [])) /\
                   p_sctp p1 = p_sctp p0 /\ p_sctp_mline p1 = p_sctp_mline p0 /\ same_session p0 p1.
Proof.
  intros m p0 p1 k H. unfold locate in H.
  destruct (find_idx (media_match m) (p_trs p0)) as [n|] eqn:E.
  - inversion H; subst. destruct (find_idx_split _ _ _ _ E) as [l1 [x [l2 [E1 [E2 [E3 E4]]]]]].
    exists l1, x, l2. repeat split; auto.
  - inversion H; subst. destruct (create_transceiver_spec p0 RecvOnly (m_kind m) false) as [bd [id [E1 [E2 [E3 E4]]]]].
    eexists (p_trs p0), _, []. split; [exact E1|]. split; [reflexivity|]. split.
    + unfold media_match. cbn. rewrite Z.eqb_refl. reflexivity.
    + split; [exact (find_idx_none _ _ _ E)|]. split; [right; auto|]. auto.
Qed.

Lemma remote_av_spec : forall T ty m i p0 p', remote_av T ty m i p0 = Ok p' ->
  exists l1 t3 l2,
    p_trs p' = l1 ++ t3 :: l2 /\ negotiated T ty m t3 /\
    (forall y, In y l1 -> media_match m y = false) /\
    ((exists t0, p_trs p0 = l1 ++ t0 :: l2 /\ media_match m t0 = true /\
                 t_direction t3 = t_direction t0 /\ t_preferred t3 = t_preferred t0) \/
     (p_trs p0 = l1 /\ l2 = [])) /\
    p_sctp p' = p_sctp p0 /\ p_sctp_mline p' = p_sctp_mline p0 /\ same_session p0 p'.
Proof.
  intros T ty m i p0 p' H. unfold remote_av in H.
  destruct (locate m p0) as [p1 k] eqn:El.
  destruct (locate_spec _ _ _ _ El) as [l1 [t0 [l2 [E1 [E2 [E3 [E4 [E5 [E6 [E7 E8]]]]]]]]]].
  rewrite E1 in H. rewrite <- E2 in H. rewrite nth_error_split in H.
  bind_inv H c0 Hc0. bind_inv H common Hcommon.
  destruct common as [|c common']; [discriminate|].
  destruct (m_dir m) as [md|] eqn:Emd; [|discriminate].
  inversion H; subst p'; clear H. rewrite upd_split.
  set (t1 := match t_mid t0 with Some _ => t0 | None => set_mline i (set_mid (m_mid m) t0) end) in *.
  assert (Ht1 : t_kind t1 = m_kind m /\ t_mid t1 = Some (m_mid m) /\ t_direction t1 = t_direction t0 /\
                t_preferred t1 = t_preferred t0).
  { unfold media_match in E3. apply andb_true_iff in E3. destruct E3 as [Ek Em]. apply Z.eqb_eq in Ek.
    subst t1. destruct (t_mid t0) as [x|] eqn:Emid.
    - apply Z.eqb_eq in Em. subst x. auto.
    - cbn. auto. }
  destruct Ht1 as [Hk [Hm [Hd Hp]]].
  eexists l1, _, l2. split; [cbn; reflexivity|]. split.
  - unfold negotiated. destruct (ty =? 1) eqn:Ety; cbn; (split; [exact Hk|]); (split; [exact Hm|]);
      exists c0, md; repeat split; auto; discriminate.
  - split; [exact E4|]. split.
    + destruct E5 as [E5|[E5 E5']]; [left | right; auto].
      exists t0. destruct (ty =? 1); cbn; auto.
    + unfold same_session in *. cbn. tauto.
Qed.

Lemma find_owns_app3 : forall k mu l1 (x : transceiver) l2, (forall y, In y l1 -> owns k mu y = false) ->
  find (owns k mu) (l1 ++ x :: l2) = if owns k mu x then Some x else find (owns k mu) l2.
Proof. intros. rewrite find_app. rewrite find_none_iff by assumption. reflexivity. Qed.

Lemma negotiated_owns : forall T ty m t, negotiated T ty m t -> owns (m_kind m) (m_mid m) t = true.
Proof.
  intros T ty m t [Hk [Hm _]]. unfold owns, mid_is. rewrite Hk, Hm. cbn. rewrite !Z.eqb_refl. reflexivity.
Qed.

Lemma negotiated_not_owns : forall T ty m t k mu, negotiated T ty m t -> mu <> m_mid m -> owns k mu t = false.
Proof.
  intros T ty m t k mu [Hk [Hm _]] Hne. unfold owns, mid_is. rewrite Hm. cbn.
  destruct (Z.eqb_spec (m_mid m) mu); [congruence | apply andb_false_r].
Qed.

(* processing a section with another mid does not change who owns (k, mu) *)
Lemma remote_av_other : forall T ty m i p0 p' k mu, remote_av T ty m i p0 = Ok p' -> mu <> m_mid m ->
  find (owns k mu) (p_trs p') = find (owns k mu) (p_trs p0).
Proof.
  intros T ty m i p0 p' k mu H Hne.
  destruct (remote_av_spec _ _ _ _ _ _ H) as [l1 [t3 [l2 [E1 [E2 [E3 [E4 _]]]]]]].
  rewrite E1. rewrite find_app. cbn [find]. rewrite (negotiated_not_owns _ _ _ _ k mu E2 Hne).
  destruct E4 as [[t0 [E4 [E5 _]]]|[E4 E5]].
  - rewrite E4. rewrite find_app. cbn [find]. rewrite (media_match_owns _ _ k mu E5 Hne). reflexivity.
  - rewrite E4. subst l2. cbn [find]. destruct (find (owns k mu) l1); reflexivity.
Qed.

Lemma remote_av_own : forall T ty m i p0 p', remote_av T ty m i p0 = Ok p' ->
  exists t, find (owns (m_kind m) (m_mid m)) (p_trs p') = Some t /\ negotiated T ty m t.
Proof.
  intros T ty m i p0 p' H.
  destruct (remote_av_spec _ _ _ _ _ _ H) as [l1 [t3 [l2 [E1 [E2 [E3 _]]]]]].
  exists t3. split; [|exact E2]. rewrite E1. rewrite find_owns_app3.
  - rewrite (negotiated_owns _ _ _ _ E2). reflexivity.
  - intros y Hy. specialize (E3 y Hy). unfold media_match in E3. unfold owns, mid_is.
    destruct (t_kind y =? m_kind m); [|reflexivity]. cbn [andb] in *.
    destruct (t_mid y) as [x|]; [|discriminate]. cbn [opt_eqb]. exact E3.
Qed.

Lemma remote_app_trs : forall ty m i p0 p', remote_app ty m i p0 = Ok p' ->
  p_trs p' = p_trs p0 /\ same_session p0 p'.
Proof.
  intros ty m i p0 p' H. unfold remote_app in H.
  assert (G : p_trs (match p_sctp p0 with Some _ => p0 | None => create_sctp p0 end) = p_trs p0 /\
              same_session p0 (match p_sctp p0 with Some _ => p0 | None => create_sctp p0 end)).
  { destruct (p_sctp p0); [split; [reflexivity | apply same_session_refl]|].
    destruct (create_sctp_spec p0) as [A [_ [B _]]]. auto. }
  destruct G as [G1 G2].
  destruct (p_sctp (match p_sctp p0 with Some _ => p0 | None => create_sctp p0 end)) as [s|]; [|discriminate].
  inversion H; subst p'; clear H.
  destruct (s_mid s); cbn; (split; [exact G1|]); unfold same_session in *; cbn; tauto.
Qed.

Lemma remote_media_other : forall T ty ms i p p' k mu, remote_media T ty ms i p = Ok p' ->
  ~ In mu (map m_mid ms) -> find (owns k mu) (p_trs p') = find (owns k mu) (p_trs p).
Proof.
  intros T ty. induction ms as [|m ms IH]; intros i p p' k mu H Hnin; cbn [remote_media] in H.
  - inversion H; subst. reflexivity.
  - cbn [map In] in Hnin.
    assert (Hne : mu <> m_mid m) by (intro; apply Hnin; left; congruence).
    assert (Hnin' : ~ In mu (map m_mid ms)) by (intro; apply Hnin; right; assumption).
    destruct (is_av (m_kind m)).
    + bind_inv H p1 Hp1. rewrite (IH _ _ _ k mu H Hnin'). rewrite (remote_av_other _ _ _ _ _ _ k mu Hp1 Hne). reflexivity.
    + destruct (m_kind m =? 2).
      * bind_inv H p1 Hp1. rewrite (IH _ _ _ k mu H Hnin'). apply remote_app_trs in Hp1. destruct Hp1 as [-> _]. reflexivity.
      * rewrite (IH _ _ _ k mu H Hnin'). reflexivity.
Qed.

(* RM: with distinct mids every audio/video section ends on the first transceiver of its kind and mid,
   negotiated against exactly that section *)
Lemma remote_media_negotiated : forall T ty ms i p p', remote_media T ty ms i p = Ok p' ->
  NoDup (map m_mid ms) ->
  forall m, In m ms -> is_av (m_kind m) = true ->
  exists t, find (owns (m_kind m) (m_mid m)) (p_trs p') = Some t /\ negotiated T ty m t.
Proof.
  intros T ty. induction ms as [|m0 ms IH]; intros i p p' H Hnd m Hin Hav; [destruct Hin|].
  cbn [remote_media] in H. cbn [map] in Hnd. inversion Hnd as [|? ? Hnin Hnd']; subst.
  destruct Hin as [->|Hin].
  - rewrite Hav in H. bind_inv H p1 Hp1.
    destruct (remote_av_own _ _ _ _ _ _ Hp1) as [t [Ht1 Ht2]]. exists t. split; [|exact Ht2].
    rewrite (remote_media_other _ _ _ _ _ _ (m_kind m) (m_mid m) H Hnin). exact Ht1.
  - destruct (is_av (m_kind m0)).
    + bind_inv H p1 Hp1. eapply IH; eauto.
    + destruct (m_kind m0 =? 2).
      * bind_inv H p1 Hp1. eapply IH; eauto.
      * eapply IH; eauto.
Qed.

(* ---- everything of a transceiver except transport and _bundled ---------------------------- *)
Definition core (t : transceiver) :=
  (t_kind t, t_direction t, t_mid t, t_mline t, t_offerDirection t, t_currentDirection t,
   t_preferred t, t_codecs t, t_exts t, t_hastrack t).

Lemma core_fields : forall t t', core t = core t' ->
  t_kind t = t_kind t' /\ t_direction t = t_direction t' /\ t_mid t = t_mid t' /\ t_mline t = t_mline t' /\
  t_offerDirection t = t_offerDirection t' /\ t_currentDirection t = t_currentDirection t' /\
  t_preferred t = t_preferred t' /\ t_codecs t = t_codecs t' /\ t_exts t = t_exts t' /\ t_hastrack t = t_hastrack t'.
Proof. intros t t' H. unfold core in H. inversion H. repeat split; assumption. Qed.

Lemma negotiated_core : forall T ty m t t', core t = core t' -> negotiated T ty m t -> negotiated T ty m t'.
Proof.
  intros T ty m t t' Hc H. apply core_fields in Hc.
  destruct Hc as [E1 [E2 [E3 [E4 [E5 [E6 [E7 [E8 [E9 E10]]]]]]]]].
  unfold negotiated in *. rewrite <- E1, <- E3, <- E5, <- E6, <- E7, <- E8, <- E9. exact H.
Qed.

Lemma owns_core : forall k mu t t', core t = core t' -> owns k mu t = owns k mu t'.
Proof. intros k mu t t' Hc. apply core_fields in Hc. unfold owns, mid_is. destruct Hc as [-> [_ [-> _]]]. reflexivity. Qed.

Lemma apply_bundle_spec : forall fixed items p p', apply_bundle fixed items p = Ok p' ->
  (exists g, p_trs p' = map g (p_trs p) /\ forall t, core (g t) = core t) /\
  same_session p p' /\ p_sctp_mline p' = p_sctp_mline p /\
  (match p_sctp p, p_sctp p' with
   | Some s, Some s' => s_mid s' = s_mid s
   | None, None => True
   | _, _ => False
   end).
Proof.
  intros fixed items p p' H. unfold apply_bundle in H.
  destruct items as [|primary slaves].
  { inversion H; subst. split; [exists (fun t => t); split; [symmetry; apply map_id | reflexivity]|].
    split; [apply same_session_refl|]. split; [reflexivity|]. destruct (p_sctp p'); auto. }
  match type of H with context [match ?pt with Some prim => _ | None => _ end] => destruct pt as [prim|] end.
  - inversion H; subst p'; clear H. cbn. split.
    + eexists. split; [reflexivity|]. intro t.
      repeat match goal with |- context [if ?c then _ else _] => destruct c end; reflexivity.
    + split; [unfold same_session; cbn; tauto|]. split; [reflexivity|].
      destruct (p_sctp p) as [s|]; [|exact I].
      repeat match goal with |- context [if ?c then _ else _] => destruct c end; reflexivity.
  - match type of H with (if ?c then _ else _) = _ => destruct c end; [discriminate|].
    inversion H; subst. split; [exists (fun t => t); split; [symmetry; apply map_id | reflexivity]|].
    split; [apply same_session_refl|]. split; [reflexivity|]. destruct (p_sctp p'); auto.
Qed.

(* ---- seen mids only grow; descriptions ---------------------------------------------------- *)
Lemma sadd_incl : forall x l, incl l (sadd x l) /\ In x (sadd x l).
Proof.
  intros x l. unfold sadd. destruct (existsb (Z.eqb x) l) eqn:E.
  - split; [apply incl_refl | apply existsb_Z_In; exact E].
  - split; [apply incl_tl; apply incl_refl | left; reflexivity].
Qed.

Definition same_descs (p q : pc) : Prop :=
  p_cur_local q = p_cur_local p /\ p_cur_remote q = p_cur_remote p /\
  p_pend_local q = p_pend_local p /\ p_pend_remote q = p_pend_remote p /\ p_state q = p_state p.

Lemma same_session_descs : forall p q, same_session p q -> same_descs p q.
Proof. unfold same_session, same_descs. tauto. Qed.

Lemma same_descs_trans : forall p q r, same_descs p q -> same_descs q r -> same_descs p r.
Proof. unfold same_descs. intros p q r [A1 [A2 [A3 [A4 A5]]]] [B1 [B2 [B3 [B4 B5]]]]. repeat split; congruence. Qed.

Lemma remote_media_seen : forall T ty ms i p p', remote_media T ty ms i p = Ok p' ->
  incl (p_seen p) (p_seen p') /\ incl (map m_mid ms) (p_seen p') /\ same_descs p p'.
Proof.
  intros T ty. induction ms as [|m ms IH]; intros i p p' H; cbn [remote_media] in H.
  - inversion H; subst. split; [apply incl_refl|]. split; [intros x []|]. unfold same_descs. tauto.
  - destruct (sadd_incl (m_mid m) (p_seen p)) as [S1 S2].
    assert (G : forall p1, p_seen p1 = sadd (m_mid m) (p_seen p) ->
                same_descs p p1 -> remote_media T ty ms (S i) p1 = Ok p' ->
                incl (p_seen p) (p_seen p') /\ incl (map m_mid (m :: ms)) (p_seen p') /\ same_descs p p').
    { intros p1 E1 E2 Hr. destruct (IH _ _ _ Hr) as [I1 [I2 I3]]. rewrite E1 in I1. split.
      - eapply incl_tran; eauto.
      - split; [|eapply same_descs_trans; eauto]. cbn [map]. intros x [<-|Hx]; [apply I1; exact S2 | apply I2; exact Hx]. }
    destruct (is_av (m_kind m)).
    + bind_inv H p1 Hp1. destruct (remote_av_spec _ _ _ _ _ _ Hp1) as [_ [_ [_ [_ [_ [_ [_ [_ [_ Hs]]]]]]]]].
      apply G in H; auto.
      * unfold same_session in Hs. cbn in Hs. tauto.
      * unfold same_session, same_descs in *. cbn in Hs. tauto.
    + destruct (m_kind m =? 2).
      * bind_inv H p1 Hp1. apply remote_app_trs in Hp1. destruct Hp1 as [_ Hs]. apply G in H; auto.
        -- unfold same_session in Hs. cbn in Hs. tauto.
        -- unfold same_session, same_descs in *. cbn in Hs. tauto.
      * apply G in H; auto. unfold same_descs. cbn. tauto.
Qed.

(* ---- setRemoteDescription as a whole -------------------------------------------------------- *)
Lemma set_remote_description_spec : forall fixed T p d p', set_remote_description fixed T p d = Ok p' ->
  validate_description p d false = Ok tt /\
  p_state p' = (if Z.eqb (d_type d) 0 then HaveRemoteOffer else Stable) /\
  remote_description p' = Some d /\
  p_cur_local p' = p_cur_local p /\ p_pend_local p' = p_pend_local p /\
  incl (p_seen p) (p_seen p') /\ incl (map m_mid (d_media d)) (p_seen p') /\
  (NoDup (map m_mid (d_media d)) ->
   forall m, In m (d_media d) -> is_av (m_kind m) = true ->
   exists t, find (owns (m_kind m) (m_mid m)) (p_trs p') = Some t /\ negotiated T (d_type d) m t).
Proof.
  intros fixed T p d p' H. unfold set_remote_description in H.
  destruct (validate_description p d false) as [[]| | |] eqn:Ev; cbn [bind] in H; try discriminate.
  bind_inv H p1 Hp1. bind_inv H p2 Hp2. inversion H; subst p'; clear H.
  destruct (remote_media_seen _ _ _ _ _ _ Hp1) as [S1 [S2 S3]].
  destruct (apply_bundle_spec _ _ _ _ Hp2) as [[g [G1 G2]] [G3 [G4 G5]]].
  unfold same_session in G3. destruct G3 as [G3a [G3b [G3c [G3d [G3e [G3f G3g]]]]]].
  unfold same_descs in S3. destruct S3 as [S3a [S3b [S3c [S3d S3e]]]].
  split; [reflexivity|]. split; [destruct (d_type d =? 1); reflexivity|].
  split; [unfold remote_description; destruct (d_type d =? 1) eqn:E1; cbn; [|reflexivity]|].
  { (* an answer becomes the current remote description; no pending one *) reflexivity. }
  split; [destruct (d_type d =? 1); cbn; congruence|].
  split; [destruct (d_type d =? 1); cbn; congruence|].
  split; [destruct (d_type d =? 1); cbn; rewrite G3a; exact S1|].
  split; [destruct (d_type d =? 1); cbn; rewrite G3a; exact S2|].
  intros Hnd m Hin Hav.
  destruct (remote_media_negotiated _ _ _ _ _ _ Hp1 Hnd m Hin Hav) as [t [Ht1 Ht2]].
  exists (g t). split.
  - assert (E : forall q, p_trs q = p_trs p2 -> find (owns (m_kind m) (m_mid m)) (p_trs q) = Some (g t)).
    { intros q Eq. rewrite Eq, G1. rewrite find_map_pres by (intro x; apply owns_core; apply G2). rewrite Ht1. reflexivity. }
    apply E. destruct (d_type d =? 1); reflexivity.
  - eapply negotiated_core; [symmetry; apply G2 | exact Ht2].
Qed.

(* ---- setLocalDescription ------------------------------------------------------------------------ *)
Lemma assign_mids_spec : forall ms i p p', assign_mids ms i p = Ok p' ->
  same_descs p p' /\ incl (p_seen p) (p_seen p') /\ incl (map m_mid ms) (p_seen p') /\
  p_transports p' = p_transports p /\ p_policy p' = p_policy p.
Proof.
  induction ms as [|m ms IH]; intros i p p' H; cbn [assign_mids] in H.
  - inversion H; subst. unfold same_descs. repeat split; auto using incl_refl. intros x [].
  - destruct (sadd_incl (m_mid m) (p_seen p)) as [S1 S2].
    assert (G : forall p1, p_seen p1 = sadd (m_mid m) (p_seen p) -> same_descs p p1 ->
                p_transports p1 = p_transports p -> p_policy p1 = p_policy p ->
                assign_mids ms (S i) p1 = Ok p' ->
                same_descs p p' /\ incl (p_seen p) (p_seen p') /\ incl (map m_mid (m :: ms)) (p_seen p') /\
                p_transports p' = p_transports p /\ p_policy p' = p_policy p).
    { intros p1 E1 E2 E3 E4 Hr. destruct (IH _ _ _ Hr) as [I1 [I2 [I3 [I4 I5]]]]. rewrite E1 in I2.
      split; [eapply same_descs_trans; eauto|]. split; [eapply incl_tran; eauto|].
      split; [|split; congruence]. cbn [map]. intros x [<-|Hx]; [apply I2; exact S2 | apply I3; exact Hx]. }
    destruct (is_av (m_kind m)).
    + destruct (find_idx (mline_is i) (p_trs (set_seen p (sadd (m_mid m) (p_seen p))))); [|discriminate].
      apply G in H; auto. unfold same_descs. cbn. tauto.
    + destruct (m_kind m =? 2).
      * destruct (p_sctp (set_seen p (sadd (m_mid m) (p_seen p)))); [|discriminate].
        apply G in H; auto. unfold same_descs. cbn. tauto.
      * apply G in H; auto. unfold same_descs. cbn. tauto.
Qed.

Lemma local_roles_spec : forall ms i p p', local_roles ms i p = Ok p' ->
  same_descs p p' /\ p_seen p' = p_seen p /\ p_trs p' = p_trs p /\ p_sctp p' = p_sctp p /\
  p_sctp_mline p' = p_sctp_mline p /\ p_policy p' = p_policy p.
Proof.
  induction ms as [|m ms IH]; intros i p p' H; cbn [local_roles] in H.
  - inversion H; subst. unfold same_descs. repeat split; reflexivity.
  - assert (G : forall l, local_roles ms (S i) (set_transports p l) = Ok p' ->
                same_descs p p' /\ p_seen p' = p_seen p /\ p_trs p' = p_trs p /\ p_sctp p' = p_sctp p /\
                p_sctp_mline p' = p_sctp_mline p /\ p_policy p' = p_policy p).
    { intros l Hr. apply IH in Hr. cbn in Hr. exact Hr. }
    destruct (is_av (m_kind m)).
    + destruct (find (mline_is i) (p_trs p)); [|discriminate]. eapply G; eauto.
    + destruct (m_kind m =? 2).
      * destruct (p_sctp p); [|discriminate]. eapply G; eauto.
      * apply IH in H. exact H.
Qed.

Lemma validate_answer : forall p d is_local, validate_description p d is_local = Ok tt -> d_type d = 1 ->
  (forall m, In m (d_media d) -> m_role m <> RAuto) /\
  exists o, (if is_local then remote_description p else local_description p) = Some o /\
            sections (Some d) = sections (Some o) /\
            p_state p = (if is_local then HaveRemoteOffer else HaveLocalOffer).
Proof.
  intros p d is_local H Ht. unfold validate_description in H. rewrite Ht in H. cbn [Z.eqb andb] in H.
  match type of H with (if negb ?c then _ else _) = _ => destruct c eqn:Est end; cbn [negb] in H; [|discriminate].
  destruct (existsb (fun m => match m_role m with RAuto => true | _ => false end) (d_media d)) eqn:Eex; [discriminate|].
  destruct (if is_local then remote_description p else local_description p) as [o|] eqn:Eo; [|discriminate].
  destruct (sections_eqb (sections (Some d)) (sections (Some o))) eqn:Es; [|discriminate].
  split.
  - intros m Hm Hr. assert (E : existsb (fun m => match m_role m with RAuto => true | _ => false end) (d_media d) = true).
    { apply existsb_exists. exists m. rewrite Hr. auto. }
    congruence.
  - exists o. split; [reflexivity|]. split; [apply sections_eqb_eq; exact Es|].
    destruct is_local; destruct (p_state p); try discriminate; reflexivity.
Qed.

Lemma set_local_description_spec : forall fixed p d p', set_local_description fixed p d = Ok p' ->
  validate_description p d true = Ok tt /\
  p_state p' = (if Z.eqb (d_type d) 0 then HaveLocalOffer else Stable) /\
  local_description p' = Some d /\
  p_cur_remote p' = p_cur_remote p /\ p_pend_remote p' = p_pend_remote p /\
  incl (p_seen p) (p_seen p') /\ incl (map m_mid (d_media d)) (p_seen p').
Proof.
  intros fixed p d p' H. unfold set_local_description in H.
  destruct (match p_state p with Closed => true | _ => false end); [discriminate|].
  destruct (validate_description p d true) as [[]| | |] eqn:Ev; cbn [bind] in H; try discriminate.
  bind_inv H p2 Hp2. bind_inv H p4 Hp4. bind_inv H p5 Hp5. inversion H; subst p'; clear H.
  destruct (assign_mids_spec _ _ _ _ Hp2) as [A1 [A2 [A3 [A4 A5]]]]. cbn in A1, A2.
  set (p3 := if d_type d =? 0
             then set_transports p2 (map (fun t => if tr_live t then tr_set_ice true t else t) (p_transports p2))
             else p2) in *.
  assert (B : same_descs p2 p3 /\ p_seen p3 = p_seen p2).
  { subst p3. destruct (d_type d =? 0); unfold same_descs; cbn; tauto. }
  assert (C : same_descs p3 p4 /\ p_seen p4 = p_seen p3).
  { destruct (d_type d =? 1).
    - apply local_roles_spec in Hp4. tauto.
    - inversion Hp4; subst. unfold same_descs. tauto. }
  assert (D : same_descs p4 p5 /\ p_seen p5 = p_seen p4).
  { destruct (d_type d =? 1).
    - bind_inv Hp5 trs Htrs. inversion Hp5; subst. unfold same_descs. cbn. tauto.
    - inversion Hp5; subst. unfold same_descs. tauto. }
  destruct B as [B1 B2]. destruct C as [C1 C2]. destruct D as [D1 D2].
  pose proof (same_descs_trans _ _ _ A1 (same_descs_trans _ _ _ B1 (same_descs_trans _ _ _ C1 D1))) as E.
  unfold same_descs in E. cbn in E. destruct E as [E1 [E2 [E3 [E4 E5]]]].
  assert (Hseen : p_seen p5 = p_seen p2) by congruence.
  split; [reflexivity|].
  destruct (d_type d =? 0) eqn:Et0; destruct (d_type d =? 1) eqn:Et1;
    try (apply Z.eqb_eq in Et0; apply Z.eqb_eq in Et1; congruence);
    cbn; unfold local_description; cbn; rewrite ?Hseen; repeat split; auto.
Qed.

(* ---- createAnswer ----------------------------------------------------------------------------------- *)
Definition answer_role (r : role) : role := match r with RAuto => RClient | x => x end.

Definition answer_rel (p : pc) (mo ma : media) : Prop :=
  (is_av (m_kind mo) = true /\
   exists t dd tr, find (mid_is (m_mid mo)) (p_trs p) = Some t /\
                   and_direction (Some (t_direction t)) (t_offerDirection t) = Ok dd /\
                   tr_get (p_transports p) (t_transport t) = Some tr /\
                   ma = media_for_transceiver t dd (m_mid mo) (answer_role (tr_role tr))) \/
  (is_av (m_kind mo) = false /\
   exists s mid tr, p_sctp p = Some s /\ s_mid s = Some mid /\
                    tr_get (p_transports p) (s_transport s) = Some tr /\
                    ma = media_for_sctp mid (answer_role (tr_role tr))).

Lemma mid_is_true : forall mu t, mid_is mu t = true -> t_mid t = Some mu.
Proof.
  intros mu t H. unfold mid_is in H. destruct (t_mid t) as [x|]; cbn [opt_eqb] in H; [|discriminate].
  apply Z.eqb_eq in H. congruence.
Qed.

Lemma answer_media_spec : forall p ms out, answer_media p ms = Ok out -> Forall2 (answer_rel p) ms out.
Proof.
  intro p. induction ms as [|m ms IH]; intros out H; cbn [answer_media] in H.
  - inversion H; subst. constructor.
  - bind_inv H x Hx. bind_inv H rest Hrest. inversion H; subst out; clear H.
    constructor; [|apply IH; exact Hrest].
    destruct (is_av (m_kind m)) eqn:Eav.
    + left. split; [exact Eav|].
      destruct (find (mid_is (m_mid m)) (p_trs p)) as [t|] eqn:Ef; [|discriminate].
      bind_inv Hx dd Hdd.
      destruct (find_some _ _ Ef) as [_ Hmid]. apply mid_is_true in Hmid. rewrite Hmid in Hx.
      destruct (tr_get (p_transports p) (t_transport t)) as [tr|] eqn:Etr; [|discriminate].
      inversion Hx; subst x. exists t, dd, tr. split; [reflexivity|]. split; [exact Hdd|]. split; [exact Etr|]. unfold answer_role. destruct (tr_role tr); reflexivity.
    + right. split; [exact Eav|].
      destruct (p_sctp p) as [s|]; [|discriminate].
      destruct (s_mid s) as [mid|] eqn:Em; [|discriminate].
      destruct (tr_get (p_transports p) (s_transport s)) as [tr|] eqn:Etr; [|discriminate].
      inversion Hx; subst x. exists s, mid, tr. split; [reflexivity|]. split; [exact Em|]. split; [exact Etr|]. unfold answer_role. destruct (tr_role tr); reflexivity.
Qed.

Lemma create_answer_spec : forall p d, create_answer p = Ok d ->
  p_state p = HaveRemoteOffer /\ d_type d = 1 /\ d_bundle d = map m_mid (d_media d) /\
  exists o, remote_description p = Some o /\ Forall2 (answer_rel p) (d_media o) (d_media d).
Proof.
  intros p d H. unfold create_answer in H.
  destruct (p_state p); try discriminate.
  destruct (remote_description p) as [o|]; [|discriminate].
  bind_inv H ms Hms. inversion H; subst d; clear H. cbn.
  repeat split; auto. exists o. split; [reflexivity|]. apply answer_media_spec. exact Hms.
Qed.

(* ---- createOffer -------------------------------------------------------------------------------------- *)
Definition merged_media (p : pc) : list media :=
  desc_media (local_description p) ++ skipn (length (desc_media (local_description p))) (desc_media (remote_description p)).

Lemma offer_existing_mids : forall ms i trs hs sm trs' out sm',
  offer_existing ms i trs hs sm = Ok (trs', out, sm') -> sublist (map m_mid out) (map m_mid ms).
Proof.
  induction ms as [|m ms IH]; intros i trs hs sm trs' out sm' H; cbn [offer_existing] in H.
  - inversion H; subst. constructor.
  - destruct (is_av (m_kind m)).
    + destruct (find_idx (mid_is (m_mid m)) trs) as [k|]; [|discriminate].
      destruct (nth_error (upd k (set_mline i) trs) k) as [t|]; [|discriminate].
      bind_inv H r Hr. destruct r as [[trs2 out2] sm2]. inversion H; subst. cbn [map media_for_transceiver m_mid].
      apply sub_take. eapply IH. exact Hr.
    + destruct (m_kind m =? 2).
      * destruct hs; [|discriminate]. bind_inv H r Hr. destruct r as [[trs2 out2] sm2]. inversion H; subst.
        cbn [map media_for_sctp m_mid]. apply sub_take. eapply IH. exact Hr.
      * cbn [map]. apply sub_skip. eapply IH. exact H.
Qed.

Lemma offer_new_mids : forall trs next mids trs' out mids',
  offer_new trs next mids = Ok (trs', out, mids') ->
  NoDup (map m_mid out) /\ (forall mu, In mu (map m_mid out) -> ~ In mu mids) /\
  incl mids mids' /\ incl (map m_mid out) mids' /\ (forall mu, In mu mids' -> In mu mids \/ In mu (map m_mid out)).
Proof.
  induction trs as [|t ts IH]; intros next mids trs' out mids' H; cbn [offer_new] in H.
  - inversion H; subst. cbn. repeat split; auto using incl_refl; try constructor; intros ? [].
  - destruct (t_mid t).
    + bind_inv H r Hr. destruct r as [[ts' out2] mids2]. inversion H; subst. eapply IH. exact Hr.
    + bind_inv H m Hm. bind_inv H r Hr. destruct r as [[ts' out2] mids2]. inversion H; subst; clear H.
      destruct (IH _ _ _ _ _ Hr) as [I1 [I2 [I3 [I4 I5]]]].
      apply allocate_mid_fresh in Hm. destruct Hm as [Hm _].
      cbn [map media_for_transceiver m_mid]. split.
      * constructor; [|exact I1]. intro Hin. apply (I2 _ Hin). left. reflexivity.
      * split; [|split; [|split]].
        -- intros mu [<-|Hmu]; [exact Hm|]. intro Hc. apply (I2 _ Hmu). right. exact Hc.
        -- intros x Hx. apply I3. right. exact Hx.
        -- intros x [<-|Hx]; [apply I3; left; reflexivity | apply I4; exact Hx].
        -- intros mu Hmu. destruct (I5 _ Hmu) as [[<-|Q]|Q]; [right; left; reflexivity | left; exact Q | right; right; exact Q].
Qed.

Lemma sublist_NoDup : forall T (l1 l2 : list T), sublist l1 l2 -> NoDup l2 -> NoDup l1.
Proof.
  induction 1 as [l|x l1 l2 H IH|x l1 l2 H IH]; intro Hnd.
  - constructor.
  - inversion Hnd; subst. auto.
  - inversion Hnd; subst. constructor; [|auto]. intro Hin. apply (sublist_In _ _ _ H) in Hin. contradiction.
Qed.

Lemma NoDup_app_intro : forall T (l1 l2 : list T), NoDup l1 -> NoDup l2 -> (forall x, In x l1 -> ~ In x l2) -> NoDup (l1 ++ l2).
Proof.
  induction l1 as [|a l1 IH]; intros l2 H1 H2 H; cbn [app]; [exact H2|].
  inversion H1; subst. constructor.
  - intro Hin. apply in_app_or in Hin. destruct Hin as [Hin|Hin]; [contradiction | exact (H a (or_introl eq_refl) Hin)].
  - apply IH; auto. intros x Hx. apply H. right. exact Hx.
Qed.

(* the light invariant of one connection: the mids of its current m-sections are distinct and seen *)
Definition inv_desc (p : pc) : Prop :=
  NoDup (map m_mid (merged_media p)) /\ incl (map m_mid (merged_media p)) (p_seen p).

Lemma create_offer_spec : forall T p p1 d, create_offer T p = Ok (p1, d) ->
  d_type d = 0 /\ d_bundle d = map m_mid (d_media d) /\
  same_descs p p1 /\ p_seen p1 = p_seen p /\
  (inv_desc p -> NoDup (map m_mid (d_media d))).
Proof.
  intros T p p1 d H. unfold create_offer in H.
  destruct (match p_state p with Closed => true | _ => false end); [discriminate|].
  bind_inv H trs0 Htrs0. bind_inv H r1 Hr1. destruct r1 as [[trs1 out1] sm1].
  bind_inv H r2 Hr2. destruct r2 as [[trs2 out2] mids2].
  bind_inv H r3 Hr3. destruct r3 as [out3 sm3]. inversion H; subst p1 d; clear H. cbn.
  split; [reflexivity|]. split; [reflexivity|]. split; [unfold same_descs; cbn; tauto|]. split; [reflexivity|].
  intros [Hnd Hseen]. fold (merged_media p) in Hr1.
  pose proof (offer_existing_mids _ _ _ _ _ _ _ _ Hr1) as S1.
  destruct (offer_new_mids _ _ _ _ _ _ Hr2) as [N1 [N2 [N3 [N4 N5]]]].
  rewrite !map_app. apply NoDup_app_intro.
  - eapply sublist_NoDup; eauto.
  - apply NoDup_app_intro; [exact N1| |].
    + destruct (p_sctp p) as [s|]; [|inversion Hr3; subst; constructor].
      destruct (s_mid s); [inversion Hr3; subst; constructor|].
      bind_inv Hr3 m Hm. inversion Hr3; subst. cbn. constructor; [intros []|constructor].
    + intros x Hx Hx3. destruct (p_sctp p) as [s|]; [|inversion Hr3; subst; destruct Hx3].
      destruct (s_mid s); [inversion Hr3; subst; destruct Hx3|].
      bind_inv Hr3 m Hm. inversion Hr3; subst. cbn in Hx3. destruct Hx3 as [<-|[]].
      apply allocate_mid_fresh in Hm. destruct Hm as [Hm _]. apply Hm. apply N4. exact Hx.
  - intros x Hx Hx23. apply (sublist_In _ _ _ S1) in Hx. apply Hseen in Hx.
    apply in_app_or in Hx23. destruct Hx23 as [Hx2|Hx3].
    + exact (N2 _ Hx2 Hx).
    + destruct (p_sctp p) as [s|]; [|inversion Hr3; subst; destruct Hx3].
      destruct (s_mid s); [inversion Hr3; subst; destruct Hx3|].
      bind_inv Hr3 m Hm. inversion Hr3; subst. cbn in Hx3. destruct Hx3 as [<-|[]].
      apply allocate_mid_fresh in Hm. destruct Hm as [Hm _]. apply Hm. apply N3. exact Hx.
Qed.

(* ---- one exchange: the answer mirrors the offer ------------------------------------------------------ *)
Definition section_ok (T : tables) (mo ma : media) : Prop :=
  is_av (m_kind mo) = true ->
  exists c0 prefs d_o d_a d_b,
    find_common_codecs (CODECS T (m_kind mo)) (m_codecs mo) = Ok c0 /\
    filter_preferred_codecs c0 prefs = Ok (m_codecs ma) /\ m_codecs ma <> [] /\
    m_exts ma = find_common_header_extensions (HEADER_EXTENSIONS T (m_kind mo)) (m_exts mo) /\
    m_dir mo = Some d_o /\ m_dir ma = Some d_a /\
    and_direction (Some d_b) (Some (reverse_direction d_o)) = Ok d_a.

Record mirrors (T : tables) (x : exchanged) : Prop := mkMirrors {
  mr_stable_a : p_state (x_a x) = Stable;
  mr_stable_b : p_state (x_b x) = Stable;
  mr_types : d_type (x_offer x) = 0 /\ d_type (x_answer x) = 1;
  mr_sections : sections (Some (x_answer x)) = sections (Some (x_offer x));
  mr_bundle : d_bundle (x_offer x) = map m_mid (d_media (x_offer x)) /\ d_bundle (x_answer x) = d_bundle (x_offer x);
  mr_roles : forall m, In m (d_media (x_answer x)) -> m_role m = RClient \/ m_role m = RServer;
  mr_media : Forall2 (section_ok T) (d_media (x_offer x)) (d_media (x_answer x))
}.

Lemma Forall2_map_eq : forall A B C (R : A -> B -> Prop) (f : B -> C) (g : A -> C) l1 l2,
  Forall2 R l1 l2 -> map f l2 = map g l1 -> Forall2 (fun x y => R x y /\ f y = g x) l1 l2.
Proof.
  induction 1 as [|x y l1 l2 Hxy H IH]; intro E; [constructor|].
  cbn [map] in E. inversion E. constructor; auto.
Qed.

Lemma Forall2_impl : forall A B (R S : A -> B -> Prop) l1 l2, (forall x y, In x l1 -> R x y -> S x y) ->
  Forall2 R l1 l2 -> Forall2 S l1 l2.
Proof.
  intros A B R S l1 l2 H HF. induction HF as [|x y l1 l2 Hxy HF IH]; constructor.
  - apply H; [left; reflexivity | exact Hxy].
  - apply IH. intros a b Ha. apply H. right. exact Ha.
Qed.

Lemma sections_mids : forall d o, sections (Some d) = sections (Some o) -> map m_mid (d_media d) = map m_mid (d_media o).
Proof.
  intros d o H. unfold sections in H. cbn [desc_media] in H.
  assert (E : forall l : list media, map snd (map (fun m => (m_kind m, m_mid m)) l) = map m_mid l).
  { intro l. rewrite map_map. reflexivity. }
  rewrite <- (E (d_media d)), <- (E (d_media o)). rewrite H. reflexivity.
Qed.

Lemma exchange_steps : forall fixed T a b x, exchange fixed T a b = Ok x ->
  exists a1 offer a2 b1 answer b2 a3,
    create_offer T a = Ok (a1, offer) /\ set_local_description fixed a1 offer = Ok a2 /\
    set_remote_description fixed T b offer = Ok b1 /\ create_answer b1 = Ok answer /\
    set_local_description fixed b1 answer = Ok b2 /\ set_remote_description fixed T a2 answer = Ok a3 /\
    x = mkExchanged a3 b2 offer answer.
Proof.
  intros fixed T a b x H. unfold exchange in H.
  bind_inv H r Hr. destruct r as [a1 offer]. bind_inv H a2 Ha2. bind_inv H b1 Hb1. bind_inv H answer Han.
  bind_inv H b2 Hb2. bind_inv H a3 Ha3. inversion H; subst x.
  exists a1, offer, a2, b1, answer, b2, a3. repeat split; auto.
Qed.

Lemma exchange_mirrors : forall fixed T a b x, exchange fixed T a b = Ok x ->
  NoDup (map m_mid (d_media (x_offer x))) -> mirrors T x.
Proof.
  intros fixed T a b x H Hnd.
  destruct (exchange_steps _ _ _ _ _ H) as [a1 [offer [a2 [b1 [answer [b2 [a3 [H1 [H2 [H3 [H4 [H5 [H6 ->]]]]]]]]]]]]].
  cbn [x_a x_b x_offer x_answer] in *.
  destruct (create_offer_spec _ _ _ _ H1) as [O1 [O2 _]].
  destruct (set_remote_description_spec _ _ _ _ _ H3) as [_ [R2 [R3 [_ [_ [_ [_ R8]]]]]]].
  destruct (create_answer_spec _ _ H4) as [A1 [A2 [A3 [o [A4 A5]]]]].
  rewrite R3 in A4. inversion A4; subst o; clear A4.
  destruct (set_local_description_spec _ _ _ _ H5) as [L1 [L2 _]].
  destruct (validate_answer _ _ _ L1 A2) as [V1 [o [V2 [V3 _]]]]. rewrite R3 in V2. inversion V2; subst o; clear V2.
  destruct (set_remote_description_spec _ _ _ _ _ H6) as [_ [S2 _]].
  constructor; cbn [x_a x_b x_offer x_answer].
  - rewrite S2, A2. reflexivity.
  - rewrite L2, A2. reflexivity.
  - auto.
  - exact V3.
  - split; [exact O2|]. rewrite A3, O2. apply sections_mids. exact V3.
  - intros m Hm. specialize (V1 m Hm). destruct (m_role m); [congruence | left | right]; reflexivity.
  - assert (Ek : map m_kind (d_media answer) = map m_kind (d_media offer)).
    { unfold sections in V3. cbn [desc_media] in V3.
      assert (E : forall l : list media, map fst (map (fun m => (m_kind m, m_mid m)) l) = map m_kind l)
        by (intro l; rewrite map_map; reflexivity).
      rewrite <- (E (d_media answer)), <- (E (d_media offer)), V3. reflexivity. }
    pose proof (Forall2_map_eq _ _ _ _ _ _ _ _ A5 Ek) as F.
    eapply Forall2_impl; [|exact F]. clear F.
    intros mo ma Hin [Hrel Hkind] Hav. rewrite O1 in R8.
    destruct Hrel as [[_ [t [dd [tr [F1 [F2 [F3 ->]]]]]]]|[Hav' _]]; [|congruence].
    cbn [media_for_transceiver m_kind] in Hkind.
    destruct (R8 Hnd mo Hin Hav) as [t' [G1 G2]].
    assert (Eo : find (owns (m_kind mo) (m_mid mo)) (p_trs b1) = Some t).
    { unfold owns. apply (find_conj _ (mid_is (m_mid mo)) (fun y => t_kind y =? m_kind mo)); [exact F1|].
      rewrite Hkind. apply Z.eqb_refl. }
    rewrite Eo in G1. inversion G1; subst t'; clear G1.
    destruct G2 as [_ [_ [c0 [md [N1 [N2 [N3 [N4 [N5 N6]]]]]]]]]. cbn [Z.eqb] in N6.
    exists c0, (t_preferred t), md, dd, (t_direction t).
    cbn [media_for_transceiver m_codecs m_exts m_dir]. rewrite N6 in F2. repeat split; auto.
Qed.

(* ---- the light invariant holds along every session ---------------------------------------------------- *)
Lemma merged_same : forall p q, same_descs p q -> merged_media q = merged_media p.
Proof.
  intros p q [E1 [E2 [E3 [E4 _]]]]. unfold merged_media, local_description, remote_description.
  rewrite E1, E2, E3, E4. reflexivity.
Qed.

Lemma inv_desc_same : forall p q, same_descs p q -> incl (p_seen p) (p_seen q) -> inv_desc p -> inv_desc q.
Proof.
  intros p q Hs Hi [I1 I2]. unfold inv_desc. rewrite (merged_same _ _ Hs). split; [exact I1|].
  eapply incl_tran; eauto.
Qed.

Lemma inv_desc_init : forall pol, inv_desc (init_pc pol).
Proof. intro pol. unfold inv_desc, merged_media. cbn. split; [constructor | intros x []]. Qed.

Lemma apply_op_same : forall T p o p', apply_op T p o = Ok p' -> same_descs p p' /\ p_seen p' = p_seen p.
Proof.
  intros T p o p' H. destruct o as [k|k d h| |i prefs|i d]; cbn [apply_op] in H.
  - unfold add_track in H. destruct (negb (is_av k)); [discriminate|].
    destruct (find_idx (fun t => (t_kind t =? k) && negb (t_hastrack t)) (p_trs p)) as [i|].
    + destruct (nth_error (p_trs p) i) as [t|]; [|discriminate]. bind_inv H d Hd. inversion H; subst.
      unfold same_descs. cbn. tauto.
    + inversion H; subst. destruct (create_transceiver_spec p SendRecv k true) as [bd [id [_ [_ [_ Hs]]]]].
      unfold same_session in Hs. unfold same_descs. tauto.
  - unfold add_transceiver in H. destruct (negb (is_av k)); [discriminate|]. inversion H; subst.
    destruct (create_transceiver_spec p d k h) as [bd [id [_ [_ [_ Hs]]]]].
    unfold same_session in Hs. unfold same_descs. tauto.
  - unfold create_data_channel in H. destruct (p_sctp p).
    + inversion H; subst. unfold same_descs. tauto.
    + inversion H; subst. destruct (create_sctp_spec p) as [_ [_ [Hs _]]].
      unfold same_session in Hs. unfold same_descs. tauto.
  - unfold pc_set_prefs in H. destruct (nth_error (p_trs p) i) as [t|]; [|discriminate].
    bind_inv H u Hu. inversion H; subst. unfold same_descs. cbn. tauto.
  - unfold pc_set_direction in H. destruct (nth_error (p_trs p) i) as [t|]; [|discriminate].
    inversion H; subst. unfold same_descs. cbn. tauto.
Qed.

Lemma skipn_all_length : forall T (l1 l2 : list T), length l1 = length l2 -> l1 ++ skipn (length l1) l2 = l1.
Proof. intros T l1 l2 H. rewrite H, skipn_all. apply app_nil_r. Qed.

Lemma exchange_inv_desc : forall fixed T a b x, exchange fixed T a b = Ok x -> inv_desc a ->
  NoDup (map m_mid (d_media (x_offer x))) /\ inv_desc (x_a x) /\ inv_desc (x_b x).
Proof.
  intros fixed T a b x H Ia.
  destruct (exchange_steps _ _ _ _ _ H) as [a1 [offer [a2 [b1 [answer [b2 [a3 [H1 [H2 [H3 [H4 [H5 [H6 ->]]]]]]]]]]]]].
  cbn [x_a x_b x_offer x_answer].
  destruct (create_offer_spec _ _ _ _ H1) as [O1 [O2 [O3 [O4 O5]]]].
  assert (Hnd : NoDup (map m_mid (d_media offer))) by (apply O5; exact Ia).
  split; [exact Hnd|].
  pose proof (exchange_mirrors _ _ _ _ _ H Hnd) as M. destruct M as [_ _ _ Msec _ _ _]. cbn [x_offer x_answer] in Msec.
  pose proof (sections_mids _ _ Msec) as Emids.
  assert (Elen : length (d_media answer) = length (d_media offer)).
  { rewrite <- (map_length m_mid (d_media answer)), Emids. apply map_length. }
  destruct (set_local_description_spec _ _ _ _ H2) as [_ [_ [A3 [_ [_ [A6 A7]]]]]].
  destruct (set_remote_description_spec _ _ _ _ _ H6) as [_ [_ [B3 [B4 [B5 [B6 _]]]]]].
  destruct (set_remote_description_spec _ _ _ _ _ H3) as [_ [_ [C3 [_ [_ [_ [C7 _]]]]]]].
  destruct (set_local_description_spec _ _ _ _ H5) as [_ [_ [D3 [D4 [D5 [D6 D7]]]]]].
  split.
  - unfold inv_desc, merged_media.
    assert (El : local_description a3 = Some offer).
    { unfold local_description in *. rewrite B4, B5. exact A3. }
    rewrite El, B3. cbn [desc_media]. rewrite skipn_all_length by (symmetry; exact Elen).
    split; [exact Hnd | exact (incl_tran A7 B6)].
  - unfold inv_desc, merged_media.
    assert (Er : remote_description b2 = Some offer).
    { unfold remote_description in *. rewrite D4, D5. exact C3. }
    rewrite Er, D3. cbn [desc_media]. rewrite skipn_all_length by exact Elen.
    rewrite Emids. split; [exact Hnd|]. rewrite <- Emids. exact D7.
Qed.

Lemma run_session_inv_desc : forall fixed T steps a b a' b',
  run_session fixed T a b steps = Ok (a', b') -> inv_desc a -> inv_desc b -> inv_desc a' /\ inv_desc b'.
Proof.
  intros fixed T. induction steps as [|s steps IH]; intros a b a' b' H Ia Ib; cbn [run_session] in H.
  - inversion H; subst. auto.
  - destruct s as [o|o| |].
    + bind_inv H a1 Ha1. destruct (apply_op_same _ _ _ _ Ha1) as [S1 S2].
      eapply IH; eauto. eapply inv_desc_same; eauto. rewrite S2. apply incl_refl.
    + bind_inv H b1 Hb1. destruct (apply_op_same _ _ _ _ Hb1) as [S1 S2].
      eapply IH; eauto. eapply inv_desc_same; eauto. rewrite S2. apply incl_refl.
    + bind_inv H x Hx. destruct (exchange_inv_desc _ _ _ _ _ Hx Ia) as [_ [I1 I2]]. eapply IH; eauto.
    + bind_inv H x Hx. destruct (exchange_inv_desc _ _ _ _ _ Hx Ib) as [_ [I1 I2]]. eapply IH; eauto.
Qed.

(* the offer/answer exchange at any point of any session *)
Theorem session_exchange_mirrors : forall fixed T pol_a pol_b steps a b,
  run_session fixed T (init_pc pol_a) (init_pc pol_b) steps = Ok (a, b) ->
  forall x, (exchange fixed T a b = Ok x \/ exchange fixed T b a = Ok x) -> mirrors T x.
Proof.
  intros fixed T pol_a pol_b steps a b H x Hx.
  destruct (run_session_inv_desc _ _ _ _ _ _ _ H (inv_desc_init pol_a) (inv_desc_init pol_b)) as [Ia Ib].
  destruct Hx as [Hx|Hx].
  - destruct (exchange_inv_desc _ _ _ _ _ Hx Ia) as [Hnd _]. eapply exchange_mirrors; eauto.
  - destruct (exchange_inv_desc _ _ _ _ _ Hx Ib) as [Hnd _]. eapply exchange_mirrors; eauto.
Qed.

(* ---- user-facing consequences of section_ok ------------------------------------------------------------ *)
Lemma Forall2_In_l : forall A B (R : A -> B -> Prop) l1 l2 y, Forall2 R l1 l2 -> In y l2 -> exists x, In x l1 /\ R x y.
Proof.
  induction 1 as [|a b l1 l2 Hab H IH]; intro Hy; [destruct Hy|].
  destruct Hy as [<-|Hy]; [exists a; split; [left; reflexivity | exact Hab]|].
  destruct (IH Hy) as [x [Hx Hr]]. exists x. split; [right; exact Hx | exact Hr].
Qed.

Lemma Forall2_In_r : forall A B (R : A -> B -> Prop) l1 l2 x, Forall2 R l1 l2 -> In x l1 -> exists y, In y l2 /\ R x y.
Proof.
  induction 1 as [|a b l1 l2 Hab H IH]; intro Hx; [destruct Hx|].
  destruct Hx as [<-|Hx]; [exists b; split; [left; reflexivity | exact Hab]|].
  destruct (IH Hx) as [y [Hy Hr]]. exists y. split; [right; exact Hy | exact Hr].
Qed.

Lemma section_ok_codecs : forall T mo ma, section_ok T mo ma -> is_av (m_kind mo) = true ->
  m_codecs ma <> [] /\
  (forall c, In c (m_codecs ma) -> exists c', In c' (m_codecs mo) /\ accepted (CODECS T (m_kind mo)) c c') /\
  (forall x, In x (m_exts ma) -> In x (m_exts mo)) /\
  (forall p1 r p2, m_codecs ma = p1 ++ r :: p2 -> is_rtx r = true ->
     exists apt b, pget (c_params r) key_apt = Some (PInt apt) /\ In b p1 /\ is_rtx b = false /\ c_pt b = apt) /\
  (exists d_o d_a, m_dir mo = Some d_o /\ m_dir ma = Some d_a /\
                   (sends d_a = true -> recvs d_o = true) /\ (recvs d_a = true -> sends d_o = true)).
Proof.
  intros T mo ma H Hav. destruct (H Hav) as [c0 [prefs [d_o [d_a [d_b [H1 [H2 [H3 [H4 [H5 [H6 H7]]]]]]]]]]].
  split; [exact H3|]. split; [|split; [|split]].
  - intros c Hc. apply (filter_preferred_incl _ _ _ H2) in Hc.
    destruct (find_common_codecs_sublist _ _ _ H1) as [sel [S1 S2]].
    destruct (Forall2_In_r _ _ _ _ _ _ S2 Hc) as [c' [Hc' Hacc]].
    exists c'. split; [eapply sublist_In; eauto | exact Hacc].
  - intros x Hx. rewrite H4 in Hx. apply common_ext_in in Hx. tauto.
  - intros p1 r p2 E Hr. destruct prefs as [|p ps].
    + inversion H2 as [E2]. rewrite <- E2 in E.
      destruct (find_common_codecs_rtx _ _ _ H1 p1 r p2 E Hr) as [apt [b [G1 [G2 [G3 [G4 G5]]]]]].
      exists apt, b. auto.
    + assert (B : pref_blocks c0 (p :: ps) (m_codecs ma)) by (apply filter_preferred_blocks; [discriminate | exact H2]).
      destruct (pref_blocks_rtx_follows _ _ _ B p1 r p2 E Hr) as [p0 [c [E1 [G1 G2]]]].
      exists (c_pt c), c. subst p1. repeat split; auto. apply in_or_app. right. left. reflexivity.
  - exists d_o, d_a. split; [exact H5|]. split; [exact H6|].
    apply and_direction_spec in H7. destruct H7 as [S R]. destruct (reverse_direction_spec d_o) as [RS RR].
    rewrite RS in S. rewrite RR in R. split; intro E.
    + rewrite E in S. symmetry in S. apply andb_true_iff in S. tauto.
    + rewrite E in R. symmetry in R. apply andb_true_iff in R. tauto.
Qed.
