(* C01: a TSN is accepted at most once and the reassembly assertion is unreachable,
   for every arrival list whose TSNs lie within a window of fewer than 2^31 TSNs
   after the initial cumulative TSN (anywhere in the 32-bit space, wrap included). *)
From Coq Require Import ZArith List Bool Lia ZifyBool.
From AV Require Import Lib.Bytes Gen.Utils Gen.SctpConst Model.SctpRecv Proof.SctpRecvP Proof.SctpC01P.
Import ListNotations.
Local Open Scope Z_scope.

Ltac Zify.zify_post_hook ::= Z.to_euclidean_division_equations.

Definition M32 : Z := 4294967296.
Definition r32 (t : Z) : Prop := 0 <= t < M32.
Definition off (base t : Z) : Z := (t - base) mod M32.

Section Window.
Variable base : Z.
Variable N : Z.
Hypothesis Hbase : r32 base.
Hypothesis HN : 0 <= N < 2147483648.

Definition inw (t : Z) : Prop := r32 t /\ off base t <= N.

Lemma gt_off a b : inw a -> inw b -> uint32_gt a b = true <-> off base b < off base a.
Proof. unfold inw, r32, off, M32, uint32_gt in *. intros [Ha Ha'] [Hb Hb']. lia. Qed.

Lemma gte_off a b : inw a -> inw b -> uint32_gte a b = true <-> off base b <= off base a.
Proof.
  intros Ha Hb. unfold uint32_gte. rewrite orb_true_iff, gt_off by assumption.
  unfold inw, r32, off, M32 in *. lia.
Qed.

Lemma plus_one_off c : inw c -> off base c < N -> inw (tsn_plus_one c) /\ off base (tsn_plus_one c) = off base c + 1.
Proof. unfold inw, r32, off, M32, tsn_plus_one, SCTP_TSN_MODULO in *. intros [Hc Hc'] Hlt. lia. Qed.

Lemma plus_one_off_inv c t : inw c -> inw t -> t = tsn_plus_one c -> off base t = off base c + 1.
Proof. unfold inw, r32, off, M32, tsn_plus_one, SCTP_TSN_MODULO in *. intros [Hc Hc'] [Ht Ht'] ->. lia. Qed.

Lemma off_inj a b : inw a -> inw b -> off base a = off base b -> a = b.
Proof. unfold inw, r32, off, M32 in *. intros [Ha _] [Hb _]. lia. Qed.

(* ---------------------------------------------------------------- sorted list = same elements *)
Lemma in_insert_by b t l x : In x (insert_by b t l) <-> x = t \/ In x l.
Proof.
  induction l as [|y l IH]; cbn [insert_by In]; [intuition|].
  destruct (_ <=? _); cbn [In]; [intuition|]. rewrite IH. intuition.
Qed.

Lemma in_sorted b l x : In x (sorted_misordered b l) <-> In x l.
Proof.
  unfold sorted_misordered. induction l as [|y l IH]; cbn [fold_right In]; [tauto|].
  rewrite in_insert_by, IH. intuition.
Qed.

Lemma consolidate_spec : forall l cum, inw cum -> Forall inw l ->
  let c' := consolidate cum l in
  inw c' /\ off base cum <= off base c' /\ (c' = cum \/ In c' l).
Proof.
  induction l as [|t l IH]; intros cum Hc Hl; cbn [consolidate].
  - split; [exact Hc|]. split; [lia|now left].
  - inversion Hl as [|? ? Ht Hl']; subst.
    destruct (Z.eqb_spec t (tsn_plus_one cum)) as [E|_].
    + destruct (IH t Ht Hl') as (H1 & H2 & H3). cbn zeta in *.
      split; [exact H1|]. split.
      * pose proof (plus_one_off_inv cum t Hc Ht E). lia.
      * right. destruct H3 as [-> | H3]; [now left|now right].
    + split; [exact Hc|]. split; [lia|now left].
Qed.

(* ---------------------------------------------------------------- invariant *)
Definition acc (s : rstate) (t : Z) : Prop :=
  off base t <= off base (last_rx s) \/ In t (misordered s).

Definition all_reasm (s : rstate) : list chunk := concat (map (fun kv => reasm (snd kv)) (streams s)).

Definition inv (s : rstate) : Prop :=
  inw (last_rx s) /\
  Forall (fun m => inw m /\ off base (last_rx s) < off base m) (misordered s) /\
  Forall (fun c => inw (tsn c) /\ acc s (tsn c)) (all_reasm s).

Lemma zmem_In x l : zmem x l = true <-> In x l.
Proof.
  unfold zmem. rewrite existsb_exists. split.
  - intros (y & Hy & E). apply Z.eqb_eq in E. now subst.
  - intros H. exists x. split; [exact H|apply Z.eqb_refl].
Qed.

(* the duplicate test of _mark_received decides acc *)
Lemma dup_test s t : inv s -> inw t ->
  (uint32_gte (last_rx s) t || zmem t (misordered s)) = true <-> acc s t.
Proof.
  intros (Hl & _) Ht. unfold acc. rewrite orb_true_iff, gte_off, zmem_In by assumption. tauto.
Qed.

Lemma all_reasm_set l id st : forall x,
  In x (concat (map (fun kv => reasm (snd kv)) (set_stream l id st))) ->
  In x (reasm st) \/ In x (concat (map (fun kv : Z * stream => reasm (snd kv)) l)).
Proof.
  induction l as [|[k w] l IH]; intros x; cbn [set_stream map concat snd].
  - rewrite app_nil_r. now left.
  - destruct (Z.eqb id k); cbn [map concat snd]; rewrite !in_app_iff.
    + intuition.
    + intros [H|H]; [right; now left|]. apply IH in H as [H|H]; [now left|right; now right].
Qed.

Lemma get_stream_reasm_in l id x : In x (reasm (get_stream l id)) ->
  In x (concat (map (fun kv : Z * stream => reasm (snd kv)) l)).
Proof.
  induction l as [|[k w] l IH]; cbn [get_stream map concat snd]; [intros []|].
  destruct (Z.eqb id k); rewrite in_app_iff; [now left|]. intros H. right. now apply IH.
Qed.

(* result of the non-duplicate branch of _mark_received *)
Lemma mark_new s t : inv s -> inw t -> ~ acc s t ->
  let mis := t :: misordered s in
  let cum := consolidate (last_rx s) (sorted_misordered (last_rx s) mis) in
  inw cum /\ off base (last_rx s) <= off base cum /\
  Forall (fun m => inw m /\ off base cum < off base m) (filter (is_obsolete cum) mis) /\
  (forall a, inw a -> (acc s a \/ a = t) ->
     off base a <= off base cum \/ In a (filter (is_obsolete cum) mis)).
Proof.
  intros (Hl & Hm & Hr) Ht Hna mis cum.
  assert (Hmis : Forall inw mis).
  { constructor; [exact Ht|]. eapply Forall_impl; [|exact Hm]. intros m [H _]. exact H. }
  assert (Hsorted : Forall inw (sorted_misordered (last_rx s) mis)).
  { rewrite Forall_forall in *. intros x Hx. apply in_sorted in Hx. now apply Hmis. }
  destruct (consolidate_spec _ _ Hl Hsorted) as (Hc1 & Hc2 & Hc3). fold cum in Hc1, Hc2, Hc3.
  split; [exact Hc1|]. split; [exact Hc2|]. split.
  - rewrite Forall_forall in *. intros m Hin. apply filter_In in Hin as [Hin Hob].
    split; [now apply Hmis|]. unfold is_obsolete in Hob. apply gt_off in Hob; auto.
  - intros a Ha Hacc.
    destruct (Z_le_gt_dec (off base a) (off base cum)) as [Hle|Hgt]; [now left|right].
    apply filter_In. split.
    + destruct Hacc as [[Hacc|Hacc]| ->]; [lia|now right|now left].
    + unfold is_obsolete. apply gt_off; auto. lia.
Qed.

Lemma mark_received_inv s t : inv s -> inw t ->
  let '(s', dup) := mark_received s t in
  streams s' = streams s /\
  (dup = true -> acc s t /\ last_rx s' = last_rx s /\ misordered s' = misordered s) /\
  (dup = false -> ~ acc s t /\ inw (last_rx s') /\
      Forall (fun m => inw m /\ off base (last_rx s') < off base m) (misordered s') /\
      (forall a, inw a -> (acc s a \/ a = t) -> acc s' a)).
Proof.
  intros Hinv Ht. unfold mark_received.
  destruct (uint32_gte (last_rx s) t || zmem t (misordered s)) eqn:E.
  - cbn [streams last_rx misordered]. split; [reflexivity|]. split; [|discriminate].
    intros _. split; [now apply dup_test|auto].
  - cbn [streams last_rx misordered]. split; [reflexivity|]. split; [discriminate|]. intros _.
    assert (Hna : ~ acc s t). { intros H. apply (dup_test s t Hinv Ht) in H. congruence. }
    destruct (mark_new s t Hinv Ht Hna) as (H1 & H2 & H3 & H4). cbn zeta in *.
    split; [exact Hna|]. split; [exact H1|]. split; [exact H3|].
    intros a Ha Hacc. unfold acc. cbn [last_rx misordered]. now apply H4.
Qed.

(* acc transfers to sub-lists *)
Lemma inv_weaken s s' :
  inw (last_rx s') ->
  Forall (fun m => inw m /\ off base (last_rx s') < off base m) (misordered s') ->
  (forall a, inw a -> acc s a -> acc s' a) ->
  Forall (fun c => inw (tsn c) /\ acc s (tsn c)) (all_reasm s') -> inv s'.
Proof.
  intros H1 H2 H3 H4. split; [exact H1|]. split; [exact H2|].
  eapply Forall_impl; [|exact H4]. intros c [Hc Ha]. split; [exact Hc|]. now apply H3.
Qed.

Lemma add_scan_no_assert c : forall l, ~ In (tsn c) (map tsn l) -> add_scan l c <> AddAssert.
Proof.
  induction l as [|r l IH]; cbn [add_scan map In]; intros Hn; [discriminate|].
  destruct (Z.eqb_spec (tsn r) (tsn c)) as [E|_]; [exfalso; apply Hn; now left|].
  destruct (uint32_gt _ _); [discriminate|].
  destruct (add_scan l c) eqn:E2; [discriminate|]. exfalso. apply IH; auto.
Qed.

Lemma add_chunk_no_assert l c : ~ In (tsn c) (map tsn l) -> add_chunk l c <> AddAssert.
Proof.
  unfold add_chunk. destruct l as [|a l0]; [discriminate|].
  destruct (uint32_gt _ _); [discriminate|]. apply add_scan_no_assert.
Qed.

(* one DATA chunk *)
Lemma receive_data_inv s c : inv s -> inw (tsn c) ->
  exists s' d, receive_data s c = ROk s' d /\ inv s'.
Proof.
  intros Hinv Hc. unfold receive_data.
  set (s0 := mkR (last_rx s) (misordered s) (duplicates s) (streams s) (rwnd s) true).
  assert (H0 : inv s0) by exact Hinv.
  destruct (far_ahead s0 (tsn c)); [eauto|].
  pose proof (mark_received_inv s0 (tsn c) H0 Hc) as Hm.
  destruct (mark_received s0 (tsn c)) as [s1 dup]. destruct Hm as (Hs & Hd1 & Hd2).
  destruct dup.
  - destruct (Hd1 eq_refl) as (_ & El & Em). eexists _, _. split; [reflexivity|].
    destruct H0 as (A & B & C). split; [rewrite El; exact A|]. split; [rewrite El, Em; exact B|].
    unfold all_reasm. rewrite Hs. unfold acc. rewrite El, Em. exact C.
  - destruct (Hd2 eq_refl) as (Hna & H1 & H2 & H3).
    destruct H0 as (A & B & C).
    assert (Hreasm : forall x, In x (reasm (get_stream (streams s1) (sid c))) -> inw (tsn x) /\ acc s0 (tsn x)).
    { intros x Hx. rewrite Hs in Hx. apply get_stream_reasm_in in Hx. rewrite Forall_forall in C. now apply C. }
    destruct (add_chunk (reasm (get_stream (streams s1) (sid c))) c) as [l|] eqn:Ea.
    2:{ exfalso. revert Ea. apply add_chunk_no_assert. intros Hin. apply in_map_iff in Hin as (x & Ex & Hx).
        apply Hreasm in Hx as [_ Hx]. rewrite Ex in Hx. contradiction. }
    destruct (pop_messages l (sseq_expected (get_stream (streams s1) (sid c)))) as [[l2 seq2] out] eqn:Ep.
    eexists _, _. split; [reflexivity|].
    split; [exact H1|]. split; [exact H2|].
    rewrite Forall_forall. intros x Hx. unfold all_reasm in Hx. cbn [streams] in Hx.
    apply all_reasm_set in Hx as [Hx|Hx].
    + cbn [reasm] in Hx. apply pop_messages_retains in Ep. apply Ep in Hx.
      apply add_chunk_incl in Ea. apply Ea in Hx as [<-|Hx].
      * split; [exact Hc|]. unfold acc. cbn [last_rx misordered]. apply (H3 (tsn c) Hc). now right.
      * destruct (Hreasm x Hx) as [Hi Ha]. split; [exact Hi|]. unfold acc. cbn [last_rx misordered].
        apply (H3 (tsn x) Hi). now left.
    + rewrite Hs in Hx. rewrite Forall_forall in C. destruct (C x Hx) as [Hi Ha].
      split; [exact Hi|]. unfold acc. cbn [last_rx misordered]. apply (H3 (tsn x) Hi). now left.
Qed.

(* ---------------------------------------------------------------- runs of DATA events *)
Definition data_ev (e : revent) : Prop :=
  match e with EvData c => inw (tsn c) | EvFwd _ _ => False end.

(* did this event insert its chunk into a reassembly queue? *)
Definition accepts (s : rstate) (e : revent) : option Z :=
  match e with
  | EvData c =>
      let s0 := mkR (last_rx s) (misordered s) (duplicates s) (streams s) (rwnd s) true in
      if far_ahead s0 (tsn c) then None
      else if snd (mark_received s0 (tsn c)) then None else Some (tsn c)
  | EvFwd _ _ => None
  end.

Fixpoint accepted (s : rstate) (es : list revent) : list Z :=
  match es with
  | [] => []
  | e :: es' => match accepts s e with Some t => [t] | None => [] end ++ accepted (fst (rstep s e)) es'
  end.

Lemma rstep_data_inv s c : inv s -> inw (tsn c) ->
  inv (fst (rstep s (EvData c))) /\ snd (rstep s (EvData c)) <> OutAssert /\
  (forall a, inw a -> acc s a -> acc (fst (rstep s (EvData c))) a) /\
  (forall t, accepts s (EvData c) = Some t -> ~ acc s t /\ acc (fst (rstep s (EvData c))) t).
Proof.
  intros Hinv Hc.
  destruct (receive_data_inv s c Hinv Hc) as (s' & d & E & Hinv').
  cbn [rstep]. rewrite E. unfold make_sack. cbn [fst snd].
  assert (Hinv2 : inv (mkR (last_rx s') (misordered s') [] (streams s') (rwnd s') false)) by exact Hinv'.
  split; [exact Hinv2|]. split; [discriminate|].
  (* relate s' to s through the definition again *)
  unfold receive_data in E. cbn [accepts].
  set (s0 := mkR (last_rx s) (misordered s) (duplicates s) (streams s) (rwnd s) true) in *.
  assert (H0 : inv s0) by exact Hinv.
  destruct (far_ahead s0 (tsn c)).
  { injection E as <- <-. split; [intros a _ Ha; exact Ha|discriminate]. }
  pose proof (mark_received_inv s0 (tsn c) H0 Hc) as Hm.
  destruct (mark_received s0 (tsn c)) as [s1 dup]. destruct Hm as (Hs & Hd1 & Hd2). cbn [snd].
  destruct dup.
  - injection E as <- <-. destruct (Hd1 eq_refl) as (_ & El & Em).
    split; [|discriminate]. intros a _ Ha. unfold acc in *. cbn [last_rx misordered]. rewrite El, Em. exact Ha.
  - destruct (Hd2 eq_refl) as (Hna & H1 & H2 & H3).
    destruct (add_chunk _ c) as [l|]; [|discriminate].
    destruct (pop_messages l _) as [[l2 seq2] out]. injection E as <- <-.
    split.
    + intros a Ha Hacc. unfold acc. cbn [last_rx misordered]. apply (H3 a Ha). now left.
    + intros t [= <-]. split; [exact Hna|]. unfold acc. cbn [last_rx misordered]. apply (H3 (tsn c) Hc). now right.
Qed.

Lemma accepted_acc : forall es s, inv s -> Forall data_ev es ->
  forall t, In t (accepted s es) -> inw t /\ ~ acc s t.
Proof.
  induction es as [|e es IH]; intros s Hinv Hes t; cbn [accepted]; [intros []|].
  inversion Hes as [|? ? He Hrest]; subst. destruct e as [c|]; [|destruct He]. cbn [data_ev] in He.
  destruct (rstep_data_inv s c Hinv He) as (H1 & _ & H3 & H4).
  rewrite in_app_iff. intros [Hin|Hin].
  - destruct (accepts s (EvData c)) as [t'|] eqn:Ea; [|destruct Hin]. destruct Hin as [<-|[]].
    assert (t' = tsn c).
    { cbn [accepts] in Ea. destruct (far_ahead _ _); [discriminate|]. destruct (snd _); [discriminate|]. now injection Ea. }
    subst. split; [exact He|]. now destruct (H4 _ eq_refl).
  - destruct (IH _ H1 Hrest t Hin) as [Hi Hn]. split; [exact Hi|]. intros Ha. apply Hn. now apply H3.
Qed.

Theorem accepted_nodup : forall es s, inv s -> Forall data_ev es -> NoDup (accepted s es).
Proof.
  induction es as [|e es IH]; intros s Hinv Hes; cbn [accepted]; [constructor|].
  inversion Hes as [|? ? He Hrest]; subst. destruct e as [c|]; [|destruct He]. cbn [data_ev] in He.
  destruct (rstep_data_inv s c Hinv He) as (H1 & _ & H3 & H4).
  destruct (accepts s (EvData c)) as [t|] eqn:Ea; cbn [app]; [|now apply IH].
  constructor; [|now apply IH].
  intros Hin. destruct (accepted_acc es _ H1 Hrest t Hin) as [_ Hn]. apply Hn. now destruct (H4 t eq_refl).
Qed.

Theorem no_assert : forall es s, inv s -> Forall data_ev es ->
  Forall (fun o => o <> OutAssert) (snd (rrun s es)).
Proof.
  induction es as [|e es IH]; intros s Hinv Hes; [constructor|].
  rewrite rrun_cons. cbn [snd]. inversion Hes as [|? ? He Hrest]; subst.
  destruct e as [c|]; [|destruct He]. cbn [data_ev] in He.
  destruct (rstep_data_inv s c Hinv He) as (H1 & H2 & _ & _).
  constructor; [exact H2|now apply IH].
Qed.

Lemma inv_rinit : inv (rinit base).
Proof.
  unfold inv, rinit, all_reasm. cbn. split; [|split; constructor].
  unfold inw, off, r32, M32 in *. split; [exact Hbase|]. lia.
Qed.

End Window.
