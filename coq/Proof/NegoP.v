(* Lemmas about the pure negotiation helpers of Model/Nego.v (layer 1 of C03). *)
From Coq Require Import ZArith List Bool Lia.
From AV Require Import Model.Nego.
Import ListNotations.
Local Open Scope Z_scope.

(* ---- decidable equalities reflect ------------------------------------------ *)
Lemma str_eqb_eq : forall a b, str_eqb a b = true <-> a = b.
Proof.
  induction a as [|x a IH]; destruct b as [|y b]; cbn [str_eqb]; split; intro H; try congruence; try reflexivity.
  - apply andb_true_iff in H. destruct H as [H1 H2]. apply Z.eqb_eq in H1. apply IH in H2. congruence.
  - inversion H; subst. apply andb_true_iff. split; [apply Z.eqb_refl | apply IH; reflexivity].
Qed.

Lemma str_eqb_refl : forall a, str_eqb a a = true.
Proof. intro a. apply str_eqb_eq. reflexivity. Qed.

Lemma str_eqb_sym : forall a b, str_eqb a b = str_eqb b a.
Proof.
  intros a b. destruct (str_eqb a b) eqn:E.
  - apply str_eqb_eq in E. subst. symmetry. apply str_eqb_refl.
  - destruct (str_eqb b a) eqn:E2; [|reflexivity]. apply str_eqb_eq in E2. subst. rewrite str_eqb_refl in E. discriminate.
Qed.

Lemma opt_str_eqb_eq : forall a b, opt_eqb str_eqb a b = true <-> a = b.
Proof.
  intros [a|] [b|]; cbn [opt_eqb]; split; intro H; try congruence; try reflexivity.
  - apply str_eqb_eq in H. congruence.
  - inversion H; subst. apply str_eqb_refl.
Qed.

Lemma fb_eqb_eq : forall a b, fb_eqb a b = true <-> a = b.
Proof.
  intros [a1 a2] [b1 b2]. unfold fb_eqb. cbn [fst snd]. rewrite andb_true_iff, str_eqb_eq, opt_str_eqb_eq.
  split; [intros [-> ->]; reflexivity | intro H; inversion H; auto].
Qed.

Lemma existsb_fb_In : forall x l, existsb (fb_eqb x) l = true <-> In x l.
Proof.
  intros x l. rewrite existsb_exists. split.
  - intros [y [Hy E]]. apply fb_eqb_eq in E. subst. exact Hy.
  - intro H. exists x. split; [exact H | apply fb_eqb_eq; reflexivity].
Qed.

Lemma existsb_Z_In : forall x l, existsb (Z.eqb x) l = true <-> In x l.
Proof.
  intros x l. rewrite existsb_exists. split.
  - intros [y [Hy E]]. apply Z.eqb_eq in E. subst. exact Hy.
  - intro H. exists x. split; [exact H | apply Z.eqb_refl].
Qed.

(* ---- sub-lists ---------------------------------------------------------------- *)
Inductive sublist {T} : list T -> list T -> Prop :=
| sub_nil : forall l, sublist [] l
| sub_skip : forall x l1 l2, sublist l1 l2 -> sublist l1 (x :: l2)
| sub_take : forall x l1 l2, sublist l1 l2 -> sublist (x :: l1) (x :: l2).

Lemma sublist_In : forall T (l1 l2 : list T), sublist l1 l2 -> forall x, In x l1 -> In x l2.
Proof.
  induction 1 as [l|x l1 l2 H IH|x l1 l2 H IH]; intros y Hy.
  - destruct Hy.
  - right. apply IH. exact Hy.
  - destruct Hy as [->|Hy]; [left; reflexivity | right; apply IH; exact Hy].
Qed.

Lemma sublist_refl : forall T (l : list T), sublist l l.
Proof. induction l; constructor; assumption. Qed.

(* ---- directions ------------------------------------------------------------------ *)
Lemma reverse_involution : forall d, reverse_direction (reverse_direction d) = d.
Proof. intros []; reflexivity. Qed.

Lemma and_direction_total : forall a b, exists d, and_direction (Some a) (Some b) = Ok d.
Proof. intros [] []; eexists; reflexivity. Qed.

Lemma or_direction_total : forall a b, exists d, or_direction (Some a) (Some b) = Ok d.
Proof. intros [] []; eexists; reflexivity. Qed.

Lemma and_direction_none : forall a, and_direction a None = ValueErr.
Proof. intros [a|]; reflexivity. Qed.

(* what a direction means *)
Definition sends (d : dir) : bool := match d with SendOnly | SendRecv => true | _ => false end.
Definition recvs (d : dir) : bool := match d with RecvOnly | SendRecv => true | _ => false end.

Lemma and_direction_spec : forall a b d, and_direction (Some a) (Some b) = Ok d ->
  sends d = sends a && sends b /\ recvs d = recvs a && recvs b.
Proof. intros [] [] d H; inversion H; subst; split; reflexivity. Qed.

Lemma or_direction_spec : forall a b d, or_direction (Some a) (Some b) = Ok d ->
  sends d = sends a || sends b /\ recvs d = recvs a || recvs b.
Proof. intros [] [] d H; inversion H; subst; split; reflexivity. Qed.

Lemma reverse_direction_spec : forall d, sends (reverse_direction d) = recvs d /\ recvs (reverse_direction d) = sends d.
Proof. intros []; split; reflexivity. Qed.

(* reverse is a homomorphism for and_direction: the complementary-direction law *)
Lemma reverse_and : forall a b d, and_direction (Some a) (Some b) = Ok d ->
  and_direction (Some (reverse_direction a)) (Some (reverse_direction b)) = Ok (reverse_direction d).
Proof. intros [] [] d H; inversion H; subst; reflexivity. Qed.

(* offerer direction a, answerer direction b: the answerer ends with and(b, reverse a), the
   offerer with the reverse of that, which is and(a, reverse b) *)
Lemma complementary_directions : forall a b d,
  and_direction (Some b) (Some (reverse_direction a)) = Ok d ->
  and_direction (Some a) (Some (reverse_direction b)) = Ok (reverse_direction d).
Proof. intros [] [] d H; inversion H; subst; reflexivity. Qed.

(* ---- allocate_mid --------------------------------------------------------------------- *)
Lemma alloc_from_spec : forall fuel i mids m, alloc_from fuel i mids = Ok m ->
  ~ In m mids /\ i <= m /\ forall j, i <= j < m -> In j mids.
Proof.
  induction fuel as [|f IH]; intros i mids m H; cbn [alloc_from] in H; [discriminate|].
  destruct (existsb (Z.eqb i) mids) eqn:E.
  - apply IH in H. destruct H as [H1 [H2 H3]]. split; [exact H1|]. split; [lia|].
    intros j Hj. destruct (Z.eq_dec j i) as [->|Hne]; [apply existsb_Z_In; exact E | apply H3; lia].
  - inversion H; subst. split.
    + intro Hin. apply existsb_Z_In in Hin. congruence.
    + split; [lia | intros j Hj; lia].
Qed.

(* pigeon-hole: the loop `while True` of allocate_mid ends within len(mids)+1 rounds *)
Lemma remove_length_lt : forall (x : Z) l, In x l -> (length (remove Z.eq_dec x l) < length l)%nat.
Proof.
  induction l as [|y l IH]; intro H; [destruct H|].
  cbn [remove]. destruct (Z.eq_dec x y) as [->|Hne].
  - cbn [length]. pose proof (remove_length_le Z.eq_dec l y). lia.
  - cbn [length]. destruct H as [->|H]; [congruence|]. apply IH in H. lia.
Qed.

Lemma alloc_from_fuel : forall fuel i mids, (length mids < fuel)%nat ->
  exists m, alloc_from fuel i mids = Ok m.
Proof.
  induction fuel as [|f IH]; intros i mids Hlen; [lia|].
  cbn [alloc_from]. destruct (existsb (Z.eqb i) mids) eqn:E; [|eexists; reflexivity].
  apply existsb_Z_In in E.
  assert (Hgen : forall fuel j l1 l2, (forall x, j <= x -> (In x l1 <-> In x l2)) -> alloc_from fuel j l1 = alloc_from fuel j l2).
  { clear. induction fuel as [|f IH]; intros j l1 l2 H; [reflexivity|]. cbn [alloc_from].
    assert (E : existsb (Z.eqb j) l1 = existsb (Z.eqb j) l2).
    { destruct (existsb (Z.eqb j) l1) eqn:E1; destruct (existsb (Z.eqb j) l2) eqn:E2; try reflexivity.
      - apply existsb_Z_In in E1. apply H in E1; [|lia]. apply existsb_Z_In in E1. congruence.
      - apply existsb_Z_In in E2. apply H in E2; [|lia]. apply existsb_Z_In in E2. congruence. }
    rewrite E. destruct (existsb (Z.eqb j) l2); [|reflexivity]. apply IH. intros x Hx. apply H. lia. }
  rewrite (Hgen f (i + 1) mids (remove Z.eq_dec i mids)).
  - apply IH. pose proof (remove_length_lt i mids E). lia.
  - intros x Hx. split.
    + intro Hin. apply in_in_remove; [lia | exact Hin].
    + intro Hin. apply in_remove in Hin. tauto.
Qed.

Lemma allocate_mid_ok : forall mids, exists m, allocate_mid mids = Ok m.
Proof. intro mids. apply alloc_from_fuel. lia. Qed.

Lemma allocate_mid_fresh : forall mids m, allocate_mid mids = Ok m -> ~ In m mids /\ 0 <= m.
Proof. intros mids m H. apply alloc_from_spec in H. tauto. Qed.

(* ---- is_codec_compatible ---------------------------------------------------------------- *)
Lemma catch_value_true : forall r, catch_value r = Ok true -> r = Ok true.
Proof. intros [b| | |] H; cbn in H; congruence. Qed.

Lemma compatible_same_mime : forall a b, is_codec_compatible a b = Ok true ->
  lower (c_kind a) = lower (c_kind b) /\ lower (c_name a) = lower (c_name b) /\ c_clock a = c_clock b.
Proof.
  intros a b H. unfold is_codec_compatible in H.
  destruct (negb (mime_eqb (c_kind a) (c_name a) (c_kind b) (c_name b)) || negb (c_clock a =? c_clock b)) eqn:E; [discriminate|].
  apply orb_false_iff in E. destruct E as [E1 E2].
  apply negb_false_iff in E1. apply negb_false_iff in E2.
  unfold mime_eqb in E1. apply andb_true_iff in E1. destruct E1 as [E1 E3].
  apply str_eqb_eq in E1. apply str_eqb_eq in E3. apply Z.eqb_eq in E2. auto.
Qed.

Lemma compatible_same_rtx : forall a b, is_codec_compatible a b = Ok true -> is_rtx a = is_rtx b.
Proof. intros a b H. apply compatible_same_mime in H. destruct H as [_ [H _]]. unfold is_rtx. rewrite H. reflexivity. Qed.

(* ---- find_common_codecs ------------------------------------------------------------------- *)
Lemma first_compat_some : forall local c l, first_compat local c = Ok (Some l) ->
  In l local /\ is_codec_compatible l c = Ok true.
Proof.
  induction local as [|x local IH]; intros c l H; cbn [first_compat] in H; [discriminate|].
  destruct (is_codec_compatible x c) as [b| | |] eqn:E; cbn [bind] in H; try discriminate.
  destruct b.
  - inversion H; subst. split; [left; reflexivity | exact E].
  - apply IH in H. destruct H as [H1 H2]. split; [right; exact H1 | exact H2].
Qed.

(* how an accepted codec r relates to the offered codec c it was accepted for *)
Definition accepted (local : list codec) (r c : codec) : Prop :=
  (is_rtx c = true /\ r = c) \/
  (is_rtx c = false /\ exists l, In l local /\ is_codec_compatible l c = Ok true /\ r = adapt l c).

Lemma fcc_loop_sublist : forall local remote base res,
  fcc_loop local remote base = Ok res ->
  exists sel, sublist sel remote /\ Forall2 (accepted local) res sel.
Proof.
  induction remote as [|c rs IH]; intros base res H; cbn [fcc_loop] in H.
  - inversion H; subst. exists []. split; constructor.
  - destruct (is_rtx c) eqn:Ertx.
    + destruct (pget (c_params c) key_apt) as [[apt|s|]|] eqn:Eapt;
        try (apply IH in H; destruct H as [sel [H1 H2]]; exists sel; split; [constructor; exact H1 | exact H2]).
      destruct (base_get base apt) as [b|] eqn:Eb;
        [|apply IH in H; destruct H as [sel [H1 H2]]; exists sel; split; [constructor; exact H1 | exact H2]].
      destruct (fcc_loop local rs base) as [rest| | |] eqn:Erest; cbn [bind] in H; try discriminate.
      destruct (IH base rest Erest) as [sel [H1 H2]].
      destruct (c_clock c =? c_clock b); inversion H; subst.
      * exists (c :: sel). split; [constructor; exact H1|]. constructor; [left; split; [exact Ertx | reflexivity] | exact H2].
      * exists sel. split; [constructor; exact H1 | exact H2].
    + destruct (first_compat local c) as [o| | |] eqn:Efc; cbn [bind] in H; try discriminate.
      destruct o as [l|].
      * destruct (fcc_loop local rs ((c_pt (adapt l c), adapt l c) :: base)) as [rest| | |] eqn:Erest; cbn [bind] in H; try discriminate.
        inversion H; subst. destruct (IH _ _ Erest) as [sel [H1 H2]].
        apply first_compat_some in Efc. destruct Efc as [Hin Hc].
        exists (c :: sel). split; [constructor; exact H1|].
        constructor; [|exact H2]. right. split; [exact Ertx|]. exists l. auto.
      * apply IH in H. destruct H as [sel [H1 H2]]. exists sel. split; [constructor; exact H1 | exact H2].
Qed.

Lemma find_common_codecs_sublist : forall local remote res,
  find_common_codecs local remote = Ok res ->
  exists sel, sublist sel remote /\ Forall2 (accepted local) res sel.
Proof. intros local remote res H. exact (fcc_loop_sublist local remote [] res H). Qed.

(* consequences of `accepted` *)
Lemma accepted_facts : forall local r c, accepted local r c ->
  lower (c_kind r) = lower (c_kind c) /\ lower (c_name r) = lower (c_name c) /\ c_clock r = c_clock c /\
  is_rtx r = is_rtx c /\
  (dynamic_pt (c_pt c) = true -> c_pt r = c_pt c) /\
  (forall f, In f (c_fb r) -> In f (c_fb c)).
Proof.
  intros local r c [[H1 ->]|[H1 [l [Hin [Hc ->]]]]].
  - repeat split; auto.
  - pose proof (compatible_same_mime _ _ Hc) as [Hk [Hn Hcl]].
    split; [exact Hk|]. split; [exact Hn|]. split; [exact Hcl|].
    split; [unfold is_rtx; cbn [adapt c_name]; rewrite Hn; reflexivity|].
    split.
    + intro Hd. cbn [adapt c_pt]. rewrite Hd. reflexivity.
    + intros f Hf. cbn [adapt c_fb] in Hf. apply filter_In in Hf. destruct Hf as [_ Hf]. apply existsb_fb_In in Hf. exact Hf.
Qed.

Lemma accepted_not_rtx_local : forall local r c, accepted local r c -> is_rtx c = false ->
  exists l, In l local /\ c_kind r = c_kind l /\ c_name r = c_name l /\ c_clock r = c_clock l /\
            c_channels r = c_channels l /\ c_params r = c_params l /\
            c_pt r = (if dynamic_pt (c_pt c) then c_pt c else c_pt l) /\
            (forall f, In f (c_fb r) -> In f (c_fb l)).
Proof.
  intros local r c [[H1 _]|[_ [l [Hin [Hc ->]]]]] Hn; [congruence|].
  exists l. cbn [adapt c_kind c_name c_clock c_pt c_fb c_channels c_params]. repeat split; auto.
  intros f Hf. apply filter_In in Hf. tauto.
Qed.

(* RTX is kept only behind an accepted base codec it names, with equal clock rate *)
Lemma fcc_loop_rtx : forall local remote base res,
  fcc_loop local remote base = Ok res ->
  forall pre,
    (forall apt b, base_get base apt = Some b -> In b pre /\ is_rtx b = false /\ c_pt b = apt) ->
    forall p1 r p2, res = p1 ++ r :: p2 -> is_rtx r = true ->
    exists apt b, pget (c_params r) key_apt = Some (PInt apt) /\ In b (pre ++ p1) /\ is_rtx b = false /\
                  c_pt b = apt /\ c_clock b = c_clock r.
Proof.
  induction remote as [|c rs IH]; intros base res H pre Hbase p1 r p2 Hres Hr; cbn [fcc_loop] in H.
  - inversion H; subst. destruct p1; discriminate.
  - destruct (is_rtx c) eqn:Ertx.
    + destruct (pget (c_params c) key_apt) as [[apt|s|]|] eqn:Eapt;
        try (exact (IH base res H pre Hbase p1 r p2 Hres Hr)).
      destruct (base_get base apt) as [b|] eqn:Eb; [|exact (IH base res H pre Hbase p1 r p2 Hres Hr)].
      destruct (fcc_loop local rs base) as [rest| | |] eqn:Erest; cbn [bind] in H; try discriminate.
      destruct (c_clock c =? c_clock b) eqn:Eclk; inversion H as [Hinv]; clear H; rewrite <- Hinv in Hres; clear Hinv res.
      * destruct p1 as [|x p1].
        -- cbn [app] in Hres. inversion Hres; subst r p2. exists apt, b.
           destruct (Hbase apt b Eb) as [Hin [Hnr Hpt]]. apply Z.eqb_eq in Eclk.
           rewrite app_nil_r. repeat split; auto.
        -- cbn [app] in Hres. inversion Hres; subst x rest.
           destruct (IH base _ Erest (pre ++ [c])) with (p1 := p1) (r := r) (p2 := p2) as [apt' [b' [G1 [G2 [G3 [G4 G5]]]]]]; auto.
           { intros a0 b0 Hb0. destruct (Hbase a0 b0 Hb0) as [Q1 [Q2 Q3]]. split; [apply in_or_app; left; exact Q1 | auto]. }
           exists apt', b'. rewrite <- app_assoc in G2. cbn [app] in G2. repeat split; auto.
      * exact (IH base rest Erest pre Hbase p1 r p2 Hres Hr).
    + destruct (first_compat local c) as [o| | |] eqn:Efc; cbn [bind] in H; try discriminate.
      destruct o as [l|]; [|exact (IH base res H pre Hbase p1 r p2 Hres Hr)].
      destruct (fcc_loop local rs ((c_pt (adapt l c), adapt l c) :: base)) as [rest| | |] eqn:Erest; cbn [bind] in H; try discriminate.
      inversion H as [Hinv]; clear H; rewrite <- Hinv in Hres; clear Hinv res.
      apply first_compat_some in Efc. destruct Efc as [Hin Hc].
      assert (Hx : is_rtx (adapt l c) = false).
      { unfold is_rtx. cbn [adapt c_name]. pose proof (compatible_same_rtx _ _ Hc) as E. unfold is_rtx in E. rewrite E. exact Ertx. }
      destruct p1 as [|x p1].
      * cbn [app] in Hres. inversion Hres; subst. congruence.
      * cbn [app] in Hres. inversion Hres; subst x rest.
        destruct (IH _ _ Erest (pre ++ [adapt l c])) with (p1 := p1) (r := r) (p2 := p2) as [apt' [b' [G1 [G2 [G3 [G4 G5]]]]]]; auto.
        { intros a0 b0 Hb0. cbn [base_get] in Hb0. destruct (a0 =? c_pt (adapt l c)) eqn:Ea.
          - inversion Hb0; subst b0. apply Z.eqb_eq in Ea. split; [apply in_or_app; right; left; reflexivity | auto].
          - destruct (Hbase a0 b0 Hb0) as [Q1 [Q2 Q3]]. split; [apply in_or_app; left; exact Q1 | auto]. }
        exists apt', b'. rewrite <- app_assoc in G2. cbn [app] in G2. repeat split; auto.
Qed.

Lemma find_common_codecs_rtx : forall local remote res,
  find_common_codecs local remote = Ok res ->
  forall p1 r p2, res = p1 ++ r :: p2 -> is_rtx r = true ->
  exists apt b, pget (c_params r) key_apt = Some (PInt apt) /\ In b p1 /\ is_rtx b = false /\
                c_pt b = apt /\ c_clock b = c_clock r.
Proof.
  intros local remote res H p1 r p2 Hres Hr.
  destruct (fcc_loop_rtx local remote [] res H []) with (p1 := p1) (r := r) (p2 := p2) as [apt [b G]]; auto.
  - intros apt b Hb. discriminate.
  - exists apt, b. exact G.
Qed.

(* ---- find_common_header_extensions ------------------------------------------------------------ *)
Lemma common_ext_in : forall local remote x, In x (find_common_header_extensions local remote) ->
  In x remote /\ exists l, In l local /\ x_uri l = x_uri x.
Proof.
  intros local remote x H. unfold find_common_header_extensions in H.
  apply in_flat_map in H. destruct H as [rx [Hrx H]]. apply in_map_iff in H. destruct H as [lx [E H]]. subst x.
  apply filter_In in H. destruct H as [Hl Hu]. apply str_eqb_eq in Hu. split; [exact Hrx | exists lx; auto].
Qed.

Lemma common_ext_complete : forall local remote x l, In x remote -> In l local -> x_uri l = x_uri x ->
  In x (find_common_header_extensions local remote).
Proof.
  intros local remote x l Hx Hl Hu. unfold find_common_header_extensions. apply in_flat_map.
  exists x. split; [exact Hx|]. apply in_map_iff. exists l. split; [reflexivity|].
  apply filter_In. split; [exact Hl | apply str_eqb_eq; exact Hu].
Qed.

(* with distinct local uris the result is a sub-list of the remote list in remote order *)
Lemma filter_uri_at_most_one : forall local u,
  NoDup (map x_uri local) -> (length (filter (fun lx => str_eqb (x_uri lx) u) local) <= 1)%nat.
Proof.
  induction local as [|l local IH]; intros u Hnd; cbn [filter length]; [lia|].
  inversion Hnd as [|? ? Hnin Hnd']; subst. cbn [map] in *.
  destruct (str_eqb (x_uri l) u) eqn:E.
  - apply str_eqb_eq in E. subst u. cbn [length].
    assert (Hz : filter (fun lx => str_eqb (x_uri lx) (x_uri l)) local = []).
    { destruct (filter (fun lx => str_eqb (x_uri lx) (x_uri l)) local) as [|y ys] eqn:Ef; [reflexivity|].
      assert (Hy : In y (filter (fun lx => str_eqb (x_uri lx) (x_uri l)) local)) by (rewrite Ef; left; reflexivity).
      apply filter_In in Hy. destruct Hy as [Hy1 Hy2]. apply str_eqb_eq in Hy2.
      exfalso. apply Hnin. rewrite <- Hy2. apply in_map. exact Hy1. }
    rewrite Hz. cbn [length]. lia.
  - apply IH. exact Hnd'.
Qed.

Lemma common_ext_sublist : forall local remote, NoDup (map x_uri local) ->
  sublist (find_common_header_extensions local remote) remote.
Proof.
  intros local remote Hnd. induction remote as [|rx remote IH]; [constructor|].
  unfold find_common_header_extensions in *. cbn [flat_map].
  pose proof (filter_uri_at_most_one local (x_uri rx) Hnd) as Hlen.
  destruct (filter (fun lx => str_eqb (x_uri lx) (x_uri rx)) local) as [|y [|z ys]]; cbn [map app length] in *.
  - apply sub_skip. exact IH.
  - apply sub_take. exact IH.
  - lia.
Qed.

(* ---- filter_preferred_codecs ---------------------------------------------------------------------- *)
Lemma find_pref_some : forall codecs p c, find_pref codecs p = Some c -> In c codecs /\ cap_matches c p = true.
Proof.
  induction codecs as [|x codecs IH]; intros p c H; cbn [find_pref] in H; [discriminate|].
  destruct (cap_matches x p) eqn:E.
  - inversion H; subst. split; [left; reflexivity | exact E].
  - apply IH in H. destruct H. split; [right; assumption | assumption].
Qed.

Lemma find_rtx_some : forall rtxs pt r, find_rtx rtxs pt = Ok (Some r) ->
  In r rtxs /\ pget (c_params r) key_apt = Some (PInt pt).
Proof.
  induction rtxs as [|x rtxs IH]; intros pt r H; cbn [find_rtx] in H; [discriminate|].
  destruct (pget (c_params x) key_apt) as [v|] eqn:E; [|discriminate].
  destruct (pval_eqb v (PInt pt)) eqn:Ev.
  - inversion H; subst. split; [left; reflexivity|]. rewrite E. f_equal.
    destruct v as [z|s|]; cbn [pval_eqb] in Ev; try discriminate. apply Z.eqb_eq in Ev. subst. reflexivity.
  - apply IH in H. destruct H. split; [right; assumption | assumption].
Qed.

(* the shape of the result: one block per satisfiable real preference, in preference order; a block is
   the matching codec, optionally followed by the RTX codec whose apt is that codec's payload type *)
Inductive pref_blocks (codecs : list codec) : list cap -> list codec -> Prop :=
| pb_nil : pref_blocks codecs [] []
| pb_skip : forall p ps res, pref_blocks codecs ps res -> pref_blocks codecs (p :: ps) res
| pb_one : forall p ps c res, cap_is_rtx p = false -> In c codecs -> cap_matches c p = true ->
                              pref_blocks codecs ps res -> pref_blocks codecs (p :: ps) (c :: res)
| pb_two : forall p ps c r res, cap_is_rtx p = false -> In c codecs -> cap_matches c p = true ->
                                In r codecs -> is_rtx r = true -> pget (c_params r) key_apt = Some (PInt (c_pt c)) ->
                                pref_blocks codecs ps res -> pref_blocks codecs (p :: ps) (c :: r :: res).

Lemma fpc_loop_blocks : forall codecs en prefs res,
  fpc_loop codecs (filter is_rtx codecs) en prefs = Ok res -> pref_blocks codecs prefs res.
Proof.
  intros codecs en. induction prefs as [|p ps IH]; intros res H; cbn [fpc_loop] in H.
  - inversion H; subst. constructor.
  - destruct (cap_is_rtx p) eqn:Ep; [apply pb_skip; apply IH; exact H|].
    destruct (find_pref codecs p) as [c|] eqn:Ef; [|apply pb_skip; apply IH; exact H].
    apply find_pref_some in Ef. destruct Ef as [Hin Hm].
    destruct (if en then find_rtx (filter is_rtx codecs) (c_pt c) else Ok None) as [o| | |] eqn:Er; cbn [bind] in H; try discriminate.
    destruct (fpc_loop codecs (filter is_rtx codecs) en ps) as [rest| | |] eqn:Erest; cbn [bind] in H; try discriminate.
    inversion H; subst res; clear H. specialize (IH rest eq_refl).
    destruct o as [r|]; cbn [opt_list app].
    + destruct en; [|discriminate]. apply find_rtx_some in Er. destruct Er as [Hr Hapt].
      apply filter_In in Hr. destruct Hr as [Hr1 Hr2]. apply pb_two; auto.
    + apply pb_one; auto.
Qed.

Lemma filter_preferred_empty : forall codecs, filter_preferred_codecs codecs [] = Ok codecs.
Proof. reflexivity. Qed.

Lemma filter_preferred_blocks : forall codecs prefs res, prefs <> [] ->
  filter_preferred_codecs codecs prefs = Ok res -> pref_blocks codecs prefs res.
Proof.
  intros codecs prefs res Hne H. destruct prefs as [|p ps]; [congruence|].
  unfold filter_preferred_codecs in H. eapply fpc_loop_blocks. exact H.
Qed.

Lemma pref_blocks_incl : forall codecs prefs res, pref_blocks codecs prefs res -> incl res codecs.
Proof.
  induction 1; intros x Hx.
  - destruct Hx.
  - auto.
  - destruct Hx as [->|Hx]; auto.
  - destruct Hx as [->|[->|Hx]]; auto.
Qed.

Lemma filter_preferred_incl : forall codecs prefs res, filter_preferred_codecs codecs prefs = Ok res -> incl res codecs.
Proof.
  intros codecs prefs res H. destruct prefs as [|p ps].
  - inversion H; subst. apply incl_refl.
  - apply (pref_blocks_incl codecs (p :: ps)). apply filter_preferred_blocks; [discriminate | exact H].
Qed.

Lemma cap_matches_not_rtx : forall c p, cap_matches c p = true -> cap_is_rtx p = false -> is_rtx c = false.
Proof.
  intros c p H Hp. unfold cap_matches, mime_eqb in H. apply andb_true_iff in H. destruct H as [H _].
  apply andb_true_iff in H. destruct H as [_ H]. apply str_eqb_eq in H. unfold is_rtx, cap_is_rtx in *. rewrite H. exact Hp.
Qed.

(* every real codec of the result satisfies some real preference; an RTX codec directly follows its base *)
Lemma pref_blocks_rtx_follows : forall codecs prefs res, pref_blocks codecs prefs res ->
  forall p1 r p2, res = p1 ++ r :: p2 -> is_rtx r = true ->
  exists p0 c, p1 = p0 ++ [c] /\ is_rtx c = false /\ pget (c_params r) key_apt = Some (PInt (c_pt c)).
Proof.
  induction 1 as [|p ps res Hb IH|p ps c res Hp Hin Hm Hb IH|p ps c r0 res Hp Hin Hm Hr0 Hrtx Hapt Hb IH];
    intros p1 r p2 Hres Hr.
  - destruct p1; discriminate.
  - eapply IH; eauto.
  - pose proof (cap_matches_not_rtx _ _ Hm Hp) as Hc.
    destruct p1 as [|x p1]; cbn [app] in Hres; injection Hres as E1 E2.
    + rewrite E1 in Hc. congruence.
    + destruct (IH p1 r p2 E2 Hr) as [p0 [c0 [E [G1 G2]]]]. exists (c :: p0), c0.
      rewrite E, <- E1. auto.
  - pose proof (cap_matches_not_rtx _ _ Hm Hp) as Hc.
    destruct p1 as [|x p1]; cbn [app] in Hres; injection Hres as E1 E2.
    + rewrite E1 in Hc. congruence.
    + destruct p1 as [|y p1]; cbn [app] in E2; injection E2 as E2 E3.
      * exists [], c. rewrite <- E1, <- E2. auto.
      * destruct (IH p1 r p2 E3 Hr) as [p0 [c0 [E [G1 G2]]]].
        exists (c :: r0 :: p0), c0. rewrite E, <- E1, <- E2. auto.
Qed.

Lemma pref_blocks_real_preferred : forall codecs prefs res, pref_blocks codecs prefs res ->
  forall c, In c res -> is_rtx c = false -> exists p, In p prefs /\ cap_is_rtx p = false /\ cap_matches c p = true.
Proof.
  induction 1 as [|p ps res Hb IH|p ps c res Hp Hin Hm Hb IH|p ps c r0 res Hp Hin Hm Hr0 Hrtx Hapt Hb IH];
    intros x Hx Hn.
  - destruct Hx.
  - destruct (IH x Hx Hn) as [q [Q1 Q2]]. exists q. split; [right; exact Q1 | exact Q2].
  - destruct Hx as [->|Hx].
    + exists p. split; [left; reflexivity | auto].
    + destruct (IH x Hx Hn) as [q [Q1 Q2]]. exists q. split; [right; exact Q1 | exact Q2].
  - destruct Hx as [->|[->|Hx]].
    + exists p. split; [left; reflexivity | auto].
    + congruence.
    + destruct (IH x Hx Hn) as [q [Q1 Q2]]. exists q. split; [right; exact Q1 | exact Q2].
Qed.
