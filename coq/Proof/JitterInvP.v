(* Proofs about Model/Jitter.v, part 2: the ring invariant, "never raises",
   frame integrity and PLI-on-discard, proved on the window-level buffer of
   JitterP.v and transported to the model through `run_refines`. *)
From Coq Require Import ZArith List Bool Lia.
From AV Require Import Lib.Sx Lib.Bytes Gen.Utils Gen.JbConst Model.Jitter Proof.JitterP.
Import ListNotations.
Local Open Scope Z_scope.

(* ---------------------------------------------------------------- w_set *)
Lemma w_set_length w k x : length (w_set w k x) = length w.
Proof.
  unfold w_set. destruct (set_nth w k x) as [w'|] eqn:E; [|reflexivity].
  eapply set_nth_length. exact E.
Qed.

Lemma w_set_nth w k x j :
  nth_error (w_set w k x) j =
  if (Nat.eqb j k && Nat.ltb k (length w))%bool then Some x else nth_error w j.
Proof.
  unfold w_set. destruct (Nat.ltb_spec k (length w)) as [Hk|Hk].
  - destruct (set_nth_some w k x Hk) as [w' E]. rewrite E.
    destruct (Nat.eqb_spec j k) as [->|Hne]; cbn [andb].
    + eapply set_nth_same. exact E.
    + eapply set_nth_other; [exact E|exact Hne].
  - rewrite andb_false_r. destruct (set_nth w k x) as [w'|] eqn:E; [|reflexivity].
    apply set_nth_lt in E. lia.
Qed.

(* ---------------------------------------------------------------- the invariant on windows *)
(* every packet in the window sits at its distance from the origin and has been received *)
Definition Good (H : list pkt) (o : Z) (w : W) : Prop :=
  forall k q, nth_error w k = Some (Some q) -> pseq q = uint16_add o (Z.of_nat k) /\ In q H.

Definition AInv (H : list pkt) (a : jb) : Prop :=
  length (slots a) = Z.to_nat (cap a) /\
  match origin a with
  | None => slots a = repeat None (Z.to_nat (cap a))
  | Some o => 0 <= o < 65536 /\ Good H o (slots a)
  end.

Lemma Good_repeat H o n : Good H o (repeat None n).
Proof.
  intros k q E. apply nth_error_In in E. apply repeat_spec in E. discriminate.
Qed.

Lemma Good_mono H H' o w : incl H H' -> Good H o w -> Good H' o w.
Proof. intros Hi G k q E. destruct (G k q E) as [E1 E2]. split; [exact E1|apply Hi; exact E2]. Qed.

Lemma Good_remove H o w b : (b <= length w)%nat -> Good H o w ->
  Good H (uint16_add o (Z.of_nat b)) (w_remove w b).
Proof.
  intros Hb G k q E. assert (Hk : (k < length w)%nat).
  { apply nth_error_some_lt in E. rewrite w_remove_length in E by exact Hb. exact E. }
  rewrite w_remove_nth in E by lia. destruct (Nat.ltb_spec (k + b) (length w)) as [H1|H1]; [|discriminate].
  destruct (G _ _ E) as [E1 E2]. split; [|exact E2]. rewrite E1, uint16_add_add. f_equal. lia.
Qed.

Lemma Good_set H o w p : seq16 p -> Good H o w ->
  Good (p :: H) o (w_set w (Z.to_nat (uint16_add (pseq p) (- o))) (Some p)).
Proof.
  intros Hp G k q E. rewrite w_set_nth in E.
  destruct (Nat.eqb_spec k (Z.to_nat (uint16_add (pseq p) (- o)))) as [Ek|Ek]; cbn [andb] in E.
  - destruct (Nat.ltb (Z.to_nat (uint16_add (pseq p) (- o))) (length w)).
    + injection E as <-. split; [|left; reflexivity]. subst k.
      pose proof (uint16_add_range (pseq p) (- o)). rewrite Z2Nat.id by lia.
      symmetry. apply uint16_delta_back. exact Hp.
    + destruct (G _ _ E) as [E1 E2]. split; [exact E1|right; exact E2].
  - destruct (G _ _ E) as [E1 E2]. split; [exact E1|right; exact E2].
Qed.

(* ---------------------------------------------------------------- what a released frame is *)
Definition frame_of (ps : list pkt) (f : frame) : Prop :=
  ps <> [] /\ Forall (fun q => pts q = fts f) ps /\ fdata f = concat (map pdata ps).

(* consecutive sequence numbers modulo 2^16 *)
Fixpoint consec (ps : list pkt) : Prop :=
  match ps with
  | a :: (b :: _) as t => pseq b = uint16_add (pseq a) 1 /\ consec t
  | _ => True
  end.

Definition rf_done (w0 : W) (f : frame) (r : Z) : Prop :=
  exists ps, frame_of ps f /\ firstn (Z.to_nat r) w0 = map Some ps /\ r = Z.of_nat (length ps) /\
             exists q, nth_error w0 (Z.to_nat r) = Some (Some q) /\ pts q <> fts f.

Lemma w_rf_spec w : forall w0 pre count pf fr frames packets rem tsv f r,
  w0 = pre ++ w -> count = Z.of_nat (length pre) ->
  match fr with
  | None => pre = map Some packets /\
            match tsv with
            | None => packets = []
            | Some t => packets <> [] /\ Forall (fun q => pts q = t) packets
            end
  | Some f0 => rf_done w0 f0 rem
  end ->
  w_rf w count pf fr frames packets rem tsv = Some (f, r) -> rf_done w0 f r.
Proof.
  induction w as [|h t IH]; intros w0 pre count pf fr frames packets rem tsv f r Hw0 Hcount Hinv H;
    cbn [w_rf] in H; [discriminate|].
  destruct h as [p|]; [|discriminate].
  assert (Hw0' : w0 = (pre ++ [Some p]) ++ t) by (rewrite <- app_assoc; exact Hw0).
  assert (Hcount' : count + 1 = Z.of_nat (length (pre ++ [Some p]))).
  { rewrite app_length. cbn [length]. lia. }
  destruct fr as [f0|].
  - (* the first frame is already fixed; it is returned unchanged *)
    assert (Hdone : forall frames' packets' tsv',
              w_rf t (count + 1) pf (Some f0) frames' packets' rem tsv' = Some (f, r) -> rf_done w0 f r).
    { intros frames' packets' tsv' H'.
      eapply (IH w0 (pre ++ [Some p]) (count + 1) pf (Some f0)); [exact Hw0'|exact Hcount'|exact Hinv|exact H']. }
    destruct tsv as [ts|].
    + destruct (negb (pts p =? ts)).
      * destruct (frames + 1 >=? pf).
        -- injection H as <- <-. exact Hinv.
        -- eapply Hdone. exact H.
      * eapply Hdone. exact H.
    + eapply Hdone. exact H.
  - destruct Hinv as [Hpre Hts].
    assert (Hpre' : pre ++ [Some p] = map Some (packets ++ [p])).
    { rewrite map_app, Hpre. reflexivity. }
    destruct tsv as [ts|].
    + destruct Hts as [Hne Hall].
      destruct (Z.eqb_spec (pts p) ts) as [Ets|Ets]; cbn [negb] in H.
      * (* same frame continues *)
        eapply (IH w0 (pre ++ [Some p]) (count + 1) pf None); [exact Hw0'|exact Hcount'| |exact H].
        split; [exact Hpre'|]. split; [destruct packets; discriminate|].
        apply Forall_app. split; [exact Hall|]. constructor; [exact Ets|constructor].
      * (* timestamp change: the first frame is complete *)
        assert (Hd : rf_done w0 (mkFrame ts (concat (map pdata packets))) count).
        { exists packets. split; [|split; [|split]].
          - split; [exact Hne|]. split; [exact Hall|reflexivity].
          - rewrite Hw0, Hcount, Nat2Z.id. rewrite firstn_app, Nat.sub_diag, firstn_all.
            cbn [firstn]. rewrite app_nil_r. exact Hpre.
          - rewrite Hcount, Hpre, map_length. reflexivity.
          - exists p. split; [|exact Ets]. rewrite Hw0, Hcount, Nat2Z.id.
            rewrite nth_error_app2, Nat.sub_diag by lia. reflexivity. }
        destruct (frames + 1 >=? pf).
        -- injection H as <- <-. exact Hd.
        -- eapply (IH w0 (pre ++ [Some p]) (count + 1) pf (Some _)); [exact Hw0'|exact Hcount'|exact Hd|exact H].
    + subst packets.
      eapply (IH w0 (pre ++ [Some p]) (count + 1) pf None); [exact Hw0'|exact Hcount'| |exact H].
      split; [exact Hpre'|]. split; [discriminate|]. constructor; [reflexivity|constructor].
Qed.

Lemma w_frame_spec w pf f r : w_frame w pf = Some (f, r) -> rf_done w f r.
Proof.
  unfold w_frame. intros H.
  apply (w_rf_spec w w [] 0 pf None 0 [] 0 None f r); [reflexivity|reflexivity| |exact H].
  split; reflexivity.
Qed.

Lemma nth_error_firstn' {A} (l : list A) n j : (j < n)%nat -> nth_error (firstn n l) j = nth_error l j.
Proof.
  revert l j. induction n as [|n IH]; intros l j Hj; [lia|].
  destruct l as [|h t]; [destruct j; reflexivity|].
  destruct j as [|j]; [reflexivity|]. cbn [firstn nth_error]. apply IH. lia.
Qed.

Lemma consec_of_run o ps :
  (forall j q, nth_error ps j = Some q -> pseq q = uint16_add o (Z.of_nat j)) -> consec ps.
Proof.
  revert o. induction ps as [|a [|b t] IH]; intros o H; cbn [consec]; [exact I|exact I|].
  split.
  - rewrite (H 0%nat a eq_refl), (H 1%nat b eq_refl), uint16_add_add. reflexivity.
  - apply (IH (uint16_add o 1)). intros j q E. rewrite (H (S j) q E), uint16_add_add. f_equal. lia.
Qed.

(* everything the common tail of add() (placement + frame extraction) does *)
Lemma a_tail_char H a p o1 w1 pli :
  seq16 p -> 0 <= o1 < 65536 -> length w1 = Z.to_nat (cap a) -> Good H o1 w1 ->
  AInv (p :: H) (fst (a_tail a p o1 w1 pli)) /\
  fst (snd (a_tail a p o1 w1 pli)) = pli /\
  exists ps,
    match snd (snd (a_tail a p o1 w1 pli)) with
    | None => ps = []
    | Some f => frame_of ps f /\ consec ps
    end /\ incl ps (p :: H) /\
    forall q, In (Some q) w1 ->
              In q ps \/ In (Some q) (slots (fst (a_tail a p o1 w1 pli))) \/ pseq q = pseq p.
Proof.
  intros Hp Ho HL G. unfold a_tail.
  set (d := Z.to_nat (uint16_add (pseq p) (- o1))).
  set (w2 := w_set w1 d (Some p)).
  assert (G2 : Good (p :: H) o1 w2) by (apply Good_set; assumption).
  assert (HL2 : length w2 = Z.to_nat (cap a)) by (unfold w2; rewrite w_set_length; exact HL).
  (* where a held packet is after the placement *)
  assert (Hheld : forall q, In (Some q) w1 ->
                    pseq q = pseq p \/ exists k, nth_error w2 k = Some (Some q)).
  { intros q Hin. apply In_nth_error in Hin. destruct Hin as [k Ek].
    destruct (Nat.eq_dec k d) as [->|Hne].
    - left. destruct (G _ _ Ek) as [E1 _]. rewrite E1. unfold d.
      pose proof (uint16_add_range (pseq p) (- o1)). rewrite Z2Nat.id by lia.
      apply uint16_delta_back. exact Hp.
    - right. exists k. unfold w2. rewrite w_set_nth.
      destruct (Nat.eqb_spec k d); [contradiction|]. exact Ek. }
  destruct (w_frame w2 (prefetch a)) as [[f r]|] eqn:EF; cbn [fst snd cap slots origin].
  - destruct (w_frame_spec _ _ _ _ EF) as (ps & Hf & Hfirst & Hr & q0 & Hq0 & Hts0).
    assert (Hrl : (Z.to_nat r < length w2)%nat) by (eapply nth_error_some_lt; exact Hq0).
    assert (Hps : forall j q, nth_error ps j = Some q -> nth_error w2 j = Some (Some q)).
    { intros j q E. assert (Hj : (j < Z.to_nat r)%nat) by (apply nth_error_some_lt in E; lia).
      rewrite <- (nth_error_firstn' w2 (Z.to_nat r) j Hj), Hfirst, nth_error_map, E. reflexivity. }
    split; [|split; [reflexivity|]].
    + unfold AInv. cbn [slots cap origin]. split; [rewrite w_remove_length; lia|].
      split; [apply uint16_add_range|].
      replace r with (Z.of_nat (Z.to_nat r)) at 1 by lia. apply Good_remove; [lia|exact G2].
    + exists ps. split; [|split].
      * split; [exact Hf|]. apply (consec_of_run o1). intros j q E. exact (proj1 (G2 _ _ (Hps _ _ E))).
      * intros q Hq. apply In_nth_error in Hq. destruct Hq as [j Ej]. exact (proj2 (G2 _ _ (Hps _ _ Ej))).
      * intros q Hin. destruct (Hheld q Hin) as [Hs|[k Ek]]; [right; right; exact Hs|].
        destruct (Nat.lt_ge_cases k (Z.to_nat r)) as [Hk|Hk].
        -- left. rewrite <- (nth_error_firstn' w2 (Z.to_nat r) k Hk), Hfirst, nth_error_map in Ek.
           destruct (nth_error ps k) as [q'|] eqn:Eq'; [|discriminate]. cbn [option_map] in Ek.
           injection Ek as ->. eapply nth_error_In. exact Eq'.
        -- right. left. apply (nth_error_In _ (k - Z.to_nat r)).
           pose proof (nth_error_some_lt _ _ _ Ek) as Hkl.
           rewrite w_remove_nth by lia. destruct (Nat.ltb_spec (k - Z.to_nat r + Z.to_nat r) (length w2)); [|lia].
           replace (Z.to_nat r + (k - Z.to_nat r))%nat with k by lia. exact Ek.
  - split; [|split; [reflexivity|]].
    + unfold AInv. cbn [slots cap origin]. auto.
    + exists []. split; [reflexivity|]. split; [intros x []|].
      intros q Hin. destruct (Hheld q Hin) as [Hs|[k Ek]]; [right; right; exact Hs|].
      right. left. eapply nth_error_In. exact Ek.
Qed.

Definition frame_part (fr : option frame) (ps : list pkt) : Prop :=
  match fr with
  | None => ps = []
  | Some f => frame_of ps f /\ consec ps
  end.

Lemma a_place_char H a p o delta w pli :
  seq16 p -> 0 <= o < 65536 -> length w = Z.to_nat (cap a) -> Good H o w ->
  AInv (p :: H) (fst (a_place a p o delta w pli)) /\
  fst (snd (a_place a p o delta w pli)) = (pli || ((delta >=? cap a) && is_video a))%bool /\
  exists ps,
    frame_part (snd (snd (a_place a p o delta w pli))) ps /\ incl ps (p :: H) /\
    (delta < cap a -> forall q, In (Some q) w ->
        In q ps \/ In (Some q) (slots (fst (a_place a p o delta w pli))) \/ pseq q = pseq p).
Proof.
  intros Hp Ho HL G. unfold a_place. destruct (Z.geb_spec delta (cap a)) as [Hge|Hlt]; cbn [andb].
  - destruct (w_smart w 0 (delta - cap a + 1) None) as [b|] eqn:EB.
    + pose proof (w_smart_lt _ _ _ _ _ EB) as Hb.
      destruct (a_tail_char H a p (uint16_add o (Z.of_nat b)) (w_remove w b) (pli || is_video a) Hp
                  (uint16_add_range _ _) ltac:(rewrite w_remove_length; lia)
                  ltac:(apply Good_remove; [lia|exact G])) as (I1 & P1 & ps & F1 & In1 & _).
      split; [exact I1|]. split; [exact P1|]. exists ps. split; [exact F1|]. split; [exact In1|]. lia.
    + destruct (a_tail_char H a p (pseq p) (repeat None (length w)) (pli || is_video a) Hp Hp
                  ltac:(rewrite repeat_length; exact HL) (Good_repeat _ _ _)) as (I1 & P1 & ps & F1 & In1 & _).
      split; [exact I1|]. split; [exact P1|]. exists ps. split; [exact F1|]. split; [exact In1|]. lia.
  - destruct (a_tail_char H a p o w pli Hp Ho HL G) as (I1 & P1 & ps & F1 & In1 & K1).
    split; [exact I1|]. split; [rewrite P1, orb_false_r; reflexivity|].
    exists ps. split; [exact F1|]. split; [exact In1|]. intros _. exact K1.
Qed.

Lemma AInv_mono H H' a : incl H H' -> AInv H a -> AInv H' a.
Proof.
  intros Hi [HL HO]. split; [exact HL|]. destruct (origin a); [|exact HO].
  destruct HO as [Ho G]. split; [exact Ho|]. eapply Good_mono; eassumption.
Qed.

Theorem a_add_char H a p :
  0 < cap a -> AInv H a -> seq16 p ->
  AInv (p :: H) (fst (a_add a p)) /\
  (is_video a = false -> fst (snd (a_add a p)) = false) /\
  exists ps,
    frame_part (snd (snd (a_add a p))) ps /\ incl ps (p :: H) /\
    (is_video a = true -> fst (snd (a_add a p)) = false ->
     forall q, In (Some q) (slots a) ->
       In q ps \/ In (Some q) (slots (fst (a_add a p))) \/ pseq q = pseq p).
Proof.
  intros Hc [HL HO] Hp. unfold a_add. destruct (origin a) as [o|] eqn:EO.
  - destruct HO as [Ho G].
    destruct (uint16_add o (- pseq p) <? uint16_add (pseq p) (- o)).
    + destruct (uint16_add o (- pseq p) >=? MAX_MISORDER).
      * destruct (a_place_char H a p (pseq p) 0 (repeat None (length (slots a))) (is_video a) Hp Hp
                    ltac:(rewrite repeat_length; exact HL) (Good_repeat _ _ _))
          as (I1 & P1 & ps & F1 & In1 & _).
        split; [exact I1|]. split; [intros Hv; rewrite P1, Hv, andb_false_r; reflexivity|].
        exists ps. split; [exact F1|]. split; [exact In1|].
        intros Hv Hpli. rewrite P1, Hv in Hpli. discriminate.
      * cbn [fst snd]. split.
        { apply (AInv_mono H); [intros x Hx; right; exact Hx|]. split; [exact HL|]. rewrite EO. auto. }
        split; [reflexivity|]. exists []. split; [reflexivity|]. split; [intros x []|]. auto.
    + destruct (a_place_char H a p o (uint16_add (pseq p) (- o)) (slots a) false Hp Ho HL G)
        as (I1 & P1 & ps & F1 & In1 & K1).
      split; [exact I1|]. split; [intros Hv; rewrite P1, Hv, andb_false_r; reflexivity|].
      exists ps. split; [exact F1|]. split; [exact In1|].
      intros Hv Hpli. rewrite P1, Hv, andb_true_r in Hpli. cbn [orb] in Hpli.
      apply K1. destruct (Z.geb_spec (uint16_add (pseq p) (- o)) (cap a)); [discriminate|lia].
  - destruct (a_place_char H a p (pseq p) 0 (slots a) false Hp Hp HL
                ltac:(rewrite HO; apply Good_repeat)) as (I1 & P1 & ps & F1 & In1 & K1).
    split; [exact I1|]. split; [intros Hv; rewrite P1, Hv, andb_false_r; reflexivity|].
    exists ps. split; [exact F1|]. split; [exact In1|].
    intros _ _. apply K1. exact Hc.
Qed.

Lemma a_init_inv c pf v : AInv [] (a_init c pf v).
Proof. unfold AInv, a_init. cbn [slots cap origin]. rewrite repeat_length. auto. Qed.

(* ---------------------------------------------------------------- histories, window level *)
Lemma a_run_cap l : forall a, cap (fst (a_run a l)) = cap a /\ is_video (fst (a_run a l)) = is_video a.
Proof.
  induction l as [|p l IH]; intros a; cbn [a_run fst]; [auto|].
  destruct (IH (fst (a_add a p))) as [E1 E2]. destruct (a_add_cap a p) as (E3 & _ & E4).
  rewrite E1, E2. auto.
Qed.

Lemma a_run_inv l : forall a H,
  0 < cap a -> AInv H a -> Forall seq16 l -> AInv (rev l ++ H) (fst (a_run a l)).
Proof.
  induction l as [|p l IH]; intros a H Hc HI HF; cbn [a_run fst rev app]; [exact HI|].
  inversion HF as [|? ? Hp HF']; subst.
  destruct (a_add_char H a p Hc HI Hp) as (I1 & _).
  rewrite <- app_assoc. cbn [app]. apply IH; [|exact I1|exact HF'].
  rewrite (proj1 (a_add_cap a p)). exact Hc.
Qed.

Lemma a_run_frames l : forall a H n pli f,
  0 < cap a -> AInv H a -> Forall seq16 l ->
  nth_error (snd (a_run a l)) n = Some (pli, Some f) ->
  exists ps, frame_of ps f /\ consec ps /\ forall q, In q ps -> In q H \/ In q (firstn (S n) l).
Proof.
  induction l as [|p l IH]; intros a H n pli f Hc HI HF E; cbn [a_run snd] in E; [destruct n; discriminate|].
  inversion HF as [|? ? Hp HF']; subst.
  destruct (a_add_char H a p Hc HI Hp) as (I1 & _ & ps & F1 & In1 & _).
  destruct n as [|n]; cbn [nth_error] in E.
  - injection E as E. destruct (a_add a p) as [a1 [pli1 fr1]]. cbn [snd fst] in *. injection E as -> ->.
    destruct F1 as [F1 F2]. exists ps. split; [exact F1|]. split; [exact F2|].
    intros q Hq. apply In1 in Hq. destruct Hq as [<-|Hq]; [right; left; reflexivity|left; exact Hq].
  - destruct (IH (fst (a_add a p)) (p :: H) n pli f) as (ps' & F1' & F2' & In'); try assumption.
    { rewrite (proj1 (a_add_cap a p)). exact Hc. }
    exists ps'. split; [exact F1'|]. split; [exact F2'|].
    intros q Hq. destruct (In' q Hq) as [[<-|Hq']|Hq'].
    + right. left. reflexivity.
    + left. exact Hq'.
    + right. right. exact Hq'.
Qed.

(* ---------------------------------------------------------------- transport to the model *)
Definition reaches (c pf : Z) (v : bool) (l : list pkt) (s : jb) (outs : list out) : Prop :=
  exists s0, create c pf v = Ok s0 /\ run s0 l = Ok (s, outs).

Lemma reach_abs c pf v l : cap_ok c -> Forall seq16 l ->
  exists s, reaches c pf v l s (snd (a_run (a_init c pf v) l)) /\ Rep s (fst (a_run (a_init c pf v) l)).
Proof.
  intros Hc HF. destruct (create_rep c pf v Hc) as [E0 R0].
  destruct (run_refines l (mkJb c pf v None (repeat None (Z.to_nat c))) _ Hc R0 HF) as (s & E & R).
  exists s. split; [|exact R]. eexists. split; [exact E0|exact E].
Qed.

Lemma reaches_abs c pf v l s outs : cap_ok c -> Forall seq16 l -> reaches c pf v l s outs ->
  outs = snd (a_run (a_init c pf v) l) /\ Rep s (fst (a_run (a_init c pf v) l)).
Proof.
  intros Hc HF (s0 & E0 & E). destruct (reach_abs c pf v l Hc HF) as (s' & (s0' & E0' & E') & R).
  rewrite E0 in E0'. injection E0' as <-. rewrite E in E'. injection E' as <- <-. auto.
Qed.

Lemma slot_in_window c o sl i x : 0 < c -> length sl = Z.to_nat c -> nth_error sl i = Some x ->
  nth_error (window c o sl) (Z.to_nat ((Z.of_nat i - o) mod c)) = Some x /\
  (o + (Z.of_nat i - o) mod c) mod c = Z.of_nat i.
Proof.
  intros Hc HL E. pose proof (nth_error_some_lt _ _ _ E) as Hi.
  pose proof (Z.mod_pos_bound (Z.of_nat i - o) c Hc) as Hk.
  assert (Em : (o + (Z.of_nat i - o) mod c) mod c = Z.of_nat i).
  { rewrite Zplus_mod_idemp_r. replace (o + (Z.of_nat i - o)) with (Z.of_nat i) by lia.
    apply Z.mod_small. lia. }
  split; [|exact Em]. rewrite window_nth by lia. rewrite Z2Nat.id by lia.
  unfold cellat. rewrite Em, Nat2Z.id, E. reflexivity.
Qed.

Lemma In_window_slots c o sl q : In (Some q) (window c o sl) -> In (Some q) sl.
Proof.
  intros Hin. unfold window in Hin. apply in_map_iff in Hin. destruct Hin as (k & E & _).
  unfold cellat in E. destruct (nth_error sl (Z.to_nat ((o + Z.of_nat k) mod c))) as [v|] eqn:En; [|discriminate].
  subst v. eapply nth_error_In. exact En.
Qed.

Lemma In_slots_window c o sl x : 0 < c -> length sl = Z.to_nat c -> In x sl -> In x (window c o sl).
Proof.
  intros Hc HL Hin. apply In_nth_error in Hin. destruct Hin as [i E].
  destruct (slot_in_window c o sl i x Hc HL E) as [E1 _]. eapply nth_error_In. exact E1.
Qed.

(* the ring invariant of the model (C10_inv) *)
Definition ring_inv (s : jb) : Prop :=
  length (slots s) = Z.to_nat (cap s) /\
  forall i q, nth_error (slots s) i = Some (Some q) ->
    exists o, origin s = Some o /\ 0 <= o < 65536 /\
              Z.of_nat i = pseq q mod cap s /\ uint16_add (pseq q) (- o) < cap s.

Lemma rep_ring_inv H s a : cap_ok (cap s) -> Rep s a -> AInv H a ->
  ring_inv s /\ forall q, In (Some q) (slots s) -> In q H.
Proof.
  intros Hc (Ec & Ep & Ev & Eo & HL & HO) [HLa HA]. pose proof (cap_ok_pos _ Hc) as Hpos.
  pose proof (cap_ok_le _ Hc) as Hle.
  rewrite Eo in HA. destruct (origin s) as [o|] eqn:EO.
  - destruct HO as [Ho HW]. destruct HA as [_ G]. rewrite HW in G.
    assert (Hslot : forall i q, nth_error (slots s) i = Some (Some q) ->
              In q H /\ Z.of_nat i = pseq q mod cap s /\ uint16_add (pseq q) (- o) < cap s).
    { intros i q E. destruct (slot_in_window (cap s) o (slots s) i _ Hpos HL E) as [E1 E2].
      pose proof (Z.mod_pos_bound (Z.of_nat i - o) (cap s) Hpos) as Hk.
      destruct (G _ _ E1) as [Es Hin]. rewrite Z2Nat.id in Es by lia.
      split; [exact Hin|]. rewrite Es. split.
      - rewrite uint16_add_mod, mod16_mod by exact Hc. symmetry. exact E2.
      - rewrite uint16_add_add, uint16_add_mod.
        replace (o + ((Z.of_nat i - o) mod cap s + - o)) with ((Z.of_nat i - o) mod cap s) by lia.
        rewrite Z.mod_small; lia. }
    split.
    + split; [exact HL|]. intros i q E. exists o. destruct (Hslot i q E) as (_ & E1 & E2). auto.
    + intros q Hin. apply In_nth_error in Hin. destruct Hin as [i E]. exact (proj1 (Hslot i q E)).
  - destruct HO as [HS _]. split.
    + split; [exact HL|]. intros i q E. rewrite HS in E. apply nth_error_In, repeat_spec in E. discriminate.
    + intros q Hin. rewrite HS in Hin. apply repeat_spec in Hin. discriminate.
Qed.

(* ---------------------------------------------------------------- the property lemmas on the model *)
Theorem jitter_never_raises c pf v l : cap_ok c -> Forall seq16 l ->
  exists s outs, reaches c pf v l s outs /\ length outs = length l.
Proof.
  intros Hc HF. destruct (reach_abs c pf v l Hc HF) as (s & HR & _).
  exists s, (snd (a_run (a_init c pf v) l)). split; [exact HR|].
  clear HR. generalize (a_init c pf v). induction l as [|p l IH]; intros a; [reflexivity|].
  inversion HF; subst. cbn [a_run snd length]. f_equal. apply IH. assumption.
Qed.

Theorem jitter_inv c pf v l s outs : cap_ok c -> Forall seq16 l -> reaches c pf v l s outs ->
  ring_inv s /\ forall q, In (Some q) (slots s) -> In q l.
Proof.
  intros Hc HF HR. destruct (reaches_abs c pf v l s outs Hc HF HR) as [_ R].
  pose proof (a_run_inv l (a_init c pf v) [] (cap_ok_pos _ Hc) (a_init_inv c pf v) HF) as HI.
  assert (Hcs : cap_ok (cap s)).
  { destruct R as (Ec & _). rewrite <- Ec, (proj1 (a_run_cap l _)). exact Hc. }
  destruct (rep_ring_inv _ s _ Hcs R HI) as [H1 H2]. split; [exact H1|].
  intros q Hq. apply H2 in Hq. rewrite app_nil_r in Hq. apply in_rev. exact Hq.
Qed.

Theorem jitter_frame_integrity c pf v l s outs n pli f :
  cap_ok c -> Forall seq16 l -> reaches c pf v l s outs ->
  nth_error outs n = Some (pli, Some f) ->
  exists ps, frame_of ps f /\ consec ps /\ incl ps (firstn (S n) l).
Proof.
  intros Hc HF HR E. destruct (reaches_abs c pf v l s outs Hc HF HR) as [-> _].
  destruct (a_run_frames l (a_init c pf v) [] n pli f (cap_ok_pos _ Hc) (a_init_inv c pf v) HF E)
    as (ps & F1 & F2 & Hin).
  exists ps. split; [exact F1|]. split; [exact F2|]. intros q Hq. destruct (Hin q Hq) as [[]|Hq']. exact Hq'.
Qed.

Theorem jitter_pli c pf v l s outs p s' pli fr :
  cap_ok c -> Forall seq16 l -> seq16 p -> reaches c pf v l s outs ->
  add s p = Ok (s', (pli, fr)) ->
  (v = false -> pli = false) /\
  (v = true -> pli = false ->
   exists ps, frame_part fr ps /\
     forall q, In (Some q) (slots s) -> In q ps \/ In (Some q) (slots s') \/ pseq q = pseq p).
Proof.
  intros Hc HF Hp HR E. destruct (reaches_abs c pf v l s outs Hc HF HR) as [_ R].
  set (a := fst (a_run (a_init c pf v) l)) in *.
  pose proof (a_run_inv l (a_init c pf v) [] (cap_ok_pos _ Hc) (a_init_inv c pf v) HF) as HI. fold a in HI.
  destruct (a_run_cap l (a_init c pf v)) as [Eca Eva]. fold a in Eca, Eva. cbn [a_init cap is_video] in Eca, Eva.
  assert (Hcs : cap_ok (cap s)).
  { destruct R as (Ec & _). rewrite <- Ec, Eca. exact Hc. }
  destruct (add_refines s a p Hcs R Hp) as (s1 & E1 & R1). rewrite E in E1. injection E1 as <- E1.
  assert (Hca : 0 < cap a) by (rewrite Eca; apply cap_ok_pos; exact Hc).
  destruct (a_add_char _ a p Hca HI Hp) as (_ & Ha & ps & F1 & _ & K1).
  rewrite <- E1 in Ha, F1, K1. cbn [fst snd] in Ha, F1, K1. rewrite Eva in Ha, K1.
  split; [exact Ha|]. intros Hv Hpli. exists ps. split; [exact F1|].
  pose proof (cap_ok_pos _ Hcs) as Hpos.
  destruct R as (_ & _ & _ & _ & HL & HO).
  intros q Hq.
  assert (Hqa : In (Some q) (slots a)).
  { destruct (origin s) as [o|].
    - destruct HO as [_ ->]. apply In_slots_window; assumption.
    - destruct HO as [HS _]. rewrite HS in Hq. apply repeat_spec in Hq. discriminate. }
  destruct (K1 Hv Hpli q Hqa) as [H1|[H2|H3]]; [left; exact H1| |right; right; exact H3].
  right. left. destruct R1 as (_ & _ & _ & _ & HL1 & HO1).
  destruct (origin s') as [o'|].
  - destruct HO1 as [_ HW1]. rewrite HW1 in H2. eapply In_window_slots. exact H2.
  - destruct HO1 as [_ HA1]. rewrite HA1 in H2. apply repeat_spec in H2. discriminate.
Qed.
