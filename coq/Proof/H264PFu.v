(* H264Encoder._packetize_fu_a: the fragmentation loop terminates with its
   assertion satisfied, fragments are size-bounded, carry one S / one E marker
   and the original header bits, and reassemble to the NAL unit. *)
From Coq Require Import ZArith List Bool Lia.
From AV Require Import Lib.Bytes Lib.BytesP Lib.CodecX Lib.CodecXP Gen.H264Const Model.H264 Proof.H264PBase.
Import ListNotations.
Local Open Scope Z_scope.

(* headers attached by the loop: h0 on the first, hm on the middle ones, he on
   the last (which wins when there is a single payload) *)
Fixpoint attach (h0 hm he : bytes) (ps : list bytes) : list bytes :=
  match ps with
  | [] => []
  | p :: tl =>
      match tl with
      | [] => [he ++ p]
      | _ :: _ => (h0 ++ p) :: attach hm hm he tl
      end
  end.

Lemma attach_last hm he mids pl :
  attach hm hm he (mids ++ [pl]) = map (fun p => hm ++ p) mids ++ [he ++ pl].
Proof.
  induction mids as [|p mids IH]; [reflexivity|].
  cbn [app attach map]. destruct (mids ++ [pl]) eqn:E.
  - destruct mids; discriminate.
  - rewrite IH. reflexivity.
Qed.

Lemma slice_step data offset sz :
  0 <= offset -> 0 <= sz -> offset + sz <= len data ->
  pyslice data offset (offset + sz) = firstn (Z.to_nat sz) (skipn (Z.to_nat offset) data) /\
  len (pyslice data offset (offset + sz)) = sz /\
  skipn (Z.to_nat (offset + sz)) data = skipn (Z.to_nat sz) (skipn (Z.to_nat offset) data).
Proof.
  intros H0 H1 H2. rewrite pyslice_nonneg by lia.
  replace (Z.to_nat (offset + sz) - Z.to_nat offset)%nat with (Z.to_nat sz) by lia.
  split; [reflexivity|]. split.
  - rewrite len_firstn; [lia|]. rewrite skipn_length. unfold len in H2. lia.
  - rewrite skipn_skipn. f_equal. lia.
Qed.

Lemma skipn_len_nil (data : bytes) offset : offset = len data -> skipn (Z.to_nat offset) data = [].
Proof. intros ->. apply skipn_all2. unfold len. lia. Qed.

(* The loop, started with  len(data) - offset = nl*(ps+1) + m*ps,  runs exactly
   nl + m times, never trips the assertion, and cuts data[offset:] into nl
   pieces of ps+1 bytes followed by m pieces of ps bytes. *)
Lemma fu_loop_spec : forall fuel data offset nl m ps hdr hm he,
  0 <= offset -> 0 <= nl -> 0 <= m -> 1 <= ps ->
  len data - offset = nl * (ps + 1) + m * ps ->
  (Z.to_nat (nl + m) <= fuel)%nat ->
  exists payloads,
    fu_loop fuel data offset nl ps hdr hm he = Ok (attach hdr hm he payloads) /\
    length payloads = Z.to_nat (nl + m) /\
    concat payloads = skipn (Z.to_nat offset) data /\
    Forall (fun p => 1 <= len p /\ len p <= ps + (if 0 <? nl then 1 else 0)) payloads.
Proof.
  induction fuel as [|fuel IH]; intros data offset nl m ps hdr hm he Hoff Hnl Hm Hps Hlen Hfuel.
  - assert (nl = 0 /\ m = 0) as [-> ->] by lia.
    exists []. cbn [fu_loop attach length concat].
    assert (offset = len data) as Heq by lia.
    rewrite (proj2 (Z.ltb_ge _ _)) by lia. rewrite (proj2 (Z.eqb_eq _ _) Heq).
    repeat split; [now rewrite skipn_len_nil | constructor].
  - destruct (Z.eq_dec (nl + m) 0) as [Hz | Hnz].
    { assert (nl = 0 /\ m = 0) as [-> ->] by lia.
      exists []. cbn [fu_loop attach length concat].
      assert (offset = len data) as Heq by lia.
      rewrite (proj2 (Z.ltb_ge _ _)) by lia. rewrite (proj2 (Z.eqb_eq _ _) Heq).
      repeat split; [now rewrite skipn_len_nil | constructor]. }
    cbn [fu_loop].
    destruct (0 <? nl) eqn:Enl.
    + (* a larger packet: ps + 1 bytes *)
      apply Z.ltb_lt in Enl.
      assert (Hge : ps + 1 <= nl * (ps + 1) + m * ps) by nia.
      rewrite (proj2 (Z.ltb_lt _ _)) by lia.
      replace (offset + ps + 1) with (offset + (ps + 1)) by lia.
      destruct (slice_step data offset (ps + 1)) as [Hs [Hl Hk]]; try lia.
      destruct (IH data (offset + (ps + 1)) (nl - 1) m ps hm hm he) as [pl [Hrun [Hcnt [Hcat Hall]]]]; try lia.
      rewrite Hrun. cbn [bind].
      exists (pyslice data offset (offset + (ps + 1)) :: pl).
      split; [|split; [|split]].
      * f_equal. cbn [attach]. destruct pl as [|p' pl'].
        -- cbn [length] in Hcnt. assert (offset + (ps + 1) = len data) as Heq by nia.
           rewrite (proj2 (Z.eqb_eq _ _) Heq). reflexivity.
        -- cbn [length] in Hcnt.
           assert (offset + (ps + 1) <> len data) as Hne by nia.
           rewrite (proj2 (Z.eqb_neq _ _) Hne). reflexivity.
      * cbn [length]. lia.
      * cbn [concat]. rewrite Hcat, Hk, Hs. apply firstn_skipn.
      * constructor; [lia|].
        eapply Forall_impl; [|exact Hall]. cbn beta. intros p [Hp1 Hp2]. split; [lia|].
        destruct (0 <? nl - 1); lia.
    + (* a normal packet: ps bytes *)
      apply Z.ltb_ge in Enl. assert (nl = 0) as -> by lia.
      assert (Hge : ps <= m * ps) by nia.
      rewrite (proj2 (Z.ltb_lt _ _)) by lia.
      destruct (slice_step data offset ps) as [Hs [Hl Hk]]; try lia.
      destruct (IH data (offset + ps) 0 (m - 1) ps hm hm he) as [pl [Hrun [Hcnt [Hcat Hall]]]]; try lia.
      rewrite Hrun. cbn [bind].
      exists (pyslice data offset (offset + ps) :: pl).
      split; [|split; [|split]].
      * f_equal. cbn [attach]. destruct pl as [|p' pl'].
        -- cbn [length] in Hcnt. assert (offset + ps = len data) as Heq by nia.
           rewrite (proj2 (Z.eqb_eq _ _) Heq). reflexivity.
        -- cbn [length] in Hcnt.
           assert (offset + ps <> len data) as Hne by nia.
           rewrite (proj2 (Z.eqb_neq _ _) Hne). reflexivity.
      * cbn [length]. lia.
      * cbn [concat]. rewrite Hcat, Hk, Hs. apply firstn_skipn.
      * constructor; [cbn; lia|]. exact Hall.
Qed.

(* ---- arithmetic of the fragment sizes ---------------------------------------- *)
Lemma ceil_div_spec a b : 0 < b -> (ceil_div a b - 1) * b < a <= ceil_div a b * b.
Proof.
  intros Hb. unfold ceil_div.
  pose proof (Z.div_mod (- a) b ltac:(lia)) as Hdm.
  pose proof (Z.mod_pos_bound (- a) b Hb) as Hmod.
  nia.
Qed.

(* what "an FU-A fragment of the NAL unit with header byte h0" means on the wire *)
Definition is_fu_frag (h0 : Z) (s e : bool) (payload pkt : bytes) : Prop :=
  exists ind fh,
    pkt = ind :: fh :: payload /\ 0 <= ind < 256 /\ 0 <= fh < 256 /\
    Z.land ind 31 = h264_NAL_TYPE_FU_A /\         (* type 28 *)
    Z.land ind 224 = Z.land h0 224 /\              (* F and NRI of the original header *)
    Z.land fh 31 = Z.land h0 31 /\                 (* original NAL type *)
    Z.land fh 128 = (if s then 128 else 0) /\      (* S bit *)
    Z.land fh 64 = (if e then 64 else 0) /\        (* E bit *)
    Z.land fh 32 = 0.                              (* R bit *)

(* frags is a correct fragmentation of NAL unit n: one S fragment first, one E
   fragment last, only unmarked fragments between, all non-empty and within
   the size limit, payloads concatenating to the NAL unit body *)
Definition fu_fragments (n : bytes) (frags : list bytes) : Prop :=
  exists h0 p0 mids pl f0 fmids fl,
    n = h0 :: p0 ++ concat mids ++ pl /\
    frags = f0 :: fmids ++ [fl] /\
    is_fu_frag h0 true false p0 f0 /\
    Forall2 (is_fu_frag h0 false false) mids fmids /\
    is_fu_frag h0 false true pl fl /\
    Forall (fun p => 1 <= len p) (p0 :: mids ++ [pl]) /\
    Forall (fun f => len f <= h264_PACKET_MAX) frags.

Lemma Forall2_map_r {T U : Type} (R : T -> U -> Prop) (f : T -> U) l :
  (forall x, In x l -> R x (f x)) -> Forall2 R l (map f l).
Proof.
  induction l as [|x l IH]; intros H; cbn [map]; constructor.
  - apply H. now left.
  - apply IH. intros y Hy. apply H. now right.
Qed.

Theorem packetize_fu_a_spec : forall data,
  bytes_ok data -> h264_PACKET_MAX < len data ->
  exists frags, packetize_fu_a data = Ok frags /\ fu_fragments data frags.
Proof.
  intros data Hok Hbig.
  destruct consts_ok as (Hnal & _ & Hfu2 & Hfulo & _ & _ & _ & _ & _).
  destruct data as [|d0 body]; [unfold len in Hbig; cbn in Hbig; lia|].
  apply bytes_ok_cons in Hok. destruct Hok as [Hd0 Hbody]. unfold byte_ok in Hd0.
  unfold packetize_fu_a.
  set (avail := h264_PACKET_MAX - h264_FU_A_HEADER_SIZE).
  set (payload := len (d0 :: body) - h264_NAL_HEADER_SIZE).
  assert (Hav : 1 <= avail) by (unfold avail; lia).
  assert (Hpl : payload = len body) by (unfold payload; rewrite len_cons; lia).
  assert (Hpay : avail + 2 <= payload) by (unfold avail; rewrite Hpl; rewrite len_cons in Hbig; lia).
  rewrite (proj2 (Z.eqb_neq avail 0)) by lia.
  set (np := ceil_div payload avail).
  pose proof (ceil_div_spec payload avail ltac:(lia)) as Hceil. fold np in Hceil.
  assert (Hnp2 : 2 <= np) by nia.
  assert (Hnple : np <= payload) by nia.
  rewrite (proj2 (Z.eqb_neq np 0)) by lia.
  set (nl := payload mod np). set (ps := payload / np).
  pose proof (Z.div_mod payload np ltac:(lia)) as Hdm. fold nl ps in Hdm.
  pose proof (Z.mod_pos_bound payload np ltac:(lia)) as Hnl. fold nl in Hnl.
  assert (Hps1 : 1 <= ps) by nia.
  assert (Hsz1 : 0 < nl -> ps + 1 <= avail) by (intros; nia).
  assert (Hsz0 : ps <= avail) by nia.
  cbn [u8 nth_error].
  rewrite Hnal.
  set (ind := Z.lor (Z.land d0 224) h264_NAL_TYPE_FU_A).
  set (nal := Z.land d0 31).
  destruct (fu_loop_spec (length (d0 :: body)) (d0 :: body) 1 nl (np - nl) ps
                         [ind; Z.lor nal 128] [ind; nal] [ind; Z.lor nal 64])
    as [payloads [Hrun [Hcnt [Hcat Hall]]]]; try lia.
  { replace (nl + (np - nl)) with np by lia. cbn [length]. unfold len in Hnple, Hpl. lia. }
  rewrite Hrun. eexists. split; [reflexivity|].
  replace (nl + (np - nl)) with np in Hcnt by lia.
  (* at least two payloads: first, middles, last *)
  destruct payloads as [|p0 tl]; [cbn [length] in Hcnt; lia|].
  destruct tl as [|p1 tl]; [cbn [length] in Hcnt; lia|].
  destruct (exists_last (l := p1 :: tl) ltac:(discriminate)) as [mids [pl Htl]].
  rewrite Htl in *.
  cbn [Z.to_nat skipn concat] in Hcat. change (Pos.to_nat 1) with 1%nat in Hcat. cbn [skipn] in Hcat.
  assert (Hatt : attach [ind; Z.lor nal 128] [ind; nal] [ind; Z.lor nal 64] (p0 :: mids ++ [pl]) =
                 ([ind; Z.lor nal 128] ++ p0) :: map (fun p => [ind; nal] ++ p) mids ++ [[ind; Z.lor nal 64] ++ pl]).
  { cbn [attach]. destruct (mids ++ [pl]) eqn:E; [destruct mids; discriminate|]. rewrite <- E.
    now rewrite attach_last. }
  rewrite Hatt.
  pose proof (fu_indicator_facts d0 Hd0) as Hind. cbn zeta in Hind. fold ind in Hind.
  pose proof (fu_header_facts d0 Hd0) as Hfh. cbn zeta in Hfh. fold nal in Hfh.
  destruct Hind as (Hi1 & Hi2 & Hi3).
  destruct Hfh as ((Hs1 & Hs2 & Hs3 & Hs4 & Hs5) & (Hm1 & Hm2 & Hm3 & Hm4 & Hm5) & (He1 & He2 & He3 & He4 & He5)).
  exists d0, p0, mids, pl, ([ind; Z.lor nal 128] ++ p0), (map (fun p => [ind; nal] ++ p) mids),
         ([ind; Z.lor nal 64] ++ pl).
  split; [|split; [|split; [|split; [|split; [|split]]]]].
  - f_equal. rewrite <- Hcat. cbn [concat]. rewrite concat_app. cbn [concat]. now rewrite app_nil_r.
  - reflexivity.
  - exists ind, (Z.lor nal 128). repeat split; try assumption; try lia.
  - apply Forall2_map_r. intros p _. exists ind, nal. repeat split; try assumption; try lia.
  - exists ind, (Z.lor nal 64). repeat split; try assumption; try lia.
  - eapply Forall_impl; [|exact Hall]. cbn beta. intros p Hp. lia.
  - assert (Hbound : forall p, In p (p0 :: mids ++ [pl]) -> len p <= avail).
    { intros p Hin. rewrite Forall_forall in Hall. specialize (Hall p Hin).
      destruct (0 <? nl) eqn:E; [apply Z.ltb_lt in E|]; lia. }
    constructor.
    + rewrite len_app. change (len [ind; Z.lor nal 128]) with 2.
      specialize (Hbound p0 ltac:(now left)). unfold avail in Hbound. lia.
    + apply Forall_app. split.
      * apply Forall_forall. intros f Hin. apply in_map_iff in Hin. destruct Hin as [p [<- Hin]].
        rewrite len_app. change (len [ind; nal]) with 2.
        specialize (Hbound p ltac:(right; apply in_or_app; now left)). unfold avail in Hbound. lia.
      * constructor; [|constructor]. rewrite len_app. change (len [ind; Z.lor nal 64]) with 2.
        specialize (Hbound pl ltac:(right; apply in_or_app; right; now left)). unfold avail in Hbound. lia.
Qed.

(* ---- depayloading fragments ---------------------------------------------------- *)
Lemma parse_fu_frag h0 s e payload pkt :
  0 <= h0 < 256 -> is_fu_frag h0 s e payload pkt ->
  parse pkt = Ok (s, (if s then START_CODE ++ [h0] else []) ++ payload).
Proof.
  intros Hh0 (ind & fh & -> & Hind & Hfh & Hi1 & Hi2 & Hf1 & Hf2 & Hf3 & Hf4).
  unfold parse.
  assert (Hlen : len (ind :: fh :: payload) <? 2 = false).
  { apply Z.ltb_ge. rewrite !len_cons. pose proof (len_nonneg payload). lia. }
  rewrite Hlen. cbn [u8 nth_error]. rewrite Hi1, type_fu_a. cbn [Z.leb Z.ltb Z.compare Pos.compare Pos.compare_cont andb].
  change (28 =? 28) with true. cbv iota.
  rewrite nal_header_size, pyidx_nonneg by lia. cbn [Z.to_nat Pos.to_nat Pos.iter_op Nat.add u8 nth_error].
  rewrite pyfrom_nonneg by lia. change (Z.to_nat (1 + 1)) with 2%nat. cbn [skipn].
  change (Pos.to_nat 1) with 1%nat. cbn [nth_error].
  rewrite Hf2, Hi2, Hf1.
  destruct (byte_split h0 Hh0) as [Hsplit _]. rewrite Hsplit.
  destruct s; reflexivity.
Qed.
