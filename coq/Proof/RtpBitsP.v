(* Bit-field and list lemmas shared by the proofs about Model/Rtp.v and Model/Rtcp.v. *)
From Coq Require Import ZArith List Bool Lia.
From AV Require Import Lib.Bytes Lib.BytesP Lib.RtpX.
Import ListNotations.
Local Open Scope Z_scope.

Ltac Zify.zify_post_hook ::= Z.to_euclidean_division_equations.

(* ------------------------------------------------------------ result monad *)
Lemma bind_ok {T U} (r : result T) (f : T -> result U) v : r = Ok v -> bind r f = f v.
Proof. intros ->. reflexivity. Qed.

Lemma bind_benign {T U} (r : result T) (f : T -> result U) :
  benign r -> (forall v, r = Ok v -> benign (f v)) -> benign (bind r f).
Proof. destruct r; cbn; intros H1 H2; auto. Qed.

Lemma bind_inv_ok {T U} (r : result T) (f : T -> result U) w :
  bind r f = Ok w -> exists v, r = Ok v /\ f v = Ok w.
Proof. destruct r; cbn; intros H; try discriminate. eauto. Qed.

Lemma Ok_inj {T} (a b : T) : Ok a = Ok b -> a = b.
Proof. now intros [= ->]. Qed.

(* ------------------------------------------------------------ ranges *)
Lemma inrange_true lo hi x : inrange lo hi x = true <-> lo <= x < hi.
Proof. unfold inrange. rewrite andb_true_iff, Z.leb_le, Z.ltb_lt. tauto. Qed.
Lemma u8ok_true x : u8ok x = true <-> 0 <= x < 256. Proof. apply inrange_true. Qed.
Lemma u16ok_true x : u16ok x = true <-> 0 <= x < 65536. Proof. apply inrange_true. Qed.
Lemma u24ok_true x : u24ok x = true <-> 0 <= x < 16777216. Proof. apply inrange_true. Qed.
Lemma u32ok_true x : u32ok x = true <-> 0 <= x < 4294967296. Proof. apply inrange_true. Qed.
Lemma u64ok_true x : u64ok x = true <-> 0 <= x < 18446744073709551616. Proof. apply inrange_true. Qed.
Lemma i32ok_true x : i32ok x = true <-> -2147483648 <= x < 2147483648. Proof. apply inrange_true. Qed.

Lemma u8ok_intro x : 0 <= x < 256 -> u8ok x = true. Proof. apply u8ok_true. Qed.
Lemma u16ok_intro x : 0 <= x < 65536 -> u16ok x = true. Proof. apply u16ok_true. Qed.
Lemma u32ok_intro x : 0 <= x < 4294967296 -> u32ok x = true. Proof. apply u32ok_true. Qed.
Lemma u64ok_intro x : 0 <= x < 18446744073709551616 -> u64ok x = true. Proof. apply u64ok_true. Qed.
Lemma i32ok_intro x : -2147483648 <= x < 2147483648 -> i32ok x = true. Proof. apply i32ok_true. Qed.

(* ------------------------------------------------------------ exhaustive byte facts *)
Fixpoint upto (n : nat) : list Z :=
  match n with O => [] | S k => upto k ++ [Z.of_nat k] end.

Lemma upto_In n x : 0 <= x < Z.of_nat n -> In x (upto n).
Proof.
  induction n as [|k IH]; intros H; [lia|].
  cbn [upto]. apply in_or_app.
  destruct (Z.eq_dec x (Z.of_nat k)) as [->|Hne]; [right; now left|left; apply IH; lia].
Qed.

(* a boolean fact about one byte, checked on all 256 values *)
Lemma byte_cases (P : Z -> bool) :
  forallb P (upto 256) = true -> forall b, 0 <= b < 256 -> P b = true.
Proof.
  intros H b Hb. rewrite forallb_forall in H. apply H. apply upto_In. cbn. lia.
Qed.

Ltac byte_fact :=
  match goal with
  | |- forall b, 0 <= b < 256 -> @?P b = true => apply (byte_cases P); vm_compute; reflexivity
  end.

(* ------------------------------------------------------------ shifts and masks *)
Lemma shiftr_div x n : 0 <= n -> Z.shiftr x n = x / 2 ^ n.
Proof. intros H. now apply Z.shiftr_div_pow2. Qed.
Lemma shiftl_mul x n : 0 <= n -> Z.shiftl x n = x * 2 ^ n.
Proof. intros H. now apply Z.shiftl_mul_pow2. Qed.

Lemma land_ones_mod x n : 0 <= n -> Z.land x (Z.ones n) = x mod 2 ^ n.
Proof. intros H. now apply Z.land_ones. Qed.
Lemma land_255 x : Z.land x 255 = x mod 256.
Proof. change 255 with (Z.ones 8). now rewrite Z.land_ones by lia. Qed.
Lemma land_65535 x : Z.land x 65535 = x mod 65536.
Proof. change 65535 with (Z.ones 16). now rewrite Z.land_ones by lia. Qed.
Lemma land_127 x : Z.land x 127 = x mod 128.
Proof. change 127 with (Z.ones 7). now rewrite Z.land_ones by lia. Qed.
Lemma land_31 x : Z.land x 31 = x mod 32.
Proof. change 31 with (Z.ones 5). now rewrite Z.land_ones by lia. Qed.
Lemma land_15 x : Z.land x 15 = x mod 16.
Proof. change 15 with (Z.ones 4). now rewrite Z.land_ones by lia. Qed.
Lemma land_3 x : Z.land x 3 = x mod 4.
Proof. change 3 with (Z.ones 2). now rewrite Z.land_ones by lia. Qed.
Lemma land_1 x : Z.land x 1 = x mod 2.
Proof. change 1 with (Z.ones 1) at 1. now rewrite Z.land_ones by lia. Qed.

(* disjoint `|` is `+` *)
Lemma lor_add x lo k :
  0 <= k -> 0 <= lo < 2 ^ k -> x mod 2 ^ k = 0 -> Z.lor x lo = x + lo.
Proof.
  intros Hk Hlo Hx.
  rewrite <- Z.lxor_lor, <- Z.add_nocarry_lxor; try reflexivity;
    apply Z.bits_inj'; intros n Hn; rewrite Z.land_spec, Z.bits_0.
  all: destruct (Z.ltb_spec n k) as [Hlt|Hge].
  all: try (rewrite <- (Z.mod_pow2_bits_low x k n) by lia; rewrite Hx, Z.bits_0; reflexivity).
  all: assert (Hb : Z.testbit lo n = false)
      by (destruct (Z.eq_dec lo 0) as [->|Hne]; [apply Z.bits_0|];
          apply Z.bits_above_log2; [lia|];
          apply Z.log2_lt_pow2; [lia|];
          apply Z.lt_le_trans with (2 ^ k); [lia|apply Z.pow_le_mono_r; lia]).
  all: rewrite Hb; apply andb_false_r.
Qed.

Lemma testbit_b2z x d : 0 <= d -> Z.land (Z.shiftr x d) 1 = Z.b2z (Z.testbit x d).
Proof.
  intros Hd. rewrite land_1, Z.shiftr_div_pow2 by lia. symmetry. now apply Z.testbit_spec'.
Qed.

(* ------------------------------------------------------------ lists *)
Lemma firstn_app_exact {T} (a b : list T) : firstn (length a) (a ++ b) = a.
Proof. rewrite firstn_app, Nat.sub_diag, firstn_all. cbn [firstn]. now rewrite app_nil_r. Qed.
Lemma skipn_app_exact {T} (a b : list T) : skipn (length a) (a ++ b) = b.
Proof. rewrite skipn_app, Nat.sub_diag, skipn_all. reflexivity. Qed.
Lemma firstn_app_exact' {T} (a b : list T) n : n = length a -> firstn n (a ++ b) = a.
Proof. intros ->. apply firstn_app_exact. Qed.
Lemma skipn_app_exact' {T} (a b : list T) n : n = length a -> skipn n (a ++ b) = b.
Proof. intros ->. apply skipn_app_exact. Qed.

Lemma len_length l : len l = Z.of_nat (length l). Proof. reflexivity. Qed.
Lemma zlen_length {T} (l : list T) : zlen l = Z.of_nat (length l). Proof. reflexivity. Qed.

Lemma length_zeros n : length (zeros n) = n.
Proof. unfold zeros. apply repeat_length. Qed.

Lemma u32s_some data pos n :
  (pos + 4 * n <= length data)%nat -> exists l, u32s data pos n = Some l.
Proof.
  revert pos. induction n as [|n IH]; intros pos H; cbn [u32s]; [eauto|].
  destruct (u32_some data pos) as [x ->]; [lia|].
  destruct (IH (4 + pos)%nat) as [l ->]; [lia|]. eauto.
Qed.

(* reading back what be32s wrote, after any prefix and before any suffix *)
Lemma u32s_be32s l : forall b pre post,
  be32s l = Ok b -> u32s (pre ++ b ++ post) (length pre) (length l) = Some l.
Proof.
  induction l as [|x l IH]; intros b pre post H; cbn [be32s u32s length] in *; [reflexivity|].
  destruct (u32ok x) eqn:Hx; [|discriminate]. apply u32ok_true in Hx.
  destruct (be32s l) as [r| | |] eqn:Hr; cbn [bind] in H; try discriminate.
  apply Ok_inj in H; subst b. rewrite <- app_assoc.
  rewrite u32_at by lia.
  replace (pre ++ be32 x ++ r ++ post) with ((pre ++ be32 x) ++ r ++ post) by now rewrite <- app_assoc.
  replace (4 + length pre)%nat with (length (pre ++ be32 x)) by (rewrite app_length, length_be32; lia).
  now rewrite (IH r (pre ++ be32 x) post eq_refl).
Qed.

Lemma be32s_length l b : be32s l = Ok b -> length b = (4 * length l)%nat.
Proof.
  revert b. induction l as [|x l IH]; intros b H; cbn [be32s length] in *.
  - apply Ok_inj in H; subst b. reflexivity.
  - destruct (u32ok x); [|discriminate].
    destruct (be32s l) as [r| | |] eqn:Hr; cbn [bind] in H; try discriminate.
    apply Ok_inj in H; subst b. rewrite app_length, length_be32, (IH r eq_refl). lia.
Qed.

Lemma be32s_ok l : Forall (fun x => 0 <= x < 4294967296) l -> exists b, be32s l = Ok b.
Proof.
  induction 1 as [|x l Hx _ [b Hb]]; cbn [be32s]; [eauto|].
  rewrite u32ok_intro by lia. rewrite Hb. cbn [bind]. eauto.
Qed.

Lemma be32s_bytes_ok l b : be32s l = Ok b -> bytes_ok b.
Proof.
  revert b. induction l as [|x l IH]; intros b H; cbn [be32s] in *.
  - apply Ok_inj in H; subst b. apply bytes_ok_nil.
  - destruct (u32ok x); [|discriminate].
    destruct (be32s l) as [r| | |] eqn:Hr; cbn [bind] in H; try discriminate.
    apply Ok_inj in H; subst b. apply bytes_ok_app. split; [apply be32_ok|now apply IH].
Qed.

(* ------------------------------------------------------------ reads in a laid-out buffer *)
Lemma u8_at' data pre n post i :
  data = pre ++ be8 n ++ post -> i = length pre -> 0 <= n < 256 -> u8 data i = Some n.
Proof. intros -> -> H. now apply u8_at. Qed.
Lemma u16_at' data pre n post i :
  data = pre ++ be16 n ++ post -> i = length pre -> 0 <= n < 65536 -> u16 data i = Some n.
Proof. intros -> -> H. now apply u16_at. Qed.
Lemma u32_at' data pre n post i :
  data = pre ++ be32 n ++ post -> i = length pre -> 0 <= n < 4294967296 -> u32 data i = Some n.
Proof. intros -> -> H. now apply u32_at. Qed.
Lemma u32s_at' data pre l b post i n :
  data = pre ++ b ++ post -> be32s l = Ok b -> i = length pre -> n = length l -> u32s data i n = Some l.
Proof. intros -> H -> ->. now apply u32s_be32s. Qed.
Lemma slice_at' data pre mid post a b :
  data = pre ++ mid ++ post -> a = length pre -> b = (length pre + length mid)%nat -> slice data a b = mid.
Proof. intros -> -> ->. apply slice_app_mid. Qed.
Lemma from_at' data pre post i : data = pre ++ post -> i = length pre -> from data i = post.
Proof. intros -> ->. apply from_app. Qed.

Lemma last_byte_snoc l x : last_byte (l ++ [x]) = Some x.
Proof.
  unfold last_byte. destruct (l ++ [x]) eqn:E; [now destruct l|]. rewrite <- E.
  rewrite app_length. cbn [length]. replace (length l + 1 - 1)%nat with (length l) by lia.
  rewrite nth_error_app2 by lia. now rewrite Nat.sub_diag.
Qed.
