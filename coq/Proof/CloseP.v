(* Proofs about Model/Close.v (property C19), part 1: list helpers, the decreasing
   measure and termination of close(). *)
From Coq Require Import ZArith List Bool Arith Lia.
From AV Require Import Lib.Sx Model.Close.
Import ListNotations.

(* ------------------------------------------------------------------ upd / nth_error *)
Lemma nth_error_upd {A} (l : list A) i j x :
  nth_error (upd l j x) i =
  if Nat.eqb i j then match nth_error l j with Some _ => Some x | None => None end
  else nth_error l i.
Proof.
  revert i j. induction l as [|y l IH]; intros i j.
  - cbn [upd]. destruct (Nat.eqb i j); destruct i, j; cbn; reflexivity.
  - destruct j as [|j]; destruct i as [|i]; cbn [upd nth_error Nat.eqb]; try reflexivity.
    apply IH.
Qed.

Lemma nth_error_upd_same {A} (l : list A) i x y :
  nth_error l i = Some y -> nth_error (upd l i x) i = Some x.
Proof. intros H. rewrite nth_error_upd, Nat.eqb_refl, H. reflexivity. Qed.

Lemma nth_error_upd_other {A} (l : list A) i j x :
  i <> j -> nth_error (upd l j x) i = nth_error l i.
Proof. intros H. rewrite nth_error_upd. destruct (Nat.eqb_spec i j); [contradiction|reflexivity]. Qed.

Lemma length_upd {A} (l : list A) i x : length (upd l i x) = length l.
Proof. revert i; induction l as [|y l IH]; intros [|i]; cbn [upd length]; auto. Qed.

Lemma op_eqb_eq a b : op_eqb a b = true -> a = b.
Proof.
  destruct a, b; cbn [op_eqb]; intros H; try discriminate; try reflexivity;
    apply Nat.eqb_eq in H; subst; reflexivity.
Qed.

Lemma op_eqb_refl a : op_eqb a a = true.
Proof. destruct a; cbn [op_eqb]; auto using Nat.eqb_refl. Qed.

(* destructs the nested matches of a `step ... = Some c'` hypothesis *)
Ltac inv_step H :=
  repeat first
  [ discriminate H
  | match type of H with
    | match ?x with _ => _ end = Some _ => let E := fresh "E" in destruct x eqn:E
    | (if ?x then _ else _) = Some _ => let E := fresh "E" in destruct x eqn:E
    end ];
  try (injection H as H; subst).

(* ------------------------------------------------------------------ residual only reads c_trx / c_tps *)
Lemma residual_ext c1 c2 o s :
  c_trx c1 = c_trx c2 -> c_tps c1 = c_tps c2 -> residual c1 o s = residual c2 o s.
Proof. intros H1 H2. unfold residual. rewrite H1, H2. reflexivity. Qed.

Definition trx_le (x' x : trx) : Prop :=
  begin_cost (s_rtp (t_s x')) <= begin_cost (s_rtp (t_s x)) /\
  begin_cost (s_rtcp (t_s x')) <= begin_cost (s_rtcp (t_s x)) /\
  begin_cost (r_rtcp (t_r x')) <= begin_cost (r_rtcp (t_r x)) /\
  end_cost (s_rtp (t_s x')) <= end_cost (s_rtp (t_s x)) /\
  end_cost (s_rtcp (t_s x')) <= end_cost (s_rtcp (t_s x)) /\
  end_cost (r_rtcp (t_r x')) <= end_cost (r_rtcp (t_r x)).

Lemma trx_le_refl x : trx_le x x.
Proof. unfold trx_le; repeat split; lia. Qed.

(* pointwise comparison of two transceiver lists *)
Definition trxs_le (l' l : list trx) : Prop :=
  forall i, match nth_error l' i, nth_error l i with
            | Some x', Some x => trx_le x' x
            | None, None => True
            | _, _ => False
            end.

Lemma trxs_le_refl l : trxs_le l l.
Proof. intros i. destruct (nth_error l i); auto using trx_le_refl. Qed.

Lemma trxs_le_upd l i x x' : nth_error l i = Some x -> trx_le x' x -> trxs_le (upd l i x') l.
Proof.
  intros Hn Hle j. rewrite nth_error_upd. destruct (Nat.eqb_spec j i) as [->|Hne].
  - rewrite Hn. exact Hle.
  - destruct (nth_error l j); auto using trx_le_refl.
Qed.

Definition tps_le (l' l : list transport) : Prop :=
  forall i, match nth_error l' i, nth_error l i with
            | Some x', Some x => mon_cost (i_mon x') <= mon_cost (i_mon x)
            | None, None => True
            | _, _ => False
            end.

Lemma tps_le_refl l : tps_le l l.
Proof. intros i. destruct (nth_error l i); auto. Qed.

Lemma tps_le_upd l i x x' :
  nth_error l i = Some x -> mon_cost (i_mon x') <= mon_cost (i_mon x) -> tps_le (upd l i x') l.
Proof.
  intros Hn Hle j. rewrite nth_error_upd. destruct (Nat.eqb_spec j i) as [->|Hne].
  - rewrite Hn. exact Hle.
  - destruct (nth_error l j); auto.
Qed.

Lemma residual_le c' c o s :
  trxs_le (c_trx c') (c_trx c) -> tps_le (c_tps c') (c_tps c) -> residual c' o s <= residual c o s.
Proof.
  intros Ht Hp. unfold residual.
  destruct s; try lia; destruct o as [i|i| |t|t]; try lia.
  all: try (specialize (Ht i); destruct (nth_error (c_trx c') i) as [x'|], (nth_error (c_trx c) i) as [x|];
            try contradiction; try lia; unfold trx_le in Ht; lia).
  all: try (specialize (Hp t); destruct (nth_error (c_tps c') t) as [x'|], (nth_error (c_tps c) t) as [x|];
            try contradiction; lia).
Qed.

Lemma measure_le c' c :
  c_main c' = c_main c -> trxs_le (c_trx c') (c_trx c) -> tps_le (c_tps c') (c_tps c) ->
  measure c' <= measure c.
Proof.
  intros Hm Ht Hp. unfold measure. rewrite Hm.
  destruct (c_main c) as [[[id todo] s]|]; [|lia].
  destruct todo as [|o todo]; [lia|].
  pose proof (residual_le c' c o s Ht Hp). lia.
Qed.

(* ------------------------------------------------------------------ the measure decreases *)
Lemma helps_main_none c e : c_main c = None -> helps c e = false.
Proof. intros H. unfold helps. rewrite H. reflexivity. Qed.

Ltac no_help :=
  let Hh := fresh "Hh" in
  intros Hh; unfold helps in Hh;
  repeat match type of Hh with
         | match ?x with _ => _ end = true => destruct x; try discriminate Hh
         end.

(* c' = set_trx c i x' with x' not more expensive than x *)
Lemma measure_set_trx c i x x' :
  nth_error (c_trx c) i = Some x -> trx_le x' x -> measure (set_trx c i x') <= measure c.
Proof.
  intros Hn Hle. apply measure_le; [reflexivity| |apply tps_le_refl].
  cbn [c_trx set_trx]. eapply trxs_le_upd; eauto.
Qed.

Lemma measure_set_tp c t x x' :
  nth_error (c_tps c) t = Some x -> mon_cost (i_mon x') <= mon_cost (i_mon x) ->
  measure (set_tp c t x') <= measure c.
Proof.
  intros Hn Hle. apply measure_le; [reflexivity|apply trxs_le_refl|].
  cbn [c_tps set_tp]. eapply tps_le_upd; eauto.
Qed.

Lemma measure_set_sctp c s : measure (set_sctp c s) = measure c.
Proof. reflexivity. Qed.

Lemma head_main c o s : head c = Some (o, s) -> exists id todo, c_main c = Some (id, o :: todo, s).
Proof.
  unfold head. destruct (c_main c) as [[[id todo] u]|]; [|discriminate].
  destruct todo as [|o' todo]; [discriminate|]. intros H. injection H as -> ->. eauto.
Qed.

Lemma trxs_le_map_disconnect l t : trxs_le (disconnect_all l t) l.
Proof.
  intros i. unfold disconnect_all. rewrite nth_error_map.
  destruct (nth_error l i) as [x|]; cbn [option_map]; auto.
  destruct (Nat.eqb (t_tp x) t); [|apply trx_le_refl].
  unfold trx_le, with_r, stop_decoder. destruct (r_dec (t_r x)); cbn; repeat split; lia.
Qed.

(* a sender / receiver that was not started has no task (part of the invariant, see inv below) *)
Definition unstarted_ok (x : trx) : Prop :=
  (s_started (t_s x) = false -> s_rtp (t_s x) = TNone /\ s_rtcp (t_s x) = TNone) /\
  (r_started (t_r x) = false -> r_rtcp (t_r x) = TNone /\ r_dec (t_r x) = false).
Definition wfA (c : cfg) : Prop := forall i x, nth_error (c_trx c) i = Some x -> unstarted_ok x.

Lemma task_end_fixed rtcp st ex st' :
  task_end true rtcp st ex = Some st' -> (st = TRunning \/ st = TCancelling) /\ st' = TExited /\ ex = true.
Proof.
  unfold task_end. destruct st, rtcp, ex; cbn; intros H; try discriminate; injection H as <-; auto.
Qed.

Lemma measure_set_sub c id o todo s s' :
  c_main c = Some (id, o :: todo, s) -> measure (set_sub c s') = residual c o s' + sum_cost todo + 1.
Proof.
  intros Hm. unfold set_sub, measure. rewrite Hm. cbn [c_main set_main].
  erewrite residual_ext; eauto.
Qed.

Lemma measure_main c id o todo s :
  c_main c = Some (id, o :: todo, s) -> measure c = residual c o s + sum_cost todo + 1.
Proof. intros Hm. unfold measure. rewrite Hm. reflexivity. Qed.

Ltac trxle := unfold trx_le, with_s, with_r, stop_decoder; cbn;
  repeat match goal with |- context [match ?x with _ => _ end] => destruct x; cbn end; repeat split; lia.

Lemma step_measure c e c' :
  step true c e = Some c' -> c_closed c <> FNone -> wfA c ->
  measure c' <= measure c /\ (helps c e = true -> measure c' < measure c).
Proof.
  intros HS Hcl HA. destruct e; cbn [step] in HS.
  - (* EIceStart *) inv_step HS; (split; [|no_help]); eapply measure_set_tp; eauto; cbn; rewrite ?E1; cbn; lia.
  - (* EIceStartRet *) inv_step HS; (split; [|no_help]); eapply measure_set_tp; eauto; cbn; lia.
  - inv_step HS; (split; [|no_help]); eapply measure_set_tp; eauto; cbn; lia.
  - inv_step HS; (split; [|no_help]); eapply measure_set_tp; eauto; cbn; lia.
  - (* ESend *) inv_step HS; (split; [|no_help]); try lia.
    eapply measure_set_trx; eauto. destruct (HA _ _ E) as [[H1 H2] _]; auto.
    unfold trx_le, with_s; cbn. rewrite H1, H2. cbn. repeat split; lia.
  - (* EReceive *) inv_step HS; (split; [|no_help]); try lia.
    eapply measure_set_trx; eauto. destruct (HA _ _ E) as [_ H1]. destruct (H1 E2) as [H3 _].
    unfold trx_le, with_r; cbn. rewrite H3. cbn. repeat split; lia.
  - (* ESctpStart *) inv_step HS; (split; [|no_help]); try lia; rewrite measure_set_sctp; lia.
  - (* ETaskBegin *)
    inv_step HS; (split; [eapply measure_set_trx; eauto; unfold trx_le, with_s, with_r; cbn; rewrite ?E1; cbn; repeat split; lia|]).
    all: intros Hh; unfold helps in Hh; destruct (c_main c) as [[[id todo] s]|] eqn:Em; [|discriminate Hh];
      destruct todo as [|o todo]; [discriminate Hh|]; destruct o, s; try discriminate Hh;
      cbn [kind_eqb andb orb] in Hh; try discriminate Hh; apply Nat.eqb_eq in Hh; subst;
      unfold measure; cbn [c_main set_trx]; rewrite Em; unfold residual; cbn [c_trx set_trx];
      erewrite nth_error_upd_same by eauto; rewrite E; unfold with_s, with_r; cbn; rewrite E1; cbn; lia.
  - (* ETaskEnd *)
    inv_step HS;
      match goal with H : task_end true _ _ _ = Some _ |- _ => apply task_end_fixed in H; destruct H as [Hst [-> ->]] end;
      (split; [eapply measure_set_trx; eauto; unfold trx_le, with_s, with_r; cbn; destruct Hst as [-> | ->]; cbn; repeat split; lia|]).
    all: intros Hh; unfold helps in Hh; destruct (c_main c) as [[[id todo] s]|] eqn:Em; [|discriminate Hh];
      destruct todo as [|o todo]; [discriminate Hh|]; destruct o, s; try discriminate Hh;
      cbn [kind_eqb andb orb] in Hh; try discriminate Hh; apply Nat.eqb_eq in Hh; subst;
      unfold measure; cbn [c_main set_trx]; rewrite Em; unfold residual; cbn [c_trx set_trx];
      erewrite nth_error_upd_same by eauto; rewrite E; unfold with_s, with_r; cbn; destruct Hst as [-> | ->]; cbn; lia.
  - (* EPumpEnd *)
    inv_step HS; (split; [|no_help]).
    + apply measure_le; [reflexivity|apply trxs_le_map_disconnect|]. cbn [c_tps]. eapply tps_le_upd; eauto.
    + eapply measure_set_tp; eauto.
    + eapply measure_set_tp; eauto.
  - (* EMonEnd *)
    inv_step HS. split; [eapply measure_set_tp; eauto; cbn; rewrite E0; cbn; lia|].
    intros Hh; unfold helps in Hh; destruct (c_main c) as [[[id todo] s]|] eqn:Em; [|discriminate Hh];
      destruct todo as [|o todo]; [discriminate Hh|]; destruct o, s; try discriminate Hh;
      apply Nat.eqb_eq in Hh; subst;
      unfold measure; cbn [c_main set_tp]; rewrite Em; unfold residual; cbn [c_tps set_tp];
      erewrite nth_error_upd_same by eauto; rewrite E; cbn; rewrite E0; cbn; lia.
  - (* ERemoteBye *)
    inv_step HS; (split; [|no_help]). eapply measure_set_trx; eauto.
    unfold trx_le, with_r, stop_decoder. destruct (r_dec (t_r t)); cbn; repeat split; lia.
  - (* EIceLost *) inv_step HS; (split; [|no_help]); eapply measure_set_tp; eauto; cbn; lia.
  - (* ENegoSig *) inv_step HS; (split; [|no_help]); apply measure_le; auto using trxs_le_refl, tps_le_refl.
  - (* EChanNew *) inv_step HS; (split; [|no_help]); rewrite measure_set_sctp; lia.
  - (* ESctpDown *) inv_step HS; (split; [|no_help]); rewrite measure_set_sctp; lia.
  - (* ECandEnd *) inv_step HS; (split; [|no_help]); eapply measure_set_tp; eauto; cbn; lia.
  - (* ECloseCall *)
    inv_step HS; [contradiction| |]; (split; [|no_help]); apply measure_le; auto using trxs_le_refl, tps_le_refl.
  - (* ECloseRet *)
    inv_step HS.
    all: try (split; [unfold measure; cbn [c_main]; try rewrite E; lia| intros _; unfold measure; cbn [c_main]; try rewrite E; lia]).
    all: try (split; [apply measure_le; auto using trxs_le_refl, tps_le_refl|]).
    all: try (unfold helps; rewrite ?E; try discriminate).
  - (* EStopCall *)
    destruct (head c) as [[o' s]|] eqn:Eh; [|discriminate]. destruct s; try discriminate.
    destruct (op_eqb o o') eqn:Eo; [|discriminate]. apply op_eqb_eq in Eo; subst o'.
    apply head_main in Eh. destruct Eh as (id & todo & Em).
    assert (measure c' < measure c); [|split; [lia|auto]].
    rewrite (measure_main _ _ _ _ _ Em). unfold stop_call in HS. destruct o; inv_step HS.
    all: erewrite measure_set_sub by (cbn [c_main set_trx set_tp set_sctp]; eauto).
    all: unfold residual; cbn [c_trx c_tps set_trx set_tp set_sctp op_cost];
      try (erewrite nth_error_upd_same by eauto); rewrite ?E; unfold with_r, stop_decoder; cbn.
    all: repeat match goal with |- context [if ?x then _ else _] => destruct x; cbn end;
      repeat match goal with |- context [begin_cost ?x] => destruct x; cbn end; lia.
  - (* EStopRet *)
    destruct (head c) as [[o' s]|] eqn:Eh; [|discriminate].
    destruct (op_eqb o o' && stop_ret c o s) eqn:Eo; [|discriminate].
    apply head_main in Eh. destruct Eh as (id & todo & Em).
    assert (measure c' < measure c); [|split; [lia|auto]].
    rewrite (measure_main _ _ _ _ _ Em). unfold pop_main in HS. rewrite Em in HS. injection HS as <-.
    unfold measure. cbn [c_main set_main].
    assert (1 <= residual c o' s).
    { unfold residual. destruct s, o'; cbn; repeat match goal with |- context [match ?x with _ => _ end] => destruct x; cbn end; lia. }
    destruct todo as [|o2 todo]; [lia|]. cbn [residual]. unfold sum_cost in *. cbn [fold_right]. lia.
  - (* ECancel *)
    assert (measure c' < measure c); [|split; [lia|auto]].
    unfold do_cancel in HS. inv_step HS.
    all: match goal with H : head _ = Some _ |- _ => apply head_main in H; destruct H as (id & todo & Em) end.
    all: match goal with H : Nat.eqb _ _ = true |- _ => apply Nat.eqb_eq in H; subst end.
    all: rewrite (measure_main _ _ _ _ _ Em); erewrite measure_set_sub by (cbn [c_main set_trx set_tp]; eauto).
    all: unfold residual; cbn [c_trx c_tps set_trx set_tp]; try (erewrite nth_error_upd_same by eauto);
      rewrite ?E5; unfold with_r, with_s; cbn.
    all: repeat match goal with |- context [cancel ?x] => destruct x; cbn end; lia.
  - (* EIceConnClosed *)
    assert (measure c' < measure c); [|split; [lia|auto]].
    inv_step HS.
    all: match goal with H : head _ = Some _ |- _ => apply head_main in H; destruct H as (id & todo & Em) end.
    all: match goal with H : Nat.eqb _ _ = true |- _ => apply Nat.eqb_eq in H; subst end.
    all: rewrite (measure_main _ _ _ _ _ Em); erewrite measure_set_sub by (cbn [c_main set_trx set_tp]; eauto).
    all: destruct (i_mon t1) eqn:Emon; unfold residual; cbn [c_trx c_tps set_trx set_tp];
      try (erewrite nth_error_upd_same by eauto); cbn; rewrite ?Emon; cbn; lia.
Qed.
