(* Proofs about Model/Rbe.v (property C15): the incoming bitrate handed to the
   rate controller is measured over exactly the packets of the last 1000 ms --
   the reset() calls of RemoteBitrateEstimator.add never discard a packet that
   is still inside the window. *)
From Coq Require Import ZArith List Bool Lia.
From AV Require Import Lib.Sx Lib.Bytes Model.RateCounter Model.Aimd Model.Rbe
  Proof.RateCounterP Proof.AimdP Proof.RbeP Proof.RbeEncP.
Import ListNotations.
Local Open Scope Z_scope.

(* `hist` = every packet of the history so far (newest first).  After each add():
   _total of the rate counter is the (count, sum) of exactly the packets with
   now - 1000 < t <= now, and latest_estimated_throughput is unchanged or equals
   round(8000 * window bytes / active) for an active window of 2..1000 ms. *)
Fixpoint measure_ok (s : rbe) (hist : list sample) (l : list arrival) : Prop :=
  match l with
  | [] => True
  | a :: l' =>
      let now := a_time a in
      let hist' := (now, a_size a) :: hist in
      match rbe_add s a with
      | Ok (s', o) =>
          total (incoming s') = (cnt (in_window 1000 now) hist', vsum (in_window 1000 now) hist') /\
          (latest (control s') = latest (control s) \/
           exists active, 2 <= active <= 1000 /\
             latest (control s') = round_div (8000 * vsum (in_window 1000 now) hist') active) /\
          measure_ok s' hist' l'
      | _ => False
      end
  end.

(* samples dropped by earlier resets are all older than the window *)
Definition covers (hist smp : list sample) (last : option Z) : Prop :=
  exists rest, hist = smp ++ rest /\
    forall t v, In (t, v) rest -> match last with Some l => t <= l - 1000 | None => False end.

Lemma window_same hist smp l now :
  covers hist smp (Some l) -> l <= now ->
  cnt (in_window 1000 now) hist = cnt (in_window 1000 now) smp /\
  vsum (in_window 1000 now) hist = vsum (in_window 1000 now) smp.
Proof.
  intros (rest & -> & Hr) Hle. rewrite cnt_app, vsum_app.
  rewrite (cnt_none _ rest), (vsum_none _ rest); [lia| |];
    intros t v Hin; apply Hr in Hin; unfold in_window;
    destruct (Z.ltb_spec (now - 1000) t); [lia|reflexivity| lia|reflexivity].
Qed.

Lemma rate_spec_form smp now x :
  rate_spec 1000 8000 smp now = Some x ->
  exists active, 2 <= active <= 1000 /\ x = round_div (8000 * vsum (in_window 1000 now) smp) active.
Proof.
  unfold rate_spec. destruct (oldest smp) as [f|]; [|discriminate].
  destruct (0 <? cnt _ smp); cbn [andb]; [|discriminate].
  destruct (Z.ltb_spec 1 (now - Z.max f (now - 1000 + 1) + 1)); [|discriminate].
  intros [= <-]. eexists. split; [|reflexivity]. lia.
Qed.

Lemma measure_run l : forall s smp last hist,
  RInv0 s smp last -> covers hist smp last -> nondecreasing (ocons last (map a_time l)) ->
  measure_ok s hist l.
Proof.
  induction l as [|a l IH]; intros s smp last hist H0 Hc Hm; cbn [measure_ok]; [exact I|].
  assert (Hle : le_opt last (a_time a)).
  { destruct last as [t|]; cbn [le_opt]; [|exact I]. cbn in Hm. lia. }
  assert (Hm' : nondecreasing (ocons (Some (a_time a)) (map a_time l))).
  { destruct last as [t|]; cbn [ocons map] in Hm |- *; [apply nondecreasing_cons in Hm|]; exact Hm. }
  destruct (rbe_add_ok s smp last a H0 Hle) as (s1 & o & smp1 & E & H01 & _ & _ & Hsh & Hctl).
  rewrite E. set (now := a_time a) in *.
  assert (Hc1 : covers ((now, a_size a) :: hist) smp1 (Some now)).
  { destruct Hc as (rest & -> & Hr). destruct Hsh as [->|[-> Hold]].
    - exists rest. split; [reflexivity|]. intros t v Hin. specialize (Hr t v Hin).
      destruct last as [l0|]; [cbn [le_opt] in Hle; lia|contradiction].
    - exists (smp ++ rest). split; [reflexivity|]. intros t v Hin. apply in_app_or in Hin.
      destruct Hin as [Hin|Hin]; [apply (Hold t v Hin)|].
      specialize (Hr t v Hin). destruct last as [l0|]; [cbn [le_opt] in Hle; lia|contradiction]. }
  destruct (window_same _ _ now now Hc1 (Z.le_refl _)) as [Wc Wv].
  split; [|split].
  - destruct H01 as (HI1 & HW1 & _). rewrite (Inv_total _ _ _ HI1), HW1. unfold tally. now rewrite Wc, Wv.
  - destruct Hctl as [[-> _]|(et & r & Eet & _ & Eu & _)]; [now left|].
    destruct (update_latest _ _ _ _ _ _ _ Eu) as [El|El]; [now left|right].
    rewrite Eet in El. destruct (rate_spec_form _ _ _ El) as (active & Ha & Hx).
    exists active. split; [exact Ha|]. rewrite Hx, Wv. reflexivity.
  - exact (IH s1 smp1 (Some now) _ H01 Hc1 Hm').
Qed.

Theorem rbe_measure_exact : forall l,
  nondecreasing (map a_time l) -> measure_ok rbe_init [] l.
Proof.
  intros l Hm. apply (measure_run l rbe_init [] None [] RInv0_init); [|exact Hm].
  exists []. split; [reflexivity|]. intros t v [].
Qed.
