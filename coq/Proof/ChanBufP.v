(* C13: bufferedAmount always equals the bytes accepted by send() and not yet handed to
   the transport, for every input list (every interleaving of sends, flushes with any
   congestion oracle, closes, association events and received messages). *)
From Coq Require Import ZArith List Bool Lia Arith FinFun.
From AV Require Import Lib.Bytes Lib.BytesP Gen.Utils Gen.SctpConst Model.Chan Proof.ChanP.
Import ListNotations.
Local Open Scope Z_scope.

Definition counts (h : nat) (it : nat * Z * bytes) : bool :=
  Nat.eqb (fst (fst it)) h && negb (Z.eqb (snd (fst it)) WEBRTC_DCEP).
Definition qsum (q : list (nat * Z * bytes)) (h : nat) : Z :=
  fold_right (fun it acc => (if counts h it then len (snd it) else 0) + acc) 0 q.

Definition binv (s : st) : Prop :=
  forall h, (h < length (chans s))%nat -> ch_state (getc s h) <> Closed -> ch_buf (getc s h) = qsum (queue s) h.

Lemma qsum_app q1 q2 h : qsum (q1 ++ q2) h = qsum q1 h + qsum q2 h.
Proof. unfold qsum. induction q1 as [|it q IH]; cbn [app fold_right]; [lia|]. rewrite IH. lia. Qed.
Lemma qsum_nil h : qsum [] h = 0. Proof. reflexivity. Qed.
Lemma qsum_cons it q h : qsum (it :: q) h = (if counts h it then len (snd it) else 0) + qsum q h.
Proof. reflexivity. Qed.
Lemma qsum_nonneg q h : 0 <= qsum q h.
Proof.
  induction q as [|it q IH]; [rewrite qsum_nil; lia|]. rewrite qsum_cons.
  destruct (counts h it); [pose proof (len_nonneg (snd it))|]; lia.
Qed.
Lemma qsum_filter_other q h h' : h <> h' ->
  qsum (filter (fun it => negb (Nat.eqb (fst (fst it)) h')) q) h = qsum q h.
Proof.
  intros Hne. induction q as [|it q IH]; cbn [filter]; [reflexivity|].
  destruct (Nat.eqb_spec (fst (fst it)) h') as [E|E]; cbn [negb].
  - rewrite qsum_cons, IH. unfold counts. destruct (Nat.eqb_spec (fst (fst it)) h); [congruence|]. cbn. lia.
  - rewrite !qsum_cons, IH. reflexivity.
Qed.
Lemma qsum_filter_self q h : qsum (filter (fun it => negb (Nat.eqb (fst (fst it)) h)) q) h = 0.
Proof.
  induction q as [|it q IH]; cbn [filter]; [reflexivity|].
  destruct (Nat.eqb_spec (fst (fst it)) h) as [E|E]; cbn [negb]; [exact IH|].
  rewrite qsum_cons, IH. unfold counts. destruct (Nat.eqb_spec (fst (fst it)) h); [congruence|]. cbn. lia.
Qed.

(* ---- how the primitives touch buf / state / queue *)
Lemma getc_set_ready s h r h' :
  getc (fst (set_ready s h r)) h' =
  if (Nat.eqb h h' && Nat.ltb h (length (chans s)) && negb (rstate_eqb (ch_state (getc s h)) r))%bool
  then with_state (getc s h) r else getc s h'.
Proof.
  unfold set_ready. destruct (rstate_eqb (ch_state (getc s h)) r); cbn [fst negb]; [now rewrite andb_false_r|].
  rewrite getc_setc, andb_true_r. reflexivity.
Qed.

Lemma set_ready_queue s h r : queue (fst (set_ready s h r)) = queue s.
Proof. unfold set_ready. destruct (rstate_eqb _ _); reflexivity. Qed.
Lemma set_ready_buf s h r h' : ch_buf (getc (fst (set_ready s h r)) h') = ch_buf (getc s h').
Proof.
  rewrite getc_set_ready. destruct (_ && _ && _)%bool eqn:E; [|reflexivity].
  apply andb_true_iff in E as [E _]. apply andb_true_iff in E as [E _]. apply Nat.eqb_eq in E. subst. reflexivity.
Qed.
Lemma set_ready_state_other s h r h' : h <> h' -> ch_state (getc (fst (set_ready s h r)) h') = ch_state (getc s h').
Proof. intros Hne. rewrite getc_set_ready. destruct (Nat.eqb_spec h h'); [contradiction|reflexivity]. Qed.

Lemma binv_set_ready s h r : rank (ch_state (getc s h)) <= rank r -> binv s -> binv (fst (set_ready s h r)).
Proof.
  intros Hmono B h' Hl Hst. rewrite set_ready_length in Hl. rewrite set_ready_buf, set_ready_queue.
  apply B; [exact Hl|]. intros E. apply Hst. rewrite getc_set_ready.
  destruct (_ && _ && _)%bool eqn:E2; [|exact E].
  apply andb_true_iff in E2 as [E2 E3]. apply andb_true_iff in E2 as [E2 _]. apply Nat.eqb_eq in E2. subst h'.
  exfalso. rewrite E in Hmono. unfold rstate_eqb in E3. rewrite E in E3. destruct r; cbn in *; try lia; discriminate.
Qed.

Lemma getc_add_buffered s h a h' :
  getc (fst (add_buffered s h a)) h' =
  if (Nat.eqb h h' && Nat.ltb h (length (chans s)))%bool then with_buf (getc s h) (ch_buf (getc s h) + a) else getc s h'.
Proof. unfold add_buffered. cbn [fst]. apply getc_setc. Qed.

Lemma add_buffered_length s h a : length (chans (fst (add_buffered s h a))) = length (chans s).
Proof. unfold add_buffered. cbn [fst]. apply setc_length. Qed.

Lemma getc_out_of_range s h : (length (chans s) <= h)%nat -> getc s h = dummy.
Proof. intros H. unfold getc. now apply nth_overflow. Qed.

(* --- flush *)
Lemma binv_flush_loop : forall fuel s oracle, wf s -> binv s ->
  binv (fst (flush_loop fuel s oracle)) /\ wf (fst (flush_loop fuel s oracle)).
Proof.
  induction fuel as [|f IH]; intros s oracle W B; cbn [flush_loop]; [auto|].
  destruct (queue s) as [|[[h pp] data] q'] eqn:Eq; [auto|].
  assert (Hh : (h < length (chans s))%nat).
  { destruct W as [_ Wq]. rewrite Eq in Wq. inversion Wq; subst. assumption. }
  set (s1 := set_queue s q').
  (* id assignment: no change of buf / state / queue *)
  set (p2 := match ch_id (getc s1 h) with
             | Some i => (s1, i)
             | None => let i := pick_id (S (length (table s1))) (table s1) (dc_id s1) in
                       (setc (set_table s1 (tset (table s1) i h)) h (with_id (getc s1 h) (Some i)), i)
             end).
  assert (H2 : length (chans (fst p2)) = length (chans s) /\ queue (fst p2) = q' /\
               (forall h', ch_buf (getc (fst p2) h') = ch_buf (getc s h') /\
                           ch_state (getc (fst p2) h') = ch_state (getc s h')) /\ wf (fst p2)).
  { unfold p2. destruct (ch_id (getc s1 h)) eqn:Ei; cbn [fst].
    - split; [reflexivity|]. split; [reflexivity|]. split; [intros h'; split; reflexivity|].
      destruct W as [A Bq]. split; [exact A|]. cbn [queue s1 set_queue]. rewrite Eq in Bq. now inversion Bq.
    - rewrite setc_length. split; [reflexivity|]. split; [reflexivity|]. split.
      + intros h'. rewrite getc_setc. destruct (_ && _)%bool eqn:E; [|auto].
        apply andb_true_iff in E as [E _]. apply Nat.eqb_eq in E. subst h'. auto.
      + apply wf_setc. destruct W as [A Bq]. split; cbn [table queue set_table s1 set_queue chans].
        * apply tset_handles; [exact A|exact Hh].
        * rewrite Eq in Bq. now inversion Bq. }
  destruct p2 as [s2 sidv]. cbn [fst] in H2. destruct H2 as (L2 & Q2 & G2 & W2).
  set (p3 := if pp =? WEBRTC_DCEP then (s2, [EvSend sidv pp data true None None])
             else let '(s', e) := add_buffered s2 h (- len data) in
                  (s', EvSend sidv pp data (ch_ordered (getc s2 h)) (ch_maxrt (getc s2 h))
                              match ch_maxlt (getc s2 h) with Some 0 => None | x => x end :: e)).
  assert (H3 : binv (fst p3) /\ wf (fst p3)).
  { unfold p3. destruct (Z.eqb_spec pp WEBRTC_DCEP) as [Epp|Epp].
    - cbn [fst]. split; [|exact W2]. intros h' Hl Hst. destruct (G2 h') as [Gb Gs].
      rewrite Gb, Q2. rewrite Gs in Hst. rewrite L2 in Hl. rewrite (B h' Hl Hst), Eq, qsum_cons.
      unfold counts. cbn [fst snd]. rewrite Epp, Z.eqb_refl, andb_false_r. lia.
    - rewrite (pair_eta (add_buffered s2 h (- len data))). cbn [fst]. split.
      + intros h' Hl Hst. rewrite add_buffered_length in Hl.
        rewrite getc_add_buffered in Hst |- *. unfold add_buffered. cbn [fst queue setc]. rewrite Q2.
        assert (Hlt : Nat.ltb h (length (chans s2)) = true) by (apply Nat.ltb_lt; lia).
        rewrite Hlt, andb_true_r in *. destruct (G2 h') as [Gb Gs]. destruct (G2 h) as [Gbh Gsh].
        destruct (Nat.eqb_spec h h') as [<-|Hne].
        * cbn [with_buf ch_buf ch_state] in *. rewrite Gsh in Hst. rewrite Gbh, (B h Hh Hst), Eq, qsum_cons.
          unfold counts. cbn [fst snd]. rewrite Nat.eqb_refl. destruct (Z.eqb_spec pp WEBRTC_DCEP); [contradiction|]. cbn. lia.
        * rewrite Gs in Hst. rewrite Gb, L2 in *. rewrite (B h' Hl Hst), Eq, qsum_cons.
          unfold counts. cbn [fst snd]. destruct (Nat.eqb_spec h h'); [contradiction|]. cbn. lia.
      + unfold add_buffered. cbn [fst]. now apply wf_setc. }
  destruct p3 as [s3 evs]. cbn [fst] in H3. destruct H3 as [B3 W3].
  destruct (match oracle with b :: _ => b | [] => false end); cbn [fst]; [auto|].
  rewrite (pair_eta (flush_loop f s3 (tl oracle))). cbn [fst]. now apply IH.
Qed.

Lemma binv_flush s oracle : wf s -> binv s -> binv (fst (flush s oracle)) /\ wf (fst (flush s oracle)).
Proof. intros W B. unfold flush. destruct (_ && _); [now apply binv_flush_loop|auto]. Qed.

(* ---------------------------------------------------------------- ids: fresh and of the role's parity *)
Lemma tget_in t k : tget t k <> None -> In k (map fst t).
Proof.
  induction t as [|[k' v] t IH]; cbn [tget map fst In]; [congruence|].
  destruct (Z.eqb_spec k k'); [left; congruence|intros H; right; now apply IH].
Qed.

Lemma pick_id_cases t : forall fuel i,
  (forall m, (m < fuel)%nat -> tget t (i + 2 * Z.of_nat m) <> None) \/ tget t (pick_id fuel t i) = None.
Proof.
  induction fuel as [|f IH]; intros i; [left; intros m Hm; lia|]. cbn [pick_id].
  destruct (tget t i) eqn:E; [|right; exact E].
  destruct (IH (i + 2)) as [H|H]; [left|right; exact H].
  intros m Hm. destruct m as [|m]; [rewrite Z.mul_0_r, Z.add_0_r; congruence|].
  replace (i + 2 * Z.of_nat (S m)) with (i + 2 + 2 * Z.of_nat m) by lia. apply H. lia.
Qed.

Lemma pick_id_fresh t i : tget t (pick_id (S (length t)) t i) = None.
Proof.
  destruct (pick_id_cases t (S (length t)) i) as [H|H]; [exfalso|exact H].
  set (l := map (fun m => i + 2 * Z.of_nat m) (seq 0 (S (length t)))).
  assert (Hnd : NoDup l).
  { unfold l. apply FinFun.Injective_map_NoDup; [|apply seq_NoDup]. intros a b E. lia. }
  assert (Hin : incl l (map fst t)).
  { intros x Hx. unfold l in Hx. apply in_map_iff in Hx as (m & <- & Hm). apply in_seq in Hm. apply tget_in, H. lia. }
  pose proof (NoDup_incl_length Hnd Hin) as Hlen. unfold l in Hlen. rewrite !map_length, seq_length in Hlen. lia.
Qed.

Lemma pick_id_parity t : forall fuel i, (pick_id fuel t i - i) mod 2 = 0 /\ i <= pick_id fuel t i.
Proof.
  induction fuel as [|f IH]; intros i; cbn [pick_id]; [rewrite Z.sub_diag; split; [reflexivity|lia]|].
  destruct (tget t i); [|rewrite Z.sub_diag; split; [reflexivity|lia]].
  destruct (IH (i + 2)) as [H1 H2]. split; [|lia].
  replace (pick_id f t (i + 2) - i) with ((pick_id f t (i + 2) - (i + 2)) + 1 * 2) by lia.
  rewrite Z.mod_add by lia. exact H1.
Qed.

(* table lookups *)
Lemma tget_tset_fresh t k v k' : tget t k = None -> tget (tset t k v) k' = if Z.eqb k' k then Some v else tget t k'.
Proof.
  intros Hf. unfold tset. rewrite Hf. induction t as [|[a b] t IH]; cbn [app tget].
  - destruct (k' =? k); reflexivity.
  - cbn [tget] in Hf. destruct (Z.eqb_spec k a) as [->|Hne]; [discriminate|].
    destruct (Z.eqb_spec k' a) as [->|Hne'].
    + destruct (Z.eqb_spec a k); [congruence|reflexivity].
    + now apply IH.
Qed.

Lemma tget_tdel t k k' : tget (tdel t k) k' = if Z.eqb k' k then None else tget t k'.
Proof.
  induction t as [|[a b] t IH]; cbn [tdel tget]; [now destruct (k' =? k)|].
  destruct (Z.eqb_spec k a) as [->|Hne].
  - rewrite IH. destruct (Z.eqb_spec k' a); reflexivity.
  - cbn [tget]. destruct (Z.eqb_spec k' a) as [->|Hne'].
    + destruct (Z.eqb_spec a k); [congruence|reflexivity].
    + exact IH.
Qed.

(* every live channel that has an id is registered under it *)
Definition t2 (s : st) : Prop :=
  forall h i, (h < length (chans s))%nat -> ch_state (getc s h) <> Closed -> ch_id (getc s h) = Some i ->
              tget (table s) i = Some h.

Definition cinv (s : st) : Prop := wf s /\ binv s /\ t2 s.

(* --- closing *)
Lemma cinv_close_local s1 h : (h < length (chans s1))%nat -> ch_state (getc s1 h) <> Closed -> cinv s1 ->
  cinv (fst (close_local s1 h (ch_id (getc s1 h)))) /\ ~ In (EvRaise 3) (snd (close_local s1 h (ch_id (getc s1 h)))).
Proof.
  intros Hh Hlive (W & B & T). unfold close_local.
  set (s2 := set_queue s1 (filter (fun it => negb (Nat.eqb (fst (fst it)) h)) (queue s1))).
  assert (W2 : wf s2).
  { destruct W as [A Bq]. split; [exact A|]. cbn [queue s2 set_queue chans]. rewrite Forall_forall in *.
    intros x Hx. apply filter_In in Hx as [Hx _]. now apply Bq. }
  assert (B2 : forall h', h' <> h -> (h' < length (chans s2))%nat -> ch_state (getc s2 h') <> Closed ->
                          ch_buf (getc s2 h') = qsum (queue s2) h').
  { intros h' Hne Hl Hst. cbn [queue s2 set_queue]. rewrite qsum_filter_other by exact Hne. now apply B. }
  (* closing h after an arbitrary table update that keeps the others' registrations *)
  assert (Hfin : forall t', Forall (fun kv : Z * nat => (snd kv < length (chans s1))%nat) t' ->
                   (forall h' i, h' <> h -> (h' < length (chans s1))%nat -> ch_state (getc s1 h') <> Closed ->
                                 ch_id (getc s1 h') = Some i -> tget t' i = Some h') ->
                   cinv (fst (set_ready (set_table s2 t') h Closed))).
  { intros t' Ht' Hreg. split; [|split].
    - pose proof (set_ready_good (set_table s2 t') h Closed Hh) as G.
      assert (Wt : wf (set_table s2 t')) by (destruct W2 as [_ Bq]; split; [exact Ht'|exact Bq]).
      refine (proj1 (G _ Wt)). destruct (ch_state _); cbn; lia.
    - intros h' Hl Hst. rewrite set_ready_length in Hl. rewrite set_ready_buf, set_ready_queue.
      destruct (Nat.eq_dec h' h) as [->|Hne].
      + exfalso. apply Hst. rewrite getc_set_ready, Nat.eqb_refl.
        assert (Hlt : Nat.ltb h (length (chans (set_table s2 t'))) = true) by (apply Nat.ltb_lt; exact Hh).
        rewrite Hlt. cbn [andb]. destruct (rstate_eqb (ch_state (getc (set_table s2 t') h)) Closed) eqn:E; cbn [negb].
        * unfold rstate_eqb in E. apply Z.eqb_eq in E. destruct (ch_state (getc (set_table s2 t') h)); cbn in E; try lia. reflexivity.
        * reflexivity.
      + rewrite set_ready_state_other in Hst by congruence. now apply B2.
    - intros h' i Hl Hst Hid. rewrite set_ready_length in Hl.
      destruct (Nat.eq_dec h' h) as [->|Hne].
      + exfalso. apply Hst. rewrite getc_set_ready, Nat.eqb_refl.
        assert (Hlt : Nat.ltb h (length (chans (set_table s2 t'))) = true) by (apply Nat.ltb_lt; exact Hh).
        rewrite Hlt. cbn [andb]. destruct (rstate_eqb (ch_state (getc (set_table s2 t') h)) Closed) eqn:E; cbn [negb].
        * unfold rstate_eqb in E. apply Z.eqb_eq in E. destruct (ch_state (getc (set_table s2 t') h)); cbn in E; try lia. reflexivity.
        * reflexivity.
      + rewrite set_ready_state_other in Hst by congruence.
        rewrite getc_set_ready in Hid. destruct (Nat.eqb_spec h h'); [congruence|]. cbn [andb] in Hid.
        unfold set_ready. destruct (rstate_eqb _ _); cbn [fst table setc set_table]; now apply Hreg. }
  assert (Hno : forall s3 r, ~ In (EvRaise 3) (snd (set_ready s3 h r))).
  { intros s3 r. unfold set_ready. destruct (rstate_eqb _ _); cbn [snd]; [intros []|]. destruct r; cbn; intuition discriminate. }
  destruct (ch_id (getc s1 h)) as [i|] eqn:Eid.
  - assert (Et : tget (table s2) i = Some h) by (apply (T h i Hh Hlive Eid)).
    rewrite Et. split; [|apply Hno]. apply Hfin.
    + apply tdel_handles. destruct W as [A _]. exact A.
    + intros h' i' Hne Hl Hst Hid. cbn [table s2 set_queue]. rewrite tget_tdel.
      destruct (Z.eqb_spec i' i) as [->|Hn]; [|now apply T].
      pose proof (T h' i Hl Hst Hid) as E1. pose proof (T h i Hh Hlive Eid) as E2. congruence.
  - split; [|apply Hno].
    change s2 with (set_table s2 (table s2)). apply Hfin.
    + destruct W as [A _]. exact A.
    + intros h' i' Hne Hl Hst Hid. now apply T.
Qed.

(* ---------------------------------------------------------------- generic preservation helpers *)
Lemma cinv_set_ready s h r : (h < length (chans s))%nat -> rank (ch_state (getc s h)) <= rank r ->
  cinv s -> cinv (fst (set_ready s h r)).
Proof.
  intros Hh Hm (W & B & T). split; [|split].
  - exact (proj1 (set_ready_good s h r Hh Hm W)).
  - now apply binv_set_ready.
  - intros h' i Hl Hst Hid. rewrite set_ready_length in Hl.
    assert (Et : table (fst (set_ready s h r)) = table s) by (unfold set_ready; destruct (rstate_eqb _ _); reflexivity).
    rewrite Et. rewrite getc_set_ready in Hst, Hid.
    destruct (_ && _ && _)%bool eqn:E.
    + apply andb_true_iff in E as [E E3]. apply andb_true_iff in E as [E _]. apply Nat.eqb_eq in E. subst h'.
      cbn [with_state ch_id ch_state] in *. apply T; auto.
      intros Ec. rewrite Ec in Hm. unfold rstate_eqb in E3. rewrite Ec in E3. destruct r; cbn in *; try lia; try discriminate; try congruence.
    + now apply T.
Qed.

Lemma set_ready_no3 s h r : ~ In (EvRaise 3) (snd (set_ready s h r)).
Proof. unfold set_ready. destruct (rstate_eqb _ _); cbn [snd]; [intros []|]. destruct r; cbn; intuition discriminate. Qed.

Lemma cinv_same s s' : chans s' = chans s -> table s' = table s -> queue s' = queue s -> cinv s -> cinv s'.
Proof.
  intros Ec Et Eq (W & B & T).
  assert (Eg : forall x, getc s' x = getc s x) by (intros x; unfold getc; now rewrite Ec).
  split; [|split].
  - destruct W as [A Bq]. split; rewrite ?Et, ?Eq, Ec; assumption.
  - intros h Hl Hst. rewrite Eg in *. rewrite Eq. rewrite Ec in Hl. now apply B.
  - intros h i Hl Hst Hid. rewrite Eg in *. rewrite Et. rewrite Ec in Hl. now apply T.
Qed.

(* --- flush with the registration invariant *)
Lemma cinv_flush_loop : forall fuel s oracle, cinv s ->
  cinv (fst (flush_loop fuel s oracle)) /\ ~ In (EvRaise 3) (snd (flush_loop fuel s oracle)).
Proof.
  induction fuel as [|f IH]; intros s oracle C; cbn [flush_loop]; [split; [exact C|intros []]|].
  destruct (queue s) as [|[[h pp] data] q'] eqn:Eq; [split; [exact C|intros []]|].
  destruct C as (W & B & T).
  assert (Hh : (h < length (chans s))%nat).
  { destruct W as [_ Wq]. rewrite Eq in Wq. inversion Wq; subst. assumption. }
  set (s1 := set_queue s q').
  set (p2 := match ch_id (getc s1 h) with
             | Some i => (s1, i)
             | None => let i := pick_id (S (length (table s1))) (table s1) (dc_id s1) in
                       (setc (set_table s1 (tset (table s1) i h)) h (with_id (getc s1 h) (Some i)), i)
             end).
  (* everything the next step needs about s2 *)
  assert (H2 : length (chans (fst p2)) = length (chans s) /\ queue (fst p2) = q' /\
               (forall h', ch_buf (getc (fst p2) h') = ch_buf (getc s h') /\
                           ch_state (getc (fst p2) h') = ch_state (getc s h')) /\ wf (fst p2) /\ t2 (fst p2)).
  { unfold p2. destruct (ch_id (getc s1 h)) eqn:Ei; cbn [fst].
    - split; [reflexivity|]. split; [reflexivity|]. split; [intros h'; split; reflexivity|].
      split; [destruct W as [A Bq]; split; [exact A|]; cbn [queue s1 set_queue]; rewrite Eq in Bq; now inversion Bq|].
      exact T.
    - set (i := pick_id (S (length (table s1))) (table s1) (dc_id s1)).
      pose proof (pick_id_fresh (table s1) (dc_id s1)) as Hfresh. fold i in Hfresh.
      rewrite setc_length. split; [reflexivity|]. split; [reflexivity|]. split.
      + intros h'. rewrite getc_setc. destruct (_ && _)%bool eqn:E; [|auto].
        apply andb_true_iff in E as [E _]. apply Nat.eqb_eq in E. subst h'. auto.
      + split.
        * apply wf_setc. destruct W as [A Bq]. split; cbn [table queue set_table s1 set_queue chans].
          -- apply tset_handles; [exact A|exact Hh].
          -- rewrite Eq in Bq. now inversion Bq.
        * intros h' i' Hl Hst Hid. rewrite setc_length in Hl. cbn [table setc set_table].
          rewrite getc_setc in Hst, Hid. cbn [chans set_table s1 set_queue] in Hst, Hid, Hl.
          assert (Hlt : Nat.ltb h (length (chans s)) = true) by (apply Nat.ltb_lt; exact Hh).
          rewrite Hlt, andb_true_r in Hst, Hid. rewrite tget_tset_fresh by exact Hfresh.
          destruct (Nat.eqb_spec h h') as [<-|Hne].
          -- cbn [with_id ch_id] in Hid. injection Hid as <-. now rewrite Z.eqb_refl.
          -- change (getc (set_table s1 (tset (table s1) i h)) h') with (getc s h') in Hst, Hid.
             destruct (Z.eqb_spec i' i) as [->|Hn]; [|now apply T].
             pose proof (T h' i Hl Hst Hid) as E1. cbn [table s1 set_queue] in Hfresh. congruence. }
  destruct p2 as [s2 sidv]. cbn [fst] in H2. destruct H2 as (L2 & Q2 & G2 & W2 & T2).
  set (p3 := if pp =? WEBRTC_DCEP then (s2, [EvSend sidv pp data true None None])
             else let '(s', e) := add_buffered s2 h (- len data) in
                  (s', EvSend sidv pp data (ch_ordered (getc s2 h)) (ch_maxrt (getc s2 h))
                              match ch_maxlt (getc s2 h) with Some 0 => None | x => x end :: e)).
  assert (H3 : cinv (fst p3) /\ ~ In (EvRaise 3) (snd p3)).
  { unfold p3. destruct (Z.eqb_spec pp WEBRTC_DCEP) as [Epp|Epp].
    - cbn [fst snd]. split; [|intros [X|[]]; discriminate]. split; [exact W2|]. split; [|exact T2].
      intros h' Hl Hst. destruct (G2 h') as [Gb Gs].
      rewrite Gb, Q2. rewrite Gs in Hst. rewrite L2 in Hl. rewrite (B h' Hl Hst), Eq, qsum_cons.
      unfold counts. cbn [fst snd]. rewrite Epp, Z.eqb_refl, andb_false_r. lia.
    - rewrite (pair_eta (add_buffered s2 h (- len data))). cbn [fst snd]. split.
      + split; [unfold add_buffered; cbn [fst]; now apply wf_setc|]. split.
        * intros h' Hl Hst. rewrite add_buffered_length in Hl.
          rewrite getc_add_buffered in Hst |- *. unfold add_buffered. cbn [fst queue setc]. rewrite Q2.
          assert (Hlt : Nat.ltb h (length (chans s2)) = true) by (apply Nat.ltb_lt; lia).
          rewrite Hlt, andb_true_r in *. destruct (G2 h') as [Gb Gs]. destruct (G2 h) as [Gbh Gsh].
          destruct (Nat.eqb_spec h h') as [<-|Hne].
          -- cbn [with_buf ch_buf ch_state] in *. rewrite Gsh in Hst. rewrite Gbh, (B h Hh Hst), Eq, qsum_cons.
             unfold counts. cbn [fst snd]. rewrite Nat.eqb_refl. destruct (Z.eqb_spec pp WEBRTC_DCEP); [contradiction|]. cbn. lia.
          -- rewrite Gs in Hst. rewrite Gb, L2 in *. rewrite (B h' Hl Hst), Eq, qsum_cons.
             unfold counts. cbn [fst snd]. destruct (Nat.eqb_spec h h'); [contradiction|]. cbn. lia.
        * intros h' i' Hl Hst Hid. rewrite add_buffered_length in Hl. rewrite getc_add_buffered in Hst, Hid.
          unfold add_buffered. cbn [fst table setc].
          destruct (_ && _)%bool eqn:E; [|now apply T2].
          apply andb_true_iff in E as [E _]. apply Nat.eqb_eq in E. subst h'. cbn [with_buf ch_id ch_state] in *. now apply T2.
      + unfold add_buffered. destruct (_ && _)%bool; cbn [snd In]; intuition discriminate. }
  destruct p3 as [s3 evs]. cbn [fst snd] in H3. destruct H3 as [C3 N3].
  destruct (match oracle with b :: _ => b | [] => false end); cbn [fst snd]; [auto|].
  rewrite (pair_eta (flush_loop f s3 (tl oracle))). cbn [fst snd].
  destruct (IH s3 (tl oracle) C3) as [C4 N4]. split; [exact C4|]. intros Hin. apply in_app_or in Hin as [X|X]; auto.
Qed.

Lemma cinv_flush s oracle : cinv s -> cinv (fst (flush s oracle)) /\ ~ In (EvRaise 3) (snd (flush s oracle)).
Proof. intros C. unfold flush. destruct (_ && _); [now apply cinv_flush_loop|split; [exact C|intros []]]. Qed.

Definition no3 (evs : list event) : Prop := ~ In (EvRaise 3) evs.
Lemma no3_app a b : no3 a -> no3 b -> no3 (a ++ b).
Proof. unfold no3. intros A B H. apply in_app_or in H as [H|H]; auto. Qed.
Lemma no3_nil : no3 []. Proof. intros []. Qed.

Definition wf_in (i : input) : Prop :=
  match i with ISend _ pp _ => pp <> WEBRTC_DCEP | _ => True end.

Lemma getc_add_chan s c h' : getc (fst (add_chan s c)) h' =
  if Nat.eqb h' (length (chans s)) then c else getc s h'.
Proof.
  unfold add_chan, getc. cbn [fst chans]. destruct (Nat.eqb_spec h' (length (chans s))) as [->|Hne].
  - rewrite app_nth2 by lia. now rewrite Nat.sub_diag.
  - destruct (Nat.lt_ge_cases h' (length (chans s))); [now rewrite app_nth1|].
    rewrite !nth_overflow; [reflexivity|lia|rewrite app_length; cbn; lia].
Qed.

Lemma cinv_add_chan s c : ch_state c = Connecting -> ch_buf c = 0 -> cinv s ->
  (match ch_id c with Some i => tget (table s) i = None | None => True end) ->
  forall q', (forall h, qsum q' h = qsum (queue s) h) ->
    Forall (fun it : nat * Z * bytes => (fst (fst it) < S (length (chans s)))%nat) q' ->
    (forall h, (h < length (chans s))%nat -> True) ->
  let s1 := fst (add_chan s c) in
  let t1 := match ch_id c with Some i => tset (table s1) i (length (chans s)) | None => table s1 end in
  cinv (set_queue (set_table s1 t1) q').
Proof.
  intros Hst Hb (W & B & T) Hfresh q' Hq Hwq _ s1 t1.
  assert (L1 : length (chans s1) = S (length (chans s))) by (unfold s1, add_chan; cbn [fst chans]; rewrite app_length; cbn; lia).
  assert (Eg : forall x, getc (set_queue (set_table s1 t1) q') x = getc s1 x) by reflexivity.
  split; [|split].
  - split; cbn [table queue set_queue set_table chans]; rewrite L1.
    + unfold t1. destruct (ch_id c) as [i|].
      * apply tset_handles; [|lia]. destruct W as [A _]. eapply Forall_impl; [|exact A]. intros kv Hkv. cbn beta in *. lia.
      * destruct W as [A _]. eapply Forall_impl; [|exact A]. intros kv Hkv. cbn beta in *. lia.
    + exact Hwq.
  - intros h Hl Hs. assert (Hl2 : (h < S (length (chans s)))%nat) by (rewrite <- L1; exact Hl). clear Hl.
    cbn [queue set_queue]. rewrite Hq. rewrite Eg in *. unfold s1 in *. rewrite getc_add_chan in *.
    destruct (Nat.eqb_spec h (length (chans s))) as [Heq|Hne]; [rewrite Heq in *; clear Heq|].
    + rewrite Hb. (* nothing of the new handle is queued in the old queue *)
      destruct W as [_ Bq]. clear - Bq. induction (queue s) as [|it q IH]; [reflexivity|].
      inversion Bq; subst. rewrite qsum_cons, <- IH by assumption. unfold counts.
      destruct (Nat.eqb_spec (fst (fst it)) (length (chans s))); [lia|reflexivity].
    + apply B; [lia|exact Hs].
  - intros h i Hl Hs Hid. assert (Hl2 : (h < S (length (chans s)))%nat) by (rewrite <- L1; exact Hl). clear Hl.
    cbn [table set_queue set_table]. rewrite Eg in *. unfold s1 in Hs, Hid. rewrite getc_add_chan in Hs, Hid.
    assert (Et1 : table s1 = table s) by reflexivity.
    destruct (Nat.eqb_spec h (length (chans s))) as [->|Hne].
    + unfold t1. rewrite Hid. rewrite Hid in Hfresh. rewrite Et1, tget_tset_fresh by exact Hfresh. now rewrite Z.eqb_refl.
    + assert (Hl' : (h < length (chans s))%nat) by lia. pose proof (T h i Hl' Hs Hid) as E.
      unfold t1. destruct (ch_id c) as [j|] eqn:Ej; [|now rewrite Et1].
      rewrite Et1, tget_tset_fresh by exact Hfresh. destruct (Z.eqb_spec i j) as [->|]; [congruence|exact E].
Qed.


(* ---------------------------------------------------------------- application operations *)
Lemma cinv_create s neg id ordered maxrt maxlt label proto : cinv s ->
  cinv (fst (create s neg id ordered maxrt maxlt label proto)) /\
  no3 (snd (create s neg id ordered maxrt maxlt label proto)).
Proof.
  intros C. unfold create.
  set (c := mkChan id Connecting 0 0 neg ordered maxrt maxlt label proto).
  destruct (match id with Some i => match tget (table s) i with Some _ => true | None => false end | None => false end) eqn:Eu.
  { cbn [fst snd]. split; [exact C|intros [H|[]]; discriminate]. }
  assert (Hfresh : match ch_id c with Some i => tget (table s) i = None | None => True end).
  { cbn [ch_id c]. destruct id as [i|]; [|exact I]. destruct (tget (table s) i); [discriminate|reflexivity]. }
  destruct (add_chan_good s c eq_refl) as (_ & Eh & L1).
  rewrite (pair_eta (add_chan s c)). rewrite Eh.
  set (s1 := fst (add_chan s c)) in *.
  set (s2 := match id with Some i => set_table s1 (tset (table s1) i (length (chans s))) | None => s1 end).
  assert (Wq : Forall (fun it : nat * Z * bytes => (fst (fst it) < length (chans s))%nat) (queue s)) by (destruct C as [[_ Bq] _]; exact Bq).
  assert (Wq' : Forall (fun it : nat * Z * bytes => (fst (fst it) < S (length (chans s)))%nat) (queue s)).
  { eapply Forall_impl; [|exact Wq]. intros it Hit. cbv beta in *. lia. }
  assert (E2c : chans s2 = chans s1) by (unfold s2; destruct id; reflexivity).
  assert (E2q : queue s2 = queue s) by (unfold s2; destruct id; reflexivity).
  assert (E2t : table s2 = match ch_id c with Some i => tset (table s1) i (length (chans s)) | None => table s1 end)
    by (unfold s2; cbn [ch_id c]; destruct id; reflexivity).
  assert (C2 : cinv s2).
  { pose proof (cinv_add_chan s c eq_refl eq_refl C Hfresh (queue s) (fun _ => eq_refl) Wq' (fun _ _ => I)) as X.
    cbv zeta in X. eapply cinv_same; [| | |exact X]; cbn [chans table queue set_queue set_table]; auto. }
  assert (L2 : length (chans s2) = S (length (chans s))) by (rewrite E2c; exact L1).
  assert (St2 : ch_state (getc s2 (length (chans s))) = Connecting).
  { assert (H : getc s2 (length (chans s)) = getc s1 (length (chans s))) by (unfold getc; now rewrite E2c).
    rewrite H. unfold s1. rewrite getc_add_chan, Nat.eqb_refl. reflexivity. }
  destruct neg.
  - destruct (established s2).
    + split; [|apply set_ready_no3]. apply cinv_set_ready; [lia|rewrite St2; cbn; lia|exact C2].
    + cbn [fst snd]. split; [exact C2|apply no3_nil].
  - cbn [fst snd]. split; [|intros [H|[]]; discriminate].
    pose proof (cinv_add_chan s c eq_refl eq_refl C Hfresh (queue s ++ [(length (chans s), WEBRTC_DCEP, dcep_open c)])) as X.
    cbv zeta in X. eapply cinv_same; [| | |apply X]; cbn [chans table queue set_queue set_table]; auto.
    + now rewrite E2q.
    + intros h. rewrite qsum_app, qsum_cons, qsum_nil. unfold counts. cbn [fst snd]. rewrite Z.eqb_refl, andb_false_r. lia.
    + apply Forall_app. split; [exact Wq'|]. constructor; [cbn [fst]; lia|constructor].
Qed.

(* a channel update that keeps id, state and buffered amount *)
Lemma cinv_setc_same s h c : ch_id c = ch_id (getc s h) -> ch_state c = ch_state (getc s h) -> ch_buf c = ch_buf (getc s h) ->
  cinv s -> cinv (setc s h c).
Proof.
  intros Ei Es Eb (W & B & T).
  assert (Eg : forall x, ch_id (getc (setc s h c) x) = ch_id (getc s x) /\ ch_state (getc (setc s h c) x) = ch_state (getc s x) /\
                         ch_buf (getc (setc s h c) x) = ch_buf (getc s x)).
  { intros x. rewrite getc_setc. destruct (_ && _)%bool eqn:E; [|auto].
    apply andb_true_iff in E as [E _]. apply Nat.eqb_eq in E. subst x. auto. }
  split; [now apply wf_setc|split].
  - intros x Hl Hst. rewrite setc_length in Hl. destruct (Eg x) as (_ & E2 & E3). rewrite E2 in Hst. rewrite E3. now apply B.
  - intros x i Hl Hst Hid. rewrite setc_length in Hl. destruct (Eg x) as (E1 & E2 & _). rewrite E2 in Hst. rewrite E1 in Hid.
    cbn [table setc]. now apply T.
Qed.

Lemma rstate_eqb_eq a b : rstate_eqb a b = true <-> a = b.
Proof. unfold rstate_eqb. rewrite Z.eqb_eq. destruct a, b; cbn; split; intros H; try reflexivity; try discriminate; try lia. Qed.

Lemma cinv_app_send s h pp data : (h < length (chans s))%nat -> pp <> WEBRTC_DCEP -> cinv s ->
  cinv (fst (app_send s h pp data)) /\ no3 (snd (app_send s h pp data)).
Proof.
  intros Hh Hpp C. unfold app_send.
  destruct (rstate_eqb (ch_state (getc s h)) Open) eqn:Eo; cbn [negb].
  2:{ cbn [fst snd]. split; [exact C|intros [H|[]]; discriminate]. }
  apply rstate_eqb_eq in Eo.
  rewrite (pair_eta (add_buffered s h (len data))). cbn [fst snd].
  split.
  2:{ apply no3_app; [unfold add_buffered; cbn [snd]; destruct (_ && _); [intros [H|[]]; discriminate|apply no3_nil]|intros [H|[]]; discriminate]. }
  destruct C as (W & B & T).
  set (s1 := fst (add_buffered s h (len data))).
  assert (L1 : length (chans s1) = length (chans s)) by apply add_buffered_length.
  assert (Et : table s1 = table s) by reflexivity.
  assert (Eq : queue s1 = queue s) by reflexivity.
  split; [|split].
  - destruct W as [A Bq]. split; cbn [table queue set_queue chans]; rewrite L1.
    + rewrite Et. exact A.
    + rewrite Eq. apply Forall_app. split; [exact Bq|]. constructor; [exact Hh|constructor].
  - intros x Hl Hst. change (getc (set_queue s1 (queue s1 ++ [(h, pp, data)])) x) with (getc s1 x) in *.
    cbn [chans set_queue] in Hl. rewrite L1 in Hl. cbn [queue set_queue]. rewrite Eq, qsum_app, qsum_cons, qsum_nil.
    unfold s1 in *. rewrite getc_add_buffered in *. unfold counts. cbn [fst snd].
    destruct (Nat.eqb_spec h x) as [->|Hne]; cbn [andb] in *.
    + apply Nat.ltb_lt in Hh. rewrite Hh in *. cbn [with_buf ch_buf ch_state] in *.
      destruct (Z.eqb_spec pp WEBRTC_DCEP); [contradiction|]. cbn [negb]. rewrite (B x) by (auto; apply Nat.ltb_lt; exact Hh). lia.
    + rewrite (B x) by auto. lia.
  - intros x i Hl Hst Hid. change (getc (set_queue s1 (queue s1 ++ [(h, pp, data)])) x) with (getc s1 x) in *.
    cbn [chans set_queue] in Hl. rewrite L1 in Hl. cbn [table set_queue]. rewrite Et.
    unfold s1 in *. rewrite getc_add_buffered in *.
    destruct (_ && _)%bool eqn:E; [|now apply T].
    apply andb_true_iff in E as [E _]. apply Nat.eqb_eq in E. subst x. cbn [with_buf ch_id ch_state] in *. now apply T.
Qed.

Lemma cinv_threshold s h v : cinv s -> cinv (setc s h (with_thr (getc s h) v)).
Proof. intros C. apply cinv_setc_same; auto. Qed.

(* ---------------------------------------------------------------- closing *)
Lemma closed_after_set_ready s h : (h < length (chans s))%nat -> ch_state (getc (fst (set_ready s h Closed)) h) = Closed.
Proof.
  intros Hh. rewrite getc_set_ready, Nat.eqb_refl. apply Nat.ltb_lt in Hh. rewrite Hh. cbn [andb].
  destruct (rstate_eqb (ch_state (getc s h)) Closed) eqn:E; cbn [negb]; [now apply rstate_eqb_eq in E|reflexivity].
Qed.

(* close h after a table update that keeps everybody else's registration *)
Lemma cinv_close_at s h t' : (h < length (chans s))%nat -> cinv s ->
  Forall (fun kv : Z * nat => (snd kv < length (chans s))%nat) t' ->
  (forall h' i, h' <> h -> (h' < length (chans s))%nat -> ch_state (getc s h') <> Closed ->
                ch_id (getc s h') = Some i -> tget t' i = Some h') ->
  cinv (fst (set_ready (set_table s t') h Closed)).
Proof.
  intros Hh (W & B & T) Ht' Hreg. split; [|split].
  - pose proof (set_ready_good (set_table s t') h Closed Hh) as G.
    assert (Wt : wf (set_table s t')) by (destruct W as [_ Bq]; split; [exact Ht'|exact Bq]).
    refine (proj1 (G _ Wt)). destruct (ch_state _); cbn; lia.
  - intros h' Hl Hst. rewrite set_ready_length in Hl. rewrite set_ready_buf, set_ready_queue.
    destruct (Nat.eq_dec h' h) as [->|Hne].
    + exfalso. apply Hst. now apply closed_after_set_ready.
    + rewrite set_ready_state_other in Hst by congruence. now apply B.
  - intros h' i Hl Hst Hid. rewrite set_ready_length in Hl.
    destruct (Nat.eq_dec h' h) as [->|Hne].
    + exfalso. apply Hst. now apply closed_after_set_ready.
    + rewrite set_ready_state_other in Hst by congruence.
      rewrite getc_set_ready in Hid. destruct (Nat.eqb_spec h h'); [congruence|]. cbn [andb] in Hid.
      unfold set_ready. destruct (rstate_eqb _ _); cbn [fst table setc set_table]; now apply Hreg.
Qed.

(* the same, the queued messages of h being dropped as well (stream reset completed) *)
Lemma cinv_close_at_purge s h t' : (h < length (chans s))%nat -> cinv s ->
  Forall (fun kv : Z * nat => (snd kv < length (chans s))%nat) t' ->
  (forall h' i, h' <> h -> (h' < length (chans s))%nat -> ch_state (getc s h') <> Closed ->
                ch_id (getc s h') = Some i -> tget t' i = Some h') ->
  cinv (fst (set_ready (set_queue (set_table s t') (filter (fun it => negb (Nat.eqb (fst (fst it)) h)) (queue s))) h Closed)).
Proof.
  intros Hh (W & B & T) Ht' Hreg.
  set (s2 := set_queue (set_table s t') (filter (fun it => negb (Nat.eqb (fst (fst it)) h)) (queue s))).
  assert (W2 : wf s2).
  { destruct W as [_ Bq]. split; [exact Ht'|]. cbn [queue s2 set_queue chans set_table]. rewrite Forall_forall in *.
    intros x Hx. apply filter_In in Hx as [Hx _]. now apply Bq. }
  split; [|split].
  - pose proof (set_ready_good s2 h Closed Hh) as G.
    refine (proj1 (G _ W2)). destruct (ch_state _); cbn; lia.
  - intros h' Hl Hst. rewrite set_ready_length in Hl. rewrite set_ready_buf, set_ready_queue.
    destruct (Nat.eq_dec h' h) as [->|Hne].
    + exfalso. apply Hst. now apply closed_after_set_ready.
    + rewrite set_ready_state_other in Hst by congruence.
      cbn [queue s2 set_queue]. rewrite qsum_filter_other by exact Hne. now apply B.
  - intros h' i Hl Hst Hid. rewrite set_ready_length in Hl.
    destruct (Nat.eq_dec h' h) as [->|Hne].
    + exfalso. apply Hst. now apply closed_after_set_ready.
    + rewrite set_ready_state_other in Hst by congruence.
      rewrite getc_set_ready in Hid. destruct (Nat.eqb_spec h h'); [congruence|]. cbn [andb] in Hid.
      unfold set_ready. destruct (rstate_eqb _ _); cbn [fst table setc set_table set_queue s2]; now apply Hreg.
Qed.

Lemma cinv_chan_closed s i : cinv s -> cinv (fst (chan_closed s i)) /\ no3 (snd (chan_closed s i)).
Proof.
  intros C. unfold chan_closed. destruct (tget (table s) i) as [h|] eqn:Et; [|split; [exact C|apply no3_nil]].
  split; [|apply set_ready_no3].
  assert (Hh : (h < length (chans s))%nat) by (destruct C as [[A _] _]; eapply tget_handles; eauto).
  change (queue (set_table s (tdel (table s) i))) with (queue s).
  apply cinv_close_at_purge; auto.
  - apply tdel_handles. destruct C as [[A _] _]. exact A.
  - intros h' i' Hne Hl Hst Hid. rewrite tget_tdel. destruct C as (_ & _ & T).
    destruct (Z.eqb_spec i' i) as [->|Hn]; [|now apply T].
    pose proof (T h' i Hl Hst Hid). congruence.
Qed.

Lemma cinv_close_body s h hs : (h < length (chans s))%nat -> rank (ch_state (getc s h)) <= 2 -> cinv s ->
  cinv (fst (close_body s h hs)) /\ no3 (snd (close_body s h hs)).
Proof.
  intros Hh Hr C. unfold close_body.
  rewrite (pair_eta (set_ready s h Closing)).
  set (s1 := fst (set_ready s h Closing)).
  assert (C1 : cinv s1) by (apply cinv_set_ready; auto).
  assert (L1 : length (chans s1) = length (chans s)) by apply set_ready_length.
  assert (Eid : ch_id (getc s1 h) = ch_id (getc s h)).
  { unfold s1. rewrite getc_set_ready. destruct (_ && _ && _)%bool; reflexivity. }
  assert (Est : ch_state (getc s1 h) <> Closed).
  { unfold s1. rewrite getc_set_ready, Nat.eqb_refl. apply Nat.ltb_lt in Hh. rewrite Hh. cbn [andb].
    destruct (rstate_eqb (ch_state (getc s h)) Closing) eqn:E; cbn [negb].
    - apply rstate_eqb_eq in E. rewrite E. discriminate.
    - cbn. discriminate. }
  assert (Hloc : cinv (fst (close_local s1 h (ch_id (getc s h)))) /\ no3 (snd (close_local s1 h (ch_id (getc s h))))).
  { rewrite <- Eid. apply cinv_close_local; auto. lia. }
  assert (N1 : no3 (snd (set_ready s h Closing))) by apply set_ready_no3.
  destruct (established s1 || hs) eqn:Ee.
  - destruct (ch_id (getc s h)) as [i|] eqn:Ei.
    + cbn [fst snd]. split.
      * eapply cinv_same; [| | |exact C1]; reflexivity.
      * apply no3_app; [exact N1|]. destruct (Nat.eqb _ 1); [intros [H|[]]; discriminate|apply no3_nil].
    + rewrite (pair_eta (close_local s1 h None)). cbn [fst snd]. destruct Hloc as [X Y]. split; [exact X|now apply no3_app].
  - rewrite (pair_eta (close_local s1 h (ch_id (getc s h)))).
    destruct (ch_id (getc s h)); cbn [fst snd]; destruct Hloc as [X Y]; (split; [exact X|now apply no3_app]).
Qed.

Lemma cinv_chan_close s h hs : (h < length (chans s))%nat -> cinv s ->
  cinv (fst (chan_close s h hs)) /\ no3 (snd (chan_close s h hs)).
Proof.
  intros Hh C. unfold chan_close. destruct (ch_state (getc s h)) eqn:E;
    try (split; [exact C|apply no3_nil]); apply cinv_close_body; auto; rewrite E; cbn; lia.
Qed.

Lemma cinv_transmit_reconfig s : cinv s -> cinv (fst (transmit_reconfig s)) /\ no3 (snd (transmit_reconfig s)).
Proof.
  intros C. unfold transmit_reconfig. destruct (rq_request s); [split; [exact C|apply no3_nil]|].
  destruct (_ && _); cbn [fst snd]; [|split; [exact C|apply no3_nil]].
  split; [eapply cinv_same; [| | |exact C]; reflexivity|intros [H|[]]; discriminate].
Qed.

Lemma cinv_reset_streams : forall strs s, cinv s -> cinv (fst (reset_streams s strs)) /\ no3 (snd (reset_streams s strs)).
Proof.
  induction strs as [|i strs IH]; intros s C; cbn [reset_streams]; [split; [exact C|apply no3_nil]|].
  set (p := match tget (table s) i with Some h => chan_close s h false | None => (s, []) end).
  assert (Hp : cinv (fst p) /\ no3 (snd p)).
  { unfold p. destruct (tget (table s) i) as [h|] eqn:Et; [|split; [exact C|apply no3_nil]].
    apply cinv_chan_close; auto. destruct C as [[A _] _]. eapply tget_handles; eauto. }
  rewrite (pair_eta p). destruct Hp as [C1 N1]. specialize (IH (fst p) C1).
  rewrite (pair_eta (reset_streams (fst p) strs)). cbn [fst snd]. destruct IH as [C2 N2]. split; [exact C2|now apply no3_app].
Qed.

Lemma cinv_recv_reset_request s seq strs : cinv s ->
  cinv (fst (recv_reset_request s seq strs)) /\ no3 (snd (recv_reset_request s seq strs)).
Proof.
  intros C. unfold recv_reset_request. destruct (cinv_reset_streams strs s C) as [C1 N1].
  rewrite (pair_eta (reset_streams s strs)). cbn [fst snd]. split.
  - eapply cinv_same; [| | |exact C1]; reflexivity.
  - apply no3_app; [exact N1|intros [H|[]]; discriminate].
Qed.

Lemma cinv_closed_streams : forall strs s, cinv s -> cinv (fst (closed_streams s strs)) /\ no3 (snd (closed_streams s strs)).
Proof.
  induction strs as [|i strs IH]; intros s C; cbn [closed_streams]; [split; [exact C|apply no3_nil]|].
  destruct (cinv_chan_closed s i C) as [C1 N1]. rewrite (pair_eta (chan_closed s i)).
  specialize (IH _ C1). rewrite (pair_eta (closed_streams (fst (chan_closed s i)) strs)). cbn [fst snd].
  destruct IH as [C2 N2]. split; [exact C2|now apply no3_app].
Qed.

Lemma cinv_recv_reset_response s seq : cinv s ->
  cinv (fst (recv_reset_response s seq)) /\ no3 (snd (recv_reset_response s seq)).
Proof.
  intros C. unfold recv_reset_response. destruct (rq_request s) as [[rs strs]|]; [|split; [exact C|apply no3_nil]].
  destruct (Z.eqb seq rs); [|split; [exact C|apply no3_nil]].
  destruct (cinv_closed_streams strs s C) as [C1 N1]. rewrite (pair_eta (closed_streams s strs)).
  set (s1 := fst (closed_streams s strs)) in *.
  set (s2 := mkSt (established s1) (dc_id s1) (chans s1) (table s1) (queue s1) (rq_queue s1) None (rq_req_seq s1) (rq_resp_seq s1)).
  assert (C2 : cinv s2) by (eapply cinv_same; [| | |exact C1]; reflexivity).
  destruct (cinv_transmit_reconfig s2 C2) as [C3 N3]. rewrite (pair_eta (transmit_reconfig s2)). cbn [fst snd].
  split; [exact C3|now apply no3_app].
Qed.

(* ---------------------------------------------------------------- association events, receive *)
Lemma connecting_in_range s h : ch_state (getc s h) = Connecting -> (h < length (chans s))%nat.
Proof.
  intros E. destruct (Nat.lt_ge_cases h (length (chans s))) as [H|H]; [exact H|].
  rewrite getc_out_of_range in E by exact H. discriminate.
Qed.

Lemma cinv_open_negotiated : forall t s, cinv s -> cinv (fst (open_negotiated s t)) /\ no3 (snd (open_negotiated s t)).
Proof.
  induction t as [|[k h] t IH]; intros s C; cbn [open_negotiated]; [split; [exact C|apply no3_nil]|].
  set (p := if ch_neg (getc s h) && rstate_eqb (ch_state (getc s h)) Connecting then set_ready s h Open else (s, [])).
  assert (Hp : cinv (fst p) /\ no3 (snd p)).
  { unfold p. destruct (ch_neg (getc s h) && rstate_eqb (ch_state (getc s h)) Connecting) eqn:E; [|split; [exact C|apply no3_nil]].
    apply andb_true_iff in E as [_ E]. apply rstate_eqb_eq in E. split; [|apply set_ready_no3].
    apply cinv_set_ready; [now apply connecting_in_range|rewrite E; cbn; lia|exact C]. }
  rewrite (pair_eta p). destruct Hp as [C1 N1]. specialize (IH (fst p) C1).
  rewrite (pair_eta (open_negotiated (fst p) t)). cbn [fst snd]. destruct IH as [C2 N2]. split; [exact C2|now apply no3_app].
Qed.

Lemma cinv_set_established s : cinv s -> cinv (fst (set_established s)) /\ no3 (snd (set_established s)).
Proof.
  intros C. unfold set_established.
  set (s0 := mkSt true (dc_id s) (chans s) (table s) (queue s) (rq_queue s) (rq_request s) (rq_req_seq s) (rq_resp_seq s)).
  assert (C0 : cinv s0) by (eapply cinv_same; [| | |exact C]; reflexivity).
  destruct (cinv_open_negotiated (table s0) s0 C0) as [C1 N1]. rewrite (pair_eta (open_negotiated s0 (table s0))). cbn [fst snd].
  split; [exact C1|apply no3_app; [exact N1|destruct (rq_queue (fst _)); [intros [H|[]]; discriminate|intros [H|[H|[]]]; discriminate]]].
Qed.

Lemma set_ready_chans s s' h r : chans s = chans s' -> chans (fst (set_ready s h r)) = chans (fst (set_ready s' h r)).
Proof.
  intros E. unfold set_ready, getc. rewrite E. destruct (rstate_eqb _ _); cbn [fst]; [exact E|]. cbn [chans setc]. now rewrite E.
Qed.
Lemma set_ready_table s h r : table (fst (set_ready s h r)) = table s.
Proof. unfold set_ready. destruct (rstate_eqb _ _); reflexivity. Qed.

Lemma cinv_recv_dcep s sidv data ok oracle : cinv s ->
  cinv (fst (recv_dcep s sidv data ok oracle)) /\ no3 (snd (recv_dcep s sidv data ok oracle)).
Proof.
  intros C. unfold recv_dcep. destruct data as [|m data']; [split; [exact C|apply no3_nil]|].
  destruct (Z.eqb m DATA_CHANNEL_OPEN && (12 <=? len (m :: data'))).
  - destruct (tget (table s) sidv) eqn:Et; [split; [exact C|apply no3_nil]|].
    destruct (dcep_parse_open (m :: data')) as [p|]; [|split; [exact C|intros [H|[]]; discriminate]].
    destruct ok; cbn [negb]; [|split; [exact C|apply no3_nil]].
    set (c := mkChan (Some sidv) Connecting 0 0 false (op_ordered p) (op_maxrt p) (op_maxlt p) (op_label p) (op_proto p)).
    destruct (add_chan_good s c eq_refl) as (_ & Eh & L1).
    rewrite (pair_eta (add_chan s c)). rewrite Eh.
    set (s1 := fst (add_chan s c)) in *.
    rewrite (pair_eta (set_ready s1 (length (chans s)) Open)).
    set (s2 := fst (set_ready s1 (length (chans s)) Open)).
    set (s3 := set_table s2 (tset (table s2) sidv (length (chans s)))).
    set (s4 := set_queue s3 (queue s3 ++ [(length (chans s), WEBRTC_DCEP, be8 DATA_CHANNEL_ACK)])).
    assert (C4 : cinv s4).
    { assert (Wq' : Forall (fun it : nat * Z * bytes => (fst (fst it) < S (length (chans s)))%nat)
                           (queue s ++ [(length (chans s), WEBRTC_DCEP, be8 DATA_CHANNEL_ACK)])).
      { apply Forall_app. split; [|constructor; [cbn [fst]; lia|constructor]].
        destruct C as [[_ Bq] _]. eapply Forall_impl; [|exact Bq]. intros it Hit. cbv beta in *. lia. }
      pose proof (cinv_add_chan s c eq_refl eq_refl C Et (queue s ++ [(length (chans s), WEBRTC_DCEP, be8 DATA_CHANNEL_ACK)])) as X.
      cbv zeta in X. cbn [ch_id c] in X.
      assert (Hq : forall h, qsum (queue s ++ [(length (chans s), WEBRTC_DCEP, be8 DATA_CHANNEL_ACK)]) h = qsum (queue s) h).
      { intros h. rewrite qsum_app, qsum_cons, qsum_nil. unfold counts. cbn [fst snd]. rewrite Z.eqb_refl, andb_false_r. lia. }
      specialize (X Hq Wq' (fun _ _ => I)).
      set (sx := set_queue (set_table (fst (add_chan s c)) (tset (table (fst (add_chan s c))) sidv (length (chans s))))
                           (queue s ++ [(length (chans s), WEBRTC_DCEP, be8 DATA_CHANNEL_ACK)])) in X.
      assert (Hx : (length (chans s) < length (chans sx))%nat) by (unfold sx; cbn [chans set_queue set_table]; fold s1; lia).
      assert (Sx : ch_state (getc sx (length (chans s))) = Connecting).
      { change (getc sx (length (chans s))) with (getc s1 (length (chans s))). unfold s1. now rewrite getc_add_chan, Nat.eqb_refl. }
      pose proof (cinv_set_ready sx (length (chans s)) Open Hx ltac:(rewrite Sx; cbn; lia) X) as Y.
      eapply cinv_same; [| | |exact Y].
      - cbn [chans s4 s3 set_queue set_table]. unfold s2. apply set_ready_chans. reflexivity.
      - cbn [table s4 s3 set_queue set_table]. unfold s2. rewrite !set_ready_table. reflexivity.
      - cbn [queue s4 s3 set_queue set_table]. unfold s2. rewrite !set_ready_queue. reflexivity. }
    destruct (cinv_flush s4 oracle C4) as [C5 N5]. rewrite (pair_eta (flush s4 oracle)). cbn [fst snd].
    split; [exact C5|]. apply no3_app; [apply set_ready_no3|apply no3_app; [exact N5|intros [H|[]]; discriminate]].
  - destruct (Z.eqb m DATA_CHANNEL_ACK); [|split; [exact C|apply no3_nil]].
    destruct (tget (table s) sidv) as [h|] eqn:Et; [|split; [exact C|apply no3_nil]].
    destruct (rstate_eqb (ch_state (getc s h)) Connecting) eqn:E; [|split; [exact C|apply no3_nil]].
    apply rstate_eqb_eq in E. split; [|apply set_ready_no3].
    apply cinv_set_ready; [now apply connecting_in_range|rewrite E; cbn; lia|exact C].
Qed.

Lemma recv_user_state s sidv pp data ok : fst (recv_user s sidv pp data ok) = s /\ no3 (snd (recv_user s sidv pp data ok)).
Proof.
  unfold recv_user. destruct (tget (table s) sidv); [|split; [reflexivity|apply no3_nil]].
  repeat (match goal with |- context [if ?b then _ else _] => destruct b end); cbn [fst snd];
    (split; [reflexivity|try apply no3_nil; intros [H|[]]; discriminate]).
Qed.

(* ---------------------------------------------------------------- a live channel without an id still has its OPEN queued *)
Definition queued (s : st) (h : nat) : Prop := exists pp data, In (h, pp, data) (queue s).
Definition idless (s : st) (h : nat) : Prop :=
  (h < length (chans s))%nat /\ ch_state (getc s h) <> Closed /\ ch_id (getc s h) = None.
Definition t3 (s : st) : Prop := forall h, idless s h -> queued s h.
Definition pres (s s' : st) : Prop :=
  forall h, idless s' h ->
    queued s' h \/ (idless s h /\ forall pp d, In (h, pp, d) (queue s) -> In (h, pp, d) (queue s')).

Lemma pres_refl s : pres s s.
Proof. intros h H. right. split; [exact H|auto]. Qed.
Lemma pres_trans s s1 s2 : pres s s1 -> pres s1 s2 -> pres s s2.
Proof.
  intros P1 P2 h H. destruct (P2 h H) as [Q|[I1 K1]]; [now left|].
  destruct (P1 h I1) as [(pp & d & Hin)|[I0 K0]].
  - left. exists pp, d. now apply K1.
  - right. split; [exact I0|]. intros pp d Hin. apply K1, K0, Hin.
Qed.
Lemma t3_pres s s' : t3 s -> pres s s' -> t3 s'.
Proof.
  intros T P h H. destruct (P h H) as [Q|[I0 K0]]; [exact Q|].
  destruct (T h I0) as (pp & d & Hin). exists pp, d. now apply K0.
Qed.

Lemma pres_frame s s' : length (chans s') = length (chans s) ->
  (forall h, ch_state (getc s' h) = ch_state (getc s h) /\ ch_id (getc s' h) = ch_id (getc s h)) ->
  (forall it, In it (queue s) -> In it (queue s')) -> pres s s'.
Proof.
  intros L G Q h (Hl & Hst & Hid). right. destruct (G h) as [G1 G2]. rewrite G1 in Hst. rewrite G2 in Hid. rewrite L in Hl.
  split; [split; auto|]. intros pp d. apply Q.
Qed.

Lemma pres_same_r s s' s'' : pres s s' -> chans s'' = chans s' -> queue s'' = queue s' -> pres s s''.
Proof.
  intros P Ec Eq h (Hl & Hst & Hid).
  assert (Eg : getc s'' h = getc s' h) by (unfold getc; now rewrite Ec).
  rewrite Ec in Hl. rewrite Eg in Hst, Hid.
  destruct (P h (conj Hl (conj Hst Hid))) as [(pp & d & Hin)|[I0 K0]].
  - left. exists pp, d. now rewrite Eq.
  - right. split; [exact I0|]. rewrite Eq. exact K0.
Qed.

Lemma pres_set_ready s h r : rank (ch_state (getc s h)) <= rank r -> pres s (fst (set_ready s h r)).
Proof.
  intros Hm h' (Hl & Hst & Hid). right. rewrite set_ready_length in Hl. rewrite set_ready_queue.
  split; [|auto]. split; [exact Hl|]. rewrite getc_set_ready in Hst, Hid.
  destruct (_ && _ && _)%bool eqn:E; [|auto].
  apply andb_true_iff in E as [E E3]. apply andb_true_iff in E as [E _]. apply Nat.eqb_eq in E. subst h'.
  cbn [with_state ch_id ch_state] in *. split; [|exact Hid].
  intros Ec. rewrite Ec in Hm. destruct r; cbn in Hm; try lia. now apply Hst.
Qed.

Lemma pres_add_buffered s h a : pres s (fst (add_buffered s h a)).
Proof.
  apply pres_frame; [apply add_buffered_length| |auto].
  intros x. rewrite getc_add_buffered. destruct (_ && _)%bool eqn:E; [|auto].
  apply andb_true_iff in E as [E _]. apply Nat.eqb_eq in E. subst x. auto.
Qed.

Lemma pres_flush_loop : forall fuel s oracle, wf s -> pres s (fst (flush_loop fuel s oracle)).
Proof.
  induction fuel as [|f IH]; intros s oracle W; cbn [flush_loop]; [apply pres_refl|].
  destruct (queue s) as [|[[h pp] data] q'] eqn:Eq; [apply pres_refl|].
  assert (Hh : (h < length (chans s))%nat).
  { destruct W as [_ Wq]. rewrite Eq in Wq. inversion Wq; subst. assumption. }
  set (s1 := set_queue s q').
  set (p2 := match ch_id (getc s1 h) with
             | Some i => (s1, i)
             | None => let i := pick_id (S (length (table s1))) (table s1) (dc_id s1) in
                       (setc (set_table s1 (tset (table s1) i h)) h (with_id (getc s1 h) (Some i)), i)
             end).
  assert (H2 : length (chans (fst p2)) = length (chans s) /\ queue (fst p2) = q' /\
               (forall h', h' <> h -> getc (fst p2) h' = getc s h') /\ ch_id (getc (fst p2) h) <> None /\ wf (fst p2)).
  { unfold p2. destruct (ch_id (getc s1 h)) eqn:Ei; cbn [fst].
    - split; [reflexivity|]. split; [reflexivity|]. split; [reflexivity|]. split; [rewrite Ei; discriminate|].
      destruct W as [A Bq]; split; [exact A|]; cbn [queue s1 set_queue]; rewrite Eq in Bq; now inversion Bq.
    - rewrite setc_length. split; [reflexivity|]. split; [reflexivity|]. split; [|split].
      + intros h' Hne. rewrite getc_setc. destruct (Nat.eqb_spec h h'); [congruence|reflexivity].
      + rewrite getc_setc, Nat.eqb_refl. cbn [chans set_table s1 set_queue]. apply Nat.ltb_lt in Hh. rewrite Hh. cbn. discriminate.
      + apply wf_setc. destruct W as [A Bq]. split; cbn [table queue set_table s1 set_queue chans].
        * apply tset_handles; [exact A|exact Hh].
        * rewrite Eq in Bq. now inversion Bq. }
  destruct p2 as [s2 sidv]. cbn [fst] in H2. destruct H2 as (L2 & Q2 & G2 & I2 & W2).
  set (p3 := if pp =? WEBRTC_DCEP then (s2, [EvSend sidv pp data true None None])
             else let '(s', e) := add_buffered s2 h (- len data) in
                  (s', EvSend sidv pp data (ch_ordered (getc s2 h)) (ch_maxrt (getc s2 h))
                              match ch_maxlt (getc s2 h) with Some 0 => None | x => x end :: e)).
  assert (P2 : pres s s2).
  { intros h' (Hl & Hst & Hid). right. assert (Hne : h' <> h) by (intros ->; contradiction).
    rewrite G2 in Hst, Hid by exact Hne. rewrite L2 in Hl. split; [split; auto|].
    intros pp' d Hin. rewrite Q2. rewrite Eq in Hin. destruct Hin as [X|X]; [congruence|exact X]. }
  assert (H3 : pres s (fst p3) /\ wf (fst p3)).
  { unfold p3. destruct (pp =? WEBRTC_DCEP); [split; [exact P2|exact W2]|].
    rewrite (pair_eta (add_buffered s2 h (- len data))). cbn [fst]. split.
    - eapply pres_trans; [exact P2|apply pres_add_buffered].
    - unfold add_buffered. cbn [fst]. now apply wf_setc. }
  destruct p3 as [s3 evs]. cbn [fst] in H3. destruct H3 as [P3 W3].
  destruct (match oracle with b :: _ => b | [] => false end); cbn [fst]; [exact P3|].
  rewrite (pair_eta (flush_loop f s3 (tl oracle))). cbn [fst].
  eapply pres_trans; [exact P3|apply IH; exact W3].
Qed.

Lemma pres_flush s oracle : wf s -> pres s (fst (flush s oracle)).
Proof. intros W. unfold flush. destruct (_ && _); [now apply pres_flush_loop|apply pres_refl]. Qed.

Lemma pres_add_chan s c t' q' :
  (ch_id c <> None \/ exists pp d, In (length (chans s), pp, d) q') ->
  (forall it, In it (queue s) -> In it q') ->
  pres s (set_queue (set_table (fst (add_chan s c)) t') q').
Proof.
  intros Hnew Hq h (Hl & Hst & Hid).
  change (getc (set_queue (set_table (fst (add_chan s c)) t') q') h) with (getc (fst (add_chan s c)) h) in *.
  cbn [chans set_queue set_table] in Hl.
  assert (L1 : length (chans (fst (add_chan s c))) = S (length (chans s))) by (unfold add_chan; cbn [fst chans]; rewrite app_length; cbn; lia).
  rewrite L1 in Hl. rewrite getc_add_chan in Hst, Hid.
  destruct (Nat.eqb_spec h (length (chans s))) as [->|Hne].
  - left. destruct Hnew as [X|(pp & d & X)]; [contradiction|]. exists pp, d. exact X.
  - right. split; [split; [lia|auto]|]. intros pp d Hin. cbn [queue set_queue]. now apply Hq.
Qed.

Lemma t3_create s neg id ordered maxrt maxlt label proto : (neg = true -> id <> None) -> wf s ->
  pres s (fst (create s neg id ordered maxrt maxlt label proto)).
Proof.
  intros Hneg W. unfold create.
  set (c := mkChan id Connecting 0 0 neg ordered maxrt maxlt label proto).
  destruct (match id with Some i => match tget (table s) i with Some _ => true | None => false end | None => false end);
    [apply pres_refl|].
  destruct (add_chan_good s c eq_refl) as (_ & Eh & L1).
  rewrite (pair_eta (add_chan s c)). rewrite Eh.
  set (s1 := fst (add_chan s c)) in *.
  set (s2 := match id with Some i => set_table s1 (tset (table s1) i (length (chans s))) | None => s1 end).
  assert (E2c : chans s2 = chans s1) by (unfold s2; destruct id; reflexivity).
  assert (E2q : queue s2 = queue s) by (unfold s2; destruct id; reflexivity).
  destruct neg.
  - assert (P2 : pres s s2).
    { eapply pres_same_r; [apply (pres_add_chan s c (table s1) (queue s)); [left; cbn [ch_id c]; now apply Hneg|auto]| |];
        cbn [chans queue set_queue set_table]; auto. }
    destruct (established s2); [|exact P2].
    eapply pres_trans; [exact P2|]. apply pres_set_ready.
    assert (H : getc s2 (length (chans s)) = getc s1 (length (chans s))) by (unfold getc; now rewrite E2c).
    rewrite H. unfold s1. rewrite getc_add_chan, Nat.eqb_refl. cbn. lia.
  - cbn [fst].
    eapply pres_same_r; [apply (pres_add_chan s c (table s1) (queue s ++ [(length (chans s), WEBRTC_DCEP, dcep_open c)]))| |];
      cbn [chans queue set_queue set_table]; auto.
    + right. exists WEBRTC_DCEP, (dcep_open c). apply in_or_app. right. now left.
    + intros it Hin. apply in_or_app. now left.
    + now rewrite E2q.
Qed.

Lemma pres_app_send s h pp data : pres s (fst (app_send s h pp data)).
Proof.
  unfold app_send. destruct (negb _); [apply pres_refl|].
  rewrite (pair_eta (add_buffered s h (len data))). cbn [fst].
  eapply pres_trans; [apply pres_add_buffered|].
  apply pres_frame; [reflexivity|auto|]. intros it Hin. cbn [queue set_queue]. apply in_or_app. now left.
Qed.

Lemma pres_close_generic s1 h X : (h < length (chans s1))%nat -> chans X = chans s1 ->
  queue X = filter (fun it => negb (Nat.eqb (fst (fst it)) h)) (queue s1) ->
  pres s1 (fst (set_ready X h Closed)).
Proof.
  intros Hh Ec Eq h' (Hl & Hst & Hid). right. rewrite set_ready_length, Ec in Hl.
  assert (Hne : h' <> h).
  { intros ->. apply Hst. apply closed_after_set_ready. now rewrite Ec. }
  rewrite set_ready_state_other in Hst by congruence.
  rewrite getc_set_ready in Hid. destruct (Nat.eqb_spec h h'); [congruence|]. cbn [andb] in Hid.
  assert (Eg : getc X h' = getc s1 h') by (unfold getc; now rewrite Ec). rewrite Eg in Hst, Hid.
  split; [split; auto|]. intros pp d Hin. rewrite set_ready_queue, Eq. apply filter_In. split; [exact Hin|].
  cbn [fst]. destruct (Nat.eqb_spec h' h); [contradiction|reflexivity].
Qed.

Lemma pres_close_local s1 h : (h < length (chans s1))%nat -> pres s1 (fst (close_local s1 h (ch_id (getc s1 h)))).
Proof.
  intros Hh. unfold close_local.
  set (s2 := set_queue s1 (filter (fun it => negb (Nat.eqb (fst (fst it)) h)) (queue s1))).
  destruct (ch_id (getc s1 h)) as [i|] eqn:Ei.
  - destruct (tget (table s2) i).
    + apply pres_close_generic; auto.
    + cbn [fst]. intros h' (Hl & Hst & Hid). right. change (getc s2 h') with (getc s1 h') in *.
      assert (Hne : h' <> h) by (intros ->; congruence).
      split; [split; auto|]. intros pp d Hin. cbn [queue s2 set_queue]. apply filter_In. split; [exact Hin|].
      cbn [fst]. destruct (Nat.eqb_spec h' h); [contradiction|reflexivity].
  - apply pres_close_generic; auto.
Qed.

Lemma pres_chan_closed s i : wf s -> pres s (fst (chan_closed s i)).
Proof.
  intros W. unfold chan_closed. destruct (tget (table s) i) as [h|] eqn:Et; [|apply pres_refl].
  assert (Hh : (h < length (chans s))%nat) by (destruct W as [A _]; eapply tget_handles; eauto).
  apply pres_close_generic; auto.
Qed.

Lemma pres_close_body s h hs : (h < length (chans s))%nat -> rank (ch_state (getc s h)) <= 2 -> pres s (fst (close_body s h hs)).
Proof.
  intros Hh Hr. unfold close_body.
  rewrite (pair_eta (set_ready s h Closing)).
  set (s1 := fst (set_ready s h Closing)).
  assert (P1 : pres s s1) by (apply pres_set_ready; exact Hr).
  assert (L1 : length (chans s1) = length (chans s)) by apply set_ready_length.
  assert (Eid : ch_id (getc s1 h) = ch_id (getc s h)).
  { unfold s1. rewrite getc_set_ready. destruct (_ && _ && _)%bool; reflexivity. }
  assert (Hloc : pres s (fst (close_local s1 h (ch_id (getc s h))))).
  { rewrite <- Eid. eapply pres_trans; [exact P1|apply pres_close_local; lia]. }
  destruct (established s1 || hs).
  - destruct (ch_id (getc s h)) as [i|] eqn:Ei.
    + cbn [fst]. eapply pres_same_r; [exact P1| |]; reflexivity.
    + rewrite (pair_eta (close_local s1 h None)). cbn [fst]. exact Hloc.
  - rewrite (pair_eta (close_local s1 h (ch_id (getc s h)))). destruct (ch_id (getc s h)); cbn [fst]; exact Hloc.
Qed.

Lemma pres_chan_close s h hs : (h < length (chans s))%nat -> pres s (fst (chan_close s h hs)).
Proof.
  intros Hh. unfold chan_close. destruct (ch_state (getc s h)) eqn:E; try apply pres_refl;
    apply pres_close_body; auto; rewrite E; cbn; lia.
Qed.

Lemma pres_transmit_reconfig s : pres s (fst (transmit_reconfig s)).
Proof.
  unfold transmit_reconfig. destruct (rq_request s); [apply pres_refl|].
  destruct (_ && _); cbn [fst]; [|apply pres_refl]. apply pres_frame; auto.
Qed.

Lemma pres_reset_streams : forall strs s, wf s -> pres s (fst (reset_streams s strs)) /\ wf (fst (reset_streams s strs)).
Proof.
  induction strs as [|i strs IH]; intros s W; cbn [reset_streams]; [split; [apply pres_refl|exact W]|].
  set (p := match tget (table s) i with Some h => chan_close s h false | None => (s, []) end).
  assert (Hp : pres s (fst p) /\ wf (fst p)).
  { unfold p. destruct (tget (table s) i) as [h|] eqn:Et; [|split; [apply pres_refl|exact W]].
    assert (Hh : (h < length (chans s))%nat) by (destruct W as [A _]; eapply tget_handles; eauto).
    split; [now apply pres_chan_close|]. exact (proj1 (chan_close_good s h false Hh W)). }
  rewrite (pair_eta p). destruct Hp as [P1 W1]. destruct (IH (fst p) W1) as [P2 W2].
  rewrite (pair_eta (reset_streams (fst p) strs)). cbn [fst]. split; [eapply pres_trans; eauto|exact W2].
Qed.

Lemma pres_closed_streams : forall strs s, wf s -> pres s (fst (closed_streams s strs)).
Proof.
  induction strs as [|i strs IH]; intros s W; cbn [closed_streams]; [apply pres_refl|].
  rewrite (pair_eta (chan_closed s i)). rewrite (pair_eta (closed_streams (fst (chan_closed s i)) strs)). cbn [fst].
  eapply pres_trans; [apply pres_chan_closed; exact W|apply IH]. exact (proj1 (chan_closed_good s i W)).
Qed.

Lemma pres_open_negotiated : forall t s, pres s (fst (open_negotiated s t)).
Proof.
  induction t as [|[k h] t IH]; intros s; cbn [open_negotiated]; [apply pres_refl|].
  set (p := if ch_neg (getc s h) && rstate_eqb (ch_state (getc s h)) Connecting then set_ready s h Open else (s, [])).
  assert (Hp : pres s (fst p)).
  { unfold p. destruct (ch_neg (getc s h) && rstate_eqb (ch_state (getc s h)) Connecting) eqn:E; [|apply pres_refl].
    apply andb_true_iff in E as [_ E]. apply rstate_eqb_eq in E. apply pres_set_ready. rewrite E. cbn. lia. }
  rewrite (pair_eta p). rewrite (pair_eta (open_negotiated (fst p) t)). cbn [fst].
  eapply pres_trans; [exact Hp|apply IH].
Qed.

Lemma pres_close_queued : forall q s, pres s (fst (close_queued s q)).
Proof.
  induction q as [|[[h pp] d] q IH]; intros s; cbn [close_queued]; [apply pres_refl|].
  rewrite (pair_eta (set_ready s h Closed)). rewrite (pair_eta (close_queued (fst (set_ready s h Closed)) q)). cbn [fst].
  eapply pres_trans; [|apply IH]. apply pres_set_ready. destruct (ch_state (getc s h)); cbn; lia.
Qed.

(* ---------------------------------------------------------------- the association ends: every channel closes *)
Definition all_closed (s : st) : Prop := forall h, (h < length (chans s))%nat -> ch_state (getc s h) = Closed.

Lemma tdel_absent t k : tget t k = None -> tdel t k = t.
Proof.
  induction t as [|[a b] t IH]; cbn [tget tdel]; [reflexivity|]. destruct (k =? a); [discriminate|]. intros H. now rewrite IH.
Qed.

Lemma chan_closed_table s i : table (fst (chan_closed s i)) = tdel (table s) i.
Proof.
  unfold chan_closed. destruct (tget (table s) i) eqn:E; cbn [fst]; [|now rewrite tdel_absent].
  now rewrite set_ready_table.
Qed.
Lemma chan_closed_queue s i : forall it, In it (queue (fst (chan_closed s i))) -> In it (queue s).
Proof.
  unfold chan_closed. destruct (tget (table s) i); [|auto]. rewrite set_ready_queue. cbn [queue set_queue set_table].
  intros it Hin. apply filter_In in Hin. tauto.
Qed.

Lemma closed_streams_table : forall ks s, table (fst (closed_streams s ks)) = fold_left tdel ks (table s).
Proof.
  induction ks as [|k ks IH]; intros s; cbn [closed_streams fold_left]; [reflexivity|].
  rewrite (pair_eta (chan_closed s k)). rewrite (pair_eta (closed_streams (fst (chan_closed s k)) ks)). cbn [fst].
  now rewrite IH, chan_closed_table.
Qed.
Lemma closed_streams_queue : forall ks s it, In it (queue (fst (closed_streams s ks))) -> In it (queue s).
Proof.
  induction ks as [|k ks IH]; intros s it; cbn [closed_streams]; [auto|].
  rewrite (pair_eta (chan_closed s k)). rewrite (pair_eta (closed_streams (fst (chan_closed s k)) ks)). cbn [fst].
  intros Hin. apply (chan_closed_queue s k). now apply IH.
Qed.

Lemma in_tdel t k kv : In kv (tdel t k) -> In kv t /\ fst kv <> k.
Proof.
  induction t as [|[a b] t IH]; cbn [tdel]; [intros []|].
  destruct (Z.eqb_spec k a) as [->|Hne].
  - intros H. destruct (IH H). split; [now right|assumption].
  - intros [<-|H]; [split; [now left|cbn; congruence]|]. destruct (IH H). split; [now right|assumption].
Qed.

Lemma tdel_all : forall ks t, (forall kv, In kv t -> In (fst kv) ks) -> fold_left tdel ks t = [].
Proof.
  induction ks as [|k ks IH]; intros t H; cbn [fold_left].
  - destruct t as [|kv t]; [reflexivity|]. destruct (H kv (or_introl eq_refl)).
  - apply IH. intros kv Hin. apply in_tdel in Hin as [Hin Hne]. destruct (H kv Hin) as [E|E]; [congruence|exact E].
Qed.

Lemma close_queued_length : forall q s, length (chans (fst (close_queued s q))) = length (chans s).
Proof.
  induction q as [|[[h pp] d] q IH]; intros s; cbn [close_queued]; [reflexivity|].
  rewrite (pair_eta (set_ready s h Closed)). rewrite (pair_eta (close_queued (fst (set_ready s h Closed)) q)). cbn [fst].
  now rewrite IH, set_ready_length.
Qed.
Lemma close_queued_table : forall q s, table (fst (close_queued s q)) = table s.
Proof.
  induction q as [|[[h pp] d] q IH]; intros s; cbn [close_queued]; [reflexivity|].
  rewrite (pair_eta (set_ready s h Closed)). rewrite (pair_eta (close_queued (fst (set_ready s h Closed)) q)). cbn [fst].
  now rewrite IH, set_ready_table.
Qed.

Lemma close_queued_closed : forall q s h, (h < length (chans s))%nat ->
  ((exists pp d, In (h, pp, d) q) \/ ch_state (getc s h) = Closed) ->
  ch_state (getc (fst (close_queued s q)) h) = Closed.
Proof.
  induction q as [|[[h0 pp0] d0] q IH]; intros s h Hl H; cbn [close_queued].
  - destruct H as [(pp & d & [])|H]. exact H.
  - rewrite (pair_eta (set_ready s h0 Closed)). rewrite (pair_eta (close_queued (fst (set_ready s h0 Closed)) q)). cbn [fst].
    apply IH; [now rewrite set_ready_length|].
    destruct (Nat.eq_dec h0 h) as [->|Hne].
    + right. now apply closed_after_set_ready.
    + destruct H as [(pp & d & [X|X])|H]; [congruence|left; eauto|].
      right. rewrite set_ready_state_other by exact Hne. exact H.
Qed.

Lemma close_queued_no3 : forall q s, no3 (snd (close_queued s q)).
Proof.
  induction q as [|[[h pp] d] q IH]; intros s; cbn [close_queued]; [apply no3_nil|].
  rewrite (pair_eta (set_ready s h Closed)). rewrite (pair_eta (close_queued (fst (set_ready s h Closed)) q)). cbn [snd].
  apply no3_app; [apply set_ready_no3|apply IH].
Qed.

Lemma all_closed_inv s : all_closed s -> wf s -> cinv s /\ t3 s.
Proof.
  intros A W. split; [split; [exact W|split]|].
  - intros h Hl Hst. now rewrite A in Hst.
  - intros h i Hl Hst. now rewrite A in Hst.
  - intros h (Hl & Hst & _). now rewrite A in Hst.
Qed.

Theorem set_closed_all_closed s : cinv s -> t3 s ->
  all_closed (fst (set_closed s)) /\ table (fst (set_closed s)) = [] /\ queue (fst (set_closed s)) = [] /\
  no3 (snd (set_closed s)).
Proof.
  intros C T3. unfold set_closed.
  set (s0 := mkSt false (dc_id s) (chans s) (table s) (queue s) (rq_queue s) (rq_request s) (rq_req_seq s) (rq_resp_seq s)).
  assert (C0 : cinv s0) by (eapply cinv_same; [| | |exact C]; reflexivity).
  assert (T0 : t3 s0) by (eapply t3_pres; [exact T3|apply pres_frame; auto]).
  destruct (cinv_closed_streams (map fst (table s0)) s0 C0) as [C1 N1].
  pose proof (t3_pres _ _ T0 (pres_closed_streams (map fst (table s0)) s0 (proj1 C0))) as T1.
  rewrite (pair_eta (closed_streams s0 (map fst (table s0)))).
  set (s1 := fst (closed_streams s0 (map fst (table s0)))) in *.
  assert (Et1 : table s1 = []).
  { unfold s1. rewrite closed_streams_table. apply tdel_all. intros kv Hin. now apply in_map. }
  rewrite (pair_eta (close_queued s1 (queue s1))).
  set (s2 := fst (close_queued s1 (queue s1))).
  assert (L2 : length (chans s2) = length (chans s1)) by apply close_queued_length.
  assert (A2 : all_closed s2).
  { intros h Hl. rewrite L2 in Hl.
    destruct (rstate_eqb (ch_state (getc s1 h)) Closed) eqn:E.
    - apply rstate_eqb_eq in E. apply close_queued_closed; auto.
    - assert (Hlive : ch_state (getc s1 h) <> Closed) by (intros X; rewrite X in E; discriminate).
      destruct (ch_id (getc s1 h)) as [i|] eqn:Ei.
      + destruct C1 as (_ & _ & T). pose proof (T h i Hl Hlive Ei) as X. rewrite Et1 in X. discriminate.
      + apply close_queued_closed; auto. left. apply (T1 h). split; [exact Hl|split; assumption]. }
  cbn [fst snd]. split; [exact A2|]. split; [|split; [reflexivity|]].
  - cbn [table set_queue]. unfold s2. now rewrite close_queued_table.
  - apply no3_app; [exact N1|apply close_queued_no3].
Qed.

(* ---------------------------------------------------------------- every step, every run *)
Definition dinv (s : st) : Prop := cinv s /\ t3 s.

Definition wf_input (i : input) : Prop :=
  match i with
  | ISend _ pp _ => pp <> WEBRTC_DCEP            (* RTCDataChannel.send only uses the four user PPIDs *)
  | ICreate neg id _ _ _ _ _ => neg = true -> id <> None   (* RTCDataChannel.__init__ rejects the rest *)
  | _ => True
  end.

Lemma cinv_wf s : cinv s -> wf s. Proof. now intros [W _]. Qed.

Theorem step_dinv s i : wf_input i -> dinv s -> dinv (fst (step s i)) /\ no3 (snd (step s i)).
Proof.
  intros Hi [C T3]. pose proof (cinv_wf s C) as W. destruct i; cbn [step wf_input] in *.
  - destruct (cinv_create s neg id ordered maxrt maxlt label proto C) as [C1 N1].
    split; [split; [exact C1|eapply t3_pres; [exact T3|now apply t3_create]]|exact N1].
  - destruct (Nat.ltb_spec h (length (chans s))) as [Hh|Hh]; [|split; [split; assumption|apply no3_nil]].
    destruct (cinv_app_send s h pp data Hh Hi C) as [C1 N1].
    split; [split; [exact C1|eapply t3_pres; [exact T3|apply pres_app_send]]|exact N1].
  - destruct (Nat.ltb_spec h (length (chans s))) as [Hh|Hh]; [|split; [split; assumption|apply no3_nil]].
    destruct (cinv_chan_close s h hs Hh C) as [C1 N1].
    split; [split; [exact C1|eapply t3_pres; [exact T3|now apply pres_chan_close]]|exact N1].
  - destruct (Nat.ltb_spec h (length (chans s))) as [Hh|Hh]; [|split; [split; assumption|apply no3_nil]].
    cbn [fst snd]. split; [split; [now apply cinv_threshold|]|apply no3_nil].
    eapply t3_pres; [exact T3|]. apply pres_frame; [apply setc_length| |auto].
    intros x. rewrite getc_setc. destruct (_ && _)%bool eqn:E; [|auto].
    apply andb_true_iff in E as [E _]. apply Nat.eqb_eq in E. subst x. auto.
  - destruct (cinv_flush s oracle C) as [C1 N1].
    split; [split; [exact C1|eapply t3_pres; [exact T3|now apply pres_flush]]|exact N1].
  - destruct (cinv_transmit_reconfig s C) as [C1 N1].
    split; [split; [exact C1|eapply t3_pres; [exact T3|apply pres_transmit_reconfig]]|exact N1].
  - destruct (cinv_set_established s C) as [C1 N1]. split; [split; [exact C1|]|exact N1].
    unfold set_established.
    set (s0 := mkSt true (dc_id s) (chans s) (table s) (queue s) (rq_queue s) (rq_request s) (rq_req_seq s) (rq_resp_seq s)).
    rewrite (pair_eta (open_negotiated s0 (table s0))). cbn [fst].
    eapply t3_pres; [exact T3|]. eapply pres_trans; [|apply pres_open_negotiated]. apply pres_frame; auto.
  - destruct (set_closed_all_closed s C T3) as (A & Et & Eq & N). split; [|exact N].
    apply all_closed_inv; [exact A|]. split; [rewrite Et; constructor|rewrite Eq; constructor].
  - destruct (Z.eqb pp WEBRTC_DCEP).
    + destruct (cinv_recv_dcep s sid data text_ok oracle C) as [C1 N1]. split; [split; [exact C1|]|exact N1].
      eapply t3_pres; [exact T3|]. unfold recv_dcep. destruct data as [|m data']; [apply pres_refl|].
      destruct (Z.eqb m DATA_CHANNEL_OPEN && (12 <=? len (m :: data'))).
      * destruct (tget (table s) sid) eqn:Et; [apply pres_refl|].
        destruct (dcep_parse_open (m :: data')) as [p|]; [|apply pres_refl].
        destruct text_ok; cbn [negb]; [|apply pres_refl].
        set (c := mkChan (Some sid) Connecting 0 0 false (op_ordered p) (op_maxrt p) (op_maxlt p) (op_label p) (op_proto p)).
        destruct (add_chan_good s c eq_refl) as (_ & Eh & L1).
        rewrite (pair_eta (add_chan s c)). rewrite Eh.
        set (s1 := fst (add_chan s c)) in *.
        rewrite (pair_eta (set_ready s1 (length (chans s)) Open)).
        set (s2 := fst (set_ready s1 (length (chans s)) Open)).
        set (s3 := set_table s2 (tset (table s2) sid (length (chans s)))).
        set (s4 := set_queue s3 (queue s3 ++ [(length (chans s), WEBRTC_DCEP, be8 DATA_CHANNEL_ACK)])).
        rewrite (pair_eta (flush s4 oracle)). cbn [fst].
        set (sx := set_queue (set_table s1 (table s1)) (queue s ++ [(length (chans s), WEBRTC_DCEP, be8 DATA_CHANNEL_ACK)])).
        assert (Px : pres s sx).
        { apply pres_add_chan; [left; cbn; discriminate|]. intros it Hin. apply in_or_app. now left. }
        assert (P4 : pres s s4).
        { eapply pres_same_r; [eapply pres_trans; [exact Px|apply (pres_set_ready sx (length (chans s)) Open)]| |].
          - change (getc sx (length (chans s))) with (getc s1 (length (chans s))). unfold s1. rewrite getc_add_chan, Nat.eqb_refl. cbn. lia.
          - cbn [chans s4 s3 set_queue set_table]. unfold s2. apply set_ready_chans. reflexivity.
          - cbn [queue s4 s3 set_queue set_table]. unfold s2. rewrite !set_ready_queue. reflexivity. }
        eapply pres_trans; [exact P4|]. apply pres_flush.
        pose proof (recv_dcep_good s sid (m :: data') true oracle) as G. clear G.
        (* wf s4 *)
        split; cbn [table queue chans s4 s3 set_queue set_table]; unfold s2; rewrite ?set_ready_length, ?set_ready_table, ?set_ready_queue, L1.
        -- apply tset_handles; [|lia]. destruct W as [A _]. eapply Forall_impl; [|exact A]. intros kv Hkv. cbv beta in *. lia.
        -- apply Forall_app. split; [|constructor; [cbn [fst]; lia|constructor]].
           destruct W as [_ Bq]. eapply Forall_impl; [|exact Bq]. intros it Hit. cbv beta in *. lia.
      * destruct (Z.eqb m DATA_CHANNEL_ACK); [|apply pres_refl].
        destruct (tget (table s) sid) as [h|]; [|apply pres_refl].
        destruct (rstate_eqb (ch_state (getc s h)) Connecting) eqn:E; [|apply pres_refl].
        apply rstate_eqb_eq in E. apply pres_set_ready. rewrite E. cbn. lia.
    + destruct (recv_user_state s sid pp data text_ok) as [E N]. rewrite E. split; [split; assumption|exact N].
  - destruct (established s); [|split; [split; assumption|apply no3_nil]].
    destruct (cinv_recv_reset_request s seq strs C) as [C1 N1]. split; [split; [exact C1|]|exact N1].
    unfold recv_reset_request. rewrite (pair_eta (reset_streams s strs)). cbn [fst].
    eapply t3_pres; [exact T3|]. eapply pres_same_r; [exact (proj1 (pres_reset_streams strs s W))| |]; reflexivity.
  - destruct (established s); [|split; [split; assumption|apply no3_nil]].
    destruct (cinv_recv_reset_response s seq C) as [C1 N1]. split; [split; [exact C1|]|exact N1].
    unfold recv_reset_response. destruct (rq_request s) as [[rs strs]|]; [|exact T3].
    destruct (Z.eqb seq rs); [|exact T3].
    rewrite (pair_eta (closed_streams s strs)).
    set (s1 := fst (closed_streams s strs)).
    set (s2 := mkSt (established s1) (dc_id s1) (chans s1) (table s1) (queue s1) (rq_queue s1) None (rq_req_seq s1) (rq_resp_seq s1)).
    rewrite (pair_eta (transmit_reconfig s2)). cbn [fst].
    eapply t3_pres; [exact T3|]. apply (pres_trans s s1); [apply pres_closed_streams; exact (proj1 C)|].
    apply (pres_trans s1 s2); [|apply pres_transmit_reconfig]. apply pres_frame; auto.
  - cbn [fst snd]. split; [split|apply no3_nil].
    + eapply cinv_same; [| | |exact C]; reflexivity.
    + eapply t3_pres; [exact T3|apply pres_frame; auto].
Qed.

Lemma dinv_init r q : dinv (init r q).
Proof.
  apply all_closed_inv; [intros h Hl; cbn in Hl; lia|apply wf_init].
Qed.

Theorem run_dinv : forall is s, Forall wf_input is -> dinv s ->
  dinv (fst (run s is)) /\ Forall no3 (snd (run s is)).
Proof.
  induction is as [|i is IH]; intros s Hi D; cbn [run]; [split; [exact D|constructor]|].
  inversion Hi as [|? ? Hi1 Hi2]; subst.
  destruct (step_dinv s i Hi1 D) as [D1 N1]. rewrite (pair_eta (step s i)).
  destruct (IH (fst (step s i)) Hi2 D1) as [D2 N2]. rewrite (pair_eta (run (fst (step s i)) is)). cbn [fst snd].
  split; [exact D2|constructor; assumption].
Qed.

(* bufferedAmount = bytes accepted by send() and not yet handed to the transport; never negative; zero once drained *)
Theorem buffered_amount r q is : Forall wf_input is ->
  let s := fst (run (init r q) is) in
  forall h, (h < length (chans s))%nat -> ch_state (getc s h) <> Closed ->
    ch_buf (getc s h) = qsum (queue s) h /\ 0 <= ch_buf (getc s h) /\ (queue s = [] -> ch_buf (getc s h) = 0).
Proof.
  intros Hi s h Hl Hst. destruct (run_dinv is (init r q) Hi (dinv_init r q)) as [[(W & B & T) T3] _].
  fold s in W, B, T, T3. rewrite (B h Hl Hst). split; [reflexivity|]. split; [apply qsum_nonneg|]. intros ->. reflexivity.
Qed.

Theorem never_keyerror r q is : Forall wf_input is -> Forall no3 (snd (run (init r q) is)).
Proof. intros Hi. exact (proj2 (run_dinv is (init r q) Hi (dinv_init r q))). Qed.

Lemma run_app : forall is1 is2 s, fst (run s (is1 ++ is2)) = fst (run (fst (run s is1)) is2).
Proof.
  induction is1 as [|i is1 IH]; intros is2 s; cbn [app run]; [reflexivity|].
  rewrite (pair_eta (step s i)). rewrite (pair_eta (run (fst (step s i)) (is1 ++ is2))), (pair_eta (run (fst (step s i)) is1)).
  cbn [fst]. apply IH.
Qed.

(* when the association ends every channel closes, whatever happened before *)
Theorem assoc_end_closes_all r q is : Forall wf_input is ->
  let s := fst (run (init r q) (is ++ [IAssocClosed])) in
  all_closed s /\ table s = [] /\ queue s = [].
Proof.
  intros Hi s. unfold s. rewrite run_app. cbn [run step]. rewrite (pair_eta (set_closed _)). cbn [fst].
  destruct (run_dinv is (init r q) Hi (dinv_init r q)) as [[C T3] _].
  destruct (set_closed_all_closed _ C T3) as (A & Et & Eq & _). auto.
Qed.

(* automatically chosen stream ids: unused, of the role's parity, not below the role's base id *)
Theorem auto_id_fresh t i :
  let k := pick_id (S (length t)) t i in tget t k = None /\ (k - i) mod 2 = 0 /\ i <= k.
Proof.
  cbv zeta. split; [apply pick_id_fresh|apply pick_id_parity].
Qed.

(* every registered live channel is found under its id, and only there: ids of live channels are distinct *)
Theorem live_ids_distinct r q is : Forall wf_input is ->
  let s := fst (run (init r q) is) in
  forall h1 h2 i, (h1 < length (chans s))%nat -> (h2 < length (chans s))%nat ->
    ch_state (getc s h1) <> Closed -> ch_state (getc s h2) <> Closed ->
    ch_id (getc s h1) = Some i -> ch_id (getc s h2) = Some i -> h1 = h2.
Proof.
  intros Hi s h1 h2 i L1 L2 S1 S2 I1 I2. destruct (run_dinv is (init r q) Hi (dinv_init r q)) as [[(_ & _ & T) _] _].
  fold s in T. pose proof (T h1 i L1 S1 I1). pose proof (T h2 i L2 S2 I2). congruence.
Qed.
