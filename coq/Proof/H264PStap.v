(* H264Encoder._packetize_stap_a / _packetize: aggregation respects the size
   budget, loses nothing, and the whole packetiser output depayloads to the
   NAL units with start codes. *)
From Coq Require Import ZArith List Bool Lia.
From AV Require Import Lib.Bytes Lib.BytesP Lib.CodecX Lib.CodecXP Gen.H264Const Model.H264
     Proof.H264PBase Proof.H264PFu.
Import ListNotations.
Local Open Scope Z_scope.

(* one aggregated unit: 16-bit length + NAL unit *)
Definition enc (n : bytes) : bytes := be16 (len n) ++ n.
Definition encs (l : list bytes) : bytes := concat (map enc l).
Definition opt_list {T : Type} (o : option T) : list T :=
  match o with Some x => [x] | None => [] end.

(* the property's precondition on a NAL unit: bytes, at least two of them, type 1..23 *)
Definition valid_nal (n : bytes) : Prop :=
  bytes_ok n /\ 2 <= len n /\ exists h, u8 n 0 = Some h /\ 1 <= Z.land h 31 <= 23.

Lemma len_be16 n : len (be16 n) = 2.
Proof. reflexivity. Qed.
Lemma len_enc n : len (enc n) = 2 + len n.
Proof. unfold enc. rewrite len_app. reflexivity. Qed.
Lemma encs_cons n l : encs (n :: l) = enc n ++ encs l.
Proof. reflexivity. Qed.
Lemma len_encs_nonneg l : 0 <= len (encs l).
Proof. apply len_nonneg. Qed.

(* ---- the aggregation loop ---------------------------------------------------- *)
Lemma stap_loop_eq nalu rest avail c hdr payload :
  stap_loop nalu rest avail c hdr payload =
  if (len nalu <=? avail) && (c <? 9) then
    match u8 nalu 0 with
    | None => Crash
    | Some n0 =>
        if 65535 <? len nalu then Crash
        else match rest with
             | [] => Ok (stap_header_step hdr n0, c + 1, payload ++ be16 (len nalu) ++ nalu, None, [])
             | n :: rest' =>
                 stap_loop n rest' (avail - (h264_LENGTH_FIELD_SIZE + len nalu)) (c + 1)
                           (stap_header_step hdr n0) (payload ++ be16 (len nalu) ++ nalu)
             end
    end
  else Ok (hdr, c, payload, Some nalu, rest).
Proof. destruct rest; reflexivity. Qed.

Lemma stap_loop_spec : forall rest nalu avail c hdr payload,
  Forall valid_nal (nalu :: rest) -> 0 <= hdr < 256 -> 0 <= c -> avail <= 65535 ->
  exists hdr' taken nxt rest',
    stap_loop nalu rest avail c hdr payload =
      Ok (hdr', c + Z.of_nat (length taken), payload ++ encs taken, nxt, rest') /\
    nalu :: rest = taken ++ opt_list nxt ++ rest' /\
    (nxt = None -> rest' = []) /\
    Z.land hdr' 31 = Z.land hdr 31 /\ 0 <= hdr' < 256 /\
    c + Z.of_nat (length taken) <= Z.max c 9 /\
    (taken <> [] -> len (encs taken) <= avail + 2) /\
    (taken = [] -> nxt = Some nalu /\ rest' = rest).
Proof.
  induction rest as [|n rest IH]; intros nalu avail c hdr payload Hval Hhdr Hc Hav;
    rewrite stap_loop_eq; rewrite ?length_field_size;
    inversion Hval as [|? ? Hn Hrest]; subst;
    destruct Hn as (Hok & Hlen & h & Hu8 & Htype);
    pose proof (u8_range _ _ _ Hok Hu8) as Hh.
  - destruct ((len nalu <=? avail) && (c <? 9)) eqn:Econd.
    + apply andb_true_iff in Econd. destruct Econd as [E1 E2]. apply Z.leb_le in E1. apply Z.ltb_lt in E2.
      rewrite Hu8. rewrite (proj2 (Z.ltb_ge _ _)) by lia.
      destruct (stap_header_step_facts hdr h Hhdr Hh) as [Hs1 Hs2].
      exists (stap_header_step hdr h), [nalu], None, [].
      cbn [length encs map concat opt_list app]. rewrite app_nil_r.
      repeat split; try assumption; try lia; try discriminate.
      intros _. fold (enc nalu). rewrite len_enc. lia.
    + exists hdr, [], (Some nalu), [].
      cbn [length encs map concat opt_list app]. rewrite app_nil_r, Z.add_0_r.
      repeat split; try lia; try (intros; congruence).
  - destruct ((len nalu <=? avail) && (c <? 9)) eqn:Econd.
    + apply andb_true_iff in Econd. destruct Econd as [E1 E2]. apply Z.leb_le in E1. apply Z.ltb_lt in E2.
      rewrite Hu8. rewrite (proj2 (Z.ltb_ge _ _)) by lia.
      destruct (stap_header_step_facts hdr h Hhdr Hh) as [Hs1 Hs2].
      destruct (IH n (avail - (2 + len nalu)) (c + 1) (stap_header_step hdr h)
                   (payload ++ be16 (len nalu) ++ nalu) Hrest Hs2 ltac:(lia) ltac:(lia))
        as (hdr' & taken & nxt & rest' & Hrun & Hsplit & Hnone & Hty & Hrange & Hcnt & Hsize & Hempty).
      exists hdr', (nalu :: taken), nxt, rest'.
      rewrite Hrun. cbn [length]. rewrite encs_cons.
      split; [|split; [|split; [|split; [|split; [|split; [|split]]]]]].
      * replace (c + 1 + Z.of_nat (length taken)) with (c + Z.of_nat (S (length taken))) by lia.
        replace ((payload ++ be16 (len nalu) ++ nalu) ++ encs taken) with (payload ++ enc nalu ++ encs taken)
          by (unfold enc; now rewrite <- !app_assoc).
        reflexivity.
      * cbn [app]. now rewrite Hsplit.
      * exact Hnone.
      * congruence.
      * exact Hrange.
      * lia.
      * intros _. rewrite len_app, len_enc.
        destruct taken as [|t taken'].
        -- change (len (encs [])) with 0. lia.
        -- specialize (Hsize ltac:(discriminate)). lia.
      * discriminate.
    + exists hdr, [], (Some nalu), (n :: rest).
      cbn [length encs map concat opt_list app]. rewrite app_nil_r, Z.add_0_r.
      repeat split; try lia; try (intros; congruence).
Qed.

(* ---- _packetize_stap_a -------------------------------------------------------- *)
Theorem packetize_stap_a_spec : forall data rest,
  Forall valid_nal (data :: rest) -> len data <= h264_PACKET_MAX ->
  exists pkt taken nxt rest',
    packetize_stap_a data rest = Ok (pkt, nxt, rest') /\
    data :: rest = taken ++ opt_list nxt ++ rest' /\
    (nxt = None -> rest' = []) /\
    ((taken = [data] /\ pkt = data) \/
     ((2 <= length taken <= 9)%nat /\
      exists h, pkt = h :: encs taken /\ Z.land h 31 = h264_NAL_TYPE_STAP_A /\ 0 <= h < 256 /\
                len pkt <= h264_PACKET_MAX)).
Proof.
  intros data rest Hval Hlen.
  destruct consts_ok as (Hnal & Hlfs & _ & _ & Hstap & Hstap2 & Hmax & _ & _).
  unfold packetize_stap_a.
  inversion Hval as [|? ? Hd Hrest]; subst.
  destruct Hd as (Hok & Hlen2 & d0 & Hu8 & Htype).
  pose proof (u8_range _ _ _ Hok Hu8) as Hd0.
  rewrite Hu8.
  destruct (stap_header_init d0 Hd0) as [Hinit1 Hinit2].
  destruct (stap_loop_spec rest data (h264_PACKET_MAX - h264_STAP_A_HEADER_SIZE) 0
                           (Z.lor h264_NAL_TYPE_STAP_A (Z.land d0 224)) [] Hval Hinit2 ltac:(lia) ltac:(lia))
    as (hdr' & taken & nxt & rest' & Hrun & Hsplit & Hnone & Hty & Hrange & Hcnt & Hsize & Hempty).
  rewrite Hrun. cbn [bind app]. rewrite Z.add_0_l.
  destruct taken as [|t0 taken].
  - (* counter = 0: data itself does not fit the STAP budget; it goes out alone *)
    destruct (Hempty eq_refl) as [-> ->].
    cbn [length Z.of_nat Z.eqb Z.leb Z.compare].
    destruct rest as [|n rest]; cbn [next_of].
    + exists data, [data], None, []. repeat split; auto.
    + exists data, [data], (Some n), rest. repeat split; auto. discriminate.
  - cbn [app] in Hsplit. injection Hsplit as <- Hsplit.
    destruct taken as [|t1 taken].
    + (* counter = 1 *)
      cbn [length Z.of_nat Pos.of_succ_nat Z.eqb Z.leb Z.compare Pos.compare Pos.compare_cont].
      exists data, [data], nxt, rest'. cbn [app]. rewrite Hsplit. repeat split; auto.
    + (* counter >= 2: a STAP-A packet *)
      assert (Hc2 : (Z.of_nat (length (data :: t1 :: taken)) =? 0) = false) by (apply Z.eqb_neq; cbn [length]; lia).
      assert (Hc3 : (Z.of_nat (length (data :: t1 :: taken)) <=? 1) = false) by (apply Z.leb_gt; cbn [length]; lia).
      rewrite Hc2, Hc3.
      assert (Hr : (0 <=? hdr') && (hdr' <? 256) = true).
      { apply andb_true_iff. split; [apply Z.leb_le | apply Z.ltb_lt]; lia. }
      rewrite Hr.
      exists ([hdr'] ++ encs (data :: t1 :: taken)), (data :: t1 :: taken), nxt, rest'.
      split; [reflexivity|]. split; [cbn [app]; now rewrite Hsplit|]. split; [exact Hnone|].
      right. split.
      * cbn [length] in *. lia.
      * exists hdr'. split; [reflexivity|]. split; [congruence|]. split; [exact Hrange|].
        specialize (Hsize ltac:(discriminate)).
        cbn [app]. rewrite len_cons. lia.
Qed.

(* ---- what a correct packetisation looks like ---------------------------------- *)
Inductive packets_of : list bytes -> list bytes -> Prop :=
| po_nil : packets_of [] []
| po_fu n frags rest pk :
    h264_PACKET_MAX < len n -> fu_fragments n frags -> packets_of rest pk ->
    packets_of (n :: rest) (frags ++ pk)
| po_single n rest pk :
    len n <= h264_PACKET_MAX -> packets_of rest pk ->
    packets_of (n :: rest) (n :: pk)
| po_stap h taken rest pk :
    (2 <= length taken <= 9)%nat -> Z.land h 31 = h264_NAL_TYPE_STAP_A -> 0 <= h < 256 ->
    len (h :: encs taken) <= h264_PACKET_MAX -> packets_of rest pk ->
    packets_of (taken ++ rest) ((h :: encs taken) :: pk).

Lemma packetize_loop_none fuel rest : packetize_loop fuel None rest = Ok [].
Proof. destruct fuel; reflexivity. Qed.

Lemma Forall_app_r {T : Type} (P : T -> Prop) a b : Forall P (a ++ b) -> Forall P b.
Proof. intros H. apply Forall_app in H. tauto. Qed.

Lemma packetize_loop_spec : forall fuel p rest,
  Forall valid_nal (p :: rest) -> (length rest < fuel)%nat ->
  exists pk, packetize_loop fuel (Some p) rest = Ok pk /\ packets_of (p :: rest) pk.
Proof.
  induction fuel as [|fuel IH]; intros p rest Hval Hfuel; [lia|].
  cbn [packetize_loop].
  inversion Hval as [|? ? Hp Hrest]; subst.
  destruct (h264_PACKET_MAX <? len p) eqn:Ebig.
  - apply Z.ltb_lt in Ebig.
    destruct (packetize_fu_a_spec p (proj1 Hp) Ebig) as [frags [Hfu Hfrags]].
    rewrite Hfu. cbn [bind].
    destruct rest as [|n rest]; cbn [next_of].
    + rewrite packetize_loop_none. cbn [bind]. eexists. split; [reflexivity|].
      apply po_fu; [assumption | assumption | constructor].
    + destruct (IH n rest Hrest ltac:(cbn [length] in Hfuel; lia)) as [pk [Hrun Hpk]].
      rewrite Hrun. cbn [bind]. eexists. split; [reflexivity|].
      apply po_fu; assumption.
  - apply Z.ltb_ge in Ebig.
    destruct (packetize_stap_a_spec p rest Hval Ebig) as (pkt & taken & nxt & rest' & Hrun & Hsplit & Hnone & Hshape).
    rewrite Hrun. cbn [bind].
    assert (Htaken : (1 <= length taken)%nat).
    { destruct Hshape as [[-> _] | [H _]]; cbn [length]; lia. }
    assert (Hlenrest : (length taken + length (opt_list nxt) + length rest' = S (length rest))%nat).
    { apply (f_equal (@length bytes)) in Hsplit. rewrite !app_length in Hsplit. cbn [length] in Hsplit. lia. }
    assert (Hvalrest : Forall valid_nal (opt_list nxt ++ rest')).
    { rewrite Hsplit in Hval. now apply Forall_app_r in Hval. }
    assert (Htail : exists pk, packetize_loop fuel nxt rest' = Ok pk /\ packets_of (opt_list nxt ++ rest') pk).
    { destruct nxt as [n|].
      - cbn [opt_list length app] in *. apply IH; [assumption | lia].
      - rewrite (Hnone eq_refl). rewrite packetize_loop_none. exists []. split; [reflexivity | constructor]. }
    destruct Htail as [pk [Hrun2 Hpk]]. rewrite Hrun2. cbn [bind].
    eexists. split; [reflexivity|]. rewrite Hsplit.
    destruct Hshape as [[-> ->] | [Hcnt (h & -> & Hh1 & Hh2 & Hh3)]].
    + cbn [app]. apply po_single; assumption.
    + apply po_stap; assumption.
Qed.

Theorem packetize_spec : forall nals,
  Forall valid_nal nals -> exists pk, packetize nals = Ok pk /\ packets_of nals pk.
Proof.
  intros nals Hval. unfold packetize.
  destruct nals as [|p rest]; cbn [next_of].
  - exists []. split; [apply packetize_loop_none | constructor].
  - apply packetize_loop_spec; [assumption | cbn [length]; lia].
Qed.

(* ---- sizes ------------------------------------------------------------------ *)
Theorem packets_of_size : forall nals pk,
  packets_of nals pk -> Forall (fun p => len p <= h264_PACKET_MAX) pk.
Proof.
  induction 1 as [| n frags rest pk Hbig Hfu _ IH | n rest pk Hsmall _ IH | h taken rest pk _ _ _ Hsz _ IH].
  - constructor.
  - apply Forall_app. split; [|exact IH].
    destruct Hfu as (h0 & p0 & mids & pl & f0 & fmids & fl & _ & _ & _ & _ & _ & _ & Hsz). exact Hsz.
  - constructor; assumption.
  - constructor; assumption.
Qed.

(* ---- depayloading ----------------------------------------------------------------- *)
Fixpoint depay_all (pk : list bytes) : result bytes :=
  match pk with
  | [] => Ok []
  | p :: tl => d <- depayload p ;; r <- depay_all tl ;; Ok (d ++ r)
  end.

Lemma depay_all_app a b x y :
  depay_all a = Ok x -> depay_all b = Ok y -> depay_all (a ++ b) = Ok (x ++ y).
Proof.
  revert x. induction a as [|p a IH]; intros x Ha Hb; cbn [app depay_all] in *.
  - injection Ha as <-. exact Hb.
  - destruct (depayload p) as [d| | |]; cbn [bind] in *; try discriminate.
    destruct (depay_all a) as [r| | |]; cbn [bind] in *; try discriminate.
    injection Ha as <-. rewrite (IH r eq_refl Hb). cbn [bind]. now rewrite app_assoc.
Qed.

Lemma depayload_of_parse p ff out : parse p = Ok (ff, out) -> depayload p = Ok out.
Proof. intros H. unfold depayload. rewrite H. reflexivity. Qed.

Definition with_sc (n : bytes) : bytes := START_CODE ++ n.

(* single NAL unit packet *)
Lemma parse_single n : valid_nal n -> parse n = Ok (true, START_CODE ++ n).
Proof.
  intros (Hok & Hlen & h & Hu8 & Hty). unfold parse.
  rewrite (proj2 (Z.ltb_ge _ _)) by lia. rewrite Hu8.
  replace ((1 <=? Z.land h 31) && (Z.land h 31 <? 24)) with true; [reflexivity|].
  symmetry. apply andb_true_iff. split; [apply Z.leb_le | apply Z.ltb_lt]; lia.
Qed.

(* FU-A fragments of one NAL unit *)
Lemma depay_mids h0 : 0 <= h0 < 256 -> forall mids fmids,
  Forall2 (is_fu_frag h0 false false) mids fmids -> depay_all fmids = Ok (concat mids).
Proof.
  intros Hh0. induction 1 as [|p f mids fmids Hf _ IH]; [reflexivity|].
  cbn [depay_all concat].
  rewrite (depayload_of_parse _ _ _ (parse_fu_frag h0 false false p f Hh0 Hf)). cbn [bind app].
  rewrite IH. reflexivity.
Qed.

Lemma depay_fu n frags : bytes_ok n -> fu_fragments n frags -> depay_all frags = Ok (START_CODE ++ n).
Proof.
  intros Hok (h0 & p0 & mids & pl & f0 & fmids & fl & -> & -> & Hf0 & Hmids & Hfl & _ & _).
  apply bytes_ok_cons in Hok. destruct Hok as [Hh0 _]. unfold byte_ok in Hh0.
  change (f0 :: fmids ++ [fl]) with ([f0] ++ fmids ++ [fl]).
  assert (H0 : depay_all [f0] = Ok (START_CODE ++ [h0] ++ p0)).
  { cbn [depay_all]. rewrite (depayload_of_parse _ _ _ (parse_fu_frag h0 true false p0 f0 Hh0 Hf0)).
    cbn [bind]. rewrite app_nil_r. now rewrite <- app_assoc. }
  assert (Hl : depay_all [fl] = Ok pl).
  { cbn [depay_all]. rewrite (depayload_of_parse _ _ _ (parse_fu_frag h0 false true pl fl Hh0 Hfl)).
    cbn [bind app]. now rewrite app_nil_r. }
  rewrite (depay_all_app _ _ _ _ H0 (depay_all_app _ _ _ _ (depay_mids h0 Hh0 _ _ Hmids) Hl)).
  rewrite <- ?app_assoc. reflexivity.
Qed.

(* STAP-A packets *)
Fixpoint offs_of (p : Z) (l : list bytes) : list Z :=
  match l with
  | [] => []
  | n :: r => (p + 2) :: offs_of (p + 2 + len n) r
  end.

Lemma stap_offsets_eq fuel data pos :
  stap_offsets fuel data pos =
  if pos <? len data then
    match fuel with
    | O => OutOfFuel
    | S f =>
        if len data <? pos + h264_LENGTH_FIELD_SIZE then ValueErr
        else match u16 data (Z.to_nat pos) with
             | None => Crash
             | Some nalu_size =>
                 if len data <? pos + h264_LENGTH_FIELD_SIZE + nalu_size then ValueErr
                 else l <- stap_offsets f data (pos + h264_LENGTH_FIELD_SIZE + nalu_size) ;;
                      Ok ((pos + h264_LENGTH_FIELD_SIZE) :: l)
             end
    end
  else Ok [].
Proof. destruct fuel; reflexivity. Qed.

Lemma len_encs_cons n l : len (encs (n :: l)) = 2 + len n + len (encs l).
Proof. rewrite encs_cons, len_app, len_enc. reflexivity. Qed.

Lemma stap_offsets_encs : forall taken pre fuel,
  Forall (fun n => len n <= 65535) taken -> (length taken <= fuel)%nat ->
  stap_offsets fuel (pre ++ encs taken) (len pre) = Ok (offs_of (len pre) taken).
Proof.
  induction taken as [|n t IH]; intros pre fuel Hsmall Hfuel; rewrite stap_offsets_eq.
  - cbn [encs map concat]. rewrite app_nil_r. rewrite Z.ltb_irrefl. reflexivity.
  - destruct fuel as [|f]; [cbn [length] in Hfuel; lia|].
    inversion Hsmall as [|? ? Hn Ht]; subst.
    rewrite length_field_size. rewrite len_app, len_encs_cons.
    pose proof (len_nonneg n). pose proof (len_encs_nonneg t).
    rewrite (proj2 (Z.ltb_lt _ _)) by lia.
    rewrite (proj2 (Z.ltb_ge _ _)) by lia.
    rewrite encs_cons. unfold enc. rewrite <- !app_assoc.
    replace (Z.to_nat (len pre)) with (length pre) by (unfold len; lia).
    rewrite u16_at by lia.
    rewrite (proj2 (Z.ltb_ge _ _)) by lia.
    replace (pre ++ be16 (len n) ++ n ++ encs t) with ((pre ++ be16 (len n) ++ n) ++ encs t)
      by (now rewrite <- !app_assoc).
    replace (len pre + 2 + len n) with (len (pre ++ be16 (len n) ++ n)) by (rewrite !len_app, ?len_be16; lia).
    rewrite IH; [|assumption | cbn [length] in Hfuel; lia].
    cbn [bind offs_of]. rewrite !len_app, len_be16. do 3 f_equal. lia.
Qed.

Lemma pairwise_out_cons2 data a b tl :
  pairwise_out data (a :: b :: tl) =
  START_CODE ++ pyslice data a (b - h264_LENGTH_FIELD_SIZE) ++ pairwise_out data (b :: tl).
Proof. reflexivity. Qed.

Lemma pairwise_out_encs : forall taken pre,
  pairwise_out (pre ++ encs taken) (offs_of (len pre) taken ++ [len (pre ++ encs taken) + 2]) =
  concat (map with_sc taken).
Proof.
  induction taken as [|n t IH]; intros pre; [reflexivity|].
  cbn [offs_of map concat].
  assert (Hsecond : exists b tl, offs_of (len pre + 2 + len n) t ++ [len (pre ++ encs (n :: t)) + 2] = b :: tl /\
                                 b - 2 = len pre + 2 + len n).
  { destruct t as [|n' t'].
    - cbn [offs_of app]. eexists. eexists. split; [reflexivity|].
      rewrite len_app, len_encs_cons. change (len (encs [])) with 0. lia.
    - cbn [offs_of app]. eexists. eexists. split; [reflexivity|]. lia. }
  destruct Hsecond as (b & tl & Hb & Hb2).
  cbn [app]. rewrite Hb, pairwise_out_cons2, length_field_size, Hb2, <- Hb.
  unfold with_sc at 1. rewrite <- app_assoc. f_equal.
  rewrite encs_cons.
  assert (E1 : pre ++ enc n ++ encs t = (pre ++ be16 (len n)) ++ n ++ encs t)
    by (unfold enc; now rewrite <- !app_assoc).
  assert (E2 : pre ++ enc n ++ encs t = (pre ++ be16 (len n) ++ n) ++ encs t)
    by (unfold enc; now rewrite <- !app_assoc).
  f_equal.
  - rewrite E1.
    replace (len pre + 2) with (len (pre ++ be16 (len n))) by (rewrite len_app, len_be16; lia).
    apply pyslice_app_mid.
  - rewrite E2.
    replace (len pre + 2 + len n) with (len (pre ++ be16 (len n) ++ n)) by (rewrite !len_app, len_be16; lia).
    apply IH.
Qed.

Lemma parse_stap h taken :
  Z.land h 31 = h264_NAL_TYPE_STAP_A -> 0 <= h < 256 -> taken <> [] ->
  Forall (fun n => len n <= 65535) taken ->
  parse (h :: encs taken) = Ok (true, concat (map with_sc taken)).
Proof.
  intros Hty Hh Hne Hsmall. unfold parse.
  assert (Hlen : 2 <= len (h :: encs taken)).
  { destruct taken as [|n t]; [congruence|]. rewrite len_cons, len_encs_cons.
    pose proof (len_nonneg n). pose proof (len_encs_nonneg t). lia. }
  rewrite (proj2 (Z.ltb_ge _ _)) by lia.
  cbn [u8 nth_error]. rewrite Hty, type_stap_a, type_fu_a.
  cbn [Z.leb Z.ltb Z.eqb Z.compare Pos.compare Pos.compare_cont Pos.eqb andb].
  rewrite nal_header_size, length_field_size.
  change (h :: encs taken) with ([h] ++ encs taken).
  change 1 with (len [h]) at 1.
  rewrite stap_offsets_encs.
  - cbn [bind]. rewrite pairwise_out_encs. reflexivity.
  - assumption.
  - rewrite app_length. destruct taken as [|n t]; [congruence|]. rewrite encs_cons, app_length.
    unfold enc. rewrite app_length. cbn [length be16].
    clear. induction t as [|n' t IH]; cbn [length]; [lia|].
    rewrite encs_cons, app_length. unfold enc at 1. rewrite app_length. cbn [length be16]. lia.
Qed.

(* ---- lossless ------------------------------------------------------------------ *)
Lemma len_encs_ge taken n : In n taken -> len n + 2 <= len (encs taken).
Proof.
  induction taken as [|t taken IH]; intros Hin; [destruct Hin|].
  rewrite len_encs_cons. pose proof (len_encs_nonneg taken). pose proof (len_nonneg t).
  destruct Hin as [-> | Hin]; [lia | specialize (IH Hin); lia].
Qed.

Theorem packets_of_lossless : forall nals pk,
  packets_of nals pk -> Forall valid_nal nals ->
  depay_all pk = Ok (concat (map with_sc nals)).
Proof.
  induction 1 as [| n frags rest pk Hbig Hfu _ IH | n rest pk Hsmall _ IH
                  | h taken rest pk Hcnt Hty Hh Hsz _ IH]; intros Hval.
  - reflexivity.
  - inversion Hval as [|? ? Hn Hrest]; subst.
    cbn [map concat]. apply depay_all_app; [|apply IH; assumption].
    apply depay_fu; [exact (proj1 Hn) | assumption].
  - inversion Hval as [|? ? Hn Hrest]; subst.
    cbn [map concat depay_all].
    rewrite (depayload_of_parse _ _ _ (parse_single n Hn)). cbn [bind].
    rewrite (IH Hrest). reflexivity.
  - apply Forall_app in Hval. destruct Hval as [Htaken Hrest].
    rewrite map_app, concat_app.
    cbn [depay_all].
    destruct consts_ok as (_ & _ & _ & _ & _ & _ & Hmax & _ & _).
    rewrite (depayload_of_parse _ _ _ (parse_stap h taken Hty Hh ltac:(destruct taken; [cbn in Hcnt; lia | discriminate])
              ltac:(apply Forall_forall; intros n Hin; pose proof (len_encs_ge taken n Hin);
                    rewrite len_cons in Hsz; lia))).
    cbn [bind]. rewrite (IH Hrest). reflexivity.
Qed.
