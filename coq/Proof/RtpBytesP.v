(* C11 x C16: what reaches the decoder is, byte for byte, what left the encoder.  A whole sent
   frame, depayloaded packet by packet and concatenated by the jitter buffer (C11), is the
   encoder's buffer when its payloads are the packetiser's output (C16). *)
From Coq Require Import ZArith List Bool Lia.
From AV Require Import Lib.Bytes Model.Rtp.
From AV Require Lib.CodecX Model.Jitter Model.RtpRecv Model.Vp8 Model.H264 Proof.RtpRecvP Proof.RtpLinkP Proof.Vp8P Proof.H264PStap.
Import ListNotations.
Local Open Scope Z_scope.

Module V := AV.Model.RtpRecv. Module VP := AV.Proof.RtpRecvP. Module LP := AV.Proof.RtpLinkP.
Module X := AV.Lib.CodecX.

Definition frame_bytes (k : V.ckind) (g : list rtp) : bytes := concat (map AV.Model.Jitter.pdata (map (LP.jp k) g)).

Lemma vp8_depayload_nil : AV.Model.Vp8.depayload [] <> X.Ok [] /\ forall d, AV.Model.Vp8.depayload [] = X.Ok d -> False.
Proof. split; [vm_compute; discriminate|]. intros d. vm_compute. discriminate. Qed.

Lemma h264_depayload_nil : forall d, AV.Model.H264.depayload [] = X.Ok d -> False.
Proof. intros d. vm_compute. discriminate. Qed.

(* VP8: the frame's payloads depayload and concatenate to `buffer` => so does the frame at the receiver *)
Lemma vp8_frame_bytes : forall g buffer,
  AV.Proof.Vp8P.vp8_depay_all (map payload g) = X.Ok buffer -> frame_bytes V.KVp8 g = buffer.
Proof.
  unfold frame_bytes. induction g as [|x g IH]; intros buffer H; cbn [map AV.Proof.Vp8P.vp8_depay_all concat] in *.
  - now injection H as <-.
  - unfold X.bind in H. destruct (AV.Model.Vp8.depayload (payload x)) as [d| | |] eqn:Ed; try discriminate.
    destruct (AV.Proof.Vp8P.vp8_depay_all (map payload g)) as [r| | |] eqn:Er; try discriminate. injection H as <-.
    rewrite (IH r eq_refl). f_equal.
    unfold LP.jp, VP.jpkt_of, VP.data_of, V.payload_data. cbn [AV.Model.Jitter.pdata].
    destruct (payload x) as [|b p'] eqn:Ep; [exfalso; exact (proj2 vp8_depayload_nil d Ed)|].
    cbn [V.depayload]. rewrite Ed. reflexivity.
Qed.

Lemma h264_frame_bytes : forall g out,
  AV.Proof.H264PStap.depay_all (map payload g) = X.Ok out -> frame_bytes V.KH264 g = out.
Proof.
  unfold frame_bytes. induction g as [|x g IH]; intros out H; cbn [map AV.Proof.H264PStap.depay_all concat] in *.
  - now injection H as <-.
  - unfold X.bind in H. destruct (AV.Model.H264.depayload (payload x)) as [d| | |] eqn:Ed; try discriminate.
    destruct (AV.Proof.H264PStap.depay_all (map payload g)) as [r| | |] eqn:Er; try discriminate. injection H as <-.
    rewrite (IH r eq_refl). f_equal.
    unfold LP.jp, VP.jpkt_of, VP.data_of, V.payload_data. cbn [AV.Model.Jitter.pdata].
    destruct (payload x) as [|b p'] eqn:Ep; [exfalso; exact (h264_depayload_nil d Ed)|].
    cbn [V.depayload]. rewrite Ed. reflexivity.
Qed.

(* every WHOLE frame at the decoder is the buffer of one encoded frame *)
Theorem vp8_whole_is_encoder_output (sframes : list (list rtp)) (bufs : list (bytes * Z)) d :
  Forall2 (fun g bp => 0 <= snd bp < 32768 /\ AV.Model.Vp8.packetize (fst bp) (snd bp) = X.Ok (map payload g)) sframes bufs ->
  VP.whole_data (LP.jframes V.KVp8 sframes) d -> exists bp, In bp bufs /\ d = fst bp.
Proof.
  intros HF (g' & Hin & ->). unfold LP.jframes in Hin. apply in_map_iff in Hin as (g & <- & Hg).
  induction HF as [|g0 bp sf bs [Hpid Hp] HF IH]; [destruct Hg|].
  destruct Hg as [->|Hg].
  - exists bp. split; [now left|].
    destruct (AV.Proof.Vp8P.vp8_packetize_spec (fst bp) (snd bp) Hpid) as (pk & E1 & E2). rewrite Hp in E1. injection E1 as <-.
    exact (vp8_frame_bytes g _ (AV.Proof.Vp8P.vp8_packets_lossless _ _ _ E2)).
  - destruct (IH Hg) as (bp' & Hb & E). exists bp'. split; [now right|exact E].
Qed.

Theorem h264_whole_is_encoder_output (sframes : list (list rtp)) (nalss : list (list bytes)) d :
  Forall2 (fun g nals => Forall AV.Proof.H264PStap.valid_nal nals /\ AV.Model.H264.packetize nals = X.Ok (map payload g)) sframes nalss ->
  VP.whole_data (LP.jframes V.KH264 sframes) d ->
  exists nals, In nals nalss /\ d = concat (map (fun n => AV.Model.H264.START_CODE ++ n) nals).
Proof.
  intros HF (g' & Hin & ->). unfold LP.jframes in Hin. apply in_map_iff in Hin as (g & <- & Hg).
  induction HF as [|g0 nals sf ns [Hv Hp] HF IH]; [destruct Hg|].
  destruct Hg as [->|Hg].
  - exists nals. split; [now left|].
    destruct (AV.Proof.H264PStap.packetize_spec nals Hv) as (pk & E1 & E2). rewrite Hp in E1. injection E1 as <-.
    exact (h264_frame_bytes g _ (AV.Proof.H264PStap.packets_of_lossless nals _ E2 Hv)).
  - destruct (IH Hg) as (n' & Hb & E). exists n'. split; [now right|exact E].
Qed.
