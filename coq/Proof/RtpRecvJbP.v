(* C11, jitter-buffer level: when every arrival is one of the sender's packets, every released
   frame is a run of ONE sent frame (never a splice); if the stream's sequence numbers are distinct
   it runs to the end of that frame, and it is the whole frame unless it is the first release
   after the start or after an add() that raised the PLI flag.  Built on the window-level model
   of Proof/JitterP.v / JitterInvP.v (C10). *)
From Coq Require Import ZArith List Bool Lia.
From AV Require Import Lib.Bytes Gen.Utils Gen.JbConst Model.Jitter Proof.JitterP Proof.JitterInvP.
Import ListNotations.
Local Open Scope Z_scope.
Ltac Zify.zify_post_hook ::= Z.to_euclidean_division_equations.

(* ---- lists ------------------------------------------------------------------ *)
Lemma prefix_of_nth {A} (ps : list A) : forall g,
  (forall j x, nth_error ps j = Some x -> nth_error g j = Some x) -> g = ps ++ skipn (length ps) g.
Proof.
  induction ps as [|a ps IH]; intros g H; [reflexivity|].
  destruct g as [|b g]; [specialize (H 0%nat a eq_refl); discriminate|].
  pose proof (H 0%nat a eq_refl) as H0. cbn [nth_error] in H0. injection H0 as ->.
  cbn [app length skipn]. f_equal. apply IH. intros j x E. exact (H (S j) x E).
Qed.

Lemma infix_of_nth {A} (g ps : list A) i :
  (forall j x, nth_error ps j = Some x -> nth_error g (i + j) = Some x) ->
  g = firstn i g ++ ps ++ skipn (length ps) (skipn i g).
Proof.
  intros H. rewrite <- (firstn_skipn i g) at 1. f_equal. apply prefix_of_nth.
  intros j x E. rewrite nth_error_skipn'. exact (H j x E).
Qed.

Lemma In_concat_nth {A} (ls : list (list A)) x : In x (concat ls) -> exists g i, In g ls /\ nth_error g i = Some x.
Proof.
  intros H. apply in_concat in H. destruct H as (g & Hg & Hx). apply In_nth_error in Hx. destruct Hx as [i E].
  exists g, i. auto.
Qed.

(* ---- the sender's stream, as the jitter buffer sees it ------------------------ *)
Section Stream.
Variable frames : list (list pkt).

(* every frame: non-empty, fewer than 65536 packets, consecutive sequence numbers, one timestamp *)
Definition frame_ok (g : list pkt) : Prop :=
  g <> [] /\ Z.of_nat (length g) < 65536 /\
  exists b t, 0 <= b < 65536 /\
    forall j p, nth_error g j = Some p -> pseq p = uint16_add b (Z.of_nat j) /\ pts p = t.

(* different frames carry different timestamps *)
Definition ts_distinct : Prop :=
  forall g g' p p', In g frames -> In g' frames -> In p g -> In p' g' -> pts p = pts p' -> g = g'.

(* no two packets of the stream share a sequence number *)
Definition seq_distinct : Prop :=
  forall p q, In p (concat frames) -> In q (concat frames) -> pseq p = pseq q -> p = q.

Definition sent (p : pkt) : Prop := In p (concat frames).

Definition part_frame (f : frame) : Prop :=
  exists g pre ps post, In g frames /\ g = pre ++ ps ++ post /\ frame_of ps f /\ consec ps.
Definition tail_frame (f : frame) : Prop :=
  exists g pre ps, In g frames /\ g = pre ++ ps /\ frame_of ps f.
Definition whole_frame (f : frame) : Prop :=
  exists g, In g frames /\ frame_of g f.

Hypothesis Hok : Forall frame_ok frames.
Hypothesis Hts : ts_distinct.

Lemma sent_in_frame p : sent p -> exists g i, In g frames /\ nth_error g i = Some p.
Proof. apply In_concat_nth. Qed.

Lemma frame_ok_of g : In g frames -> frame_ok g.
Proof. intros H. rewrite Forall_forall in Hok. apply Hok. exact H. Qed.

(* a run of sent packets at consecutive positions o1, o1+1, ... with one timestamp lies inside
   ONE frame, as a contiguous block *)
Lemma run_in_one_frame ps o1 t :
  ps <> [] -> (forall j x, nth_error ps j = Some x -> pseq x = uint16_add o1 (Z.of_nat j) /\ sent x /\ pts x = t) ->
  exists g i, In g frames /\ (forall j x, nth_error ps j = Some x -> nth_error g (i + j) = Some x).
Proof.
  intros Hne Hps. destruct ps as [|p0 ps']; [congruence|]. set (ps := p0 :: ps') in *.
  destruct (Hps 0%nat p0 eq_refl) as (E0 & S0 & T0).
  destruct (sent_in_frame p0 S0) as (g & i & Hg & Ei).
  exists g, i. split; [exact Hg|].
  destruct (frame_ok_of g Hg) as (_ & Hlen & b & tg & Hb & Hnum).
  destruct (Hnum i p0 Ei) as [Eb0 Et0].
  pose proof (nth_error_some_lt _ _ _ Ei) as Hi.
  intros j. induction j as [|j IHj]; intros x E.
  - rewrite Nat.add_0_r. cbn [ps nth_error] in E. injection E as <-. exact Ei.
  - assert (Hprev : exists y, nth_error ps j = Some y).
    { destruct (nth_error ps j) as [y|] eqn:Ey; [eauto|]. apply nth_error_None in Ey.
      apply nth_error_some_lt in E. lia. }
    destruct Hprev as [y Ey]. specialize (IHj y Ey).
    pose proof (nth_error_some_lt _ _ _ IHj) as Hij.
    destruct (Hps (S j) x E) as (Ex & Sx & Tx).
    destruct (sent_in_frame x Sx) as (g' & i' & Hg' & Ei').
    assert (g' = g).
    { apply (Hts g' g x p0 Hg' Hg); [eapply nth_error_In; exact Ei'|eapply nth_error_In; exact Ei|congruence]. }
    subst g'. destruct (Hnum i' x Ei') as [Ebx _].
    pose proof (nth_error_some_lt _ _ _ Ei') as Hi'.
    assert (i' = (i + S j)%nat).
    { rewrite Ex in Ebx. rewrite E0 in Eb0. rewrite !uint16_add_mod in *. lia. }
    subst i'. exact Ei'.
Qed.

Lemma part_of_run ps o1 f :
  frame_of ps f -> (forall j x, nth_error ps j = Some x -> pseq x = uint16_add o1 (Z.of_nat j) /\ sent x) ->
  exists g i, In g frames /\ g = firstn i g ++ ps ++ skipn (length ps) (skipn i g) /\
              (forall j x, nth_error ps j = Some x -> nth_error g (i + j) = Some x).
Proof.
  intros (Hne & Hall & Hdata) Hps.
  destruct (run_in_one_frame ps o1 (fts f) Hne) as (g & i & Hg & Hnth).
  { intros j x E. destruct (Hps j x E) as [E1 E2]. split; [exact E1|]. split; [exact E2|].
    rewrite Forall_forall in Hall. apply Hall. eapply nth_error_In. exact E. }
  exists g, i. split; [exact Hg|]. split; [apply infix_of_nth; exact Hnth|exact Hnth].
Qed.

Hypothesis Hseq : seq_distinct.

(* ... and when the packet right after the run is a sent packet with another timestamp, the run
   ends where the frame ends *)
Lemma run_reaches_end ps o1 f q g i :
  frame_of ps f -> In g frames ->
  (forall j x, nth_error ps j = Some x -> pseq x = uint16_add o1 (Z.of_nat j) /\ sent x) ->
  (forall j x, nth_error ps j = Some x -> nth_error g (i + j) = Some x) ->
  sent q -> pseq q = uint16_add o1 (Z.of_nat (length ps)) -> pts q <> fts f ->
  skipn (length ps) (skipn i g) = [].
Proof.
  intros (Hne & Hall & _) Hg Hps Hnth Sq Eq Tq.
  destruct (skipn (length ps) (skipn i g)) as [|c rest] eqn:Esk; [reflexivity|]. exfalso.
  assert (Ec : nth_error g (i + length ps) = Some c).
  { rewrite <- nth_error_skipn', <- (Nat.add_0_r (length ps)), <- nth_error_skipn', Esk. reflexivity. }
  destruct (frame_ok_of g Hg) as (_ & Hlen & b & tg & Hb & Hnum).
  destruct ps as [|p0 ps']; [congruence|]. set (ps := p0 :: ps') in *.
  pose proof (Hnth 0%nat p0 eq_refl) as E0. rewrite Nat.add_0_r in E0.
  destruct (Hnum _ _ E0) as [Eb0 Et0]. destruct (Hnum _ _ Ec) as [Ebc Etc].
  destruct (Hps 0%nat p0 eq_refl) as [Ep0 _].
  assert (Sc : sent c).
  { unfold sent. apply in_concat. exists g. split; [exact Hg|]. eapply nth_error_In. exact Ec. }
  assert (c = q).
  { apply Hseq; [exact Sc|exact Sq|]. rewrite Ebc, Eq. rewrite Ep0 in Eb0.
    pose proof (nth_error_some_lt _ _ _ Ec). rewrite !uint16_add_mod in *. lia. }
  subst c. apply Tq. rewrite Etc, <- Et0. rewrite Forall_forall in Hall. apply Hall. left. reflexivity.
Qed.

(* a packet is the first one of its frame *)
Definition frame_start (o : Z) : Prop := exists g c rest, In g frames /\ g = c :: rest /\ pseq c = o.

Lemma run_from_start ps o1 f g i :
  frame_of ps f -> In g frames ->
  (forall j x, nth_error ps j = Some x -> pseq x = uint16_add o1 (Z.of_nat j) /\ sent x) ->
  (forall j x, nth_error ps j = Some x -> nth_error g (i + j) = Some x) ->
  0 <= o1 < 65536 -> frame_start o1 -> i = 0%nat.
Proof.
  intros (Hne & Hall & _) Hg Hps Hnth Ho (g' & c & rest & Hg' & -> & Ec).
  destruct ps as [|p0 ps']; [congruence|]. set (ps := p0 :: ps') in *.
  pose proof (Hnth 0%nat p0 eq_refl) as E0. rewrite Nat.add_0_r in E0.
  destruct (Hps 0%nat p0 eq_refl) as [Ep0 Sp0].
  assert (c = p0).
  { apply Hseq; [unfold sent; apply in_concat; exists (c :: rest); split; [exact Hg'|left; reflexivity]|exact Sp0|].
    rewrite Ec, Ep0, uint16_add_mod. cbn [Z.of_nat]. lia. }
  subst c.
  assert (c_eq : (p0 :: rest) = g).
  { apply (Hts (p0 :: rest) g p0 p0 Hg' Hg); [left; reflexivity|eapply nth_error_In; exact E0|reflexivity]. }
  subst g. destruct (frame_ok_of _ Hg) as (_ & Hlen & b & tg & Hb & Hnum).
  destruct (Hnum 0%nat p0 eq_refl) as [Eb0 _]. destruct (Hnum i p0 E0) as [Ebi _].
  pose proof (nth_error_some_lt _ _ _ E0). rewrite Eb0 in Ebi. rewrite !uint16_add_mod in Ebi. lia.
Qed.

Lemma next_is_start ps o1 f q :
  frame_of ps f ->
  (forall j x, nth_error ps j = Some x -> pseq x = uint16_add o1 (Z.of_nat j) /\ sent x) ->
  sent q -> pseq q = uint16_add o1 (Z.of_nat (length ps)) -> pts q <> fts f ->
  frame_start (pseq q).
Proof.
  intros (Hne & Hall & _) Hps Sq Eq Tq.
  destruct (sent_in_frame q Sq) as (g & j & Hg & Ej).
  destruct j as [|j].
  - destruct g as [|c rest]; [discriminate|]. cbn [nth_error] in Ej. injection Ej as ->.
    exists (q :: rest), q, rest. auto.
  - exfalso. destruct (frame_ok_of g Hg) as (_ & Hlen & b & tg & Hb & Hnum).
    pose proof (nth_error_some_lt _ _ _ Ej) as Hj.
    destruct (nth_error g j) as [c|] eqn:Ec; [|apply nth_error_None in Ec; lia].
    destruct (Hnum _ _ Ej) as [Ebq Etq]. destruct (Hnum _ _ Ec) as [Ebc Etc].
    (* the last packet of the run *)
    destruct (nth_error ps (length ps - 1)) as [y|] eqn:Ey.
    2:{ apply nth_error_None in Ey. destruct ps; [congruence|cbn [length] in Ey; lia]. }
    destruct (Hps _ _ Ey) as [Ey1 Sy].
    assert (Hlp : (0 < length ps)%nat) by (destruct ps; [congruence|cbn [length]; lia]).
    assert (c = y).
    { apply Hseq; [unfold sent; apply in_concat; exists g; split; [exact Hg|eapply nth_error_In; exact Ec]|exact Sy|].
      rewrite Ebc, Ey1. rewrite Ebq in Eq. rewrite !uint16_add_mod in *.
      replace (Z.of_nat (length ps - 1)) with (Z.of_nat (length ps) - 1) by lia.
      replace (Z.of_nat (S j)) with (Z.of_nat j + 1) in Eq by lia. lia. }
    subst c. apply Tq. rewrite Etq, <- Etc. rewrite Forall_forall in Hall. apply Hall. eapply nth_error_In. exact Ey.
Qed.

End Stream.

(* ---- what one add() does to the origin (window level) --------------------------- *)
(* the common tail of add(): a released frame starts at the origin o1 it ran with, is followed in
   the window by a held packet q with another timestamp, and the new origin is q's number *)
Lemma a_tail_next H a p o1 w1 pli :
  seq16 p -> 0 <= o1 < 65536 -> length w1 = Z.to_nat (cap a) -> Good H o1 w1 ->
  match snd (snd (a_tail a p o1 w1 pli)) with
  | None => origin (fst (a_tail a p o1 w1 pli)) = Some o1
  | Some f =>
      exists ps q, frame_of ps f /\
        (forall j x, nth_error ps j = Some x -> pseq x = uint16_add o1 (Z.of_nat j) /\ In x (p :: H)) /\
        In q (p :: H) /\ pseq q = uint16_add o1 (Z.of_nat (length ps)) /\ pts q <> fts f /\
        origin (fst (a_tail a p o1 w1 pli)) = Some (pseq q)
  end.
Proof.
  intros Hp Ho HL G. unfold a_tail.
  set (d := Z.to_nat (uint16_add (pseq p) (- o1))).
  set (w2 := w_set w1 d (Some p)).
  assert (G2 : Good (p :: H) o1 w2) by (apply Good_set; assumption).
  destruct (w_frame w2 (prefetch a)) as [[f r]|] eqn:EF; cbn [fst snd origin]; [|reflexivity].
  destruct (w_frame_spec _ _ _ _ EF) as (ps & Hf & Hfirst & Hr & q0 & Hq0 & Hts0).
  assert (Hps : forall j q, nth_error ps j = Some q -> nth_error w2 j = Some (Some q)).
  { intros j q E. assert (Hj : (j < Z.to_nat r)%nat) by (apply nth_error_some_lt in E; lia).
    rewrite <- (nth_error_firstn' w2 (Z.to_nat r) j Hj), Hfirst, nth_error_map, E. reflexivity. }
  exists ps, q0. split; [exact Hf|]. split.
  { intros j x E. exact (G2 _ _ (Hps _ _ E)). }
  destruct (G2 _ _ Hq0) as [Eq0 Inq0].
  assert (Er : Z.of_nat (Z.to_nat r) = Z.of_nat (length ps)) by lia.
  split; [exact Inq0|]. split; [rewrite Eq0, Er; reflexivity|]. split; [exact Hts0|].
  rewrite Eq0. f_equal. f_equal. lia.
Qed.

(* one add(): a released frame sits at some origin o1 and is followed by a held packet with another
   timestamp; on a VIDEO buffer, unless the PLI flag is raised, o1 is the origin before the call and
   the origin is only moved by releasing that frame *)
Lemma a_add_track H a p :
  0 < cap a -> AInv H a -> seq16 p ->
  match snd (snd (a_add a p)) with
  | None => is_video a = true -> fst (snd (a_add a p)) = false -> origin a <> None ->
            origin (fst (a_add a p)) = origin a
  | Some f =>
      exists ps q o1, 0 <= o1 < 65536 /\ frame_of ps f /\
        (forall j x, nth_error ps j = Some x -> pseq x = uint16_add o1 (Z.of_nat j) /\ In x (p :: H)) /\
        In q (p :: H) /\ pseq q = uint16_add o1 (Z.of_nat (length ps)) /\ pts q <> fts f /\
        origin (fst (a_add a p)) = Some (pseq q) /\
        (is_video a = true -> fst (snd (a_add a p)) = false -> origin a <> None -> origin a = Some o1)
  end.
Proof.
  intros Hc [HL HO] Hp.
  (* a_place with its three ways of calling a_tail *)
  assert (Hplace : forall o delta w pli, 0 <= o < 65536 -> length w = Z.to_nat (cap a) -> Good H o w ->
    match snd (snd (a_place a p o delta w pli)) with
    | None => is_video a = true -> fst (snd (a_place a p o delta w pli)) = false ->
              origin (fst (a_place a p o delta w pli)) = Some o
    | Some f =>
        exists ps q o1, 0 <= o1 < 65536 /\ frame_of ps f /\
          (forall j x, nth_error ps j = Some x -> pseq x = uint16_add o1 (Z.of_nat j) /\ In x (p :: H)) /\
          In q (p :: H) /\ pseq q = uint16_add o1 (Z.of_nat (length ps)) /\ pts q <> fts f /\
          origin (fst (a_place a p o delta w pli)) = Some (pseq q) /\
          (is_video a = true -> fst (snd (a_place a p o delta w pli)) = false -> o1 = o)
    end).
  { intros o delta w pli Ho HLw G.
    pose proof (a_place_char H a p o delta w pli Hp Ho HLw G) as (_ & Hpli & _).
    unfold a_place in *. destruct (Z.geb_spec delta (cap a)) as [Hge|Hlt]; cbn [andb] in Hpli.
    - destruct (w_smart w 0 (delta - cap a + 1) None) as [b|] eqn:EB.
      + pose proof (w_smart_lt _ _ _ _ _ EB) as Hb.
        pose proof (a_tail_next H a p (uint16_add o (Z.of_nat b)) (w_remove w b) (pli || is_video a) Hp
                      (uint16_add_range _ _) ltac:(rewrite w_remove_length; lia)
                      ltac:(apply Good_remove; [lia|exact G])) as HT.
        destruct (snd (snd (a_tail a p (uint16_add o (Z.of_nat b)) (w_remove w b) (pli || is_video a)))) as [f|].
        * destruct HT as (ps & q & T1 & T2 & T3 & T4 & T5 & T6). exists ps, q, (uint16_add o (Z.of_nat b)).
          split; [apply uint16_add_range|]. repeat (split; [assumption|]).
          intros Hv Hf. rewrite Hf in Hpli. rewrite Hv in Hpli. destruct pli; discriminate.
        * intros Hv Hf. rewrite Hf in Hpli. rewrite Hv in Hpli. destruct pli; discriminate.
      + pose proof (a_tail_next H a p (pseq p) (repeat None (length w)) (pli || is_video a) Hp Hp
                      ltac:(rewrite repeat_length; exact HLw) (Good_repeat _ _ _)) as HT.
        destruct (snd (snd (a_tail a p (pseq p) (repeat None (length w)) (pli || is_video a)))) as [f|].
        * destruct HT as (ps & q & T1 & T2 & T3 & T4 & T5 & T6). exists ps, q, (pseq p).
          split; [exact Hp|]. repeat (split; [assumption|]).
          intros Hv Hf. rewrite Hf in Hpli. rewrite Hv in Hpli. destruct pli; discriminate.
        * intros Hv Hf. rewrite Hf in Hpli. rewrite Hv in Hpli. destruct pli; discriminate.
    - pose proof (a_tail_next H a p o w pli Hp Ho HLw G) as HT.
      destruct (snd (snd (a_tail a p o w pli))) as [f|].
      + destruct HT as (ps & q & T1 & T2 & T3 & T4 & T5 & T6). exists ps, q, o.
        split; [exact Ho|]. repeat (split; [assumption|]). reflexivity.
      + intros _ _. exact HT. }
  unfold a_add. destruct (origin a) as [o|] eqn:EO.
  - destruct HO as [Ho G].
    destruct (uint16_add o (- pseq p) <? uint16_add (pseq p) (- o)).
    + destruct (uint16_add o (- pseq p) >=? MAX_MISORDER).
      * (* reset: the flag is raised on a video buffer *)
        pose proof (a_place_char H a p (pseq p) 0 (repeat None (length (slots a))) (is_video a) Hp Hp
                      ltac:(rewrite repeat_length; exact HL) (Good_repeat _ _ _)) as (_ & Hpli & _).
        pose proof (Hplace (pseq p) 0 (repeat None (length (slots a))) (is_video a) Hp
                      ltac:(rewrite repeat_length; exact HL) (Good_repeat _ _ _)) as HT.
        destruct (snd (snd (a_place a p (pseq p) 0 (repeat None (length (slots a))) (is_video a)))) as [f|].
        -- destruct HT as (ps & q & o1 & T0 & T1 & T2 & T3 & T4 & T5 & T6 & _). exists ps, q, o1.
           repeat (split; [assumption|]). intros Hv Hf. rewrite Hf in Hpli. rewrite Hv in Hpli. cbn [orb] in Hpli. discriminate.
        -- intros Hv Hf. rewrite Hf in Hpli. rewrite Hv in Hpli. cbn [orb] in Hpli. discriminate.
      * cbn [fst snd]. intros _ _ _. exact EO.
    + pose proof (Hplace o (uint16_add (pseq p) (- o)) (slots a) false Ho HL G) as HT.
      destruct (snd (snd (a_place a p o (uint16_add (pseq p) (- o)) (slots a) false))) as [f|].
      * destruct HT as (ps & q & o1 & T0 & T1 & T2 & T3 & T4 & T5 & T6 & T7). exists ps, q, o1.
        repeat (split; [assumption|]). intros Hv Hf _. rewrite (T7 Hv Hf). reflexivity.
      * intros Hv Hf _. exact (HT Hv Hf).
  - pose proof (Hplace (pseq p) 0 (slots a) false Hp HL ltac:(rewrite HO; apply Good_repeat)) as HT.
    destruct (snd (snd (a_place a p (pseq p) 0 (slots a) false))) as [f|].
    + destruct HT as (ps & q & o1 & T0 & T1 & T2 & T3 & T4 & T5 & T6 & T7). exists ps, q, o1.
      repeat (split; [assumption|]). intros _ _ Hn. congruence.
    + intros _ _ Hn. congruence.
Qed.

(* ---- histories -------------------------------------------------------------------- *)
Section Run.
Variable frames : list (list pkt).

(* `clean` = the origin is the first packet of a frame and nothing was discarded since *)
Fixpoint scan (clean : bool) (outs : list out) : Prop :=
  match outs with
  | [] => True
  | (pli, fr) :: t =>
      let clean' := clean && negb pli in
      match fr with
      | Some f => (if clean' then whole_frame frames f else tail_frame frames f) /\ scan true t
      | None => scan clean' t
      end
  end.

Definition parts (outs : list out) : Prop :=
  Forall (fun o : out => match snd o with Some f => part_frame frames f | None => True end) outs.

Hypothesis Hok : Forall frame_ok frames.
Hypothesis Hts : ts_distinct frames.

(* never a splice -- no assumption on the length of the stream, audio or video *)
Lemma a_run_parts l : forall a H,
  0 < cap a -> AInv H a -> Forall seq16 l -> (forall x, In x H -> sent frames x) -> Forall (sent frames) l ->
  parts (snd (a_run a l)).
Proof.
  induction l as [|p l IH]; intros a H Hc HI HF HH HS; cbn [a_run snd]; [constructor|].
  inversion HF as [|? ? Hp HF']; subst. inversion HS as [|? ? Sp HS']; subst.
  pose proof (a_add_char H a p Hc HI Hp) as (I1 & _).
  assert (HH1 : forall x, In x (p :: H) -> sent frames x).
  { intros x [<-|Hx]; [exact Sp|apply HH; exact Hx]. }
  constructor.
  - pose proof (a_add_track H a p Hc HI Hp) as HT.
    destruct (snd (snd (a_add a p))) as [f|]; [|exact I].
    destruct HT as (ps & q & o1 & T0 & T1 & T2 & _).
    assert (T2' : forall j x, nth_error ps j = Some x -> pseq x = uint16_add o1 (Z.of_nat j) /\ sent frames x).
    { intros j x E. destruct (T2 j x E) as [E1 E2]. split; [exact E1|apply HH1; exact E2]. }
    destruct (part_of_run frames Hok Hts ps o1 f T1 T2') as (g & i & Hg & Eg & _).
    exists g, (firstn i g), ps, (skipn (length ps) (skipn i g)).
    split; [exact Hg|]. split; [exact Eg|]. split; [exact T1|].
    apply (consec_of_run o1). intros j x E. exact (proj1 (T2 j x E)).
  - apply (IH (fst (a_add a p)) (p :: H)); try assumption. rewrite (proj1 (a_add_cap a p)). exact Hc.
Qed.

Hypothesis Hseq : seq_distinct frames.

Definition Clean (clean : bool) (a : jb) : Prop :=
  clean = true -> exists o, origin a = Some o /\ frame_start frames o.

(* whole frames, except right after the start or a discard (video) *)
Lemma a_run_scan l : forall a H clean,
  0 < cap a -> is_video a = true -> AInv H a -> Forall seq16 l ->
  (forall x, In x H -> sent frames x) -> Forall (sent frames) l -> Clean clean a ->
  scan clean (snd (a_run a l)).
Proof.
  induction l as [|p l IH]; intros a H clean Hc Hv HI HF HH HS HC; cbn [a_run snd]; [exact I|].
  inversion HF as [|? ? Hp HF']; subst. inversion HS as [|? ? Sp HS']; subst.
  pose proof (a_add_char H a p Hc HI Hp) as (I1 & _).
  assert (HH1 : forall x, In x (p :: H) -> sent frames x).
  { intros x [<-|Hx]; [exact Sp|apply HH; exact Hx]. }
  pose proof (a_add_track H a p Hc HI Hp) as HT.
  assert (Hc1 : 0 < cap (fst (a_add a p))) by (rewrite (proj1 (a_add_cap a p)); exact Hc).
  assert (Hv1 : is_video (fst (a_add a p)) = true) by (rewrite (proj2 (proj2 (a_add_cap a p))); exact Hv).
  destruct (a_add a p) as [a1 [pli fr]] eqn:EA. cbn [fst snd] in *. cbn [scan].
  destruct fr as [f|].
  - destruct HT as (ps & q & o1 & T0 & T1 & T2 & T3 & T4 & T5 & T6 & T7).
    assert (T2' : forall j x, nth_error ps j = Some x -> pseq x = uint16_add o1 (Z.of_nat j) /\ sent frames x).
    { intros j x E. destruct (T2 j x E) as [E1 E2]. split; [exact E1|apply HH1; exact E2]. }
    destruct (part_of_run frames Hok Hts ps o1 f T1 T2') as (g & i & Hg & Eg & Hnth).
    pose proof (run_reaches_end frames Hok Hseq ps o1 f q g i T1 Hg T2' Hnth (HH1 q T3) T4 T5) as Eend.
    rewrite Eend, app_nil_r in Eg.
    split.
    + destruct (clean && negb pli) eqn:EC.
      * apply andb_true_iff in EC. destruct EC as [-> Epli]. apply negb_true_iff in Epli. subst pli.
        destruct (HC eq_refl) as (o & EO & Hst).
        assert (o1 = o) by (specialize (T7 Hv eq_refl ltac:(congruence)); congruence). subst o1.
        pose proof (run_from_start frames Hok Hts Hseq ps o f g i T1 Hg T2' Hnth T0 Hst) as ->.
        cbn [firstn app] in Eg. exists g. split; [exact Hg|]. rewrite Eg. exact T1.
      * exists g, (firstn i g), ps. auto.
    + apply (IH a1 (p :: H) true); try assumption.
      intros _. exists (pseq q). split; [exact T6|].
      exact (next_is_start frames Hok Hseq ps o1 f q T1 T2' (HH1 q T3) T4 T5).
  - apply (IH a1 (p :: H)); try assumption.
    intros EC. apply andb_true_iff in EC. destruct EC as [-> Epli]. apply negb_true_iff in Epli. subst pli.
    destruct (HC eq_refl) as (o & EO & Hst). exists o. split; [|exact Hst].
    rewrite (HT Hv eq_refl ltac:(congruence)). exact EO.
Qed.

End Run.

(* ---- the model (ring level) ----------------------------------------------------------- *)
Theorem jitter_parts frames c pf v l s outs :
  cap_ok c -> Forall frame_ok frames -> ts_distinct frames ->
  Forall seq16 l -> Forall (sent frames) l -> reaches c pf v l s outs ->
  parts frames outs.
Proof.
  intros Hc Hok Hts HF HS HR. destruct (reaches_abs c pf v l s outs Hc HF HR) as [-> _].
  apply (a_run_parts frames Hok Hts l (a_init c pf v) []); try assumption.
  - apply cap_ok_pos. exact Hc.
  - apply a_init_inv.
  - intros x [].
Qed.

Theorem jitter_scan frames c pf l s outs :
  cap_ok c -> Forall frame_ok frames -> ts_distinct frames -> seq_distinct frames ->
  Forall seq16 l -> Forall (sent frames) l -> reaches c pf true l s outs ->
  scan frames false outs.
Proof.
  intros Hc Hok Hts Hseq HF HS HR. destruct (reaches_abs c pf true l s outs Hc HF HR) as [-> _].
  apply (a_run_scan frames Hok Hts Hseq l (a_init c pf true) [] false); try assumption.
  - apply cap_ok_pos. exact Hc.
  - reflexivity.
  - apply a_init_inv.
  - intros x [].
  - intros E. discriminate.
Qed.
