(* C06, recorded finding K11: a complete unordered message that follows the fragments of an
   incomplete one in the reassembly queue is skipped by pop_messages, and the FORWARD-TSN that
   later prunes those fragments does not look at the queue again.  Witness, evaluated on the
   model (the same event list replayed on the implementation is the finding's replay). *)
From Coq Require Import ZArith List Bool.
From AV Require Import Lib.Bytes Model.SctpRecv.
Import ListNotations.
Local Open Scope Z_scope.

Definition delivered (os : list rout) : list message :=
  flat_map (fun o => match o with OutOk ms _ => ms | OutAssert => [] end) os.

(* stream 2, unordered: fragments 100 (B) and 101 of a message whose last fragment 102 is lost and
   which the sender abandons; the complete one-chunk message 103; the FORWARD-TSN up to 102 *)
Definition stuck_f1 := mkChunk 100 2 0 true true false 53 [1].
Definition stuck_f2 := mkChunk 101 2 0 true false false 53 [2].
Definition stuck_m := mkChunk 103 2 0 true true true 53 [9].
Definition stuck_events := [EvData stuck_f1; EvData stuck_f2; EvData stuck_m; EvFwd 102 []].

Lemma unordered_message_stuck :
  let s := fst (rrun (rinit 99) stuck_events) in
  let os := snd (rrun (rinit 99) stuck_events) in
  last_rx s = 103 /\ misordered s = [] /\ delivered os = [] /\
  map (fun kv => (fst kv, reasm (snd kv))) (streams s) = [(2, [stuck_m])].
Proof. vm_compute. repeat split. Qed.
