(* Second loop of SessionDescription.parse on rendered codec lines, and the
   composition: parsing what MediaDescription.__str__ wrote. *)
From Coq Require Import ZArith List Bool Lia.
From AV Require Import Lib.Sx Model.Sdp Proof.SdpP1 Proof.SdpP2.
Import ListNotations.
Local Open Scope Z_scope.

(* lines the second loop looks at *)
Definition is_p2 (l : line) : bool :=
  match l with Lfmtp _ _ | Lrtcp_fb _ _ | Lerr2 _ => true | _ => false end.

Definition plain (l : line) : bool := negb (is_m l) && negb (is_p2 l).

Lemma step2_skip : forall l cs, is_p2 l = false -> step2 cs l = Ok cs.
Proof. intros l cs H. destruct l; try reflexivity; discriminate. Qed.

Lemma p2_skip : forall l cs, forallb plain l = true -> rfold step2 l cs = Ok cs.
Proof.
  intros l cs H. apply rfold_noop. apply Forall_forall. intros x Hx a.
  apply step2_skip. rewrite forallb_forall in H. specialize (H x Hx). unfold plain in H.
  apply andb_true_iff in H as [_ H]. now apply negb_true_iff in H.
Qed.

Lemma plain_nom : forall l, forallb plain l = true -> forallb (fun x => negb (is_m x)) l = true.
Proof.
  intros l H. rewrite forallb_forall in *. intros x Hx. specialize (H x Hx). unfold plain in H.
  now apply andb_true_iff in H as [H _].
Qed.

Lemma forallb_map_all : forall {T} (P : line -> bool) (f : T -> line) l,
  (forall x, P (f x) = true) -> forallb P (map f l) = true.
Proof. intros T P f l H. induction l; cbn [map forallb]; [reflexivity|]. now rewrite H, IHl. Qed.

Lemma forallb_app2 : forall (P : line -> bool) a b, forallb P a = true -> forallb P b = true -> forallb P (a ++ b) = true.
Proof. intros. rewrite forallb_app. now apply andb_true_iff. Qed.

(* ---- rmap over the codec list ---- *)
Lemma rmap_app : forall {A B} (f : A -> result B) a b,
  rmap f (a ++ b) = bind (rmap f a) (fun a' => bind (rmap f b) (fun b' => Ok (a' ++ b'))).
Proof.
  intros A B f a b. induction a as [|x a IH]; cbn [app rmap bind].
  - destruct (rmap f b); reflexivity.
  - destruct (f x); cbn [bind]; try reflexivity. rewrite IH.
    destruct (rmap f a); cbn [bind]; try reflexivity. destruct (rmap f b); reflexivity.
Qed.

Lemma rmap_id : forall {A} (f : A -> result A) l, (forall x, In x l -> f x = Ok x) -> rmap f l = Ok l.
Proof.
  intros A f l H. induction l as [|x l IH]; cbn [rmap]; [reflexivity|].
  rewrite H by now left. cbn [bind]. rewrite IH; [reflexivity|]. intros y Hy. apply H. now right.
Qed.

Definition with_fb (c : codec) (fb : list feedback) : codec :=
  mkCodec (k_mime c) (k_clock c) (k_channels c) (k_pt c) fb (k_params c).
Definition with_params (c : codec) (p : params) : codec :=
  mkCodec (k_mime c) (k_clock c) (k_channels c) (k_pt c) (k_fb c) p.

Lemma add_fb_other : forall pt f l, ~ In pt (map k_pt l) -> rmap (add_fb (FbPt pt) (Some f)) l = Ok l.
Proof.
  intros pt f l H. apply rmap_id. intros c Hc. unfold add_fb, fb_matches.
  destruct (Z.eqb pt (k_pt c)) eqn:E; [|reflexivity].
  apply Z.eqb_eq in E. exfalso. apply H. subst. now apply in_map.
Qed.

Lemma add_fb_mid : forall c f done rest,
  ~ In (k_pt c) (map k_pt done) -> ~ In (k_pt c) (map k_pt rest) ->
  rmap (add_fb (FbPt (k_pt c)) (Some f)) (done ++ c :: rest) = Ok (done ++ with_fb c (k_fb c ++ [f]) :: rest).
Proof.
  intros c f done rest H1 H2. rewrite rmap_app, add_fb_other by exact H1. cbn [bind rmap].
  unfold add_fb at 1. cbn [fb_matches]. rewrite Z.eqb_refl. cbn [bind].
  rewrite add_fb_other by exact H2. reflexivity.
Qed.

Definition norm_fb (f : feedback) : feedback := (fst f, if truthy (snd f) then snd f else None).

Lemma p2_fbs : forall fbs c done rest,
  ~ In (k_pt c) (map k_pt done) -> ~ In (k_pt c) (map k_pt rest) ->
  rfold step2 (map (fb_line (k_pt c)) fbs) (done ++ c :: rest)
  = Ok (done ++ with_fb c (k_fb c ++ map norm_fb fbs) :: rest).
Proof.
  induction fbs as [|f fbs IH]; intros c done rest H1 H2; cbn [map rfold].
  - rewrite app_nil_r. destruct c; reflexivity.
  - unfold fb_line at 1. cbn [step2]. rewrite add_fb_mid by assumption. cbn [bind].
    change (k_pt c) with (k_pt (with_fb c (k_fb c ++ [(fst f, if truthy (snd f) then snd f else None)]))) at 1.
    rewrite IH by assumption. cbn [with_fb k_fb k_mime k_clock k_channels k_pt k_params].
    now rewrite <- app_assoc.
Qed.

Lemma set_params_mid : forall c p done rest, ~ In (k_pt c) (map k_pt done) ->
  set_params (done ++ c :: rest) (k_pt c) p = Some (done ++ with_params c p :: rest).
Proof.
  intros c p done rest. induction done as [|d done IH]; intros H; cbn [app set_params].
  - now rewrite Z.eqb_refl.
  - cbn [map In] in H. destruct (Z.eqb (k_pt d) (k_pt c)) eqn:E.
    + apply Z.eqb_eq in E. exfalso. apply H. now left.
    + rewrite IH; [reflexivity|]. intro. apply H. now right.
Qed.

Definition full (kind : str) (c : codec) : codec :=
  let b := blank kind c in
  mkCodec (k_mime b) (k_clock b) (k_channels b) (k_pt b) (map norm_fb (k_fb c))
          (if params_empty (k_params c) then [] else k_params c).

Lemma params_from_nodup : forall p, NoDup (map fst p) -> params_from p = p.
Proof.
  intros p H. unfold params_from.
  exact (fold_dset_nodup _ _ str_eqb str_eqb_iff p [] H).
Qed.

Lemma p2_codec_one : forall kind c l done rest, codec_lines c = Ok l ->
  NoDup (map fst (k_params c)) ->
  ~ In (k_pt c) (map k_pt done) -> ~ In (k_pt c) (map k_pt rest) ->
  rfold step2 l (done ++ blank kind c :: rest) = Ok (done ++ full kind c :: rest).
Proof.
  intros kind c l done rest H Hnd H1 H2. unfold codec_lines in H.
  destruct (name_of (k_mime c)) as [n|] eqn:En; [|discriminate]. inversion H; subst l. clear H.
  cbn [rfold step2 bind]. rewrite rfold_app.
  change (k_pt c) with (k_pt (blank kind c)) at 1.
  rewrite p2_fbs by assumption. cbn [bind blank k_fb app].
  destruct (params_empty (k_params c)) eqn:Ep; cbn [rfold].
  - unfold full. rewrite Ep. reflexivity.
  - cbn [step2]. rewrite has_pt_true.
    2:{ rewrite map_app, in_app_iff. right. left. reflexivity. }
    unfold params_to. rewrite (params_from_nodup _ Hnd).
    match goal with |- context [set_params (done ++ ?c' :: rest) _ _] =>
      change (k_pt c) with (k_pt c'); rewrite (set_params_mid c' (k_params c) done rest H1) end.
    cbn [bind]. unfold full, with_params, with_fb. rewrite Ep. reflexivity.
Qed.

Lemma p2_codecs : forall kind cs l done, concat_r (map codec_lines cs) = Ok l ->
  NoDup (map k_pt done ++ map k_pt cs) ->
  Forall (fun c => NoDup (map fst (k_params c))) cs ->
  rfold step2 l (done ++ map (blank kind) cs) = Ok (done ++ map (full kind) cs).
Proof.
  intros kind. induction cs as [|c cs IH]; intros l done H Hnd Hp; cbn [map concat_r fold_right] in H.
  - inversion H; subst. reflexivity.
  - apply bind_ok in H as (l1 & H1 & H). apply bind_ok in H as (l2 & H2 & H). inversion H; subst l. clear H.
    inversion Hp as [|? ? Hc Hcs]; subst. cbn [map] in *.
    rewrite rfold_app.
    rewrite (p2_codec_one kind c l1 done (map (blank kind) cs) H1 Hc).
    + cbn [bind].
      replace (done ++ full kind c :: map (blank kind) cs) with ((done ++ [full kind c]) ++ map (blank kind) cs)
        by now rewrite <- app_assoc.
      rewrite (IH l2 (done ++ [full kind c]) H2); [now rewrite <- app_assoc| |exact Hcs].
      rewrite map_app. cbn [map full blank k_pt]. now rewrite <- app_assoc.
    + apply NoDup_remove_2 in Hnd. intro. apply Hnd. rewrite in_app_iff. now left.
    + apply NoDup_remove_2 in Hnd. intro Hin. apply Hnd. rewrite in_app_iff. right.
      rewrite map_map in Hin. cbn [blank k_pt] in Hin. exact Hin.
Qed.

(* ---- what every parsed description satisfies ------------------------------- *)
Definition wfp_codec (kind : str) (c : codec) : Prop :=
  (exists x, k_mime c = kind ++ SLASH :: x) /\
  (str_eqb kind s_audio = false -> k_channels c = None) /\
  NoDup (map fst (k_params c)).

Definition wfp_media (m : media) : Prop :=
  m_fmt m <> [] /\
  (is_av (m_kind m) = true -> fmt_all_int (m_fmt m) = true /\ fmt_pts_ok (m_fmt m) = true) /\
  NoDup (map s_id (m_ssrc m)) /\
  NoDup (map k_pt (m_codecs m)) /\
  Forall (wfp_codec (m_kind m)) (m_codecs m) /\
  NoDup (map fst (m_sctpmap m)).

(* what one round of str() then parse() turns a media description into *)
Definition norm_media (lite : bool) (m : media) : media :=
  mkMedia (m_kind m) (m_port m) (m_host m) (m_profile m) (m_direction m)
          (if truthy (m_msid m) then m_msid m else None)
          (m_rtcp_port m) (match m_rtcp_port m with Some _ => m_rtcp_host m | None => None end) (m_rtcp_mux m)
          (filter ssrc_nonempty (m_ssrc m)) (m_ssrc_group m) (m_fmt m)
          (map (full (m_kind m)) (m_codecs m)) (m_exts m)
          (if truthy (m_mid m) then m_mid m else Some [])
          (m_sctp_cap m) (m_sctpmap m) (m_sctp_port m) (m_dtls m)
          (match m_ice m with Some i => Some (mkIce (i_ufrag i) (i_pwd i) lite) | None => None end)
          (m_cands m) (m_complete m) (m_ice_options m).

Lemma or_else_none : forall {T} (o : option T), or_else o None = o.
Proof. now intros T [x|]. Qed.

Lemma addr_lines_plain : forall o l, addr_lines o Lc = Ok l -> forallb plain l = true.
Proof.
  intros [a|] l H; cbn [addr_lines] in H; [destruct (addr_ok a)|]; inversion H; reflexivity.
Qed.

Lemma rtcp_lines_plain : forall m l, rtcp_lines m = Ok l -> forallb plain l = true.
Proof.
  intros m l H. unfold rtcp_lines in H. destruct (m_rtcp_port m); [destruct (m_rtcp_host m) as [a|]; [destruct (addr_ok a)|]|];
    inversion H; reflexivity.
Qed.

Lemma opt_line_plain : forall {T} (o : option T) mk, (forall x, plain (mk x) = true) -> forallb plain (opt_line o mk) = true.
Proof. intros T [x|] mk H; cbn [opt_line forallb]; [now rewrite H|reflexivity]. Qed.

Lemma ice_lines_plain : forall m l, ice_lines m = Ok l -> forallb plain l = true.
Proof.
  intros m l H. unfold ice_lines in H. destruct (m_ice m); inversion H.
  apply forallb_app2; apply opt_line_plain; reflexivity.
Qed.

Lemma dtls_lines_plain : forall m l, dtls_lines m = Ok l -> forallb plain l = true.
Proof.
  intros m l H. unfold dtls_lines in H. destruct (m_dtls m) as [[fps r]|]; [|now inversion H].
  apply bind_ok in H as (s & _ & H). inversion H.
  apply forallb_app2; [apply forallb_map_all; reflexivity|reflexivity].
Qed.

Lemma ssrc_lines_plain : forall l, forallb plain (flat_map ssrc_lines l) = true.
Proof.
  induction l as [|s l IH]; cbn [flat_map]; [reflexivity|].
  apply forallb_app2; [|exact IH]. unfold ssrc_lines.
  repeat apply forallb_app2; apply opt_line_plain; reflexivity.
Qed.

Lemma codec_lines_nom : forall cs l, concat_r (map codec_lines cs) = Ok l ->
  forallb (fun x => negb (is_m x)) l = true.
Proof.
  induction cs as [|c cs IH]; intros l H; cbn [map concat_r fold_right] in H.
  - now inversion H.
  - apply bind_ok in H as (l1 & H1 & H). apply bind_ok in H as (l2 & H2 & H). inversion H; subst l.
    apply forallb_app2; [|now apply IH].
    unfold codec_lines in H1. destruct (name_of (k_mime c)); inversion H1. cbn [forallb is_m negb andb].
    apply forallb_app2; [apply forallb_map_all; reflexivity|].
    destruct (params_empty (k_params c)); reflexivity.
Qed.

Lemma rfold2_app_plain_l : forall a b cs, forallb plain a = true -> rfold step2 (a ++ b) cs = rfold step2 b cs.
Proof. intros. rewrite rfold_app, p2_skip by assumption. reflexivity. Qed.

Lemma if_plain : forall (b : bool) l, plain l = true -> forallb plain (if b then [l] else []) = true.
Proof. intros [|] l H; cbn [forallb]; [now rewrite H|reflexivity]. Qed.

(* parsing what MediaDescription.__str__ wrote *)
Lemma absorb_render_media : forall x m l,
  wfp_media m -> render_media m = Ok l ->
  x_fps x = [] -> x_role x = None -> x_options x = None -> x_pwd x = None -> x_ufrag x = None ->
  exists body,
    l = Lm (m_kind m) (m_port m) (m_profile m) (m_fmt m) :: body /\
    forallb (fun y => negb (is_m y)) body = true /\
    absorb_media x (Lm (m_kind m) (m_port m) (m_profile m) (m_fmt m), body) = Ok (norm_media (x_lite x) m).
Proof.
  intros x m l (Hfmt & Hav & Hss & Hpt & Hcs & Hsm) H Hf Hr Ho Hp Hu.
  unfold render_media in H.
  apply bind_ok in H as (l_host & E_host & H). apply bind_ok in H as (l_rtcp & E_rtcp & H).
  apply bind_ok in H as (l_codecs & E_codecs & H). apply bind_ok in H as (l_ice & E_ice & H).
  apply bind_ok in H as (l_dtls & E_dtls & H). inversion H; subst l; clear H.
  eexists. split; [reflexivity|]. split.
  { repeat first [ apply forallb_app2
                 | apply plain_nom; first [ eapply addr_lines_plain; eassumption | eapply rtcp_lines_plain; eassumption
                                          | eapply ice_lines_plain; eassumption | eapply dtls_lines_plain; eassumption
                                          | apply ssrc_lines_plain
                                          | apply opt_line_plain; reflexivity
                                          | apply forallb_map_all; reflexivity
                                          | apply if_plain; reflexivity ]
                 | eapply codec_lines_nom; eassumption ]. }
  unfold absorb_media. cbn [fst snd].
  assert (Echeck : match m_fmt m with
                   | [] => Crash
                   | _ => if is_av (m_kind m) then
                            if fmt_all_int (m_fmt m) then (if fmt_pts_ok (m_fmt m) then Ok tt else Crash) else ValueErr
                          else Ok tt
                   end = Ok tt).
  { destruct (m_fmt m) eqn:Ef; [congruence|]. rewrite <- Ef in *.
    destruct (is_av (m_kind m)); [|reflexivity]. destruct (Hav eq_refl) as [-> ->]. reflexivity. }
  rewrite Echeck. cbn [bind]. rewrite Hf, Hr, Ho, Hp, Hu. unfold media0.
  (* first loop *)
  destruct (p1_ice m l_ice (mkSt (media0 [] 0 [] [] None) [] None None None) E_ice) as (i & Ei & _).
  set (body := l_host ++ _).
  assert (P1 : rfold step1 body
                 (mkSt (mkMedia (m_kind m) (m_port m) None (m_profile m) None None None None false [] [] (m_fmt m) [] []
                                (Some []) None [] None None None [] false None) [] None None None)
               = Ok (mkSt (set_dtls_ice (set_codecs (norm_media (x_lite x) m) (map (blank (m_kind m)) (m_codecs m))) None None)
                          (match m_dtls m with Some (fps, _) => fps | None => [] end)
                          (match m_dtls m with Some (_, r) => r | None => None end)
                          (i_ufrag i) (i_pwd i))).
  { subst body.
    rewrite rfold_app, (p1_host _ _ _ E_host). proj_norm.
    rewrite rfold_app, p1_direction. proj_norm.
    rewrite rfold_app, p1_exts. proj_norm.
    rewrite rfold_app, p1_mid. proj_norm.
    rewrite rfold_app, p1_msid. proj_norm.
    rewrite rfold_app, (p1_rtcp _ _ _ E_rtcp). proj_norm.
    rewrite rfold_app, p1_mux. proj_norm.
    rewrite rfold_app, p1_ssrc_group. proj_norm.
    rewrite rfold_app, (p1_ssrc _ []); [|exact Hss|reflexivity]. unfold set_t_ssrc. proj_norm.
    rewrite rfold_app, (p1_codecs _ _ [] _ E_codecs); [|exact Hpt|reflexivity]. unfold set_t_codecs. proj_norm.
    rewrite rfold_app, p1_sctpmap; [|exact Hsm]. proj_norm.
    rewrite rfold_app, p1_sctp_port. proj_norm.
    rewrite rfold_app, p1_max_msg. proj_norm.
    rewrite rfold_app, p1_cands. proj_norm.
    rewrite rfold_app, p1_complete. proj_norm.
    rewrite rfold_app.
    match goal with |- context [rfold step1 l_ice ?t] =>
      destruct (p1_ice m l_ice t E_ice) as (i' & Ei' & ->) end.
    rewrite Ei in Ei'. inversion Ei'; subst i'. proj_norm.
    rewrite rfold_app, p1_ice_options. proj_norm.
    match goal with |- context [rfold step1 l_dtls ?t] => pose proof (p1_dtls m l_dtls t E_dtls) as Hd end.
    destruct (m_dtls m) as [[fps role]|] eqn:Edt.
    - destruct Hd as (r & -> & _ & ->). unfold norm_media. proj_norm. cbn [app]. rewrite !or_else_none, !orb_false_r.
      destruct (m_rtcp_port m); rewrite ?or_else_none; reflexivity.
    - subst l_dtls. cbn [rfold]. unfold norm_media. proj_norm. cbn [app]. rewrite !or_else_none, !orb_false_r.
      destruct (m_rtcp_port m); rewrite ?or_else_none; reflexivity. }
  rewrite P1. cbn [bind t_m]. proj_norm.
  (* second loop *)
  assert (P2 : rfold step2 body (map (blank (m_kind m)) (m_codecs m)) = Ok (map (full (m_kind m)) (m_codecs m))).
  { subst body.
    rewrite rfold2_app_plain_l by (eapply addr_lines_plain; eassumption).
    rewrite rfold2_app_plain_l by (apply opt_line_plain; reflexivity).
    rewrite rfold2_app_plain_l by (apply forallb_map_all; reflexivity).
    rewrite rfold2_app_plain_l by (apply if_plain; reflexivity).
    rewrite rfold2_app_plain_l by (apply if_plain; reflexivity).
    rewrite rfold2_app_plain_l by (eapply rtcp_lines_plain; eassumption).
    rewrite rfold2_app_plain_l by (apply if_plain; reflexivity).
    rewrite rfold2_app_plain_l by (apply forallb_map_all; reflexivity).
    rewrite rfold2_app_plain_l by (apply ssrc_lines_plain).
    rewrite rfold_app.
    pose proof (p2_codecs (m_kind m) (m_codecs m) l_codecs [] E_codecs) as Hc. cbn [app map] in Hc.
    rewrite Hc; [|exact Hpt|].
    - cbn [bind app]. apply p2_skip.
      repeat first [ apply forallb_app2
                   | eapply ice_lines_plain; eassumption | eapply dtls_lines_plain; eassumption
                   | apply opt_line_plain; reflexivity
                   | apply forallb_map_all; reflexivity
                   | apply if_plain; reflexivity ].
    - eapply Forall_impl; [|exact Hcs]. intros c (_ & _ & Hc0). exact Hc0. }
  rewrite P2. cbn [bind]. f_equal.
  unfold norm_media. proj_norm. rewrite Ei.
  pose proof (p1_dtls m l_dtls (mkSt (media0 [] 0 [] [] None) [] None None None) E_dtls) as Hd.
  destruct (m_dtls m) as [[fps role]|]; [|reflexivity].
  destruct Hd as (r & -> & _ & _). reflexivity.
Qed.
