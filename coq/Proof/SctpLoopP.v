(* C02: the acknowledgement assumed by the drain theorem (SctpTxLiveP.drain) is the one the
   receiver model really sends: when the chunks outstanding at the sender arrive in order and
   nothing is lost, the receiver's SACK carries the TSN of the last one and no gap blocks. *)
From Coq Require Import ZArith List Bool Lia ZifyBool.
From AV Require Import Lib.Bytes Gen.Utils Gen.SctpConst Model.SctpRecv Model.SctpTx Proof.SctpDupP Proof.SctpTxLiveP.
Import ListNotations.
Local Open Scope Z_scope.

Ltac Zify.zify_post_hook ::= Z.to_euclidean_division_equations.

Lemma in_order_mark s t : r32 (last_rx s) -> misordered s = [] -> t = tsn_plus_one (last_rx s) ->
  let '(s', dup) := mark_received s t in dup = false /\ last_rx s' = t /\ misordered s' = [] /\ streams s' = streams s.
Proof.
  intros Hr Hm Ht. unfold mark_received. rewrite Hm. cbn [zmem existsb orb].
  assert (G : uint32_gte (last_rx s) t = false).
  { subst t. unfold uint32_gte, uint32_gt, tsn_plus_one, SCTP_TSN_MODULO, r32, M32 in *. lia. }
  rewrite G. cbn [orb sorted_misordered fold_right insert_by consolidate].
  assert (E : (t =? tsn_plus_one (last_rx s)) = true) by (apply Z.eqb_eq; exact Ht). rewrite E.
  cbn [consolidate filter]. assert (O : is_obsolete t t = false).
  { unfold is_obsolete, uint32_gt. lia. }
  rewrite O. cbn [last_rx misordered streams]. auto.
Qed.

Lemma in_order_data s c s' ms : r32 (last_rx s) -> misordered s = [] -> tsn c = tsn_plus_one (last_rx s) ->
  receive_data s c = ROk s' ms -> last_rx s' = tsn c /\ misordered s' = [].
Proof.
  intros Hr Hm Ht. unfold receive_data.
  set (s0 := mkR (last_rx s) (misordered s) (duplicates s) (streams s) (rwnd s) true).
  assert (Hfa : far_ahead s0 (tsn c) = false).
  { unfold far_ahead, serial_key. cbn [s0 last_rx]. rewrite Ht. unfold tsn_plus_one, SCTP_TSN_MODULO, r32, M32 in *.
    apply andb_false_iff. left. apply Z.leb_gt. lia. }
  rewrite Hfa. pose proof (in_order_mark s0 (tsn c) Hr Hm Ht) as M.
  destruct (mark_received s0 (tsn c)) as [s1 dup]. destruct M as (-> & El & Em & _).
  destruct (add_chunk _ c) as [l|]; [|discriminate].
  destruct (pop_messages l _) as [[l2 seq2] out]. intros [= <- _]. cbn [last_rx misordered]. auto.
Qed.

Lemma tsn_plus_one_r32 t : r32 (tsn_plus_one t).
Proof. unfold r32, M32, tsn_plus_one, SCTP_TSN_MODULO. lia. Qed.

(* consecutive TSNs after t *)
Fixpoint consecutive (t : Z) (l : list Z) : Prop :=
  match l with [] => True | x :: l' => x = tsn_plus_one t /\ consecutive x l' end.

(* all of cs arrive, in order, at a receiver that has everything up to `last_rx s`: the last SACK *)
Theorem in_order_sack : forall cs s, r32 (last_rx s) -> misordered s = [] -> consecutive (last_rx s) (map tsn cs) ->
  Forall (fun o => o <> OutAssert) (snd (rrun s (map EvData cs))) ->
  let s' := fst (rrun s (map EvData cs)) in
  last_rx s' = List.last (map tsn cs) (last_rx s) /\ misordered s' = [] /\
  (cs <> [] -> exists ms rw dups,
     List.last (snd (rrun s (map EvData cs))) OutAssert = OutOk ms (Some (mkSack (last_rx s') rw [] dups))).
Proof.
  induction cs as [|c cs IH]; intros s Hr Hm Hc Hna; cbv zeta.
  - cbn [map rrun fst snd List.last]. split; [reflexivity|]. split; [exact Hm|]. intros H. congruence.
  - cbn [map consecutive] in Hc. destruct Hc as [Ht Hc]. cbn [map rrun rstep] in Hna |- *.
    destruct (receive_data s c) as [s1 ms|] eqn:Erd.
    2:{ exfalso. destruct (rrun s (map EvData cs)) as [s2 os]. cbn [snd] in Hna. inversion Hna; subst. congruence. }
    destruct (in_order_data s c s1 ms Hr Hm Ht Erd) as [E1 E2].
    unfold make_sack in Hna |- *. cbn [fst snd] in Hna |- *.
    set (s2 := mkR (last_rx s1) (misordered s1) [] (streams s1) (rwnd s1) false) in *.
    assert (Hr2 : r32 (last_rx s2)) by (cbn [s2 last_rx]; rewrite E1, Ht; apply tsn_plus_one_r32).
    assert (Hm2 : misordered s2 = []) by exact E2.
    assert (Hc2 : consecutive (last_rx s2) (map tsn cs)) by (cbn [s2 last_rx]; rewrite E1; exact Hc).
    specialize (IH s2 Hr2 Hm2 Hc2).
    destruct (rrun s2 (map EvData cs)) as [s3 os] eqn:Er. cbn [fst snd] in *.
    assert (Hna2 : Forall (fun o => o <> OutAssert) os) by (inversion Hna; assumption).
    destruct (IH Hna2) as (I1 & I2 & I3).
    split.
    + rewrite I1. cbn [s2 last_rx]. rewrite E1. cbn [map]. symmetry. apply last_cons_default.
    + split; [exact I2|]. intros _.
      destruct cs as [|c' cs'].
      * cbn [map rrun] in Er. injection Er as <- <-. cbn [List.last]. exists ms, (Z.max 0 (rwnd s1)), (duplicates s1).
        rewrite E2. cbn [sorted_misordered fold_right gap_blocks s2 last_rx]. reflexivity.
      * destruct (I3 ltac:(discriminate)) as (ms' & rw & dups & H). exists ms', rw, dups.
        destruct os as [|o os'].
        { exfalso. cbn [map rrun] in Er. destruct (rstep s2 (EvData c')) as [sa oa]. destruct (rrun sa (map EvData cs')) as [sb ob]. discriminate. }
        change (List.last (?x :: o :: os') OutAssert) with (List.last (o :: os') OutAssert). exact H.
Qed.

(* ---- the sender's view: its outstanding chunks are exactly such a consecutive run (SctpTxLiveP.ord) *)
Lemma seqfrom_consecutive base N : 0 <= N < 2147483648 -> forall l t, inw base N t -> seqfrom base (off base t) l ->
  off base t + Z.of_nat (length l) <= N -> consecutive t l.
Proof.
  intros HN. induction l as [|x l IH]; intros t Ht Hs Hl; cbn [consecutive]; [exact I|].
  cbn [seqfrom length] in *. destruct Hs as (Hr & Ho & Hs).
  assert (Hx : inw base N x) by (split; [exact Hr|lia]).
  assert (E : x = tsn_plus_one t).
  { destruct (plus_one_off base N HN t Ht ltac:(lia)) as [Hp Eo]. apply (off_inj base N); auto. lia. }
  split; [exact E|]. apply IH; [exact Hx| |lia]. rewrite Ho. exact Hs.
Qed.

(* When everything the sender has outstanding reaches, in order, a receiver that has received
   everything before it, the receiver's last SACK is (highest TSN sent, no gaps): exactly the input
   SctpTxLiveP.ideal_input feeds the sender in the drain theorem. *)
Theorem ideal_sack_is_the_receivers base N (stx : tx) (cs : list chunk) (r : rstate) :
  r32 base -> 0 <= N < 2147483648 -> ord base N stx -> sentq stx <> [] ->
  map tsn cs = tsns (sentq stx) -> last_rx r = floor stx -> misordered r = [] ->
  Forall (fun o => o <> OutAssert) (snd (rrun r (map EvData cs))) ->
  exists ms rw dups,
    List.last (snd (rrun r (map EvData cs))) OutAssert = OutOk ms (Some (mkSack (highest_assigned stx) rw [] dups)).
Proof.
  intros Hb HN O Hne Ecs Elr Hm Hna. pose proof O as [Hl Ha Hs Ht]. destruct (floor_off base N Hb HN stx Hl Ha) as [Hf Ef].
  unfold qs in Hs, Ht. rewrite tsns_app in Hs. apply (seqfrom_app base N HN) in Hs as [Hs1 _]. rewrite app_length in Ht.
  assert (Hr : r32 (last_rx r)) by (rewrite Elr; destruct Hf; assumption).
  assert (Hc : consecutive (last_rx r) (map tsn cs)).
  { rewrite Ecs, Elr. apply (seqfrom_consecutive base N HN); [exact Hf|exact Hs1|rewrite tsns_length; lia]. }
  destruct (in_order_sack cs r Hr Hm Hc Hna) as (E1 & _ & E3). cbv zeta in *.
  assert (Hcs : cs <> []) by (intros ->; cbn in Ecs; destruct (sentq stx); [congruence|discriminate]).
  destruct (E3 Hcs) as (ms & rw & dups & H). exists ms, rw, dups. rewrite H. do 3 f_equal.
  rewrite E1, Ecs. unfold highest_assigned.
  destruct (rev (sentq stx)) as [|c rr] eqn:Er.
  - exfalso. apply Hne. rewrite <- (rev_involutive (sentq stx)), Er. reflexivity.
  - destruct (rev_last_tsn _ _ _ (last_rx r) Er) as [El _]. exact El.
Qed.
