(* C17: the SCTP receiver (Model/SctpRecv.v) does not depend on the TSN origin:
   shifting every TSN of the initial state and of the arriving chunks by any delta
   (mod 2^32) yields the same deliveries, and SACKs that differ only by that shift. *)
From Coq Require Import ZArith List Bool Lia ZifyBool.
From AV Require Import Lib.Bytes Gen.Utils Gen.SctpConst Model.SctpRecv Proof.SerialP Proof.SctpRecvP Proof.SctpC01P.
Import ListNotations.
Local Open Scope Z_scope.

Ltac Zify.zify_post_hook ::= Z.to_euclidean_division_equations.

Section Shift.
Variable d : Z.

Definition sh (t : Z) : Z := (t + d) mod 4294967296.
Definition r32 (t : Z) : Prop := 0 <= t < 4294967296.

Lemma sh_r32 t : r32 (sh t). Proof. unfold sh, r32. lia. Qed.
Lemma sh_inj a b : r32 a -> r32 b -> sh a = sh b -> a = b.
Proof. unfold sh, r32. lia. Qed.
Lemma sh_eqb a b : r32 a -> r32 b -> (sh a =? sh b) = (a =? b).
Proof.
  intros Ha Hb. destruct (Z.eqb_spec a b) as [->|Hne]; [apply Z.eqb_refl|].
  apply Z.eqb_neq. intros E. apply Hne. now apply sh_inj.
Qed.
Lemma sh_gt a b : r32 a -> r32 b -> uint32_gt (sh a) (sh b) = uint32_gt a b.
Proof. unfold sh, r32, uint32_gt. intros. apply eq_true_iff_eq. lia. Qed.
Lemma sh_gte a b : r32 a -> r32 b -> uint32_gte (sh a) (sh b) = uint32_gte a b.
Proof. intros Ha Hb. unfold uint32_gte. now rewrite sh_gt, sh_eqb. Qed.
Lemma sh_plus_one a : tsn_plus_one (sh a) = sh (tsn_plus_one a).
Proof. unfold sh, tsn_plus_one, SCTP_TSN_MODULO. lia. Qed.
Lemma sh_key b t : serial_key (sh b) (sh t) = serial_key b t.
Proof. unfold sh, serial_key, SCTP_TSN_MODULO. lia. Qed.
Lemma plus_one_r32 a : r32 (tsn_plus_one a).
Proof. unfold r32, tsn_plus_one, SCTP_TSN_MODULO. lia. Qed.

Definition shc (c : chunk) : chunk :=
  mkChunk (sh (tsn c)) (sid c) (sseq c) (unordered c) (first c) (last c) (ppid c) (udata c).
Definition cok (c : chunk) : Prop := r32 (tsn c).

(* ---- lists of TSNs *)
Lemma sh_insert b t l : insert_by (sh b) (sh t) (map sh l) = map sh (insert_by b t l).
Proof.
  induction l as [|x l IH]; cbn [insert_by map]; [reflexivity|].
  rewrite !sh_key. destruct (_ <=? _); cbn [map]; [reflexivity|]. now rewrite IH.
Qed.
Lemma sh_sorted b l : sorted_misordered (sh b) (map sh l) = map sh (sorted_misordered b l).
Proof.
  unfold sorted_misordered. induction l as [|x l IH]; cbn [fold_right map]; [reflexivity|].
  now rewrite IH, sh_insert.
Qed.
Lemma in_insert_by' b t l x : In x (insert_by b t l) -> x = t \/ In x l.
Proof.
  induction l as [|y l IH]; cbn [insert_by In]; [intuition|].
  destruct (_ <=? _); cbn [In]; [intuition|]. intros [H|H]; [auto|]. apply IH in H. intuition.
Qed.
Lemma sorted_r32 b l : Forall r32 l -> Forall r32 (sorted_misordered b l).
Proof.
  unfold sorted_misordered. induction 1 as [|x l Hx Hl IH]; cbn [fold_right]; [constructor|].
  rewrite Forall_forall in *. intros y Hy. apply in_insert_by' in Hy as [->|Hy]; auto.
Qed.
Lemma sh_consolidate : forall l c, r32 c -> Forall r32 l ->
  consolidate (sh c) (map sh l) = sh (consolidate c l) /\ r32 (consolidate c l).
Proof.
  induction l as [|t l IH]; intros c Hc Hl; cbn [consolidate map]; [auto|].
  inversion Hl as [|? ? Ht Hl']; subst.
  rewrite sh_plus_one, sh_eqb by (auto using plus_one_r32).
  destruct (t =? tsn_plus_one c); [now apply IH|auto].
Qed.
Lemma sh_filter_obsolete c l : r32 c -> Forall r32 l ->
  filter (is_obsolete (sh c)) (map sh l) = map sh (filter (is_obsolete c) l).
Proof.
  intros Hc. induction 1 as [|x l Hx Hl IH]; cbn [filter map]; [reflexivity|].
  assert (E : is_obsolete (sh c) (sh x) = is_obsolete c x) by (unfold is_obsolete; now apply sh_gt).
  rewrite E. destruct (is_obsolete c x); cbn [map]; now rewrite IH.
Qed.
Lemma filter_r32 (f : Z -> bool) l : Forall r32 l -> Forall r32 (filter f l).
Proof. intros H. rewrite Forall_forall in *. intros x Hx. apply filter_In in Hx as [Hx _]. auto. Qed.
Lemma sh_zmem t l : r32 t -> Forall r32 l -> zmem (sh t) (map sh l) = zmem t l.
Proof.
  intros Ht. unfold zmem. induction 1 as [|x l Hx Hl IH]; cbn [existsb map]; [reflexivity|].
  now rewrite sh_eqb, IH.
Qed.

(* ---- reassembly *)
Lemma sh_add_scan : forall l c, Forall cok l -> cok c ->
  add_scan (map shc l) (shc c) = match add_scan l c with AddOk l' => AddOk (map shc l') | AddAssert => AddAssert end.
Proof.
  induction l as [|r l IH]; intros c Hl Hc; cbn [add_scan map]; [reflexivity|].
  inversion Hl as [|? ? Hr Hl']; subst. cbn [shc tsn]. rewrite sh_eqb, sh_gt by assumption.
  destruct (tsn r =? tsn c); [reflexivity|]. destruct (uint32_gt (tsn r) (tsn c)); [reflexivity|].
  change (mkChunk (sh (tsn c)) (sid c) (sseq c) (unordered c) (first c) (last c) (ppid c) (udata c)) with (shc c).
  rewrite IH by assumption. destruct (add_scan l c); reflexivity.
Qed.

Lemma last_map_shc l c : List.last (map shc l) (shc c) = shc (List.last l c).
Proof. induction l as [|a l IH]; [reflexivity|]. cbn [map List.last]. destruct l; [reflexivity|exact IH]. Qed.

Lemma last_cok l c : Forall cok l -> cok c -> cok (List.last l c).
Proof. induction 1 as [|a l Ha Hl IH]; intros Hc; [exact Hc|]. cbn [List.last]. destruct l; [exact Ha|now apply IH]. Qed.

Lemma sh_add_chunk l c : Forall cok l -> cok c ->
  add_chunk (map shc l) (shc c) = match add_chunk l c with AddOk l' => AddOk (map shc l') | AddAssert => AddAssert end.
Proof.
  intros Hl Hc. unfold add_chunk. destruct l as [|a l0]; [reflexivity|].
  change (map shc (a :: l0)) with (shc a :: map shc l0) at 1.
  change (shc a :: map shc l0) with (map shc (a :: l0)).
  rewrite last_map_shc. cbn [shc tsn]. rewrite sh_gt by (auto; apply (last_cok (a :: l0) c Hl Hc)).
  destruct (uint32_gt (tsn c) (tsn (List.last (a :: l0) c))).
  - rewrite map_app. reflexivity.
  - change (mkChunk (sh (tsn c)) (sid c) (sseq c) (unordered c) (first c) (last c) (ppid c) (udata c)) with (shc c).
    now apply sh_add_scan.
Qed.

Definition shrun (r : run_state) : run_state :=
  match r with Some (l, e, o) => Some (map shc l, sh e, o) | None => None end.

Lemma join_data_shc l : join_data (map shc l) = join_data l.
Proof. unfold join_data. rewrite map_map. reflexivity. Qed.

Lemma retained_shc kept run rest :
  retained (map shc kept) (shrun run) (map shc rest) = map shc (retained kept run rest).
Proof.
  unfold retained. destruct run as [[[r e] o]|]; cbn [shrun]; rewrite !map_app, <- !map_rev; reflexivity.
Qed.

Definition run_cok (r : run_state) : Prop :=
  match r with Some (l, e, _) => Forall cok l /\ r32 e | None => True end.

Lemma sh_pop_loop : forall rest kept run seq, Forall cok rest -> Forall cok kept -> run_cok run ->
  pop_loop (map shc kept) (shrun run) (map shc rest) seq =
  let '(l, s, ms) := pop_loop kept run rest seq in (map shc l, s, ms).
Proof.
  induction rest as [|c rest IH]; intros kept run seq Hr Hk Hrun.
  - cbn [pop_loop map]. change (@nil chunk) with (map shc []) at 1. now rewrite retained_shc.
  - inversion Hr as [|? ? Hc Hr']; subst.
    assert (HNone : forall kept0, Forall cok kept0 ->
      pop_loop (map shc kept0) None (map shc (c :: rest)) seq =
      let '(l, s, ms) := pop_loop kept0 None (c :: rest) seq in (map shc l, s, ms)).
    { intros kept0 Hk0. cbn [map pop_loop].
      change (shc c :: map shc rest) with (map shc (c :: rest)).
      cbn [shc sid ppid last first unordered sseq tsn].
      change (mkChunk (sh (tsn c)) (sid c) (sseq c) (unordered c) (first c) (last c) (ppid c) (udata c)) with (shc c).
      destruct (negb (first c)).
      * destruct (negb (unordered c)).
        -- f_equal. f_equal. exact (retained_shc kept0 None (c :: rest)).
        -- exact (IH (c :: kept0) None seq Hr' (Forall_cons _ Hc Hk0) I).
      * destruct (negb (unordered c) && uint16_gt (sseq c) seq).
        -- f_equal. f_equal. exact (retained_shc kept0 None (c :: rest)).
        -- destruct (last c).
           ++ change [shc c] with (map shc [c]). rewrite <- map_rev, join_data_shc.
              pose proof (IH kept0 None (if negb (unordered c) && (sseq c =? seq) then uint16_add seq 1 else seq) Hr' Hk0 I) as E.
              cbn [shrun] in E. rewrite E.
              destruct (pop_loop kept0 None rest _) as [[l s] ms]. reflexivity.
           ++ rewrite sh_plus_one.
              exact (IH kept0 (Some ([c], tsn_plus_one (tsn c), negb (unordered c))) seq Hr' Hk0
                        (conj (Forall_cons _ Hc (Forall_nil _)) (plus_one_r32 (tsn c)))). }
    destruct run as [[[r e] o]|]; cbn [shrun]; [|exact (HNone kept Hk)].
    cbn [map pop_loop].
    change (shc c :: map shc rest) with (map shc (c :: rest)).
    cbn [shc sid ppid last first unordered sseq tsn].
    change (mkChunk (sh (tsn c)) (sid c) (sseq c) (unordered c) (first c) (last c) (ppid c) (udata c)) with (shc c).
    destruct Hrun as [Hrl He]. rewrite sh_eqb by assumption.
    destruct (negb (tsn c =? e)).
    + destruct o.
      * f_equal. f_equal. exact (retained_shc kept (Some (r, e, true)) (c :: rest)).
      * rewrite <- map_app.
        exact (HNone (r ++ kept) (proj2 (Forall_app _ _ _) (conj Hrl Hk))).
    + destruct (last c).
      * change (shc c :: map shc r) with (map shc (c :: r)). rewrite <- map_rev, join_data_shc.
        pose proof (IH kept None (if o && (sseq c =? seq) then uint16_add seq 1 else seq) Hr' Hk I) as E.
        cbn [shrun] in E. rewrite E.
        destruct (pop_loop kept None rest _) as [[l s] ms]. reflexivity.
      * rewrite sh_plus_one.
        exact (IH kept (Some (c :: r, tsn_plus_one e, o)) seq Hr' Hk
                  (conj (Forall_cons _ Hc Hrl) (plus_one_r32 e))).
Qed.

Lemma sh_pop_messages l seq : Forall cok l ->
  pop_messages (map shc l) seq = let '(l', s, ms) := pop_messages l seq in (map shc l', s, ms).
Proof.
  intros H. unfold pop_messages. change (@nil chunk) with (map shc []) at 1.
  exact (sh_pop_loop l [] None seq H (Forall_nil _) I).
Qed.

Lemma sh_prune l t : Forall cok l -> r32 t ->
  prune_chunks (map shc l) (sh t) = let '(l', n) := prune_chunks l t in (map shc l', n).
Proof.
  intros Hl Ht. induction Hl as [|c l Hc Hl IH]; cbn [prune_chunks map]; [reflexivity|].
  cbn [shc tsn udata]. rewrite sh_gte by assumption.
  destruct (uint32_gte t (tsn c)).
  - change (mkChunk (sh (tsn c)) (sid c) (sseq c) (unordered c) (first c) (last c) (ppid c) (udata c)) with (shc c).
    rewrite IH. destruct (prune_chunks l t). reflexivity.
  - reflexivity.
Qed.

(* ---- transport state *)
Definition shst (st : stream) : stream := mkStream (map shc (reasm st)) (sseq_expected st).
Definition shstrs (l : list (Z * stream)) : list (Z * stream) := map (fun kv => (fst kv, shst (snd kv))) l.
Definition shs (s : rstate) : rstate :=
  mkR (sh (last_rx s)) (map sh (misordered s)) (map sh (duplicates s)) (shstrs (streams s)) (rwnd s) (sack_needed s).

Definition strs_ok (l : list (Z * stream)) : Prop := Forall (fun kv => Forall cok (reasm (snd kv))) l.
Definition wfst (s : rstate) : Prop :=
  r32 (last_rx s) /\ Forall r32 (misordered s) /\ Forall r32 (duplicates s) /\ strs_ok (streams s).

Lemma get_stream_sh l id : get_stream (shstrs l) id = shst (get_stream l id).
Proof.
  induction l as [|[k v] l IH]; cbn [shstrs map get_stream fst snd]; [reflexivity|].
  destruct (id =? k); [reflexivity|exact IH].
Qed.
Lemma set_stream_sh l id v : set_stream (shstrs l) id (shst v) = shstrs (set_stream l id v).
Proof.
  induction l as [|[k w] l IH]; cbn [shstrs map set_stream fst snd]; [reflexivity|].
  destruct (id =? k); cbn [map fst snd]; [reflexivity|]. f_equal. exact IH.
Qed.
Lemma get_stream_ok l id : strs_ok l -> Forall cok (reasm (get_stream l id)).
Proof.
  induction 1 as [|[k v] l Hv Hl IH]; cbn [get_stream]; [constructor|].
  destruct (id =? k); [exact Hv|exact IH].
Qed.
Lemma set_stream_ok l id v : strs_ok l -> Forall cok (reasm v) -> strs_ok (set_stream l id v).
Proof.
  intros Hl Hv. induction Hl as [|[k w] l Hw Hl IH]; cbn [set_stream].
  - constructor; [exact Hv|constructor].
  - destruct (id =? k); constructor; auto.
Qed.

Lemma incl_cok (l l' : list chunk) : incl l' l -> Forall cok l -> Forall cok l'.
Proof. intros Hi H. rewrite Forall_forall in *. auto. Qed.

Lemma sh_mark_received s t : wfst s -> r32 t ->
  mark_received (shs s) (sh t) = (shs (fst (mark_received s t)), snd (mark_received s t)) /\
  wfst (fst (mark_received s t)).
Proof.
  intros (H1 & H2 & H3 & H4) Ht. unfold mark_received. cbn [shs last_rx misordered duplicates streams rwnd sack_needed].
  rewrite sh_gte, sh_zmem by assumption.
  destruct (uint32_gte (last_rx s) t || zmem t (misordered s)).
  - cbn [fst snd]. split.
    + unfold shs. cbn [last_rx misordered duplicates streams rwnd sack_needed]. now rewrite map_app.
    + split; [exact H1|]. split; [exact H2|]. split; [|exact H4].
      cbn [duplicates]. apply Forall_app. split; [assumption|constructor; [assumption|constructor]].
  - cbn [fst snd].
    assert (Hm : Forall r32 (t :: misordered s)) by (constructor; assumption).
    change (sh t :: map sh (misordered s)) with (map sh (t :: misordered s)).
    rewrite sh_sorted.
    destruct (sh_consolidate (sorted_misordered (last_rx s) (t :: misordered s)) (last_rx s) H1
                (sorted_r32 _ _ Hm)) as [Ec Hc].
    rewrite Ec. split.
    + unfold shs. cbn [last_rx misordered duplicates streams rwnd sack_needed].
      rewrite !sh_filter_obsolete by assumption. reflexivity.
    + split; [exact Hc|]. split; [apply filter_r32; exact Hm|]. split; [apply filter_r32; exact H3|exact H4].
Qed.

Lemma pop_messages_incl_cok l seq : Forall cok l -> Forall cok (fst (fst (pop_messages l seq))).
Proof.
  intros H. destruct (pop_messages l seq) as [[l' s] ms] eqn:E. cbn [fst].
  eapply incl_cok; [|exact H]. eapply AV.Proof.SctpRecvP.pop_messages_retains; eauto.
Qed.

Definition shsack (k : sack) : sack := mkSack (sh (s_cum k)) (s_rwnd k) (s_gaps k) (map sh (s_dups k)).
Definition shout (o : rout) : rout :=
  match o with OutOk ms (Some k) => OutOk ms (Some (shsack k)) | other => other end.
Definition shev (e : revent) : revent :=
  match e with EvData c => EvData (shc c) | EvFwd cum strs => EvFwd (sh cum) strs end.
Definition ev_r32 (e : revent) : Prop :=
  match e with EvData c => cok c | EvFwd cum _ => r32 cum end.

Lemma sh_far_ahead s t : far_ahead (shs s) (sh t) = far_ahead s t.
Proof. unfold far_ahead. cbn [shs last_rx]. now rewrite sh_key. Qed.

Lemma add_chunk_cok l c l' : Forall cok l -> cok c -> add_chunk l c = AddOk l' -> Forall cok l'.
Proof.
  intros Hl Hc E. eapply incl_cok; [eapply AV.Proof.SctpRecvP.add_chunk_incl; eauto|]. constructor; assumption.
Qed.

Lemma sh_receive_data s c : wfst s -> cok c ->
  receive_data (shs s) (shc c) =
    match receive_data s c with ROk s' ms => ROk (shs s') ms | RAssert => RAssert end /\
  match receive_data s c with ROk s' _ => wfst s' | RAssert => True end.
Proof.
  intros Hw Hc. unfold receive_data.
  set (s0 := mkR (last_rx s) (misordered s) (duplicates s) (streams s) (rwnd s) true).
  assert (E0 : mkR (last_rx (shs s)) (misordered (shs s)) (duplicates (shs s)) (streams (shs s)) (rwnd (shs s)) true = shs s0) by reflexivity.
  rewrite E0. assert (Hw0 : wfst s0) by exact Hw.
  cbn [shc tsn sid udata]. rewrite sh_far_ahead.
  destruct (far_ahead s0 (tsn c)); [split; [reflexivity|exact Hw0]|].
  destruct (sh_mark_received s0 (tsn c) Hw0 Hc) as [Em Hw1]. rewrite Em.
  destruct (mark_received s0 (tsn c)) as [s1 dup]. cbn [fst snd] in *.
  destruct dup; [split; [reflexivity|exact Hw1]|].
  cbn [shs streams]. rewrite get_stream_sh. cbn [shst reasm sseq_expected].
  destruct Hw1 as (W1 & W2 & W3 & W4).
  pose proof (get_stream_ok (streams s1) (sid c) W4) as Hg.
  change (mkChunk (sh (tsn c)) (sid c) (sseq c) (unordered c) (first c) (last c) (ppid c) (udata c)) with (shc c).
  rewrite sh_add_chunk by assumption.
  destruct (add_chunk (reasm (get_stream (streams s1) (sid c))) c) as [l|] eqn:Ea; [|split; [reflexivity|exact I]].
  pose proof (add_chunk_cok _ _ _ Hg Hc Ea) as Hl.
  rewrite sh_pop_messages by assumption.
  pose proof (pop_messages_incl_cok l (sseq_expected (get_stream (streams s1) (sid c))) Hl) as Hp.
  destruct (pop_messages l (sseq_expected (get_stream (streams s1) (sid c)))) as [[l2 seq2] ms]. cbn [fst] in Hp.
  split.
  - f_equal. unfold shs. cbn [last_rx misordered duplicates streams rwnd sack_needed].
    change (mkStream (map shc l2) seq2) with (shst (mkStream l2 seq2)). now rewrite set_stream_sh.
  - split; [exact W1|]. split; [exact W2|]. split; [exact W3|]. cbn [streams]. exact (set_stream_ok (streams s1) (sid c) (mkStream l2 seq2) W4 Hp).
Qed.

Lemma sh_fwd_streams : forall l strs, strs_ok strs ->
  fwd_streams (shstrs strs) l = (let '(s2, ms) := fwd_streams strs l in (shstrs s2, ms)) /\
  strs_ok (fst (fwd_streams strs l)).
Proof.
  induction l as [|[id sq] l IH]; intros strs Hs; cbn [fwd_streams]; [auto|].
  rewrite get_stream_sh. cbn [shst reasm sseq_expected].
  pose proof (get_stream_ok strs id Hs) as Hg.
  rewrite sh_pop_messages by assumption.
  pose proof (pop_messages_incl_cok (reasm (get_stream strs id))
     (if uint16_gte sq (sseq_expected (get_stream strs id)) then uint16_add sq 1 else sseq_expected (get_stream strs id)) Hg) as Hp.
  destruct (pop_messages (reasm (get_stream strs id)) _) as [[l2 seq2] ms]. cbn [fst] in Hp.
  change (mkStream (map shc l2) seq2) with (shst (mkStream l2 seq2)). rewrite set_stream_sh.
  destruct (IH (set_stream strs id (mkStream l2 seq2)) (set_stream_ok strs id (mkStream l2 seq2) Hs Hp)) as [E Hok]. rewrite E.
  destruct (fwd_streams (set_stream strs id (mkStream l2 seq2)) l) as [s2 ms2]. cbn [fst] in *. auto.
Qed.

Lemma sh_repop_streams : forall l strs, strs_ok strs ->
  repop_streams (shstrs strs) l = (let '(s2, ms) := repop_streams strs l in (shstrs s2, ms)) /\
  strs_ok (fst (repop_streams strs l)).
Proof.
  induction l as [|[id sq] l IH]; intros strs Hs; cbn [repop_streams]; [auto|].
  rewrite get_stream_sh. cbn [shst reasm sseq_expected].
  pose proof (get_stream_ok strs id Hs) as Hg.
  rewrite sh_pop_messages by assumption.
  pose proof (pop_messages_incl_cok (reasm (get_stream strs id)) (sseq_expected (get_stream strs id)) Hg) as Hp.
  destruct (pop_messages (reasm (get_stream strs id)) _) as [[l2 seq2] ms]. cbn [fst] in Hp.
  change (mkStream (map shc l2) seq2) with (shst (mkStream l2 seq2)). rewrite set_stream_sh.
  destruct (IH (set_stream strs id (mkStream l2 seq2)) (set_stream_ok strs id (mkStream l2 seq2) Hs Hp)) as [E Hok]. rewrite E.
  destruct (repop_streams (set_stream strs id (mkStream l2 seq2)) l) as [s2 ms2]. cbn [fst] in *. auto.
Qed.

Lemma sh_prune_all t : r32 t -> forall strs, strs_ok strs ->
  prune_all (shstrs strs) (sh t) = (let '(s2, n) := prune_all strs t in (shstrs s2, n)) /\
  strs_ok (fst (prune_all strs t)).
Proof.
  intros Ht. induction 1 as [|[k v] strs Hv Hs IH]; cbn [prune_all shstrs map fst snd]; [split; [reflexivity|constructor]|].
  cbn [shst reasm sseq_expected]. rewrite sh_prune by assumption.
  pose proof (AV.Proof.SctpRecvP.prune_chunks_incl (reasm v) t) as Hi.
  destruct (prune_chunks (reasm v) t) as [r size]. cbn [fst] in Hi.
  destruct IH as [E Hok]. fold (shstrs strs). rewrite E.
  destruct (prune_all strs t) as [l2 size2]. cbn [fst] in *.
  split; [reflexivity|]. constructor; [cbn [snd reasm]; eapply incl_cok; eauto|exact Hok].
Qed.

Lemma sh_receive_forward_tsn s cum strs : wfst s -> r32 cum ->
  receive_forward_tsn (shs s) (sh cum) strs =
    (shs (fst (receive_forward_tsn s cum strs)), snd (receive_forward_tsn s cum strs)) /\
  wfst (fst (receive_forward_tsn s cum strs)).
Proof.
  intros (H1 & H2 & H3 & H4) Hc. unfold receive_forward_tsn.
  cbn [shs last_rx misordered duplicates streams rwnd sack_needed].
  rewrite sh_gte by assumption.
  destruct (uint32_gte (last_rx s) cum).
  { cbn [fst snd]. split; [reflexivity|]. split; [exact H1|]. split; [exact H2|]. split; [exact H3|exact H4]. }
  rewrite sh_filter_obsolete by assumption.
  pose proof (filter_r32 (is_obsolete cum) _ H2) as Hm1.
  rewrite sh_sorted.
  destruct (sh_consolidate (sorted_misordered cum (filter (is_obsolete cum) (misordered s))) cum Hc (sorted_r32 _ _ Hm1)) as [Ec Hc2].
  rewrite Ec. rewrite !sh_filter_obsolete by assumption.
  destruct (sh_fwd_streams strs (streams s) H4) as [Ef Hok2]. rewrite Ef.
  destruct (fwd_streams (streams s) strs) as [strs2 ms]. cbn [fst] in Hok2.
  destruct (sh_prune_all cum Hc strs2 Hok2) as [Ep Hok3]. rewrite Ep.
  destruct (prune_all strs2 cum) as [strs3 pruned]. cbn [fst] in Hok3.
  destruct (sh_repop_streams strs strs3 Hok3) as [Er Hok4]. rewrite Er.
  destruct (repop_streams strs3 strs) as [strs4 ms']. cbn [fst snd] in *.
  split; [reflexivity|].
  split; [exact Hc2|]. split; [now apply filter_r32|]. split; [now apply filter_r32|exact Hok4].
Qed.

Definition shcur (cur : option (Z * Z * Z)) : option (Z * Z * Z) :=
  match cur with Some (a, b, n) => Some (a, b, sh n) | None => None end.

Lemma sh_gap_blocks cum : forall l cur, Forall r32 l ->
  match cur with Some (_, _, n) => r32 n | None => True end ->
  gap_blocks (sh cum) (map sh l) (shcur cur) = gap_blocks cum l cur.
Proof.
  induction l as [|t l IH]; intros cur Hl Hn; cbn [gap_blocks map].
  - destruct cur as [[[a b] n]|]; reflexivity.
  - inversion Hl as [|? ? Ht Hl']; subst. rewrite sh_key.
    destruct cur as [[[a b] n]|]; cbn [shcur].
    + rewrite sh_eqb by assumption. rewrite sh_plus_one.
      destruct (t =? n).
      * exact (IH (Some (a, serial_key cum t, tsn_plus_one t)) Hl' (plus_one_r32 t)).
      * f_equal. exact (IH (Some (serial_key cum t, serial_key cum t, tsn_plus_one t)) Hl' (plus_one_r32 t)).
    + rewrite sh_plus_one.
      exact (IH (Some (serial_key cum t, serial_key cum t, tsn_plus_one t)) Hl' (plus_one_r32 t)).
Qed.

Lemma sh_make_sack s : wfst s ->
  make_sack (shs s) = (shsack (fst (make_sack s)), shs (snd (make_sack s))) /\ wfst (snd (make_sack s)).
Proof.
  intros (H1 & H2 & H3 & H4). unfold make_sack. cbn [shs last_rx misordered duplicates streams rwnd sack_needed fst snd].
  split.
  - f_equal. unfold shsack. cbn [s_cum s_rwnd s_gaps s_dups]. f_equal.
    rewrite sh_sorted. exact (sh_gap_blocks (last_rx s) _ None (sorted_r32 _ _ H2) I).
  - split; [exact H1|]. split; [exact H2|]. split; [constructor|exact H4].
Qed.

Theorem sh_rstep s e : wfst s -> ev_r32 e ->
  rstep (shs s) (shev e) = (shs (fst (rstep s e)), shout (snd (rstep s e))) /\ wfst (fst (rstep s e)).
Proof.
  intros Hw He. destruct e as [c|cum strs]; cbn [rstep shev ev_r32] in *.
  - destruct (sh_receive_data s c Hw He) as [E Hw1]. rewrite E.
    destruct (receive_data s c) as [s1 ms|]; [|cbn [fst snd shout]; auto].
    destruct (sh_make_sack s1 Hw1) as [Em Hw2]. rewrite Em.
    destruct (make_sack s1) as [sk s2]. cbn [fst snd shout] in *. auto.
  - destruct (sh_receive_forward_tsn s cum strs Hw He) as [E Hw1]. rewrite E.
    destruct (receive_forward_tsn s cum strs) as [s1 ms]. cbn [fst snd] in *.
    destruct (sh_make_sack s1 Hw1) as [Em Hw2]. rewrite Em.
    destruct (make_sack s1) as [sk s2]. cbn [fst snd shout] in *. auto.
Qed.

Lemma rrun_cons' s e es :
  rrun s (e :: es) = (fst (rrun (fst (rstep s e)) es), snd (rstep s e) :: snd (rrun (fst (rstep s e)) es)).
Proof.
  cbn [rrun]. destruct (rstep s e) as [s1 o]. cbn [fst snd]. destruct (rrun s1 es) as [s2 os]. reflexivity.
Qed.

(* For every event list with 32-bit TSNs: running the receiver on the shifted state and
   shifted events gives the shifted state and the same outputs up to the shift of the
   SACK's cumulative TSN and duplicate list -- same deliveries, same gap blocks. *)
Theorem receiver_shift_invariant : forall es s, wfst s -> Forall ev_r32 es ->
  rrun (shs s) (map shev es) = (shs (fst (rrun s es)), map shout (snd (rrun s es))).
Proof.
  induction es as [|e es IH]; intros s Hw Hes; [reflexivity|].
  inversion Hes as [|? ? He Hrest]; subst. cbn [map]. rewrite !rrun_cons'.
  destruct (sh_rstep s e Hw He) as [E Hw1]. rewrite E. cbn [fst snd].
  rewrite (IH _ Hw1 Hrest). reflexivity.
Qed.

Lemma wfst_rinit base : r32 base -> wfst (rinit base).
Proof. intros H. split; [exact H|]. split; [constructor|]. split; constructor. Qed.

Lemma shs_rinit base : shs (rinit base) = rinit (sh base).
Proof. reflexivity. Qed.

Lemma out_msgs_shout o : AV.Proof.SctpC01P.out_msgs (shout o) = AV.Proof.SctpC01P.out_msgs o.
Proof. destruct o as [ms [k|]|]; reflexivity. Qed.

End Shift.
