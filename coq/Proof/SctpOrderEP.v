(* C01: ordered delivery, end to end -- sender fragmentation, any arrival schedule,
   transport-level duplicate filtering, per-stream reassembly. *)
From Coq Require Import ZArith List Bool Lia.
From AV Require Import Lib.Bytes Gen.Utils Gen.SctpConst Model.SctpRecv Model.SctpSend Proof.SctpSendP
  Proof.SctpDupP Proof.SctpOrderP Proof.SctpOrderSP Proof.SctpOrderTP.
Import ListNotations.
Local Open Scope Z_scope.

Definition triple (m : outmsg) : message := (o_sid m, o_ppid m, o_data m).

Lemma last_in {A} (l : list A) d : l <> [] -> In (List.last l d) l.
Proof.
  induction l as [|a l IH]; [congruence|]. intros _. destruct l as [|b l]; [now left|]. right. apply IH. discriminate.
Qed.

(* the message rebuilt from a sent fragment list is the application's message *)
Lemma sel_msgs st : forall ms s, Forall (fun m => o_data m <> []) ms ->
  map msgf (sel st s ms) = map triple (filter (selected st) ms).
Proof.
  induction ms as [|m ms IH]; intros s Hd; cbn [sel filter map]; [reflexivity|].
  inversion Hd as [|? ? Hm Hd']; subst. destruct (selected st m); cbn [map]; [|now apply IH].
  f_equal; [|now apply IH].
  destruct (send_msg_fragments s m Hm) as (Hj & Hne & _ & _ & Hall & _).
  unfold msgf, triple. rewrite Hj. rewrite Forall_forall in Hall.
  destruct (Hall _ (last_in _ dchunk Hne)) as (-> & -> & _). reflexivity.
Qed.

Lemma in_concat_at (M : list (list chunk)) c : In c (concat M) -> exists j i, at_ M j i c.
Proof.
  intros H. apply in_concat in H as (f & Hf & Hc).
  apply In_nth_error in Hf as (j & Hj). apply In_nth_error in Hc as (i & Hi). exists j, i, f. auto.
Qed.

(* ORDERED, EXACTLY-ONCE DELIVERY.  The application sends ANY list of messages (any sizes,
   streams, ordered or not) from ANY initial TSN; the network delivers ANY list of the DATA
   chunks on stream st that belong to its ordered messages (every order, loss and
   duplication pattern; chunks of other streams arbitrary, inside the TSN window); then
   what the receiver hands to the application on stream st is exactly the first n of the
   ordered messages sent on st: in sending order, each once, none altered.
   Window conditions: fewer than 2^31 TSNs in the run, and every chunk arrives while fewer
   than 2^15 messages of its stream lie between it and the delivery point (swin). *)
Theorem ordered_exactly_once base N t0 msgs st es :
  r32 base -> 0 <= N < 2147483648 -> r32 t0 ->
  off base t0 + Z.of_nat (total_frags msgs) <= N ->
  Forall (fun m => o_data m <> []) msgs ->
  let M := sel st (mkS t0 []) msgs in
  Forall (data_ev base N) es ->
  (forall c, In (EvData c) es -> sid c = st -> In c (concat M)) ->
  swin M [] 0 0 (filter (on_stream st) (accepted_chunks (rinit base) es)) ->
  exists n, msgs_on st (rinit base) es = firstn n (map triple (filter (selected st) msgs)).
Proof.
  intros Hbase HN Ht0 Hfit Hd M Hes Hin Hw.
  assert (F : fits base N (mkS t0 []) msgs) by (split; assumption).
  pose proof (sender_wf base N Hbase HN st msgs (mkS t0 []) F Hd ltac:(cbn; lia)) as W.
  cbn [stream_seq seq_get] in W. fold M in W.
  destruct (transport_ordered_prefix base N Hbase HN M _ 0 st W es Hes) as (n & En).
  - intros c Hc Hs. apply in_concat_at. now apply Hin.
  - exact Hw.
  - reflexivity.
  - exists n. rewrite En, <- firstn_map. unfold M. now rewrite sel_msgs.
Qed.

Theorem window_small base N t0 msgs st :
  r32 base -> 0 <= N < 2147483648 -> r32 t0 ->
  off base t0 + Z.of_nat (total_frags msgs) <= N ->
  Forall (fun m => o_data m <> []) msgs ->
  let M := sel st (mkS t0 []) msgs in
  Z.of_nat (length M) <= 32768 ->
  forall cs Q seq k, swin M Q seq k cs.
Proof.
  intros Hb HN Ht Hf Hd M Hl.
  assert (F : fits base N (mkS t0 []) msgs) by (split; assumption).
  pose proof (sender_wf base N Hb HN st msgs (mkS t0 []) F Hd ltac:(cbn; lia)) as W.
  exact (swin_small base N M _ _ W Hl).
Qed.

