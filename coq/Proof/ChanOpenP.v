(* C13: a received DATA_CHANNEL_OPEN produces exactly one `datachannel` event for a new channel
   that carries the opener's id, label, protocol, ordering and reliability settings; a repeated
   OPEN on a stream that already has a channel is ignored. *)
From Coq Require Import ZArith List Bool Lia Arith.
From AV Require Import Lib.Bytes Lib.BytesP Gen.Utils Gen.SctpConst Model.Chan Proof.ChanDcepP Proof.ChanP Proof.ChanBufP.
Import ListNotations.
Local Open Scope Z_scope.

Definition static (c : chan) := (ch_neg c, ch_ordered c, ch_maxrt c, ch_maxlt c, ch_label c, ch_proto c).
Definition is_dc (e : event) : bool := match e with EvDataChannel _ => true | _ => false end.

(* flushing never changes a channel's parameters or state, never takes an id away, never emits `datachannel`,
   and keeps every existing registration *)
Lemma flush_loop_frame : forall fuel s oracle,
  let s' := fst (flush_loop fuel s oracle) in
  (forall h, static (getc s' h) = static (getc s h) /\ ch_state (getc s' h) = ch_state (getc s h) /\
             (forall i, ch_id (getc s h) = Some i -> ch_id (getc s' h) = Some i)) /\
  filter is_dc (snd (flush_loop fuel s oracle)) = [] /\
  (forall k v, tget (table s) k = Some v -> tget (table s') k = Some v).
Proof.
  induction fuel as [|f IH]; intros s oracle; cbn [flush_loop]; [cbn [fst snd]; auto|].
  destruct (queue s) as [|[[h pp] data] q'] eqn:Eq; [cbn [fst snd]; auto|].
  set (s1 := set_queue s q').
  set (p2 := match ch_id (getc s1 h) with
             | Some i => (s1, i)
             | None => let i := pick_id (S (length (table s1))) (table s1) (dc_id s1) in
                       (setc (set_table s1 (tset (table s1) i h)) h (with_id (getc s1 h) (Some i)), i)
             end).
  assert (H2 : (forall x, static (getc (fst p2) x) = static (getc s x) /\ ch_state (getc (fst p2) x) = ch_state (getc s x) /\
                          (forall i, ch_id (getc s x) = Some i -> ch_id (getc (fst p2) x) = Some i)) /\
               (forall k v, tget (table s) k = Some v -> tget (table (fst p2)) k = Some v)).
  { unfold p2. destruct (ch_id (getc s1 h)) eqn:Ei; cbn [fst]; [split; auto|].
    set (i := pick_id (S (length (table s1))) (table s1) (dc_id s1)).
    pose proof (pick_id_fresh (table s1) (dc_id s1)) as Hfresh. fold i in Hfresh. split.
    - intros x. rewrite getc_setc. destruct (_ && _)%bool eqn:E; [|auto].
      apply andb_true_iff in E as [E _]. apply Nat.eqb_eq in E. subst x.
      change (getc (set_table s1 (tset (table s1) i h)) h) with (getc s h) in *. change (getc s1 h) with (getc s h) in *.
      split; [reflexivity|]. split; [reflexivity|]. intros j Hj. congruence.
    - intros k v Hk. cbn [table setc set_table]. rewrite tget_tset_fresh by exact Hfresh.
      destruct (Z.eqb_spec k i) as [->|]; [|exact Hk]. cbn [table s1 set_queue] in Hfresh. congruence. }
  destruct p2 as [s2 sidv]. cbn [fst] in H2. destruct H2 as [G2 T2].
  set (p3 := if pp =? WEBRTC_DCEP then (s2, [EvSend sidv pp data true None None])
             else let '(s', e) := add_buffered s2 h (- len data) in
                  (s', EvSend sidv pp data (ch_ordered (getc s2 h)) (ch_maxrt (getc s2 h))
                              match ch_maxlt (getc s2 h) with Some 0 => None | x => x end :: e)).
  assert (H3 : (forall x, static (getc (fst p3) x) = static (getc s x) /\ ch_state (getc (fst p3) x) = ch_state (getc s x) /\
                          (forall i, ch_id (getc s x) = Some i -> ch_id (getc (fst p3) x) = Some i)) /\
               filter is_dc (snd p3) = [] /\
               (forall k v, tget (table s) k = Some v -> tget (table (fst p3)) k = Some v)).
  { unfold p3. destruct (pp =? WEBRTC_DCEP); [cbn [fst snd filter is_dc]; auto|].
    rewrite (pair_eta (add_buffered s2 h (- len data))). cbn [fst snd]. split; [|split].
    - intros x. rewrite getc_add_buffered. destruct (_ && _)%bool eqn:E; [|apply G2].
      apply andb_true_iff in E as [E _]. apply Nat.eqb_eq in E. subst x. destruct (G2 h) as (A & B & C).
      split; [exact A|]. split; [exact B|exact C].
    - unfold add_buffered. cbn [snd filter is_dc]. destruct (_ && _)%bool; reflexivity.
    - intros k v Hk. unfold add_buffered. cbn [fst table setc]. now apply T2. }
  destruct p3 as [s3 evs]. cbn [fst snd] in H3. destruct H3 as (G3 & F3 & T3).
  destruct (match oracle with b :: _ => b | [] => false end); cbn [fst snd]; [auto|].
  rewrite (pair_eta (flush_loop f s3 (tl oracle))). cbn [fst snd].
  destruct (IH s3 (tl oracle)) as (G4 & F4 & T4). cbv zeta in *. split; [|split].
  - intros x. destruct (G4 x) as (A & B & C). destruct (G3 x) as (A' & B' & C').
    split; [congruence|]. split; [congruence|]. intros i Hi. apply C, C', Hi.
  - rewrite filter_app, F3, F4. reflexivity.
  - intros k v Hk. apply T4, T3, Hk.
Qed.

Lemma flush_frame s oracle :
  let s' := fst (flush s oracle) in
  (forall h, static (getc s' h) = static (getc s h) /\ ch_state (getc s' h) = ch_state (getc s h) /\
             (forall i, ch_id (getc s h) = Some i -> ch_id (getc s' h) = Some i)) /\
  filter is_dc (snd (flush s oracle)) = [] /\
  (forall k v, tget (table s) k = Some v -> tget (table s') k = Some v).
Proof. unfold flush. destruct (_ && _); [apply flush_loop_frame|cbn [fst snd]; auto]. Qed.

(* an OPEN on a stream that already has a channel, whatever it says, is ignored *)
Lemma repeated_open_ignored s sidv h data ok oracle : tget (table s) sidv = Some h ->
  hd 0 data = DATA_CHANNEL_OPEN -> 12 <= len data -> recv_dcep s sidv data ok oracle = (s, []).
Proof.
  intros Ht Hd Hl. unfold recv_dcep. destruct data as [|m data']; [cbn in Hl; lia|]. cbn [hd] in Hd. subst m.
  rewrite Z.eqb_refl. cbn [andb]. assert (Hl' : (12 <=? len (DATA_CHANNEL_OPEN :: data')) = true) by (apply Z.leb_le; exact Hl).
  rewrite Hl', Ht. reflexivity.
Qed.

Theorem open_creates_one_channel s sidv c oracle : wf_chan c -> tget (table s) sidv = None ->
  let h := length (chans s) in
  let s' := fst (recv_dcep s sidv (dcep_open c) true oracle) in
  let evs := snd (recv_dcep s sidv (dcep_open c) true oracle) in
  filter is_dc evs = [EvDataChannel h] /\
  ch_id (getc s' h) = Some sidv /\ ch_state (getc s' h) = Open /\ ch_neg (getc s' h) = false /\
  ch_ordered (getc s' h) = ch_ordered c /\ ch_maxrt (getc s' h) = ch_maxrt c /\ ch_maxlt (getc s' h) = ch_maxlt c /\
  ch_label (getc s' h) = ch_label c /\ ch_proto (getc s' h) = ch_proto c /\
  tget (table s') sidv = Some h.
Proof.
  intros Wc Ht. cbv zeta. destruct (dcep_open_roundtrip c Wc) as (Hhd & Hlen & Hparse).
  unfold recv_dcep. destruct (dcep_open c) as [|m data'] eqn:Ed; [cbn in Hlen; lia|].
  cbn [hd] in Hhd. subst m. rewrite Z.eqb_refl. cbn [andb].
  assert (Hl : (12 <=? len (DATA_CHANNEL_OPEN :: data')) = true) by (apply Z.leb_le; exact Hlen). rewrite Hl.
  rewrite Ht, Hparse. cbn [negb op_ordered op_maxrt op_maxlt op_label op_proto].
  set (c0 := mkChan (Some sidv) Connecting 0 0 false (ch_ordered c) (ch_maxrt c) (ch_maxlt c) (ch_label c) (ch_proto c)).
  destruct (add_chan_good s c0 eq_refl) as (_ & Eh & L1).
  rewrite (pair_eta (add_chan s c0)). rewrite Eh.
  set (s1 := fst (add_chan s c0)) in *.
  rewrite (pair_eta (set_ready s1 (length (chans s)) Open)).
  set (s2 := fst (set_ready s1 (length (chans s)) Open)).
  set (s3 := set_table s2 (tset (table s2) sidv (length (chans s)))).
  set (s4 := set_queue s3 (queue s3 ++ [(length (chans s), WEBRTC_DCEP, be8 DATA_CHANNEL_ACK)])).
  rewrite (pair_eta (flush s4 oracle)). cbn [fst snd].
  destruct (flush_frame s4 oracle) as (G & F & T). cbv zeta in G, T.
  assert (E4 : getc s4 (length (chans s)) = with_state c0 Open).
  { change (getc s4 (length (chans s))) with (getc s2 (length (chans s))). unfold s2. rewrite getc_set_ready, Nat.eqb_refl.
    assert (Hlt : Nat.ltb (length (chans s)) (length (chans s1)) = true) by (apply Nat.ltb_lt; lia). rewrite Hlt.
    unfold s1. rewrite getc_add_chan, Nat.eqb_refl. reflexivity. }
  destruct (G (length (chans s))) as (Gs & Gst & Gid). rewrite E4 in Gs, Gst, Gid.
  assert (Et4 : tget (table s4) sidv = Some (length (chans s))).
  { cbn [table s4 s3 set_queue set_table]. unfold s2. rewrite set_ready_table. cbn [table s1 add_chan fst].
    rewrite tget_tset_fresh by exact Ht. now rewrite Z.eqb_refl. }
  pose proof (T _ _ Et4) as Et5.
  unfold static in Gs. cbn [with_state c0 ch_neg ch_ordered ch_maxrt ch_maxlt ch_label ch_proto ch_state ch_id] in Gs, Gst, Gid.
  injection Gs as G1 G2 G3 G4 G5 G6.
  split.
  { rewrite !filter_app, F. cbn [filter is_dc app].
    unfold set_ready. destruct (rstate_eqb _ _); reflexivity. }
  split; [apply Gid; reflexivity|]. split; [exact Gst|].
  repeat (split; [assumption|]).
  exact Et5.
Qed.
