(* C01: ordered delivery at the transport level.  The messages a run of DATA arrivals
   delivers on one stream are what the stream automaton of SctpOrderP delivers on the
   chunks the transport ACCEPTED for that stream; accepted chunks are distinct
   (SctpDupP); hence they are a prefix of the messages sent on that stream. *)
From Coq Require Import ZArith List Bool Lia.
From AV Require Import Lib.Bytes Gen.Utils Gen.SctpConst Model.SctpRecv Proof.SctpRecvP Proof.SctpC01P Proof.SctpDupP Proof.SctpOrderP.
Import ListNotations.
Local Open Scope Z_scope.

Lemma get_set_same l id v : get_stream (set_stream l id v) id = v.
Proof.
  induction l as [|[k w] l IH]; cbn [set_stream get_stream]; [now rewrite Z.eqb_refl|].
  destruct (Z.eqb_spec id k) as [->|Hne]; cbn [get_stream]; [now rewrite Z.eqb_refl|].
  destruct (Z.eqb_spec id k); [contradiction|exact IH].
Qed.
Lemma get_set_other l id v id' : id' <> id -> get_stream (set_stream l id v) id' = get_stream l id'.
Proof.
  intros Hne. induction l as [|[k w] l IH]; cbn [set_stream get_stream].
  - destruct (Z.eqb_spec id' id); [contradiction|reflexivity].
  - destruct (Z.eqb_spec id k) as [->|Hk]; cbn [get_stream].
    + destruct (Z.eqb_spec id' k); [contradiction|reflexivity].
    + destruct (Z.eqb_spec id' k); [reflexivity|exact IH].
Qed.

(* the chunk an event inserts into a reassembly queue, if any *)
Definition accepts_chunk (s : rstate) (e : revent) : option chunk :=
  match e with
  | EvData c =>
      let s0 := mkR (last_rx s) (misordered s) (duplicates s) (streams s) (rwnd s) true in
      if far_ahead s0 (tsn c) then None
      else if snd (mark_received s0 (tsn c)) then None else Some c
  | EvFwd _ _ => None
  end.

Fixpoint accepted_chunks (s : rstate) (es : list revent) : list chunk :=
  match es with
  | [] => []
  | e :: es' => match accepts_chunk s e with Some c => [c] | None => [] end ++ accepted_chunks (fst (rstep s e)) es'
  end.

Lemma accepted_chunks_tsn : forall es s, map tsn (accepted_chunks s es) = accepted s es.
Proof.
  induction es as [|e es IH]; intros s; cbn [accepted_chunks accepted]; [reflexivity|].
  rewrite map_app, IH. f_equal. destruct e as [c|]; cbn [accepts_chunk accepts]; [|reflexivity].
  destruct (far_ahead _ _); [reflexivity|]. destruct (snd _); reflexivity.
Qed.

(* messages delivered by the steps whose chunk belongs to stream st *)
Definition step_msgs (st : Z) (e : revent) (o : rout) : list message :=
  match e, o with
  | EvData c, OutOk ms _ => if Z.eqb (sid c) st then ms else []
  | _, _ => []
  end.
Fixpoint msgs_on (st : Z) (s : rstate) (es : list revent) : list message :=
  match es with
  | [] => []
  | e :: es' => step_msgs st e (snd (rstep s e)) ++ msgs_on st (fst (rstep s e)) es'
  end.

Definition on_stream (st : Z) (c : chunk) : bool := Z.eqb (sid c) st.

(* one DATA event seen from stream st *)
Lemma rstep_stream s c st : snd (rstep s (EvData c)) <> OutAssert ->
  let s' := fst (rstep s (EvData c)) in
  let v := get_stream (streams s) st in
  match accepts_chunk s (EvData c) with
  | Some _ =>
      if on_stream st c then
        exists l l2 seq2 ms sk, add_chunk (reasm v) c = AddOk l /\ pop_messages l (sseq_expected v) = (l2, seq2, ms) /\
          get_stream (streams s') st = mkStream l2 seq2 /\ snd (rstep s (EvData c)) = OutOk ms sk
      else get_stream (streams s') st = v
  | None => get_stream (streams s') st = v /\ exists sk, snd (rstep s (EvData c)) = OutOk [] sk
  end.
Proof.
  cbn [rstep accepts_chunk]. unfold receive_data.
  set (s0 := mkR (last_rx s) (misordered s) (duplicates s) (streams s) (rwnd s) true).
  destruct (far_ahead s0 (tsn c)).
  { intros _. cbn [make_sack fst snd streams]. split; [reflexivity|eauto]. }
  pose proof (mark_received_streams s0 (tsn c)) as Hs.
  destruct (mark_received s0 (tsn c)) as [s1 dup]. cbn [fst snd] in *. destruct dup.
  { intros _. cbn [make_sack fst snd streams]. rewrite Hs. split; [reflexivity|eauto]. }
  rewrite Hs. cbn [streams s0].
  destruct (add_chunk (reasm (get_stream (streams s) (sid c))) c) as [l|] eqn:Ea; [|cbn [fst snd]; intros H; exfalso; now apply H].
  destruct (pop_messages l (sseq_expected (get_stream (streams s) (sid c)))) as [[l2 seq2] ms] eqn:Ep.
  intros _. cbn [make_sack fst snd streams]. unfold on_stream.
  destruct (Z.eqb_spec (sid c) st) as [<-|Hne].
  - exists l, l2, seq2, ms. eexists. split; [exact Ea|]. split; [exact Ep|]. split; [apply get_set_same|reflexivity].
  - apply get_set_other. congruence.
Qed.

Section Transport.
Variable base N : Z.
Hypothesis Hbase : r32 base.
Hypothesis HN : 0 <= N < 2147483648.

Theorem stream_of_transport st : forall es s, inv base N s -> Forall (data_ev base N) es ->
  srun (reasm (get_stream (streams s) st)) (sseq_expected (get_stream (streams s) st))
       (filter (on_stream st) (accepted_chunks s es)) = Some (msgs_on st s es).
Proof.
  induction es as [|e es IH]; intros s Hinv Hes; cbn [accepted_chunks msgs_on filter srun]; [reflexivity|].
  inversion Hes as [|? ? He Hrest]; subst. destruct e as [c|]; [|destruct He]. cbn [data_ev] in He.
  destruct (rstep_data_inv base N Hbase HN s c Hinv He) as (H1 & H2 & _ & _).
  pose proof (rstep_stream s c st H2) as R. cbv zeta in R.
  specialize (IH _ H1 Hrest).
  destruct (accepts_chunk s (EvData c)) as [c'|] eqn:Ea.
  - assert (c' = c).
    { clear - Ea. cbn [accepts_chunk] in Ea. destruct (far_ahead _ _); [discriminate|]. destruct (snd (mark_received _ _)); [discriminate|]. now injection Ea. }
    subst c'. cbn [app filter]. destruct (on_stream st c) eqn:Eo.
    + destruct R as (l & l2 & seq2 & ms & sk & Eadd & Epop & Eget & Eout).
      cbn [srun]. rewrite Eadd, Epop. rewrite Eget in IH. cbn [reasm sseq_expected] in IH. rewrite IH.
      rewrite Eout. cbn [step_msgs]. unfold on_stream in Eo. rewrite Eo. reflexivity.
    + rewrite R in IH. rewrite IH. f_equal.
      destruct (snd (rstep s (EvData c))); cbn [step_msgs]; unfold on_stream in Eo; rewrite ?Eo; reflexivity.
  - destruct R as (Eget & sk & Eout). cbn [app]. rewrite Eget in IH. rewrite IH. rewrite Eout. cbn [step_msgs].
    destruct (sid c =? st); reflexivity.
Qed.

Lemma accepted_chunks_nodup es s : inv base N s -> Forall (data_ev base N) es -> NoDup (accepted_chunks s es).
Proof.
  intros Hinv Hes. apply (NoDup_map_inv tsn). rewrite accepted_chunks_tsn. now apply (accepted_nodup base N Hbase HN).
Qed.

Lemma accepted_chunks_in : forall es s c, In c (accepted_chunks s es) -> In (EvData c) es.
Proof.
  induction es as [|e es IH]; intros s c; cbn [accepted_chunks]; [intros []|].
  rewrite in_app_iff. intros [H|H]; [|right; eapply IH; eauto].
  destruct e as [c'|]; cbn [accepts_chunk] in H; [|destruct H].
  destruct (far_ahead _ _); [destruct H|]. destruct (snd _); [destruct H|]. destruct H as [<-|[]]. now left.
Qed.

(* ORDERED DELIVERY.  M: the fragment lists of the messages sent on ordered stream st, in
   sending order (hypothesis wfM: what the sender's numbering guarantees).  For every
   list of DATA arrivals within the TSN window whose chunks on stream st are chunks of
   M -- in any order, repeated or missing at will -- the messages the transport hands
   over on stream st are exactly the first n messages of M, in order, each once. *)
Theorem transport_ordered_prefix (M : list (list chunk)) (o : nat -> Z) (s0 : Z) (st : Z) :
  (forall j f, nth_error M j = Some f ->
     f <> [] /\ o j + Z.of_nat (length f) <= o (S j) /\ forall i c, nth_error f i = Some c -> chunk_ok base N o s0 j i f c) ->
  forall es, Forall (data_ev base N) es ->
  (forall c, In (EvData c) es -> sid c = st -> exists j i, at_ M j i c) ->
  swin M [] (ssn s0 0) 0 (filter (on_stream st) (accepted_chunks (rinit base) es)) ->
  ssn s0 0 = 0 ->
  exists n, msgs_on st (rinit base) es = map msgf (firstn n M).
Proof.
  intros wfM es Hes Hlab Hw Hs0.
  pose proof (stream_of_transport st es (rinit base) (inv_rinit base N Hbase HN) Hes) as E.
  cbn [rinit streams get_stream reasm sseq_expected] in E.
  destruct (ordered_prefix base N Hbase HN M o s0 wfM (filter (on_stream st) (accepted_chunks (rinit base) es))) as (n & En).
  - apply NoDup_filter. apply accepted_chunks_nodup; [apply (inv_rinit base N Hbase HN)|exact Hes].
  - intros c Hc. apply filter_In in Hc as [Hc Ho]. apply accepted_chunks_in in Hc. apply Hlab; [exact Hc|].
    unfold on_stream in Ho. now apply Z.eqb_eq in Ho.
  - exact Hw.
  - rewrite Hs0 in En. rewrite E in En. injection En as ->. eauto.
Qed.
End Transport.
