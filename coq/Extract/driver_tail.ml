(* Generic driver appended to every extracted model: reads one s-expression
   per line on stdin, applies model_main, prints the result s-expression. *)
let rec pos_of_int n = if n = 1 then XH else if n land 1 = 0 then XO (pos_of_int (n lsr 1)) else XI (pos_of_int (n lsr 1))
let z_of_small n = if n = 0 then Z0 else if n > 0 then Zpos (pos_of_int n) else Zneg (pos_of_int (-n))
let z10 = z_of_small 10
let z_of_string s =
  let neg = String.length s > 0 && s.[0] = '-' in
  let start = if neg then 1 else 0 in
  let n = String.length s in
  if n - start <= 17 then z_of_small (Stdlib.int_of_string s) else begin
    let acc = ref Z0 in
    for i = start to n - 1 do
      acc := Z.add (Z.mul !acc z10) (z_of_small (Char.code s.[i] - 48))
    done;
    if neg then Z.opp !acc else !acc end
let rec int_of_pos p = match p with XH -> 1 | XO q -> 2 * int_of_pos q | XI q -> 2 * int_of_pos q + 1
let rec pos_bits p = match p with XH -> 1 | XO q -> 1 + pos_bits q | XI q -> 1 + pos_bits q
let string_of_pos p =
  if pos_bits p <= 60 then Stdlib.string_of_int (int_of_pos p) else begin
    (* big: repeated division by 10 using extracted Z *)
    let buf = Buffer.create 32 in
    let cur = ref (Zpos p) in
    let digits = ref [] in
    while !cur <> Z0 do
      let q = Z.div !cur z10 in
      let r = Z.sub !cur (Z.mul q z10) in
      let d = (match r with Z0 -> 0 | Zpos x -> int_of_pos x | Zneg _ -> 0) in
      digits := d :: !digits; cur := q
    done;
    List.iter (fun d -> Buffer.add_char buf (Char.chr (48 + d))) !digits;
    Buffer.contents buf end
let string_of_z z = match z with Z0 -> "0" | Zpos p -> string_of_pos p | Zneg p -> "-" ^ string_of_pos p

let parse_line (s : string) : sx =
  let n = String.length s in
  let i = ref 0 in
  let rec skip () = if !i < n && (s.[!i] = ' ' || s.[!i] = '\t' || s.[!i] = '\r') then (incr i; skip ()) in
  let rec item () : sx =
    skip ();
    if !i >= n then Stdlib.failwith "eof" else
    if s.[!i] = '(' then begin
      incr i;
      let acc = ref [] in
      let fin = ref false in
      while not !fin do
        skip ();
        if !i >= n then Stdlib.failwith "unbalanced"
        else if s.[!i] = ')' then (incr i; fin := true)
        else acc := item () :: !acc
      done;
      L (List.rev !acc) end
    else begin
      let j = !i in
      while !i < n && s.[!i] <> ' ' && s.[!i] <> ')' && s.[!i] <> '(' do incr i done;
      A (z_of_string (String.sub s j (!i - j))) end in
  item ()

let rec print_sx buf (x : sx) = match x with
  | A z -> Buffer.add_string buf (string_of_z z)
  | L l -> Buffer.add_char buf '(';
           List.iteri (fun k y -> if k > 0 then Buffer.add_char buf ' '; print_sx buf y) l;
           Buffer.add_char buf ')'

let () =
  let buf = Buffer.create 65536 in
  (try
    while true do
      let line = Stdlib.input_line Stdlib.stdin in
      if String.length line > 0 then begin
        let r = (try model_main (parse_line line) with Stack_overflow -> L [A (z_of_small (-99))]) in
        Buffer.clear buf; print_sx buf r; Buffer.add_char buf '\n';
        Stdlib.print_string (Buffer.contents buf) end
    done
  with End_of_file -> ());
  Stdlib.flush Stdlib.stdout
