(* C05 -- no received datagram can crash, hang or wedge the receive path.
   Property theorems only: totality (value or ValueError, never another exception,
   never out of fuel -- i.e. no unbounded loop) of EVERY wire parser on EVERY byte
   string, and crash-freedom of the message-level receive handlers that are modelled.
   Proofs live with the codec models (C07, C08, C16, C12, C13, C01). *)
From Coq Require Import ZArith List Bool.
From AV Require Import Lib.Bytes.
From AV Require Lib.RtpX Lib.CodecX Model.SctpWire Model.Rtp Model.Rtcp Model.H264 Model.Vp8 Model.Router Model.Chan
  Model.SctpRecv Model.Dtls.
From AV Require Proof.DtlsP Proof.SctpWireTotalP Proof.RtpTotalP Proof.RtcpTotalP Proof.RtcpP Proof.H264PBase Proof.Vp8P
  Proof.RouterP Proof.ChanTotalP Proof.SctpDupP Proof.SctpC01P Proof.SctpOnceFwdP.
Import ListNotations.
Local Open Scope Z_scope.

Module W := AV.Model.SctpWire. Module WT := AV.Proof.SctpWireTotalP.

(* SCTP: parse_packet (checksum, chunk framing, every chunk constructor reached from
   it), decode_params and the three RE-CONFIG parameter parsers return a value or
   ValueError for every byte string, within fuel length + 1 (no endless loop). *)
Theorem C05_sctp_parse_packet_total : forall b, bytes_ok b -> WT.total (W.parse_packet b).
Proof. exact WT.parse_packet_total. Qed.
Print Assumptions C05_sctp_parse_packet_total.

Theorem C05_sctp_decode_params_total : forall b, WT.total (W.decode_params b).
Proof. exact WT.decode_params_total. Qed.
Print Assumptions C05_sctp_decode_params_total.

Theorem C05_sctp_reconfig_params_total : forall ty b,
  match W.reconfig_param_parse ty b with Some r => WT.total r | None => True end.
Proof. exact WT.reconfig_param_parse_total. Qed.
Print Assumptions C05_sctp_reconfig_params_total.

(* RTP / RTCP: RtpPacket.parse, RtcpPacket.parse (compound), unpack_header_extensions,
   HeaderExtensionsMap.get and unpack_remb_fci, for every id map and every byte string *)
Module R := AV.Model.Rtp. Module RC := AV.Model.Rtcp. Module RX := AV.Lib.RtpX.
Theorem C05_rtp_rtcp_parsers_total : forall m b,
  bytes_ok b ->
  RX.benign (R.rtp_parse m b) /\ RX.benign (RC.rtcp_parse b) /\ RX.benign (RC.unpack_remb_fci b) /\
  (forall profile, RX.benign (R.unpack_header_extensions profile b) /\ RX.benign (R.hext_get m profile b)).
Proof.
  intros m b H. split; [now apply AV.Proof.RtpTotalP.rtp_parse_total|].
  split; [now apply AV.Proof.RtcpTotalP.rtcp_parse_total|].
  split; [now apply AV.Proof.RtcpP.unpack_remb_fci_total|]. intros profile.
  split; [now apply AV.Proof.RtpTotalP.unpack_header_extensions_total|now apply AV.Proof.RtpTotalP.hdrext_get_total].
Qed.
Print Assumptions C05_rtp_rtcp_parsers_total.

(* codec payload descriptors *)
Theorem C05_h264_descriptor_total : forall b, bytes_ok b ->
  (exists v, AV.Model.H264.parse b = AV.Lib.CodecX.Ok v) \/ AV.Model.H264.parse b = AV.Lib.CodecX.ValueErr.
Proof. exact AV.Proof.H264PBase.h264_descriptor_parse_total. Qed.
Print Assumptions C05_h264_descriptor_total.

Theorem C05_vpx_descriptor_total : forall b, bytes_ok b ->
  (exists v, AV.Model.Vp8.parse b = AV.Lib.CodecX.Ok v) \/ AV.Model.Vp8.parse b = AV.Lib.CodecX.ValueErr.
Proof. exact AV.Proof.Vp8P.vpx_descriptor_parse_total. Qed.
Print Assumptions C05_vpx_descriptor_total.

(* RTCP routing: the REMB branch of RtpRouter.route_rtcp cannot raise *)
Theorem C05_route_rtcp_remb_total : forall data, bytes_ok data ->
  AV.Model.Router.unpack_remb_ssrcs data <> AV.Model.Router.RembCrash.
Proof. exact AV.Proof.RouterP.unpack_remb_never_crashes. Qed.
Print Assumptions C05_route_rtcp_remb_total.

(* data-channel layer: a received DCEP message (any bytes, any stream, any state of
   the layer) never makes _data_channel_receive fail while decoding it *)
Theorem C05_dcep_receive_total : forall s sidv data ok oracle,
  ~ In (AV.Model.Chan.EvRaise 4) (snd (AV.Model.Chan.recv_dcep s sidv data ok oracle)).
Proof. exact AV.Proof.ChanTotalP.recv_dcep_never_crashes. Qed.
Print Assumptions C05_dcep_receive_total.

(* SCTP reassembly: the only assertion on the DATA receive path is unreachable, for
   every event list -- DATA chunks and FORWARD-TSN chunks in any order, whatever the
   duplication / reordering -- whose TSNs stay within a window of < 2^31 after the
   initial cumulative TSN *)
Theorem C05_reassembly_assertion_unreachable : forall base N es,
  AV.Proof.SctpDupP.r32 base -> 0 <= N < 2147483648 -> Forall (AV.Proof.SctpOnceFwdP.ev_in base N) es ->
  Forall (fun o => o <> AV.Model.SctpRecv.OutAssert)
         (snd (AV.Model.SctpRecv.rrun (AV.Model.SctpRecv.rinit base) es)).
Proof.
  intros base N es Hb HN Hes.
  exact (AV.Proof.SctpOnceFwdP.no_assert_all base N Hb HN es _ (AV.Proof.SctpDupP.inv_rinit base N Hb HN) Hes).
Qed.
Print Assumptions C05_reassembly_assertion_unreachable.

(* the first thing every datagram meets, RTCDtlsTransport._recv_next: for EVERY datagram -- the
   empty one included, which used to raise IndexError and close the transport (repaired in /repo) --
   and every outcome of the SSL object / SRTP session, demultiplexing ends normally or with the
   ConnectionError the receive loop handles, never with another exception.  The handlers it
   hands the payload to are the subject of the other theorems / the oracle.  Model.Dtls is tied
   to the code by C04's correspondence (scripted SSL / SRTP / ICE around the real method, empty
   datagrams included) and, for this statement, by this check's own `dtls._recv_next` probe. *)
Theorem C05_dtls_demux_total : forall guard t g,
  AV.Model.Dtls.recv_next guard t g <> AV.Model.Dtls.RxCrash.
Proof. exact AV.Proof.DtlsP.recv_next_never_crashes. Qed.
Print Assumptions C05_dtls_demux_total.

(* PARTIAL.  Proved: every byte-level parser is total and linear-fuelled; the modelled
   message-level handlers named above cannot raise.  NOT proved: dispatch totality of
   the whole RTCSctpTransport / RTCRtpReceiver / RTCRtpSender state machines on
   well-typed but nonsensical chunk sequences, and the time / memory bound per
   datagram.  Those are covered by the implementation oracle of this check: malformed
   and nonsensical datagrams (valid checksum and verification tag) are injected into
   two live endpoints in every protocol phase; no exception may escape, each datagram
   must be handled within a time bound, and a valid exchange must still complete
   afterwards.  Seventeen receive-path crashes / hangs found that way or while
   modelling are repaired in /repo. *)
