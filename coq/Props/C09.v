(* C09 -- session descriptions survive parse/serialise round trips.
   Property theorems only; proofs live in Proof/SdpP1..6.v.  The theorems are about
   Model/Sdp.v, which works on structured lines; the character level (lexer/printer in
   harness/props/c09.py) is validated by the correspondence run, not proved: the property
   is PARTIAL at character level.  `absorb` = SessionDescription.parse, `render` = str(). *)
From Coq Require Import ZArith List Bool.
From AV Require Import Model.Sdp Proof.SdpP1 Proof.SdpP3 Proof.SdpP4 Proof.SdpP5 Proof.SdpP6.
Import ListNotations.
Local Open Scope Z_scope.

(* Every description of the shape RTCPeerConnection generates (wf_generated_b, written out in
   Model/Sdp.v and evaluated on the real objects every run) can be serialised, and parsing the
   result gives back the description itself: every field -- kinds, ports, mids, directions,
   codecs with parameters and feedback, header extensions, SSRCs and groups, ICE credentials,
   candidates and options, DTLS fingerprints and role, SCTP port / max-message-size, bundle and
   msid groups -- is recovered, and the text is a fixed point of parse-then-serialise. *)
Theorem C09_generated_fixpoint : forall d, wf_generated_b d = true ->
  exists ls, render d = Ok ls /\ absorb ls = Ok d /\ bind (absorb ls) render = Ok ls.
Proof.
  intros d H. destruct (generated_fixpoint d H) as (ls & Hr & Ha).
  exists ls. split; [exact Hr|]. split; [exact Ha|]. rewrite Ha. exact Hr.
Qed.
Print Assumptions C09_generated_fixpoint.

(* For EVERY line list the parser accepts and whose description can be printed, one round of
   parse-and-serialise is idempotent: parsing the printed lines succeeds and printing again
   gives the same lines. *)
Theorem C09_idempotent : forall t d ls, absorb t = Ok d -> render d = Ok ls ->
  exists d', absorb ls = Ok d' /\ render d' = Ok ls.
Proof. exact idempotent. Qed.
Print Assumptions C09_idempotent.

(* ... and what exactly a round trip does to an arbitrary accepted description: it is replaced
   by its normal form `norm_desc` (Proof/SdpP3.v `norm_media`, `full`): origin None -> "None",
   empty msid / mid and empty feedback parameter dropped, a=rtcp address without port dropped,
   SSRC entries without a known attribute dropped, channels of audio codecs reduced to 1 / 2,
   codec name cut at the first "/", an fmtp dictionary that prints as "" emptied.  Everything
   else -- in particular rtcp_mux, which the unrepaired code lost -- is unchanged. *)
Theorem C09_roundtrip_normal_form : forall t d ls, absorb t = Ok d -> render d = Ok ls ->
  exists lite, any_lite (d_media d) = Ok lite /\ absorb ls = Ok (norm_desc lite d) /\
               map m_rtcp_mux (d_media (norm_desc lite d)) = map m_rtcp_mux (d_media d).
Proof.
  intros t d ls Ha Hr. destruct (render_any_lite d ls Hr) as (lite & Hl). exists lite.
  split; [exact Hl|]. split; [exact (absorb_render d ls lite (absorb_wfp t d Ha) Hr Hl)|].
  unfold norm_desc. cbn [d_media]. rewrite map_map. reflexivity.
Qed.
Print Assumptions C09_roundtrip_normal_form.

(* Known finding (not repaired): the printability premise of C09_idempotent can fail.  A host
   name in c= (address whose ipaddress version is 0 = "not an IP literal") is accepted by the
   parser, and str() of the result raises ValueError. *)
Theorem C09_render_total_refuted : exists t d, absorb t = Ok d /\ render d = ValueErr.
Proof.
  exists [Lm s_audio 9 [82;84;80] [FI 0]; Lc ([104;111;115;116], 0)].
  eexists. split; [vm_compute; reflexivity|vm_compute; reflexivity].
Qed.
Print Assumptions C09_render_total_refuted.

(* ICE candidates: object -> tokens -> object is the identity for every candidate (with or
   without raddr / rport / tcptype), and tokens in canonical order -> object -> tokens is too. *)
Theorem C09_candidate_roundtrip :
  (forall c, cand_of_tokens (cand_to_tokens c) = Ok c) /\
  (forall ts, canonical_tokens ts -> exists c, cand_of_tokens ts = Ok c /\ cand_to_tokens c = ts).
Proof. exact (conj cand_roundtrip cand_roundtrip_tokens). Qed.
Print Assumptions C09_candidate_roundtrip.

(* non-vacuity: a bundle audio + video + application description (taken from a real
   RTCPeerConnection offer, shortened) is of the generated shape, prints, and comes back *)
Definition example_bundle : description :=
  mkDesc 0 (Some [45;32;51;57;57;57;49;49;57;56;54;54;32;51;57;57;57;49;49;57;56;54;54;32;73;78;32;73;80;52;32;48;46;48;46;48;46;48]) [45] [48;32;48] None
    [([66;85;78;68;76;69], [[48]; [49]; [50]])]
    [([87;77;83], [[42]])]
    [mkMedia [97;117;100;105;111] 37387 (Some ([49;57;50;46;48;46;50;46;50], 4)) [85;68;80;47;84;76;83;47;82;84;80;47;83;65;86;80;70] (Some [115;101;110;100;114;101;99;118]) (Some [115;49;32;116;49])
      (Some 9) (Some ([48;46;48;46;48;46;48], 4)) true
      [mkSsrc 4245155309 (Some [99;110]) None None None] []
      [FI 96; FI 0]
      [mkCodec [97;117;100;105;111;47;111;112;117;115] 48000 (Some 2) 96 [] []; mkCodec [97;117;100;105;111;47;80;67;77;85] 8000 (Some 1) 0 [] []]
      [(1, [117;114;110;58;105;101;116;102;58;112;97;114;97;109;115;58;114;116;112;45;104;100;114;101;120;116;58;115;100;101;115;58;109;105;100])] (Some [48])
      None [] None
      (Some ([([115;104;97;45;50;53;54], [56;65;58;66;66;58;50;49])], (Some [97;117;116;111])))
      (Some (mkIce (Some [115;56;113;120]) (Some [80;73;87;84;51;48;76;105;51;98;53;89;102;51;77;82;107;85;54;120;106;52]) false))
      [mkCand [102;57] 1 [117;100;112] 2130706431 [49;57;50;46;48;46;50;46;50] 37387 [104;111;115;116] None None None; mkCand [100;48] 1 [117;100;112] 1694498815 [49;57;56;46;53;49;46;49;48;48;46;55] 39559 [115;114;102;108;120] (Some [49;57;50;46;48;46;50;46;50]) (Some 37387) None] true None;
     mkMedia [118;105;100;101;111] 37387 (Some ([49;57;50;46;48;46;50;46;50], 4)) [85;68;80;47;84;76;83;47;82;84;80;47;83;65;86;80;70] (Some [114;101;99;118;111;110;108;121]) (Some [115;49;32;116;50])
      (Some 9) (Some ([48;46;48;46;48;46;48], 4)) true
      [mkSsrc 643416004 (Some [99;110]) None None None; mkSsrc 3790226503 (Some [99;110]) None None None] [([70;73;68], [643416004;3790226503])]
      [FI 97; FI 98]
      [mkCodec [118;105;100;101;111;47;86;80;56] 90000 None 97 [([110;97;99;107], None); ([110;97;99;107], (Some [112;108;105])); ([103;111;111;103;45;114;101;109;98], None)] []; mkCodec [118;105;100;101;111;47;114;116;120] 90000 None 98 [] [([97;112;116], (PInt 97))]]
      [(1, [117;114;110;58;105;101;116;102;58;112;97;114;97;109;115;58;114;116;112;45;104;100;114;101;120;116;58;115;100;101;115;58;109;105;100])] (Some [49])
      None [] None
      (Some ([([115;104;97;45;50;53;54], [56;65;58;66;66;58;50;49])], (Some [97;117;116;111])))
      (Some (mkIce (Some [115;56;113;120]) (Some [80;73;87;84;51;48;76;105;51;98;53;89;102;51;77;82;107;85;54;120;106;52]) false))
      [mkCand [102;57] 1 [117;100;112] 2130706431 [49;57;50;46;48;46;50;46;50] 37387 [104;111;115;116] None None None] true None;
     mkMedia [97;112;112;108;105;99;97;116;105;111;110] 37387 (Some ([49;57;50;46;48;46;50;46;50], 4)) [85;68;80;47;68;84;76;83;47;83;67;84;80] None None
      None None false
      [] []
      [FS [119;101;98;114;116;99;45;100;97;116;97;99;104;97;110;110;101;108]]
      []
      [] (Some [50])
      (Some 65536) [] (Some 5000)
      (Some ([([115;104;97;45;50;53;54], [56;65;58;66;66;58;50;49])], (Some [97;117;116;111])))
      (Some (mkIce (Some [115;56;113;120]) (Some [80;73;87;84;51;48;76;105;51;98;53;89;102;51;77;82;107;85;54;120;106;52]) false))
      [mkCand [102;57] 1 [117;100;112] 2130706431 [49;57;50;46;48;46;50;46;50] 37387 [104;111;115;116] None None None] true None].

Example C09_example_generated : wf_generated_b example_bundle = true.
Proof. vm_compute. reflexivity. Qed.

Example C09_example_roundtrip :
  exists ls, render example_bundle = Ok ls /\ absorb ls = Ok example_bundle /\ length ls = 58%nat.
Proof. eexists. split; [vm_compute; reflexivity|]. split; vm_compute; reflexivity. Qed.

(* non-vacuity of C09_idempotent outside the generated shape: no a=rtcp, rtcp-mux, duplicate
   rtpmap, an SSRC with an unknown attribute, session-level credentials *)
Example C09_example_idempotent :
  let t := [Lv 0; Lice_ufrag (Some [117]); Lsetup (Some s_active);
            Lm s_video 9 [82;84;80] [FI 96]; Lrtcp_mux; Lrtpmap 96 [86] 90000 None; Lrtpmap 96 [87] 1 None;
            Lrtcp_fb FbAll (Some ([110], Some [])); Lssrc 5 [120] [121]; Lmsid (Some [])] in
  exists d ls, absorb t = Ok d /\ render d = Ok ls /\ ls <> t /\ bind (absorb ls) render = Ok ls.
Proof. eexists. eexists. split; [vm_compute; reflexivity|]. split; [vm_compute; reflexivity|]. split; [discriminate|vm_compute; reflexivity]. Qed.

(* contrib/signaling.py: the object <-> message mapping is a bijection between
   {description with type offer/answer, candidate (with sdpMid / sdpMLineIndex), bye} and the
   messages object_to_string writes (json itself is trusted): reading back what was written gives
   the object, distinct objects give distinct messages, and re-writing what was read from such a
   message gives the message. *)
Theorem C09_signaling_roundtrip :
  (forall o, sobj_ok o -> obj_of_msg (msg_of_obj o) = Ok o) /\
  (forall o1 o2, msg_of_obj o1 = msg_of_obj o2 -> o1 = o2) /\
  (forall m o, obj_of_msg m = Ok o -> (exists o', sobj_ok o' /\ m = msg_of_obj o') -> msg_of_obj o = m).
Proof. exact (conj signaling_roundtrip (conj msg_of_obj_inj signaling_msg_roundtrip)). Qed.
Print Assumptions C09_signaling_roundtrip.

Example C09_example_signaling :
  sobj_ok (SDesc [118] s_offer) /\ sobj_ok (SCand (mkCand [49] 1 [117] 5 [58;58] 9 [104] None (Some 7) None) (Some [48]) None).
Proof. cbn. auto. Qed.
