(* C10 -- the jitter buffer releases only whole, correctly ordered frames and stays bounded.
   Property theorems only; proofs live in Proof/JitterP.v, Proof/JitterInvP.v.

   Vocabulary (defined in the Proof files):
     cap_ok c          c = 2^k with 0 <= k <= 16 (capacities 1, 2, 4 .. 65536; the harness runs 4..128)
     seq16 p           0 <= pseq p < 65536
     reaches c pf v l s outs
                       JitterBuffer(c, pf, v) was created and add() was called on the packets of l in
                       that order without raising, returning outs and ending in state s
     ring_inv s        the ring has `capacity` slots and every occupied slot i holds a packet q with
                       i = seq q mod capacity and uint16(seq q - origin) < capacity
     frame_of ps f     ps is non-empty, all its packets carry the frame's timestamp and the frame's
                       data is the concatenation of their payloads, in order
     consec ps         consecutive sequence numbers modulo 2^16 *)
From Coq Require Import ZArith List Bool Lia Permutation.
From AV Require Import Lib.Bytes Gen.Utils Gen.JbConst Model.Jitter Proof.JitterP Proof.JitterInvP Proof.JitterShiftP Proof.JitterOrderP Proof.JitterCompleteP.
Import ListNotations.
Local Open Scope Z_scope.

(* add() never raises, for ANY arrival list of 16-bit sequence numbers (any order, duplication,
   loss, jumps, wrap-around), any capacity 2^k, any prefetch (also negative), audio and video:
   the constructor's assertion, remove()'s assertion, every `% capacity`, every slot access
   and every use of `_origin` are fine. *)
Theorem C10_never_raises : forall c pf v l,
  cap_ok c -> Forall seq16 l ->
  exists s outs, reaches c pf v l s outs /\ length outs = length l.
Proof. exact jitter_never_raises. Qed.
Print Assumptions C10_never_raises.

(* In every reachable state the ring never holds more than `capacity` packets, never a stale
   one, and only packets that were added. *)
Theorem C10_inv : forall c pf v l s outs,
  cap_ok c -> Forall seq16 l -> reaches c pf v l s outs ->
  ring_inv s /\ forall q, In (Some q) (slots s) -> In q l.
Proof. exact jitter_inv. Qed.
Print Assumptions C10_inv.

(* Every frame returned by the n-th add() is the in-order concatenation of a non-empty run of
   packets received so far (among the first n+1 arrivals) with consecutive sequence numbers and
   one common timestamp, which is the frame's. *)
Theorem C10_frame_integrity : forall c pf v l s outs n pli f,
  cap_ok c -> Forall seq16 l -> reaches c pf v l s outs ->
  nth_error outs n = Some (pli, Some f) ->
  exists ps, frame_of ps f /\ consec ps /\ incl ps (firstn (S n) l).
Proof. exact jitter_frame_integrity. Qed.
Print Assumptions C10_frame_integrity.

(* Key-frame request on discard: in any reachable state of a VIDEO buffer, if add() returns the
   flag False then every packet q that was held before the call is still held, or is one of the
   packets ps the returned frame is made of, or was overwritten by the arriving packet carrying
   the same sequence number.  (An audio buffer never sets the flag.) *)
Theorem C10_pli_on_discard : forall c pf v l s outs p s' pli fr,
  cap_ok c -> Forall seq16 l -> seq16 p -> reaches c pf v l s outs ->
  add s p = Ok (s', (pli, fr)) ->
  (v = false -> pli = false) /\
  (v = true -> pli = false ->
   exists ps, frame_part fr ps /\
     forall q, In (Some q) (slots s) -> In q ps \/ In (Some q) (slots s') \/ pseq q = pseq p).
Proof. exact jitter_pli. Qed.
Print Assumptions C10_pli_on_discard.

(* T+ (first half of C10_no_reuse_ordered): no arrival is ever used in two frames -- for EVERY
   history, also with resets and overflows.  The packet lists pss of all released frames, taken
   together with some remainder (what is still held or was discarded), are a permutation of the
   arrival list: each arrival instance is consumed at most once. *)
Theorem C10_no_reuse : forall c pf v l s outs,
  cap_ok c -> Forall seq16 l -> reaches c pf v l s outs ->
  exists pss rest, Forall2 frame_of pss (released outs) /\ Permutation (concat pss ++ rest) l.
Proof. exact jitter_no_reuse. Qed.
Print Assumptions C10_no_reuse.

(* T+ (second half): as long as no packet arrives MAX_MISORDER or more positions behind the
   origin (never_late: the reset branch of add() is never taken), the released frames, in the
   order they come out, occupy disjoint and strictly increasing intervals [S, S + |ps|) of
   UNWRAPPED stream positions counted from the first arrival (ordered_from): frame k's packets
   carry the sequence numbers first + S_k + j (mod 2^16) and S_k + |ps_k| <= S_k+1.  So no stream
   position is released twice (not even through a duplicate copy) and frames come out in
   increasing order; the origin only moves forward. *)
Theorem C10_ordered : forall c pf v p l s outs,
  cap_ok c -> Forall seq16 (p :: l) -> reaches c pf v (p :: l) s outs -> never_late c pf v (p :: l) ->
  ordered_from (pseq p) 0 (released outs).
Proof. exact jitter_ordered. Qed.
Print Assumptions C10_ordered.

(* T+ C10_complete, in-order case (full strength for in-order delivery).  gs = the sender's frames:
   wfg gs     every frame is a non-empty list of packets with one timestamp, neighbouring frames
              have different timestamps;
   the packets are numbered consecutively from b (mod 2^16) and arrive in order, each once;
   Fit n c gs any n = max(prefetch,1) consecutive frames hold at most capacity-1 packets.
   Then exactly the frames except the last max(prefetch,1) are released, each exactly once, in
   order, byte for byte (gframe g = timestamp and concatenated payloads of g), and no key frame is
   requested.  (capacity <= 32768: with capacity 65536 in-order packets more than 32768 ahead of
   the origin count as misordered.) *)
Theorem C10_complete_inorder : forall c pf v gs b s outs,
  cap_ok c -> c <= 32768 -> 0 <= b < 65536 ->
  wfg gs -> Fit (Z.to_nat (Z.max pf 1)) c gs ->
  (forall j q, nth_error (concat gs) j = Some q -> pseq q = uint16_add b (Z.of_nat j)) ->
  reaches c pf v (concat gs) s outs ->
  released outs = map gframe (firstn (length gs - Z.to_nat (Z.max pf 1)) gs) /\
  Forall (fun x : out => fst x = false) outs.
Proof. exact jitter_complete_inorder. Qed.
Print Assumptions C10_complete_inorder.

(* The design's C10_complete ("every packet exactly once, displaced by less than the capacity =>
   every frame except the trailing prefetch window is released") is FALSE for reordered delivery:
   add() releases at most one frame per call, so the backlog that builds up while a hole is open is
   never worked off.  Witness: capacity 8, prefetch 0, eight one-packet frames delivered as
   0 2 3 4 5 1 6 7 (displacement <= 4): only 3 of the 8 frames come out, 5 stay in the buffer
   (nothing is discarded, no PLI).  Replayed on the implementation by the harness
   (known finding C10-K1, signature trailing-backlog). *)
Theorem C10_complete_refuted :
  exists s outs,
    reaches 8 0 false wit_arrivals s outs /\
    Permutation wit_arrivals wit_stream /\
    (forall i p, nth_error wit_arrivals i = Some p -> Z.abs (Z.of_nat i - pseq p) < 8) /\
    released outs = [mkFrame 0 [0]; mkFrame 1000 [1]; mkFrame 2000 [2]] /\
    (Z.of_nat (length (released outs)) < Z.of_nat (length wit_stream) - 1) /\
    held (slots s) = map wit_pkt [3; 4; 5; 6; 7].
Proof. exact jitter_complete_refuted. Qed.
Print Assumptions C10_complete_refuted.

(* Origin independence (this is the jitter-buffer instance of C17, `jitter_shift_invariant`):
   adding ANY delta (mod 2^16) to every sequence number of ANY arrival list, from the empty
   buffer, gives exactly the same PLI flags and released frames (timestamps and data); the ring
   is merely rotated.  In particular a stream that starts just below 65535 behaves like the same
   stream starting at 0. *)
Theorem C10_seq_shift_invariant : forall c pf v l d s outs,
  cap_ok c -> Forall seq16 l -> reaches c pf v l s outs ->
  exists s', reaches c pf v (map (shift_pkt d) l) s' outs /\
             origin s' = option_map (fun o => uint16_add o d) (origin s).
Proof. exact jitter_shift_invariant. Qed.
Print Assumptions C10_seq_shift_invariant.

(* ... and adding ANY delta (mod 2^32) to every timestamp only shifts the timestamps of the
   released frames by that delta. *)
Theorem C10_ts_shift_invariant : forall c pf v l e s outs,
  cap_ok c -> Forall seq16 l -> Forall ts32 l -> reaches c pf v l s outs ->
  exists s', reaches c pf v (map (tshift_pkt e) l) s' (map (tshift_out e) outs) /\ origin s' = origin s.
Proof. exact jitter_ts_shift_invariant. Qed.
Print Assumptions C10_ts_shift_invariant.

(* ---- non-vacuity: concrete histories (capacity 4, origin just below the wrap) *)
Definition ex_l : list pkt :=
  [mkPkt 65534 1000 [1]; mkPkt 65535 1000 [2]; mkPkt 1 2000 [4]; mkPkt 0 2000 [3]; mkPkt 2 3000 [5];
   mkPkt 9 5000 [6]].

Example C10_example_run :
  exists s, reaches 4 0 true ex_l s
    [(false, None); (false, None); (false, None); (false, Some (mkFrame 1000 [1; 2]));
     (false, Some (mkFrame 2000 [3; 4])); (true, None)] /\ cap_ok 4 /\ Forall seq16 ex_l.
Proof.
  eexists. split; [apply reaches_check; vm_compute; reflexivity|]. split.
  - exists 2. split; [lia|reflexivity].
  - unfold ex_l, seq16. repeat constructor; cbn; lia.
Qed.

(* the hypothesis of C10_ordered is satisfiable (in-order stream across the wrap) and its
   conclusion is not trivial (two frames at positions [0,2) and [2,3)) *)
Definition ex_l2 : list pkt :=
  [mkPkt 65535 10 [1]; mkPkt 0 10 [2]; mkPkt 1 20 [3]; mkPkt 2 30 [4]].

Example C10_example_never_late : never_late 4 0 true ex_l2.
Proof. apply never_late_check. vm_compute. reflexivity. Qed.

Example C10_example_ordered :
  exists s outs, reaches 4 0 true ex_l2 s outs /\
    released outs = [mkFrame 10 [1; 2]; mkFrame 20 [3]].
Proof. eexists; eexists. split; [apply reaches_check; vm_compute; reflexivity|reflexivity]. Qed.

(* the hypotheses of C10_complete_inorder are satisfiable: three frames across the wrap, prefetch 0 *)
Definition ex_gs : list (list pkt) :=
  [[mkPkt 65535 10 [1]; mkPkt 0 10 [2]]; [mkPkt 1 20 [3]]; [mkPkt 2 30 [4]]].

Example C10_example_inorder_hyps :
  cap_ok 4 /\ wfg ex_gs /\ Fit (Z.to_nat (Z.max 0 1)) 4 ex_gs /\
  (forall j q, nth_error (concat ex_gs) j = Some q -> pseq q = uint16_add 65535 (Z.of_nat j)) /\
  concat ex_gs = ex_l2.
Proof.
  split; [exists 2; split; [lia|reflexivity]|]. split.
  { exists 10. split; [split; [discriminate|repeat constructor]|].
    exists 20. split; [lia|]. split; [split; [discriminate|repeat constructor]|].
    exists 30. split; [lia|]. split; [split; [discriminate|repeat constructor]|exact I]. }
  split.
  { intros i n Hn. change (Z.to_nat (Z.max 0 1)) with 1%nat in Hn. change (Z.to_nat 4 - 1)%nat with 3%nat.
    destruct n as [|[|n]]; [destruct (skipn i ex_gs); cbn; lia| |lia].
    do 3 (destruct i as [|i]; [cbn; lia|]). destruct i; cbn; lia. }
  split; [|reflexivity].
  intros j q E. do 4 (destruct j as [|j]; [injection E as <-; reflexivity|]). destruct j; discriminate.
Qed.
