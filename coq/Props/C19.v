(* C19 -- close() always completes, is idempotent and leaves nothing running.
   Property theorems only; proofs live in Proof/CloseP.v, CloseInvP.v, CloseThmP.v, CloseRefP.v.

   The theorems are about Model/Close.v, an interleaving model of the close()/stop() handshake
   LOGIC (see the header of that file).  `step true` is the repaired code, `step false` the code
   before the C19 repairs.  A schedule is any list of events; `run` fails on an event that is not
   enabled, so "for all evs with run ... = Some c'" quantifies over ALL scheduler choice sequences,
   external events, extra close() calls and failing background tasks, for any number of
   transceivers and transports.  What the model does not contain (asyncio itself, threads, the
   native libraries) is only observed on the real objects by the harness: the property is PARTIAL. *)
From Coq Require Import ZArith List Bool Arith Lia.
From AV Require Import Lib.Sx Model.Close Proof.CloseP Proof.CloseInvP Proof.CloseThmP Proof.CloseQuiesceP
  Proof.CloseRefP.
Import ListNotations.

(* ---- termination.  `helps c e` = e is a step of the close() coroutine or of the task / library
   call it is currently blocked on.  Every such step strictly decreases `measure`, no other step
   increases it ... *)
Theorem C19_measure_decreases : forall c e c',
  reachable c -> c_closed c <> FNone -> step true c e = Some c' ->
  measure c' <= measure c /\ (helps c e = true -> measure c' < measure c).
Proof.
  intros c e c' HR Hn HS. apply step_measure; [exact HS|exact Hn|].
  exact (inv_wfA _ (proj1 (reachable_Inv _ HR))).
Qed.
Print Assumptions C19_measure_decreases.

(* ... while close() has not returned one of them is always enabled (no deadlock; no hypothesis
   that background tasks do not fail) ... *)
Theorem C19_progress : forall c,
  reachable c -> c_main c <> None -> exists e c', helps c e = true /\ step true c e = Some c'.
Proof. intros c HR. apply progress. exact (reachable_Inv _ HR). Qed.
Print Assumptions C19_progress.

(* ... hence under EVERY schedule close() has returned once the parties it waits for have taken
   `measure c` steps (the only fairness needed: a runnable party eventually runs) ... *)
Theorem C19_terminates : forall c evs c',
  reachable c -> c_closed c <> FNone -> run true c evs = Some c' ->
  measure c <= helped true c evs -> c_closed c' = FDone.
Proof. intros c evs c' HR. apply terminates. exact (reachable_Inv _ HR). Qed.
Print Assumptions C19_terminates.

(* ... and that number is linear in the number of transceivers. *)
Theorem C19_measure_bound : forall c id c',
  c_closed c = FNone -> step true c (ECloseCall id) = Some c' ->
  measure c' <= 20 * length (c_trx c) + 10.
Proof.
  intros c id c' Hc HS. cbn [step] in HS. rewrite Hc in HS. injection HS as <-. apply measure_close_call.
Qed.
Print Assumptions C19_measure_bound.

(* ---- idempotence: a close() issued during or after another one changes nothing but the list of
   callers waiting for the same future, and once that future is done it returns at once, giving
   back the very same configuration. *)
Theorem C19_idempotent : forall c id,
  c_closed c <> FNone ->
  let c1 := mkCfg (c_trx c) (c_tps c) (c_sctp c) (c_closed c) (c_main c) (id :: c_waiters c) (c_sig_closed c) in
  step true c (ECloseCall id) = Some c1 /\
  (reachable c -> c_closed c = FDone -> ~ In id (c_waiters c) -> step true c1 (ECloseRet id) = Some c).
Proof.
  intros c id Hn. split; [apply second_close_call; exact Hn|].
  intros HR Hd Hni. apply second_close_ret; auto. apply done_main; [exact (proj1 (reachable_Inv _ HR))|exact Hd].
Qed.
Print Assumptions C19_idempotent.

(* ---- once close() has returned: signalling state closed (the ICE / connection states are
   computed from __isClosed), every sender and receiver task is none or exited, no decoder thread,
   every receiver's track has been told to end, the SCTP transport is closed with all channels
   closed and no timer armed, every ICE transport is closed with its monitor finished and aioice's
   consent task gone ... *)
Theorem C19_nothing_running : forall c,
  reachable c -> c_closed c = FDone ->
  c_sig_closed c = true /\
  (forall i x, nth_error (c_trx c) i = Some x ->
     squiet (t_s x) /\ rquiet (t_r x) /\
     forall tp, nth_error (c_tps c) (t_tp x) = Some tp -> iquiet tp) /\
  (forall sc, c_sctp c = Some sc ->
     scquiet sc /\ forall tp, nth_error (c_tps c) (sc_tp sc) = Some tp -> iquiet tp).
Proof. intros c HR. apply closed_quiet. exact (reachable_Inv _ HR). Qed.
Print Assumptions C19_nothing_running.

(* ... and it stays so under every later schedule. *)
Theorem C19_stays_closed : forall c evs c',
  reachable c -> c_closed c = FDone -> run true c evs = Some c' ->
  c_closed c' = FDone /\ reachable c'.
Proof.
  intros c evs c' HR Hd Hrun. split; [eapply run_closed_done; eauto|].
  destruct HR as (tps & ntp & sc & evs0 & Hw & H0). exists tps, ntp, sc, (evs0 ++ evs). split; [exact Hw|].
  clear - H0 Hrun. revert H0. generalize (init tps ntp sc). induction evs0 as [|e l IH]; intros c0 H0; cbn [run app] in *.
  - injection H0 as ->. exact Hrun.
  - destruct (step true c0 e); [apply IH; exact H0|discriminate].
Qed.
Print Assumptions C19_stays_closed.

(* ---- what close() does not wait for: the DTLS pump it has cancelled, a DTLS handshake or an ICE
   start() that was in flight.  On a transport whose ICE side is shut down (C19_nothing_running:
   every transport of the connection once close() has returned) no step of anybody increases
   `tresid`, every step of those parties strictly decreases it, whatever is still live has an
   enabled step, and tresid = 0 means nothing is live: they wind down within tresid <= 5 steps
   ("the loop has run the already-cancelled tasks once"). *)
Theorem C19_transports_wind_down : forall c t tp,
  nth_error (c_tps c) t = Some tp -> iquiet tp ->
  (forall e c', step true c e = Some c' ->
     exists tp', nth_error (c_tps c') t = Some tp' /\ iquiet tp' /\ tresid tp' <= tresid tp /\
                 (tp_event t e = true -> tresid tp' < tresid tp)) /\
  (tp_live tp -> exists e c' tp', step true c e = Some c' /\ nth_error (c_tps c') t = Some tp' /\
                                  tresid tp' < tresid tp) /\
  (tresid tp = 0 -> ~ tp_live tp /\ d_state tp <> DNew) /\ tresid tp <= 5.
Proof.
  intros c t tp Ht Hq. split; [|split; [|split]].
  - intros e c' HS. destruct (tresid_step _ _ _ _ _ HS Ht Hq) as (tp' & H1 & H2 & H3).
    exists tp'. split; [exact H1|]. split; [exact H2|]. split; [exact H3|]. intros He.
    destruct (tresid_own_step _ _ _ _ _ HS Ht Hq He) as (tp2 & H4 & H5). congruence.
  - apply tresid_enabled; auto.
  - apply tresid_zero.
  - unfold tresid. destruct (d_state tp), (d_pump tp), (i_starting tp); cbn; lia.
Qed.
Print Assumptions C19_transports_wind_down.

(* ---- the code before the repairs violates the property (witnesses evaluated in the model; each is
   replayed on the implementation by the harness when run against the unrepaired tree). *)

(* design item 19: _run_rtcp leaving its loop through an unexpected exception does not set the
   exited event; stop(), hence close(), waits for ever, under every continuation *)
Theorem C19_failed_task_hangs_refuted :
  exists c, run false c0 hang_prefix = Some c /\ (c_main c <> None) /\
            forall evs c', run false c evs = Some c' -> c_closed c' <> FDone.
Proof. exact failed_task_hangs. Qed.
Print Assumptions C19_failed_task_hangs_refuted.

(* __connect starting sender / receiver after close() has gone past them: tasks and the decoder
   thread are left running after close() returned *)
Theorem C19_connect_race_refuted :
  exists c x, run false c0 race_trace = Some c /\ c_closed c = FDone /\
              nth_error (c_trx c) 0 = Some x /\
              s_rtcp (t_s x) = TRunning /\ r_rtcp (t_r x) = TRunning /\ r_dec (t_r x) = true.
Proof. exact connect_race_leaks. Qed.
Print Assumptions C19_connect_race_refuted.

(* a negotiation call overtaken by close() sets the signalling state again *)
Theorem C19_nego_race_refuted :
  exists c, run false c0 (close_all ++ [ENegoSig]) = Some c /\ c_closed c = FDone /\ c_sig_closed c = false.
Proof. exact nego_race_reopens. Qed.
Print Assumptions C19_nego_race_refuted.

(* the track of a receiver that never started is not ended *)
Theorem C19_unstarted_track_refuted :
  exists c x, run false c0 close_all = Some c /\ c_closed c = FDone /\
              nth_error (c_trx c) 0 = Some x /\ r_eos (t_r x) = false.
Proof. exact unstarted_track_not_ended. Qed.
Print Assumptions C19_unstarted_track_refuted.

(* RTCIceTransport.start() finishing after stop(): state leaves "closed", consent task keeps running;
   and a start() still expecting remote candidates can never return *)
Theorem C19_ice_start_race_refuted :
  (exists c tp, run false c0 (ice_race ++ [EIceStartRet 0 true]) = Some c /\ c_closed c = FDone /\
                nth_error (c_tps c) 0 = Some tp /\ i_consent tp = true /\ i_state tp = ICompleted) /\
  (exists c tp, run false c0 ice_race = Some c /\ c_closed c = FDone /\
                nth_error (c_tps c) 0 = Some tp /\ i_starting tp = true /\
                step false c (EIceStartRet 0 false) = None).
Proof. split; [exact ice_start_race_leaks|exact ice_start_never_returns]. Qed.
Print Assumptions C19_ice_start_race_refuted.

(* the repaired model rejects each of these histories at the offending step *)
Theorem C19_repaired_rejects :
  run true c0 hang_prefix = None /\ run true c0 race_trace = None /\
  run true c0 (close_all ++ [ENegoSig]) = None.
Proof. split; [exact hang_prefix_rejected|split; [exact connect_race_rejected|exact nego_race_rejected]]. Qed.
Print Assumptions C19_repaired_rejects.

(* ---- non-vacuity: a connected transceiver whose RTCP task failed, closed to the end; the
   hypotheses of the theorems above hold along the way *)
Example C19_example_full_close :
  exists c, run true c0 hang_prefix_fixed = Some c /\ c_closed c = FDone /\ reachable c /\
            measure c = 0.
Proof.
  destruct failed_task_fixed as (c & HR & Hd). exists c. split; [exact HR|]. split; [exact Hd|]. split.
  - exists [0], 1, None, hang_prefix_fixed. split; [|exact HR]. split; [repeat constructor|exact I].
  - revert HR. vm_compute. intros H; injection H as <-. reflexivity.
Qed.

Example C19_example_closing_state :
  exists c c', run true c0 (firstn 10 hang_prefix_fixed) = Some c /\ c_closed c = FPending /\
            (c_main c <> None) /\ measure c = 17 /\
            helps c (EStopRet (ORecvStop 0)) = true /\
            step true c (EStopRet (ORecvStop 0)) = Some c' /\ measure c' = 16.
Proof. do 2 eexists. split; [vm_compute; reflexivity|]. cbn. repeat split; try reflexivity. discriminate. Qed.
