(* C17 -- behaviour does not depend on sequence-number origins, even across wraparound.
   Property theorems only.  Proofs: Proof/SerialP.v (laws of the GENERATED serial
   arithmetic of utils.py), Proof/SctpShiftP.v (SCTP receiver), Proof/SctpTxShiftP.v (SCTP sender), Proof/SctpSsnShiftP.v (stream sequence numbers), Proof/JitterShiftP.v
   (jitter buffer), Proof/StatsShiftP.v (receiver statistics). *)
From Coq Require Import ZArith List Bool.
From AV Require Import Gen.Utils Gen.SctpConst Model.SctpRecv Proof.SerialP Proof.SctpC01P Proof.SctpShiftP.
From AV Require Model.SctpTx Proof.SctpTxShiftP Proof.SctpSsnShiftP.
From AV Require Model.Jitter Model.Stats Proof.JitterP Proof.JitterInvP Proof.JitterShiftP Proof.StatsRunP Proof.StatsShiftP.
Import ListNotations.
Local Open Scope Z_scope.

(* 1. Serial-number comparisons (translated from utils.py on every run) are
   irreflexive, antisymmetric, total away from the antipode, consistent with modular
   addition and translation invariant -- for ALL 16-bit / 32-bit values, by proof, not
   by enumeration. *)
Theorem C17_serial_laws_16 : forall a b d, in16 a -> in16 b ->
  uint16_gt a a = false /\
  (uint16_gt a b = true -> uint16_gt b a = false) /\
  (a <> b -> (a - b) mod 65536 <> 32768 -> uint16_gt a b = true \/ uint16_gt b a = true) /\
  (0 < d < 32768 -> uint16_gt (uint16_add a d) a = true) /\
  uint16_gt (uint16_add a d) (uint16_add b d) = uint16_gt a b /\
  uint16_gte (uint16_add a d) (uint16_add b d) = uint16_gte a b /\
  uint16_gte a b = (a =? b) || uint16_gt a b /\
  in16 (uint16_add a d).
Proof.
  intros a b d Ha Hb.
  exact (conj (uint16_gt_irrefl a) (conj (uint16_gt_asym a b) (conj (uint16_gt_total a b Ha Hb)
        (conj (uint16_gt_add a d Ha) (conj (uint16_gt_shift a b d Ha Hb) (conj (uint16_gte_shift a b d Ha Hb)
        (conj (uint16_gte_spec a b) (uint16_add_range a d)))))))).
Qed.
Print Assumptions C17_serial_laws_16.

Theorem C17_serial_laws_32 : forall a b d, in32 a -> in32 b ->
  uint32_gt a a = false /\
  (uint32_gt a b = true -> uint32_gt b a = false) /\
  (a <> b -> (a - b) mod 4294967296 <> 2147483648 -> uint32_gt a b = true \/ uint32_gt b a = true) /\
  (0 < d < 2147483648 -> uint32_gt (uint32_add a d) a = true) /\
  uint32_gt (uint32_add a d) (uint32_add b d) = uint32_gt a b /\
  uint32_gte (uint32_add a d) (uint32_add b d) = uint32_gte a b /\
  uint32_gte a b = (a =? b) || uint32_gt a b /\
  in32 (uint32_add a d).
Proof.
  intros a b d Ha Hb.
  exact (conj (uint32_gt_irrefl a) (conj (uint32_gt_asym a b) (conj (uint32_gt_total a b Ha Hb)
        (conj (uint32_gt_add a d Ha) (conj (uint32_gt_shift a b d Ha Hb) (conj (uint32_gte_shift a b d Ha Hb)
        (conj (uint32_gte_spec a b) (uint32_add_range a d)))))))).
Qed.
Print Assumptions C17_serial_laws_32.

(* 2. SCTP receiver: for ANY initial cumulative TSN, ANY delta and ANY event list
   (DATA chunks and FORWARD-TSN, in any order, with any repetitions) with 32-bit TSNs:
   the run whose every TSN is shifted by delta (mod 2^32) delivers exactly the same
   messages at exactly the same steps, and its SACKs differ only by that shift of
   the cumulative TSN and of the duplicate list (gap blocks are identical).  Taking
   base = 0 and delta just below 2^32: a session whose TSNs wrap behaves like one
   that starts at 0 under the same network schedule. *)
Theorem C17_sctp_receiver_shift : forall d base es,
  r32 base -> Forall ev_r32 es ->
  rrun (rinit (sh d base)) (map (shev d) es) =
  (shs d (fst (rrun (rinit base) es)), map (shout d) (snd (rrun (rinit base) es))) /\
  map out_msgs (snd (rrun (rinit (sh d base)) (map (shev d) es))) = map out_msgs (snd (rrun (rinit base) es)).
Proof.
  intros d base es Hb Hes.
  pose proof (receiver_shift_invariant d es (rinit base) (wfst_rinit base Hb) Hes) as H.
  rewrite shs_rinit in H. split; [exact H|].
  rewrite H. cbn [snd]. rewrite map_map. apply map_ext. intros o. apply out_msgs_shout.
Qed.
Print Assumptions C17_sctp_receiver_shift.

(* 2b. SCTP sender: for ANY initial TSN, ANY delta and ANY input list (messages handed to
   _send, SACKs with any cumulative TSN and gap blocks, T3 expiries, transmit runs) with
   32-bit TSNs: the sender started at t + delta (mod 2^32) and fed the inputs with every TSN
   shifted by delta reaches the state of the unshifted sender with every TSN field shifted by
   delta -- same congestion window, flight size, flags, timers, queue lengths -- and emits
   the same outputs (DATA transmissions with the same send counts, FORWARD-TSN chunks with
   the same stream list) with TSNs shifted by delta. *)
Module Tx := AV.Model.SctpTx. Module TS := AV.Proof.SctpTxShiftP.
Theorem C17_sctp_sender_shift : forall d t rw is,
  r32 t -> Forall TS.wf_shift is ->
  Tx.run (Tx.init (sh d t) rw) (map (TS.shi d) is) =
  (TS.shs d (fst (Tx.run (Tx.init t rw) is)), map (map (TS.shout d)) (snd (Tx.run (Tx.init t rw) is))).
Proof. exact TS.sender_shift_invariant. Qed.
Print Assumptions C17_sctp_sender_shift.

(* 2c. Stream sequence numbers.  For ANY set of streams expecting ANY 16-bit sequence number x,
   ANY delta and ANY event list (DATA chunks of those streams with 16-bit SSNs, FORWARD-TSN
   chunks naming them): the receiver whose streams expect x + delta (mod 2^16), fed the events
   with every SSN shifted by delta, delivers exactly the same messages and sends exactly the
   same SACKs at every step; its state is the unshifted one with the SSNs shifted.  Taking
   x + delta just below 2^16: a stream whose SSNs wrap behaves like one that starts at 0. *)
Module SN := AV.Proof.SctpSsnShiftP.
Theorem C17_sctp_ssn_shift : forall e base x ids es,
  in16 x -> Forall (SN.ev_ok ids) es ->
  rrun (SN.rinit_ssn base (SN.sh16 e x) ids) (map (SN.shev e) es) =
  (SN.shs e (fst (rrun (SN.rinit_ssn base x ids) es)), snd (rrun (SN.rinit_ssn base x ids) es)).
Proof. exact SN.ssn_origin_independent. Qed.
Print Assumptions C17_sctp_ssn_shift.

(* 3. Jitter buffer: shifting every RTP sequence number by any delta (mod 2^16) yields
   identical PLI flags and released frames; shifting every timestamp (mod 2^32) only
   shifts the released frames' timestamps. *)
Module J := AV.Model.Jitter. Module JP := AV.Proof.JitterP. Module JI := AV.Proof.JitterInvP.
Module JS := AV.Proof.JitterShiftP.
Theorem C17_jitter_seq_shift : forall c pf v l d s outs,
  JP.cap_ok c -> Forall JP.seq16 l -> JI.reaches c pf v l s outs ->
  exists s', JI.reaches c pf v (map (JS.shift_pkt d) l) s' outs /\
             J.origin s' = option_map (fun o => uint16_add o d) (J.origin s).
Proof. exact JS.jitter_shift_invariant. Qed.
Print Assumptions C17_jitter_seq_shift.

Theorem C17_jitter_ts_shift : forall c pf v l e s outs,
  JP.cap_ok c -> Forall JP.seq16 l -> Forall JS.ts32 l -> JI.reaches c pf v l s outs ->
  exists s', JI.reaches c pf v (map (JS.tshift_pkt e) l) s' (map (JS.tshift_out e) outs) /\ J.origin s' = J.origin s.
Proof. exact JS.jitter_ts_shift_invariant. Qed.
Print Assumptions C17_jitter_ts_shift.

(* 4. Receiver statistics / receiver reports: shifting every sequence number (mod 2^16)
   and every RTP timestamp (mod 2^32) leaves packets received / expected / lost,
   fraction lost, jitter, LSR and DLSR of every probe and report unchanged and moves
   only the extended highest sequence number, by the shift of the first packet. *)
Module St := AV.Model.Stats. Module SS := AV.Proof.StatsShiftP.
Theorem C17_stats_shift : forall S rs d16 d32 evs,
  Forall SS.ev_ok2 evs ->
  Forall2 (SS.out_shifted (SS.shift_of d16 (AV.Proof.StatsRunP.pkts evs)))
          (snd (St.run S rs St.recv0 evs))
          (snd (St.run S rs St.recv0 (map (SS.shift_ev d16 d32) evs))).
Proof. exact SS.shift_main. Qed.
Print Assumptions C17_stats_shift.

(* PARTIAL: the corresponding statements for the SCTP sender (TSN comparisons in SACK
   processing), the NACK generator and the RTP retransmission history are not yet
   theorems; they are covered by the metamorphic oracle of this check, which re-runs
   the real implementation with shifted origins (two-endpoint SCTP schedules with TSN
   origins at 0 / just below 2^32 / 2^31, NackGenerator, StreamStatistics,
   JitterBuffer) and compares the observable behaviour. *)

Example C17_example :
  let c t f l := mkChunk t 1 0 false f l 53 [7] in
  map out_msgs (snd (rrun (rinit 4294967293) (map EvData [c 4294967295 false true; c 4294967294 true false]))) =
  map out_msgs (snd (rrun (rinit 9) (map EvData [c 11 false true; c 10 true false]))).
Proof. vm_compute. reflexivity. Qed.
