(* C17 -- behaviour does not depend on sequence-number origins, even across wraparound.
   Property theorems only.  Proofs: Proof/SerialP.v (laws of the GENERATED serial
   arithmetic of utils.py), Proof/SctpShiftP.v (SCTP receiver), Proof/SctpTxShiftP.v (SCTP sender), Proof/SctpSsnShiftP.v (stream sequence numbers), Proof/JitterShiftP.v
   (jitter buffer), Proof/StatsShiftP.v (receiver statistics). *)
From Coq Require Import ZArith List Bool.
From AV Require Import Gen.Utils Gen.SctpConst Model.SctpRecv Proof.SerialP Proof.SctpC01P Proof.SctpShiftP.
From AV Require Model.SctpTx Model.SctpSend Proof.SctpTxShiftP Proof.SctpSsnShiftP Proof.SctpSendSsnP.
From AV Require Model.Chan Proof.ChanSeqShiftP.
From AV Require Model.RtpRecv Proof.NackShiftP Model.RtpSend Proof.RtpHistShiftP Lib.RtpX.
From AV Require Model.Jitter Model.Stats Proof.JitterP Proof.JitterInvP Proof.JitterShiftP Proof.StatsRunP Proof.StatsShiftP.
Import ListNotations.
Local Open Scope Z_scope.

(* 1. Serial-number comparisons (translated from utils.py on every run) are
   irreflexive, antisymmetric, total away from the antipode, consistent with modular
   addition and translation invariant -- for ALL 16-bit / 32-bit values, by proof, not
   by enumeration. *)
Theorem C17_serial_laws_16 : forall a b d, in16 a -> in16 b ->
  uint16_gt a a = false /\
  (uint16_gt a b = true -> uint16_gt b a = false) /\
  (a <> b -> (a - b) mod 65536 <> 32768 -> uint16_gt a b = true \/ uint16_gt b a = true) /\
  (0 < d < 32768 -> uint16_gt (uint16_add a d) a = true) /\
  uint16_gt (uint16_add a d) (uint16_add b d) = uint16_gt a b /\
  uint16_gte (uint16_add a d) (uint16_add b d) = uint16_gte a b /\
  uint16_gte a b = (a =? b) || uint16_gt a b /\
  in16 (uint16_add a d).
Proof.
  intros a b d Ha Hb.
  exact (conj (uint16_gt_irrefl a) (conj (uint16_gt_asym a b) (conj (uint16_gt_total a b Ha Hb)
        (conj (uint16_gt_add a d Ha) (conj (uint16_gt_shift a b d Ha Hb) (conj (uint16_gte_shift a b d Ha Hb)
        (conj (uint16_gte_spec a b) (uint16_add_range a d)))))))).
Qed.
Print Assumptions C17_serial_laws_16.

Theorem C17_serial_laws_32 : forall a b d, in32 a -> in32 b ->
  uint32_gt a a = false /\
  (uint32_gt a b = true -> uint32_gt b a = false) /\
  (a <> b -> (a - b) mod 4294967296 <> 2147483648 -> uint32_gt a b = true \/ uint32_gt b a = true) /\
  (0 < d < 2147483648 -> uint32_gt (uint32_add a d) a = true) /\
  uint32_gt (uint32_add a d) (uint32_add b d) = uint32_gt a b /\
  uint32_gte (uint32_add a d) (uint32_add b d) = uint32_gte a b /\
  uint32_gte a b = (a =? b) || uint32_gt a b /\
  in32 (uint32_add a d).
Proof.
  intros a b d Ha Hb.
  exact (conj (uint32_gt_irrefl a) (conj (uint32_gt_asym a b) (conj (uint32_gt_total a b Ha Hb)
        (conj (uint32_gt_add a d Ha) (conj (uint32_gt_shift a b d Ha Hb) (conj (uint32_gte_shift a b d Ha Hb)
        (conj (uint32_gte_spec a b) (uint32_add_range a d)))))))).
Qed.
Print Assumptions C17_serial_laws_32.

(* 2. SCTP receiver: for ANY initial cumulative TSN, ANY delta and ANY event list
   (DATA chunks and FORWARD-TSN, in any order, with any repetitions) with 32-bit TSNs:
   the run whose every TSN is shifted by delta (mod 2^32) delivers exactly the same
   messages at exactly the same steps, and its SACKs differ only by that shift of
   the cumulative TSN and of the duplicate list (gap blocks are identical).  Taking
   base = 0 and delta just below 2^32: a session whose TSNs wrap behaves like one
   that starts at 0 under the same network schedule. *)
Theorem C17_sctp_receiver_shift : forall d base es,
  r32 base -> Forall ev_r32 es ->
  rrun (rinit (sh d base)) (map (shev d) es) =
  (shs d (fst (rrun (rinit base) es)), map (shout d) (snd (rrun (rinit base) es))) /\
  map out_msgs (snd (rrun (rinit (sh d base)) (map (shev d) es))) = map out_msgs (snd (rrun (rinit base) es)).
Proof.
  intros d base es Hb Hes.
  pose proof (receiver_shift_invariant d es (rinit base) (wfst_rinit base Hb) Hes) as H.
  rewrite shs_rinit in H. split; [exact H|].
  rewrite H. cbn [snd]. rewrite map_map. apply map_ext. intros o. apply out_msgs_shout.
Qed.
Print Assumptions C17_sctp_receiver_shift.

(* 2b. SCTP sender: for ANY initial TSN, ANY delta and ANY input list (messages handed to
   _send, SACKs with any cumulative TSN and gap blocks, T3 expiries, transmit runs) with
   32-bit TSNs: the sender started at t + delta (mod 2^32) and fed the inputs with every TSN
   shifted by delta reaches the state of the unshifted sender with every TSN field shifted by
   delta -- same congestion window, flight size, flags, timers, queue lengths -- and emits
   the same outputs (DATA transmissions with the same send counts, FORWARD-TSN chunks with
   the same stream list) with TSNs shifted by delta. *)
Module Tx := AV.Model.SctpTx. Module TS := AV.Proof.SctpTxShiftP.
Theorem C17_sctp_sender_shift : forall d t rw is,
  r32 t -> Forall TS.wf_shift is ->
  Tx.run (Tx.init (sh d t) rw) (map (TS.shi d) is) =
  (TS.shs d (fst (Tx.run (Tx.init t rw) is)), map (map (TS.shout d)) (snd (Tx.run (Tx.init t rw) is))).
Proof. exact TS.sender_shift_invariant. Qed.
Print Assumptions C17_sctp_sender_shift.

(* 2c. Stream sequence numbers.  For ANY set of streams expecting ANY 16-bit sequence number x,
   ANY delta and ANY event list (DATA chunks of those streams with 16-bit SSNs, FORWARD-TSN
   chunks naming them): the receiver whose streams expect x + delta (mod 2^16), fed the events
   with every SSN shifted by delta, delivers exactly the same messages and sends exactly the
   same SACKs at every step; its state is the unshifted one with the SSNs shifted.  Taking
   x + delta just below 2^16: a stream whose SSNs wrap behaves like one that starts at 0. *)
Module SN := AV.Proof.SctpSsnShiftP.
Theorem C17_sctp_ssn_shift : forall e base x ids es,
  in16 x -> Forall (SN.ev_ok ids) es ->
  rrun (SN.rinit_ssn base (SN.sh16 e x) ids) (map (SN.shev e) es) =
  (SN.shs e (fst (rrun (SN.rinit_ssn base x ids) es)), snd (rrun (SN.rinit_ssn base x ids) es)).
Proof. exact SN.ssn_origin_independent. Qed.
Print Assumptions C17_sctp_ssn_shift.

(* 2d. ... and the SENDER's stream sequence counters (_outbound_stream_seq), end to end.  Two
   senders whose counters for the streams `ids` differ by ANY delta e (mod 2^16; e.g. one just
   below the 16-bit wrap, one at 0), ANY list of ordered messages on those streams, ANY network
   behaviour (the chunks at positions idxs of what was sent arrive, in that order: any loss,
   duplication, reordering), two receivers whose streams expect x resp. x + e: the receivers
   deliver the same messages and send the same SACKs at every step.  (The fragmentation itself:
   same TSNs, flags and payloads, every ordered chunk's SSN shifted by e - first conjunct.) *)
Module SE := AV.Proof.SctpSendSsnP. Module SD := AV.Model.SctpSend.
Theorem C17_sctp_sender_ssn_origin : forall e ids ms s1 s2 base x idxs,
  SE.rel e (fun st => In st ids) s1 s2 ->
  Forall (fun m => In (SD.o_sid m) ids /\ SD.o_ordered m = true) ms -> in16 x ->
  SD.send_msgs s2 ms = map (map (SN.shc e)) (SD.send_msgs s1 ms) /\
  snd (rrun (SN.rinit_ssn base (SN.sh16 e x) ids) (map EvData (SE.pick (concat (SD.send_msgs s2 ms)) idxs))) =
  snd (rrun (SN.rinit_ssn base x ids) (map EvData (SE.pick (concat (SD.send_msgs s1 ms)) idxs))).
Proof. exact SE.sender_ssn_origin. Qed.
Print Assumptions C17_sctp_sender_ssn_origin.

(* 3. Jitter buffer: shifting every RTP sequence number by any delta (mod 2^16) yields
   identical PLI flags and released frames; shifting every timestamp (mod 2^32) only
   shifts the released frames' timestamps. *)
Module J := AV.Model.Jitter. Module JP := AV.Proof.JitterP. Module JI := AV.Proof.JitterInvP.
Module JS := AV.Proof.JitterShiftP.
Theorem C17_jitter_seq_shift : forall c pf v l d s outs,
  JP.cap_ok c -> Forall JP.seq16 l -> JI.reaches c pf v l s outs ->
  exists s', JI.reaches c pf v (map (JS.shift_pkt d) l) s' outs /\
             J.origin s' = option_map (fun o => uint16_add o d) (J.origin s).
Proof. exact JS.jitter_shift_invariant. Qed.
Print Assumptions C17_jitter_seq_shift.

Theorem C17_jitter_ts_shift : forall c pf v l e s outs,
  JP.cap_ok c -> Forall JP.seq16 l -> Forall JS.ts32 l -> JI.reaches c pf v l s outs ->
  exists s', JI.reaches c pf v (map (JS.tshift_pkt e) l) s' (map (JS.tshift_out e) outs) /\ J.origin s' = J.origin s.
Proof. exact JS.jitter_ts_shift_invariant. Qed.
Print Assumptions C17_jitter_ts_shift.

(* 4. Receiver statistics / receiver reports: shifting every sequence number (mod 2^16)
   and every RTP timestamp (mod 2^32) leaves packets received / expected / lost,
   fraction lost, jitter, LSR and DLSR of every probe and report unchanged and moves
   only the extended highest sequence number, by the shift of the first packet. *)
Module St := AV.Model.Stats. Module SS := AV.Proof.StatsShiftP.
Theorem C17_stats_shift : forall S rs d16 d32 evs,
  Forall SS.ev_ok2 evs ->
  Forall2 (SS.out_shifted (SS.shift_of d16 (AV.Proof.StatsRunP.pkts evs)))
          (snd (St.run S rs St.recv0 evs))
          (snd (St.run S rs St.recv0 (map (SS.shift_ev d16 d32) evs))).
Proof. exact SS.shift_main. Qed.
Print Assumptions C17_stats_shift.

(* 5. Loss detection (NackGenerator of the RTP receiver): for ANY list of 16-bit sequence
   numbers handed to add() and ANY delta e, the generator fed the numbers shifted by e (mod 2^16)
   returns the same `missed` verdict at every step and its state - highest number seen, set of
   missing packets - is the unshifted one shifted by e; it runs out of fuel on neither or both. *)
Module NK := AV.Proof.NackShiftP. Module RR := AV.Model.RtpRecv.
Theorem C17_nack_generator_shift : forall e l, Forall in16 l ->
  RR.nack_trace RR.nack_init (map (SN.sh16 e) l) =
  (map (fun p => (fst p, NK.shg e (snd p))) (fst (RR.nack_trace RR.nack_init l)), snd (RR.nack_trace RR.nack_init l)).
Proof. exact NK.nack_origin_independent. Qed.
Print Assumptions C17_nack_generator_shift.

(* 6. Retransmission history of the RTP sender (__rtp_history, a dictionary keyed by
   sequence_number % 128; _retransmit; the NACK branch of _handle_rtcp_packet).  For ANY sender
   that starts with an empty history at ANY 16-bit sequence number, ANY list of frames and NACKs
   (16-bit sequence numbers) and ANY delta d: the sender started d later (mod 2^16), given the
   same frames and the NACKs shifted by d, sends the same media packets with sequence numbers
   shifted by d and answers every NACK with the same retransmissions - the same packets shifted
   when RTX is off, RTX packets carrying the shifted original sequence number (same RTX sequence
   numbers) when it is on; it fails (struct.error) on neither or both; its history is the
   unshifted one with packets shifted and slots rotated by d. *)
Module HS := AV.Proof.RtpHistShiftP. Module RS := AV.Model.RtpSend.
Theorem C17_rtp_history_shift : forall d s ops,
  in16 (RS.s_seq s) -> RS.s_hist s = [] -> Forall HS.opok ops ->
  RS.run (HS.shs d s) (map (HS.shop d) ops) = HS.rmap (HS.shrun d (HS.is_rtx s)) (RS.run s ops).
Proof. exact HS.history_origin_independent. Qed.
Print Assumptions C17_rtp_history_shift.

(* 7. Reconfiguration sequence numbers (RE-CONFIG request / response numbering of the
   data-channel layer, Model/Chan.v).  For ANY state whose own request counter (and pending
   request, if any) is a 32-bit number, ANY input list - channel creation, sends, closes, flushes,
   RE-CONFIG transmissions, incoming reset requests and responses (32-bit response numbers),
   association set-up and tear-down, every interleaving - and ANY deltas k1, k2: the endpoint
   whose own numbering is shifted by k1 and whose peer's numbering is shifted by k2 (mod 2^32),
   given the same inputs with the sequence numbers in them shifted, emits the same events with
   only the request / response numbers shifted, and reaches the same state with only the three
   sequence fields shifted: which channels open, close, get reset, and when, does not depend on
   where the numbering starts or whether it wraps. *)
Module CS := AV.Proof.ChanSeqShiftP. Module CH := AV.Model.Chan.
Theorem C17_reconfig_seq_shift : forall k1 k2 is s, CS.sok s -> Forall CS.iok is ->
  CH.run (CS.shq k1 k2 s) (map (CS.shi k1 k2) is) =
  (CS.shq k1 k2 (fst (CH.run s is)), map (map (CS.she k1 k2)) (snd (CH.run s is))).
Proof. exact CS.run_shift. Qed.
Print Assumptions C17_reconfig_seq_shift.

(* PARTIAL: none of the sequence spaces named by the property is left to the oracle alone; the
   metamorphic oracle of this check still re-runs the real implementation with shifted origins
   (two-endpoint SCTP schedules with TSN origins at 0 / just below 2^32 / 2^31, NackGenerator,
   StreamStatistics, JitterBuffer) and compares the observable behaviour.  Not covered by a
   theorem: the composition of the separate shift theorems into one statement about a whole
   peer connection. *)

(* non-vacuity of 2d: counters 65535 vs 3 on stream 1 (e = 4), two ordered messages, the second
   chunk arrives first and once more at the end *)
Example C17_sender_ssn_example :
  let s1 := SD.mkS 10 [(1, 65535)] in let s2 := SD.mkS 10 [(1, 3)] in
  let ms := [SD.mkOut 1 true 53 [1; 2]; SD.mkOut 1 true 53 [3]] in
  SE.rel 4 (fun st => In st [1]) s1 s2 /\
  map (map sseq) (SD.send_msgs s1 ms) = [[65535]; [0]] /\ map (map sseq) (SD.send_msgs s2 ms) = [[3]; [4]] /\
  snd (rrun (SN.rinit_ssn 9 65535 [1]) (map EvData (SE.pick (concat (SD.send_msgs s1 ms)) [1; 0; 1]%nat))) =
  snd (rrun (SN.rinit_ssn 9 3 [1]) (map EvData (SE.pick (concat (SD.send_msgs s2 ms)) [1; 0; 1]%nat))).
Proof.
  split; [split; [reflexivity|]|vm_compute; repeat split].
  intros st [<-|[]]. vm_compute. repeat split; discriminate.
Qed.

(* non-vacuity of 5: 65533, 65535 (65534 missed), 1 (0 missed), late 65534 *)
Example C17_nack_example :
  map (fun p => (fst p, RR.missing (snd p))) (fst (RR.nack_trace RR.nack_init [65533; 65535; 1; 65534])) =
    [(false, []); (true, [65534]); (true, [0; 65534]); (false, [0])] /\
  map (fun p => (fst p, RR.missing (snd p))) (fst (RR.nack_trace RR.nack_init (map (SN.sh16 5) [65533; 65535; 1; 65534]))) =
    [(false, []); (true, [3]); (true, [5; 3]); (false, [5])].
Proof. vm_compute. split; reflexivity. Qed.

(* non-vacuity of 6: RTX on, the counter at 65535 resp. 3 (d = 4): two packets, a NACK for both and
   for one never sent; the RTX payloads start with 0xFFFF / 0x0000 resp. 0x0003 / 0x0004 *)
Example C17_history_example :
  let s0 q := RS.mkSender 96 11 22 (Some 97) None q 0 500 [] in
  let f := RS.mkEframe 1000 None [([1], 0); ([2], 0)] in
  let pay r := match r with
               | AV.Lib.RtpX.Ok (_, outs) => map (fun o => match o with RS.Sent l | RS.Resent l => map (fun p => (AV.Model.Rtp.sequence_number p, AV.Model.Rtp.payload p)) l end) outs
               | _ => [] end in
  pay (RS.run (s0 65535) [RS.Frame f; RS.Nack [65535; 0; 77]]) = [[(65535, [1]); (0, [2])]; [(500, [255; 255; 1]); (501, [0; 0; 2])]] /\
  pay (RS.run (HS.shs 4 (s0 65535)) (map (HS.shop 4) [RS.Frame f; RS.Nack [65535; 0; 77]])) = [[(3, [1]); (4, [2])]; [(500, [0; 3; 1]); (501, [0; 4; 2])]].
Proof. vm_compute. split; reflexivity. Qed.

(* non-vacuity of 7: own numbering at 2^32 - 1 resp. 4 (k1 = 5), the peer's shifted by 7: create,
   establish, flush, ACK, close, RE-CONFIG request numbered 4294967295 resp. 4, response, closed *)
Example C17_reconfig_example :
  let ins := [CH.ICreate false None true None None [104] []; CH.IEstablished; CH.IFlush [false; false];
              CH.IRecv 1 WEBRTC_DCEP [DATA_CHANNEL_ACK] true []; CH.IClose 0 false; CH.ITransmitReconfig;
              CH.IResetResponse 4294967295; CH.IResetRequest 100 [1]] in
  let s0 := CS.init_at 1 4294967295 99 in
  CS.sok s0 /\ Forall CS.iok ins /\
  nth 5 (snd (CH.run s0 ins)) [] = [CH.EvReconfigRequest 4294967295 [1]] /\
  nth 5 (snd (CH.run (CS.shq 5 7 s0) (map (CS.shi 5 7) ins))) [] = [CH.EvReconfigRequest 4 [1]] /\
  nth 6 (snd (CH.run s0 ins)) [] = [CH.EvClose 0] /\
  nth 7 (snd (CH.run (CS.shq 5 7 s0) (map (CS.shi 5 7) ins))) [] = [CH.EvReconfigResponse 107].
Proof.
  assert (R : CS.r32 4294967295) by (unfold CS.r32; split; [discriminate|reflexivity]).
  split; [split; [exact R|exact I]|].
  split; [repeat (constructor; [first [exact I|exact R]|]); constructor|].
  vm_compute. repeat split.
Qed.

Example C17_example :
  let c t f l := mkChunk t 1 0 false f l 53 [7] in
  map out_msgs (snd (rrun (rinit 4294967293) (map EvData [c 4294967295 false true; c 4294967294 true false]))) =
  map out_msgs (snd (rrun (rinit 9) (map EvData [c 11 false true; c 10 true false]))).
Proof. vm_compute. reflexivity. Qed.
