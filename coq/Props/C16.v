(* C16 -- H.264 and VP8 packetisation is lossless and respects the payload size limit.
   Property theorems only; proofs live in Proof/H264P*.v and Proof/Vp8P.v.
   All size statements are against the constants GENERATED from h264.py / vpx.py. *)
From Coq Require Import ZArith List Bool.
From AV Require Import Lib.Bytes Lib.CodecX Gen.H264Const Gen.VpxConst.
From AV Require Model.H264 Model.Vp8.
From AV Require Import Proof.H264PBase Proof.H264PFu Proof.H264PStap Proof.H264PSplit Proof.Vp8P.
Import ListNotations.
Local Open Scope Z_scope.

(* The limit the property speaks about is the one in the source today. *)
Theorem C16_limit_is_1300 : h264_PACKET_MAX = 1300 /\ vpx_PACKET_MAX = 1300.
Proof. split; reflexivity. Qed.
Print Assumptions C16_limit_is_1300.

(* ======================================================================== H.264 *)

(* valid_nal n  :=  bytes_ok n /\ 2 <= len n /\ first byte has type 1..23
   fu_fragments n frags  :=  frags = f0 :: fmids ++ [fl], f0 carries S (not E), fl carries E (not
     S), the middle ones neither; every fragment has type 28, the F/NRI bits and the type of n's
     header, R = 0, a non-empty payload, length <= PACKET_MAX; payloads concatenate to n's body
   packets_of nals pk  :=  pk is, NAL unit by NAL unit in order, either the fragments of a unit
     longer than PACKET_MAX, or a unit alone, or one STAP-A (type 24) packet h :: len1 n1 len2 n2 ..
     holding 2..9 consecutive whole units, of length <= PACKET_MAX *)

(* _packetize_fu_a: for EVERY NAL unit longer than PACKET_MAX the loop terminates
   within its fuel, the final assertion holds (result is Ok, not Crash), and the
   fragments are a correct fragmentation. *)
Theorem C16_h264_fu_a : forall data,
  bytes_ok data -> h264_PACKET_MAX < len data ->
  exists frags, H264.packetize_fu_a data = Ok frags /\ fu_fragments data frags.
Proof. exact packetize_fu_a_spec. Qed.
Print Assumptions C16_h264_fu_a.

(* depayloading the fragments of a unit gives back start code + unit *)
Theorem C16_h264_fu_a_reassembles : forall n frags,
  bytes_ok n -> fu_fragments n frags -> depay_all frags = Ok (H264.START_CODE ++ n).
Proof. exact depay_fu. Qed.
Print Assumptions C16_h264_fu_a_reassembles.

(* _packetize_stap_a: consumes a non-empty prefix `taken` of the iterator, loses
   and reorders nothing, and returns either the unit alone or a STAP-A packet of
   2..9 whole units within the limit. *)
Theorem C16_h264_stap_a : forall data rest,
  Forall valid_nal (data :: rest) -> len data <= h264_PACKET_MAX ->
  exists pkt taken nxt rest',
    H264.packetize_stap_a data rest = Ok (pkt, nxt, rest') /\
    data :: rest = taken ++ opt_list nxt ++ rest' /\
    (nxt = None -> rest' = []) /\
    ((taken = [data] /\ pkt = data) \/
     ((2 <= length taken <= 9)%nat /\
      exists h, pkt = h :: encs taken /\ Z.land h 31 = h264_NAL_TYPE_STAP_A /\ 0 <= h < 256 /\
                len pkt <= h264_PACKET_MAX)).
Proof. exact packetize_stap_a_spec. Qed.
Print Assumptions C16_h264_stap_a.

(* _packetize never raises on valid NAL units (its fuel = number of units is
   enough) and its output has the structure described by packets_of. *)
Theorem C16_h264_structure : forall nals,
  Forall valid_nal nals -> exists pk, H264.packetize nals = Ok pk /\ packets_of nals pk.
Proof. exact packetize_spec. Qed.
Print Assumptions C16_h264_structure.

Theorem C16_h264_size : forall nals,
  Forall valid_nal nals ->
  exists pk, H264.packetize nals = Ok pk /\ Forall (fun p => len p <= h264_PACKET_MAX) pk.
Proof.
  intros nals H. destruct (packetize_spec nals H) as [pk [H1 H2]].
  exists pk. split; [exact H1 | exact (packets_of_size nals pk H2)].
Qed.
Print Assumptions C16_h264_size.

(* depay_all = h264_depayload of every payload in order, results concatenated *)
Theorem C16_h264_lossless : forall nals,
  Forall valid_nal nals ->
  exists pk, H264.packetize nals = Ok pk /\
             depay_all pk = Ok (concat (map (fun n => H264.START_CODE ++ n) nals)).
Proof.
  intros nals H. destruct (packetize_spec nals H) as [pk [H1 H2]].
  exists pk. split; [exact H1 | exact (packets_of_lossless nals pk H2 H)].
Qed.
Print Assumptions C16_h264_lossless.

(* T+  _split_bitstream inverts joining with 3- or 4-byte start codes:
   join units = concatenation of (00 00 00 01 | 00 00 01) ++ unit;  clean_unit n = n contains no
   00 00 01, is non-empty and does not end in 00 (what emulation prevention guarantees).
   The loop's fuel S (length buf) suffices and the buf[i - 1] access never fails. *)
Theorem C16_split : forall units,
  Forall clean_unit (map snd units) ->
  H264.split_bitstream (join units) = Ok (map snd units).
Proof. exact split_join. Qed.
Print Assumptions C16_split.

(* non-vacuity *)
Example valid_nal_ex : valid_nal [101; 1; 2; 3].
Proof. repeat split; [repeat constructor; cbv; intuition congruence | cbv; congruence | ].
       exists 101. split; [reflexivity | cbv; intuition congruence]. Qed.
Example h264_packetize_ex :
  H264.packetize [[101; 1; 2; 3]; [65; 9]] = Ok [[120; 0; 4; 101; 1; 2; 3; 0; 2; 65; 9]].
Proof. vm_compute. reflexivity. Qed.
Example split_ex :
  clean_unit [101; 1; 0; 2] /\
  H264.split_bitstream (join [(true, [101; 1; 0; 2]); (false, [65; 9])]) = Ok [[101; 1; 0; 2]; [65; 9]].
Proof. split; [split; [reflexivity | cbv; congruence] | vm_compute; reflexivity]. Qed.
Example fu_ex : exists frags, H264.packetize_fu_a (101 :: repeat 7 1300) = Ok frags /\ length frags = 2%nat.
Proof. eexists. split; [vm_compute; reflexivity | reflexivity]. Qed.

(* ======================================================================== VP8 *)

(* descr_ok d := partition_start in 0..1, partition_id in 0..15, picture id absent or 0..32767,
     tl0picidx absent or 0..255, tid absent or (0..3, 0..1), keyidx absent or 0..31
   vp8_packets buffer pid pk := there are non-empty chunks concatenating to buffer, one per
     payload, such that payload k has length <= PACKET_MAX and parses to the descriptor
     (partition_start = 1 iff k = 0, partition_id 0, picture id pid, nothing else) and chunk k *)

(* serialise-then-parse is the identity for EVERY in-range field combination
   (all 16 presence patterns, 7- and 15-bit picture ids), with any payload after it *)
Theorem C16_vp8_descriptor_roundtrip : forall d,
  descr_ok d ->
  exists b, Vp8.descr_bytes d = Ok b /\ (1 <= len b <= 6) /\ forall rest, Vp8.parse (b ++ rest) = Ok (d, rest).
Proof. exact descr_roundtrip. Qed.
Print Assumptions C16_vp8_descriptor_roundtrip.

(* for EVERY buffer and picture id 0..32767 the loop terminates within its fuel and
   yields a correct packetisation *)
Theorem C16_vp8_structure : forall buffer pid,
  0 <= pid < 32768 -> exists pk, Vp8.packetize buffer pid = Ok pk /\ vp8_packets buffer pid pk.
Proof. exact vp8_packetize_spec. Qed.
Print Assumptions C16_vp8_structure.

Theorem C16_vp8 : forall buffer pid,
  0 <= pid < 32768 ->
  exists pk, Vp8.packetize buffer pid = Ok pk /\
             Forall (fun p => len p <= vpx_PACKET_MAX) pk /\
             vp8_depay_all pk = Ok buffer.
Proof.
  intros buffer pid H. destruct (vp8_packetize_spec buffer pid H) as [pk [H1 H2]].
  exists pk. split; [exact H1|]. split; [exact (vp8_packets_size _ _ _ H2) | exact (vp8_packets_lossless _ _ _ H2)].
Qed.
Print Assumptions C16_vp8.

Example descr_ok_ex : descr_ok (Vp8.mkDescr 1 0 (Some 4660) (Some 7) (Some (2, 1)) (Some 17)).
Proof. cbv. intuition congruence. Qed.
Example descr_ex :
  Vp8.descr_bytes (Vp8.mkDescr 1 0 (Some 4660) (Some 7) (Some (2, 1)) (Some 17)) = Ok [144; 240; 146; 52; 7; 177].
Proof. vm_compute. reflexivity. Qed.
Example vp8_packetize_ex : Vp8.packetize [1; 2; 3] 129 = Ok [[144; 128; 128; 129; 1; 2; 3]].
Proof. vm_compute. reflexivity. Qed.
