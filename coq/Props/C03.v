(* C03 -- offer/answer yields a consistent, connectable session for every configuration.
   Property theorems only; proofs live in Proof/NegoP.v (layer 1: the pure helper functions)
   and Proof/NegoExP.v (layer 2: the offer/answer skeleton).  The model is Model/Nego.v. *)
From Coq Require Import ZArith List Bool.
From AV Require Import Model.Nego Proof.NegoP Proof.NegoExP Proof.NegoWfP Proof.NegoCodecP Proof.NegoOkP Proof.NegoDirP.
Import ListNotations.
Local Open Scope Z_scope.

(* ======================= layer 1: helper laws, for ALL codec lists ======================= *)

(* find_common_codecs: the result is drawn, in order, from a sub-list of the remote list; an RTX entry is
   the remote entry itself, any other entry is a compatible local codec carrying the remote payload
   type when that is dynamic and only feedback that the remote side offered. *)
Theorem C03_common_codecs_sublist : forall local remote res,
  find_common_codecs local remote = Ok res ->
  exists sel, sublist sel remote /\ Forall2 (accepted local) res sel.
Proof. exact find_common_codecs_sublist. Qed.
Print Assumptions C03_common_codecs_sublist.

Theorem C03_accepted_codec_facts : forall local r c, accepted local r c ->
  lower (c_kind r) = lower (c_kind c) /\ lower (c_name r) = lower (c_name c) /\ c_clock r = c_clock c /\
  is_rtx r = is_rtx c /\
  (dynamic_pt (c_pt c) = true -> c_pt r = c_pt c) /\
  (forall f, In f (c_fb r) -> In f (c_fb c)).
Proof. exact accepted_facts. Qed.
Print Assumptions C03_accepted_codec_facts.

(* RTX is accepted only if the codec its apt names was accepted earlier in the list, with equal clock rate *)
Theorem C03_rtx_only_after_base : forall local remote res,
  find_common_codecs local remote = Ok res ->
  forall p1 r p2, res = p1 ++ r :: p2 -> is_rtx r = true ->
  exists apt b, pget (c_params r) key_apt = Some (PInt apt) /\ In b p1 /\ is_rtx b = false /\
                c_pt b = apt /\ c_clock b = c_clock r.
Proof. exact find_common_codecs_rtx. Qed.
Print Assumptions C03_rtx_only_after_base.

(* filter_preferred_codecs: no preferences = identity; otherwise one block per satisfiable real
   preference, in preference order, each block the matching codec optionally followed by its RTX *)
Theorem C03_preferred_codecs : forall codecs prefs res,
  filter_preferred_codecs codecs prefs = Ok res ->
  (prefs = [] -> res = codecs) /\
  (prefs <> [] -> pref_blocks codecs prefs res) /\
  incl res codecs.
Proof.
  intros codecs prefs res H. split; [|split].
  - intros ->. rewrite filter_preferred_empty in H. congruence.
  - intro Hne. exact (filter_preferred_blocks codecs prefs res Hne H).
  - exact (filter_preferred_incl codecs prefs res H).
Qed.
Print Assumptions C03_preferred_codecs.

(* header extensions: a subset of the remote list with the remote ids (the remote records themselves),
   restricted to locally supported uris; in remote order when local uris are distinct *)
Theorem C03_common_header_extensions : forall local remote,
  (forall x, In x (find_common_header_extensions local remote) <->
             In x remote /\ exists l, In l local /\ x_uri l = x_uri x) /\
  (NoDup (map x_uri local) -> sublist (find_common_header_extensions local remote) remote).
Proof.
  intros local remote. split.
  - intro x. split; [apply common_ext_in|]. intros [Hx [l [Hl Hu]]]. exact (common_ext_complete local remote x l Hx Hl Hu).
  - exact (common_ext_sublist local remote).
Qed.
Print Assumptions C03_common_header_extensions.

(* directions: and / or are total and mean what they say; reverse is an involution; the complementary-
   direction law: if the answerer (direction b) answers an offer of direction a with and(b, reverse a),
   the offerer's reverse of that answer is and(a, reverse b) *)
Theorem C03_direction_laws :
  (forall d, reverse_direction (reverse_direction d) = d) /\
  (forall d, sends (reverse_direction d) = recvs d /\ recvs (reverse_direction d) = sends d) /\
  (forall a b, exists d, and_direction (Some a) (Some b) = Ok d /\
                         sends d = sends a && sends b /\ recvs d = recvs a && recvs b) /\
  (forall a b, exists d, or_direction (Some a) (Some b) = Ok d /\
                         sends d = sends a || sends b /\ recvs d = recvs a || recvs b) /\
  (forall a b d, and_direction (Some b) (Some (reverse_direction a)) = Ok d ->
                 and_direction (Some a) (Some (reverse_direction b)) = Ok (reverse_direction d)).
Proof.
  split; [exact reverse_involution|]. split; [exact reverse_direction_spec|]. split; [|split].
  - intros a b. destruct (and_direction_total a b) as [d H]. exists d. split; [exact H | exact (and_direction_spec a b d H)].
  - intros a b. destruct (or_direction_total a b) as [d H]. exists d. split; [exact H | exact (or_direction_spec a b d H)].
  - exact complementary_directions.
Qed.
Print Assumptions C03_direction_laws.

(* allocate_mid terminates within len(mids)+1 rounds and returns the least unused mid *)
Theorem C03_allocate_mid : forall mids,
  exists m, allocate_mid mids = Ok m /\ ~ In m mids /\ 0 <= m /\ forall j, 0 <= j < m -> In j mids.
Proof.
  intro mids. destruct (allocate_mid_ok mids) as [m H]. exists m. split; [exact H|].
  apply alloc_from_spec in H. tauto.
Qed.
Print Assumptions C03_allocate_mid.

(* ======================= layer 2: the offer/answer exchange ======================= *)

(* At ANY point of ANY session (any bundle policies, any interleaving of addTrack / addTransceiver /
   createDataChannel / setCodecPreferences / direction changes on both sides with complete exchanges in
   either direction), whenever a further exchange in either direction returns Ok:
     both sides end `stable`; the answer has the offer's m-sections (count, order, kind, mid) and BUNDLE
     list; every answer section has a definite DTLS role; and every audio/video section of the answer is
     `section_ok`: its codecs are filter_preferred(find_common(CODECS, offered codecs)) and non-empty,
     its header extensions the common ones, its direction and(own direction, reverse(offered)). *)
Theorem C03_answer_mirrors_offer : forall T pol_a pol_b steps a b,
  run_session true T (init_pc pol_a) (init_pc pol_b) steps = Ok (a, b) ->
  forall x, (exchange true T a b = Ok x \/ exchange true T b a = Ok x) -> mirrors T x.
Proof. exact (session_exchange_mirrors true). Qed.
Print Assumptions C03_answer_mirrors_offer.

(* what `section_ok` gives per audio/video section: answered codecs are drawn from the offered ones
   (`accepted`: same codec, the offerer's payload type when dynamic, feedback only as offered), RTX only
   behind an accepted base codec whose payload type it names, header extensions are offered records
   (the offerer's ids), and the answer never sends what the offer does not receive nor vice versa *)
Theorem C03_answered_section : forall T mo ma, section_ok T mo ma -> is_av (m_kind mo) = true ->
  m_codecs ma <> [] /\
  (forall c, In c (m_codecs ma) -> exists c', In c' (m_codecs mo) /\ accepted (CODECS T (m_kind mo)) c c') /\
  (forall x, In x (m_exts ma) -> In x (m_exts mo)) /\
  (forall p1 r p2, m_codecs ma = p1 ++ r :: p2 -> is_rtx r = true ->
     exists apt b, pget (c_params r) key_apt = Some (PInt apt) /\ In b p1 /\ is_rtx b = false /\ c_pt b = apt) /\
  (exists d_o d_a, m_dir mo = Some d_o /\ m_dir ma = Some d_a /\
                   (sends d_a = true -> recvs d_o = true) /\ (recvs d_a = true -> sends d_o = true)).
Proof. exact section_ok_codecs. Qed.
Print Assumptions C03_answered_section.

(* complementary current directions: after an exchange at any point of any session, for every audio/video
   section of the answer there is exactly one transceiver per side carrying its mid; the answerer's has
   currentDirection = the answered direction, the offerer's has the reverse of it (so one side sends exactly
   when the other receives, cf. C03_direction_laws) *)
Theorem C03_current_directions_complementary : forall T pol_a pol_b steps a b,
  run_session true T (init_pc pol_a) (init_pc pol_b) steps = Ok (a, b) ->
  forall x, (exchange true T a b = Ok x \/ exchange true T b a = Ok x) ->
  Forall (section_directions x) (d_media (x_answer x)).
Proof.
  intros T pol_a pol_b steps a b H x Hx.
  destruct (run_session_wf true T steps _ _ _ _ H (wf_init T pol_a) (wf_init T pol_b) eq_refl) as [Wa [Wb Hs]].
  destruct Hx as [Hx|Hx].
  - exact (exchange_directions T a b x Hx Wa Wb Hs).
  - exact (exchange_directions T b a x Hx Wb Wa (eq_sym Hs)).
Qed.
Print Assumptions C03_current_directions_complementary.

(* FULL STATEMENT.  At any point of any session the next offer/answer exchange SUCCEEDS (returns Ok, hence by
   C03_answer_mirrors_offer leaves both sides stable with mirrored sections ...), in either direction, i.e. also
   for every follow-up negotiation that adds media or swaps the offering side - provided
     - the capability tables pass the executable sanity check `tables_ok` (evaluated on the real
       CODECS / HEADER_EXTENSIONS by every run of this check),
     - codec preferences are capability records of the transceiver's kind (`drawn`), each non-empty
       preference list names at least one real (non-RTX) codec (`has_real`), and
     - same-kind transceivers on opposite sides share a preferred real codec unless one of them has no
       preferences (`compatible`) - otherwise "no codec in common" is the specified outcome.
   Proved on the model of the REPAIRED code (fixed = true); the code as found violates it, see the two
   `_refuted_unrepaired` theorems below. *)
Theorem C03_exchange_succeeds : forall T pol_a pol_b steps a b,
  tables_ok T = true ->
  run_session true T (init_pc pol_a) (init_pc pol_b) steps = Ok (a, b) ->
  prefs_drawn T a -> prefs_drawn T b ->
  (prefs_compat a b -> exists x, exchange true T a b = Ok x) /\
  (prefs_compat b a -> exists x, exchange true T b a = Ok x).
Proof.
  intros T pol_a pol_b steps a b HT H Da Db.
  destruct (run_session_wf true T steps _ _ _ _ H (wf_init T pol_a) (wf_init T pol_b) eq_refl) as [Wa [Wb Hs]].
  split; intro Hc.
  - exact (exchange_ok T a b HT Wa Wb Hs Da Db Hc).
  - exact (exchange_ok T b a HT Wb Wa (eq_sym Hs) Db Da Hc).
Qed.
Print Assumptions C03_exchange_succeeds.

(* the invariant behind it: along every session both connections stay well-formed (transceivers, mids, m-line
   indices, sctp, transports aligned with the current m-sections) and keep the same m-section list *)
Theorem C03_session_invariant : forall T pol_a pol_b steps a b,
  run_session true T (init_pc pol_a) (init_pc pol_b) steps = Ok (a, b) -> wf T a /\ wf T b /\ S a = S b.
Proof.
  intros T pol_a pol_b steps a b H.
  exact (run_session_wf true T steps _ _ _ _ H (wf_init T pol_a) (wf_init T pol_b) eq_refl).
Qed.
Print Assumptions C03_session_invariant.

(* ======================= non-vacuity ======================= *)
Definition ex_opus : codec := mkCodec [97;117;100;105;111] [111;112;117;115] 48000 (Some 2) 96 [] [].
Definition ex_pcmu : codec := mkCodec [97;117;100;105;111] [80;67;77;85] 8000 (Some 1) 0 [] [].
Definition ex_vp8 : codec := mkCodec [118;105;100;101;111] [86;80;56] 90000 None 97
                                     [([110;97;99;107], None)] [].
Definition ex_rtx : codec := mkCodec [118;105;100;101;111] [114;116;120] 90000 None 98 [] [(key_apt, PInt 97)].
Definition ex_tables : tables :=
  mkTables [ex_opus; ex_pcmu] [ex_vp8; ex_rtx]
           [mkExt 1 [109;105;100]] [mkExt 1 [109;105;100]; mkExt 3 [97;98;115]].

Example C03_example_tables_ok : tables_ok ex_tables = true.
Proof. vm_compute. reflexivity. Qed.

(* a remote list with remapped payload types: the model accepts VP8 under the remote type and keeps the RTX *)
Example C03_example_common :
  find_common_codecs [ex_vp8; ex_rtx]
     [mkCodec [118;105;100;101;111] [86;80;56] 90000 None 120 [([110;97;99;107], None); ([120], None)] [];
      mkCodec [118;105;100;101;111] [114;116;120] 90000 None 121 [] [(key_apt, PInt 120)]]
  = Ok [mkCodec [118;105;100;101;111] [86;80;56] 90000 None 120 [([110;97;99;107], None)] [];
        mkCodec [118;105;100;101;111] [114;116;120] 90000 None 121 [] [(key_apt, PInt 120)]].
Proof. vm_compute. reflexivity. Qed.

(* a session reaching a second exchange with the roles swapped: the hypotheses of
   C03_answer_mirrors_offer are satisfiable and the exchange returns Ok *)
Definition ex_session_check : bool :=
  match run_session true ex_tables (init_pc 0) (init_pc 2)
          [StepA (OpAddTrack 0); StepA (OpAddTransceiver 1 SendOnly true); StepA OpDataChannel;
           StepB (OpAddTrack 1); NegotiateAB; StepB (OpAddTransceiver 0 RecvOnly false)] with
  | Ok (a, b) =>
      match exchange true ex_tables b a with
      | Ok x => Nat.eqb (length (d_media (x_offer x))) 4
      | _ => false
      end
  | _ => false
  end.
Example C03_example_session : ex_session_check = true.
Proof. vm_compute. reflexivity. Qed.

(* the preference hypotheses of C03_exchange_succeeds are satisfiable with non-empty preference lists *)
Example C03_example_prefs :
  let pa := [mkCap [118;105;100;101;111] [86;80;56] 90000 None []] in
  drawn (CODECS ex_tables 1) pa /\ has_real pa /\ compatible pa pa /\ compatible pa [].
Proof.
  cbn. split; [|split; [|split]].
  - intros p [<-|[]]. cbn. left. reflexivity.
  - intros _. eexists. split; [left; reflexivity | reflexivity].
  - right. right. eexists. split; [left; reflexivity|]. split; [left; reflexivity | reflexivity].
  - right. left. reflexivity.
Qed.

(* ======================= the code as found (fixed = false) violates the full statement ======================= *)
(* Design section 7 item 15: the answerer owns a transceiver whose kind the offer does not contain;
   setLocalDescription(answer) raises ValueError (replayed on the implementation: corpus/C03.jsonl,
   first case; repaired by the first fix commit). *)
Definition witness_direction : res exchanged :=
  match run_session false ex_tables (init_pc 0) (init_pc 0) [StepA (OpAddTrack 0); StepB (OpAddTransceiver 1 SendRecv false)] with
  | Ok (a, b) => exchange false ex_tables a b
  | _ => Crash
  end.
Theorem C03_exchange_succeeds_refuted_unrepaired : witness_direction = ValueErr.
Proof. vm_compute. reflexivity. Qed.
Print Assumptions C03_exchange_succeeds_refuted_unrepaired.

(* Found by this check: a max-bundle answerer that created its video transceiver beforehand and receives
   the offer [audio, video]: the exchange returns Ok but setRemoteDescription stopped and discarded the
   only transport the answerer has (second fix commit). *)
Definition witness_bundle : bool :=
  match run_session false ex_tables (init_pc 0) (init_pc 2) [StepA (OpAddTrack 0); StepA (OpAddTrack 1); StepB (OpAddTrack 1)] with
  | Ok (a, b) =>
      match exchange false ex_tables a b with
      | Ok x => forallb (fun t => negb (tr_live t)) (p_transports (x_b x)) && negb (Nat.eqb (length (p_trs (x_b x))) 0)
      | _ => false
      end
  | _ => false
  end.
Theorem C03_bundle_keeps_transport_refuted_unrepaired : witness_bundle = true.
Proof. vm_compute. reflexivity. Qed.
Print Assumptions C03_bundle_keeps_transport_refuted_unrepaired.

(* the same two witnesses on the repaired code *)
Example C03_witnesses_repaired :
  (match run_session true ex_tables (init_pc 0) (init_pc 0) [StepA (OpAddTrack 0); StepB (OpAddTransceiver 1 SendRecv false)] with
   | Ok (a, b) => match exchange true ex_tables a b with Ok _ => true | _ => false end
   | _ => false end) = true /\
  (match run_session true ex_tables (init_pc 0) (init_pc 2) [StepA (OpAddTrack 0); StepA (OpAddTrack 1); StepB (OpAddTrack 1)] with
   | Ok (a, b) => match exchange true ex_tables a b with
                  | Ok x => forallb tr_live (p_transports (x_b x))
                  | _ => false end
   | _ => false end) = true.
Proof. split; vm_compute; reflexivity. Qed.
