(* C02 -- placeholder while proofs are being written *)
From Coq Require Import ZArith List Bool.
From AV Require Import Model.SctpTx.
Theorem C02_stub : forall s : tx, s = s.
Proof. intros; reflexivity. Qed.
Print Assumptions C02_stub.
