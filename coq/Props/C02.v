(* C02 -- data channel traffic always drains: the no-deadlock invariants of the sender.
   Property theorems only; proofs in Proof/SctpTxP.v.

   The sender model (Model/SctpTx.v) takes ANY list of inputs: messages handed to
   _send (fragments with non-negative sizes), SACK chunks with ANY cumulative TSN and
   ANY gap blocks (duplicated, reordered, stale, nonsensical ones included -- that is
   what loss / duplication / reordering of acknowledgement packets produces), T3
   expiries at any moment it is armed, and the deferred _transmit task at any moment.
   Lost DATA packets need no input of their own: the chunk simply stays outstanding. *)
From Coq Require Import ZArith List Bool.
From AV Require Import Gen.SctpConst Model.SctpTx Proof.SctpTxP.
Import ListNotations.
Local Open Scope Z_scope.

(* 1. Flight-size accounting never drifts upward: in every reachable state the flight
   size is between 0 and the bytes of the chunks that really are in flight (sent, not
   gap-acked, not marked for retransmission, not abandoned); in particular it is 0
   whenever nothing is outstanding, and the congestion window never drops below one
   MTU -- so the window test of _transmit cannot stay shut with nothing outstanding. *)
Theorem C02_flight_size : forall tsn rwnd ins, Forall wf_input ins ->
  let s := fst (run (init tsn rwnd) ins) in
  MTU <= cwnd s /\ 0 <= flight s <= fsum (sentq s) /\ (sentq s = [] -> flight s = 0).
Proof.
  intros tsn rwnd ins H s. pose proof (run_inv ins (init tsn rwnd) (inv_init tsn rwnd) H) as I. fold s in I.
  split; [exact (i_cw s I)|]. split; [exact (i_fl s I)|].
  intros E. pose proof (i_fl s I) as F. rewrite E in F. cbn in F. apply Z.le_antisymm; tauto.
Qed.
Print Assumptions C02_flight_size.

(* 2. No deadlock: in every reachable state, if anything is still outstanding or
   queued then the retransmission timer is armed or a transmit task is scheduled; and
   queued data never waits behind an empty sent queue. *)
Theorem C02_no_deadlock : forall tsn rwnd ins, Forall wf_input ins ->
  let s := fst (run (init tsn rwnd) ins) in
  (sentq s <> [] -> t3 s = true \/ pending_tx s = true) /\
  (outq s <> [] -> sentq s <> [] \/ pending_tx s = true) /\
  (sentq s <> [] \/ outq s <> [] -> t3 s = true \/ pending_tx s = true).
Proof.
  intros tsn rwnd ins H s. pose proof (run_inv ins (init tsn rwnd) (inv_init tsn rwnd) H) as I. fold s in I.
  assert (A : sentq s <> [] -> t3 s = true \/ pending_tx s = true).
  { intros Hne. destruct (i_t3 s I Hne) as [X|[X _]]; auto. }
  split; [exact A|]. split; [exact (i_oq s I)|].
  intros [X|X]; [now apply A|]. destruct (i_oq s I X) as [Y|Y]; [now apply A|now right].
Qed.
Print Assumptions C02_no_deadlock.

(* 3. The invariant is inductive for single steps from ANY state satisfying it (not
   only from the initial one) -- this is what lets a fault history of any length be
   followed by a fault-free suffix. *)
Theorem C02_step_invariant : forall s i, inv s -> wf_input i -> inv (fst (step s i)).
Proof. exact step_inv. Qed.
Print Assumptions C02_step_invariant.

(* PARTIAL.  Proved: the sender can never reach a state with work left and nothing
   armed (the three stall mechanisms repaired in /repo -- flight-size drift, lost
   FORWARD-TSN, orphan fragments -- are exactly violations of these invariants or of
   C06).  NOT proved: termination of the healing rounds ("within bounded time both
   endpoints are quiescent").  That needs the composition of two endpoints with a
   fair network and a progress measure; it is observed by the two-endpoint simulator
   (fault prefix, then fault-free delivery and timer firings until quiescence) on
   every run.  Real time (RTO values) is outside every theorem. *)

(* non-vacuity: 5 chunks, SACKs with a gap report three times -> fast retransmit,
   then T3, then everything acknowledged: the invariant's hypotheses are met and the
   run ends quiescent *)
Example C02_example :
  let c t := mkSc t 1 0 false true true 1200 false false false 0 0 None None in
  let ins := [ISendMsg [c 10; c 11; c 12]; ISendMsg [c 13; c 14];
              ISack 10 [(2, 2)] 0; ISack 10 [(2, 3)] 0; ISack 10 [(2, 4)] 0;
              IT3 5; IRunTransmit; ISack 14 [] 9] in
  Forall wf_input ins /\
  let s := fst (run (init 10 1048576) ins) in
  sentq s = [] /\ outq s = [] /\ flight s = 0 /\ t3 s = false.
Proof.
  cbv zeta. split.
  - repeat constructor; unfold bok; cbn; try reflexivity; discriminate.
  - vm_compute. repeat split.
Qed.
