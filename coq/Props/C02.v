(* C02 -- data channel traffic always drains: the no-deadlock invariants of the sender.
   Property theorems only; proofs in Proof/SctpTxP.v, Proof/SctpTxLiveP.v and Proof/SctpLoopP.v.

   The sender model (Model/SctpTx.v) takes ANY list of inputs: messages handed to
   _send (fragments with non-negative sizes), SACK chunks with ANY cumulative TSN and
   ANY gap blocks (duplicated, reordered, stale, nonsensical ones included -- that is
   what loss / duplication / reordering of acknowledgement packets produces), T3
   expiries at any moment it is armed, and the deferred _transmit task at any moment.
   Lost DATA packets need no input of their own: the chunk simply stays outstanding. *)
From Coq Require Import ZArith List Bool.
From AV Require Proof.SctpDupP Model.SctpRecv Proof.SctpLoopP Model.Rto Proof.RtoP Proof.SctpClosedLoopP.
From AV Require Import Gen.SctpConst Model.SctpTx Proof.SctpTxP Proof.SctpTxLiveP.
Import ListNotations.
Local Open Scope Z_scope.

(* 1. Flight-size accounting never drifts upward: in every reachable state the flight
   size is between 0 and the bytes of the chunks that really are in flight (sent, not
   gap-acked, not marked for retransmission, not abandoned); in particular it is 0
   whenever nothing is outstanding, and the congestion window never drops below one
   MTU -- so the window test of _transmit cannot stay shut with nothing outstanding. *)
Theorem C02_flight_size : forall tsn rwnd ins, Forall wf_input ins ->
  let s := fst (run (init tsn rwnd) ins) in
  MTU <= cwnd s /\ 0 <= flight s <= fsum (sentq s) /\ (sentq s = [] -> flight s = 0).
Proof.
  intros tsn rwnd ins H s. pose proof (run_inv ins (init tsn rwnd) (inv_init tsn rwnd) H) as I. fold s in I.
  split; [exact (i_cw s I)|]. split; [exact (i_fl s I)|].
  intros E. pose proof (i_fl s I) as F. rewrite E in F. cbn in F. apply Z.le_antisymm; tauto.
Qed.
Print Assumptions C02_flight_size.

(* 2. No deadlock: in every reachable state, if anything is still outstanding or
   queued then the retransmission timer is armed or a transmit task is scheduled; and
   queued data never waits behind an empty sent queue. *)
Theorem C02_no_deadlock : forall tsn rwnd ins, Forall wf_input ins ->
  let s := fst (run (init tsn rwnd) ins) in
  (sentq s <> [] -> t3 s = true \/ pending_tx s = true) /\
  (outq s <> [] -> sentq s <> [] \/ pending_tx s = true) /\
  (sentq s <> [] \/ outq s <> [] -> t3 s = true \/ pending_tx s = true).
Proof.
  intros tsn rwnd ins H s. pose proof (run_inv ins (init tsn rwnd) (inv_init tsn rwnd) H) as I. fold s in I.
  assert (A : sentq s <> [] -> t3 s = true \/ pending_tx s = true).
  { intros Hne. destruct (i_t3 s I Hne) as [X|[X _]]; auto. }
  split; [exact A|]. split; [exact (i_oq s I)|].
  intros [X|X]; [now apply A|]. destruct (i_oq s I X) as [Y|Y]; [now apply A|now right].
Qed.
Print Assumptions C02_no_deadlock.

(* 3. The invariant is inductive for single steps from ANY state satisfying it (not
   only from the initial one) -- this is what lets a fault history of any length be
   followed by a fault-free suffix. *)
Theorem C02_step_invariant : forall s i, inv s -> wf_input i -> inv (fst (step s i)).
Proof. exact step_inv. Qed.
Print Assumptions C02_step_invariant.

(* 4. No reachable sender state is wedged.  After ANY history -- messages handed to _send
   with the next TSNs (wf_ord: inside a window of N < 2^31 TSNs after `base`), SACKs with any
   32-bit cumulative TSN and any gap blocks (every loss / duplication / reordering of
   acknowledgements, stale and nonsensical ones), T3 expiries, transmit runs -- the
   fault-free continuation `drain` (the peer acknowledges the last TSN sent; the pending
   transmit task runs) reaches quiescence within 2 * (outstanding + queued) inputs: sent
   queue and outbound queue empty, flight size 0.  So no finite fault history can leave the
   sender permanently unable to make progress.  (The proof is an order invariant: the TSNs of
   sent queue ++ outbound queue are the consecutive run after max(last SACKed, advanced ack
   point); an acceptable SACK never acknowledges beyond what was sent -- the guard repaired
   in /repo -- so it pops a prefix and the measure strictly decreases.) *)
Theorem C02_never_wedged : forall base N t rw ins,
  SctpDupP.r32 base -> 0 <= N < 2147483648 -> SctpDupP.inw base N (tsn_minus_one t) ->
  Forall wf_input ins -> wf_ord_run base N (init t rw) ins ->
  let s := fst (run (init t rw) ins) in
  let cont := drain (2 * length (sentq s ++ outq s)) s in
  let s' := fst (run s cont) in
  Forall wf_input cont /\ sentq s' = [] /\ outq s' = [] /\ flight s' = 0.
Proof. exact never_wedged. Qed.
Print Assumptions C02_never_wedged.

(* 5. The order invariant itself, for every reachable state. *)
Theorem C02_tsn_order : forall base N t rw ins,
  SctpDupP.r32 base -> 0 <= N < 2147483648 -> SctpDupP.inw base N (tsn_minus_one t) ->
  wf_ord_run base N (init t rw) ins -> ord base N (fst (run (init t rw) ins)).
Proof. intros base N t rw ins Hb HN Ht Hw. exact (run_ord base N Hb HN ins _ (ord_init base N t rw Ht) Hw). Qed.
Print Assumptions C02_tsn_order.

(* 6. The acknowledgement assumed in theorem 4 is the one the RECEIVER MODEL sends.  Let the
   chunks outstanding at the sender (any reachable sender state, order invariant of theorem 5)
   arrive in order, none lost, at a receiver (Model/SctpRecv.v, the model tied to
   _receive_data_chunk / _send_sack) that has received everything before them: its last SACK
   carries the highest TSN sent and no gap blocks -- exactly the ISack input of `drain`. *)
Module R := AV.Model.SctpRecv.
Theorem C02_ideal_sack_is_the_receivers : forall base N (stx : tx) (cs : list R.chunk) (r : R.rstate),
  SctpDupP.r32 base -> 0 <= N < 2147483648 -> ord base N stx -> sentq stx <> [] ->
  map R.tsn cs = tsns (sentq stx) -> R.last_rx r = floor stx -> R.misordered r = [] ->
  Forall (fun o => o <> R.OutAssert) (snd (R.rrun r (map R.EvData cs))) ->
  exists ms rw dups,
    List.last (snd (R.rrun r (map R.EvData cs))) R.OutAssert =
    R.OutOk ms (Some (R.mkSack (highest_assigned stx) rw [] dups)).
Proof. exact AV.Proof.SctpLoopP.ideal_sack_is_the_receivers. Qed.
Print Assumptions C02_ideal_sack_is_the_receivers.

(* 7. Bounded time: the delay every SCTP timer (T1, T2, T3) is armed with.  _update_rto is
   modelled bit-exactly with primitive IEEE-754 floats (Model/Rto.v).  After ANY history of
   round-trip measurements - any floats: negative (the wall clock stepping back), zero, huge,
   infinite, NaN - the retransmission timeout is exactly SCTP_RTO_MIN = 1, exactly SCTP_RTO_MAX =
   60, or a number r with 1 < r and not 60 < r; before the first measurement it is 3.  So a
   retransmission or handshake timer fires between 1 and 60 seconds after it is armed, never
   immediately in a busy loop and never "never".  (Print Assumptions lists the kernel's
   primitive float operations; they are not axioms.) *)
Module RT := AV.Model.Rto. Module RP := AV.Proof.RtoP.
Theorem C02_rto_bounded : forall rs s, Forall (fun s' => RP.rto_ok (RT.rto s')) (RT.rto_run s rs).
Proof. exact RP.rto_always_bounded. Qed.
Print Assumptions C02_rto_bounded.

(* 8. THE CLOSED LOOP of sender and receiver once the network has stopped losing and reordering
   datagrams.  s: ANY reachable sender state (after any history of sends, SACKs with any
   cumulative TSN and gap blocks, T3 expiries, transmit runs).  r: a receiver in sync with it - it
   has received everything before the sender's outstanding chunks (cumulative TSN = the sender's
   floor, nothing out of order).  `loop`: as long as anything is outstanding, all outstanding
   chunks arrive in order (as ANY wire images carrying their TSNs), the RECEIVER MODEL processes
   them, its own last SACK goes back, the SENDER MODEL processes it (at any clock value) and
   transmits what its window allows; when nothing is outstanding but something is queued the
   pending transmit task runs.  Within 2 * (outstanding + queued) rounds: nothing outstanding,
   nothing queued, flight size 0; the receiver is again in sync and its cumulative TSN is the
   last TSN that was outstanding or queued - it has received everything.  (With C01_complete_delivery
   everything that arrived has been delivered.)  This is "once the network stops losing datagrams,
   everything sent is delivered and both ends return to quiescence" for one direction of data
   under in-order delivery; loss and reordering before that point are the arbitrary history. *)
Module CL := AV.Proof.SctpClosedLoopP.
Theorem C02_closed_loop : forall base N t rw ins (wire : sc -> R.chunk) now r,
  SctpDupP.r32 base -> 0 <= N < 2147483648 -> SctpDupP.inw base N (tsn_minus_one t) ->
  Forall wf_input ins -> wf_ord_run base N (init t rw) ins ->
  (forall c, R.tsn (wire c) = c_tsn c) ->
  let s := fst (run (init t rw) ins) in
  CL.sync base N s r ->
  let fin := CL.loop wire now (2 * length (sentq s ++ outq s)) s r in
  sentq (fst fin) = [] /\ outq (fst fin) = [] /\ flight (fst fin) = 0 /\
  CL.sync base N (fst fin) (snd fin) /\ SctpDupP.off base (R.last_rx (snd fin)) = top base s.
Proof. exact CL.closed_loop_reachable. Qed.
Print Assumptions C02_closed_loop.

(* PARTIAL.  Proved: no deadlock state (1-3); from every reachable state, drainage by the
   fault-free continuation with an ideal peer (4); the ideal peer's answer is the receiver
   model's answer under in-order loss-free delivery (6); the closed loop of sender model and
   receiver model for one direction under in-order delivery (8).  NOT proved: delayed SACKs (the
   model receiver answers every arrival), reordering inside the fault-free suffix, both directions
   and DCEP / RE-CONFIG traffic at once, partially reliable chunks abandoned during the suffix (a
   FORWARD-TSN would have to travel too); these are observed by the
   two-endpoint simulator (fault prefix, then fault-free delivery and timer firings until
   quiescence) on every run.  Of real time only the range of the timer delays is a theorem (7);
   when the timers actually fire is the event loop's business. *)

(* non-vacuity: 5 chunks, SACKs with a gap report three times -> fast retransmit,
   then T3, then everything acknowledged: the invariant's hypotheses are met and the
   run ends quiescent *)
Example C02_example :
  let c t := mkSc t 1 0 false true true 1200 false false false 0 0 None None in
  let ins := [ISendMsg [c 10; c 11; c 12]; ISendMsg [c 13; c 14];
              ISack 10 [(2, 2)] 0; ISack 10 [(2, 3)] 0; ISack 10 [(2, 4)] 0;
              IT3 5; IRunTransmit; ISack 14 [] 9] in
  Forall wf_input ins /\
  let s := fst (run (init 10 1048576) ins) in
  sentq s = [] /\ outq s = [] /\ flight s = 0 /\ t3 s = false.
Proof.
  cbv zeta. split.
  - repeat constructor; unfold bok; cbn; try reflexivity; discriminate.
  - vm_compute. repeat split.
Qed.

(* non-vacuity of theorem 8 (Proof/SctpClosedLoopP.v): five chunks sent, the first acknowledged with a
   gap report, T3 expired: four chunks outstanding, the receiver has the first; the loop ends with
   empty queues, flight size 0 and the receiver's cumulative TSN at 14 *)
Example C02_closed_loop_example : CL.closed_loop_example_statement.
Proof. exact CL.closed_loop_example. Qed.

(* non-vacuity of theorem 7 (Proof/RtoP.v): measurements 0.25 s, 3 s, 1000 s, -5 s give the timeouts
   1, 3.71875, 60, 60: the three cases of the bound *)
Example C02_rto_example : RP.rto_example_statement.
Proof. exact RP.rto_example. Qed.

(* non-vacuity of theorem 4: after sends, a gap report and a T3 expiry, three inputs of the
   continuation empty the queues *)
Example C02_drain_example :
  let c t := mkSc t 1 0 false true true 1200 false false false 0 0 None None in
  let ins := [ISendMsg [c 10; c 11; c 12]; ISendMsg [c 13; c 14; c 15; c 16; c 17]; ISack 10 [(2, 2)] 0; IT3 5] in
  wf_ord_run 9 100 (init 10 1048576) ins /\
  let s := fst (run (init 10 1048576) ins) in
  (length (sentq s), length (outq s)) = (5, 2)%nat /\
  length (drain (2 * length (sentq s ++ outq s)) s) = 3%nat.
Proof. cbv zeta. split; [|vm_compute; split; reflexivity]. vm_compute. intuition (try discriminate). Qed.

