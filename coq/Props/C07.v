(* C07 -- placeholder while the models are being tied to the implementation *)
From Coq Require Import ZArith List Bool.
From AV Require Import Lib.Bytes Lib.RtpX Model.Rtp Model.Rtcp.
Theorem C07_stub : True. Proof. exact I. Qed.
Print Assumptions C07_stub.
