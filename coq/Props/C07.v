(* C07 -- RTP and RTCP packets round-trip through serialisation with exact field
   semantics.  Property theorems only; proofs live in Proof/Rtcp*P.v and Proof/Rtp*P.v.
   Models: Model/Rtcp.v, Model/Rtp.v (aiortc/rtp.py after the three C07 repairs).
   Well-formedness predicates (every field within its wire range):
     wf_rtcp   Proof/RtcpPktP.v      wf_ext, one_ok   Proof/RtpP.v
     ids_ok, wf_hext  Proof/RtpHextP.v      wf_rtp    Proof/RtpPktP.v *)
From Coq Require Import ZArith List Bool Lia.
From AV Require Import Lib.Bytes Lib.RtpX Gen.RtpConst Model.Rtcp Model.Rtp.
From AV Require Import Proof.RtcpP Proof.RtcpPktP Proof.RtcpNackP Proof.RtcpTotalP.
From AV Require Import Proof.RtpP Proof.RtpHextP Proof.RtpPktP Proof.RtpTotalP.
Import ListNotations.
Local Open Scope Z_scope.

(* ---------------------------------------------------------------- cumulative loss *)
(* clamp saturates at the signed 24-bit range and is the identity inside it; the
   clamped value survives pack / unpack exactly. *)
Theorem C07_packets_lost : forall n,
  (-8388608 <= rtp_clamp_packets_lost n < 8388608) /\
  (-8388608 <= n < 8388608 -> rtp_clamp_packets_lost n = n) /\
  (8388608 <= n -> rtp_clamp_packets_lost n = 8388607) /\
  (n < -8388608 -> rtp_clamp_packets_lost n = -8388608) /\
  exists b, pack_packets_lost (rtp_clamp_packets_lost n) = Ok b /\
            unpack_packets_lost b = Ok (rtp_clamp_packets_lost n).
Proof.
  intros n. split; [apply clamp_range|]. split; [apply clamp_id|]. split; [apply clamp_high|].
  split; [apply clamp_low|apply packets_lost_clamped].
Qed.
Print Assumptions C07_packets_lost.

(* ---------------------------------------------------------------- REMB *)
(* every bitrate the 6-bit exponent can carry (b < 2^81) and every list of <= 255
   SSRCs: the decoded bitrate never exceeds b, its relative error is below 2^-17,
   values below 2^18 are exact, the SSRC list is preserved. *)
Theorem C07_remb : forall b ssrcs,
  0 <= b < 2 ^ 81 -> (length ssrcs <= 255)%nat -> Forall (fun x => 0 <= x < 4294967296) ssrcs ->
  exists data b',
    pack_remb_fci b ssrcs = Ok data /\ bytes_ok data /\ unpack_remb_fci data = Ok (b', ssrcs) /\
    b' <= b /\ (0 < b -> (b - b') * 131072 < b) /\ (b < 262144 -> b' = b).
Proof. exact remb_roundtrip. Qed.
Print Assumptions C07_remb.

(* ---------------------------------------------------------------- generic NACK *)
(* one FCI entry (pid, blp) denotes pid and (pid + i + 1) mod 2^16 for every set bit i *)
Theorem C07_nack_entry : forall pid blp x,
  0 <= pid < 65536 -> 0 <= blp < 65536 ->
  nack_parse (be16 pid ++ be16 blp) = Ok (nack_expand pid blp) /\
  (In x (nack_expand pid blp) <->
   x = pid \/ exists d, 0 <= d < 16 /\ Z.testbit blp d = true /\ x = (pid + d + 1) mod 65536).
Proof.
  intros pid blp x Hp Hb. split; [now apply nack_entry_parse|apply nack_expand_spec].
Qed.
Print Assumptions C07_nack_entry.

(* every list of 16-bit sequence numbers (any order, duplicates, straddling
   65535 -> 0): serialising and parsing yields 16-bit numbers denoting the same set *)
Theorem C07_nack_set : forall fmt ssrc media lost,
  0 <= fmt <= 31 -> RtcpPktP.is_u32 ssrc -> RtcpPktP.is_u32 media ->
  Forall is_seq16 lost -> zlen lost <= 65532 ->
  exists b lost',
    rtcp_bytes (Rtpfb fmt ssrc media lost) = Ok b /\
    rtcp_parse b = Ok [Rtpfb fmt ssrc media lost'] /\
    Forall is_seq16 lost' /\ (forall x, In x lost' <-> In x lost).
Proof. exact nack_set_roundtrip. Qed.
Print Assumptions C07_nack_set.

(* ---------------------------------------------------------------- RTCP compound packets *)
(* every list of well-formed SR / RR / SDES / BYE / RTPFB / PSFB packets; for RTPFB
   equality of the `lost` LIST needs `nack_canonical` (each number lands on a higher
   bit of the open FCI entry or opens a new one); C07_nack_canonical_lists below
   shows that numerically ascending lists -- what the receiver passes -- and lists in
   sequence order across the wrap are canonical.  Other lists keep their SET
   (C07_nack_set). *)
Theorem C07_rtcp_roundtrip : forall ps,
  Forall wf_rtcp ps ->
  exists b, rtcp_bytes_all ps = Ok b /\ bytes_ok b /\ rtcp_parse b = Ok ps.
Proof. exact rtcp_roundtrip. Qed.
Print Assumptions C07_rtcp_roundtrip.

Theorem C07_nack_canonical_lists : forall pid rest,
  0 <= pid < 65536 -> nack_ascending pid rest \/ nack_chain pid rest -> nack_canonical (pid :: rest).
Proof.
  intros pid rest Hp [H|H]; [now apply nack_canonical_ascending|now apply nack_canonical_chain].
Qed.
Print Assumptions C07_nack_canonical_lists.

(* serialisation is injective on well-formed compound packets *)
Theorem C07_rtcp_injective : forall ps qs b,
  Forall wf_rtcp ps -> Forall wf_rtcp qs ->
  rtcp_bytes_all ps = Ok b -> rtcp_bytes_all qs = Ok b -> ps = qs.
Proof.
  intros ps qs b Hp Hq H1 H2.
  destruct (rtcp_roundtrip ps Hp) as (b1 & E1 & _ & P1). destruct (rtcp_roundtrip qs Hq) as (b2 & E2 & _ & P2).
  congruence.
Qed.
Print Assumptions C07_rtcp_injective.

(* the fuel given to the REMB exponent loop suffices for every bitrate *)
Theorem C07_remb_fuel : forall b ssrcs, pack_remb_fci b ssrcs <> OutOfFuel.
Proof. exact pack_remb_fci_fuel. Qed.
Print Assumptions C07_remb_fuel.

(* ---------------------------------------------------------------- header extensions *)
(* unpack (pack xs) = xs for every list of elements with ids 1..255 and values of
   0..255 bytes; the one-byte form is chosen iff every id <= 14 and every length is
   in 1..16; the value is padded to a multiple of 4 *)
Theorem C07_hdrext_roundtrip : forall xs,
  Forall wf_ext xs ->
  exists profile value,
    pack_header_extensions xs = Ok (profile, value) /\
    unpack_header_extensions profile value = Ok xs /\
    bytes_ok value /\ len value mod 4 = 0 /\ (length value <= 257 * length xs + 3)%nat /\
    (xs = [] -> value = []) /\ (xs <> [] -> value <> []) /\
    (xs <> [] -> profile = if forallb one_ok xs then 48862 else 4096) /\ 0 <= profile < 65536.
Proof. exact hdrext_pack_unpack. Qed.
Print Assumptions C07_hdrext_roundtrip.

(* get (set v) = v for all seven typed extensions at once, every id table with
   distinct ids in 1..255, every combination of present values *)
Theorem C07_hdrext_get_set : forall m v,
  ids_ok m -> wf_hext m v ->
  exists profile value,
    hext_set m v = Ok (profile, value) /\ hext_get m profile value = Ok v /\
    bytes_ok value /\ len value mod 4 = 0 /\ (length value <= 1802)%nat /\ 0 <= profile < 65536.
Proof. exact hext_get_set. Qed.
Print Assumptions C07_hdrext_get_set.

(* ---------------------------------------------------------------- RTP packets *)
(* every id table, every combination of extensions, any payload, any CSRC list of
   <= 15 entries, padding_size 0..255 with any padding bytes *)
Theorem C07_rtp_roundtrip : forall m p pad,
  ids_ok m -> wf_rtp m p pad ->
  exists b, rtp_serialize m p pad = Ok b /\ bytes_ok b /\ rtp_parse m b = Ok p.
Proof. exact rtp_roundtrip. Qed.
Print Assumptions C07_rtp_roundtrip.

Theorem C07_rtp_injective : forall m p q pad pad' b,
  ids_ok m -> wf_rtp m p pad -> wf_rtp m q pad' ->
  rtp_serialize m p pad = Ok b -> rtp_serialize m q pad' = Ok b -> p = q.
Proof.
  intros m p q pad pad' b Hm Hp Hq H1 H2.
  destruct (rtp_roundtrip m p pad Hm Hp) as (b1 & E1 & _ & P1).
  destruct (rtp_roundtrip m q pad' Hm Hq) as (b2 & E2 & _ & P2).
  congruence.
Qed.
Print Assumptions C07_rtp_injective.

(* ---------------------------------------------------------------- RTX *)
(* unwrap (wrap p) restores every field of p; wrap_rtx itself never carries
   padding_size (the RtpPacket constructor sets it to 0), hence the last field *)
Theorem C07_rtx_inverse : forall p pt seq ssrc_,
  0 <= sequence_number p < 65536 ->
  exists r, wrap_rtx p pt seq ssrc_ = Ok r /\
            payload_type r = pt /\ sequence_number r = seq /\ ssrc r = ssrc_ /\
            marker r = marker p /\ timestamp r = timestamp p /\
            unwrap_rtx r (payload_type p) (ssrc p) =
              Ok (mkRtp (marker p) (payload_type p) (sequence_number p) (timestamp p) (ssrc p)
                        (csrc p) (extensions p) (payload p) 0).
Proof. exact rtx_inverse. Qed.
Print Assumptions C07_rtx_inverse.

Theorem C07_rtx_inverse_exact : forall p pt seq ssrc_,
  0 <= sequence_number p < 65536 -> padding_size p = 0 ->
  exists r, wrap_rtx p pt seq ssrc_ = Ok r /\ unwrap_rtx r (payload_type p) (ssrc p) = Ok p.
Proof. exact rtx_inverse_exact. Qed.
Print Assumptions C07_rtx_inverse_exact.

(* ---------------------------------------------------------------- parsers are total (used by C05) *)
Theorem C07_parsers_total : forall m b,
  bytes_ok b ->
  benign (rtp_parse m b) /\ benign (rtcp_parse b) /\ benign (unpack_remb_fci b) /\
  (forall profile, benign (unpack_header_extensions profile b) /\ benign (hext_get m profile b)).
Proof.
  intros m b H. split; [now apply rtp_parse_total|]. split; [now apply rtcp_parse_total|].
  split; [now apply unpack_remb_fci_total|]. intros profile.
  split; [now apply unpack_header_extensions_total|now apply hdrext_get_total].
Qed.
Print Assumptions C07_parsers_total.

(* ---------------------------------------------------------------- non-vacuity *)
Definition ex_ids : ids := mkIds (Some 2) (Some 14) (Some 1) (Some 15) (Some 3) (Some 255) (Some 5).

Example C07_example_ids_ok : ids_ok ex_ids.
Proof.
  split.
  - intros k i. destruct k; cbn; intros [= <-]; lia.
  - intros k1 k2 i. destruct k1, k2; cbn; congruence.
Qed.

Definition ex_hext : hext :=
  mkHext (Some 16777215) (Some (true, 127)) (Some [97; 195; 169]) None (Some [104; 105])
         (Some (-8388608)) (Some 65535).

Example C07_example_wf_hext : wf_hext ex_ids ex_hext.
Proof.
  unfold wf_hext, ex_hext, ex_ids, present, text_ok. cbn.
  repeat split; try congruence; try lia; try (repeat constructor; unfold byte_ok; lia).
Qed.

Definition ex_rtp : rtp :=
  mkRtp 1 127 65535 4294967295 0 [1; 4294967295] ex_hext [1; 2; 3] 4.

Example C07_example_wf_rtp : wf_rtp ex_ids ex_rtp [9; 9; 9].
Proof.
  unfold wf_rtp, ex_rtp. cbn [marker payload_type sequence_number timestamp ssrc csrc extensions payload padding_size].
  unfold RtpPktP.is_u32.
  repeat split; try lia; try apply C07_example_wf_hext;
    try (repeat constructor; unfold byte_ok, RtpPktP.is_u32; lia).
  all: cbn; lia.
Qed.

Example C07_example_rtp_roundtrip :
  exists b, rtp_serialize ex_ids ex_rtp [9; 9; 9] = Ok b /\ rtp_parse ex_ids b = Ok ex_rtp.
Proof.
  destruct (C07_rtp_roundtrip ex_ids ex_rtp [9; 9; 9] C07_example_ids_ok C07_example_wf_rtp)
    as (b & H1 & _ & H2). eauto.
Qed.

(* a NACK list in sequence order across the wrap is canonical; a compound packet *)
Definition ex_rtcp : list rtcp :=
  [Rr 1 [mkRinfo 2 255 (-8388608) 4294967295 0 1 2];
   Sdes [(7, [(1, [97; 98]); (255, [])])];
   Rtpfb 1 3 4 [65534; 65535; 0; 1; 17; 20000];
   Psfb 15 3 4 [82; 69; 77; 66; 0; 0; 0; 0];
   Bye [5; 6]].

Example C07_example_nack_canonical : nack_canonical [65534; 65535; 0; 1; 17; 20000].
Proof. apply nack_canonical_chain; [lia|]. cbn [nack_chain]. lia. Qed.

Example C07_example_nack_sorted : nack_canonical [0; 1; 65534; 65535].
Proof. apply nack_canonical_ascending; [lia|]. cbn [nack_ascending]. lia. Qed.

Example C07_example_wf_rtcp : Forall wf_rtcp ex_rtcp.
Proof.
  unfold ex_rtcp. repeat apply Forall_cons; try apply Forall_nil; cbn [wf_rtcp]; unfold RtcpPktP.is_u32.
  - split; [lia|]. split; [|cbn [length]; lia]. repeat constructor; cbn; unfold RtcpPktP.is_u32; lia.
  - split; [|split; [cbn [length]; lia|cbn; lia]].
    repeat constructor; cbn [fst snd length]; unfold RtcpPktP.is_u32, byte_ok; lia.
  - split; [lia|]. split; [lia|]. split; [lia|]. split; [exact C07_example_nack_canonical|unfold zlen; cbn [length]; lia].
  - split; [lia|]. split; [lia|]. split; [lia|]. split; [repeat constructor; unfold byte_ok; lia|].
    split; [reflexivity|cbn; lia].
  - split; [|cbn [length]; lia]. repeat constructor; unfold RtcpPktP.is_u32; lia.
Qed.

Example C07_example_nack_wrap :
  rtcp_bytes_all [Rtpfb 1 3 4 [65534; 65535; 0; 1]] =
    Ok [129; 205; 0; 3; 0; 0; 0; 3; 0; 0; 0; 4; 255; 254; 0; 7] /\
  rtcp_parse [129; 205; 0; 3; 0; 0; 0; 3; 0; 0; 0; 4; 255; 254; 0; 7] =
    Ok [Rtpfb 1 3 4 [65534; 65535; 0; 1]].
Proof. split; vm_compute; reflexivity. Qed.
