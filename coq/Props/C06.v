(* C06 -- partially reliable channels drop only whole messages and never disturb others.
   Property theorems only; proofs in Proof/SctpC01P.v, SctpSendP.v, SctpPrP.v, SctpTxP.v, SctpFwdFrameP.v. *)
From Coq Require Import ZArith List Bool.
From AV Require Import Lib.Bytes Gen.Utils Gen.SctpConst Model.SctpRecv Model.SctpSend Model.SctpTx
  Proof.SctpRecvP Proof.SctpC01P Proof.SctpSendP Proof.SctpTxP Proof.SctpPrP Proof.SctpFwdFrameP.
From AV Require Proof.SctpDupP Proof.SctpOrderP Proof.SctpOnceFwdP Proof.SctpRestartP.
Import ListNotations.
Local Open Scope Z_scope.

(* 1. Safety under abandonment.  For ANY mix of messages on any streams (reliable or
   partially reliable, ordered or not), ANY initial TSN, and ANY receiver event list
   made of DATA chunks the sender produced (any loss / duplication / reordering) AND
   arbitrary FORWARD-TSN chunks (any cumulative TSN, any stream list -- including
   stale, duplicated and reordered ones): whatever is delivered is (stream, ppid, data)
   of a sent message -- never a splice, a fragment or a message of another stream. *)
Theorem C06_safety : forall t0 msgs base es,
  in32 t0 ->
  Forall (fun m => o_data m <> []) msgs ->
  Z.of_nat (total_frags msgs) <= SCTP_TSN_MODULO ->
  Forall (ev_ok (concat (send_msgs (mkS t0 []) msgs))) es ->
  Forall (fun o => Forall (fun d => exists m, In m msgs /\ d = (o_sid m, o_ppid m, o_data m)) (out_msgs o))
         (snd (rrun (rinit base) es)).
Proof.
  intros t0 msgs base es Ht Hne Htot Hes.
  set (sm := sent_of (mkS t0 []) msgs).
  assert (Hall : all_chunks sm = concat (send_msgs (mkS t0 []) msgs)).
  { unfold all_chunks, sm. now rewrite sent_of_frags. }
  rewrite <- Hall in Hes.
  pose proof (delivered_is_sent sm es (rinit base) (sent_of_ok _ _ Hne)
                (sent_of_tsn_inj (mkS t0 []) msgs Ht Htot) (chunks_in_rinit _ base) Hes) as H.
  eapply Forall_impl; [|exact H]. intros o Ho. eapply Forall_impl; [|exact Ho].
  intros d (m & Hm & ->). destruct (sent_of_msgs _ _ _ Hm) as (m' & H1 & -> & -> & ->). eauto.
Qed.
Print Assumptions C06_safety.

(* 2. Only whole messages are dropped.  When _maybe_abandon decides to abandon a chunk
   it marks every fragment of that message: backwards to the fragment carrying B,
   forwards to the fragment carrying E, and -- when the message is larger than the
   window and its tail has not been sent yet -- the unsent fragments as well (all of
   them are moved behind the sent queue as abandoned, so FORWARD-TSN covers them). *)
Theorem C06_whole_message_abandoned : forall fl pre cur post oq now,
  c_abandoned cur = false -> should_abandon cur now = true ->
  let '(ab, _, pre', cur', post', oq') := maybe_abandon fl pre cur post oq now in
  ab = true /\ c_abandoned cur' = true /\ c_retx cur' = false /\
  (c_first cur = false -> abandoned_until c_first pre') /\
  (c_last cur = false ->
     abandoned_until c_last post' /\
     (has c_last post = false -> Forall (fun c => c_abandoned c = true) post')).
Proof. exact maybe_abandon_whole_message. Qed.
Print Assumptions C06_whole_message_abandoned.

(* 3. In every reachable sender state _transmit hands only chunks that are not
   abandoned to the network: an abandoned message is never (re)sent, so it cannot
   reappear at the receiver as an orphan fragment. *)
Theorem C06_abandoned_never_sent : forall tsn rwnd ins, Forall wf_input ins ->
  let s := fst (run (init tsn rwnd) ins) in
  forall o t n, In o (snd (transmit s)) -> o = OData t n ->
  exists c, In c (sentq s ++ outq s) /\ c_tsn c = t /\ c_abandoned c = false.
Proof.
  intros tsn rwnd ins H s. apply transmit_never_sends_abandoned.
  exact (run_inv ins (init tsn rwnd) (inv_init tsn rwnd) H).
Qed.
Print Assumptions C06_abandoned_never_sent.

(* 4. Abandonment keeps the sender's no-deadlock invariant (C02): the flight size stays
   exact when sibling fragments leave the flight, and T3 stays armed while anything is
   outstanding -- the sender side of "never blocks other channels". *)
Theorem C06_sender_not_blocked : forall s i, inv s -> wf_input i -> inv (fst (step s i)).
Proof. exact step_inv. Qed.
Print Assumptions C06_sender_not_blocked.

(* 5. Non-interference at the receiver.  Processing ANY FORWARD-TSN (any cumulative TSN, any
   stream list) in ANY receiver state leaves every stream it does not name alone except for
   pruning: the expected stream sequence number is unchanged, nothing of that stream is
   delivered, and its reassembly queue afterwards is either identical or the old queue minus a
   prefix of chunks whose TSNs are at or below the FORWARD-TSN's own cumulative TSN -- chunks
   the sender has declared abandoned or knows to be acknowledged.  A queue whose chunks all
   lie beyond that TSN is untouched.  (The defect repaired in /repo -- pruning up to the
   consolidated cumulative TSN -- is exactly a violation of the last clause.) *)
Theorem C06_forward_tsn_other_streams : forall s cum strs id, ~ named strs id ->
  let s' := fst (receive_forward_tsn s cum strs) in
  let st := get_stream (streams s) id in
  let st' := get_stream (streams s') id in
  sseq_expected st' = sseq_expected st /\
  (reasm st' = reasm st \/ reasm st' = fst (prune_chunks (reasm st) cum)) /\
  (forall x, In x (reasm st) -> ~ In x (reasm st') -> uint32_gte cum (tsn x) = true).
Proof. exact forward_tsn_other_streams. Qed.
Print Assumptions C06_forward_tsn_other_streams.

(* 6. Duplicate-free under abandonment.  Same event lists as theorem 1 (sent DATA chunks in any
   order with repetitions and omissions, ARBITRARY FORWARD-TSN chunks in between), TSNs inside the
   window: the deliveries are the messages of pairwise different chunk runs, each the fragment
   list of one sent message -- whatever is delivered on a partially reliable channel is an
   exact copy of a sent message and no sent message is delivered twice. *)
Theorem C06_duplicate_free : forall base N t0 msgs es,
  SctpDupP.r32 base -> 0 <= N < 2147483648 -> in32 t0 ->
  Forall (fun m => o_data m <> []) msgs -> Z.of_nat (total_frags msgs) <= SCTP_TSN_MODULO ->
  Forall (SctpOnceFwdP.ev_in base N) es ->
  (forall c, In (EvData c) es -> In c (concat (send_msgs (mkS t0 []) msgs))) ->
  exists Ds : list (list (list chunk)),
    map out_msgs (snd (rrun (rinit base) es)) = map (map SctpOrderP.msgf) Ds /\
    NoDup (concat Ds) /\ Forall (fun f => In f (send_msgs (mkS t0 []) msgs)) (concat Ds).
Proof. intros base N t0 msgs es Hb HN. exact (SctpOnceFwdP.at_most_once_all base N Hb HN t0 msgs es). Qed.
Print Assumptions C06_duplicate_free.

(* 7. In order under abandonment.  M = the fragment lists of the messages sent on one ORDERED
   stream, in sending order (hypothesis wfM: the sender's numbering, discharged for the sender model
   by C01's sender lemma).  For every list of events on that stream that are admissible at the
   delivery point they meet -- a chunk of a message at or beyond it, not yet queued; or a
   FORWARD-TSN naming the stream as the sender builds it: the sequence number of a message near the
   delivery point, a cumulative TSN at or above every chunk of every message up to that one --
   the delivered messages are the messages of a STRICTLY INCREASING list of message indices: what
   a partially reliable ordered channel delivers comes out in sending order, nothing twice, with
   gaps exactly where messages were abandoned.  Covers stale complete messages that FORWARD-TSN
   lets through, queues blocked by orphan fragments until pruned, and the re-poll after pruning. *)
Module OP := AV.Proof.SctpOrderP.
Theorem C06_in_order_with_forward_tsn : forall base N, SctpDupP.r32 base -> 0 <= N < 2147483648 ->
  forall (M : list (list chunk)) (o : nat -> Z) (s0 : Z),
  (forall j f, nth_error M j = Some f ->
     f <> [] /\ o j + Z.of_nat (length f) <= o (S j) /\ forall i c, nth_error f i = Some c -> OP.chunk_ok base N o s0 j i f c) ->
  forall evs k Q, OP.qinv base M k Q -> OP.sokF base N M s0 k Q evs ->
  exists J, OP.srunF Q (OP.ssn s0 k) evs = Some (OP.msgs_of M J) /\ OP.incr_from k J.
Proof. exact OP.fwd_ordered. Qed.
Print Assumptions C06_in_order_with_forward_tsn.

(* PARTIAL.  Non-interference ("abandoning on channel A never loses / reorders / blocks
   channel B") and recovery ("messages sent after the network heals are delivered")
   are end-to-end statements over two endpoints and a network; they are NOT theorems.
   They are checked on the real code by the two-endpoint simulator (mixed channel
   kinds, faults, healing, a probe message on every channel).  Six stall / loss
   mechanisms found that way were genuine defects and are repaired in /repo (prune
   bound, FORWARD-TSN retransmission, unsent sibling fragments, sequence number moved
   backwards, delivery blocked by pruned fragments, flight-size drift). *)

(* 8. A gap does not hide the next message on an unordered channel.  When the reassembly scan
   (pop_messages) meets a TSN gap inside a run of unordered fragments - fragments of a message the
   sender has abandoned, say - it gives that run up and looks at the very chunk at which the gap
   showed again: if that chunk is a complete unordered message it is delivered in the same pass,
   whatever was collected before it, whatever follows.  (Before the repair in /repo the chunk was
   skipped: such a message stayed in the queue, and after the FORWARD-TSN had pruned the fragments
   nothing looked at the queue again - `messages sent afterwards are delivered again` failed.) *)
Theorem C06_message_after_gap_delivered : forall kept r e c rest seq,
  (tsn c =? e) = false -> unordered c = true -> first c = true -> last c = true ->
  exists l s ms,
    pop_loop kept (Some (r, e, false)) (c :: rest) seq = (l, s, (sid c, ppid c, join_data [c]) :: ms).
Proof. exact AV.Proof.SctpRestartP.message_after_gap_delivered. Qed.
Print Assumptions C06_message_after_gap_delivered.

Example C06_example :
  let c t f l := mkSc t 1 0 false f l 1200 false false false 0 1 (Some 0) None in
  let '(ab, _, pre', cur', post', oq') :=
      maybe_abandon 3600 [c 10 true false] (c 11 false false) [c 12 false false]
                    [mkSc 13 1 0 false false true 500 false false false 0 0 (Some 0) None] 0 in
  ab = true /\ map c_abandoned pre' = [true] /\ c_abandoned cur' = true /\
  map c_abandoned post' = [true; true] /\ map c_tsn post' = [12; 13] /\ oq' = [].
Proof. vm_compute. repeat split. Qed.
