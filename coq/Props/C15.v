(* C15 -- receive-side bandwidth estimation never fails and stays within its
   safety bounds.  Property theorems only; proofs live in Proof/RateCounterP.v,
   Proof/AimdP.v, Proof/RbeP.v, Proof/RbeRembP.v, Proof/RbeEncP.v,
   Proof/RbeMeasP.v and Proof/RbeAnyClockP.v.

   PARTIAL with respect to the property text: the floating-point delay filter
   (InterArrival burst test, OveruseEstimator, OveruseDetector) is not
   modelled.  Its verdict is an input of every call (a_verdict) and all
   theorems hold for EVERY verdict sequence; that the filter itself never
   raises is not proved (exercised by the oracle only).  The float-rounded
   quantities of AimdRateControl are inputs (a_fl) constrained by fl_admissible
   (|2 c15 - 3 T| <= 2, |100 d85 - 85 T| <= 51, increments >= 0); every check run
   records the actual values from the implementation and asserts these ranges.
   C15_never_raises therefore covers the integer skeleton only. *)
From Coq Require Import ZArith List Bool Lia.
From AV Require Import Lib.Bytes Model.RateCounter Model.Aimd Model.Rbe
  Proof.RateCounterP Proof.AimdP Proof.RbeP Proof.RbeRembP Proof.RbeEncP Proof.RbeMeasP Proof.RbeAnyClockP.
Import ListNotations.
Local Open Scope Z_scope.

(* RateCounter (any window size W > 0, any scale): after ANY history of add /
   rate / reset calls whose clock never goes back, nothing raises (no IndexError,
   no fuel shortage of the erase loop), and a rate(now) call leaves in _total
   exactly (count, sum) of the samples with now - W < t <= now added since the
   last reset, and returns None or round(scale * sum / active_window) where the
   active window starts at max(first sample, now - W + 1)   (rate_spec). *)
Theorem C15_window_exact : forall w sc ops now,
  0 < w -> nondecreasing (times ops ++ [now]) ->
  exists s outs s',
    RateCounter.run (init w sc) ops = (s, outs, 0) /\
    rate s now = Ok (s', rate_spec w sc (samples_after [] ops) now) /\
    (samples_after [] ops <> [] ->
     total s' = (cnt (in_window w now) (samples_after [] ops), vsum (in_window w now) (samples_after [] ops))).
Proof. exact window_exact. Qed.
Print Assumptions C15_window_exact.

(* AimdRateControl.update never raises: for ALL call histories -- any verdicts,
   any throughputs (also None, negative), any clock, any float-rounded inputs.
   (On the unrepaired tree packets_per_frame is 0 at current_bitrate = 0 and
   the model would return Crash; see C15_example_zero_bitrate_additive.) *)
Theorem C15_aimd_never_raises : forall cs, exists s outs, Aimd.run aimd_init cs = (s, outs, 0).
Proof. exact aimd_never_raises. Qed.
Print Assumptions C15_aimd_never_raises.

(* RemoteBitrateEstimator.add (integer skeleton: SSRC dictionary, RateCounter,
   update cadence, AimdRateControl.update) never raises: for ALL arrival
   histories with non-decreasing arrival times -- any send-time stamps, any
   payload sizes, any SSRCs, any detector verdicts, any float-rounded inputs.
   NOT covered: exceptions inside the float code of InterArrival /
   OveruseEstimator / OveruseDetector (the property is partial there). *)
Theorem C15_never_raises : forall l,
  nondecreasing (map a_time l) -> exists s outs, Rbe.run rbe_init l = (s, outs, 0).
Proof. exact rbe_never_raises. Qed.
Print Assumptions C15_never_raises.

(* Every estimate e returned along ANY such history (payload sizes >= 0,
   admissible float inputs): e >= 0; if e exceeds the previous estimate
   (initially 30000000) then e <= int(1.5 T) + 10000 and 2 e <= 3 T + 20002; in a
   call whose verdict is OVERUSING e <= round(0.85 T) and 100 e <= 85 T + 51,
   with T the measured incoming bitrate the rate controller was given
   (latest_estimated_throughput after the call); the SSRC list returned is the
   list of (the 255 newest) distinct SSRCs passed so far in first-seen order.
   (bounds_ok is False as soon as a call raises.) *)
Theorem C15_bounds : forall l,
  nondecreasing (map a_time l) -> Forall (fun a => 0 <= a_size a) l -> fl_admissible rbe_init l ->
  bounds_ok rbe_init 30000000 [] l.
Proof. exact rbe_bounds. Qed.
Print Assumptions C15_bounds.

(* Every estimate 0 <= e < 2^81 with at most 255 SSRCs (32 bit each) is encoded
   by pack_remb_fci without raising, and unpack_remb_fci returns the same SSRCs
   and the value m * 2^k <= e < (m + 1) * 2^k (exact below 2^18). *)
Theorem C15_remb_encodable : forall e ss,
  0 <= e < 2 ^ 81 -> (length ss <= 255)%nat -> Forall (fun x => 0 <= x < 4294967296) ss ->
  exists bs m k,
    pack_remb_fci e ss = Ok bs /\ bytes_ok bs /\ length bs = (8 + 4 * length ss)%nat /\
    unpack_remb_fci bs = Ok (m * 2 ^ k, ss) /\
    0 <= m < 2 ^ 18 /\ 0 <= k <= 63 /\ m * 2 ^ k <= e < (m + 1) * 2 ^ k /\ (e < 2 ^ 18 -> m = e /\ k = 0).
Proof. exact remb_roundtrip. Qed.
Print Assumptions C15_remb_encodable.

(* ... and along ANY run (as in C15_bounds, SSRCs 32 bit, less than 2^60 payload
   bytes in total) every returned (estimate, SSRC list) satisfies these
   premises: 0 <= e < 2^81, at most 255 SSRCs, so the receiver's
   pack_remb_fci call never raises and the REMB decodes to a value <= e. *)
Theorem C15_estimates_encodable : forall l,
  nondecreasing (map a_time l) -> Forall (fun a => 0 <= a_size a) l -> fl_admissible rbe_init l ->
  Forall (fun a => 0 <= a_ssrc a < 4294967296) l -> sum_sizes l <= 2 ^ 60 ->
  exists s outs, Rbe.run rbe_init l = (s, outs, 0) /\ Forall encodable_out outs.
Proof. exact rbe_estimates_encodable. Qed.
Print Assumptions C15_estimates_encodable.

(* T+  The measurement handed to the rate controller is taken over exactly the
   packets of the last 1000 ms of the WHOLE history: the reset() calls inside
   RemoteBitrateEstimator.add never discard a packet that is still inside the
   window.  After every add() call: _total of the rate counter = (count, sum) of
   all packets with now - 1000 < t <= now, and latest_estimated_throughput is
   unchanged or round(8000 * window bytes / active) with 2 <= active <= 1000 ms.
   (measure_ok is False as soon as a call raises.) *)
Theorem C15_measurement_exact : forall l,
  nondecreasing (map a_time l) -> measure_ok rbe_init [] l.
Proof. exact rbe_measure_exact. Qed.
Print Assumptions C15_measurement_exact.

(* T+  Arrival times come from the wall clock, which can step backwards or jump:
   even then nothing raises -- no hypothesis on the history at all (any clock,
   any sizes including negative, any verdicts, any float inputs). *)
Theorem C15_never_raises_any_clock : forall l, exists s outs, Rbe.run rbe_init l = (s, outs, 0).
Proof. exact rbe_never_raises_any_clock. Qed.
Print Assumptions C15_never_raises_any_clock.

Theorem C15_counter_never_raises_any_clock : forall w sc ops,
  0 < w -> exists s outs, RateCounter.run (init w sc) ops = (s, outs, 0).
Proof. exact counter_never_raises. Qed.
Print Assumptions C15_counter_never_raises_any_clock.

(* ---- non-vacuity ------------------------------------------------------------- *)
(* A concrete history satisfying the hypotheses of C15_bounds in which estimates
   are produced: an OVERUSING verdict on the first packet cuts the initial
   30000000 to round(0.85 * 30000000); after 3.1 s of measurements the
   controller is initialised from the measured 19200 bit/s; 600 ms later a
   NORMAL verdict raises the estimate additively to 21600 <= 1.5 * 19200 + 10000. *)
Definition example_history : list arrival :=
  [mkArrival 0 0 100 7 Overusing (mkFl 45000000 25500000 0 0 false);
   mkArrival 600 157286 1200 9 Normal (mkFl 0 0 0 0 false);
   mkArrival 1500 393216 1200 9 Normal (mkFl 0 0 0 0 false);
   mkArrival 2400 629146 1200 9 Normal (mkFl 0 0 0 0 false);
   mkArrival 3300 865075 1200 9 Normal (mkFl 0 0 0 0 false);
   mkArrival 3700 969933 1200 7 Normal (mkFl 28800 16320 0 0 false);
   mkArrival 4300 1127219 1200 7 Normal (mkFl 28800 16320 0 2400 false)].

Example C15_example_bounds :
  nondecreasing (map a_time example_history) /\
  Forall (fun a => 0 <= a_size a) example_history /\
  fl_admissible rbe_init example_history /\
  map fst (snd (fst (Rbe.run rbe_init example_history))) =
    [Some (25500000, [7]); None; None; None; None; Some (19200, [7; 9]); Some (21600, [7; 9])].
Proof.
  split; [cbn; lia|]. split; [repeat constructor; cbn; lia|]. split; [|vm_compute; reflexivity].
  vm_compute.
  repeat match goal with
         | |- _ /\ _ => split
         | |- True => exact I
         | |- (None = None -> False) -> _ => let H := fresh in intros H; exfalso; apply H; reflexivity
         | |- _ -> _ => intros ?
         | |- False => discriminate
         end.
Qed.

(* The repaired line of _near_max_rate_increase is load-bearing: the state
   current_bitrate = 0 with near_max set is reachable (over-use while nothing
   is received), the next NORMAL verdict takes the additive branch, and without
   the `max(1, ..)` packets_per_frame would be ceil(0 / 288000) = 0, the divisor
   of the next statement (ZeroDivisionError on the unrepaired tree). *)
Example C15_example_zero_bitrate_additive :
  let cs := [mkCall Overusing (Some 1000) 0 (mkFl 1500 850 0 0 false);
             mkCall Overusing (Some 0) 3001 (mkFl 0 0 0 0 false)] in
  let s := fst (fst (Aimd.run aimd_init cs)) in
  cb s = 0 /\ near_max s = true /\ ceil_div (cb s) 288000 = 0 /\ packets_per_frame (cb s) = 1 /\
  exists s', update s Normal (Some 0) 3100 (mkFl 0 0 1000 0 false) = Ok (s', Some 0) /\ near_max s' = true.
Proof. vm_compute. repeat split. eexists. split; reflexivity. Qed.
