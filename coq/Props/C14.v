(* C14 -- signalling follows the JSEP state machine; illegal calls have no side effects.
   Property theorems only; proofs live in Proof/JsepP.v.

   Vocabulary (Model/Jsep.v, Model/JsepSpec.v, Proof/JsepP.v):
     step s o          one API call on one RTCPeerConnection: new state and outcome class
                       (Done | InvalidState | ValueErr | Crash = any other exception)
     spec s o          what RFC 8829 / the property demand: outcome class and next signalling state
     in_alphabet o     the call belongs to the property's alphabet: createOffer, createAnswer,
                       setLocalDescription(offer | answer | nothing), setRemoteDescription(offer | answer
                       with ANY content), close.  (Types "pranswer"/"rollback" are outside it.)
     inv s             slot/flag consistency of a state (below, C14_reachable_slots) *)
From Coq Require Import ZArith List Bool.
From AV Require Import Gen.Jsep Model.Jsep Model.JsepSpec Proof.JsepP.
Import ListNotations.
Local Open Scope Z_scope.

(* T. For every consistent state and every call of the alphabet the implementation model (with the
   guard tables regenerated from the Python source) agrees with the JSEP specification on the
   outcome class -- no exception / InvalidStateError / ValueError, never anything else -- and on
   the resulting signalling state. *)
Theorem C14_refines_spec : forall s o, inv s -> in_alphabet o ->
  snd (step s o) = fst (spec s o) /\ sig (fst (step s o)) = snd (spec s o).
Proof. exact refines_spec. Qed.
Print Assumptions C14_refines_spec.

(* T. A call that does not succeed leaves the whole state -- signalling state, closed latch and all
   four description slots -- unchanged.  No hypothesis: any state, any call, any failure class
   (in particular InvalidStateError and ValueError, as the property says). *)
Theorem C14_illegal_is_noop : forall s o,
  snd (step s o) <> Done -> fst (step s o) = s.
Proof. exact rejected_is_noop. Qed.
Print Assumptions C14_illegal_is_noop.

(* ... and emits no 'signalingstatechange' event. *)
Theorem C14_illegal_emits_no_event : forall s o,
  fst (snd (step_full s o)) <> Done -> fst (step_full s o) = s /\ snd (snd (step_full s o)) = false.
Proof. exact rejected_is_noop_full. Qed.
Print Assumptions C14_illegal_emits_no_event.

(* T. closed is absorbing, for EVERY list of calls (induction, no length bound): the state does not
   change at all and every negotiation call returns InvalidStateError (close itself succeeds). *)
Theorem C14_closed_absorbing : forall ops s, inv s -> sig s = Closed -> Forall in_alphabet ops ->
  run s ops = (s, map closed_outcome ops).
Proof.
  intros ops s I Hs Ha. exact (closed_absorbing ops s (closed_flag s I Hs) Hs Ha).
Qed.
Print Assumptions C14_closed_absorbing.

(* The same for calls outside the alphabet (pranswer / rollback descriptions, any content): after
   close nothing changes any more and only close() itself returns normally. *)
Theorem C14_closed_absorbing_any : forall ops s, is_closed s = true -> sig s = Closed ->
  fst (run s ops) = s /\
  Forall2 (fun o r => r = Done -> o = Close) ops (snd (run s ops)).
Proof. exact closed_absorbing_any. Qed.
Print Assumptions C14_closed_absorbing_any.

(* T. Every state reachable from a new peer connection by ANY list of calls of the alphabet is
   consistent (record `inv` in Proof/JsepP.v):
     closed latch set  <->  signalingState = closed;   the pranswer states are never entered;
     have-local-offer  ->  the pending local description is an offer;
     have-remote-offer ->  the pending remote description is an offer;
     stable            ->  nothing was ever applied, or the latest local / remote descriptions are an
                           offer and an answer with the same media sections (kind, mid);
     pending slots only ever hold offers, current slots only ever hold answers.
   ADAPTED from the design ("pending local set iff have-local-offer"): that form is false for
   aiortc, which never moves the pending offer to `current` when the answer arrives (see
   C14_example_pending_offer_survives below); the public localDescription / remoteDescription
   (= pending or current) are nevertheless the latest applied descriptions. *)
Theorem C14_reachable_slots : forall ops, Forall in_alphabet ops -> inv (fst (run init ops)).
Proof. intros ops H. exact (inv_run ops init inv_init H). Qed.
Print Assumptions C14_reachable_slots.

(* Hence, on every reachable state, the refinement holds without side condition ... *)
Theorem C14_reachable_refines_spec : forall ops o, Forall in_alphabet ops -> in_alphabet o ->
  let s := fst (run init ops) in
  snd (step s o) = fst (spec s o) /\ sig (fst (step s o)) = snd (spec s o).
Proof. intros ops o H Ho. exact (refines_spec _ o (inv_run ops init inv_init H) Ho). Qed.
Print Assumptions C14_reachable_refines_spec.

(* ... no call raises anything but InvalidStateError / ValueError (the `None.media` and `None.role`
   attribute errors of the code are unreachable) ... *)
Theorem C14_reachable_never_crashes : forall ops o, Forall in_alphabet ops -> in_alphabet o ->
  snd (step (fst (run init ops)) o) <> Crash.
Proof. intros ops o H Ho. exact (no_crash _ o (inv_run ops init inv_init H) Ho). Qed.
Print Assumptions C14_reachable_never_crashes.

(* ... and every change of signalingState is an edge of the RFC 8829 diagram or close(). *)
Theorem C14_reachable_transitions_are_jsep_edges : forall ops o,
  Forall in_alphabet ops -> in_alphabet o ->
  jsep_edge (sig (fst (run init ops))) (sig (fst (step (fst (run init ops)) o))).
Proof. exact reachable_transitions_are_jsep_edges. Qed.
Print Assumptions C14_reachable_transitions_are_jsep_edges.

(* T+. The same in the words of the property.  For a call that applies description d on side sd
   (setLocalDescription / setRemoteDescription; `applied` resolves the implicit type):
     InvalidStateError  iff  RFC 8829 has no transition for (state, side, type);
     ValueError         iff  the transition exists and d is defective -- some media section lacks ICE
                             credentials, or (answer) a decided DTLS role, or (remote) any DTLS role, or
                             (audio/video) rtcp-mux -- or d is an answer whose (kind, mid) sections differ
                             from the pending offer's;
     success            iff  the transition exists and neither is the case. *)
Theorem C14_outcome_characterised : forall s o sd d, inv s -> in_alphabet o -> applied s o = Some (sd, d) ->
  (snd (step s o) = InvalidState <-> jsep_next (sig s) sd (d_type d) = None) /\
  (snd (step s o) = ValueErr <->
     jsep_next (sig s) sd (d_type d) <> None /\ (defective sd d \/ mismatched s sd d)) /\
  (snd (step s o) = Done <->
     jsep_next (sig s) sd (d_type d) <> None /\ ~ defective sd d /\ ~ mismatched s sd d).
Proof. exact outcome_characterised. Qed.
Print Assumptions C14_outcome_characterised.

(* T+. 'signalingstatechange' fires exactly on a successful setLocal/setRemoteDescription and on the
   first close(). *)
Theorem C14_event_spec : forall s o, inv s -> in_alphabet o ->
  snd (snd (step_full s o)) =
  match o with
  | CreateOffer | CreateAnswer => false
  | Close => negb (is_closed s)
  | _ => match fst (snd (step_full s o)) with Done => true | _ => false end
  end.
Proof. exact event_spec. Qed.
Print Assumptions C14_event_spec.

(* ---- non-vacuity and documented limits ------------------------------------------------ *)
Definition audio0 (r : option role) : media := mkMedia KAudio 0 true r true.
Definition data1 (r : option role) : media := mkMedia KApplication 1 true r false.
Definition offer1 : desc := mkDesc 1 TOffer [audio0 (Some RAuto); data1 (Some RAuto)].
Definition answer2 : desc := mkDesc 2 TAnswer [audio0 (Some RClient); data1 (Some RClient)].
Definition answer_short : desc := mkDesc 3 TAnswer [audio0 (Some RClient)].
Definition answer_actpass : desc := mkDesc 4 TAnswer [audio0 (Some RAuto); data1 (Some RAuto)].
Definition answer_nosetup : desc := mkDesc 5 TAnswer [audio0 None; data1 None].

(* the offerer's side of a negotiation with three rejected calls in the middle, then close *)
Example C14_example_offerer :
  run init [SetLocal (Some offer1) offer1;          (* -> have-local-offer *)
            SetRemote offer1;                       (* glare: InvalidStateError *)
            SetRemote answer_short;                 (* m-section missing: ValueError *)
            SetRemote answer_actpass;               (* role undecided: ValueError *)
            SetRemote answer_nosetup;               (* no a=setup: ValueError (repaired code) *)
            SetRemote answer2;                      (* -> stable *)
            CreateAnswer;                           (* nothing to answer: InvalidStateError *)
            Close; CreateOffer]
  = (mkSt Closed true (Some offer1) None None (Some answer2),
     [Done; InvalidState; ValueErr; ValueErr; ValueErr; Done; InvalidState; Done; InvalidState]).
Proof. vm_compute. reflexivity. Qed.

(* the answerer's side, with the implicit setLocalDescription() choosing "answer" *)
Example C14_example_answerer :
  run init [SetRemote offer1; SetLocal None answer2]
  = (mkSt Stable false None (Some answer2) (Some offer1) None, [Done; Done])
  /\ inv (fst (run init [SetRemote offer1; SetLocal None answer2])).
Proof.
  split; [vm_compute; reflexivity|].
  apply C14_reachable_slots. repeat constructor.
Qed.

(* the hypotheses of C14_closed_absorbing are met after any close *)
Example C14_example_closed :
  let s := fst (run init [SetLocal (Some offer1) offer1; Close]) in
  inv s /\ sig s = Closed.
Proof.
  split; [|vm_compute; reflexivity].
  apply C14_reachable_slots. repeat constructor.
Qed.

(* Documented deviation 1 (private slots only): after the answer arrives the offer stays in the
   PENDING local slot; RFC 8829 4.1.14/4.1.16 would move it to `current`.  aiortc exposes only
   localDescription = pending-or-current, which is unaffected. *)
Example C14_example_pending_offer_survives :
  let s := fst (run init [SetLocal (Some offer1) offer1; SetRemote answer2]) in
  sig s = Stable /\ pend_local s = Some offer1 /\ cur_local s = None.
Proof. vm_compute. repeat split; reflexivity. Qed.

(* Documented deviation 2 (outside the property's alphabet): descriptions of type "rollback" and
   "pranswer" are not checked against the signalling state at all; a rollback in have-local-offer
   "succeeds", leaves the state where it is and overwrites the pending offer. *)
Example C14_example_rollback_outside_alphabet :
  let rb := mkDesc 9 TRollback [] in
  run init [SetLocal (Some offer1) offer1; SetLocal (Some rb) rb]
  = (mkSt HaveLocalOffer false (Some rb) None None None, [Done; Done])
  /\ spec (fst (run init [SetLocal (Some offer1) offer1])) (SetLocal (Some rb) rb) = (Done, Stable).
Proof. vm_compute. split; reflexivity. Qed.
