(* C04 -- DTLS connects only to the fingerprinted peer; both sides derive
   mirror-image SRTP keys.  Property theorems only; proofs are in
   Proof/DtlsP.v, the model in Model/Dtls.v, the algorithm names / SRTP profile
   lengths / State numbers / case tables in the generated Gen/Dtls.v.

   PARTIAL by design: the sentence "every packet sent by one side is received
   intact by the other, packets altered in transit are discarded" is a property
   of OpenSSL and libsrtp given mirrored keys.  It is outside every theorem below
   and is only observed on real transport pairs by harness/props/c04.py.

   Oracles (universally quantified, never axioms): `digest` = certificate_digest
   of the peer certificate, the handshake script, the selected SRTP profile,
   the exported keying material, the per-datagram outcomes of ssl.recv /
   unprotect / transport._send. *)
From Coq Require Import ZArith List Bool Permutation.
From AV Require Import Lib.Bytes Gen.Dtls Model.Dtls Proof.DtlsP.
Import ListNotations.
Local Open Scope Z_scope.

(* ---- identity policy -------------------------------------------------------- *)
(* _validate_peer_identity lets the transport continue IFF at least one signalled
   fingerprint has a supported algorithm (after lower()) and every fingerprint
   with a supported algorithm equals the peer certificate digest (after upper()). *)
Theorem C04_identity_policy : forall digest fps,
  validate_identity digest fps = true <->
  (exists f, In f fps /\ supported (fst f)) /\
  (forall f, In f fps -> supported (fst f) -> matches digest f).
Proof. exact identity_policy. Qed.
Print Assumptions C04_identity_policy.

(* order is irrelevant *)
Theorem C04_identity_order_irrelevant : forall digest fps fps',
  Permutation fps fps' -> validate_identity digest fps = validate_identity digest fps'.
Proof. exact identity_permutation. Qed.
Print Assumptions C04_identity_order_irrelevant.

(* fingerprints with unsupported algorithms are ignored: removing all of them,
   or inserting one anywhere, does not change the verdict *)
Theorem C04_identity_unsupported_ignored : forall digest fps,
  validate_identity digest (filter (fun f => supportedb (fst f)) fps) = validate_identity digest fps.
Proof. exact identity_unsupported_ignored. Qed.
Print Assumptions C04_identity_unsupported_ignored.

Theorem C04_identity_unsupported_insert : forall digest pre f post,
  ~ supported (fst f) ->
  validate_identity digest (pre ++ f :: post) = validate_identity digest (pre ++ post).
Proof. exact identity_unsupported_insert. Qed.
Print Assumptions C04_identity_unsupported_insert.

(* case-insensitive: changing the case of ASCII letters anywhere in any
   algorithm name or value does not change the verdict *)
Theorem C04_identity_case_insensitive : forall digest fps fps',
  Forall2 fp_ci fps fps' -> validate_identity digest fps = validate_identity digest fps'.
Proof. exact identity_case_insensitive. Qed.
Print Assumptions C04_identity_case_insensitive.

(* For ASCII fingerprints and an upper-case ASCII digest (what
   certificate_digest returns) the policy reads, without reference to lower() /
   upper(): some algorithm is one of the generated names up to case, and every
   such fingerprint's value is the digest up to case. *)
Theorem C04_identity_policy_ascii : forall digest fps,
  Forall (fun f => ascii (fst f) /\ ascii (snd f)) fps ->
  (forall n, In n dtls_X509_DIGEST_ALGORITHMS -> ascii (digest n) /\ str_upper (digest n) = digest n) ->
  (validate_identity digest fps = true <->
   (exists f n, In f fps /\ In n dtls_X509_DIGEST_ALGORITHMS /\ ci_eq (fst f) n) /\
   (forall f n, In f fps -> In n dtls_X509_DIGEST_ALGORITHMS -> ci_eq (fst f) n ->
                ci_eq (snd f) (digest n))).
Proof. exact identity_policy_ascii. Qed.
Print Assumptions C04_identity_policy_ascii.

(* ---- the gate ------------------------------------------------------------------ *)
(* When start() returns on a fresh transport, (state, SRTP sessions installed,
   pump started) is (CONNECTED, yes, yes) if the handshake, the identity check
   and the SRTP profile lookup all succeeded and (FAILED, no, no) otherwise. *)
Theorem C04_gate : forall digest t i t1 outs,
  fresh_like t -> start true digest t i = StartRet t1 outs ->
  (t_state t1, keys_installed t1, t_pump t1) =
  start_decision (handshake_ok true t i) (identity_ok digest i) (srtp_ok t i).
Proof. exact (start_decision_spec true). Qed.
Print Assumptions C04_gate.

(* Whatever start() did -- returned, raised, or is still waiting for the peer --
   CONNECTED, SRTP sessions or a running pump exist ONLY IF all three stages
   succeeded (and then start() returned). *)
Theorem C04_gate_only_if : forall digest t i,
  fresh_like t ->
  let r := start true digest t i in
  t_state (res_tr r) = CONNECTED \/ keys_installed (res_tr r) = true \/ t_pump (res_tr r) = true ->
  (exists outs, r = StartRet (res_tr r) outs) /\
  handshake_ok true t i = true /\ identity_ok digest i = true /\ srtp_ok t i = true.
Proof. exact (start_only_if true). Qed.
Print Assumptions C04_gate_only_if.

(* Nothing is handed to the data receiver or to RTP/RTCP handling while start()
   drives the handshake, whatever datagrams arrive and whatever OpenSSL returns. *)
Theorem C04_gate_silent_until_connected : forall digest t i,
  fresh_like t -> Forall (fun o => o = RxNone) (res_outs (start true digest t i)).
Proof. exact start_silent. Qed.
Print Assumptions C04_gate_silent_until_connected.

(* If any stage failed then, for EVERY later history of application calls and
   arriving datagrams, every _send_rtp / _send_data raises ConnectionError,
   no datagram is processed, nothing is delivered, and the state never changes
   (in particular it never becomes CONNECTED); the state is FAILED when start()
   returned. *)
Theorem C04_gate_failed_is_silent : forall digest t i ops,
  fresh_like t ->
  handshake_ok true t i && identity_ok digest i && srtp_ok t i = false ->
  let t1 := res_tr (start true digest t i) in
  t_state t1 <> CONNECTED /\
  (forall outs, start true digest t i = StartRet t1 outs -> t_state t1 = FAILED) /\
  fst (run true t1 ops) = t1 /\
  Forall quiet (snd (run true t1 ops)) /\
  (forall data p s, step true t1 (OpSendRtp data p s) = (t1, OConnErr)) /\
  (forall data b s, step true t1 (OpSendData data b s) = (t1, OConnErr)).
Proof.
  intros digest t i ops Hf Hno t1.
  pose proof (start_failed_down digest t i Hf Hno) as Hd.
  destruct (run_down ops _ Hd) as [H1 H2]. destruct Hd as [Hs Hp].
  split; [exact Hs|]. split; [intros outs E; exact (start_failed_state digest t i t1 outs Hf E Hno)|].
  split; [exact H1|]. split; [exact H2|].
  split; intros; [apply send_rtp_guard | apply send_data_guard]; exact Hs.
Qed.
Print Assumptions C04_gate_failed_is_silent.

(* Contrapositive over whole histories: anything handed to a receiver or sent
   to the peer implies that the peer's certificate passed the policy (and the
   handshake and SRTP negotiation succeeded). *)
Theorem C04_delivery_implies_validated : forall digest t i ops,
  fresh_like t ->
  let r := start true digest t i in
  (exists x, In x (snd (run true (res_tr r) ops)) /\ ~ quiet x) ->
  handshake_ok true t i = true /\ identity_ok digest i = true /\ srtp_ok t i = true.
Proof. exact delivery_implies_validated. Qed.
Print Assumptions C04_delivery_implies_validated.

(* The defect repaired by the `fix:` commit (state guard in _recv_next): the
   code WITHOUT the guard (`start false`) hands application data of a peer whose
   certificate fails the policy to the data receiver and then ends in FAILED. *)
Theorem C04_gate_unguarded_refuted :
  exists digest t i t1 d,
    fresh_like t /\ identity_ok digest i = false /\
    start false digest t i = StartRet t1 [RxData d] /\ t_state t1 = FAILED.
Proof.
  exists (fun _ => [66; 66]), (fresh RClient [] true),
         (mkStartIn false [([115; 104; 97; 45; 50; 53; 54], [65; 65])]
                    [HsWantRead false true (IceDgram (mkDgram [22] (SslData [1; 2; 3]) false true None)); HsDone]
                    None []).
  eexists. exists [1; 2; 3]. split; [apply fresh_is_fresh|]. split; [vm_compute; reflexivity|].
  split; vm_compute; reflexivity.
Qed.
Print Assumptions C04_gate_unguarded_refuted.

(* ---- keys ----------------------------------------------------------------------- *)
(* For every key length k and salt length s and every keying material m of
   length 2(k+s): m = client_key ++ server_key ++ client_salt ++ server_salt
   (disjoint ranges of m), the client sends with client_key++client_salt and
   receives with server_key++server_salt, and the server does the opposite. *)
Theorem C04_keys_mirror : forall k s m,
  0 <= k -> 0 <= s -> len m = (k + s) * 2 -> keys_mirror_at k s m.
Proof. exact keys_mirror. Qed.
Print Assumptions C04_keys_mirror.

(* ... in particular for every profile of the generated table *)
Theorem C04_keys_mirror_profiles :
  Forall (fun p => forall m, len m = (snd (fst p) + snd p) * 2 ->
                   keys_mirror_at (snd (fst p)) (snd p) m /\
                   fst (setup_keys RClient (snd (fst p)) (snd p) m) = snd (setup_keys RServer (snd (fst p)) (snd p) m) /\
                   fst (setup_keys RServer (snd (fst p)) (snd p) m) = snd (setup_keys RClient (snd (fst p)) (snd p) m) /\
                   len (fst (setup_keys RClient (snd (fst p)) (snd p) m)) = snd (fst p) + snd p /\
                   len (fst (setup_keys RServer (snd (fst p)) (snd p) m)) = snd (fst p) + snd p)
         dtls_SRTP_PROFILES.
Proof.
  eapply Forall_impl; [|exact keys_mirror_table]. intros p H m Hm.
  split; [exact (H m Hm) | exact (keys_mirror_consequences _ _ _ (H m Hm))].
Qed.
Print Assumptions C04_keys_mirror_profiles.

(* Transport level: when a server-role and a client-role transport both reach
   CONNECTED on the same selected profile and the same exported material, each
   side's send key is the other side's receive key. *)
Theorem C04_keys_mirror_connected : forall dA dB tA tB iA iB tA1 tB1 oA oB,
  fresh_like tA -> fresh_like tB ->
  start true dA tA iA = StartRet tA1 oA -> start true dB tB iB = StartRet tB1 oB ->
  t_state tA1 = CONNECTED -> t_state tB1 = CONNECTED ->
  start_role tA iA = RServer -> start_role tB iB = RClient ->
  si_selected iA = si_selected iB -> si_material iA = si_material iB ->
  (forall pa pb, In pa (t_profiles tA) -> In pb (t_profiles tB) -> p_name pa = p_name pb ->
                 p_key pa = p_key pb /\ p_salt pa = p_salt pb) ->
  t_tx_key tA1 = t_rx_key tB1 /\ t_rx_key tA1 = t_tx_key tB1 /\ t_profile tA1 = t_profile tB1.
Proof. exact (both_connected_mirror true true). Qed.
Print Assumptions C04_keys_mirror_connected.

(* ---- the receive dispatch, relative to the library oracles (T+) -------------------- *)
(* The packet-protection sentence itself is NOT proved (OpenSSL / libsrtp). What
   is proved is aiortc's share of it: given the verdict of the library on a
   datagram, the transport hands over exactly what was decrypted/authenticated
   and nothing else. *)

(* Whatever the pump hands to a receiver is the successful decryption /
   authentication result of exactly that datagram, routed by is_rtcp. *)
Theorem C04_recv_sound : forall t g o,
  recv_next true t g = RxOk o ->
  match o with
  | RxNone => True
  | RxData d => dg_ssl g = SslData d /\ d <> [] /\ t_receiver t = true
  | RxRtp p => dg_unprotect g = Some p /\ is_rtcp (dg_data g) = false /\ t_rx_key t <> None
  | RxRtcp p => dg_unprotect g = Some p /\ is_rtcp (dg_data g) = true /\ t_rx_key t <> None
  end.
Proof. exact (recv_next_sound true). Qed.
Print Assumptions C04_recv_sound.

(* A datagram the libraries reject (altered in transit) is discarded: nothing is
   handed over and the transport is unchanged -- it stays connected. *)
Theorem C04_unauthenticated_dropped : forall t g,
  t_pump t = true -> dg_data g <> [] ->
  dg_unprotect g = None -> dg_ssl g = SslError ->
  (dg_bio g = true -> dg_send_ok g = true) ->
  step true t (OpDgram g) = (t, ORx RxNone).
Proof. exact step_unauthenticated_dropped. Qed.
Print Assumptions C04_unauthenticated_dropped.

(* What the libraries accept is delivered unchanged. *)
Theorem C04_authenticated_delivered : forall t data,
  t_pump t = true -> t_state t = CONNECTED ->
  (forall d bio unp, t_receiver t = true -> d <> [] ->
     (exists fb rest, data = fb :: rest /\ 19 < fb < 64) ->
     step true t (OpDgram (mkDgram data (SslData d) bio true unp)) = (t, ORx (RxData d))) /\
  (forall p sslr bio sok, t_rx_key t <> None ->
     (exists fb rest, data = fb :: rest /\ 127 < fb < 192) ->
     step true t (OpDgram (mkDgram data sslr bio sok (Some p))) =
     (t, ORx (if is_rtcp data then RxRtcp p else RxRtp p))).
Proof.
  intros t data Hp Hs. split.
  - intros d bio unp Hr Hd Hfb. apply step_data_delivered; assumption.
  - intros p sslr bio sok Hk Hfb. apply step_srtp_delivered; assumption.
Qed.
Print Assumptions C04_authenticated_delivered.

(* ---- non-vacuity ------------------------------------------------------------------ *)
Definition ex_sha256 : str := [115; 104; 97; 45; 50; 53; 54].
Definition ex_digest (a : str) : str := if bytes_eqb a ex_sha256 then [65; 66; 58; 48; 49] else [70; 70].
Definition ex_profiles : list profile := map (fun p => mkProfile (fst (fst p)) (snd (fst p)) (snd p)) dtls_SRTP_PROFILES.
Definition ex_material : bytes := map Z.of_nat (seq 0 88).
Definition ex_in (v : str) : start_in :=
  mkStartIn true [([83; 72; 65; 45; 50; 53; 54], v); ([109; 100; 53], [48; 48])]
            [HsWantRead true true (IceDgram (mkDgram [22] SslError true true None)); HsDone]
            (Some (fst (fst dtls_SRTP_AEAD_AES_256_GCM))) ex_material.

(* "SHA-256 ab:01" plus an unsupported md5 entry: all stages pass, CONNECTED,
   and a datagram that decrypts is handed to the data receiver *)
Example C04_example_connected :
  let r := start true ex_digest (fresh RAuto ex_profiles true) (ex_in [97; 98; 58; 48; 49]) in
  t_state (res_tr r) = CONNECTED /\ keys_installed (res_tr r) = true /\ t_pump (res_tr r) = true /\
  snd (run true (res_tr r) [OpDgram (mkDgram [23] (SslData [7; 7]) false true None);
                            OpSendData [1] true true])
  = [ORx (RxData [7; 7]); OSentData].
Proof. vm_compute. repeat split; reflexivity. Qed.

(* a wrong value: FAILED, the hypotheses of C04_gate_failed_is_silent hold *)
Example C04_example_failed :
  let t := fresh RAuto ex_profiles true in
  let i := ex_in [97; 98; 58; 48; 50] in
  fresh_like t /\ handshake_ok true t i && identity_ok ex_digest i && srtp_ok t i = false /\
  exists outs, start true ex_digest t i = StartRet (res_tr (start true ex_digest t i)) outs /\
               t_state (res_tr (start true ex_digest t i)) = FAILED.
Proof.
  split; [apply fresh_is_fresh|]. split; [vm_compute; reflexivity|].
  eexists. split; vm_compute; reflexivity.
Qed.

(* the mirror hypotheses are met by the 88 bytes 0..87 and the first profile *)
Example C04_example_mirror :
  setup_keys RClient 32 12 ex_material =
    (map Z.of_nat (seq 0 32 ++ seq 64 12), map Z.of_nat (seq 32 32 ++ seq 76 12)) /\
  setup_keys RServer 32 12 ex_material =
    (map Z.of_nat (seq 32 32 ++ seq 76 12), map Z.of_nat (seq 0 32 ++ seq 64 12)).
Proof. vm_compute. split; reflexivity. Qed.

(* the hypotheses of C04_identity_policy_ascii are met by an upper-case hex digest *)
Example C04_example_policy_ascii :
  let fps := [([83; 72; 65; 45; 50; 53; 54], [97; 98; 58; 48; 49]); ([109; 100; 53], [48; 48])] in
  Forall (fun f => ascii (fst f) /\ ascii (snd f)) fps /\
  (forall n, In n dtls_X509_DIGEST_ALGORITHMS ->
             ascii (ex_digest n) /\ str_upper (ex_digest n) = ex_digest n) /\
  validate_identity ex_digest fps = true.
Proof.
  split; [repeat (constructor; [split; apply asciib_ok; reflexivity|]); constructor|].
  split; [|vm_compute; reflexivity].
  intros n Hin. cbn in Hin.
  repeat (destruct Hin as [Hin | Hin]; [subst n; split; [apply asciib_ok; reflexivity | reflexivity]|]).
  contradiction.
Qed.
