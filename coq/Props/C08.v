(* C08 -- placeholder while the proofs are being built *)
From Coq Require Import ZArith List Bool.
From AV Require Import Lib.Bytes Model.Crc32c Model.SctpWire.
Import ListNotations.
Local Open Scope Z_scope.

Theorem C08_crc_check_value : crc32c [49;50;51;52;53;54;55;56;57] = 3808858755.
Proof. vm_compute. reflexivity. Qed.
Print Assumptions C08_crc_check_value.
