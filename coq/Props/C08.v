(* C08 -- SCTP packets round-trip exactly; corrupted packets are rejected by the
   checksum.  Property theorems only; proofs live in Proof/Crc32cP.v,
   Proof/SctpWireP.v, Proof/SctpWireRtP.v, Proof/SctpWireWfP.v, Proof/SctpBurstP.v and (parser
   totality, shared with C05) Proof/SctpWireTotalP.v.

   `chunk_okb c = true` is "every field of c is in the range struct.pack accepts
   and the type number is one of the 15 chunk classes"; `checksum_okb p = true`
   is "the CRC-32C stored in bytes 8..11 of p is the CRC of p with that field
   zeroed".  Bits are numbered in the order CRC-32C consumes them (= order of
   transmission): bit i of a packet is bit (i mod 8), least significant first,
   of byte (i / 8); the checksum field is bits 64..95. *)
From Coq Require Import ZArith List Bool Arith.
From AV Require Import Lib.Bytes Lib.BytesP Gen.SctpConst Model.Crc32c Model.SctpWire
  Proof.Crc32cP Proof.SctpWireP Proof.SctpWireRtP Proof.SctpWireTotalP Proof.SctpBurstP Proof.SctpWireWfP.
Import ListNotations.
Local Open Scope Z_scope.

(* ---------------------------------------------------------------- round trip *)

(* Every well-formed chunk of each of the 15 types (any flags, any field values in wire
   range, any parameter list / gap list / duplicate list / stream list / user data, all
   lengths and all padding residues) serialises; the packet parses back to exactly the
   same ports, tag and chunk; and whatever parse_packet returns for that packet
   serialises to the identical bytes. *)
Theorem C08_chunk_roundtrip : forall sp dp tag c,
  in_u16 sp = true -> in_u16 dp = true -> in_u32 tag = true -> chunk_okb c = true ->
  exists data,
    serialize_packet sp dp tag c = Ok data /\ bytes_ok data /\
    parse_packet data = Ok (sp, dp, tag, [c]) /\
    (forall sp' dp' tag' c', parse_packet data = Ok (sp', dp', tag', [c']) ->
                             serialize_packet sp' dp' tag' c' = Ok data).
Proof.
  intros sp dp tag c Hsp Hdp Htag Hc.
  destruct (chunk_roundtrip sp dp tag c Hsp Hdp Htag Hc) as (data & S & B & P).
  exists data. repeat split; try assumption.
  intros sp' dp' tag' c' P'. rewrite P in P'. injection P' as <- <- <- <-. exact S.
Qed.
Print Assumptions C08_chunk_roundtrip.

(* the parser also inverts bundles of several chunks (aiortc never sends them, peers may) *)
Theorem C08_bundle_roundtrip : forall sp dp tag cs,
  in_u16 sp = true -> in_u16 dp = true -> in_u32 tag = true ->
  forallb chunk_okb cs = true -> cs <> [] ->
  parse_packet (packet_bytes sp dp tag (flat_map chunk_bytes cs)) = Ok (sp, dp, tag, cs).
Proof. exact parse_packet_bundle. Qed.
Print Assumptions C08_bundle_roundtrip.

Theorem C08_params_roundtrip : forall ps,
  params_okb ps = true -> decode_params (encode_params ps) = Ok ps /\ bytes_ok (encode_params ps).
Proof. intros ps H. split; [now apply decode_encode_params|now apply encode_params_ok]. Qed.
Print Assumptions C08_params_roundtrip.

Theorem C08_reconfig_param_roundtrip : forall p,
  rparam_okb p = true ->
  reconfig_param_parse (rparam_type p) (rparam_bytes p) = Some (Ok p) /\ bytes_ok (rparam_bytes p).
Proof. exact rparam_roundtrip. Qed.
Print Assumptions C08_reconfig_param_roundtrip.

(* Conversely, whatever parse_packet returns for ANY received byte string is well formed: ports,
   tag and every field of every chunk are in wire range, so each parsed chunk (for instance the
   parameters of a HEARTBEAT that are echoed back) can be serialised without struct.error ... *)
Theorem C08_parsed_wellformed : forall data sp dp tag cs,
  bytes_ok data -> parse_packet data = Ok (sp, dp, tag, cs) ->
  in_u16 sp = true /\ in_u16 dp = true /\ in_u32 tag = true /\ forallb chunk_okb cs = true.
Proof. exact parse_packet_wf. Qed.
Print Assumptions C08_parsed_wellformed.

(* ... and parse ; serialise ; parse = parse *)
Theorem C08_parse_serialize_parse : forall data sp dp tag cs,
  bytes_ok data -> parse_packet data = Ok (sp, dp, tag, cs) -> cs <> [] ->
  parse_packet (packet_bytes sp dp tag (flat_map chunk_bytes cs)) = Ok (sp, dp, tag, cs).
Proof. exact parse_serialize_parse. Qed.
Print Assumptions C08_parse_serialize_parse.

(* a received chunk of a class with mandatory fixed fields (DATA, INIT, INIT-ACK, SACK, SHUTDOWN,
   FORWARD-TSN) whose body is empty is rejected, wherever it stands in the packet's first position
   and whatever follows -- it is never turned into a chunk with default field values (TSN 0 ...) *)
Theorem C08_empty_fixed_chunk_rejected : forall sp dp tag ty fl rest,
  in_u16 sp = true -> in_u16 dp = true -> in_u32 tag = true ->
  has_fixed_part ty = true -> in_u8 fl = true ->
  parse_packet (packet_bytes sp dp tag (generic_bytes ty fl [] ++ rest)) = ValueErr.
Proof. exact empty_fixed_chunk_rejected. Qed.
Print Assumptions C08_empty_fixed_chunk_rejected.

(* ---------------------------------------------------------------- CRC-32C *)
Theorem C08_crc_check_value : crc32c [49; 50; 51; 52; 53; 54; 55; 56; 57] = 3808858755.
Proof. vm_compute. reflexivity. Qed.
Print Assumptions C08_crc_check_value.

Theorem C08_crc_linear : forall s t a b,
  length s = 32%nat -> length t = 32%nat ->
  step (xor_bits s t) (xorb a b) = xor_bits (step s a) (step t b).
Proof. exact step_linear. Qed.
Print Assumptions C08_crc_linear.

Theorem C08_crc_step_injective : forall s t b,
  length s = 32%nat -> length t = 32%nat -> step s b = step t b -> s = t.
Proof. exact step_injective. Qed.
Print Assumptions C08_crc_step_injective.

Theorem C08_run_zero_inv : forall input s,
  length s = 32%nat -> (length input <= 32)%nat -> run s input = zeros32 ->
  s = input ++ repeat false (32 - length input).
Proof. exact run_zero_inv. Qed.
Print Assumptions C08_run_zero_inv.

(* two equally long byte strings that differ by a non-zero pattern confined to <= 32
   consecutive bits never have the same CRC-32C *)
Theorem C08_crc_detects_bursts : forall x e k w m,
  length x = length e ->
  bytes_bits e = repeat false k ++ w ++ repeat false m -> (length w <= 32)%nat -> In true w ->
  crc32c (xor_bytes x e) <> crc32c x.
Proof. intros x e k w m Hl Hb Hw Hin. apply crc32c_burst; [exact Hl|]. exists k, w, m. auto. Qed.
Print Assumptions C08_crc_detects_bursts.

(* ---------------------------------------------------------------- corrupted packets *)

(* A packet p with a correct checksum, altered by a non-zero error pattern e whose flipped
   bits lie in a window w of at most 32 consecutive bits starting at bit k, the window lying
   entirely before (k + |w| <= 64) or entirely after (96 <= k) the checksum field: rejected. *)
Theorem C08_burst_detected : forall p e k w m,
  bytes_ok e -> length e = length p -> checksum_okb p = true ->
  bytes_bits e = repeat false k ++ w ++ repeat false m -> (length w <= 32)%nat -> In true w ->
  (k + length w <= 64 \/ 96 <= k)%nat ->
  parse_packet (xor_bytes p e) = ValueErr.
Proof. exact burst_window_outside_rejected. Qed.
Print Assumptions C08_burst_detected.

(* ... window entirely inside the checksum field: rejected (the stored value changes, the
   computed one does not) *)
Theorem C08_burst_detected_inside : forall p e k w m,
  bytes_ok p -> bytes_ok e -> length e = length p -> checksum_okb p = true ->
  bytes_bits e = repeat false k ++ w ++ repeat false m -> In true w ->
  (64 <= k /\ k + length w <= 96)%nat ->
  parse_packet (xor_bytes p e) = ValueErr.
Proof. exact burst_window_inside_rejected. Qed.
Print Assumptions C08_burst_detected_inside.

(* the packets the theorems are about exist: everything serialize_packet produces has a
   correct checksum, so the two theorems above apply to every packet aiortc sends *)
Theorem C08_serialized_checksum_ok : forall sp dp tag c data,
  serialize_packet sp dp tag c = Ok data -> checksum_okb data = true.
Proof.
  intros sp dp tag c data H. unfold serialize_packet in H.
  destruct (in_u16 sp && in_u16 dp && in_u32 tag && chunk_okb c); [|discriminate].
  injection H as <-. apply packet_bytes_checksum_ok.
Qed.
Print Assumptions C08_serialized_checksum_ok.

(* a packet whose stored checksum is wrong never reaches chunk processing *)
Theorem C08_bad_checksum_rejected : forall data, checksum_okb data = false -> parse_packet data = ValueErr.
Proof. exact parse_packet_bad_checksum. Qed.
Print Assumptions C08_bad_checksum_rejected.

(* The property as written ("ANY single burst of up to 32 bits") is false -- for every RFC 4960
   implementation: the hypothesis on the window position in C08_burst_detected cannot be dropped.
   Witness: a valid COOKIE-ACK packet, error pattern within the 30 bits 55..84 (9 bits of the
   verification tag, 21 bits of the checksum field), accepted.  Known finding K6. *)
Theorem C08_burst_straddling_refuted :
  exists p e k w m r,
    bytes_ok p /\ bytes_ok e /\ length e = length p /\ checksum_okb p = true /\
    bytes_bits e = repeat false k ++ w ++ repeat false m /\ (length w <= 32)%nat /\ In true w /\
    parse_packet (xor_bytes p e) = Ok r.
Proof.
  exists k6_packet, k6_error, 55%nat, k6_window, 43%nat, (5000, 5000, 32853, [CPlain 11 0 []]).
  exact burst_straddling_witness.
Qed.
Print Assumptions C08_burst_straddling_refuted.

(* ---------------------------------------------------------------- parser totality (for C05) *)
(* On EVERY byte string each parser returns a value or ValueError: never another exception,
   and its loops finish within the fuel length + 1. *)
Theorem C08_decode_params_total : forall b, total (decode_params b).
Proof. exact decode_params_total. Qed.
Print Assumptions C08_decode_params_total.

Theorem C08_parse_packet_total : forall b, bytes_ok b -> total (parse_packet b).
Proof. exact parse_packet_total. Qed.
Print Assumptions C08_parse_packet_total.

Theorem C08_reconfig_params_parse_total : forall ty b,
  match reconfig_param_parse ty b with Some r => total r | None => True end.
Proof. exact reconfig_param_parse_total. Qed.
Print Assumptions C08_reconfig_params_parse_total.

(* ---------------------------------------------------------------- non-vacuity *)
(* one well-formed chunk of each of the 15 types, with parameter / data lengths of all residues mod 4 *)
Definition ex_chunks : list chunk :=
  [ CData 3 4294967295 65535 0 51 [104; 105; 33];
    CInit 1 0 1 131072 65535 65535 4294967295 [(49152, []); (32776, [192]); (7, [1; 2]); (9, [1; 2; 3])];
    CInit 2 0 2 3 4 5 6 [(7, [1; 2; 3; 4; 5])];
    CSack 0 10 1000 [(2, 3); (5, 5)] [7; 4294967295];
    CParams 4 0 [(1, [1; 2; 3; 4; 5; 6])];
    CParams 5 0 [(1, [9])];
    CParams 6 1 [];
    CShutdown 0 77;
    CPlain 8 0 [];
    CParams 9 0 [(3, [0; 0; 0; 1])];
    CPlain 10 0 [1; 2; 3; 4; 5];
    CPlain 11 0 [];
    CPlain 14 1 [];
    CParams 130 0 [(13, [0; 0; 0; 1; 0; 0; 0; 2; 0; 0; 0; 3; 0; 7])];
    CForwardTsn 0 99 [(1, 2); (65535, 65535)] ].

Example C08_example_all_types :
  forallb chunk_okb ex_chunks = true /\
  map chunk_type ex_chunks = [0; 1; 2; 3; 4; 5; 6; 7; 8; 9; 10; 11; 14; 130; 192] /\
  parse_packet (packet_bytes 5000 5001 12345 (flat_map chunk_bytes ex_chunks)) = Ok (5000, 5001, 12345, ex_chunks).
Proof. split; [reflexivity|]. split; [reflexivity|]. vm_compute. reflexivity. Qed.

(* the hypotheses of C08_burst_detected are satisfiable: flip bits 3 and 30 of a valid packet *)
Example C08_example_burst :
  let p := k6_packet in
  let e := [9; 0; 0; 64; 0; 0; 0; 0; 0; 0; 0; 0; 0; 0; 0; 0] in
  let w := skipn 0 (firstn 31 (bytes_bits e)) in
  bytes_ok e /\ length e = length p /\ checksum_okb p = true /\
  bytes_bits e = repeat false 0 ++ w ++ repeat false 97 /\ (length w <= 32)%nat /\ In true w /\
  (0 + length w <= 64 \/ 96 <= 0)%nat /\ parse_packet (xor_bytes p e) = ValueErr.
Proof.
  cbv zeta. split; [apply bytes_okb_ok; reflexivity|]. split; [reflexivity|]. split; [vm_compute; reflexivity|].
  split; [vm_compute; reflexivity|]. split; [apply Nat.leb_le; vm_compute; reflexivity|].
  split; [vm_compute; tauto|].
  split; [left; apply Nat.leb_le; vm_compute; reflexivity|]. vm_compute. reflexivity.
Qed.
